package lin

// C50 — independent scope model for access modifiers and constant fields.
//
// Nothing in this file looks at sema: the verdict is computed from the site descriptor alone
// (modifier, member kind, declaring composite kind, lexical placement of the site, deploying
// account, held authorization, operation).

import "strings"

// ---------------------------------------------------------------- vocabulary

// access modifiers of the fragment
const (
	c50ModSelf = iota
	c50ModContract
	c50ModAccount
	c50ModAll
	c50ModE
	c50ModEorF
	c50ModEandF
	c50NumMods
)

var c50ModNames = [c50NumMods]string{"self", "contract", "account", "all", "E", "E|F", "E,F"}

// member kinds
const (
	c50MKLet = iota
	c50MKVar
	c50MKFun
	c50NumMKs
)

var c50MKNames = [c50NumMKs]string{"field-let", "field-var", "function"}

// declaring composite kinds
const (
	c50DeclContract = iota
	c50DeclStruct
	c50DeclResource
	c50NumDecls
)

var c50DeclNames = [c50NumDecls]string{"contract", "struct", "resource"}

// site scopes (fine). "sibling" scopes exist when the declaring composite is nested in a contract,
// "nested" scopes when the declaring composite is the contract itself (same physical placement).
const (
	c50ScDeclFn = iota
	c50ScDeclInit
	c50ScInnerStructFn // sibling-/nested- struct function in the declaring contract
	c50ScInnerStructInit
	c50ScInnerResFn
	c50ScInnerResInit
	c50ScInnerIfaceFn // default function of a struct interface in the declaring contract
	c50ScContractFn   // the enclosing contract's own function (declaring composite is nested)
	c50ScContractInit
	c50ScAcctContractFn // another contract deployed to the same account
	c50ScAcctContractInit
	c50ScAcctNestedFn
	c50ScOtherContractFn // a contract deployed to another account
	c50ScOtherContractInit
	c50ScOtherNestedFn
	c50ScScriptFn
	c50ScScriptCompFn
	c50ScTxPrepare
	c50ScTxExecute
	c50NumScopes
)

func c50ScopeName(sc, decl int) string {
	inner := "sibling"
	if decl == c50DeclContract {
		inner = "nested"
	}
	switch sc {
	case c50ScDeclFn:
		return "decl-fn"
	case c50ScDeclInit:
		return "decl-init"
	case c50ScInnerStructFn:
		return inner + "-struct-fn"
	case c50ScInnerStructInit:
		return inner + "-struct-init"
	case c50ScInnerResFn:
		return inner + "-resource-fn"
	case c50ScInnerResInit:
		return inner + "-resource-init"
	case c50ScInnerIfaceFn:
		return inner + "-interface-fn"
	case c50ScContractFn:
		return "contract-fn"
	case c50ScContractInit:
		return "contract-init"
	case c50ScAcctContractFn:
		return "same-account-contract-fn"
	case c50ScAcctContractInit:
		return "same-account-contract-init"
	case c50ScAcctNestedFn:
		return "same-account-nested-fn"
	case c50ScOtherContractFn:
		return "other-account-contract-fn"
	case c50ScOtherContractInit:
		return "other-account-contract-init"
	case c50ScOtherNestedFn:
		return "other-account-nested-fn"
	case c50ScScriptFn:
		return "script-fn"
	case c50ScScriptCompFn:
		return "script-composite-fn"
	case c50ScTxPrepare:
		return "transaction-prepare"
	case c50ScTxExecute:
		return "transaction-execute"
	}
	return "?"
}

// c50ScopeClass is the coarse scope kind of the property statement.
func c50ScopeClass(sc, decl int) string {
	switch sc {
	case c50ScDeclFn, c50ScDeclInit:
		return "declaring-composite"
	case c50ScInnerStructFn, c50ScInnerStructInit, c50ScInnerResFn, c50ScInnerResInit, c50ScInnerIfaceFn:
		if decl == c50DeclContract {
			return "nested-composite"
		}
		return "sibling-composite"
	case c50ScContractFn, c50ScContractInit:
		return "same-contract"
	case c50ScAcctContractFn, c50ScAcctContractInit, c50ScAcctNestedFn:
		return "same-account"
	case c50ScOtherContractFn, c50ScOtherContractInit, c50ScOtherNestedFn:
		return "other-account"
	case c50ScScriptFn, c50ScScriptCompFn:
		return "script"
	}
	return "transaction"
}

func c50ScopeIsInit(sc int) bool {
	switch sc {
	case c50ScDeclInit, c50ScInnerStructInit, c50ScInnerResInit, c50ScContractInit,
		c50ScAcctContractInit, c50ScOtherContractInit:
		return true
	}
	return false
}

func c50ScopeIsTx(sc int) bool { return sc == c50ScTxPrepare || sc == c50ScTxExecute }

// operations
const (
	c50OpRead = iota
	c50OpCall
	c50OpAssign         // RECV.f = v at the site (in decl-init through self this is a second assignment)
	c50OpFlowIfElse     // init: if c { self.f = a } else { self.f = b }
	c50OpFlowIfAgain    // init: if c { self.f = a }; self.f = b
	c50OpFlowThenIf     // init: self.f = a; if c { self.f = b }
	c50OpFlowReturn     // init: self.f = a; if c { return }; self.f = b
	c50OpFlowWhileAgain // init: while .. { self.f = a }; self.f = b
	c50OpFlowForAgain   // init: for .. { self.f = a }; self.f = b
	c50OpFlowSwitch     // init: switch k { case 1: self.f = a }; self.f = b
	c50NumOps
)

var c50OpNames = [c50NumOps]string{
	"read", "call", "assign",
	"init-assign-in-both-branches", "init-assign-in-then-and-after", "init-assign-then-in-branch",
	"init-assign-after-maybe-return", "init-assign-in-while-and-after", "init-assign-in-for-and-after",
	"init-assign-in-switch-case-and-after",
}

func c50OpIsFlow(op int) bool { return op >= c50OpFlowIfElse }

// receiver forms
const (
	c50RvSelf  = iota
	c50RvName  // the contract's name (declaring composite is a contract): a value inside, `&C` outside
	c50RvValue // an owned value of the composite type
	c50RvOptValue
	c50RvRef // unauthorized reference
	c50RvRefE
	c50RvRefF
	c50RvRefEandF
	c50RvRefEorF
	c50RvRefG // authorization unrelated to the member
	c50RvOptRef
	c50RvOptRefE
	c50NumRecvs
)

var c50RecvNames = [c50NumRecvs]string{
	"self", "contract-name", "value", "value?", "&T", "auth(E)&T", "auth(F)&T", "auth(E,F)&T", "auth(E|F)&T",
	"auth(G)&T", "&T?", "auth(E)&T?",
}

func c50RecvIsRef(r int) bool { return r >= c50RvRef }
func c50RecvIsOpt(r int) bool { return r == c50RvOptValue || r == c50RvOptRef || r == c50RvOptRefE }

// c50RecvAuth: the entitlements held by a reference receiver, and whether they are held jointly
// (conjunction) or alternatively (disjunction: exactly one of them, unknown which).
func c50RecvAuth(r int) (ents []string, disj bool) {
	switch r {
	case c50RvRefE, c50RvOptRefE:
		return []string{"E"}, false
	case c50RvRefF:
		return []string{"F"}, false
	case c50RvRefEandF:
		return []string{"E", "F"}, false
	case c50RvRefEorF:
		return []string{"E", "F"}, true
	case c50RvRefG:
		return []string{"G"}, false
	}
	return nil, false
}

// source of the receiver / wrapping of the site statement
const (
	c50SvParam   = iota // receiver is a parameter of the site function
	c50SvLocal          // receiver is a local variable (or self / the contract name)
	c50SvClosure        // site inside a function expression whose parameter is the receiver
	c50NumSvs
)

var c50SvNames = [c50NumSvs]string{"param", "local", "closure-param"}

// c50Site describes one access site completely.
type c50Site struct {
	Target int // index of the contract that declares the member (0,1: account 0x1; 2: account 0x2)
	Decl   int // declaring composite kind
	Mod    int
	MK     int
	Scope  int
	Op     int
	Recv   int
	Sv     int
}

func (s c50Site) String() string {
	return strings.Join([]string{
		"target=" + string(rune('A'+s.Target)), "decl=" + c50DeclNames[s.Decl], "mod=" + c50ModNames[s.Mod], "member=" + c50MKNames[s.MK],
		"scope=" + c50ScopeName(s.Scope, s.Decl), "op=" + c50OpNames[s.Op], "recv=" + c50RecvNames[s.Recv], "src=" + c50SvNames[s.Sv],
	}, " ")
}

// c50HostContract: index of the contract whose program contains the site (-1: script, -2: transaction).
func c50HostContract(s c50Site) int {
	switch s.Scope {
	case c50ScAcctContractFn, c50ScAcctContractInit, c50ScAcctNestedFn:
		return 1 - s.Target // only valid for targets 0,1
	case c50ScOtherContractFn, c50ScOtherContractInit, c50ScOtherNestedFn:
		if s.Target == 2 {
			return 0
		}
		return 2
	case c50ScScriptFn, c50ScScriptCompFn:
		return -1
	case c50ScTxPrepare, c50ScTxExecute:
		return -2
	}
	return s.Target
}

// c50Valid says whether the combination denotes a well-formed program of the fragment.
func c50Valid(s c50Site) bool {
	// modifiers: entitlement access exists only on struct/resource members
	if s.Decl == c50DeclContract && s.Mod >= c50ModE {
		return false
	}
	// scopes
	switch s.Scope {
	case c50ScContractFn, c50ScContractInit:
		if s.Decl == c50DeclContract { // that is decl-fn / decl-init
			return false
		}
	case c50ScAcctContractFn, c50ScAcctContractInit, c50ScAcctNestedFn:
		if s.Target == 2 { // account 0x2 holds one contract only
			return false
		}
	}
	// receivers
	switch s.Recv {
	case c50RvSelf:
		if s.Scope != c50ScDeclFn && s.Scope != c50ScDeclInit {
			return false
		}
	case c50RvName:
		if s.Decl != c50DeclContract {
			return false
		}
	case c50RvValue, c50RvOptValue:
		if s.Decl == c50DeclContract { // contracts are not first-class owned values: use the name
			return false
		}
	}
	// operations
	if c50OpIsFlow(s.Op) {
		if s.Scope != c50ScDeclInit || s.Recv != c50RvSelf || s.MK == c50MKFun {
			return false
		}
	}
	switch s.MK {
	case c50MKFun:
		if s.Op != c50OpRead && s.Op != c50OpCall {
			return false
		}
		// reading (binding) a function of an owned resource is rejected for a reason outside the property
		if s.Op == c50OpRead && s.Decl == c50DeclResource && !c50RecvIsRef(s.Recv) {
			return false
		}
	default:
		if s.Op == c50OpCall {
			return false
		}
	}
	if s.Op == c50OpAssign && c50RecvIsOpt(s.Recv) { // optional chaining is not an assignment target
		return false
	}
	// receiver source
	initOrTx := c50ScopeIsInit(s.Scope) || c50ScopeIsTx(s.Scope)
	switch {
	case s.Recv == c50RvSelf || s.Recv == c50RvName:
		if s.Sv != c50SvLocal {
			return false
		}
	default:
		if initOrTx && s.Sv == c50SvParam {
			return false
		}
		// a reference to a contract cannot be created from the contract value: parameters only
		if s.Decl == c50DeclContract && s.Sv == c50SvLocal {
			return false
		}
	}
	return true
}

// c50AllSites enumerates the full cross product in a fixed order.
func c50AllSites() []c50Site {
	out := make([]c50Site, 0, 1<<17)
	for target := 0; target < 3; target++ {
		for decl := 0; decl < c50NumDecls; decl++ {
			for mod := 0; mod < c50NumMods; mod++ {
				for mk := 0; mk < c50NumMKs; mk++ {
					for sc := 0; sc < c50NumScopes; sc++ {
						for op := 0; op < c50NumOps; op++ {
							for rv := 0; rv < c50NumRecvs; rv++ {
								for sv := 0; sv < c50NumSvs; sv++ {
									s := c50Site{Target: target, Decl: decl, Mod: mod, MK: mk, Scope: sc, Op: op, Recv: rv, Sv: sv}
									if c50Valid(s) {
										out = append(out, s)
									}
								}
							}
						}
					}
				}
			}
		}
	}
	return out
}

// c50IsCorner: the projection of the product onto declaring contract A (whose account also holds B) and
// the first valid receiver source: every (modifier, member kind, declaring composite, scope, operation,
// receiver form) combination exactly once.
func c50IsCorner(s c50Site) bool {
	if s.Target != 0 {
		return false
	}
	for sv := 0; sv < s.Sv; sv++ {
		t := s
		t.Sv = sv
		if c50Valid(t) {
			return false
		}
	}
	return true
}

// ---------------------------------------------------------------- the model

const (
	c50Permitted = iota
	c50Denied
	c50Latitude // the statement does not decide
)

var c50VerdictNames = [3]string{"permitted", "denied", "undecided"}

type c50Facts struct {
	InsideDecl     bool // the site is lexically inside the declaring composite (itself or a declaration nested in it)
	InsideContract bool // ... inside the contract that encloses (or is) the declaring composite
	SameAccount    bool // the site's program is a contract deployed to the account of the declaring contract
}

// c50Account: deploying account of contract k.
func c50Account(k int) int {
	if k == 2 {
		return 2
	}
	return 1
}

func c50FactsOf(s c50Site) c50Facts {
	var f c50Facts
	switch s.Scope {
	case c50ScDeclFn, c50ScDeclInit:
		f.InsideDecl = true
	case c50ScInnerStructFn, c50ScInnerStructInit, c50ScInnerResFn, c50ScInnerResInit, c50ScInnerIfaceFn:
		// a composite declared in the contract: inside the declaring composite only if that is the contract
		f.InsideDecl = s.Decl == c50DeclContract
		f.InsideContract = true
	case c50ScContractFn, c50ScContractInit:
		f.InsideContract = true
	}
	if f.InsideDecl {
		f.InsideContract = true
	}
	host := c50HostContract(s)
	f.SameAccount = host >= 0 && c50Account(host) == c50Account(s.Target)
	return f
}

// c50EntitlementSatisfied: does the receiver satisfy the entitlement requirement of the modifier?
// An owned value (and `self`) is fully entitled. A reference holds a conjunction (all of them) or a
// disjunction (exactly one of them, unknown which): every possibility must satisfy the requirement.
func c50EntitlementSatisfied(mod, recv int) bool {
	if !c50RecvIsRef(recv) {
		return true
	}
	ents, disj := c50RecvAuth(recv)
	var possibilities [][]string
	if disj {
		for _, e := range ents {
			possibilities = append(possibilities, []string{e})
		}
	} else {
		possibilities = [][]string{ents}
	}
	has := func(set []string, e string) bool {
		for _, x := range set {
			if x == e {
				return true
			}
		}
		return false
	}
	for _, p := range possibilities {
		ok := false
		switch mod {
		case c50ModE:
			ok = has(p, "E")
		case c50ModEorF:
			ok = has(p, "E") || has(p, "F")
		case c50ModEandF:
			ok = has(p, "E") && has(p, "F")
		}
		if !ok {
			return false
		}
	}
	return true
}

// c50Readable: first sentence of the statement.
func c50Readable(s c50Site, f c50Facts) (bool, string) {
	switch s.Mod {
	case c50ModSelf:
		return f.InsideDecl, "access(self): only the declaring composite"
	case c50ModContract:
		return f.InsideContract, "access(contract): only the enclosing contract"
	case c50ModAccount:
		return f.SameAccount, "access(account): only code deployed to the same account"
	case c50ModAll:
		return true, "access(all): everyone"
	}
	return c50EntitlementSatisfied(s.Mod, s.Recv), "entitlement access: everyone holding a satisfying authorization (owned values and self are fully entitled)"
}

// c50Model returns the verdict of the statement for the site and the reasoning.
func c50Model(s c50Site) (int, string) {
	f := c50FactsOf(s)
	readable, why := c50Readable(s, f)
	where := "site inside declaring composite=" + c50b(f.InsideDecl) + ", inside enclosing contract=" + c50b(f.InsideContract) +
		", contract in same account=" + c50b(f.SameAccount)
	switch {
	case s.Op == c50OpRead || s.Op == c50OpCall:
		if readable {
			return c50Permitted, why + " -> permitted; " + where
		}
		return c50Denied, why + " -> denied; " + where
	case s.Op == c50OpAssign:
		if !f.InsideDecl {
			return c50Denied, "assignment outside the declaring composite -> denied; " + where
		}
		if s.MK == c50MKLet {
			return c50Denied, "a let field is assigned once, in its initializer (which already assigns it) -> denied; " + where
		}
		if !readable {
			return c50Latitude, "assignment to a var field inside the declaring composite, but the member is not accessible through this receiver: the statement does not decide"
		}
		return c50Permitted, "assignment to a var field inside the declaring composite -> permitted; " + where
	default: // init flow operations, through self in the declaring composite's initializer
		if s.MK == c50MKVar {
			return c50Permitted, "var field assigned (repeatedly) in the declaring composite's initializer -> permitted"
		}
		if s.Op == c50OpFlowIfElse {
			return c50Permitted, "let field assigned exactly once on every path of the initializer -> permitted"
		}
		return c50Denied, "let field assigned more than once on some path of the initializer -> denied"
	}
}

func c50b(b bool) string {
	if b {
		return "yes"
	}
	return "no"
}
