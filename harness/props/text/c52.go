package text

import (
	"errors"
	"fmt"
	"math/rand/v2"
	"strconv"
	"strings"

	"github.com/onflow/cadence"

	"verif/harness/core"
	"verif/harness/host"
)

// C52 — evaluation order and short-circuiting follow the language definition.
//
// The generator builds typed programs in which every leaf is a call t?(k, v) that logs the unique
// id k and returns the atom v. An independent evaluator over the generator's own tree (c52model.go)
// runs the program by the language definition — operands, arguments, array/dictionary literal
// elements left to right once; && || ?? ?: optional chaining and force unwrap evaluate the
// right/member/argument part only if required; assignment, swap and second-value assignment
// evaluate all target sub-expressions before the transferred value, once; loops, switch, return,
// emit, destroy, templates, casts, callee before arguments — and predicts the exact log. Required:
// h.Logs of each engine == the model log (and the returned final state == the model state).

const c52ProgramsPerCase = 8

func init() {
	core.Register(&core.Prop{
		ID:    "C52",
		Level: "exploration",
		Rule: "each case = 8 generated programs of ≈12 top-level statements (assignment to variables and nested index/member targets, swap, " +
			"second-value assignment, if / if-let / while / for / switch with nested bodies, break/continue/early return, emit, destroy, let) over " +
			"expressions of depth ≤ 3 (arithmetic, comparison, && || ?? ?: ! force-unwrap, indexing, member access, optional chaining, calls, " +
			"function-valued callees, methods, casts, string templates, array/dictionary literals, constructors) whose leaves are logging calls; " +
			"every program runs on I, V and Vp; a program is distinct by its source text and non-trivial because its log has ≥ 10 entries predicted by the model",
		Assumptions: []string{
			"the evaluation-order model in c52model.go is the language definition for the generated fragment (calibrated on hand-written probes, DESIGN C52)",
			"log(k) delivers its argument to the host's ProgramLog synchronously and in order",
		},
		NumCases: func(tier string) int {
			if tier == "thorough" {
				return 6000
			}
			return 128
		},
		Run:    runC52,
		Floors: c52Floors,
	})
}

var c52Floors = func() map[string]int64 {
	m := map[string]int64{
		"programs":          500,
		"statements":        5000,
		"log_entries":       40000,
		"engine_logs_equal": 1500,
		"final_state_equal": 1500,
		"and_short_circuit": 200, "and_full": 200, "or_short_circuit": 200, "or_full": 200,
		"coalesce_left_nil": 200, "coalesce_left_some": 200, "cond_true": 200, "cond_false": 200,
		"optchain_nil": 50, "optchain_some": 100, "castopt_nil": 15, "castopt_some": 50,
		"iflet_some": 30, "iflet_nil": 30, "switch_matched": 30, "switch_default": 30,
		"while_iterations": 200, "for_iterations": 200, "loop_break": 20, "loop_continue": 20, "early_return": 20,
	}
	for _, f := range []string{
		"leaf", "bin", "cmp", "neg", "not", "and", "or", "cond", "coal", "force", "idx", "didx", "fld", "farr", "ofld", "omth", "mth",
		"call", "fcall", "cast", "castf", "casto", "slen", "alen", "tmpl", "sconcat", "alit", "dlit", "ctor",
	} {
		m["expr_"+f] = 60
	}
	for _, f := range []string{
		"let", "assign-var", "assign-index", "assign-nested-index", "assign-dict", "assign-member-index", "assign-element-member-index",
		"swap", "swap-var-index", "swap-resources", "second-value-array", "second-value-dict", "if", "iflet", "while", "for", "for-indexed",
		"switch", "emit", "destroy", "create", "call-stmt", "return",
	} {
		m["stmt_"+f] = 40
	}
	return m
}()

// ---------------------------------------------------------------- program prelude

const c52Prelude = `access(all) event Ev(a: Int, b: Int)
access(all) struct S {
    access(all) var x: Int
    access(all) var arr: [Int]
    init(x: Int, arr: [Int]) { self.x = x; self.arr = arr }
    access(all) fun m(_ k: Int, _ a: Int): Int { log(k); return self.x + a }
}
access(all) resource R { access(all) let id: Int; init(_ id: Int) { self.id = id } }
access(all) resource R2 { access(all) let a: Int; init(k: Int, a: Int, b: Int) { log(k); self.a = a + b } }
access(all) fun tI(_ k: Int, _ v: Int): Int { log(k); return v }
access(all) fun tB(_ k: Int, _ v: Bool): Bool { log(k); return v }
access(all) fun tO(_ k: Int, _ v: Int?): Int? { log(k); return v }
access(all) fun tS(_ k: Int, _ v: String): String { log(k); return v }
access(all) fun tA(_ k: Int, _ v: [Int]): [Int] { log(k); return v }
access(all) fun tD(_ k: Int, _ v: {Int: Int}): {Int: Int} { log(k); return v }
access(all) fun tT(_ k: Int, _ v: S): S { log(k); return v }
access(all) fun tOT(_ k: Int, _ v: S?): S? { log(k); return v }
access(all) fun tY(_ k: Int, _ v: AnyStruct): AnyStruct { log(k); return v }
access(all) fun tR(_ k: Int, _ id: Int): @R { log(k); return <- create R(id) }
access(all) fun tF(_ k: Int, _ kb: Int): fun(Int, Int): Int { log(k); return fun(a: Int, b: Int): Int { log(kb); return a - b } }
access(all) fun cI(_ k: Int, _ a: Int, _ b: Int): Int { log(k); return a + b }
access(all) fun cV(_ k: Int, _ a: Int, _ b: Bool) { log(k) }
`

const c52VarDecls = `    var vi: Int = 1
    var vj: Int = 2
    var vb: Bool = true
    var vo: Int? = 3
    var va: [Int] = [10, 11, 12, 13]
    var vc: [Int] = [20, 21, 22]
    var vaa: [[Int]] = [[1, 2], [3, 4]]
    var vd: {Int: Int} = {0: 100, 1: 101}
    var vs: S = S(x: 5, arr: [50, 51, 52])
    var vt: S = S(x: 6, arr: [60, 61])
    var vss: [S] = [S(x: 7, arr: [70, 71]), S(x: 8, arr: [80, 81])]
    var rs: @[R] <- [<- create R(1), <- create R(2)]
    var rd: @{Int: R} <- {0: <- create R(3)}
`

// final state, in a fixed order (array lengths never change in the generated fragment)
const c52FinalState = `vi, vj, (vb ? 1 : 0), (vo ?? -1), va[0], va[1], va[2], va[3], vc[0], vc[1], vc[2], vaa[0][0], vaa[0][1], vaa[1][0], vaa[1][1], ` +
	`(vd[0] ?? -1), (vd[1] ?? -1), (vd[2] ?? -1), (vd[3] ?? -1), vd.length, vs.x, vs.arr[0], vs.arr[1], vs.arr[2], vt.x, vt.arr[0], vt.arr[1], ` +
	`vss[0].x, vss[0].arr[0], vss[0].arr[1], vss[1].x, vss[1].arr[0], vss[1].arr[1], rs[0].id, rs[1].id, (rd[0]?.id ?? -1), (rd[1]?.id ?? -1), (rd[2]?.id ?? -1), rd.length`

// ---------------------------------------------------------------- running

func runC52(c *core.Ctx) {
	for pi := 0; pi < c52ProgramsPerCase; pi++ {
		g := newC52Gen(c)
		prog := g.genProgram()
		src := prog.Source
		c.Inc("programs")
		c.Count("statements", int64(prog.Statements))
		c.Count("log_entries", int64(len(prog.Log)))
		for name, n := range prog.Features {
			c.Count(name, n)
		}
		if len(prog.Log) >= 10 {
			c.Distinct(src)
		}
		type res struct {
			eng   host.Engine
			logs  []string
			state string
			fail  string
		}
		var results []res
		for _, eng := range host.AllEngines {
			h := host.New()
			out := h.RunScript(eng, src, nil, nil)
			c.Eval(1)
			rr := res{eng: eng, logs: h.Logs}
			if out.Err != nil || out.Escaped != nil {
				rr.fail = string(host.Classify(out)) + ": " + host.ErrText(out)
			} else {
				rr.state = stateString(out.Value)
			}
			results = append(results, rr)
		}
		want := make([]string, len(prog.Log))
		for i, k := range prog.Log {
			want[i] = strconv.Itoa(k)
		}
		wantState := prog.FinalState
		// group engines by (kind of disagreement)
		type dis struct {
			engines []host.Engine
			key     string
			msg     string
			extra   map[string]any
		}
		var diss []*dis
		add := func(eng host.Engine, key, msg string, extra map[string]any) {
			for _, d := range diss {
				if d.key == key {
					d.engines = append(d.engines, eng)
					return
				}
			}
			diss = append(diss, &dis{[]host.Engine{eng}, key, msg, extra})
		}
		for _, rr := range results {
			if rr.fail != "" {
				kind := "program-fails"
				if strings.Contains(rr.fail, "sema.") || strings.Contains(rr.fail, "parser.") || strings.HasPrefix(rr.fail, "user: Execution failed:\nerror: mismatched") {
					kind = "program-rejected"
				}
				add(rr.eng, kind+" "+firstErrorLine(rr.fail), "the generated program did not run to completion: "+core.Clip(rr.fail, 400),
					map[string]any{"error": core.Clip(rr.fail, 2000), "log_so_far": strings.Join(rr.logs, " ")})
				continue
			}
			if i := firstDiff(want, rr.logs); i >= 0 {
				exp, got := "<end of log>", "<end of log>"
				expRole, gotRole := "end", "end"
				if i < len(want) {
					exp = want[i]
					expRole = prog.Roles[prog.Log[i]]
				}
				if i < len(rr.logs) {
					got = rr.logs[i]
					if k, err := strconv.Atoi(got); err == nil {
						if r, ok := prog.Roles[k]; ok {
							gotRole = r
						} else {
							gotRole = "unknown-id"
						}
					}
				}
				prevID, expID, gotID := -1, -1, -1
				if i > 0 {
					prevID = prog.Log[i-1]
				}
				if i < len(want) {
					expID = prog.Log[i]
				}
				if i < len(rr.logs) {
					if k, err := strconv.Atoi(rr.logs[i]); err == nil {
						gotID = k
					}
				}
				add(rr.eng, "log-order "+divergenceKey(prog.Paths, prevID, expID, gotID),
					fmt.Sprintf("log entry %d: the model expects leaf %s (%s), the engine logged %s (%s)", i, exp, expRole, got, gotRole),
					map[string]any{"first_difference_at": i, "model_log": strings.Join(want, " "), "engine_log": strings.Join(rr.logs, " "),
						"expected_leaf": exp, "expected_leaf_role": expRole, "observed_leaf": got, "observed_leaf_role": gotRole})
				continue
			}
			c.Inc("engine_logs_equal")
			if rr.state != wantState {
				add(rr.eng, "final-state", "logs agree with the model but the returned final state differs: model "+wantState+", engine "+rr.state,
					map[string]any{"model_state": wantState, "engine_state": rr.state})
				continue
			}
			c.Inc("final_state_equal")
		}
		for _, d := range diss {
			w := map[string]any{"engines": engineSet(d.engines), "program": src}
			for k, v := range d.extra {
				w[k] = v
			}
			c.Violate(d.key+" engines="+engineSet(d.engines), d.msg, w)
		}
		if pi == 0 && c.WantSample() {
			c.Sample(map[string]any{"program": core.Clip(src, 6000), "model_log": strings.Join(want, " "), "final_state": wantState})
		}
	}
}

func firstErrorLine(s string) string {
	for _, l := range strings.Split(s, "\n") {
		if strings.HasPrefix(l, "error: ") {
			l = strings.TrimPrefix(l, "error: ")
			// strip run-specific details
			if i := strings.IndexAny(l, ":`0123456789"); i > 0 {
				l = l[:i]
			}
			return strings.TrimSpace(l)
		}
	}
	return "unknown"
}

func firstDiff(a, b []string) int {
	for i := 0; i < len(a) || i < len(b); i++ {
		if i >= len(a) || i >= len(b) || a[i] != b[i] {
			return i
		}
	}
	return -1
}

func stateString(v cadence.Value) string {
	arr, ok := v.(cadence.Array)
	if !ok {
		return fmt.Sprint(v)
	}
	parts := make([]string, len(arr.Values))
	for i, e := range arr.Values {
		parts[i] = e.String()
	}
	return strings.Join(parts, ",")
}

var errUnsafe = errors.New("unsafe")

var _ = rand.New
