package text

import (
	"bytes"
	"fmt"
	"math/big"
	"math/rand/v2"
	"sort"
	"strings"

	"github.com/onflow/cadence"
	"github.com/onflow/cadence/common"
	"github.com/onflow/cadence/interpreter"
	"github.com/onflow/cadence/sema"
	"golang.org/x/text/unicode/norm"

	"verif/harness/core"
	"verif/harness/host"
	"verif/harness/num"
)

// C18 — equality, ordering and hashing obey their laws.
//
// Oracle = the laws only. A pool is 12–20 Cadence expressions of one static type T, many of them
// equal values constructed differently (literal spellings, NFC-equivalent texts, intersections and
// entitlement sets written in different orders, run-time type constructors, containers built in a
// different order). Scripts on the three engines return the full ==/!= matrices, the < <= > >=
// matrices (comparable types) and dictionary experiments (hashable types); the Go side checks
// reflexivity, symmetry, transitivity, the total-order laws, and "equal keys ⇒ one entry that either
// finds; unequal keys ⇒ two entries". A direct-call leg checks Equal ⇒ equal HashInput on
// interpreter values built in Go.

func init() {
	core.Register(&core.Prop{
		ID:    "C18",
		Level: "exploration",
		Rule: "case i builds one pool of 12–20 expressions of the type kind i mod #kinds (every integer and fixed-point type, String, Character, Bool, " +
			"Address, Path kinds, enum, Type, HashableStruct, optionals, arrays, dictionaries, ranges), with equal values spelled differently; " +
			"the full n×n ==, !=, <, <=, >, >= matrices and n×n two-key dictionary experiments plus an all-keys dictionary are evaluated by scripts " +
			"on I/V/Vp (and through account storage for storable pools); plus 40 direct Equal/HashInput pairs of interpreter values per case; " +
			"a pool is distinct by its expression list and non-trivial because it contains equal-but-differently-constructed and unequal values",
		Assumptions: []string{
			"pool expressions are pure: evaluating the same expression twice yields the same value",
			"!= is the negation of == by definition of the language",
		},
		NumCases: func(tier string) int {
			if tier == "thorough" {
				return 16000
			}
			return 416
		},
		Run: runC18,
		Floors: map[string]int64{
			"pools":                         300,
			"eq_pairs_checked":              50000,
			"eq_true_offdiagonal":           3000,
			"eq_false":                      20000,
			"order_pairs_checked":           20000,
			"order_lt_true":                 5000,
			"dict_pairs_checked":            20000,
			"dict_equal_keys_one_entry":     2000,
			"dict_unequal_keys_two_entries": 10000,
			"dict_all_keys_checked":         200,
			"stored_dict_checked":           30,
			"string_equivalent_spellings":   5,
			"type_reordered_spellings":      10,
			"direct_pairs":                  5000,
			"direct_equal_pairs":            1500,
			"direct_equal_reordered_types":  300,
			"direct_equal_respelled_text":   300,
			"direct_unequal_pairs":          1500,
			"kind_Type":                     5, "kind_String": 5, "kind_Character": 5, "kind_Enum": 5, "kind_Path": 5, "kind_Address": 5,
			"kind_HashableStruct": 5, "kind_Int": 5, "kind_UFix64": 5, "kind_[String]": 5, "kind_String?": 5, "kind_{String:Int}": 5,
		},
	})
}

// ---------------------------------------------------------------- pools

type c18Pool struct {
	Kind       string // monitor / key class
	Type       string // Cadence element type
	Decls      string // top-level declarations the expressions need ("" ⇒ storable through an account)
	Exprs      []string
	Comparable bool
	Hashable   bool
	// EqFun, if set, names a script function (declared in Decls) used instead of the == operator:
	// the pool's static type is not equatable for the checker (HashableStruct), equality of two
	// members is "same run-time type and == at that type".
	EqFun string
}

const c18Decls = `access(all) enum E: UInt8 { access(all) case a; access(all) case b; access(all) case c; access(all) case d }
access(all) struct interface I1 {}
access(all) struct interface I2 {}
access(all) struct interface I3 {}
access(all) resource interface RI {}
access(all) entitlement X
access(all) entitlement Y
access(all) entitlement Z
access(all) struct S: I1, I2, I3 {}
access(all) resource R: RI {}
`

// eqH: equality of two HashableStruct members = same run-time type and == at that type.
var c18EqH = func() string {
	var sb strings.Builder
	sb.WriteString("access(all) fun eqH(_ a: HashableStruct, _ b: HashableStruct): Bool {\n    if a.getType() != b.getType() { return false }\n")
	for _, t := range []string{"Int", "Int8", "UInt8", "Word8", "UInt64", "Int256", "Fix64", "UFix64", "String", "Character", "Bool", "Address", "Path", "Type", "E"} {
		fmt.Fprintf(&sb, "    if let x = a as? %s { return x == (b as! %s) }\n", t, t)
	}
	sb.WriteString("    panic(\"eqH: unexpected member type\")\n}\n")
	return sb.String()
}()

const c18Loc = "s.0100000000000000000000000000000000000000000000000000000000000000."

type poolGen struct {
	Kind string
	Gen  func(r *rand.Rand, c *core.Ctx) c18Pool
}

func shuffled[T any](r *rand.Rand, xs []T) []T {
	out := append([]T{}, xs...)
	r.Shuffle(len(out), func(i, j int) { out[i], out[j] = out[j], out[i] })
	return out
}

func trimPool(r *rand.Rand, exprs []string, lo, hi int) []string {
	exprs = shuffled(r, exprs)
	n := lo + r.IntN(hi-lo+1)
	if len(exprs) > n {
		exprs = exprs[:n]
	}
	return exprs
}

// integer spellings ---------------------------------------------------------

func intSpellings(r *rand.Rand, t num.IntType, v *big.Int) []string {
	abs := new(big.Int).Abs(v)
	sgn := ""
	if v.Sign() < 0 {
		sgn = "-"
	}
	dec := v.String()
	out := []string{dec, sgn + "0x" + abs.Text(16), "(" + dec + ")", t.Name + "(" + dec + ")", t.Name + `.fromString("` + dec + `")!`}
	if abs.BitLen() <= 20 {
		out = append(out, sgn+"0b"+abs.Text(2), sgn+"0o"+abs.Text(8))
	}
	if len(abs.String()) > 3 {
		s := abs.String()
		out = append(out, sgn+s[:len(s)-3]+"_"+s[len(s)-3:])
	}
	one := big.NewInt(1)
	if p := new(big.Int).Sub(v, one); t.InRange(p) {
		out = append(out, "("+p.String()+" + 1)")
	}
	if n := new(big.Int).Add(v, one); t.InRange(n) && n.Sign() != 0 || v.Sign() >= 0 && t.InRange(n) {
		out = append(out, "("+n.String()+" - 1)")
	}
	if !t.Signed {
		b := v.Bytes()
		if len(b) == 0 {
			b = []byte{0}
		}
		var parts []string
		for _, x := range b {
			parts = append(parts, fmt.Sprint(x))
		}
		out = append(out, t.Name+".fromBigEndianBytes(["+strings.Join(parts, ",")+"])!")
	}
	return out
}

func genIntPool(t num.IntType) func(r *rand.Rand, c *core.Ctx) c18Pool {
	return func(r *rand.Rand, c *core.Ctx) c18Pool {
		bs := num.Boundary(t)
		var exprs []string
		nvals := 5 + r.IntN(3)
		seen := map[string]bool{}
		for len(seen) < nvals {
			var v *big.Int
			switch r.IntN(4) {
			case 0:
				v = big.NewInt(int64(r.IntN(5)))
				if t.Signed && r.IntN(2) == 0 {
					v.Neg(v)
				}
			case 1:
				v = num.Random(t, r)
			default:
				v = bs[r.IntN(len(bs))]
			}
			if !t.InRange(v) || seen[v.String()] {
				if len(seen) > 3 && r.IntN(4) == 0 {
					break
				}
				continue
			}
			seen[v.String()] = true
			sp := shuffled(r, intSpellings(r, t, v))
			k := 1 + r.IntN(3)
			exprs = append(exprs, sp[:min(k, len(sp))]...)
		}
		return c18Pool{Kind: t.Name, Type: t.Name, Exprs: trimPool(r, exprs, 12, 20), Comparable: true, Hashable: true}
	}
}

func genFixPool(t num.FixType) func(r *rand.Rand, c *core.Ctx) c18Pool {
	return func(r *rand.Rand, c *core.Ctx) c18Pool {
		bs := num.FixBoundary(t)
		var exprs []string
		seen := map[string]bool{}
		nvals := 5 + r.IntN(3)
		for tries := 0; len(seen) < nvals && tries < 100; tries++ {
			var raw *big.Int
			switch r.IntN(4) {
			case 0:
				raw = new(big.Int).Mul(big.NewInt(int64(r.IntN(4))), t.Factor())
				if t.Signed && r.IntN(2) == 0 {
					raw.Neg(raw)
				}
			case 1:
				raw = num.FixRandom(t, r)
			default:
				raw = bs[r.IntN(len(bs))]
			}
			if !t.InRangeRaw(raw) || seen[raw.String()] {
				continue
			}
			seen[raw.String()] = true
			full := num.FixString(t, raw)
			trimmed := strings.TrimRight(full, "0")
			if strings.HasSuffix(trimmed, ".") {
				trimmed += "0"
			}
			sp := []string{full, trimmed, "(" + full + ")", t.Name + `.fromString("` + trimmed + `")!`}
			if !strings.HasPrefix(full, "-") {
				sp = append(sp, "0"+full)
			} else {
				sp = append(sp, "-0"+full[1:])
			}
			if strings.HasSuffix(trimmed, ".0") && len(trimmed) < 12 {
				sp = append(sp, t.Name+"("+strings.TrimSuffix(trimmed, ".0")+")")
			}
			sp = shuffled(r, sp)
			exprs = append(exprs, sp[:1+r.IntN(3)]...)
		}
		return c18Pool{Kind: t.Name, Type: t.Name, Exprs: trimPool(r, exprs, 12, 20), Comparable: true, Hashable: true}
	}
}

// text spellings -------------------------------------------------------------

func bytesLit(b []byte) string { return byteArrayLiteral(b) }

func stringSpellings(r *rand.Rand, src string) []string {
	t := nfc(src)
	d := norm.NFD.String(src)
	out := []string{cdcLiteral(src, false), cdcLiteral(t, r.IntN(2) == 0), cdcLiteral(d, false),
		"String.fromUTF8(" + bytesLit([]byte(d)) + ")!",
		`"".concat(` + cdcLiteral(d, false) + ")",
		cdcLiteral(src+"q", false) + fmt.Sprintf(".slice(from: 0, upTo: %d)", len(clustersOf(t))),
	}
	// the slice spelling is only the same text if appending q does not merge into the last cluster
	if g := clustersOf(nfc(src + "q")); len(g) != len(clustersOf(t))+1 {
		out = out[:len(out)-1]
	}
	return out
}

func genStringTexts(r *rand.Rand, c *core.Ctx, n int) []string {
	use := func(tag string) {}
	var texts []string
	for len(texts) < n {
		s := genString(r, 4, use)
		texts = append(texts, s)
		if r.IntN(2) == 0 && len(s) > 0 { // near neighbours: a prefix, an extension
			g := clustersOf(nfc(s))
			texts = append(texts, strings.Join(g[:r.IntN(len(g)+1)], ""))
		}
		if r.IntN(3) == 0 {
			texts = append(texts, s+atoms[r.IntN(len(atoms))].S)
		}
	}
	return texts
}

func genStringPool(r *rand.Rand, c *core.Ctx) c18Pool {
	var exprs []string
	for _, s := range genStringTexts(r, c, 6) {
		sp := shuffled(r, stringSpellings(r, s))
		k := 1 + r.IntN(3)
		exprs = append(exprs, sp[:min(k, len(sp))]...)
		if k > 1 && norm.NFD.String(s) != nfc(s) {
			c.Inc("string_equivalent_spellings")
		}
	}
	return c18Pool{Kind: "String", Type: "String", Exprs: trimPool(r, exprs, 12, 20), Comparable: true, Hashable: true}
}

func charSpellings(cl string) []string {
	d := norm.NFD.String(cl)
	return []string{cdcLiteral(cl, false), cdcLiteral(d, false), cdcLiteral(d+"x", false) + "[0]", cdcLiteral(cl, true)}
}

func genCharPool(r *rand.Rand, c *core.Ctx) c18Pool {
	var exprs []string
	for len(exprs) < 14 {
		g := clustersOf(nfc(genString(r, 3, func(string) {})))
		if len(g) == 0 {
			continue
		}
		cl := g[r.IntN(len(g))]
		// a character literal must be one cluster also before normalisation
		sp := shuffled(r, charSpellings(cl))
		for _, e := range sp[:1+r.IntN(3)] {
			exprs = append(exprs, e)
		}
	}
	return c18Pool{Kind: "Character", Type: "Character", Exprs: trimPool(r, exprs, 12, 20), Comparable: true, Hashable: true}
}

func genBoolPool(r *rand.Rand, c *core.Ctx) c18Pool {
	exprs := []string{"true", "false", "!true", "!false", "(1 == 1)", "(1 == 2)", "(true && false)", "(true || false)", `("a" == "a")`, "(nil == nil)", "(2 < 1)", "true", "false", `("a".length == 1)`}
	return c18Pool{Kind: "Bool", Type: "Bool", Exprs: trimPool(r, exprs, 12, 14), Comparable: true, Hashable: true}
}

func genAddressPool(r *rand.Rand, c *core.Ctx) c18Pool {
	vals := []uint64{0, 1, 2, 0xff, 0x100, 0x0123456789abcdef, 0xffffffffffffffff, 0x8000000000000000, r.Uint64(), uint64(r.IntN(1000))}
	var exprs []string
	for _, v := range shuffled(r, vals)[:6] {
		b := make([]byte, 8)
		for i := 0; i < 8; i++ {
			b[7-i] = byte(v >> (8 * i))
		}
		var parts []string
		for _, x := range b {
			parts = append(parts, fmt.Sprint(x))
		}
		min := new(big.Int).SetUint64(v).Bytes()
		var mparts []string
		for _, x := range min {
			mparts = append(mparts, fmt.Sprint(x))
		}
		sp := []string{
			fmt.Sprintf("0x%x", v), fmt.Sprintf("0x%016x", v), fmt.Sprintf("0x%X", v),
			fmt.Sprintf("Address(0x%x)", v),
			fmt.Sprintf(`Address.fromString("0x%x")!`, v), fmt.Sprintf(`Address.fromString("0x%016x")!`, v),
			"Address.fromBytes([" + strings.Join(parts, ",") + "])",
			"Address.fromBytes([" + strings.Join(mparts, ",") + "])",
		}
		sp = shuffled(r, sp)
		exprs = append(exprs, sp[:1+r.IntN(3)]...)
	}
	return c18Pool{Kind: "Address", Type: "Address", Exprs: trimPool(r, exprs, 12, 18), Hashable: true}
}

func genPathPool(typ string) func(r *rand.Rand, c *core.Ctx) c18Pool {
	return func(r *rand.Rand, c *core.Ctx) c18Pool {
		ids := []string{"a", "b", "a1", "_a", "A", "ab", "flowTokenVault", "é"}
		var domains []string
		switch typ {
		case "PublicPath", "CapabilityPath":
			domains = []string{"public"}
		case "StoragePath":
			domains = []string{"storage"}
		default:
			domains = []string{"public", "storage"}
		}
		var exprs []string
		for _, id := range shuffled(r, ids)[:5] {
			for _, d := range domains {
				ctor := map[string]string{"public": "PublicPath", "storage": "StoragePath"}[d]
				sp := []string{ctor + "(identifier: " + cdcLiteral(id, false) + ")!", ctor + "(identifier: " + cdcLiteral(norm.NFD.String(id), false) + ")!"}
				if id != "é" {
					sp = append(sp, "/"+d+"/"+id, "/"+d+"/"+id)
				}
				sp = shuffled(r, sp)
				exprs = append(exprs, sp[:1+r.IntN(2)]...)
			}
		}
		return c18Pool{Kind: "Path", Type: typ, Exprs: trimPool(r, exprs, 12, 18), Hashable: true}
	}
}

func genEnumPool(r *rand.Rand, c *core.Ctx) c18Pool {
	var exprs []string
	for i, n := range []string{"a", "b", "c", "d"} {
		exprs = append(exprs, "E."+n, fmt.Sprintf("E(rawValue: %d)!", i), fmt.Sprintf("[E.a, E.b, E.c, E.d][%d]", i), fmt.Sprintf("E(rawValue: UInt8(%d))!", i))
	}
	return c18Pool{Kind: "Enum", Type: "E", Decls: c18Decls, Exprs: trimPool(r, exprs, 12, 16), Hashable: true}
}

// type values -----------------------------------------------------------------

func perm(r *rand.Rand, xs ...string) []string { return shuffled(r, xs) }

func genTypePool(r *rand.Rand, c *core.Ctx) c18Pool {
	q := func(n string) string { return `"` + c18Loc + n + `"` }
	itf := func(names ...string) string { return "{" + strings.Join(names, ", ") + "}" }
	// each group = spellings of one type
	groups := [][]string{
		{"Type<Int>()", "(1).getType()", "Type<Int>()"},
		{"Type<String>()", `"a".getType()`},
		{"Type<" + itf(perm(r, "I1", "I2")...) + ">()", "Type<" + itf(perm(r, "I1", "I2")...) + ">()",
			"IntersectionType(types: [" + strings.Join(perm(r, q("I1"), q("I2")), ", ") + "])!"},
		{"Type<" + itf(perm(r, "I1", "I2", "I3")...) + ">()", "Type<" + itf(perm(r, "I1", "I2", "I3")...) + ">()",
			"IntersectionType(types: [" + strings.Join(perm(r, q("I1"), q("I2"), q("I3")), ", ") + "])!"},
		{"Type<{I1}>()", "IntersectionType(types: [" + q("I1") + "])!"},
		{"Type<auth(" + strings.Join(perm(r, "X", "Y"), ", ") + ") &S>()", "Type<auth(" + strings.Join(perm(r, "X", "Y"), ", ") + ") &S>()",
			"ReferenceType(entitlements: [" + strings.Join(perm(r, q("X"), q("Y")), ", ") + "], type: Type<S>())!"},
		{"Type<auth(" + strings.Join(perm(r, "X", "Y", "Z"), ", ") + ") &S>()", "Type<auth(" + strings.Join(perm(r, "X", "Y", "Z"), ", ") + ") &S>()",
			"ReferenceType(entitlements: [" + strings.Join(perm(r, q("X"), q("Y"), q("Z")), ", ") + "], type: Type<S>())!"},
		{"Type<auth(" + strings.Join(perm(r, "X", "Y"), " | ") + ") &S>()", "Type<auth(" + strings.Join(perm(r, "X", "Y"), " | ") + ") &S>()"},
		{"Type<auth(" + strings.Join(perm(r, "X", "Y", "Z"), " | ") + ") &S>()", "Type<auth(" + strings.Join(perm(r, "X", "Y", "Z"), " | ") + ") &S>()"},
		{"Type<auth(X) &S>()", "ReferenceType(entitlements: [" + q("X") + "], type: Type<S>())!", "ReferenceType(entitlements: [" + q("X") + ", " + q("X") + "], type: Type<S>())!"},
		{"Type<&S>()", "ReferenceType(entitlements: [], type: Type<S>())!"},
		{"Type<auth(" + strings.Join(perm(r, "X", "Y"), ", ") + ") &" + itf(perm(r, "I1", "I2")...) + ">()",
			"Type<auth(" + strings.Join(perm(r, "X", "Y"), ", ") + ") &" + itf(perm(r, "I1", "I2")...) + ">()"},
		{"Type<S>()", "S().getType()", "CompositeType(" + q("S") + ")!"},
		{"Type<@R>()", "CompositeType(" + q("R") + ")!"},
		{"Type<Int?>()", "OptionalType(Type<Int>())", "Type<Int?>()"},
		{"Type<Int??>()", "OptionalType(OptionalType(Type<Int>()))"},
		{"Type<[Int]>()", "VariableSizedArrayType(Type<Int>())", "[1].getType()"},
		{"Type<[Int; 2]>()", "ConstantSizedArrayType(type: Type<Int>(), size: 2)"},
		{"Type<[Int; 3]>()", "ConstantSizedArrayType(type: Type<Int>(), size: 3)"},
		{"Type<{String: Int}>()", "DictionaryType(key: Type<String>(), value: Type<Int>())!"},
		{"Type<{Int: String}>()", "DictionaryType(key: Type<Int>(), value: Type<String>())!"},
		{"Type<Capability<&S>>()", "CapabilityType(Type<&S>())!"},
		{"Type<Capability<auth(" + strings.Join(perm(r, "X", "Y"), ", ") + ") &" + itf(perm(r, "I1", "I2")...) + ">>()",
			"CapabilityType(Type<auth(" + strings.Join(perm(r, "X", "Y"), ", ") + ") &" + itf(perm(r, "I1", "I2")...) + ">())!"},
		{"Type<Capability>()"},
		{"Type<[" + itf(perm(r, "I1", "I2")...) + "]>()", "VariableSizedArrayType(Type<" + itf(perm(r, "I1", "I2")...) + ">())"},
		{"Type<{String: auth(" + strings.Join(perm(r, "X", "Y"), ", ") + ") &S}>()", "Type<{String: auth(" + strings.Join(perm(r, "X", "Y"), ", ") + ") &S}>()"},
		{"Type<" + itf(perm(r, "I1", "I2")...) + "?>()", "OptionalType(Type<" + itf(perm(r, "I1", "I2")...) + ">())"},
		{"Type<InclusiveRange<Int>>()", "InclusiveRangeType(Type<Int>())!"},
		{"Type<@{RI}>()", "Type<@{RI}>()"},
		{"Type<Never>()"}, {"Type<AnyStruct>()"}, {"Type<&Int>()"}, {"Type<Type>()", "Type<Int>().getType()"}, {"Type<E>()", "E.a.getType()"},
		{"Type<UInt8>()", "E.a.rawValue.getType()"}, {"Type<Address>()"}, {"Type<Path>()"}, {"Type<PublicPath>()", "/public/a.getType()"},
		{"Type<&{I1}>()"}, {"Type<&[Int]>()"}, {"Type<Character>()"},
	}
	var exprs []string
	reordered := 0
	for gi, g := range shuffled(r, groups) {
		if gi >= 9 {
			break
		}
		k := 1 + r.IntN(len(g))
		exprs = append(exprs, g[:k]...)
		if k > 1 && strings.ContainsAny(g[0], ",|") {
			reordered++
		}
	}
	c.Count("type_reordered_spellings", int64(reordered))
	return c18Pool{Kind: "Type", Type: "Type", Decls: c18Decls, Exprs: trimPool(r, exprs, 12, 20), Hashable: true}
}

// builtin-only type pool: storable through an account
func genBuiltinTypePool(r *rand.Rand, c *core.Ctx) c18Pool {
	groups := [][]string{
		{"Type<Int>()", "(1).getType()"}, {"Type<String>()", `"a".getType()`}, {"Type<Int?>()", "OptionalType(Type<Int>())"},
		{"Type<[Int]>()", "VariableSizedArrayType(Type<Int>())"}, {"Type<[Int; 2]>()", "ConstantSizedArrayType(type: Type<Int>(), size: 2)"},
		{"Type<{String: Int}>()", "DictionaryType(key: Type<String>(), value: Type<Int>())!"},
		{"Type<auth(" + strings.Join(perm(r, "Mutate", "Insert"), ", ") + ") &[Int]>()", "Type<auth(" + strings.Join(perm(r, "Mutate", "Insert"), ", ") + ") &[Int]>()",
			"ReferenceType(entitlements: [" + strings.Join(perm(r, `"Mutate"`, `"Insert"`), ", ") + "], type: Type<[Int]>())!"},
		{"Type<auth(" + strings.Join(perm(r, "Insert", "Remove"), " | ") + ") &[Int]>()", "Type<auth(" + strings.Join(perm(r, "Insert", "Remove"), " | ") + ") &[Int]>()"},
		{"Type<auth(" + strings.Join(perm(r, "Storage", "Keys", "Inbox"), ", ") + ") &Account>()", "Type<auth(" + strings.Join(perm(r, "Storage", "Keys", "Inbox"), ", ") + ") &Account>()"},
		{"Type<&Account>()"}, {"Type<Capability<&Account>>()", "CapabilityType(Type<&Account>())!"}, {"Type<Capability>()"},
		{"Type<InclusiveRange<Int>>()", "InclusiveRangeType(Type<Int>())!"}, {"Type<Never>()"}, {"Type<AnyStruct>()"}, {"Type<Type>()"},
		{"Type<UInt8>()"}, {"Type<Int8>()"}, {"Type<Address>()"}, {"Type<PublicPath>()", "/public/a.getType()"}, {"Type<Character>()"},
	}
	var exprs []string
	reordered := 0
	for gi, g := range shuffled(r, groups) {
		if gi >= 9 {
			break
		}
		k := 1 + r.IntN(len(g))
		exprs = append(exprs, g[:k]...)
		if k > 1 && strings.ContainsAny(g[0], ",|") {
			reordered++
		}
	}
	c.Count("type_reordered_spellings", int64(reordered))
	return c18Pool{Kind: "Type", Type: "Type", Exprs: trimPool(r, exprs, 12, 20), Hashable: true}
}

func genHashableStructPool(r *rand.Rand, c *core.Ctx) c18Pool {
	exprs := []string{"1", "1 as Int8", "1 as UInt8", "1 as Word8", "1 as UInt64", "1 as Int256", "1.0", "1.0 as UFix64", `"1"`, `"1" as Character`, "true", "false",
		"0x1 as Address", "/public/a", "/storage/a", "Type<Int>()", "Type<Int8>()", "E.b", "E.a", "0 as UInt8", "0", `""`, `"e\u{301}"`, `"\u{e9}"`, `"\u{e9}" as Character`,
		"1", "E(rawValue: 1)!", "(2 - 1)", "Type<{I1, I2}>()", "Type<{I2, I1}>()", "0x1 as Address", "PublicPath(identifier: \"a\")!"}
	return c18Pool{Kind: "HashableStruct", Type: "HashableStruct", Decls: c18Decls + c18EqH, Exprs: trimPool(r, exprs, 14, 20), Hashable: true, EqFun: "eqH"}
}

// containers ---------------------------------------------------------------------

func genOptionalPool(inner string) func(r *rand.Rand, c *core.Ctx) c18Pool {
	return func(r *rand.Rand, c *core.Ctx) c18Pool {
		var exprs []string
		switch inner {
		case "Int":
			exprs = []string{"nil", "1", "(1 as Int?)", "2", "0x1", "(nil as Int?)", "Int.fromString(\"1\")", "Int.fromString(\"x\")", "[1][0]", "{1: 2}[1]", "{1: 2}[3]", "(3 - 1)", "-1", "0"}
			return c18Pool{Kind: "Int?", Type: "Int?", Exprs: trimPool(r, exprs, 12, 14)}
		case "Int?":
			exprs = []string{"nil", "1", "(1 as Int?)", "(nil as Int?)", "((nil as Int?) as Int??)", "2", "{1: (nil as Int?)}[1]", "{1: (nil as Int?)}[2]", "{1: (2 as Int?)}[1]", "Int.fromString(\"1\")", "0x1", "(1 as Int??)", "0"}
			return c18Pool{Kind: "Int??", Type: "Int??", Exprs: trimPool(r, exprs, 12, 13)}
		default: // String?
			exprs = []string{"nil", "(nil as String?)"}
			for _, s := range genStringTexts(r, c, 4) {
				sp := shuffled(r, stringSpellings(r, s))
				exprs = append(exprs, sp[:min(2, len(sp))]...)
				exprs = append(exprs, "String.fromUTF8("+bytesLit([]byte(s))+")")
			}
			return c18Pool{Kind: "String?", Type: "String?", Exprs: trimPool(r, exprs, 12, 18)}
		}
	}
}

func genArrayPool(elem string) func(r *rand.Rand, c *core.Ctx) c18Pool {
	return func(r *rand.Rand, c *core.Ctx) c18Pool {
		var elems [][]string // each element value with its spellings
		decls := ""
		switch elem {
		case "Int", "Int8", "UInt64":
			for _, v := range []int64{0, 1, 2, 3, 100} {
				b := big.NewInt(v)
				elems = append(elems, []string{b.String(), "0x" + b.Text(16), elem + "(" + b.String() + ")"})
			}
		case "String":
			for _, s := range genStringTexts(r, c, 3)[:3] {
				elems = append(elems, stringSpellings(r, s))
			}
		case "Character":
			for len(elems) < 3 {
				g := clustersOf(nfc(genString(r, 3, func(string) {})))
				if len(g) > 0 {
					elems = append(elems, charSpellings(g[0]))
				}
			}
		case "Bool":
			elems = [][]string{{"true", "!false"}, {"false", "!true"}}
		case "E":
			decls = c18Decls
			elems = [][]string{{"E.a", "E(rawValue: 0)!"}, {"E.b", "E(rawValue: 1)!"}, {"E.c"}}
		case "Int?":
			elems = [][]string{{"nil", "(nil as Int?)"}, {"1", "(1 as Int?)", "0x1"}, {"2"}}
		case "[Int]":
			elems = [][]string{{"[]", "([] as [Int])"}, {"[1]", "[0x1]", "[1, 2].slice(from: 0, upTo: 1)"}, {"[1, 2]", "[1].concat([2])"}, {"[2, 1]"}}
		case "Type":
			elems = [][]string{{"Type<Int>()", "(1).getType()"}, {"Type<Int?>()", "OptionalType(Type<Int>())"}, {"Type<String>()"}}
		}
		typ := "[" + elem + "]"
		var exprs []string
		mk := func() string {
			n := r.IntN(4)
			var parts []string
			for i := 0; i < n; i++ {
				e := elems[r.IntN(len(elems))]
				parts = append(parts, e[0])
			}
			return strings.Join(parts, "\x00")
		}
		respell := func(key string) string {
			if key == "" {
				if r.IntN(2) == 0 {
					return "[]"
				}
				return "([] as " + typ + ")"
			}
			var parts []string
			for _, p := range strings.Split(key, "\x00") {
				for _, e := range elems {
					if e[0] == p {
						parts = append(parts, e[r.IntN(len(e))])
					}
				}
			}
			lit := "[" + strings.Join(parts, ", ") + "]"
			switch r.IntN(4) {
			case 0:
				return "(" + lit + " as " + typ + ").concat([])"
			case 1:
				if len(parts) >= 1 {
					return "([" + strings.Join(parts[:len(parts)-1], ", ") + "] as " + typ + ").concat([" + parts[len(parts)-1] + "])"
				}
			}
			return lit
		}
		for len(exprs) < 16 {
			k := mk()
			exprs = append(exprs, respell(k))
			if r.IntN(2) == 0 {
				exprs = append(exprs, respell(k))
			}
		}
		// arrays are equatable but not comparable: the checker rejects `[1] < [2]`
		// (sema Variable/ConstantSizedType.IsComparable is false since fix 09e26f0)
		return c18Pool{Kind: typ, Type: typ, Decls: decls, Exprs: trimPool(r, exprs, 12, 18), Comparable: false}
	}
}

func genConstArrayPool(r *rand.Rand, c *core.Ctx) c18Pool {
	var exprs []string
	for len(exprs) < 14 {
		a, b := r.IntN(3), r.IntN(3)
		switch r.IntN(3) {
		case 0:
			exprs = append(exprs, fmt.Sprintf("[%d, %d]", a, b))
		case 1:
			exprs = append(exprs, fmt.Sprintf("[0x%x, 0b%b]", a, b))
		case 2:
			exprs = append(exprs, fmt.Sprintf("[%d, %d].toConstantSized<[Int; 2]>()!", a, b))
		}
	}
	return c18Pool{Kind: "[Int;2]", Type: "[Int; 2]", Exprs: exprs, Comparable: false}
}

func genDictPool(kt, vt string) func(r *rand.Rand, c *core.Ctx) c18Pool {
	return func(r *rand.Rand, c *core.Ctx) c18Pool {
		var keys, vals [][]string
		switch kt {
		case "String":
			keys = [][]string{{`"a"`}, {`"b"`}, {`"\u{e9}"`, `"e\u{301}"`}, {`""`}}
		case "Int":
			keys = [][]string{{"1", "0x1"}, {"2"}, {"-1"}, {"0", "0x0"}}
		case "Type":
			keys = [][]string{{"Type<Int>()", "(1).getType()"}, {"Type<Int?>()", "OptionalType(Type<Int>())"}, {"Type<String>()"}}
		}
		switch vt {
		case "Int":
			vals = [][]string{{"1", "0x1"}, {"2"}, {"0"}}
		case "String":
			vals = [][]string{{`"x"`}, {`"\u{e9}"`, `"e\u{301}"`}, {`""`}}
		case "[Int]":
			vals = [][]string{{"[]"}, {"[1]", "[0x1]"}, {"[1, 2]"}}
		}
		typ := "{" + kt + ": " + vt + "}"
		var exprs []string
		for len(exprs) < 16 {
			// a random finite map, then one or two spellings with different entry orders
			n := r.IntN(4)
			ks := shuffled(r, []int{0, 1, 2, 3}[:len(keys)])
			if n > len(ks) {
				n = len(ks)
			}
			ks = ks[:n]
			vs := make([]int, n)
			for i := range vs {
				vs[i] = r.IntN(len(vals))
			}
			for rep := 0; rep < 1+r.IntN(2); rep++ {
				order := shuffled(r, seq(n))
				var parts []string
				for _, i := range order {
					k := keys[ks[i]]
					v := vals[vs[i]]
					parts = append(parts, k[r.IntN(len(k))]+": "+v[r.IntN(len(v))])
				}
				if n == 0 {
					exprs = append(exprs, "{}")
				} else {
					exprs = append(exprs, "{"+strings.Join(parts, ", ")+"}")
				}
			}
		}
		return c18Pool{Kind: strings.ReplaceAll(typ, " ", ""), Type: typ, Exprs: trimPool(r, exprs, 12, 18)}
	}
}

func seq(n int) []int {
	out := make([]int, n)
	for i := range out {
		out[i] = i
	}
	return out
}

func genRangePool(r *rand.Rand, c *core.Ctx) c18Pool {
	var exprs []string
	for len(exprs) < 14 {
		a, b := r.IntN(4), 2+r.IntN(4)
		st := 1 + r.IntN(2)
		switch r.IntN(3) {
		case 0:
			exprs = append(exprs, fmt.Sprintf("InclusiveRange(%d, %d)", a, a+b))
		case 1:
			exprs = append(exprs, fmt.Sprintf("InclusiveRange(%d, %d, step: %d)", a, a+b, st))
		case 2:
			exprs = append(exprs, fmt.Sprintf("InclusiveRange(%d, %d, step: -%d)", a+b, a, st))
		}
	}
	return c18Pool{Kind: "InclusiveRange<Int>", Type: "InclusiveRange<Int>", Exprs: exprs}
}

var c18Kinds = func() []poolGen {
	var ks []poolGen
	for _, t := range num.IntTypes {
		ks = append(ks, poolGen{t.Name, genIntPool(t)})
	}
	for _, t := range num.FixTypes {
		ks = append(ks, poolGen{t.Name, genFixPool(t)})
	}
	ks = append(ks,
		poolGen{"String", genStringPool}, poolGen{"String", genStringPool}, poolGen{"Character", genCharPool}, poolGen{"Bool", genBoolPool},
		poolGen{"Address", genAddressPool}, poolGen{"Path", genPathPool("Path")}, poolGen{"Path", genPathPool("PublicPath")},
		poolGen{"Path", genPathPool("StoragePath")}, poolGen{"Path", genPathPool("CapabilityPath")},
		poolGen{"Enum", genEnumPool}, poolGen{"Type", genTypePool}, poolGen{"Type", genTypePool}, poolGen{"Type", genBuiltinTypePool},
		poolGen{"HashableStruct", genHashableStructPool},
		poolGen{"Int?", genOptionalPool("Int")}, poolGen{"Int??", genOptionalPool("Int?")}, poolGen{"String?", genOptionalPool("String")},
		poolGen{"[Int]", genArrayPool("Int")}, poolGen{"[Int8]", genArrayPool("Int8")}, poolGen{"[UInt64]", genArrayPool("UInt64")},
		poolGen{"[String]", genArrayPool("String")}, poolGen{"[Character]", genArrayPool("Character")}, poolGen{"[Bool]", genArrayPool("Bool")},
		poolGen{"[E]", genArrayPool("E")}, poolGen{"[Int?]", genArrayPool("Int?")}, poolGen{"[[Int]]", genArrayPool("[Int]")}, poolGen{"[Type]", genArrayPool("Type")},
		poolGen{"[Int;2]", genConstArrayPool},
		poolGen{"{String:Int}", genDictPool("String", "Int")}, poolGen{"{Int:String}", genDictPool("Int", "String")},
		poolGen{"{String:[Int]}", genDictPool("String", "[Int]")}, poolGen{"{Type:Int}", genDictPool("Type", "Int")},
		poolGen{"InclusiveRange<Int>", genRangePool},
	)
	return ks
}()

// ---------------------------------------------------------------- scripts

func poolList(p c18Pool) string {
	return "[\n        " + strings.Join(p.Exprs, ",\n        ") + "\n    ]"
}

func c18EqScript(p c18Pool, direct [][2]int) string {
	var sb strings.Builder
	sb.WriteString(p.Decls)
	fmt.Fprintf(&sb, "access(all) fun main(): [[Bool]] {\n    let vs: [%s] = %s\n", p.Type, poolList(p))
	sb.WriteString("    var eq: [Bool] = []\n    var ne: [Bool] = []\n    var dir: [Bool] = []\n")
	if p.EqFun != "" {
		fmt.Fprintf(&sb, "    for a in vs { for b in vs { eq.append(%s(a, b)); ne.append(!%s(a, b)) } }\n", p.EqFun, p.EqFun)
		direct = nil
	} else {
		sb.WriteString("    for a in vs { for b in vs { eq.append(a == b); ne.append(a != b) } }\n")
	}
	for _, d := range direct {
		a, b := "(("+p.Exprs[d[0]]+") as "+p.Type+")", "(("+p.Exprs[d[1]]+") as "+p.Type+")"
		fmt.Fprintf(&sb, "    dir.append(%s == %s); dir.append(%s == %s); dir.append(%s == %s)\n", a, b, b, a, a, a)
	}
	sb.WriteString("    return [eq, ne, dir]\n}\n")
	return sb.String()
}

func c18OrderScript(p c18Pool) string {
	var sb strings.Builder
	sb.WriteString(p.Decls)
	fmt.Fprintf(&sb, "access(all) fun main(): [[Bool]] {\n    let vs: [%s] = %s\n", p.Type, poolList(p))
	sb.WriteString("    var lt: [Bool] = []\n    var le: [Bool] = []\n    var gt: [Bool] = []\n    var ge: [Bool] = []\n")
	sb.WriteString("    for a in vs { for b in vs { lt.append(a < b); le.append(a <= b); gt.append(a > b); ge.append(a >= b) } }\n")
	sb.WriteString("    return [lt, le, gt, ge]\n}\n")
	return sb.String()
}

func c18DictBody(p c18Pool) string {
	var sb strings.Builder
	t := p.Type
	sb.WriteString("    var ins: [Int?] = []\n    var len1: [Int?] = []\n    var fa: [Int?] = []\n    var fb: [Int?] = []\n    var kl: [Int?] = []\n    var ck: [Int?] = []\n    var rm: [Int?] = []\n    var len2: [Int?] = []\n    var fb2: [Int?] = []\n")
	fmt.Fprintf(&sb, "    for a in vs { for b in vs {\n        var d: {%s: Int} = {}\n        d[a] = 1\n        ins.append(d.insert(key: b, 2))\n", t)
	sb.WriteString("        len1.append(d.length); fa.append(d[a]); fb.append(d[b]); kl.append(d.keys.length)\n")
	sb.WriteString("        ck.append((d.containsKey(a) ? 1 : 0) + (d.containsKey(b) ? 2 : 0))\n")
	sb.WriteString("        rm.append(d.remove(key: a)); len2.append(d.length); fb2.append(d[b])\n    } }\n")
	fmt.Fprintf(&sb, "    var all: {%s: Int} = {}\n    for i, v in vs { all[v] = i }\n    var look: [Int?] = [all.length]\n    for v in vs { look.append(all[v]) }\n", t)
	var parts []string
	for i, e := range p.Exprs {
		parts = append(parts, fmt.Sprintf("%s: %d", e, i))
	}
	fmt.Fprintf(&sb, "    let lit: {%s: Int} = {\n        %s\n    }\n    var litlook: [Int?] = [lit.length]\n    for v in vs { litlook.append(lit[v]) }\n", t, strings.Join(parts, ",\n        "))
	return sb.String()
}

func c18DictScript(p c18Pool) string {
	var sb strings.Builder
	sb.WriteString(p.Decls)
	fmt.Fprintf(&sb, "access(all) fun main(): [[Int?]] {\n    let vs: [%s] = %s\n", p.Type, poolList(p))
	sb.WriteString(c18DictBody(p))
	sb.WriteString("    return [ins, len1, fa, fb, kl, ck, rm, len2, fb2, look, litlook]\n}\n")
	return sb.String()
}

func c18StoreTx(p c18Pool) string {
	return fmt.Sprintf(`transaction {
    prepare(acct: auth(Storage) &Account) {
        let vs: [%s] = %s
        var all: {%s: Int} = {}
        for i, v in vs { all[v] = i }
        acct.storage.save(all, to: /storage/d)
        acct.storage.save(vs, to: /storage/vs)
    }
}
`, p.Type, poolList(p), p.Type)
}

func c18LoadScript(p c18Pool) string {
	return fmt.Sprintf(`access(all) fun main(): [[Int?]] {
    let acct = getAuthAccount<auth(Storage) &Account>(0x1)
    let d = acct.storage.borrow<&{%s: Int}>(from: /storage/d)!
    let stored = acct.storage.borrow<&[%s]>(from: /storage/vs)!
    let vs: [%s] = %s
    var look: [Int?] = [d.length]
    for v in vs { look.append(d[v]) }
    var look2: [Int?] = [stored.length]
    var i = 0
    while i < stored.length { look2.append(d[stored[i]]); i = i + 1 }
    var keyeq: [Int?] = []
    i = 0
    while i < stored.length { keyeq.append(stored[i] == vs[i] ? 1 : 0); i = i + 1 }
    return [look, look2, keyeq]
}
`, p.Type, p.Type, p.Type, poolList(p))
}

// ---------------------------------------------------------------- result decoding

func boolMatrix(v cadence.Value, n int) ([]bool, bool) {
	arr, ok := v.(cadence.Array)
	if !ok || len(arr.Values) != n {
		return nil, false
	}
	out := make([]bool, n)
	for i, e := range arr.Values {
		b, ok := e.(cadence.Bool)
		if !ok {
			return nil, false
		}
		out[i] = bool(b)
	}
	return out, true
}

// optInts decodes [Int?]; nil is -1.
func optInts(v cadence.Value) ([]int, bool) {
	arr, ok := v.(cadence.Array)
	if !ok {
		return nil, false
	}
	out := make([]int, len(arr.Values))
	for i, e := range arr.Values {
		o, ok := e.(cadence.Optional)
		if !ok {
			return nil, false
		}
		if o.Value == nil {
			out[i] = -1
			continue
		}
		iv, ok := o.Value.(cadence.Int)
		if !ok {
			return nil, false
		}
		out[i] = int(iv.Value.Int64())
	}
	return out, true
}

// ---------------------------------------------------------------- the check

type c18Viol struct {
	law, msg string
	i, j, k  int
}

func runC18(c *core.Ctx) {
	r := c.Rng
	kind := c18Kinds[c.Case%len(c18Kinds)]
	p := kind.Gen(r, c)
	n := len(p.Exprs)
	c.Inc("pools")
	c.Inc("kind_" + kind.Kind)
	c.Distinct(p.Type + "\x00" + strings.Join(p.Exprs, "\x00"))

	var direct [][2]int
	for k := 0; k < 6; k++ {
		direct = append(direct, [2]int{r.IntN(n), r.IntN(n)})
	}
	if p.EqFun != "" {
		direct = nil
	}
	eqSrc := c18EqScript(p, direct)
	report := func(law string, engines []host.Engine, msg string, idx []int, src string, extra map[string]any) {
		w := map[string]any{"law": law, "pool_type": p.Type, "engines": engineSet(engines), "script": src}
		var es []string
		for _, i := range idx {
			es = append(es, fmt.Sprintf("vs[%d] = %s", i, p.Exprs[i]))
		}
		w["values"] = es
		for k, v := range extra {
			w[k] = v
		}
		key := fmt.Sprintf("law=%s kind=%s engines=%s", law, p.Kind, engineSet(engines))
		if strings.HasPrefix(law, "order-unavailable") {
			// one defect for every element type: the operand class is already part of the law name
			key = fmt.Sprintf("law=%s engines=%s", law, engineSet(engines))
		}
		c.Violate(key, msg, w)
	}
	// collect per law the engines that break it (first witness each)
	type hit struct {
		engines []host.Engine
		msg     string
		idx     []int
		src     string
		extra   map[string]any
	}
	hits := map[string]*hit{}
	var hitOrder []string
	note := func(law string, eng host.Engine, msg string, idx []int, src string, extra map[string]any) {
		h := hits[law]
		if h == nil {
			h = &hit{msg: msg, idx: idx, src: src, extra: extra}
			hits[law] = h
			hitOrder = append(hitOrder, law)
		}
		for _, e := range h.engines {
			if e == eng {
				return
			}
		}
		h.engines = append(h.engines, eng)
	}

	eqByEngine := map[host.Engine][]bool{}
	for _, eng := range host.AllEngines {
		h := host.New()
		out := h.RunScript(eng, eqSrc, nil, nil)
		c.Eval(1)
		if out.Err != nil || out.Escaped != nil {
			note("eq-script-fails class="+string(host.Classify(out))+" err="+host.ErrKind(out.Err), eng, "the == / != matrix script failed: "+core.Clip(host.ErrText(out), 300), nil, eqSrc, map[string]any{"error": host.ErrText(out)})
			continue
		}
		arr, ok := out.Value.(cadence.Array)
		if !ok || len(arr.Values) != 3 {
			note("eq-script-shape", eng, "unexpected result shape", nil, eqSrc, nil)
			continue
		}
		eq, ok1 := boolMatrix(arr.Values[0], n*n)
		ne, ok2 := boolMatrix(arr.Values[1], n*n)
		dir, ok3 := boolMatrix(arr.Values[2], 3*len(direct))
		if !ok1 || !ok2 || !ok3 {
			note("eq-script-shape", eng, "unexpected result shape", nil, eqSrc, nil)
			continue
		}
		eqByEngine[eng] = eq
		E := func(i, j int) bool { return eq[i*n+j] }
		for i := 0; i < n; i++ {
			if !E(i, i) {
				note("eq-reflexive", eng, fmt.Sprintf("vs[%d] == vs[%d] is false", i, i), []int{i}, eqSrc, nil)
			}
			for j := 0; j < n; j++ {
				c.Inc("eq_pairs_checked")
				if E(i, j) {
					if i != j {
						c.Inc("eq_true_offdiagonal")
					}
				} else {
					c.Inc("eq_false")
				}
				if E(i, j) != E(j, i) {
					note("eq-symmetric", eng, fmt.Sprintf("vs[%d] == vs[%d] is %v but vs[%d] == vs[%d] is %v", i, j, E(i, j), j, i, E(j, i)), []int{i, j}, eqSrc, nil)
				}
				if ne[i*n+j] == E(i, j) {
					note("ne-is-not-eq", eng, fmt.Sprintf("vs[%d] != vs[%d] is %v and == is %v", i, j, ne[i*n+j], E(i, j)), []int{i, j}, eqSrc, nil)
				}
				if E(i, j) {
					for k := 0; k < n; k++ {
						if E(j, k) && !E(i, k) {
							note("eq-transitive", eng, fmt.Sprintf("vs[%d] == vs[%d], vs[%d] == vs[%d], but vs[%d] != vs[%d]", i, j, j, k, i, k), []int{i, j, k}, eqSrc, nil)
						}
					}
				}
			}
		}
		for k, d := range direct {
			ab, ba, aa := dir[3*k], dir[3*k+1], dir[3*k+2]
			if !aa {
				note("eq-reflexive-direct", eng, fmt.Sprintf("(%s) == (%s) evaluated directly is false", p.Exprs[d[0]], p.Exprs[d[0]]), []int{d[0]}, eqSrc, nil)
			}
			if ab != ba {
				note("eq-symmetric-direct", eng, fmt.Sprintf("direct a == b is %v, b == a is %v", ab, ba), []int{d[0], d[1]}, eqSrc, nil)
			}
		}
	}

	// ---- ordering
	if p.Comparable {
		src := c18OrderScript(p)
		for _, eng := range host.AllEngines {
			eq := eqByEngine[eng]
			if eq == nil {
				continue
			}
			h := host.New()
			out := h.RunScript(eng, src, nil, nil)
			c.Eval(1)
			if out.Err != nil || out.Escaped != nil {
				elem := "scalar:" + p.Kind
				if strings.HasPrefix(p.Type, "[") {
					elem = "array"
					if strings.Contains(p.Type, ";") {
						elem = "constant-sized-array"
					}
				}
				note("order-unavailable operand="+elem+" class="+string(host.Classify(out)), eng,
					"type "+p.Type+" is accepted by the checker as comparable, but evaluating < <= > >= fails: "+core.Clip(host.ErrText(out), 300), nil, src,
					map[string]any{"error": core.Clip(host.ErrText(out), 1200), "minimal": "access(all) fun main(): Bool { return [1] < [2] }"})
				continue
			}
			arr, ok := out.Value.(cadence.Array)
			if !ok || len(arr.Values) != 4 {
				note("order-script-shape", eng, "unexpected result shape", nil, src, nil)
				continue
			}
			lt, _ := boolMatrix(arr.Values[0], n*n)
			le, _ := boolMatrix(arr.Values[1], n*n)
			gt, _ := boolMatrix(arr.Values[2], n*n)
			ge, _ := boolMatrix(arr.Values[3], n*n)
			if lt == nil || le == nil || gt == nil || ge == nil {
				note("order-script-shape", eng, "unexpected result shape", nil, src, nil)
				continue
			}
			for i := 0; i < n; i++ {
				for j := 0; j < n; j++ {
					c.Inc("order_pairs_checked")
					x := i*n + j
					cnt := 0
					for _, b := range []bool{lt[x], eq[x], gt[x]} {
						if b {
							cnt++
						}
					}
					if lt[x] {
						c.Inc("order_lt_true")
					}
					if cnt != 1 {
						note("order-trichotomy", eng, fmt.Sprintf("vs[%d] ? vs[%d]: < %v, == %v, > %v", i, j, lt[x], eq[x], gt[x]), []int{i, j}, src, nil)
					}
					if le[x] != (lt[x] || eq[x]) {
						note("order-le", eng, fmt.Sprintf("vs[%d] <= vs[%d] is %v but < is %v and == is %v", i, j, le[x], lt[x], eq[x]), []int{i, j}, src, nil)
					}
					if ge[x] != (gt[x] || eq[x]) {
						note("order-ge", eng, fmt.Sprintf("vs[%d] >= vs[%d] is %v but > is %v and == is %v", i, j, ge[x], gt[x], eq[x]), []int{i, j}, src, nil)
					}
					if gt[x] != lt[j*n+i] {
						note("order-converse", eng, fmt.Sprintf("vs[%d] > vs[%d] is %v but vs[%d] < vs[%d] is %v", i, j, gt[x], j, i, lt[j*n+i]), []int{i, j}, src, nil)
					}
					if lt[x] {
						for k := 0; k < n; k++ {
							if lt[j*n+k] && !lt[i*n+k] {
								note("order-transitive", eng, fmt.Sprintf("vs[%d] < vs[%d] < vs[%d] but not vs[%d] < vs[%d]", i, j, k, i, k), []int{i, j, k}, src, nil)
							}
						}
					}
				}
			}
		}
	}

	// ---- dictionaries
	if p.Hashable {
		src := c18DictScript(p)
		for _, eng := range host.AllEngines {
			eq := eqByEngine[eng]
			if eq == nil {
				continue
			}
			h := host.New()
			out := h.RunScript(eng, src, nil, nil)
			c.Eval(1)
			if out.Err != nil || out.Escaped != nil {
				note("dict-script-fails class="+string(host.Classify(out))+" err="+host.ErrKind(out.Err), eng, "dictionary experiment script failed: "+core.Clip(host.ErrText(out), 300), nil, src, map[string]any{"error": host.ErrText(out)})
				continue
			}
			arr, ok := out.Value.(cadence.Array)
			if !ok || len(arr.Values) != 11 {
				note("dict-script-shape", eng, "unexpected result shape", nil, src, nil)
				continue
			}
			var cols [11][]int
			bad := false
			for i := range cols {
				cols[i], ok = optInts(arr.Values[i])
				if !ok || i < 9 && len(cols[i]) != n*n || i >= 9 && len(cols[i]) != n+1 {
					bad = true
				}
			}
			if bad {
				note("dict-script-shape", eng, "unexpected result shape", nil, src, nil)
				continue
			}
			ins, len1, fa, fb, kl, ck, rm, len2, fb2 := cols[0], cols[1], cols[2], cols[3], cols[4], cols[5], cols[6], cols[7], cols[8]
			for i := 0; i < n; i++ {
				for j := 0; j < n; j++ {
					x := i*n + j
					c.Inc("dict_pairs_checked")
					obs := fmt.Sprintf("insert(b)→%d length=%d d[a]=%d d[b]=%d keys=%d contains=%d remove(a)→%d length'=%d d[b]'=%d (nil = -1)",
						ins[x], len1[x], fa[x], fb[x], kl[x], ck[x], rm[x], len2[x], fb2[x])
					if eq[x] {
						c.Inc("dict_equal_keys_one_entry")
						if !(ins[x] == 1 && len1[x] == 1 && fa[x] == 2 && fb[x] == 2 && kl[x] == 1 && ck[x] == 3 && rm[x] == 2 && len2[x] == 0 && fb2[x] == -1) {
							note("dict-equal-keys-one-entry", eng, fmt.Sprintf("a = vs[%d] == b = vs[%d] but as keys: %s", i, j, obs), []int{i, j}, src, map[string]any{"observed": obs})
						}
					} else {
						c.Inc("dict_unequal_keys_two_entries")
						if !(ins[x] == -1 && len1[x] == 2 && fa[x] == 1 && fb[x] == 2 && kl[x] == 2 && ck[x] == 3 && rm[x] == 1 && len2[x] == 1 && fb2[x] == 2) {
							note("dict-unequal-keys-two-entries", eng, fmt.Sprintf("a = vs[%d] != b = vs[%d] but as keys: %s", i, j, obs), []int{i, j}, src, map[string]any{"observed": obs})
						}
					}
				}
			}
			// all keys in one dictionary: one entry per ==-class, found by every member (needs == to be an equivalence)
			classes, last, okEq := eqClasses(eq, n)
			if okEq {
				c.Inc("dict_all_keys_checked")
				look, litlook := cols[9], cols[10]
				if look[0] != classes {
					note("dict-all-keys-length", eng, fmt.Sprintf("inserting all %d pool values gives length %d, but there are %d ==-classes", n, look[0], classes), nil, src, nil)
				}
				if litlook[0] != classes {
					note("dict-literal-length", eng, fmt.Sprintf("dictionary literal with all %d pool values as keys has length %d, but there are %d ==-classes", n, litlook[0], classes), nil, src, nil)
				}
				for i := 0; i < n; i++ {
					if look[i+1] != last[i] {
						note("dict-all-keys-lookup", eng, fmt.Sprintf("all[vs[%d]] = %d, expected %d (last inserted equal key)", i, look[i+1], last[i]), []int{i}, src, nil)
					}
					if v := litlook[i+1]; v < 0 || !eq[i*n+v] {
						note("dict-literal-lookup", eng, fmt.Sprintf("lit[vs[%d]] = %d, which is not the index of an equal key", i, v), []int{i}, src, nil)
					}
				}
			}
		}
		// through account storage (builtin-only pools): a committed dictionary is found by equal keys after reload
		if p.Decls == "" && (c.Thorough() || c.Case%3 == 0) {
			tx, ld := c18StoreTx(p), c18LoadScript(p)
			for _, eng := range host.AllEngines {
				eq := eqByEngine[eng]
				if eq == nil {
					continue
				}
				classes, last, okEq := eqClasses(eq, n)
				if !okEq {
					continue
				}
				h := host.New()
				out := h.RunTx(eng, tx, nil, []common.Address{host.Addr(1)}, nil)
				c.Eval(1)
				if out.Err != nil || out.Escaped != nil {
					note("stored-dict-tx-fails class="+string(host.Classify(out))+" err="+host.ErrKind(out.Err), eng, "storing the dictionary failed: "+core.Clip(host.ErrText(out), 300), nil, tx, map[string]any{"error": host.ErrText(out)})
					continue
				}
				out = h.RunScript(eng, ld, nil, nil)
				c.Eval(1)
				if out.Err != nil || out.Escaped != nil {
					note("stored-dict-load-fails class="+string(host.Classify(out))+" err="+host.ErrKind(out.Err), eng, "loading the dictionary failed: "+core.Clip(host.ErrText(out), 300), nil, ld, map[string]any{"error": host.ErrText(out), "transaction": tx})
					continue
				}
				arr, ok := out.Value.(cadence.Array)
				if !ok || len(arr.Values) != 3 {
					note("stored-dict-shape", eng, "unexpected result shape", nil, ld, nil)
					continue
				}
				look, ok1 := optInts(arr.Values[0])
				look2, ok2 := optInts(arr.Values[1])
				keyeq, ok3 := optInts(arr.Values[2])
				if !ok1 || !ok2 || !ok3 || len(look) != n+1 || len(look2) != n+1 || len(keyeq) != n {
					note("stored-dict-shape", eng, "unexpected result shape", nil, ld, nil)
					continue
				}
				c.Inc("stored_dict_checked")
				if look[0] != classes {
					note("stored-dict-length", eng, fmt.Sprintf("reloaded dictionary has length %d, but there are %d ==-classes", look[0], classes), nil, ld, map[string]any{"transaction": tx})
				}
				for i := 0; i < n; i++ {
					if keyeq[i] != 1 {
						note("stored-value-not-equal-to-itself", eng, fmt.Sprintf("vs[%d] reloaded from storage != freshly evaluated vs[%d]", i, i), []int{i}, ld, map[string]any{"transaction": tx})
						continue
					}
					if look[i+1] != last[i] {
						note("stored-dict-lookup", eng, fmt.Sprintf("reloaded d[vs[%d]] = %d, expected %d", i, look[i+1], last[i]), []int{i}, ld, map[string]any{"transaction": tx})
					}
					if look2[i+1] != last[i] {
						note("stored-dict-lookup-stored-key", eng, fmt.Sprintf("reloaded d[stored vs[%d]] = %d, expected %d", i, look2[i+1], last[i]), []int{i}, ld, map[string]any{"transaction": tx})
					}
				}
			}
		}
	}

	for _, law := range hitOrder {
		h := hits[law]
		report(law, h.engines, h.msg, h.idx, h.src, h.extra)
	}
	if c.WantSample() {
		c.Sample(map[string]any{"pool_type": p.Type, "expressions": p.Exprs, "eq_script": core.Clip(eqSrc, 1500)})
	}

	c18Direct(c)
}

// eqClasses: number of classes and, per index, the largest index of an equal element.
// ok=false if eq is not an equivalence relation (then class-based expectations are meaningless).
func eqClasses(eq []bool, n int) (classes int, last []int, ok bool) {
	last = make([]int, n)
	for i := 0; i < n; i++ {
		if !eq[i*n+i] {
			return 0, nil, false
		}
		first := true
		for j := 0; j < n; j++ {
			if eq[i*n+j] != eq[j*n+i] {
				return 0, nil, false
			}
			if eq[i*n+j] {
				if j < i {
					first = false
				}
				last[i] = j
				for k := 0; k < n; k++ {
					if eq[j*n+k] && !eq[i*n+k] {
						return 0, nil, false
					}
				}
			}
		}
		if first {
			classes++
		}
	}
	return classes, last, true
}

// ---------------------------------------------------------------- direct leg: Equal ⇒ equal HashInput

var c18Ctx = interpreter.NoOpStringContext{}

type dval struct {
	V    interpreter.Value
	Desc string
}

var c18ScriptLocation = common.ScriptLocation{0x1}

func randIface(r *rand.Rand) *interpreter.InterfaceStaticType {
	names := []string{"I1", "I2", "I3", "C.I", "I10"}
	return interpreter.NewInterfaceStaticTypeComputeTypeID(nil, c18ScriptLocation, names[r.IntN(len(names))])
}

type typeShape struct {
	// build constructs the type; perm decides the order in which set-like parts are listed
	build func(order *rand.Rand) interpreter.StaticType
	desc  string
}

// randStaticType returns a constructor that can be invoked with different "order" generators to
// get the same type with intersections / entitlement sets listed in different orders.
func randStaticType(r *rand.Rand, depth int) func(order *rand.Rand) interpreter.StaticType {
	prims := []interpreter.PrimitiveStaticType{
		interpreter.PrimitiveStaticTypeInt, interpreter.PrimitiveStaticTypeString, interpreter.PrimitiveStaticTypeBool,
		interpreter.PrimitiveStaticTypeAnyStruct, interpreter.PrimitiveStaticTypeUInt8, interpreter.PrimitiveStaticTypeAddress,
		interpreter.PrimitiveStaticTypePath, interpreter.PrimitiveStaticTypeMetaType, interpreter.PrimitiveStaticTypeNever,
		interpreter.PrimitiveStaticTypeCharacter, interpreter.PrimitiveStaticTypeUFix64, interpreter.PrimitiveStaticTypeAnyResource,
	}
	k := r.IntN(12)
	if depth <= 0 && k > 4 {
		k = r.IntN(5)
	}
	switch k {
	case 0, 1:
		p := prims[r.IntN(len(prims))]
		return func(*rand.Rand) interpreter.StaticType { return p }
	case 2:
		names := []string{"S", "R", "C.S", "E"}
		nm := names[r.IntN(len(names))]
		return func(*rand.Rand) interpreter.StaticType {
			return interpreter.NewCompositeStaticTypeComputeTypeID(nil, c18ScriptLocation, nm)
		}
	case 3, 4: // intersection
		cnt := 1 + r.IntN(3)
		seen := map[string]bool{}
		var ifs []*interpreter.InterfaceStaticType
		for len(ifs) < cnt {
			i := randIface(r)
			if !seen[string(i.ID())] {
				seen[string(i.ID())] = true
				ifs = append(ifs, i)
			}
		}
		return func(order *rand.Rand) interpreter.StaticType {
			return interpreter.NewIntersectionStaticType(nil, shuffled(order, ifs))
		}
	case 5:
		in := randStaticType(r, depth-1)
		return func(o *rand.Rand) interpreter.StaticType { return interpreter.NewOptionalStaticType(nil, in(o)) }
	case 6:
		in := randStaticType(r, depth-1)
		return func(o *rand.Rand) interpreter.StaticType { return interpreter.NewVariableSizedStaticType(nil, in(o)) }
	case 7:
		in := randStaticType(r, depth-1)
		sz := int64(r.IntN(3))
		return func(o *rand.Rand) interpreter.StaticType {
			return interpreter.NewConstantSizedStaticType(nil, in(o), sz)
		}
	case 8:
		kt := randStaticType(r, 0)
		vt := randStaticType(r, depth-1)
		return func(o *rand.Rand) interpreter.StaticType {
			return interpreter.NewDictionaryStaticType(nil, kt(o), vt(o))
		}
	case 9:
		if r.IntN(4) == 0 {
			return func(*rand.Rand) interpreter.StaticType { return interpreter.NewCapabilityStaticType(nil, nil) }
		}
		in := randStaticType(r, depth-1)
		return func(o *rand.Rand) interpreter.StaticType { return interpreter.NewCapabilityStaticType(nil, in(o)) }
	default: // reference with an authorization
		in := randStaticType(r, depth-1)
		ents := []common.TypeID{"s.01.X", "s.01.Y", "s.01.Z", "Mutate", "Insert", "A.0000000000000001.C.W"}
		cnt := r.IntN(4)
		set := shuffled(r, ents)[:cnt]
		kind := sema.Conjunction
		if r.IntN(3) == 0 {
			kind = sema.Disjunction
		}
		mapAuth := r.IntN(8) == 0
		return func(o *rand.Rand) interpreter.StaticType {
			var auth interpreter.Authorization = interpreter.UnauthorizedAccess
			switch {
			case mapAuth:
				auth = interpreter.NewEntitlementMapAuthorization(nil, "s.01.M")
			case cnt > 0:
				list := shuffled(o, set)
				auth = interpreter.NewEntitlementSetAuthorization(nil, func() []common.TypeID { return list }, len(list), kind)
			}
			return interpreter.NewReferenceStaticType(nil, auth, in(o))
		}
	}
}

func c18Direct(c *core.Ctx) {
	r := c.Rng
	// HashInput's contract: the caller provides a scratch buffer of at least 32 bytes
	scratch := make([]byte, 32)
	scratch2 := make([]byte, 32)
	check := func(a, b dval, class string) {
		c.Inc("direct_pairs")
		ea, okA := a.V.(interpreter.EquatableValue)
		eb, okB := b.V.(interpreter.EquatableValue)
		ha, okC := a.V.(interpreter.HashableValue)
		hb, okD := b.V.(interpreter.HashableValue)
		if !okA || !okB || !okC || !okD {
			return
		}
		ab := ea.Equal(c18Ctx, b.V)
		ba := eb.Equal(c18Ctx, a.V)
		if ab != ba {
			c.Violate("direct Equal-symmetric class="+class, fmt.Sprintf("%s.Equal(%s) = %v but the converse = %v", a.Desc, b.Desc, ab, ba),
				map[string]any{"a": a.Desc, "b": b.Desc})
		}
		if !ea.Equal(c18Ctx, a.V) {
			c.Violate("direct Equal-reflexive class="+class, fmt.Sprintf("%s.Equal(itself) = false", a.Desc), map[string]any{"a": a.Desc})
		}
		x := append([]byte{}, ha.HashInput(c18Ctx, scratch)...)
		y := append([]byte{}, hb.HashInput(c18Ctx, scratch2)...)
		if ab {
			c.Inc("direct_equal_pairs")
			c.Inc("direct_equal_" + class)
			if !bytes.Equal(x, y) {
				c.Violate("direct Equal-but-HashInput-differs class="+class, fmt.Sprintf("%s and %s are Equal but their HashInput differs", a.Desc, b.Desc),
					map[string]any{"a": a.Desc, "b": b.Desc, "hash_input_a": fmt.Sprintf("%x", x), "hash_input_b": fmt.Sprintf("%x", y)})
			}
		} else {
			c.Inc("direct_unequal_pairs")
		}
	}
	for i := 0; i < 40; i++ {
		switch r.IntN(5) {
		case 0, 1: // type values: same type listed in two orders, or two different types
			mk := randStaticType(r, 3)
			o1 := rand.New(rand.NewPCG(r.Uint64(), 1))
			o2 := rand.New(rand.NewPCG(r.Uint64(), 2))
			t1 := mk(o1)
			var t2 interpreter.StaticType
			if r.IntN(3) == 0 {
				t2 = randStaticType(r, 3)(o2)
			} else {
				t2 = mk(o2)
			}
			a := dval{interpreter.NewUnmeteredTypeValue(t1), "Type<" + t1.String() + ">"}
			b := dval{interpreter.NewUnmeteredTypeValue(t2), "Type<" + t2.String() + ">"}
			class := "types"
			if t1.String() != t2.String() {
				class = "reordered_types"
			}
			check(a, b, class)
		case 2: // strings
			s := genString(r, 4, func(string) {})
			var s2 string
			switch r.IntN(4) {
			case 0:
				s2 = genString(r, 4, func(string) {})
			case 1:
				s2 = s + atoms[r.IntN(len(atoms))].S
			default:
				s2 = decomposeSome(r, nfc(s))
			}
			class := "text"
			if s != s2 && nfc(s) == nfc(s2) {
				class = "respelled_text"
			}
			check(dval{interpreter.NewUnmeteredStringValue(s), "String " + quoteASCII(s)}, dval{interpreter.NewUnmeteredStringValue(s2), "String " + quoteASCII(s2)}, class)
		case 3: // characters (and a character against the one-cluster string)
			g := clustersOf(nfc(genString(r, 3, func(string) {})))
			if len(g) == 0 {
				continue
			}
			cl := g[r.IntN(len(g))]
			d := norm.NFD.String(cl)
			class := "text"
			if d != cl {
				class = "respelled_text"
			}
			check(dval{interpreter.NewUnmeteredCharacterValue(cl), "Character " + quoteASCII(cl)}, dval{interpreter.NewUnmeteredCharacterValue(d), "Character " + quoteASCII(d)}, class)
			check(dval{interpreter.NewUnmeteredCharacterValue(cl), "Character " + quoteASCII(cl)}, dval{interpreter.NewUnmeteredStringValue(cl), "String " + quoteASCII(cl)}, "char_vs_string")
		case 4: // numbers of two (possibly different) types with the same or neighbouring value, addresses, paths
			switch r.IntN(3) {
			case 0:
				t1 := num.IntTypes[r.IntN(len(num.IntTypes))]
				t2 := t1
				if r.IntN(2) == 0 {
					t2 = num.IntTypes[r.IntN(len(num.IntTypes))]
				}
				v := big.NewInt(int64(r.IntN(120)))
				w := new(big.Int).Set(v)
				if r.IntN(3) == 0 {
					w.Add(w, big.NewInt(1))
				}
				check(dval{t1.Make(v), t1.Name + " " + v.String()}, dval{t2.Make(w), t2.Name + " " + w.String()}, "numbers")
			case 1:
				b1 := []byte{0, 0, 0, 0, 0, 0, 0, byte(r.IntN(3))}
				b2 := []byte{byte(b1[7] + byte(r.IntN(2)))}
				check(dval{interpreter.NewUnmeteredAddressValueFromBytes(b1), fmt.Sprintf("Address %x", b1)}, dval{interpreter.NewUnmeteredAddressValueFromBytes(b2), fmt.Sprintf("Address %x", b2)}, "addresses")
			case 2:
				ds := []common.PathDomain{common.PathDomainStorage, common.PathDomainPublic, common.PathDomainPrivate}
				ids := []string{"a", "b", "ab"}
				p1 := interpreter.NewUnmeteredPathValue(ds[r.IntN(3)], ids[r.IntN(3)])
				p2 := interpreter.NewUnmeteredPathValue(ds[r.IntN(3)], ids[r.IntN(3)])
				if r.IntN(2) == 0 {
					p2 = p1
				}
				check(dval{p1, p1.String()}, dval{p2, p2.String()}, "paths")
			}
		}
	}
}

var _ = sort.Ints
