// Package text holds the checks of group text (see harness/groups.txt).
package text
