package text

import (
	"errors"
	"fmt"
	"math/rand/v2"
	"sort"
	"strconv"
	"strings"

	"verif/harness/core"
)

// ---------------------------------------------------------------- values of the model

type vk int

const (
	kInt vk = iota
	kBool
	kOpt
	kStr
	kArr
	kDict
	kStruct
	kOptStruct
	kAny
)

type structv struct {
	X   int64
	Arr []int64
}

type optI struct {
	Has bool
	V   int64
}

type optS struct {
	Has bool
	V   structv
}

func cloneVal(v any) any {
	switch x := v.(type) {
	case []int64:
		return append([]int64{}, x...)
	case [][]int64:
		out := make([][]int64, len(x))
		for i := range x {
			out[i] = append([]int64{}, x[i]...)
		}
		return out
	case map[int64]int64:
		out := map[int64]int64{}
		for k, e := range x {
			out[k] = e
		}
		return out
	case structv:
		return structv{x.X, append([]int64{}, x.Arr...)}
	case []structv:
		out := make([]structv, len(x))
		for i := range x {
			out[i] = structv{x[i].X, append([]int64{}, x[i].Arr...)}
		}
		return out
	case optS:
		return optS{x.Has, structv{x.V.X, append([]int64{}, x.V.Arr...)}}
	}
	return v
}

type c52State struct {
	vars map[string]any
}

func newC52State() *c52State {
	return &c52State{vars: map[string]any{
		"vi": int64(1), "vj": int64(2), "vb": true, "vo": optI{true, 3},
		"va": []int64{10, 11, 12, 13}, "vc": []int64{20, 21, 22}, "vaa": [][]int64{{1, 2}, {3, 4}},
		"vd": map[int64]int64{0: 100, 1: 101},
		"vs": structv{5, []int64{50, 51, 52}}, "vt": structv{6, []int64{60, 61}},
		"vss": []structv{{7, []int64{70, 71}}, {8, []int64{80, 81}}},
		"rs":  []int64{1, 2}, "rd": map[int64]int64{0: 3},
	}}
}

func (s *c52State) clone() *c52State {
	n := &c52State{vars: map[string]any{}}
	for k, v := range s.vars {
		n.vars[k] = cloneVal(v)
	}
	return n
}

func (s *c52State) finalState() string {
	v := s.vars
	var out []int64
	b2i := func(b bool) int64 {
		if b {
			return 1
		}
		return 0
	}
	dget := func(m map[int64]int64, k int64) int64 {
		if x, ok := m[k]; ok {
			return x
		}
		return -1
	}
	out = append(out, v["vi"].(int64), v["vj"].(int64), b2i(v["vb"].(bool)))
	if o := v["vo"].(optI); o.Has {
		out = append(out, o.V)
	} else {
		out = append(out, -1)
	}
	out = append(out, v["va"].([]int64)...)
	out = append(out, v["vc"].([]int64)...)
	for _, r := range v["vaa"].([][]int64) {
		out = append(out, r...)
	}
	vd := v["vd"].(map[int64]int64)
	out = append(out, dget(vd, 0), dget(vd, 1), dget(vd, 2), dget(vd, 3), int64(len(vd)))
	vs, vt := v["vs"].(structv), v["vt"].(structv)
	out = append(out, vs.X)
	out = append(out, vs.Arr...)
	out = append(out, vt.X)
	out = append(out, vt.Arr...)
	for _, e := range v["vss"].([]structv) {
		out = append(out, e.X)
		out = append(out, e.Arr...)
	}
	out = append(out, v["rs"].([]int64)...)
	rd := v["rd"].(map[int64]int64)
	out = append(out, dget(rd, 0), dget(rd, 1), dget(rd, 2), int64(len(rd)))
	parts := make([]string, len(out))
	for i, x := range out {
		parts[i] = strconv.FormatInt(x, 10)
	}
	return strings.Join(parts, ",")
}

// ---------------------------------------------------------------- trees

type xnode struct {
	K     string // node kind
	T     vk
	A     []*xnode
	ID    int
	ID2   int
	Op    string
	Atom  string   // leaf: source text of the atom
	Val   any      // leaf: literal value; nil when Var is set
	Var   string   // leaf atom / variable read
	Parts []string // tmpl: literal parts (len(A)+1)
}

type snode struct {
	K     string
	Name  string // declared name (let / loop variable / binding / old resource)
	Name2 string // index variable of for-indexed
	E     []*xnode
	Path  []*tpath
	Body  [][]*snode // blocks: then/else, loop body, switch case bodies (+ default last)
	Kind  vk
}

// tpath is an assignment / swap target rooted in a variable.
type tpath struct {
	Form string   // var | arr | arr2 | dict | member-arr | elem-member-arr | res-arr | res-dict
	Root string   // variable name
	Idx  []*xnode // index expressions, in source order
}

// ---------------------------------------------------------------- generator

// pelem is one step of the path from the program root to a logging leaf.
type pelem struct {
	Kind   string // construct (node kind, with the operator where there is one)
	UID    int    // identity of the construct inside the program
	Branch string // which part of the construct the path continues into
}

type c52Program struct {
	Source     string
	Log        []int
	Paths      map[int][]pelem // leaf id -> path of enclosing constructs
	Roles      map[int]string
	FinalState string
	Statements int
	Features   map[string]int64
}

type c52Gen struct {
	r      *rand.Rand
	c      *core.Ctx
	nextID int
	nextNm int
	roles  map[int]string
	ints   []string // int variable names in scope
	bools  []string
	loop   int // loop nesting depth (break / continue allowed)
	stmts  int
	inTmpl bool // inside a string template: no nested template (the lexer does not support it)
}

func newC52Gen(c *core.Ctx) *c52Gen {
	return &c52Gen{r: c.Rng, c: c, nextID: 1, roles: map[int]string{}, ints: []string{"vi", "vj"}, bools: []string{"vb"}}
}

func (g *c52Gen) id(role string) int {
	k := g.nextID
	g.nextID++
	g.roles[k] = role
	return k
}

func (g *c52Gen) name(prefix string) string {
	g.nextNm++
	return fmt.Sprintf("%s%d", prefix, g.nextNm)
}

func (g *c52Gen) pick(n int) int { return g.r.IntN(n) }

func intsLit(xs []int64) string {
	parts := make([]string, len(xs))
	for i, x := range xs {
		parts[i] = strconv.FormatInt(x, 10)
	}
	return "[" + strings.Join(parts, ", ") + "]"
}

func (g *c52Gen) randInts() []int64 {
	n := 2 + g.pick(3)
	out := make([]int64, n)
	for i := range out {
		out[i] = int64(g.pick(5))
	}
	return out
}

func (g *c52Gen) leaf(t vk, role string) *xnode {
	n := &xnode{K: "leaf", T: t, ID: g.id(role)}
	switch t {
	case kInt:
		if g.pick(5) == 0 {
			n.Var = g.ints[g.pick(len(g.ints))]
			n.Atom = n.Var
		} else {
			v := int64(g.pick(5))
			n.Val, n.Atom = v, strconv.FormatInt(v, 10)
		}
	case kBool:
		if g.pick(6) == 0 {
			n.Var = g.bools[g.pick(len(g.bools))]
			n.Atom = n.Var
		} else {
			v := g.pick(2) == 0
			n.Val, n.Atom = v, strconv.FormatBool(v)
		}
	case kOpt:
		if g.pick(3) == 0 {
			n.Val, n.Atom = optI{}, "nil"
		} else {
			v := int64(g.pick(5))
			n.Val, n.Atom = optI{true, v}, strconv.FormatInt(v, 10)
		}
	case kStr:
		s := []string{"", "a", "bc", "x y"}[g.pick(4)]
		n.Val, n.Atom = s, strconv.Quote(s)
	case kArr:
		xs := g.randInts()
		n.Val, n.Atom = xs, intsLit(xs)
	case kDict:
		m := map[int64]int64{}
		var parts []string
		for k := int64(0); k < 3; k++ {
			if g.pick(3) != 0 {
				m[k] = int64(10 + g.pick(5))
				parts = append(parts, fmt.Sprintf("%d: %d", k, m[k]))
			}
		}
		n.Val, n.Atom = m, "{"+strings.Join(parts, ", ")+"}"
	case kStruct:
		s := structv{int64(g.pick(5)), g.randInts()}
		n.Val, n.Atom = s, fmt.Sprintf("S(x: %d, arr: %s)", s.X, intsLit(s.Arr))
	case kOptStruct:
		if g.pick(3) == 0 {
			n.Val, n.Atom = optS{}, "nil"
		} else {
			s := structv{int64(g.pick(5)), g.randInts()}
			n.Val, n.Atom = optS{true, s}, fmt.Sprintf("S(x: %d, arr: %s)", s.X, intsLit(s.Arr))
		}
	case kAny:
		if g.pick(3) == 0 {
			n.Val, n.Atom = "s", `"s"`
		} else {
			v := int64(g.pick(5))
			n.Val, n.Atom = v, strconv.FormatInt(v, 10)
		}
	}
	return n
}

func (g *c52Gen) gen(t vk, d int, role string) *xnode {
	switch t {
	case kInt:
		return g.genInt(d, role)
	case kBool:
		return g.genBool(d, role)
	case kOpt:
		return g.genOpt(d, role)
	case kStr:
		return g.genStr(d, role)
	case kArr:
		return g.genArr(d, role)
	case kDict:
		return g.genDict(d, role)
	case kStruct:
		return g.genStruct(d, role)
	case kOptStruct:
		return g.leaf(kOptStruct, role)
	}
	return g.leaf(kAny, role)
}

func (g *c52Gen) genInt(d int, role string) *xnode {
	if d <= 0 || g.pick(4) == 0 {
		if g.pick(8) == 0 {
			v := g.ints[g.pick(len(g.ints))]
			return &xnode{K: "var", T: kInt, Var: v}
		}
		return g.leaf(kInt, role)
	}
	switch g.pick(16) {
	case 0, 1:
		op := []string{"+", "-", "*", "/", "%", "&", "|", "^", "<<", ">>"}[g.pick(10)]
		return &xnode{K: "bin", T: kInt, Op: op, A: []*xnode{g.genInt(d-1, "binary "+op+" left"), g.genInt(d-1, "binary "+op+" right")}}
	case 2:
		return &xnode{K: "neg", T: kInt, A: []*xnode{g.genInt(d-1, "unary - operand")}}
	case 3:
		return &xnode{K: "cond", T: kInt, A: []*xnode{g.genBool(d-1, "?: condition"), g.genInt(d-1, "?: then"), g.genInt(d-1, "?: else")}}
	case 4:
		return &xnode{K: "coal", T: kInt, A: []*xnode{g.genOpt(d-1, "?? left"), g.genInt(d-1, "?? right")}}
	case 5:
		return &xnode{K: "force", T: kInt, A: []*xnode{g.genOpt(d-1, "force-unwrap operand")}}
	case 6:
		return &xnode{K: "idx", T: kInt, A: []*xnode{g.genArr(d-1, "index expression target"), g.genIndex(d-1, "index expression index")}}
	case 7:
		return &xnode{K: "fld", T: kInt, A: []*xnode{g.genStruct(d-1, "member access target")}}
	case 8:
		return &xnode{K: "mth", T: kInt, ID: g.id("method body"), A: []*xnode{g.genStruct(d-1, "method receiver"), g.genInt(d-1, "method argument")}}
	case 9:
		n := &xnode{K: "call", T: kInt, A: []*xnode{g.genInt(d-1, "call argument 1"), g.genInt(d-1, "call argument 2")}}
		n.ID = g.id("function body")
		return n
	case 10:
		n := &xnode{K: "fcall", T: kInt, ID: g.id("callee expression")}
		n.A = []*xnode{g.genInt(d-1, "callee-expression call argument 1"), g.genInt(d-1, "callee-expression call argument 2")}
		n.ID2 = g.id("callee-expression function body")
		return n
	case 11:
		return &xnode{K: "cast", T: kInt, A: []*xnode{g.genInt(d-1, "static cast operand")}}
	case 12:
		return &xnode{K: "castf", T: kInt, A: []*xnode{g.leaf(kAny, "force cast operand")}}
	case 13:
		return &xnode{K: "slen", T: kInt, A: []*xnode{g.genStr(d-1, "member access target")}}
	case 14:
		return &xnode{K: "alen", T: kInt, A: []*xnode{g.genArr(d-1, "member access target")}}
	default:
		// dictionary lookup with default
		return &xnode{K: "coal", T: kInt, A: []*xnode{
			{K: "didx", T: kOpt, A: []*xnode{g.genDict(d-1, "index expression target"), g.genInt(d-1, "index expression index")}},
			g.genInt(d-1, "?? right")}}
	}
}

// genIndex: an Int expression that is likely to be a small index.
func (g *c52Gen) genIndex(d int, role string) *xnode {
	if d <= 0 || g.pick(3) != 0 {
		n := &xnode{K: "leaf", T: kInt, ID: g.id(role)}
		v := int64(g.pick(2))
		if g.pick(4) == 0 {
			v = int64(g.pick(4))
		}
		n.Val, n.Atom = v, strconv.FormatInt(v, 10)
		return n
	}
	// An index position gives its expression the expected type Integer, which the checker pushes into
	// conditional operands ((c ? 1 : 2) % 2 is then rejected as Integer % Int); the static cast
	// restores the expected type Int without changing what is evaluated.
	return &xnode{K: "cast", T: kInt, A: []*xnode{g.genInt(d, role)}}
}

func (g *c52Gen) genBool(d int, role string) *xnode {
	if d <= 0 || g.pick(4) == 0 {
		if g.pick(8) == 0 {
			return &xnode{K: "var", T: kBool, Var: g.bools[g.pick(len(g.bools))]}
		}
		return g.leaf(kBool, role)
	}
	switch g.pick(8) {
	case 0:
		return &xnode{K: "not", T: kBool, A: []*xnode{g.genBool(d-1, "unary ! operand")}}
	case 1, 2:
		return &xnode{K: "and", T: kBool, A: []*xnode{g.genBool(d-1, "&& left"), g.genBool(d-1, "&& right")}}
	case 3, 4:
		return &xnode{K: "or", T: kBool, A: []*xnode{g.genBool(d-1, "|| left"), g.genBool(d-1, "|| right")}}
	case 5, 6:
		op := []string{"==", "!=", "<", "<=", ">", ">="}[g.pick(6)]
		return &xnode{K: "cmp", T: kBool, Op: op, A: []*xnode{g.genInt(d-1, "binary "+op+" left"), g.genInt(d-1, "binary "+op+" right")}}
	default:
		return &xnode{K: "cond", T: kBool, A: []*xnode{g.genBool(d-1, "?: condition"), g.genBool(d-1, "?: then"), g.genBool(d-1, "?: else")}}
	}
}

func (g *c52Gen) genOpt(d int, role string) *xnode {
	if d <= 0 || g.pick(4) == 0 {
		if g.pick(8) == 0 {
			return &xnode{K: "var", T: kOpt, Var: "vo"}
		}
		return g.leaf(kOpt, role)
	}
	switch g.pick(7) {
	case 0, 1:
		return &xnode{K: "cond", T: kOpt, A: []*xnode{g.genBool(d-1, "?: condition"), g.genOpt(d-1, "?: then"), g.genOpt(d-1, "?: else")}}
	case 2:
		return &xnode{K: "didx", T: kOpt, A: []*xnode{g.genDict(d-1, "index expression target"), g.genInt(d-1, "index expression index")}}
	case 3:
		return &xnode{K: "ofld", T: kOpt, A: []*xnode{g.leaf(kOptStruct, "optional chaining target")}}
	case 4, 5:
		return &xnode{K: "omth", T: kOpt, ID: g.id("optional-chaining method body"), A: []*xnode{g.leaf(kOptStruct, "optional chaining target"), g.genInt(d-1, "optional-chaining method argument")}}
	default:
		return &xnode{K: "casto", T: kOpt, A: []*xnode{g.leaf(kAny, "conditional cast operand")}}
	}
}

func (g *c52Gen) genStr(d int, role string) *xnode {
	if d <= 0 || g.pick(3) == 0 {
		return g.leaf(kStr, role)
	}
	k := g.pick(3)
	if g.inTmpl {
		k = 0
	}
	switch k {
	case 0:
		return &xnode{K: "sconcat", T: kStr, A: []*xnode{g.genStr(d-1, "method receiver"), g.genStr(d-1, "method argument")}}
	default:
		n := &xnode{K: "tmpl", T: kStr}
		g.inTmpl = true
		defer func() { g.inTmpl = false }()
		cnt := 1 + g.pick(3)
		for i := 0; i < cnt; i++ {
			n.Parts = append(n.Parts, []string{"", "a", "-", "x "}[g.pick(4)])
			if g.pick(3) == 0 {
				n.A = append(n.A, g.genStr(d-1, "string template expression"))
			} else {
				n.A = append(n.A, g.genInt(d-1, "string template expression"))
			}
		}
		n.Parts = append(n.Parts, []string{"", "z"}[g.pick(2)])
		return n
	}
}

func (g *c52Gen) genArr(d int, role string) *xnode {
	if d <= 0 || g.pick(3) == 0 {
		if g.pick(4) == 0 {
			return &xnode{K: "var", T: kArr, Var: []string{"va", "vc"}[g.pick(2)]}
		}
		return g.leaf(kArr, role)
	}
	switch g.pick(3) {
	case 0:
		return &xnode{K: "farr", T: kArr, A: []*xnode{g.genStruct(d-1, "member access target")}}
	default:
		n := &xnode{K: "alit", T: kArr}
		cnt := 2 + g.pick(3)
		for i := 0; i < cnt; i++ {
			n.A = append(n.A, g.genInt(d-1, "array literal element"))
		}
		return n
	}
}

func (g *c52Gen) genDict(d int, role string) *xnode {
	if d <= 0 || g.pick(3) == 0 {
		if g.pick(4) == 0 {
			return &xnode{K: "var", T: kDict, Var: "vd"}
		}
		return g.leaf(kDict, role)
	}
	n := &xnode{K: "dlit", T: kDict}
	cnt := 1 + g.pick(3)
	for i := 0; i < cnt; i++ {
		// distinct keys by construction when the key is a leaf with literal i; compound keys may collide (then the statement is regenerated)
		var key *xnode
		if g.pick(3) == 0 {
			key = g.genInt(d-1, "dictionary literal key")
		} else {
			key = &xnode{K: "leaf", T: kInt, ID: g.id("dictionary literal key"), Val: int64(i), Atom: strconv.Itoa(i)}
		}
		n.A = append(n.A, key, g.genInt(d-1, "dictionary literal value"))
	}
	return n
}

func (g *c52Gen) genStruct(d int, role string) *xnode {
	if d <= 0 || g.pick(3) == 0 {
		if g.pick(4) == 0 {
			return &xnode{K: "var", T: kStruct, Var: []string{"vs", "vt"}[g.pick(2)]}
		}
		return g.leaf(kStruct, role)
	}
	return &xnode{K: "ctor", T: kStruct, A: []*xnode{g.genInt(d-1, "constructor argument x"), g.genArr(d-1, "constructor argument arr")}}
}

// ---- statements

func (g *c52Gen) genPath(role string, resource bool, allowVar bool) *tpath {
	d := 2
	ix := func(which string) *xnode { return g.genIndex(d, role+" "+which) }
	if resource {
		if g.pick(2) == 0 {
			return &tpath{Form: "res-arr", Root: "rs", Idx: []*xnode{ix("index")}}
		}
		return &tpath{Form: "res-dict", Root: "rd", Idx: []*xnode{ix("index")}}
	}
	n := 7
	if !allowVar {
		n = 6
	}
	switch g.pick(n) {
	case 0:
		return &tpath{Form: "arr", Root: []string{"va", "vc"}[g.pick(2)], Idx: []*xnode{ix("index")}}
	case 1:
		return &tpath{Form: "arr2", Root: "vaa", Idx: []*xnode{ix("outer index"), ix("inner index")}}
	case 2:
		return &tpath{Form: "member-arr", Root: []string{"vs", "vt"}[g.pick(2)], Idx: []*xnode{ix("index")}}
	case 3:
		return &tpath{Form: "elem-member-arr", Root: "vss", Idx: []*xnode{ix("outer index"), ix("inner index")}}
	case 4:
		return &tpath{Form: "arr", Root: "va", Idx: []*xnode{ix("index")}}
	case 5:
		return &tpath{Form: "arr2", Root: "vaa", Idx: []*xnode{ix("outer index"), ix("inner index")}}
	default:
		return &tpath{Form: "var", Root: []string{"vi", "vj"}[g.pick(2)]}
	}
}

func (g *c52Gen) genBlock(depth int, minN, maxN int) []*snode {
	n := minN + g.pick(maxN-minN+1)
	savedInts, savedBools := len(g.ints), len(g.bools)
	var out []*snode
	for i := 0; i < n; i++ {
		out = append(out, g.genStmt(depth))
	}
	g.ints, g.bools = g.ints[:savedInts], g.bools[:savedBools]
	return out
}

func (g *c52Gen) genStmt(depth int) *snode {
	g.stmts++
	const d = 3
	if g.loop > 0 && g.pick(7) == 0 {
		k := "break"
		if g.pick(2) == 0 {
			k = "continue"
		}
		return &snode{K: "if", E: []*xnode{g.genBool(2, "if condition")}, Body: [][]*snode{{{K: k}}, nil}}
	}
	k := g.pick(31)
	if depth <= 0 && k >= 19 && k <= 26 {
		k = g.pick(19)
	}
	switch k {
	case 0, 1:
		t := []vk{kInt, kInt, kBool, kOpt, kStr, kArr, kDict, kStruct}[g.pick(8)]
		s := &snode{K: "let", Name: g.name("l"), Kind: t, E: []*xnode{g.gen(t, d, "let value")}}
		switch t {
		case kInt:
			g.ints = append(g.ints, s.Name)
		case kBool:
			g.bools = append(g.bools, s.Name)
		}
		return s
	case 2, 3:
		switch g.pick(4) {
		case 0:
			return &snode{K: "assign-var", Name: "vb", Kind: kBool, E: []*xnode{g.genBool(d, "assignment value")}}
		case 1:
			return &snode{K: "assign-var", Name: "vo", Kind: kOpt, E: []*xnode{g.genOpt(d, "assignment value")}}
		default:
			return &snode{K: "assign-var", Name: []string{"vi", "vj"}[g.pick(2)], Kind: kInt, E: []*xnode{g.genInt(d, "assignment value")}}
		}
	case 4, 5, 6, 7:
		p := g.genPath("assignment target", false, false)
		return &snode{K: "assign-path", Path: []*tpath{p}, E: []*xnode{g.genInt(d, "assignment value")}}
	case 8:
		p := &tpath{Form: "dict", Root: "vd", Idx: []*xnode{g.genIndex(2, "assignment target index")}}
		return &snode{K: "assign-path", Path: []*tpath{p}, E: []*xnode{g.genInt(d, "assignment value")}}
	case 9, 10, 11:
		l := g.genPath("swap left target", false, true)
		r := g.genPath("swap right target", false, l.Form != "var")
		return &snode{K: "swap", Path: []*tpath{l, r}}
	case 12:
		return &snode{K: "swap-res", Path: []*tpath{
			{Form: "res-arr", Root: "rs", Idx: []*xnode{g.genIndex(2, "swap left target index")}},
			{Form: "res-arr", Root: "rs", Idx: []*xnode{g.genIndex(2, "swap right target index")}}}}
	case 13, 14:
		p := g.genPath("second-value assignment target", true, false)
		s := &snode{K: "second", Name: g.name("o"), Path: []*tpath{p}}
		s.E = []*xnode{{K: "leaf", T: kAny, ID: g.id("second-value assignment value"), Val: int64(10 + g.pick(80))}}
		return s
	case 15:
		return &snode{K: "emit", E: []*xnode{g.genInt(d, "emit argument a"), g.genInt(d, "emit argument b")}}
	case 16:
		return &snode{K: "destroy", E: []*xnode{{K: "leaf", T: kAny, ID: g.id("destroy operand"), Val: int64(g.pick(9))}}}
	case 17, 18:
		n := &snode{K: "call-stmt", E: []*xnode{g.genInt(d, "call argument 1"), g.genBool(d, "call argument 2")}}
		n.E = append(n.E, &xnode{K: "leaf", T: kAny, ID: g.id("function body")})
		return n
	case 19, 20:
		s := &snode{K: "if", E: []*xnode{g.genBool(d, "if condition")}}
		s.Body = append(s.Body, g.genBlock(depth-1, 1, 2))
		switch g.pick(3) {
		case 0: // else if
			inner := &snode{K: "if", E: []*xnode{g.genBool(d, "else-if condition")}}
			inner.Body = append(inner.Body, g.genBlock(depth-1, 1, 2), g.genBlock(depth-1, 1, 2))
			s.Body = append(s.Body, []*snode{inner})
		case 1:
			s.Body = append(s.Body, g.genBlock(depth-1, 1, 2))
		default:
			s.Body = append(s.Body, nil)
		}
		return s
	case 21:
		s := &snode{K: "iflet", Name: g.name("b"), E: []*xnode{g.genOpt(d, "if-let value")}}
		g.ints = append(g.ints, s.Name)
		s.Body = append(s.Body, g.genBlock(depth-1, 1, 2))
		g.ints = g.ints[:len(g.ints)-1]
		s.Body = append(s.Body, g.genBlock(depth-1, 0, 1))
		return s
	case 22, 23:
		s := &snode{K: "while", Name: g.name("w")}
		bound := &xnode{K: "leaf", T: kInt, ID: g.id("while condition"), Val: int64(g.pick(4))}
		bound.Atom = strconv.FormatInt(bound.Val.(int64), 10)
		var cond *xnode = &xnode{K: "cmp", T: kBool, Op: "<", A: []*xnode{{K: "var", T: kInt, Var: s.Name}, bound}}
		if g.pick(3) == 0 {
			cond = &xnode{K: "and", T: kBool, A: []*xnode{cond, g.genBool(1, "while condition")}}
		}
		s.E = []*xnode{cond}
		g.ints = append(g.ints, s.Name)
		g.loop++
		s.Body = append(s.Body, g.genBlock(depth-1, 1, 3))
		g.loop--
		g.ints = g.ints[:len(g.ints)-1]
		return s
	case 24, 25:
		s := &snode{K: "for", Name: g.name("x"), E: []*xnode{g.genArr(d, "for iterable")}}
		if g.pick(2) == 0 {
			s.K = "for-indexed"
			s.Name2 = g.name("i")
			g.ints = append(g.ints, s.Name2)
		}
		g.ints = append(g.ints, s.Name)
		g.loop++
		s.Body = append(s.Body, g.genBlock(depth-1, 1, 3))
		g.loop--
		if s.Name2 != "" {
			g.ints = g.ints[:len(g.ints)-2]
		} else {
			g.ints = g.ints[:len(g.ints)-1]
		}
		return s
	case 26:
		s := &snode{K: "switch", E: []*xnode{g.genInt(d, "switch subject")}}
		if g.pick(2) == 0 {
			s.E[0] = g.genIndex(0, "switch subject") // a small subject, so that cases match often
		}
		cnt := 1 + g.pick(3)
		for i := 0; i < cnt; i++ {
			s.E = append(s.E, g.genIndex(2, "switch case value"))
			s.Body = append(s.Body, g.genBlock(depth-1, 1, 2))
		}
		s.Body = append(s.Body, g.genBlock(depth-1, 1, 1)) // default
		return s
	case 27:
		if g.loop > 0 {
			k := "break"
			if g.pick(2) == 0 {
				k = "continue"
			}
			return &snode{K: "if", E: []*xnode{g.genBool(2, "if condition")}, Body: [][]*snode{{{K: k}}, nil}}
		}
		return &snode{K: "call-stmt", E: []*xnode{g.genInt(d, "call argument 1"), g.genBool(d, "call argument 2"), {K: "leaf", T: kAny, ID: g.id("function body")}}}
	case 30:
		s := &snode{K: "create", E: []*xnode{g.genInt(d, "create argument a"), g.genInt(d, "create argument b")}}
		s.E = append(s.E, &xnode{K: "leaf", T: kAny, ID: g.id("initializer body")})
		return s
	case 28:
		if g.pick(2) == 0 && depth == 2 {
			return &snode{K: "if", E: []*xnode{g.genBool(2, "if condition")}, Body: [][]*snode{{{K: "return", E: []*xnode{g.genInt(d, "return value")}}}, nil}}
		}
		fallthrough
	default:
		return &snode{K: "assign-var", Name: []string{"vi", "vj"}[g.pick(2)], Kind: kInt, E: []*xnode{g.genInt(d, "assignment value")}}
	}
}

// genProgram generates statements one at a time; each top-level statement is dry-run on a copy of
// the model state and regenerated if it would fail (index out of range, division by zero, nil
// force-unwrap, failing force cast, duplicate dictionary literal keys, values leaving the small range).
func (g *c52Gen) genProgram() *c52Program {
	m := &c52Model{st: newC52State(), feat: map[string]int64{}}
	var top []*snode
	returned := false
	nTop := 9 + g.pick(6)
	for i := 0; i < nTop && !returned; i++ {
		var chosen *snode
		for try := 0; try < 30; try++ {
			savedID, savedNm, savedInts, savedBools, savedStmts := g.nextID, g.nextNm, len(g.ints), len(g.bools), g.stmts
			s := g.genStmt(2)
			trial := &c52Model{st: m.st.clone(), feat: map[string]int64{}}
			err := trial.exec(s)
			if err == nil || errors.Is(err, errReturn) {
				chosen = s
				m.st = trial.st
				m.log = append(m.log, trial.log...)
				for k, v := range trial.feat {
					m.feat[k] += v
				}
				if err != nil {
					returned = true
					m.ret = trial.ret
				}
				break
			}
			// discard: roll the generator's counters back so ids stay dense and names unique
			for id := savedID; id < g.nextID; id++ {
				delete(g.roles, id)
			}
			g.nextID, g.nextNm, g.stmts = savedID, savedNm, savedStmts
			g.ints, g.bools = g.ints[:savedInts], g.bools[:savedBools]
		}
		if chosen == nil {
			continue
		}
		top = append(top, chosen)
	}
	var ret *xnode
	if !returned {
		for try := 0; try < 30; try++ {
			savedID := g.nextID
			e := g.genInt(3, "return value")
			trial := &c52Model{st: m.st.clone(), feat: map[string]int64{}}
			v, err := trial.ev(e)
			if err == nil {
				ret = e
				m.log = append(m.log, trial.log...)
				for k, x := range trial.feat {
					m.feat[k] += x
				}
				m.ret = v.(int64)
				m.feat["stmt_return"]++
				break
			}
			for id := savedID; id < g.nextID; id++ {
				delete(g.roles, id)
			}
			g.nextID = savedID
		}
		if ret == nil {
			ret = &xnode{K: "var", T: kInt, Var: "vi"}
			m.ret = m.st.vars["vi"].(int64)
		}
	}
	var sb strings.Builder
	sb.WriteString(c52Prelude)
	sb.WriteString("access(all) fun main(): [Int] {\n")
	sb.WriteString(c52VarDecls)
	pr := &c52Printer{sb: &sb}
	for _, s := range top {
		pr.stmt(s, 1)
	}
	if ret != nil {
		pr.ret(ret, 1)
	} else {
		// unreachable tail so that the function is well-formed for the checker
		sb.WriteString("    destroy rs\n    destroy rd\n    return []\n")
	}
	sb.WriteString("}\n")
	paths := map[int][]pelem{}
	w := &pathWalker{paths: paths}
	for i, st := range top {
		w.stmt(st, []pelem{{"program", 0, fmt.Sprintf("statement %d", i)}})
	}
	if ret != nil {
		w.expr(ret, []pelem{{"program", 0, "final return"}, {"return", -1, "value"}})
	}
	return &c52Program{
		Source: sb.String(), Log: m.log, Roles: g.roles, Paths: paths, FinalState: strconv.FormatInt(m.ret, 10) + "," + m.st.finalState(),
		Statements: g.stmts, Features: m.feat,
	}
}

// ---------------------------------------------------------------- paths (for narrow violation keys)

type pathWalker struct {
	paths map[int][]pelem
	uid   int
}

func (w *pathWalker) next() int { w.uid++; return w.uid }

func with(path []pelem, e pelem) []pelem {
	return append(append([]pelem{}, path...), e)
}

func (w *pathWalker) expr(n *xnode, path []pelem) {
	kind := n.K
	if n.Op != "" {
		kind += " " + n.Op
	}
	switch n.K {
	case "leaf":
		w.paths[n.ID] = path
		return
	case "var":
		return
	}
	uid := w.next()
	names := map[string][]string{
		"bin": {"left", "right"}, "cmp": {"left", "right"}, "and": {"left", "right"}, "or": {"left", "right"}, "coal": {"left", "right"},
		"cond": {"condition", "then", "else"}, "idx": {"target", "index"}, "didx": {"target", "index"},
		"mth": {"receiver", "argument"}, "omth": {"receiver", "argument"}, "call": {"argument 1", "argument 2"}, "fcall": {"argument 1", "argument 2"},
		"ctor": {"argument x", "argument arr"}, "sconcat": {"receiver", "argument"},
	}[n.K]
	for i, a := range n.A {
		b := fmt.Sprintf("operand %d", i)
		switch {
		case i < len(names):
			b = names[i]
		case n.K == "dlit":
			b = []string{"key", "value"}[i%2]
		case n.K == "alit" || n.K == "tmpl":
			b = "element"
		}
		w.expr(a, with(path, pelem{kind, uid, b}))
	}
	switch n.K {
	case "mth", "omth", "call":
		w.paths[n.ID] = with(path, pelem{kind, uid, "body"})
	case "fcall":
		w.paths[n.ID] = with(path, pelem{kind, uid, "callee"})
		w.paths[n.ID2] = with(path, pelem{kind, uid, "body"})
	}
}

func (w *pathWalker) stmt(s *snode, path []pelem) {
	uid := w.next()
	kind := s.K
	for j, p := range s.Path {
		side := "target"
		if len(s.Path) == 2 {
			side = []string{"left target", "right target"}[j]
		}
		for _, e := range p.Idx {
			w.expr(e, with(path, pelem{kind, uid, side + " index"}))
		}
	}
	switch s.K {
	case "second", "destroy":
		w.paths[s.E[0].ID] = with(path, pelem{kind, uid, "value"})
	case "call-stmt", "create":
		w.expr(s.E[0], with(path, pelem{kind, uid, "argument 1"}))
		w.expr(s.E[1], with(path, pelem{kind, uid, "argument 2"}))
		w.paths[s.E[2].ID] = with(path, pelem{kind, uid, "body"})
	case "switch":
		w.expr(s.E[0], with(path, pelem{kind, uid, "subject"}))
		for i := 1; i < len(s.E); i++ {
			w.expr(s.E[i], with(path, pelem{kind, uid, "case value"}))
		}
	case "emit":
		w.expr(s.E[0], with(path, pelem{kind, uid, "argument 1"}))
		w.expr(s.E[1], with(path, pelem{kind, uid, "argument 2"}))
	default:
		b := map[string]string{"if": "condition", "while": "condition", "for": "iterable", "for-indexed": "iterable"}[s.K]
		if b == "" {
			b = "value"
		}
		for _, e := range s.E {
			w.expr(e, with(path, pelem{kind, uid, b}))
		}
	}
	for bi, blk := range s.Body {
		for si, st := range blk {
			w.stmt(st, with(path, pelem{kind, uid, fmt.Sprintf("block %d statement %d", bi, si)}))
		}
	}
}

// divergenceKey names the construct at which the engine's log leaves the model's: the deeper of the
// lowest common constructs of (model-next, engine-next) and of (last agreed, engine-next).
func divergenceKey(paths map[int][]pelem, prev, exp, obs int) string {
	lca := func(a, b []pelem) int {
		n := 0
		for n < len(a) && n < len(b) && a[n].UID == b[n].UID && a[n].Kind == b[n].Kind {
			n++
		}
		return n
	}
	po, okO := paths[obs]
	pe, okE := paths[exp]
	pp, okP := paths[prev]
	if !okO {
		if okE && len(pe) > 0 {
			last := pe[len(pe)-1]
			return fmt.Sprintf("construct=%s model-next=%s engine-next=none", last.Kind, last.Branch)
		}
		return "engine-next=unknown"
	}
	d1, d2 := 0, 0
	if okE {
		d1 = lca(pe, po)
	}
	if okP {
		d2 = lca(pp, po)
	}
	d := d1
	other, okOther := pe, okE
	if d2 > d1 {
		d = d2
	}
	if d == 0 {
		return "construct=program"
	}
	// If the engine went into a conditionally evaluated part that the model does not enter at this point,
	// that construct is the witness class (it may lie below the common construct when the operand
	// evaluated before it logs nothing).
	cond := map[string]map[string]bool{
		"coal": {"right": true}, "and": {"right": true}, "or": {"right": true}, "cond": {"then": true, "else": true},
		"omth": {"argument": true, "body": true},
	}
	for i := len(po) - 1; i >= d1-1 && i >= 0; i-- { // innermost first
		if bs, ok := cond[po[i].Kind]; ok && bs[po[i].Branch] {
			under := okE && len(pe) > i && pe[i].UID == po[i].UID && pe[i].Branch == po[i].Branch
			if !under {
				return fmt.Sprintf("construct=%s unexpectedly-evaluated=%s", po[i].Kind, po[i].Branch)
			}
		}
	}
	node := po[d-1]
	// branches below the chosen construct
	label := func(p []pelem, ok bool) string {
		if !ok || len(p) < d || p[d-1].UID != node.UID {
			return "outside"
		}
		b := p[d-1].Branch
		if strings.HasPrefix(b, "statement ") || strings.HasPrefix(b, "block ") {
			b = "statement"
		}
		return b
	}
	return fmt.Sprintf("construct=%s after=%s model-next=%s engine-next=%s", node.Kind, label(pp, okP), label(other, okOther), label(po, true))
}

// ---------------------------------------------------------------- printer

type c52Printer struct{ sb *strings.Builder }

func px(n *xnode) string {
	a := func(i int) string { return px(n.A[i]) }
	switch n.K {
	case "leaf":
		fn := map[vk]string{kInt: "tI", kBool: "tB", kOpt: "tO", kStr: "tS", kArr: "tA", kDict: "tD", kStruct: "tT", kOptStruct: "tOT", kAny: "tY"}[n.T]
		return fmt.Sprintf("%s(%d, %s)", fn, n.ID, n.Atom)
	case "var":
		return n.Var
	case "bin", "cmp":
		return "(" + a(0) + " " + n.Op + " " + a(1) + ")"
	case "neg":
		return "(-" + a(0) + ")"
	case "not":
		return "(!" + a(0) + ")"
	case "and":
		return "(" + a(0) + " && " + a(1) + ")"
	case "or":
		return "(" + a(0) + " || " + a(1) + ")"
	case "cond":
		return "(" + a(0) + " ? " + a(1) + " : " + a(2) + ")"
	case "coal":
		return "(" + a(0) + " ?? " + a(1) + ")"
	case "force":
		return "(" + a(0) + "!)"
	case "idx", "didx":
		return a(0) + "[" + a(1) + "]"
	case "fld":
		return a(0) + ".x"
	case "farr":
		return a(0) + ".arr"
	case "ofld":
		return a(0) + "?.x"
	case "omth":
		return fmt.Sprintf("%s?.m(%d, %s)", a(0), n.ID, a(1))
	case "mth":
		return fmt.Sprintf("%s.m(%d, %s)", a(0), n.ID, a(1))
	case "call":
		return fmt.Sprintf("cI(%d, %s, %s)", n.ID, a(0), a(1))
	case "fcall":
		return fmt.Sprintf("tF(%d, %d)(%s, %s)", n.ID, n.ID2, a(0), a(1))
	case "cast":
		return "(" + a(0) + " as Int)"
	case "castf":
		return "(" + a(0) + " as! Int)"
	case "casto":
		return "(" + a(0) + " as? Int)"
	case "slen":
		return a(0) + ".length"
	case "alen":
		return a(0) + ".length"
	case "sconcat":
		return a(0) + ".concat(" + a(1) + ")"
	case "tmpl":
		var sb strings.Builder
		sb.WriteByte('"')
		for i := range n.A {
			sb.WriteString(n.Parts[i])
			sb.WriteString(`\(` + a(i) + ")")
		}
		sb.WriteString(n.Parts[len(n.A)])
		sb.WriteByte('"')
		return sb.String()
	case "alit":
		parts := make([]string, len(n.A))
		for i := range n.A {
			parts[i] = a(i)
		}
		return "[" + strings.Join(parts, ", ") + "]"
	case "dlit":
		var parts []string
		for i := 0; i < len(n.A); i += 2 {
			parts = append(parts, a(i)+": "+a(i+1))
		}
		return "{" + strings.Join(parts, ", ") + "}"
	case "ctor":
		return "S(x: " + a(0) + ", arr: " + a(1) + ")"
	}
	panic("px: " + n.K)
}

func ppath(p *tpath) string {
	ix := func(i int) string { return "[" + px(p.Idx[i]) + "]" }
	switch p.Form {
	case "var":
		return p.Root
	case "arr", "dict", "res-arr", "res-dict":
		return p.Root + ix(0)
	case "arr2":
		return p.Root + ix(0) + ix(1)
	case "member-arr":
		return p.Root + ".arr" + ix(0)
	case "elem-member-arr":
		return p.Root + ix(0) + ".arr" + ix(1)
	}
	panic("ppath")
}

func (p *c52Printer) line(ind int, s string) {
	p.sb.WriteString(strings.Repeat("    ", ind))
	p.sb.WriteString(s)
	p.sb.WriteByte('\n')
}

func (p *c52Printer) block(b []*snode, ind int) {
	for _, s := range b {
		p.stmt(s, ind)
	}
}

func (p *c52Printer) ret(e *xnode, ind int) {
	p.line(ind, "let fin: [Int] = ["+px(e)+", "+c52FinalState+"]")
	p.line(ind, "destroy rs")
	p.line(ind, "destroy rd")
	p.line(ind, "return fin")
}

func (p *c52Printer) stmt(s *snode, ind int) {
	switch s.K {
	case "let":
		p.line(ind, "let "+s.Name+" = "+px(s.E[0]))
	case "assign-var":
		p.line(ind, s.Name+" = "+px(s.E[0]))
	case "assign-path":
		p.line(ind, ppath(s.Path[0])+" = "+px(s.E[0]))
	case "swap", "swap-res":
		p.line(ind, ppath(s.Path[0])+" <-> "+ppath(s.Path[1]))
	case "second":
		p.line(ind, fmt.Sprintf("let %s <- %s <- tR(%d, %d)", s.Name, ppath(s.Path[0]), s.E[0].ID, s.E[0].Val.(int64)))
		p.line(ind, "destroy "+s.Name)
	case "emit":
		p.line(ind, "emit Ev(a: "+px(s.E[0])+", b: "+px(s.E[1])+")")
	case "destroy":
		p.line(ind, fmt.Sprintf("destroy tR(%d, %d)", s.E[0].ID, s.E[0].Val.(int64)))
	case "call-stmt":
		p.line(ind, fmt.Sprintf("cV(%d, %s, %s)", s.E[2].ID, px(s.E[0]), px(s.E[1])))
	case "create":
		p.line(ind, fmt.Sprintf("destroy create R2(k: %d, a: %s, b: %s)", s.E[2].ID, px(s.E[0]), px(s.E[1])))
	case "if":
		p.line(ind, "if "+px(s.E[0])+" {")
		p.block(s.Body[0], ind+1)
		if len(s.Body) > 1 && s.Body[1] != nil {
			if len(s.Body[1]) == 1 && s.Body[1][0].K == "if" && len(s.Body[1][0].Body) == 2 && s.Body[1][0].Body[0] != nil && s.Body[1][0].Body[0][0].K != "break" {
				// else-if chain
				inner := s.Body[1][0]
				p.line(ind, "} else if "+px(inner.E[0])+" {")
				p.block(inner.Body[0], ind+1)
				if inner.Body[1] != nil {
					p.line(ind, "} else {")
					p.block(inner.Body[1], ind+1)
				}
				p.line(ind, "}")
				return
			}
			p.line(ind, "} else {")
			p.block(s.Body[1], ind+1)
		}
		p.line(ind, "}")
	case "iflet":
		p.line(ind, "if let "+s.Name+" = "+px(s.E[0])+" {")
		p.block(s.Body[0], ind+1)
		if len(s.Body[1]) > 0 {
			p.line(ind, "} else {")
			p.block(s.Body[1], ind+1)
		}
		p.line(ind, "}")
	case "while":
		p.line(ind, "var "+s.Name+" = 0")
		p.line(ind, "while "+px(s.E[0])+" {")
		p.line(ind+1, s.Name+" = "+s.Name+" + 1")
		p.block(s.Body[0], ind+1)
		p.line(ind, "}")
	case "for":
		p.line(ind, "for "+s.Name+" in "+px(s.E[0])+" {")
		p.block(s.Body[0], ind+1)
		p.line(ind, "}")
	case "for-indexed":
		p.line(ind, "for "+s.Name2+", "+s.Name+" in "+px(s.E[0])+" {")
		p.block(s.Body[0], ind+1)
		p.line(ind, "}")
	case "switch":
		p.line(ind, "switch "+px(s.E[0])+" {")
		for i := 1; i < len(s.E); i++ {
			p.line(ind, "case "+px(s.E[i])+":")
			p.block(s.Body[i-1], ind+1)
		}
		p.line(ind, "default:")
		p.block(s.Body[len(s.Body)-1], ind+1)
		p.line(ind, "}")
	case "break", "continue":
		p.line(ind, s.K)
	case "return":
		p.ret(s.E[0], ind)
	default:
		panic("stmt: " + s.K)
	}
}

// ---------------------------------------------------------------- evaluation-order model

var (
	errBreak    = errors.New("break")
	errContinue = errors.New("continue")
	errReturn   = errors.New("return")
)

type c52Model struct {
	st   *c52State
	log  []int
	feat map[string]int64
	ret  int64
	// variables whose array is being iterated by an enclosing for loop: mutating them fails at run
	// time (container modified during iteration), so such statements are regenerated
	locked map[string]int
}

const c52Bound = int64(1) << 40

func (m *c52Model) logID(k int) { m.log = append(m.log, k) }

func chk(v int64) (int64, error) {
	if v > c52Bound || v < -c52Bound {
		return 0, errUnsafe
	}
	return v, nil
}

// ev evaluates an expression: children strictly left to right, each once, except where the
// language definition makes evaluation conditional.
func (m *c52Model) ev(n *xnode) (any, error) {
	m.feat["expr_"+n.K]++
	switch n.K {
	case "leaf":
		m.logID(n.ID)
		if n.Var != "" {
			return cloneVal(m.st.vars[n.Var]), nil
		}
		return cloneVal(n.Val), nil
	case "var":
		v, ok := m.st.vars[n.Var]
		if !ok {
			panic("model: unknown variable " + n.Var)
		}
		return cloneVal(v), nil
	case "bin", "cmp":
		lv, err := m.ev(n.A[0])
		if err != nil {
			return nil, err
		}
		rv, err := m.ev(n.A[1])
		if err != nil {
			return nil, err
		}
		l, r := lv.(int64), rv.(int64)
		switch n.Op {
		case "+":
			return chk(l + r)
		case "-":
			return chk(l - r)
		case "*":
			return chk(l * r)
		case "/", "%":
			if l < 0 || r <= 0 {
				return nil, errUnsafe
			}
			if n.Op == "/" {
				return l / r, nil
			}
			return l % r, nil
		case "&", "|", "^":
			if l < 0 || r < 0 {
				return nil, errUnsafe
			}
			switch n.Op {
			case "&":
				return l & r, nil
			case "|":
				return l | r, nil
			}
			return l ^ r, nil
		case "<<", ">>":
			if l < 0 || r < 0 || r > 8 {
				return nil, errUnsafe
			}
			if n.Op == "<<" {
				return chk(l << uint(r))
			}
			return l >> uint(r), nil
		case "==":
			return l == r, nil
		case "!=":
			return l != r, nil
		case "<":
			return l < r, nil
		case "<=":
			return l <= r, nil
		case ">":
			return l > r, nil
		case ">=":
			return l >= r, nil
		}
		panic("op " + n.Op)
	case "neg":
		v, err := m.ev(n.A[0])
		if err != nil {
			return nil, err
		}
		return -v.(int64), nil
	case "not":
		v, err := m.ev(n.A[0])
		if err != nil {
			return nil, err
		}
		return !v.(bool), nil
	case "and":
		l, err := m.ev(n.A[0])
		if err != nil {
			return nil, err
		}
		if !l.(bool) {
			m.feat["and_short_circuit"]++
			return false, nil
		}
		m.feat["and_full"]++
		return m.ev(n.A[1])
	case "or":
		l, err := m.ev(n.A[0])
		if err != nil {
			return nil, err
		}
		if l.(bool) {
			m.feat["or_short_circuit"]++
			return true, nil
		}
		m.feat["or_full"]++
		return m.ev(n.A[1])
	case "cond":
		cv, err := m.ev(n.A[0])
		if err != nil {
			return nil, err
		}
		if cv.(bool) {
			m.feat["cond_true"]++
			return m.ev(n.A[1])
		}
		m.feat["cond_false"]++
		return m.ev(n.A[2])
	case "coal":
		l, err := m.ev(n.A[0])
		if err != nil {
			return nil, err
		}
		if o := l.(optI); o.Has {
			m.feat["coalesce_left_some"]++
			if n.T == kInt {
				return o.V, nil
			}
			return o, nil
		}
		m.feat["coalesce_left_nil"]++
		return m.ev(n.A[1])
	case "force":
		v, err := m.ev(n.A[0])
		if err != nil {
			return nil, err
		}
		o := v.(optI)
		if !o.Has {
			return nil, errUnsafe
		}
		return o.V, nil
	case "idx":
		av, err := m.ev(n.A[0])
		if err != nil {
			return nil, err
		}
		iv, err := m.ev(n.A[1])
		if err != nil {
			return nil, err
		}
		arr, i := av.([]int64), iv.(int64)
		if i < 0 || i >= int64(len(arr)) {
			return nil, errUnsafe
		}
		return arr[i], nil
	case "didx":
		dv, err := m.ev(n.A[0])
		if err != nil {
			return nil, err
		}
		kv, err := m.ev(n.A[1])
		if err != nil {
			return nil, err
		}
		if x, ok := dv.(map[int64]int64)[kv.(int64)]; ok {
			return optI{true, x}, nil
		}
		return optI{}, nil
	case "fld":
		v, err := m.ev(n.A[0])
		if err != nil {
			return nil, err
		}
		return v.(structv).X, nil
	case "farr":
		v, err := m.ev(n.A[0])
		if err != nil {
			return nil, err
		}
		return append([]int64{}, v.(structv).Arr...), nil
	case "ofld":
		v, err := m.ev(n.A[0])
		if err != nil {
			return nil, err
		}
		if o := v.(optS); o.Has {
			m.feat["optchain_some"]++
			return optI{true, o.V.X}, nil
		}
		m.feat["optchain_nil"]++
		return optI{}, nil
	case "omth":
		v, err := m.ev(n.A[0])
		if err != nil {
			return nil, err
		}
		o := v.(optS)
		if !o.Has {
			m.feat["optchain_nil"]++
			return optI{}, nil // neither the argument nor the body is evaluated
		}
		m.feat["optchain_some"]++
		a, err := m.ev(n.A[1])
		if err != nil {
			return nil, err
		}
		m.logID(n.ID)
		r, err := chk(o.V.X + a.(int64))
		return optI{true, r}, err
	case "mth":
		v, err := m.ev(n.A[0])
		if err != nil {
			return nil, err
		}
		a, err := m.ev(n.A[1])
		if err != nil {
			return nil, err
		}
		m.logID(n.ID)
		return chk(v.(structv).X + a.(int64))
	case "call":
		a, err := m.ev(n.A[0])
		if err != nil {
			return nil, err
		}
		b, err := m.ev(n.A[1])
		if err != nil {
			return nil, err
		}
		m.logID(n.ID)
		return chk(a.(int64) + b.(int64))
	case "fcall":
		m.logID(n.ID) // callee expression first
		a, err := m.ev(n.A[0])
		if err != nil {
			return nil, err
		}
		b, err := m.ev(n.A[1])
		if err != nil {
			return nil, err
		}
		m.logID(n.ID2)
		return chk(a.(int64) - b.(int64))
	case "cast":
		return m.ev(n.A[0])
	case "castf":
		v, err := m.ev(n.A[0])
		if err != nil {
			return nil, err
		}
		if i, ok := v.(int64); ok {
			return i, nil
		}
		return nil, errUnsafe
	case "casto":
		v, err := m.ev(n.A[0])
		if err != nil {
			return nil, err
		}
		if i, ok := v.(int64); ok {
			m.feat["castopt_some"]++
			return optI{true, i}, nil
		}
		m.feat["castopt_nil"]++
		return optI{}, nil
	case "slen":
		v, err := m.ev(n.A[0])
		if err != nil {
			return nil, err
		}
		return int64(len(v.(string))), nil
	case "alen":
		v, err := m.ev(n.A[0])
		if err != nil {
			return nil, err
		}
		return int64(len(v.([]int64))), nil
	case "sconcat":
		l, err := m.ev(n.A[0])
		if err != nil {
			return nil, err
		}
		r, err := m.ev(n.A[1])
		if err != nil {
			return nil, err
		}
		s := l.(string) + r.(string)
		if len(s) > 200 {
			return nil, errUnsafe
		}
		return s, nil
	case "tmpl":
		var sb strings.Builder
		for i, e := range n.A {
			sb.WriteString(n.Parts[i])
			v, err := m.ev(e)
			if err != nil {
				return nil, err
			}
			switch x := v.(type) {
			case int64:
				sb.WriteString(strconv.FormatInt(x, 10))
			case string:
				sb.WriteString(x)
			}
		}
		sb.WriteString(n.Parts[len(n.A)])
		if sb.Len() > 200 {
			return nil, errUnsafe
		}
		return sb.String(), nil
	case "alit":
		out := make([]int64, 0, len(n.A))
		for _, e := range n.A {
			v, err := m.ev(e)
			if err != nil {
				return nil, err
			}
			out = append(out, v.(int64))
		}
		return out, nil
	case "dlit":
		out := map[int64]int64{}
		for i := 0; i < len(n.A); i += 2 {
			k, err := m.ev(n.A[i]) // key before its value, entries left to right
			if err != nil {
				return nil, err
			}
			v, err := m.ev(n.A[i+1])
			if err != nil {
				return nil, err
			}
			if _, dup := out[k.(int64)]; dup {
				return nil, errUnsafe
			}
			out[k.(int64)] = v.(int64)
		}
		return out, nil
	case "ctor":
		x, err := m.ev(n.A[0])
		if err != nil {
			return nil, err
		}
		a, err := m.ev(n.A[1])
		if err != nil {
			return nil, err
		}
		return structv{x.(int64), a.([]int64)}, nil
	}
	panic("ev: " + n.K)
}

// slot is a resolved assignment target: all its index expressions have been evaluated.
type slot struct {
	get func() (int64, error)
	set func(int64) error
}

func inRange(i int64, n int) bool { return i >= 0 && i < int64(n) }

// resolve evaluates the target's index expressions, in source order, exactly once.
func (m *c52Model) resolve(p *tpath) (*slot, error) {
	var idx []int64
	for _, e := range p.Idx {
		v, err := m.ev(e)
		if err != nil {
			return nil, err
		}
		idx = append(idx, v.(int64))
	}
	vars := m.st.vars
	if m.locked[p.Root] > 0 {
		return nil, errUnsafe
	}
	switch p.Form {
	case "var":
		return &slot{func() (int64, error) { return vars[p.Root].(int64), nil }, func(v int64) error { vars[p.Root] = v; return nil }}, nil
	case "arr", "res-arr":
		arr := func() []int64 { return vars[p.Root].([]int64) }
		return &slot{
			func() (int64, error) {
				if !inRange(idx[0], len(arr())) {
					return 0, errUnsafe
				}
				return arr()[idx[0]], nil
			},
			func(v int64) error {
				if !inRange(idx[0], len(arr())) {
					return errUnsafe
				}
				arr()[idx[0]] = v
				return nil
			}}, nil
	case "arr2":
		aa := func() [][]int64 { return vars[p.Root].([][]int64) }
		ok := func() bool { return inRange(idx[0], len(aa())) && inRange(idx[1], len(aa()[idx[0]])) }
		return &slot{
			func() (int64, error) {
				if !ok() {
					return 0, errUnsafe
				}
				return aa()[idx[0]][idx[1]], nil
			},
			func(v int64) error {
				if !ok() {
					return errUnsafe
				}
				aa()[idx[0]][idx[1]] = v
				return nil
			}}, nil
	case "member-arr":
		return &slot{
			func() (int64, error) {
				s := vars[p.Root].(structv)
				if !inRange(idx[0], len(s.Arr)) {
					return 0, errUnsafe
				}
				return s.Arr[idx[0]], nil
			},
			func(v int64) error {
				s := vars[p.Root].(structv)
				if !inRange(idx[0], len(s.Arr)) {
					return errUnsafe
				}
				s.Arr[idx[0]] = v
				return nil
			}}, nil
	case "elem-member-arr":
		ok := func() bool {
			ss := vars[p.Root].([]structv)
			return inRange(idx[0], len(ss)) && inRange(idx[1], len(ss[idx[0]].Arr))
		}
		return &slot{
			func() (int64, error) {
				if !ok() {
					return 0, errUnsafe
				}
				return vars[p.Root].([]structv)[idx[0]].Arr[idx[1]], nil
			},
			func(v int64) error {
				if !ok() {
					return errUnsafe
				}
				vars[p.Root].([]structv)[idx[0]].Arr[idx[1]] = v
				return nil
			}}, nil
	case "dict":
		return &slot{nil, func(v int64) error {
			if idx[0] < 0 || idx[0] > 3 {
				return errUnsafe // keep the dictionary's key space inside what the final state reports
			}
			vars[p.Root].(map[int64]int64)[idx[0]] = v
			return nil
		}}, nil
	case "res-dict":
		// second-value assignment into a dictionary slot: old value may be nil (-1)
		return &slot{
			func() (int64, error) {
				if idx[0] < 0 || idx[0] > 2 {
					return 0, errUnsafe
				}
				if x, ok := vars[p.Root].(map[int64]int64)[idx[0]]; ok {
					return x, nil
				}
				return -1, nil
			},
			func(v int64) error {
				vars[p.Root].(map[int64]int64)[idx[0]] = v
				return nil
			}}, nil
	}
	panic("resolve " + p.Form)
}

func (m *c52Model) block(b []*snode) error {
	// block-scoped declarations disappear at the end of the block
	var declared []string
	defer func() {
		for _, n := range declared {
			delete(m.st.vars, n)
		}
	}()
	for _, s := range b {
		if s.K == "let" {
			declared = append(declared, s.Name)
		}
		if err := m.exec(s); err != nil {
			return err
		}
	}
	return nil
}

func (m *c52Model) exec(s *snode) error {
	switch s.K {
	case "let":
		m.feat["stmt_let"]++
		v, err := m.ev(s.E[0])
		if err != nil {
			return err
		}
		m.st.vars[s.Name] = v
		return nil
	case "assign-var":
		m.feat["stmt_assign-var"]++
		v, err := m.ev(s.E[0])
		if err != nil {
			return err
		}
		m.st.vars[s.Name] = v
		return nil
	case "assign-path":
		p := s.Path[0]
		m.feat[map[string]string{"arr": "stmt_assign-index", "arr2": "stmt_assign-nested-index", "dict": "stmt_assign-dict",
			"member-arr": "stmt_assign-member-index", "elem-member-arr": "stmt_assign-element-member-index"}[p.Form]]++
		sl, err := m.resolve(p) // target sub-expressions first
		if err != nil {
			return err
		}
		v, err := m.ev(s.E[0]) // then the value
		if err != nil {
			return err
		}
		return sl.set(v.(int64))
	case "swap", "swap-res":
		switch {
		case s.K == "swap-res":
			m.feat["stmt_swap-resources"]++
		case s.Path[0].Form == "var" || s.Path[1].Form == "var":
			m.feat["stmt_swap-var-index"]++
		default:
			m.feat["stmt_swap"]++
		}
		l, err := m.resolve(s.Path[0]) // left target's indices, then the right target's
		if err != nil {
			return err
		}
		r, err := m.resolve(s.Path[1])
		if err != nil {
			return err
		}
		lv, err := l.get()
		if err != nil {
			return err
		}
		rv, err := r.get()
		if err != nil {
			return err
		}
		if err := l.set(rv); err != nil {
			return err
		}
		return r.set(lv)
	case "second":
		p := s.Path[0]
		if p.Form == "res-arr" {
			m.feat["stmt_second-value-array"]++
		} else {
			m.feat["stmt_second-value-dict"]++
		}
		sl, err := m.resolve(p) // target index before the new value
		if err != nil {
			return err
		}
		if _, err := sl.get(); err != nil {
			return err
		}
		m.logID(s.E[0].ID)
		return sl.set(s.E[0].Val.(int64))
	case "emit":
		m.feat["stmt_emit"]++
		for _, e := range s.E {
			if _, err := m.ev(e); err != nil {
				return err
			}
		}
		return nil
	case "destroy":
		m.feat["stmt_destroy"]++
		m.logID(s.E[0].ID)
		return nil
	case "create":
		m.feat["stmt_create"]++
		for _, e := range s.E[:2] { // constructor arguments left to right, then the initializer body
			if _, err := m.ev(e); err != nil {
				return err
			}
		}
		m.logID(s.E[2].ID)
		return nil
	case "call-stmt":
		m.feat["stmt_call-stmt"]++
		for _, e := range s.E[:2] {
			if _, err := m.ev(e); err != nil {
				return err
			}
		}
		m.logID(s.E[2].ID)
		return nil
	case "if":
		m.feat["stmt_if"]++
		cv, err := m.ev(s.E[0])
		if err != nil {
			return err
		}
		if cv.(bool) {
			return m.block(s.Body[0])
		}
		if len(s.Body) > 1 && s.Body[1] != nil {
			return m.block(s.Body[1])
		}
		return nil
	case "iflet":
		m.feat["stmt_iflet"]++
		v, err := m.ev(s.E[0])
		if err != nil {
			return err
		}
		if o := v.(optI); o.Has {
			m.feat["iflet_some"]++
			m.st.vars[s.Name] = o.V
			err := m.block(s.Body[0])
			delete(m.st.vars, s.Name)
			return err
		}
		m.feat["iflet_nil"]++
		return m.block(s.Body[1])
	case "while":
		m.feat["stmt_while"]++
		m.st.vars[s.Name] = int64(0)
		for iter := 0; ; iter++ {
			if iter > 8 {
				return errUnsafe
			}
			cv, err := m.ev(s.E[0]) // the condition is evaluated before every iteration
			if err != nil {
				return err
			}
			if !cv.(bool) {
				break
			}
			m.feat["while_iterations"]++
			m.st.vars[s.Name] = m.st.vars[s.Name].(int64) + 1
			err = m.block(s.Body[0])
			if errors.Is(err, errBreak) {
				m.feat["loop_break"]++
				break
			}
			if errors.Is(err, errContinue) {
				m.feat["loop_continue"]++
				continue
			}
			if err != nil {
				return err
			}
		}
		// the loop counter stays declared in the enclosing block; the generator never refers to it again
		return nil
	case "for", "for-indexed":
		m.feat["stmt_"+s.K]++
		av, err := m.ev(s.E[0]) // the iterable is evaluated once
		if err != nil {
			return err
		}
		defer func() { delete(m.st.vars, s.Name); delete(m.st.vars, s.Name2) }()
		root := ""
		switch {
		case s.E[0].K == "var":
			root = s.E[0].Var
		case s.E[0].K == "farr" && s.E[0].A[0].K == "var":
			root = s.E[0].A[0].Var
		}
		if root != "" {
			if m.locked == nil {
				m.locked = map[string]int{}
			}
			m.locked[root]++
			defer func() { m.locked[root]-- }()
		}
		for i, x := range av.([]int64) {
			m.feat["for_iterations"]++
			m.st.vars[s.Name] = x
			if s.Name2 != "" {
				m.st.vars[s.Name2] = int64(i)
			}
			err := m.block(s.Body[0])
			if errors.Is(err, errBreak) {
				m.feat["loop_break"]++
				break
			}
			if errors.Is(err, errContinue) {
				m.feat["loop_continue"]++
				continue
			}
			if err != nil {
				return err
			}
		}
		return nil
	case "switch":
		m.feat["stmt_switch"]++
		sv, err := m.ev(s.E[0]) // subject once
		if err != nil {
			return err
		}
		for i := 1; i < len(s.E); i++ {
			cv, err := m.ev(s.E[i]) // case expressions in order until the first match
			if err != nil {
				return err
			}
			if cv.(int64) == sv.(int64) {
				m.feat["switch_matched"]++
				err := m.block(s.Body[i-1])
				if errors.Is(err, errBreak) {
					return nil
				}
				return err
			}
		}
		m.feat["switch_default"]++
		err = m.block(s.Body[len(s.Body)-1])
		if errors.Is(err, errBreak) {
			return nil
		}
		return err
	case "break":
		return errBreak
	case "continue":
		return errContinue
	case "return":
		m.feat["stmt_return"]++
		m.feat["early_return"]++
		v, err := m.ev(s.E[0])
		if err != nil {
			return err
		}
		m.ret = v.(int64)
		return errReturn
	}
	panic("exec: " + s.K)
}

var _ = sort.Ints
