package text

import (
	"os"
	"runtime"
	"runtime/debug"
)

// Every case of this group is single-threaded and the parent runs one worker process per core,
// so a worker needs no more than two OS-level Ps (one for the mutator, one for the collector);
// the default (16 Ps × 16 workers) only adds scheduler and GC contention.
func init() {
	if os.Getenv("VERIF_TEXT_NOTUNE") != "" {
		return
	}
	runtime.GOMAXPROCS(2)
	debug.SetGCPercent(400)
}
