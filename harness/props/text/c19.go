package text

import (
	"encoding/hex"
	"fmt"
	"math/rand/v2"
	"sort"
	"strings"
	"unicode"
	"unicode/utf8"

	"github.com/onflow/cadence"
	"golang.org/x/text/unicode/norm"

	"verif/harness/core"
	"verif/harness/host"
)

// C19 — strings behave as sequences of grapheme clusters of their NFC form.
//
// Oracle: golang.org/x/text/unicode/norm (NFC) + github.com/rivo/uniseg give, for every source text,
// the model pair (T, G): normalised text and its list of extended grapheme clusters. Every String
// operation is predicted by the obvious list computation on G (see strgen.go) and compared with
// what a script returns on each of the three engines. Source text reaches Cadence in three ways:
// as a literal with \u{…} escapes, as a literal with raw UTF-8, and as a JSON-CDC script argument.

const (
	c19GroupsPerCase   = 40
	c19GroupsPerScript = 6
)

func init() {
	core.Register(&core.Prop{
		ID:    "C19",
		Level: "exploration",
		Rule: "each case = 40 groups (subject, other, needle, replacement) of strings from an alphabet biased to combining marks, " +
			"precomposed/decomposed pairs, ZWJ emoji, regional indicators, Hangul jamo, CR LF, variation selectors and empty strings; " +
			"needles are cluster-aligned subsequences, cluster-misaligned rune fragments, re-decomposed forms, atoms, other strings or empty; " +
			"≈35 operations per group in shuffled order, batched 6 groups per script, run on I/V/Vp with the text passed as escaped literal, " +
			"raw literal and JSON-CDC argument; expected failures (slice/index out of range, reversed bounds, malformed hex) run one per script; " +
			"a group is distinct by (subject, other, needle, replacement) and non-trivial because every operation is compared with the cluster model",
		Assumptions: []string{
			"x/text/unicode/norm NFC and rivo/uniseg extended-grapheme-cluster segmentation are correct (third-party modules, also used by the code under test)",
			"ordering of strings is the code-point order of the NFC text (the statement fixes no order on clusters); empty-needle conventions are Go's strings package lifted to clusters (DESIGN C19 calibration)",
			"toLower is the per-code-point simple lower-case mapping of unicode.ToLower followed by NFC",
		},
		NumCases: func(tier string) int {
			if tier == "thorough" {
				return 2400
			}
			return 96
		},
		Run: runC19,
		Floors: map[string]int64{
			"groups":                               700,
			"ops_checked":                          100000,
			"form_literal_escaped":                 50,
			"form_literal_raw":                     50,
			"form_argument":                        100,
			"nfc_changes_source":                   300,
			"needle_aligned_found":                 300,
			"needle_bytes_present_clusters_absent": 60,
			"needle_empty":                         40,
			"needle_misaligned_occurrence_overlaps_aligned": 60,
			"equivalent_pair_compared":                      60,
			"expected_failure_observed":                     500,
			"expected_failure_slice_range":                  50,
			"expected_failure_slice_reversed":               30,
			"expected_failure_index":                        50,
			"expected_failure_decodeHex":                    50,
			"split_multi_part":                              100,
			"replace_changed":                               100,
			"concat_joins_clusters":                         40,
			"tolower_changed":                               100,
			"tag_mark":                                      100, "tag_emoji": 100, "tag_regional": 100, "tag_hangul": 100, "tag_crlf": 100,
			"tag_zwj_vs": 100, "tag_decomposed": 100, "tag_precomposed": 100, "tag_empty": 30,
		},
	})
}

// ---------------------------------------------------------------- canonical rendering of results

func renderValue(v cadence.Value) string {
	switch x := v.(type) {
	case nil:
		return "<no value>"
	case cadence.String:
		return "s" + quoteASCII(string(x))
	case cadence.Character:
		return "c" + quoteASCII(string(x))
	case cadence.Int:
		return x.Value.String()
	case cadence.UInt8:
		return fmt.Sprint(uint8(x))
	case cadence.Bool:
		if x {
			return "true"
		}
		return "false"
	case cadence.Optional:
		if x.Value == nil {
			return "nil"
		}
		return "?" + renderValue(x.Value)
	case cadence.Array:
		parts := make([]string, len(x.Values))
		for i, e := range x.Values {
			parts[i] = renderValue(e)
		}
		return "[" + strings.Join(parts, ",") + "]"
	}
	return fmt.Sprintf("<%T %s>", v, v.String())
}

func mS(s string) string { return "s" + quoteASCII(s) }
func mC(s string) string { return "c" + quoteASCII(s) }
func mI(i int) string    { return fmt.Sprint(i) }
func mB(b bool) string {
	if b {
		return "true"
	}
	return "false"
}
func mBytes(b []byte) string {
	parts := make([]string, len(b))
	for i, x := range b {
		parts[i] = fmt.Sprint(x)
	}
	return "[" + strings.Join(parts, ",") + "]"
}
func mStrs(ss []string) string {
	parts := make([]string, len(ss))
	for i, x := range ss {
		parts[i] = mS(x)
	}
	return "[" + strings.Join(parts, ",") + "]"
}
func mChars(ss []string) string {
	parts := make([]string, len(ss))
	for i, x := range ss {
		parts[i] = mC(x)
	}
	return "[" + strings.Join(parts, ",") + "]"
}

// lowerModel: per-cluster, per-code-point lower-casing of the NFC text, re-normalised.
func lowerModel(g []string) string {
	var sb strings.Builder
	for _, c := range g {
		for _, r := range c {
			sb.WriteRune(unicode.ToLower(r))
		}
	}
	return nfc(sb.String())
}

// ---------------------------------------------------------------- groups and operations

type c19Op struct {
	Name string // stable operation name (used in violation keys)
	Expr string // Cadence expression over s,o,n,p (suffix-indexed per group)
	Exp  string // expected canonical rendering
}

type c19Fail struct {
	Name string
	Expr string // over variable s
	Why  string
}

type c19Group struct {
	S, O, N, P string // source texts
	NeedleKind string
	Ops        []c19Op
	Fails      []c19Fail
}

// needle derivation ------------------------------------------------------------

func decomposeSome(r *rand.Rand, t string) string {
	// a canonically equivalent spelling: NFD of the whole text or of some clusters only
	if r.IntN(2) == 0 {
		return norm.NFD.String(t)
	}
	var sb strings.Builder
	for _, c := range clustersOf(t) {
		if r.IntN(2) == 0 {
			sb.WriteString(norm.NFD.String(c))
		} else {
			sb.WriteString(c)
		}
	}
	return sb.String()
}

func pickNeedle(r *rand.Rand, S, O mstr, use func(string)) (string, string) {
	runes := []rune(S.T)
	switch k := r.IntN(20); {
	case k < 6 && len(S.G) > 0: // cluster-aligned subsequence
		i := r.IntN(len(S.G))
		l := 1 + r.IntN(min(3, len(S.G)-i))
		return strings.Join(S.G[i:i+l], ""), "aligned"
	case k < 8 && len(S.G) > 0: // aligned, but spelled in a canonically equivalent (decomposed) way
		i := r.IntN(len(S.G))
		l := 1 + r.IntN(min(3, len(S.G)-i))
		return decomposeSome(r, strings.Join(S.G[i:i+l], "")), "aligned-respelled"
	case k < 13 && len(runes) > 1: // rune fragment, usually cutting through a cluster
		for try := 0; try < 8; try++ {
			i := r.IntN(len(runes))
			l := 1 + r.IntN(min(4, len(runes)-i))
			frag := string(runes[i : i+l])
			// prefer fragments whose ends are not both cluster boundaries
			pre := string(runes[:i])
			if !isBoundary(S.G, len(pre)) || !isBoundary(S.G, len(pre)+len(frag)) || try == 7 {
				return frag, "fragment"
			}
		}
		return string(runes[0]), "fragment"
	case k < 15: // a single atom
		a := atoms[r.IntN(len(atoms))]
		use(a.Tag)
		return a.S, "atom"
	case k < 16:
		return "", "empty"
	case k < 18 && len(O.G) > 0: // part of the other string
		i := r.IntN(len(O.G))
		return O.G[i], "other-cluster"
	default:
		return genString(r, 2, use), "random"
	}
}

// overlapFamily builds a haystack in which a self-overlapping needle occurs first at a byte offset inside
// a cluster and then, overlapping that occurrence, at a cluster boundary: a glue g that joins the
// following unit u into one cluster (regional indicator pair, CR LF, Prepend, ZWJ, Hangul L + LV),
// followed by repetitions of u (needle u·j) or of u p (needle u p u … u).
func overlapFamily(r *rand.Rand) (hay, needle string) {
	ri := func() string { return string(rune(0x1F1E6 + r.IntN(26))) }
	type gu struct{ g, u string }
	fam := []gu{
		{ri(), ri()}, {ri(), ri()}, {"\r", "\n"}, {"\r", "\n"}, {"\u0600", "a"}, {"\u0600", "e\u0301"}, {"\u0D4E", "\u4E2D"},
		{"\U0001F468\u200D", "\U0001F469"}, {"\U0001F469\u200D", "\u2764"}, {"\U0001F3F3\uFE0F\u200D", "\U0001F308"},
		{"\u1100", "\uAC00"}, {"\u1102", "\uAC01"}, {"\u0600", "\U0001F600"}, {"\u0600", "\u0600b"},
	}
	f := fam[r.IntN(len(fam))]
	if f.g == f.u && r.IntN(2) == 0 { // same regional indicator: keep some, they shift the parity
		f.g = ri()
	}
	p := ""
	if r.IntN(3) == 0 {
		p = []string{"x", "-", "\n", "\u0301", " "}[r.IntN(5)]
	}
	k := 2 + r.IntN(4) // repetitions in the haystack
	j := 2 + r.IntN(2) // repetitions in the needle (self-overlapping)
	var sb strings.Builder
	switch r.IntN(4) {
	case 0:
		sb.WriteString(genString(r, 2, func(string) {}))
	case 1:
		sb.WriteString(f.u) // an aligned occurrence may start before the glue as well
	}
	segs := 1 + r.IntN(2)
	for sgm := 0; sgm < segs; sgm++ {
		sb.WriteString(f.g)
		for i := 0; i < k; i++ {
			if i > 0 {
				sb.WriteString(p)
			}
			sb.WriteString(f.u)
		}
		if sgm+1 < segs {
			sb.WriteString([]string{"", "q", " ", p}[r.IntN(4)])
		}
	}
	if r.IntN(3) == 0 {
		sb.WriteString(genString(r, 2, func(string) {}))
	}
	needle = strings.Repeat(f.u+p, j-1) + f.u
	return sb.String(), needle
}

// isBoundary reports whether byte offset off of the joined clusters is a cluster boundary.
func isBoundary(g []string, off int) bool {
	p := 0
	if off == 0 {
		return true
	}
	for _, c := range g {
		p += len(c)
		if p == off {
			return true
		}
		if p > off {
			return false
		}
	}
	return false
}

func byteArrayLiteral(b []byte) string {
	if len(b) == 0 {
		return "([] as [UInt8])"
	}
	parts := make([]string, len(b))
	for i, x := range b {
		parts[i] = fmt.Sprint(x)
	}
	return "([" + strings.Join(parts, ",") + "] as [UInt8])"
}

func randomHex(r *rand.Rand) string {
	const digits = "0123456789abcdefABCDEF"
	n := 2 * r.IntN(6)
	b := make([]byte, n)
	for i := range b {
		b[i] = digits[r.IntN(len(digits))]
	}
	return string(b)
}

func buildGroup(c *core.Ctx) c19Group {
	r := c.Rng
	use := func(tag string) { c.Inc("tag_" + tag) }
	g := c19Group{}
	g.S = genString(r, 8, use)
	overlapNeedle, overlap := "", r.IntN(5) == 0
	if overlap {
		g.S, overlapNeedle = overlapFamily(r)
	}
	S := model(g.S)
	switch k := r.IntN(20); {
	case k < 5: // canonically equivalent spelling of the subject
		g.O = decomposeSome(r, S.T)
	case k < 8: // subject with a small edit
		rs := []rune(g.S)
		if len(rs) > 0 {
			i := r.IntN(len(rs))
			a := atoms[r.IntN(len(atoms))]
			use(a.Tag)
			g.O = string(rs[:i]) + a.S + string(rs[i+r.IntN(2):])
		} else {
			g.O = genString(r, 3, use)
		}
	case k < 10: // prefix of the subject (ordering of prefix pairs)
		if len(S.G) > 0 {
			g.O = strings.Join(S.G[:r.IntN(len(S.G)+1)], "")
		}
	default:
		g.O = genString(r, 6, use)
	}
	O := model(g.O)
	g.N, g.NeedleKind = pickNeedle(r, S, O, use)
	if overlap {
		g.N, g.NeedleKind = overlapNeedle, "self-overlapping"
	}
	N := model(g.N)
	switch r.IntN(6) {
	case 0:
		g.P = ""
	case 1:
		a := atomsByTag["mark"]
		g.P = atoms[a[r.IntN(len(a))]].S // a replacement that joins the preceding cluster
	default:
		g.P = genString(r, 3, use)
	}
	P := model(g.P)

	if S.T != g.S {
		c.Inc("nfc_changes_source")
	}
	c.Inc("needle_kind_" + g.NeedleKind)

	add := func(name, expr, exp string) { g.Ops = append(g.Ops, c19Op{name, expr, exp}) }
	L := len(S.G)

	add("length", "s.length", mI(L))
	add("utf8", "s.utf8", mBytes([]byte(S.T)))
	add("iterate", "chars(s)", mChars(S.G))
	add("iterate-indexed", "charsIx(s)", mChars(S.G))

	// indexing
	if L > 0 {
		idx := []int{0, L - 1, r.IntN(L)}
		for _, i := range idx {
			add("index", fmt.Sprintf("s[%d]", i), mC(S.G[i]))
		}
		i := r.IntN(L)
		add("char-toString", fmt.Sprintf("s[%d].toString()", i), mS(S.G[i]))
		add("char-utf8", fmt.Sprintf("s[%d].utf8", i), mBytes([]byte(S.G[i])))
		add("char-literal-eq", fmt.Sprintf("s[%d] == ch(%s)", i, cdcLiteral(S.G[i], false)), "true")
		add("char-literal-eq", fmt.Sprintf("ch(%s).toString() == s.slice(from: %d, upTo: %d)", cdcLiteral(norm.NFD.String(S.G[i]), false), i, i+1), "true")
	}
	// slicing (valid bounds)
	type ab struct{ a, b int }
	sl := []ab{{0, L}, {0, 0}, {L, L}}
	for k := 0; k < 3; k++ {
		a := r.IntN(L + 1)
		b := a + r.IntN(L-a+1)
		sl = append(sl, ab{a, b})
	}
	for _, x := range sl {
		add("slice", fmt.Sprintf("s.slice(from: %d, upTo: %d)", x.a, x.b), mS(strings.Join(S.G[x.a:x.b], "")))
	}
	// concat
	cat := nfc(S.T + O.T)
	add("concat", "s.concat(o)", mS(cat))
	catG := clustersOf(cat)
	add("concat-length", "s.concat(o).length", mI(len(catG)))
	if len(catG) != len(S.G)+len(O.G) {
		c.Inc("concat_joins_clusters")
	}
	add("template", `"\(s)\(o)"`, mS(cat))
	// equality and ordering (code-point order of the NFC text == UTF-8 byte order)
	cmp := strings.Compare(S.T, O.T)
	add("==", "s == o", mB(cmp == 0))
	add("!=", "s != o", mB(cmp != 0))
	add("<", "s < o", mB(cmp < 0))
	add("<=", "s <= o", mB(cmp <= 0))
	add(">", "s > o", mB(cmp > 0))
	add(">=", "s >= o", mB(cmp >= 0))
	if nfc(g.S) == nfc(g.O) && g.S != g.O {
		c.Inc("equivalent_pair_compared")
	}
	// order disagreement between flat code-point order and character-wise lexicographic order: recorded only
	if lexClusterCompare(S.G, O.G) != sign(cmp) {
		c.Inc("note_string_order_differs_from_characterwise_order")
	}
	// search
	ix := indexClusters(S.G, N.G)
	add("contains", "s.contains(n)", mB(ix >= 0))
	add("index(of:)", "s.index(of: n)", mI(ix))
	add("count", "s.count(n)", mI(countClusters(S.G, N.G)))
	// the leftmost byte occurrence is cluster-misaligned and overlaps a later, aligned occurrence
	if fb := strings.Index(S.T, N.T); ix >= 0 && len(N.T) > 0 && fb >= 0 {
		ab := len(strings.Join(S.G[:ix], ""))
		if fb < ab && ab < fb+len(N.T) {
			c.Inc("needle_misaligned_occurrence_overlaps_aligned")
		}
	}
	switch {
	case len(N.G) == 0:
		c.Inc("needle_empty")
	case ix >= 0:
		c.Inc("needle_aligned_found")
	case strings.Contains(S.T, N.T):
		c.Inc("needle_bytes_present_clusters_absent")
	default:
		c.Inc("needle_absent")
	}
	// search in the other direction too (needle as haystack)
	add("contains-rev", "o.contains(s)", mB(indexClusters(O.G, S.G) >= 0))
	add("index(of:)-rev", "o.index(of: s)", mI(indexClusters(O.G, S.G)))
	// split / replaceAll / join
	parts := splitClusters(S.G, N.G)
	if len(S.G) == 0 && len(N.G) != 0 {
		parts = []string{""} // Go: strings.Split("", sep) == [""]
	}
	add("split", "s.split(separator: n)", mStrs(parts))
	if len(parts) > 1 {
		c.Inc("split_multi_part")
	}
	add("join-split", "String.join(s.split(separator: n), separator: n)", mS(S.T))
	rep := replaceClusters(S.G, N.G, P.T)
	add("replaceAll", "s.replaceAll(of: n, with: p)", mS(rep))
	if rep != S.T {
		c.Inc("replace_changed")
	}
	add("join", "String.join([s, o, p], separator: n)", mS(nfc(S.T+N.T+O.T+N.T+P.T)))
	add("join-1", "String.join([s], separator: n)", mS(S.T))
	add("join-0", "String.join([], separator: n)", mS(""))
	// toLower
	low := lowerModel(S.G)
	add("toLower", "s.toLower()", mS(low))
	if low != S.T {
		c.Inc("tolower_changed")
	}
	// hex, utf8 round trips
	add("encodeHex", "String.encodeHex(s.utf8)", mS(hex.EncodeToString([]byte(S.T))))
	add("decodeHex-roundtrip", "String.encodeHex(s.utf8).decodeHex()", mBytes([]byte(S.T)))
	hx := randomHex(r)
	hb, _ := hex.DecodeString(hx)
	add("decodeHex", cdcLiteral(hx, false)+".decodeHex()", mBytes(hb))
	add("fromUTF8-roundtrip", "String.fromUTF8(s.utf8)", "?"+mS(S.T))
	add("fromUTF8-unnormalised", "String.fromUTF8("+byteArrayLiteral([]byte(g.S))+")", "?"+mS(S.T))
	if bad := invalidUTF8(r, []byte(S.T)); bad != nil {
		add("fromUTF8-invalid", "String.fromUTF8("+byteArrayLiteral(bad)+")", "nil")
	}
	add("fromCharacters", "String.fromCharacters(chars(s))", mS(S.T))
	add("fromCharacters-concat", "String.fromCharacters(chars(s).concat(chars(o)))", mS(cat))

	// shuffle: the StringValue carries a mutable grapheme iterator shared by its operations
	r.Shuffle(len(g.Ops), func(i, j int) { g.Ops[i], g.Ops[j] = g.Ops[j], g.Ops[i] })

	// expected failures
	fail := func(name, expr, why string) { g.Fails = append(g.Fails, c19Fail{name, expr, why}) }
	switch r.IntN(7) {
	case 0:
		fail("slice-range", fmt.Sprintf("s.slice(from: %d, upTo: %d)", r.IntN(L+1), L+1+r.IntN(3)), "upTo > length")
	case 1:
		fail("slice-range", fmt.Sprintf("s.slice(from: %d, upTo: %d)", -1-r.IntN(2), r.IntN(L+1)), "from < 0")
	case 2:
		fail("slice-range", fmt.Sprintf("s.slice(from: %d, upTo: %d)", L+1, L+1+r.IntN(2)), "from > length")
	case 3:
		if L >= 1 {
			b := r.IntN(L)
			a := b + 1 + r.IntN(L-b)
			fail("slice-reversed", fmt.Sprintf("s.slice(from: %d, upTo: %d)", a, b), "from > upTo, both in range")
		} else {
			fail("slice-range", "s.slice(from: 0, upTo: 1)", "upTo > length (empty string)")
		}
	case 4:
		fail("index", fmt.Sprintf("s[%d]", L+r.IntN(2)), "index >= length")
	case 5:
		fail("index", fmt.Sprintf("s[%d]", -1-r.IntN(2)), "index < 0")
	case 6:
		// rune count / byte count used as bound must fail whenever it exceeds the cluster count
		n := utf8.RuneCountInString(S.T)
		if n > L {
			fail("slice-range", fmt.Sprintf("s.slice(from: 0, upTo: %d)", n), "upTo = rune count > cluster count")
		} else {
			fail("slice-range", fmt.Sprintf("s.slice(from: 0, upTo: %d)", L+1), "upTo = length+1")
		}
	}
	// malformed hex
	switch r.IntN(3) {
	case 0:
		fail("decodeHex", cdcLiteral(randomHex(r)+"a", false)+".decodeHex()", "odd length")
	case 1:
		bad := []string{"g", "G", " ", "é", "x", "٠"}
		h := randomHex(r)
		fail("decodeHex", cdcLiteral(h+bad[r.IntN(len(bad))]+"0", false)+".decodeHex()", "non-hex character")
	}
	return g
}

func sign(x int) int {
	switch {
	case x < 0:
		return -1
	case x > 0:
		return 1
	}
	return 0
}

// lexClusterCompare compares two cluster lists lexicographically, clusters by code points.
func lexClusterCompare(a, b []string) int {
	for i := 0; i < len(a) && i < len(b); i++ {
		if c := strings.Compare(a[i], b[i]); c != 0 {
			return c
		}
	}
	return sign(len(a) - len(b))
}

func invalidUTF8(r *rand.Rand, b []byte) []byte {
	out := append([]byte{}, b...)
	switch r.IntN(4) {
	case 0:
		out = append(out, 0xFF)
	case 1:
		out = append(out, 0xC3) // truncated sequence
	case 2:
		out = append([]byte{0xED, 0xA0, 0x80}, out...) // surrogate
	case 3:
		out = append(out, 0xC0, 0xAF) // overlong
	}
	if utf8.Valid(out) {
		return nil
	}
	return out
}

// ---------------------------------------------------------------- scripts

const c19Prelude = `access(all) fun chars(_ s: String): [Character] {
    var r: [Character] = []
    for c in s { r.append(c) }
    return r
}
access(all) fun charsIx(_ s: String): [Character] {
    var r: [Character] = []
    for i, c in s { if i == r.length { r.append(c) } }
    return r
}
access(all) fun ch(_ c: Character): Character { return c }
`

type c19Form int

const (
	formEscaped c19Form = iota
	formRaw
	formArg
)

func (f c19Form) String() string {
	return [...]string{"literal-escaped", "literal-raw", "argument"}[f]
}

// subst rewrites the variables s,o,n,p of an operation expression to the group's variables.
func substVars(expr string, k int) string {
	// variables appear only as whole identifiers s, o, n, p — expressions are built by this file
	var sb strings.Builder
	inStr := false
	for i := 0; i < len(expr); i++ {
		ch := expr[i]
		if inStr {
			sb.WriteByte(ch)
			if ch == '\\' && i+1 < len(expr) {
				if expr[i+1] == '(' { // string template: \(s)
					j := strings.IndexByte(expr[i:], ')')
					sb.WriteString("(" + substVars(expr[i+2:i+j], k) + ")")
					i += j
					continue
				}
				i++
				sb.WriteByte(expr[i])
			} else if ch == '"' {
				inStr = false
			}
			continue
		}
		if ch == '"' {
			inStr = true
			sb.WriteByte(ch)
			continue
		}
		isID := func(b byte) bool {
			return b == '_' || b >= '0' && b <= '9' || b >= 'a' && b <= 'z' || b >= 'A' && b <= 'Z'
		}
		if (ch == 's' || ch == 'o' || ch == 'n' || ch == 'p') &&
			(i == 0 || !isID(expr[i-1]) && expr[i-1] != '.') && (i+1 == len(expr) || !isID(expr[i+1])) &&
			!(i+1 < len(expr) && expr[i+1] == ':') {
			fmt.Fprintf(&sb, "%c%d", ch, k)
			continue
		}
		sb.WriteByte(ch)
	}
	return sb.String()
}

func c19Script(groups []c19Group, form c19Form) (string, [][]byte) {
	var sb strings.Builder
	sb.WriteString(c19Prelude)
	var texts []string
	for _, g := range groups {
		texts = append(texts, g.S, g.O, g.N, g.P)
	}
	var args [][]byte
	if form == formArg {
		sb.WriteString("access(all) fun main(a: [String]): [AnyStruct] {\n")
		args = [][]byte{cdcStringArrayArg(texts)}
	} else {
		sb.WriteString("access(all) fun main(): [AnyStruct] {\n    let a: [String] = [")
		for i, t := range texts {
			if i > 0 {
				sb.WriteString(", ")
			}
			sb.WriteString(cdcLiteral(t, form == formRaw))
		}
		sb.WriteString("]\n")
	}
	sb.WriteString("    var r: [AnyStruct] = []\n")
	for k, g := range groups {
		fmt.Fprintf(&sb, "    let s%d = a[%d]; let o%d = a[%d]; let n%d = a[%d]; let p%d = a[%d]\n", k, 4*k, k, 4*k+1, k, 4*k+2, k, 4*k+3)
		for _, op := range g.Ops {
			fmt.Fprintf(&sb, "    r.append(%s)\n", substVars(op.Expr, k))
		}
	}
	sb.WriteString("    return r\n}\n")
	return sb.String(), args
}

func engineSet(es []host.Engine) string {
	var ss []string
	for _, e := range es {
		ss = append(ss, e.String())
	}
	sort.Strings(ss)
	return strings.Join(ss, ",")
}

func runC19(c *core.Ctx) {
	groups := make([]c19Group, c19GroupsPerCase)
	for i := range groups {
		groups[i] = buildGroup(c)
		g := groups[i]
		c.Inc("groups")
		c.Distinct(g.S + "\x00" + g.O + "\x00" + g.N + "\x00" + g.P)
	}
	// batched successful operations
	for start := 0; start < len(groups); start += c19GroupsPerScript {
		end := min(start+c19GroupsPerScript, len(groups))
		batch := groups[start:end]
		var ops []c19Op
		var owner []int
		for k, g := range batch {
			for _, op := range g.Ops {
				ops = append(ops, op)
				owner = append(owner, k)
			}
		}
		// two of the three forms per batch, the argument form always
		forms := []c19Form{formArg, formEscaped}
		if (start/c19GroupsPerScript)%2 == 1 {
			forms[1] = formRaw
		}
		for _, form := range forms {
			src, args := c19Script(batch, form)
			c.Inc("form_" + strings.ReplaceAll(form.String(), "-", "_"))
			// op index -> engines that disagree with the model, with what they returned
			type miss struct {
				engines []host.Engine
				got     []string
			}
			misses := map[int]*miss{}
			for _, eng := range host.AllEngines {
				h := host.New()
				out := h.RunScript(eng, src, args, nil)
				c.Eval(1)
				if out.Err != nil || out.Escaped != nil {
					c.Violate(fmt.Sprintf("batch-script-failed[%s] class=%s kind=%s", eng, host.Classify(out), host.ErrKind(out.Err)),
						"a script of operations that the model predicts to succeed failed",
						map[string]any{"engine": eng.String(), "form": form.String(), "script": src, "args": argStrings(args), "error": host.ErrText(out)})
					continue
				}
				arr, ok := out.Value.(cadence.Array)
				if !ok || len(arr.Values) != len(ops) {
					c.Violate("batch-script-result-shape", "script result is not an array of the expected length",
						map[string]any{"engine": eng.String(), "script": src, "value": fmt.Sprint(out.Value)})
					continue
				}
				for i, v := range arr.Values {
					c.Inc("ops_checked")
					got := renderValue(v)
					if got != ops[i].Exp {
						m := misses[i]
						if m == nil {
							m = &miss{}
							misses[i] = m
						}
						m.engines = append(m.engines, eng)
						m.got = append(m.got, got)
					}
				}
			}
			var idxs []int
			for i := range misses {
				idxs = append(idxs, i)
			}
			sort.Ints(idxs)
			for _, i := range idxs {
				m := misses[i]
				g := batch[owner[i]]
				c.Violate(fmt.Sprintf("op=%s engines=%s needle=%s", ops[i].Name, engineSet(m.engines), needleKeyClass(ops[i].Name, g)),
					fmt.Sprintf("%s: model says %s, engines %s returned %s", ops[i].Expr, ops[i].Exp, engineSet(m.engines), m.got[0]),
					map[string]any{
						"operation": ops[i].Expr, "expected": ops[i].Exp, "observed": m.got, "engines": engineSet(m.engines), "form": form.String(),
						"s": quoteASCII(g.S), "o": quoteASCII(g.O), "n": quoteASCII(g.N), "p": quoteASCII(g.P),
						"s_literal": cdcLiteral(g.S, false), "o_literal": cdcLiteral(g.O, false), "n_literal": cdcLiteral(g.N, false), "p_literal": cdcLiteral(g.P, false),
						"s_clusters": quoteAll(model(g.S).G), "n_clusters": quoteAll(model(g.N).G),
						"ops_before_in_group": opsBefore(g, ops[i]),
					})
			}
			if c.WantSample() && start == 0 && form == formEscaped {
				c.Sample(map[string]any{"script": core.Clip(src, 3000), "first_expected": ops[0].Exp, "ops": len(ops)})
			}
		}
	}
	// expected failures: one per script
	fi := 0
	for _, g := range groups {
		for _, f := range g.Fails {
			fi++
			form := []c19Form{formArg, formEscaped, formRaw}[fi%3]
			var src string
			var args [][]byte
			if form == formArg {
				src = "access(all) fun main(s: String): AnyStruct {\n    let l = s.length\n    return " + f.Expr + "\n}\n"
				args = [][]byte{[]byte(cdcStringArg(g.S))}
			} else {
				src = "access(all) fun main(): AnyStruct {\n    let s = " + cdcLiteral(g.S, form == formRaw) + "\n    let l = s.length\n    return " + f.Expr + "\n}\n"
			}
			for _, eng := range host.AllEngines {
				h := host.New()
				out := h.RunScript(eng, src, args, nil)
				c.Eval(1)
				cls := host.Classify(out)
				switch cls {
				case host.ClassUser:
					c.Inc("expected_failure_observed")
					c.Inc("expected_failure_" + strings.ReplaceAll(f.Name, "-", "_"))
				case host.ClassNone:
					c.Violate(fmt.Sprintf("no-failure op=%s engine=%s", f.Name, eng),
						fmt.Sprintf("%s (%s) must fail but returned %v", f.Expr, f.Why, out.Value),
						map[string]any{"engine": eng.String(), "script": src, "args": argStrings(args), "s": quoteASCII(g.S), "s_clusters": quoteAll(model(g.S).G), "returned": fmt.Sprint(out.Value)})
				default:
					c.Violate(fmt.Sprintf("failure-class op=%s engine=%s class=%s", f.Name, eng, cls),
						fmt.Sprintf("%s (%s) must fail as a program error, failed as %s", f.Expr, f.Why, cls),
						map[string]any{"engine": eng.String(), "script": src, "args": argStrings(args), "error": host.ErrText(out)})
				}
			}
		}
	}
}

// needleKeyClass narrows the key for search-like operations by the needle kind and nothing else.
func needleKeyClass(op string, g c19Group) string {
	switch op {
	case "contains", "index(of:)", "count", "split", "replaceAll", "join-split":
		return g.NeedleKind
	}
	return "-"
}

func opsBefore(g c19Group, op c19Op) []string {
	var out []string
	for _, o := range g.Ops {
		if o == op {
			break
		}
		out = append(out, o.Expr)
	}
	return out
}

func quoteAll(ss []string) []string {
	out := make([]string, len(ss))
	for i, s := range ss {
		out[i] = quoteASCII(s)
	}
	return out
}

func argStrings(args [][]byte) []string {
	out := make([]string, len(args))
	for i, a := range args {
		out[i] = string(a)
	}
	return out
}
