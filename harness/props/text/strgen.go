package text

import (
	"encoding/json"
	"fmt"
	"math/rand/v2"
	"strconv"
	"strings"
	"unicode/utf8"

	"github.com/rivo/uniseg"
	"golang.org/x/text/unicode/norm"
)

// ---------------------------------------------------------------- adversarial string generator (DESIGN §3.5)

// atom is one building block of the generator's alphabet. Tag names the feature class (used for
// coverage monitors, never for the oracle).
type atom struct {
	Tag string
	S   string
}

var atoms = func() []atom {
	var as []atom
	add := func(tag string, ss ...string) {
		for _, s := range ss {
			as = append(as, atom{tag, s})
		}
	}
	add("ascii", "a", "b", "e", "o", "A", "B", "E", "Z", "k", "0", "1", "7", "f", "F", " ", "-", ",", "\\", "\"", "'", "(", ")", "q", "i")
	// combining marks (non-spacing, enclosing, spacing), several canonical combining classes
	add("mark", "\u0301", "\u0300", "\u0308", "\u0323", "\u0327", "\u0302", "\u0307", "\u0338", "\u20DD",
		"\u0903", "\u093E", "\u093C", "\u05B0", "\u0E31", "\u0334", "\u1AB0", "\u030A", "\u0303", "\u0304", "\u05B4")
	// precomposed letters, singletons (Ohm, Angstrom, Kelvin), composition exclusions, compatibility ideograph
	add("precomposed", "\u00E9", "\u00F1", "\u00C5", "\u00C9", "\u1E0D", "\u1E69", "\u01D5", "\u1EA5",
		"\u2126", "\u212B", "\u212A", "\u0958", "\uFB1D", "\u2ADC", "\u0344", "\u0340", "\U0001D15E", "\U0002F800", "\u1E9B", "\u00FC")
	// decomposed forms (canonically equivalent to entries above), marks in both orders
	add("decomposed", "e\u0301", "n\u0303", "A\u030A", "E\u0301", "d\u0323", "s\u0323\u0307", "s\u0307\u0323",
		"U\u0308\u0304", "a\u0302\u0301", "\u0915\u093C", "\u05D9\u05B4", "\u0308\u0301", "\U0001D157\U0001D165",
		"q\u0323\u0307", "q\u0307\u0323", "u\u0308", "\u00E2\u0301", "\u1E63\u0307")
	// emoji: ZWJ sequences, skin-tone modifiers, variation selectors, keycaps, tag sequences, dangling ZWJ
	add("emoji", "\U0001F468\u200D\U0001F469\u200D\U0001F467", "\U0001F44D\U0001F3FD", "\u2764\uFE0F",
		"\U0001F3F3\uFE0F\u200D\U0001F308", "\U0001F600", "\U0001F469", "\U0001F467", "\U0001F3FD", "1\uFE0F\u20E3",
		"\U0001F3F4\U000E0067\U000E0062\U000E007F", "\u2764", "\U0001F468\u200D", "\U0001F308")
	add("zwj_vs", "\u200D", "\uFE0F", "\uFE0E", "\u200C", "\u20E3")
	add("regional", "\U0001F1E6", "\U0001F1E7", "\U0001F1E8", "\U0001F1E9", "\U0001F1FA\U0001F1F8", "\U0001F1E9\U0001F1EA")
	// Hangul: leading / vowel / trailing jamo, LV and LVT syllables, decomposed syllables
	add("hangul", "\u1100", "\u1102", "\u1161", "\u1162", "\u11A8", "\u11AB", "\uAC00", "\uAC01", "\uB098",
		"\u1100\u1161", "\u1100\u1161\u11A8", "\uAC00\u11A8")
	add("crlf", "\r", "\n", "\r\n", "\n\r", "\t", "\x00", "\u0085", "\u2028")
	add("format", "\u200B", "\u00AD", "\u0600", "\u0D4E", "\u0915\u094D\u0937", "\u094D", "\uFEFF", "\u034F")
	add("case", "\u0130", "\u03A3", "\u1E9E", "\u01C4", "\u01C5", "\u00C0", "\u0410", "\u1E08", "I", "\u03A9", "\u10A0", "\U00010400", "\u24B6", "\u1F88")
	add("other", "\u00DF", "\u4E2D", "\uFFFD", "\U0010FFFF", "\u07FF", "\u0800", "\uFFFF", "\x7F", "\u0080", "z")
	return as
}()

var atomsByTag = func() map[string][]int {
	m := map[string][]int{}
	for i, a := range atoms {
		m[a.Tag] = append(m[a.Tag], i)
	}
	return m
}()

var atomTags = []string{"ascii", "mark", "precomposed", "decomposed", "emoji", "zwj_vs", "regional", "hangul", "crlf", "format", "case", "other"}

// genString builds a string of up to maxAtoms atoms; the tags used are reported through use().
func genString(r *rand.Rand, maxAtoms int, use func(tag string)) string {
	if r.IntN(12) == 0 {
		use("empty")
		return ""
	}
	n := 1 + r.IntN(maxAtoms)
	var sb strings.Builder
	// a string is biased to one or two feature classes so that interactions inside a class are dense
	focus := atomTags[r.IntN(len(atomTags))]
	focus2 := atomTags[r.IntN(len(atomTags))]
	for i := 0; i < n; i++ {
		var tag string
		switch k := r.IntN(10); {
		case k < 4:
			tag = focus
		case k < 6:
			tag = focus2
		case k < 8:
			tag = "ascii"
		default:
			tag = atomTags[r.IntN(len(atomTags))]
		}
		ix := atomsByTag[tag]
		a := atoms[ix[r.IntN(len(ix))]]
		use(a.Tag)
		sb.WriteString(a.S)
	}
	return sb.String()
}

// ---------------------------------------------------------------- model: NFC text and its cluster sequence

func nfc(s string) string { return norm.NFC.String(s) }

// clustersOf segments an (already normalised) text into extended grapheme clusters.
func clustersOf(t string) []string {
	var out []string
	g := uniseg.NewGraphemes(t)
	for g.Next() {
		out = append(out, g.Str())
	}
	return out
}

// mstr is the model of one Cadence String: the NFC text and its cluster list.
type mstr struct {
	Src string   // source text as given to Cadence
	T   string   // NFC(Src)
	G   []string // clusters of T
}

func model(src string) mstr {
	t := nfc(src)
	return mstr{Src: src, T: t, G: clustersOf(t)}
}

func eqClusters(a, b []string) bool {
	if len(a) != len(b) {
		return false
	}
	for i := range a {
		if a[i] != b[i] {
			return false
		}
	}
	return true
}

// indexClusters: first i with G[i:i+len(N)] == N; the empty needle is found at 0.
func indexClusters(g, n []string) int {
	if len(n) == 0 {
		return 0
	}
	for i := 0; i+len(n) <= len(g); i++ {
		if eqClusters(g[i:i+len(n)], n) {
			return i
		}
	}
	return -1
}

// countClusters: non-overlapping occurrences, left to right; empty needle: len+1 (Go convention on clusters).
func countClusters(g, n []string) int {
	if len(n) == 0 {
		return len(g) + 1
	}
	c := 0
	for i := 0; i+len(n) <= len(g); {
		if eqClusters(g[i:i+len(n)], n) {
			c++
			i += len(n)
		} else {
			i++
		}
	}
	return c
}

// splitClusters: Go's strings.Split lifted to clusters. Results are texts.
func splitClusters(g, n []string) []string {
	if len(n) == 0 {
		return append([]string{}, g...)
	}
	var parts []string
	cur := ""
	for i := 0; i < len(g); {
		if i+len(n) <= len(g) && eqClusters(g[i:i+len(n)], n) {
			parts = append(parts, cur)
			cur = ""
			i += len(n)
		} else {
			cur += g[i]
			i++
		}
	}
	return append(parts, cur)
}

// replaceClusters: Go's strings.ReplaceAll lifted to clusters; the resulting text is re-normalised
// (a String value is always the NFC form of its text).
func replaceClusters(g, n []string, repl string) string {
	var sb strings.Builder
	if len(n) == 0 {
		for _, c := range g {
			sb.WriteString(repl)
			sb.WriteString(c)
		}
		sb.WriteString(repl)
		return nfc(sb.String())
	}
	for i := 0; i < len(g); {
		if i+len(n) <= len(g) && eqClusters(g[i:i+len(n)], n) {
			sb.WriteString(repl)
			i += len(n)
		} else {
			sb.WriteString(g[i])
			i++
		}
	}
	return nfc(sb.String())
}

// ---------------------------------------------------------------- Cadence source / JSON-CDC renderings

// cdcLiteral renders text as a Cadence string literal. raw=true keeps printable non-ASCII
// characters as they are (UTF-8 in the source text), otherwise everything outside printable
// ASCII is written as \u{...}.
func cdcLiteral(s string, raw bool) string {
	var sb strings.Builder
	sb.WriteByte('"')
	for _, r := range s {
		switch {
		case r == '\\':
			sb.WriteString(`\\`)
		case r == '"':
			sb.WriteString(`\"`)
		case r >= 0x20 && r < 0x7F:
			sb.WriteRune(r)
		case raw && r >= 0xA0 && r != 0x2028 && r != 0x2029 && r != 0xFEFF && r != utf8.RuneError:
			sb.WriteRune(r)
		default:
			fmt.Fprintf(&sb, `\u{%X}`, r)
		}
	}
	sb.WriteByte('"')
	return sb.String()
}

func jsonString(s string) string {
	b, _ := json.Marshal(s)
	return string(b)
}

func cdcStringArg(s string) string {
	return `{"type":"String","value":` + jsonString(s) + `}`
}

func cdcStringArrayArg(ss []string) []byte {
	var sb strings.Builder
	sb.WriteString(`{"type":"Array","value":[`)
	for i, s := range ss {
		if i > 0 {
			sb.WriteByte(',')
		}
		sb.WriteString(cdcStringArg(s))
	}
	sb.WriteString(`]}`)
	return []byte(sb.String())
}

// quoteASCII renders text unambiguously for witnesses and canonical result comparison.
func quoteASCII(s string) string { return strconv.QuoteToASCII(s) }
