// Package misc holds the checks of group misc (see harness/groups.txt).
package misc
