package misc

import (
	"fmt"
	"math"
	"math/big"
	"math/rand/v2"

	cerrors "github.com/onflow/cadence/errors"
	"github.com/onflow/cadence/interpreter"
	"github.com/onflow/cadence/sema"
	"github.com/onflow/cadence/stdlib"

	"verif/harness/core"
	"verif/harness/host"
)

// C47 — revertibleRandom is bounded and exactly uniform.
//
// Observed: return values of the exported stdlib.RevertibleRandom under a scripted RandomGenerator that
// serves enumerated / adversarial / PRNG byte strings and records the size of every ReadRandom request.
// Oracle for 8/16-bit types: exact counting over the complete set of first draws.

type rrType struct {
	Name string
	Sema sema.Type
	Bits int
	Mk   func(m *big.Int) interpreter.Value
}

var rrTypes = []rrType{
	{"UInt8", sema.UInt8Type, 8, func(m *big.Int) interpreter.Value { return interpreter.NewUnmeteredUInt8Value(uint8(m.Uint64())) }},
	{"Word8", sema.Word8Type, 8, func(m *big.Int) interpreter.Value { return interpreter.NewUnmeteredWord8Value(uint8(m.Uint64())) }},
	{"UInt16", sema.UInt16Type, 16, func(m *big.Int) interpreter.Value { return interpreter.NewUnmeteredUInt16Value(uint16(m.Uint64())) }},
	{"Word16", sema.Word16Type, 16, func(m *big.Int) interpreter.Value { return interpreter.NewUnmeteredWord16Value(uint16(m.Uint64())) }},
	{"UInt32", sema.UInt32Type, 32, func(m *big.Int) interpreter.Value { return interpreter.NewUnmeteredUInt32Value(uint32(m.Uint64())) }},
	{"Word32", sema.Word32Type, 32, func(m *big.Int) interpreter.Value { return interpreter.NewUnmeteredWord32Value(uint32(m.Uint64())) }},
	{"UInt64", sema.UInt64Type, 64, func(m *big.Int) interpreter.Value { return interpreter.NewUnmeteredUInt64Value(m.Uint64()) }},
	{"Word64", sema.Word64Type, 64, func(m *big.Int) interpreter.Value { return interpreter.NewUnmeteredWord64Value(m.Uint64()) }},
	{"UInt128", sema.UInt128Type, 128, func(m *big.Int) interpreter.Value {
		return interpreter.NewUnmeteredUInt128ValueFromBigInt(new(big.Int).Set(m))
	}},
	{"Word128", sema.Word128Type, 128, func(m *big.Int) interpreter.Value {
		return interpreter.NewUnmeteredWord128ValueFromBigInt(new(big.Int).Set(m))
	}},
	{"UInt256", sema.UInt256Type, 256, func(m *big.Int) interpreter.Value {
		return interpreter.NewUnmeteredUInt256ValueFromBigInt(new(big.Int).Set(m))
	}},
	{"Word256", sema.Word256Type, 256, func(m *big.Int) interpreter.Value {
		return interpreter.NewUnmeteredWord256ValueFromBigInt(new(big.Int).Set(m))
	}},
}

func rrTypeByName(n string) rrType {
	for _, t := range rrTypes {
		if t.Name == n {
			return t
		}
	}
	panic("no type " + n)
}

// rrSmall reads back a result of an 8..64-bit type.
func rrSmall(v interpreter.Value) (uint64, bool) {
	switch x := v.(type) {
	case interpreter.UInt8Value:
		return uint64(x), true
	case interpreter.Word8Value:
		return uint64(x), true
	case interpreter.UInt16Value:
		return uint64(x), true
	case interpreter.Word16Value:
		return uint64(x), true
	case interpreter.UInt32Value:
		return uint64(x), true
	case interpreter.Word32Value:
		return uint64(x), true
	case interpreter.UInt64Value:
		return uint64(x), true
	case interpreter.Word64Value:
		return uint64(x), true
	}
	return 0, false
}

func rrBig(v interpreter.Value) *big.Int {
	if u, ok := rrSmall(v); ok {
		return new(big.Int).SetUint64(u)
	}
	switch x := v.(type) {
	case interpreter.UInt128Value:
		return x.BigInt
	case interpreter.Word128Value:
		return x.BigInt
	case interpreter.UInt256Value:
		return x.BigInt
	case interpreter.Word256Value:
		return x.BigInt
	}
	return nil
}

// ---------------------------------------------------------------- scripted generators

// enumGen serves up to three scripted draws given as integers (big-endian in the requested size), then zeros.
type enumGen struct {
	draws  [3]uint64
	calls  int
	sizes  [4]int
	excess bool
}

func (g *enumGen) ReadRandom(buf []byte) error {
	if g.calls < len(g.sizes) {
		g.sizes[g.calls] = len(buf)
	}
	var v uint64
	if g.calls < len(g.draws) {
		v = g.draws[g.calls]
	} else {
		g.excess = true
	}
	g.calls++
	for i := len(buf) - 1; i >= 0; i-- {
		buf[i] = byte(v)
		v >>= 8
	}
	return nil
}

// streamGen serves scripted byte strings first (each truncated / left-padded to the requested size), then a PRNG stream.
type streamGen struct {
	script [][]byte
	rng    *rand.Rand
	calls  int
	sizes  []int
	limit  int
}

type rrTooManyDraws struct{}

func (g *streamGen) ReadRandom(buf []byte) error {
	g.sizes = append(g.sizes, len(buf))
	if g.limit > 0 && g.calls >= g.limit {
		panic(rrTooManyDraws{})
	}
	if g.calls < len(g.script) {
		s := g.script[g.calls]
		for i := range buf {
			buf[i] = 0
		}
		// right-align
		if len(s) >= len(buf) {
			copy(buf, s[len(s)-len(buf):])
		} else {
			copy(buf[len(buf)-len(s):], s)
		}
	} else {
		for i := range buf {
			buf[i] = byte(g.rng.Uint32())
		}
	}
	g.calls++
	return nil
}

func rrCall(gen stdlib.RandomGenerator, t rrType, mod interpreter.Value) (v interpreter.Value, p *panicInfo, raw any) {
	defer func() {
		if r := recover(); r != nil {
			raw = r
			p = &panicInfo{Value: fmt.Sprint(r), Kind: digitsRe.ReplaceAllString(fmt.Sprint(r), "#")}
		}
	}()
	v = stdlib.RevertibleRandom(gen, nil, t.Sema, mod)
	return
}

func rrModClass(m uint64) string {
	switch {
	case m == 1:
		return "m=1"
	case m&(m-1) == 0:
		return "m=2^k"
	case (m-1)&(m-2) == 0:
		return "m=2^k+1"
	case (m+1)&m == 0:
		return "m=2^k-1"
	}
	return "m=other"
}

// ---------------------------------------------------------------- exact leg (8/16-bit types)

type rrExact struct {
	c      *core.Ctx
	t      rrType
	res    []uint32 // result per first draw (valid when acc)
	acc    []bool
	counts []uint32

	gen      enumGen // reused: one allocation less per call
	rejected []int
}

// rrExactModulo enumerates every first draw for modulus m. d2Samples: number of second draws tried per rejected first draw
// (0 = all).
func (x *rrExact) modulo(m uint64, fullSecond bool) {
	c, t := x.c, x.t
	mv := t.Mk(new(big.Int).SetUint64(m))
	cls := rrModClass(m)
	wit := func(extra map[string]any) map[string]any {
		w := map[string]any{"type": t.Name, "modulo": m, "call": fmt.Sprintf("stdlib.RevertibleRandom(gen, nil, sema.%sType, %s(%d))", t.Name, t.Name, m)}
		for k, v := range extra {
			w[k] = v
		}
		return w
	}

	// probe: which draw size does the function ask for?
	g := &enumGen{}
	v, p, _ := rrCall(g, t, mv)
	c.Eval(1)
	if p != nil {
		c.Violate(fmt.Sprintf("%s %s: call fails", t.Name, cls), fmt.Sprintf("revertibleRandom<%s>(modulo: %d) with an all-zero source failed: %s", t.Name, m, p.Value), wit(nil))
		return
	}
	if g.calls == 0 {
		// no randomness requested: only correct when there is a single possible result
		r, _ := rrSmall(v)
		if m != 1 || r != 0 {
			c.Violate(fmt.Sprintf("%s %s: no randomness requested", t.Name, cls), fmt.Sprintf("revertibleRandom<%s>(modulo: %d) returned %d without reading random bytes", t.Name, m, r), wit(nil))
		}
		c.Inc("exact_moduli")
		return
	}
	k := g.sizes[0]
	c.Inc(fmt.Sprintf("draw_bytes_%d", k))
	if k > 2 {
		// cannot be enumerated; the floor on exact_moduli turns this into INCONCLUSIVE
		c.Inc("unenumerable_draw_size")
		return
	}
	n := 1
	for i := 0; i < k; i++ {
		n *= 256
	}
	for i := uint64(0); i < m; i++ {
		x.counts[i] = 0
	}
	accepted := 0
	rejected := x.rejected[:0]
	g = &x.gen
	for d := 0; d < n; d++ {
		*g = enumGen{draws: [3]uint64{uint64(d), 0, 0}}
		v, p, _ := rrCall(g, t, mv)
		if p != nil {
			c.Violate(fmt.Sprintf("%s %s: call fails", t.Name, cls), fmt.Sprintf("revertibleRandom<%s>(modulo: %d) with first draw %#x failed: %s", t.Name, m, d, p.Value), wit(map[string]any{"first_draw": d}))
			return
		}
		r, ok := rrSmall(v)
		if !ok {
			c.Violate(fmt.Sprintf("%s: wrong result type", t.Name), fmt.Sprintf("result %T", v), wit(nil))
			return
		}
		if r >= m {
			c.Violate(fmt.Sprintf("%s %s: result not below modulo", t.Name, cls), fmt.Sprintf("revertibleRandom<%s>(modulo: %d) returned %d for source bytes %#x, 0…", t.Name, m, r, d), wit(map[string]any{"first_draw": d, "result": r}))
			return
		}
		x.acc[d] = g.calls == 1
		x.res[d] = uint32(r)
		if g.calls == 1 {
			accepted++
			x.counts[r]++
		} else {
			rejected = append(rejected, d)
			for i := 1; i < g.calls && i < len(g.sizes); i++ {
				if g.sizes[i] != k {
					c.Inc("varying_draw_size")
				}
			}
		}
	}
	x.rejected = rejected
	c.Eval(int64(n))
	c.Count("first_draws_enumerated", int64(n))
	c.Count("accepted_draws", int64(accepted))
	c.Count("rejected_draws", int64(len(rejected)))
	if accepted == 0 {
		// the function always reads more than one chunk: its draws are not enumerable by this leg
		c.Inc("unenumerable_draw_size")
		return
	}
	// exact uniformity: with memoryless rejection P(v) = counts[v] / accepted
	lo, hi := x.counts[0], x.counts[0]
	loV, hiV := uint64(0), uint64(0)
	for i := uint64(1); i < m; i++ {
		if x.counts[i] < lo {
			lo, loV = x.counts[i], i
		}
		if x.counts[i] > hi {
			hi, hiV = x.counts[i], i
		}
	}
	if lo != hi {
		c.Violate(fmt.Sprintf("%s %s: not uniform", t.Name, cls),
			fmt.Sprintf("revertibleRandom<%s>(modulo: %d): over all %d possible %d-byte draws, value %d is produced by %d accepted draws but value %d by %d (accepted %d, rejected %d)", t.Name, m, n, k, loV, lo, hiV, hi, accepted, len(rejected)),
			wit(map[string]any{"draw_bytes": k, "least": map[string]any{"value": loV, "draws": lo}, "most": map[string]any{"value": hiV, "draws": hi}}))
	}
	c.Inc("exact_moduli")

	// independence of rejected draws: after a rejected first draw d the answer is the answer of the second draw alone
	if len(rejected) == 0 {
		return
	}
	checkPair := func(d, d2 int) {
		g := enumGen{draws: [3]uint64{uint64(d), uint64(d2), 0}}
		v, p, _ := rrCall(&g, t, mv)
		c.Eval(1)
		c.Inc("independence_checks")
		if p != nil {
			c.Violate(fmt.Sprintf("%s %s: call fails", t.Name, cls), p.Value, wit(map[string]any{"draws": []int{d, d2}}))
			return
		}
		r, _ := rrSmall(v)
		var want uint32
		wantCalls := 2
		if x.acc[d2] {
			want = x.res[d2]
		} else {
			want = x.res[0] // third draw is 0
			wantCalls = 3
			if !x.acc[0] {
				return // draw 0 itself rejected: three scripted draws are not enough to decide
			}
		}
		if uint32(r) != want || g.calls != wantCalls {
			c.Violate(fmt.Sprintf("%s %s: rejected draw influences the result", t.Name, cls),
				fmt.Sprintf("revertibleRandom<%s>(modulo: %d): draws %#x (rejected), %#x gave %d after %d reads; the second draw alone gives %d", t.Name, m, d, d2, r, g.calls, want),
				wit(map[string]any{"draws": []int{d, d2}, "result": r, "reads": g.calls, "expected": want}))
		}
	}
	if fullSecond {
		for _, d := range rejected {
			for d2 := 0; d2 < n; d2++ {
				checkPair(d, d2)
			}
		}
	} else {
		for i := 0; i < 24; i++ {
			d := rejected[c.Rng.IntN(len(rejected))]
			if i == 0 {
				d = rejected[0]
			} else if i == 1 {
				d = rejected[len(rejected)-1]
			}
			for j := 0; j < 12; j++ {
				d2 := c.Rng.IntN(n)
				switch j {
				case 0:
					d2 = int(m - 1)
				case 1:
					d2 = int(m) % n
				case 2:
					d2 = n - 1
				}
				checkPair(d, d2)
			}
		}
	}
}

// noModuloExact: without a modulo the map from draws to results must be a bijection onto T.
func (x *rrExact) noModulo() {
	c, t := x.c, x.t
	g := &enumGen{}
	_, p, _ := rrCall(g, t, nil)
	if p != nil || g.calls == 0 {
		c.Violate(fmt.Sprintf("%s no-modulo: call fails or reads nothing", t.Name), fmt.Sprint(p), nil)
		return
	}
	k := g.sizes[0]
	if k > 2 {
		c.Inc("unenumerable_draw_size")
		return
	}
	n := 1 << (8 * k)
	size := 1 << t.Bits
	seen := make([]uint32, size)
	for d := 0; d < n; d++ {
		g := enumGen{draws: [3]uint64{uint64(d), 0, 0}}
		v, p, _ := rrCall(&g, t, nil)
		c.Eval(1)
		if p != nil {
			c.Violate(fmt.Sprintf("%s no-modulo: call fails", t.Name), p.Value, nil)
			return
		}
		r, _ := rrSmall(v)
		if r >= uint64(size) {
			c.Violate(fmt.Sprintf("%s no-modulo: result out of range", t.Name), fmt.Sprint(r), nil)
			return
		}
		if g.calls != 1 {
			c.Inc("nomodulo_multi_reads")
		}
		seen[r]++
	}
	for v, cnt := range seen {
		if cnt != seen[0] || cnt == 0 {
			c.Violate(fmt.Sprintf("%s no-modulo: not uniform", t.Name),
				fmt.Sprintf("revertibleRandom<%s>(): over all %d draws value %d is produced %d times, value 0 %d times", t.Name, n, v, cnt, seen[0]),
				map[string]any{"type": t.Name})
			return
		}
	}
	c.Inc("exact_nomodulo_types")
}

// ---------------------------------------------------------------- wide types

func rrWideModuli(t rrType, r *rand.Rand) []*big.Int {
	one := big.NewInt(1)
	var ms []*big.Int
	add := func(m *big.Int) {
		max := new(big.Int).Lsh(one, uint(t.Bits))
		if m.Sign() > 0 && m.Cmp(max) < 0 {
			ms = append(ms, m)
		}
	}
	for _, s := range []int64{1, 2, 3, 5, 7, 255, 256, 257} {
		add(big.NewInt(s))
	}
	for k := 1; k <= t.Bits; k++ {
		if k > 17 && k%8 > 1 && k%8 < 7 && k != t.Bits-1 {
			continue
		}
		p := new(big.Int).Lsh(one, uint(k))
		add(new(big.Int).Sub(p, one))
		add(p)
		add(new(big.Int).Add(p, one))
	}
	for i := 0; i < 24; i++ {
		bits := 1 + r.IntN(t.Bits)
		m := new(big.Int)
		for m.BitLen() < bits {
			m.Lsh(m, 32)
			m.Or(m, new(big.Int).SetUint64(uint64(r.Uint32())))
		}
		m.Rsh(m, uint(m.BitLen()-bits))
		add(m)
	}
	return ms
}

func rrBytesOf(v *big.Int, size int) []byte {
	b := v.Bytes()
	if len(b) > size {
		b = b[len(b)-size:]
	}
	out := make([]byte, size)
	copy(out[size-len(b):], b)
	return out
}

func rrWide(c *core.Ctx, t rrType) {
	size := t.Bits / 8
	ones := make([]byte, size)
	alt := make([]byte, size)
	alt2 := make([]byte, size)
	for i := range ones {
		ones[i] = 0xff
		alt[i] = 0xaa
		alt2[i] = 0x55
	}
	for _, m := range rrWideModuli(t, c.Rng) {
		mv := t.Mk(m)
		mm1 := new(big.Int).Sub(m, big.NewInt(1))
		minBytes := (mm1.BitLen() + 7) / 8
		cls := "m=other"
		if m.IsUint64() {
			cls = rrModClass(m.Uint64())
		} else {
			pm := new(big.Int).And(m, mm1)
			if pm.Sign() == 0 {
				cls = "m=2^k"
			}
		}
		scripts := [][][]byte{
			{ones, ones, ones},
			{},
			{alt, alt2},
			{rrBytesOf(m, size), rrBytesOf(new(big.Int).Add(m, big.NewInt(1)), size), rrBytesOf(mm1, size)},
			{rrBytesOf(mm1, size)},
			{rrBytesOf(new(big.Int).Lsh(m, 1), size), rrBytesOf(new(big.Int).Or(m, new(big.Int).Lsh(big.NewInt(1), uint(m.BitLen()))), size)},
		}
		for si, sc := range scripts {
			g := &streamGen{script: sc, rng: rand.New(rand.NewPCG(c.Rng.Uint64(), uint64(si))), limit: 4000}
			v, p, raw := rrCall(g, t, mv)
			c.Eval(1)
			c.Inc("wide_adversarial_calls")
			if p != nil {
				if _, tm := raw.(rrTooManyDraws); tm {
					c.Violate(fmt.Sprintf("%s %s: does not terminate", t.Name, cls),
						fmt.Sprintf("revertibleRandom<%s>(modulo: %s) asked for more than 4000 draws from a pseudo-random source", t.Name, m), map[string]any{"type": t.Name, "modulo": m.String(), "script": si})
				} else {
					c.Violate(fmt.Sprintf("%s %s: call fails", t.Name, cls), fmt.Sprintf("revertibleRandom<%s>(modulo: %s): %s", t.Name, m, p.Value), map[string]any{"type": t.Name, "modulo": m.String(), "script": si})
				}
				continue
			}
			r := rrBig(v)
			if r == nil || r.Sign() < 0 || r.Cmp(m) >= 0 {
				c.Violate(fmt.Sprintf("%s %s: result not below modulo", t.Name, cls),
					fmt.Sprintf("revertibleRandom<%s>(modulo: %s) returned %v (adversarial source #%d: %x…)", t.Name, m, r, si, sc),
					map[string]any{"type": t.Name, "modulo": m.String(), "script": fmt.Sprintf("%x", sc), "result": fmt.Sprint(r)})
			}
			// entropy lower bound (a draw with fewer bytes than the modulus needs cannot be uniform)
			total := 0
			for _, s := range g.sizes {
				total += s
			}
			if total < minBytes {
				c.Violate(fmt.Sprintf("%s %s: fewer random bytes than the modulus needs", t.Name, cls),
					fmt.Sprintf("revertibleRandom<%s>(modulo: %s) read %d random byte(s) in total; at least %d are needed to reach every value below the modulus", t.Name, m, total, minBytes), map[string]any{"type": t.Name, "modulo": m.String()})
			}
			for _, s := range g.sizes {
				if s == minBytes {
					c.Inc("wide_draws_minimal_size")
				} else {
					c.Inc("wide_draws_larger_size")
				}
			}
			c.DistinctHash(fnv64([]byte(t.Name), m.Bytes(), []byte{byte(si)}))
		}
	}

	rrWideNoModulo(c, t)
}

const rrStatModuli = 9

// rrStat: fixed-seed statistical bias test for one modulus (index mi) of type t.
func rrStat(c *core.Ctx, t rrType, mi int, rep int) {
	one := big.NewInt(1)
	full := new(big.Int).Lsh(one, uint(t.Bits))
	statMods := []*big.Int{
		new(big.Int).Div(new(big.Int).Mul(full, big.NewInt(2)), big.NewInt(3)),
		new(big.Int).Div(new(big.Int).Mul(full, big.NewInt(3)), big.NewInt(4)),
		new(big.Int).Add(new(big.Int).Rsh(full, 1), one),
		new(big.Int).Div(new(big.Int).Mul(full, big.NewInt(3)), big.NewInt(5)),
		big.NewInt(3), big.NewInt(5), big.NewInt(6), big.NewInt(7), big.NewInt(192),
	}
	const nDraws = 200000
	const buckets = 8
	{
		m := statMods[mi]
		mv := t.Mk(m)
		g := &streamGen{rng: rand.New(rand.NewPCG(uint64(c.Seed)*977+uint64(mi)+uint64(rep)*7919, fnv64([]byte(t.Name))))}
		var cnt [buckets]int
		lowerHalf := 0
		half := new(big.Int).Rsh(m, 1)
		tmp := new(big.Int)
		for i := 0; i < nDraws; i++ {
			v, p, _ := rrCall(g, t, mv)
			if p != nil {
				c.Violate(fmt.Sprintf("%s: call fails", t.Name), p.Value, nil)
				return
			}
			r := rrBig(v)
			if r.Cmp(m) >= 0 {
				c.Violate(fmt.Sprintf("%s m=other: result not below modulo", t.Name), fmt.Sprintf("modulo %s result %s", m, r), nil)
				return
			}
			if r.Cmp(half) < 0 {
				lowerHalf++
			}
			// bucket = floor(r * buckets / m)
			tmp.Mul(r, big.NewInt(buckets))
			tmp.Quo(tmp, m)
			cnt[tmp.Int64()]++
		}
		c.Eval(nDraws)
		c.Count("statistical_draws", nDraws)
		// expected bucket probabilities (exact for the discrete uniform law on [0,m))
		for b := 0; b < buckets; b++ {
			// number of v in [0,m) with floor(v*buckets/m) == b
			loB := new(big.Int).Div(new(big.Int).Add(new(big.Int).Mul(m, big.NewInt(int64(b))), big.NewInt(buckets-1)), big.NewInt(buckets))
			hiB := new(big.Int).Div(new(big.Int).Add(new(big.Int).Mul(m, big.NewInt(int64(b+1))), big.NewInt(buckets-1)), big.NewInt(buckets))
			pf, _ := new(big.Rat).SetFrac(new(big.Int).Sub(hiB, loB), m).Float64()
			exp := pf * nDraws
			sigma := math.Sqrt(nDraws * pf * (1 - pf))
			if math.Abs(float64(cnt[b])-exp) > 6*sigma+1 {
				c.Violate(fmt.Sprintf("%s: statistically biased (bucket test)", t.Name),
					fmt.Sprintf("revertibleRandom<%s>(modulo: %s): %d of %d PRNG-driven results fall in bucket %d/%d, expected %.0f ± %.0f (6σ)", t.Name, m, cnt[b], nDraws, b, buckets, exp, 6*sigma),
					map[string]any{"type": t.Name, "modulo": m.String(), "bucket_counts": cnt[:]})
				break
			}
		}
		_ = lowerHalf
		c.Inc("statistical_tests")
		c.DistinctHash(fnv64([]byte("stat"), []byte(t.Name), m.Bytes(), []byte{byte(rep)}))
		if c.WantSample() {
			c.Sample(map[string]any{"leg": "statistical", "type": t.Name, "modulo": m.String(), "draws": nDraws, "bucket_counts": cnt[:]})
		}
	}
}

// rrWideNoModulo: result in range, reads at least ByteSize bytes, injective on a sample
func rrWideNoModulo(c *core.Ctx, t rrType) {
	size := t.Bits / 8
	ones := make([]byte, size)
	for i := range ones {
		ones[i] = 0xff
	}
	full := new(big.Int).Lsh(big.NewInt(1), uint(t.Bits))
	seen := map[string]string{}
	for i := 0; i < 3000; i++ {
		src := make([]byte, size)
		for j := range src {
			src[j] = byte(c.Rng.Uint32())
		}
		switch i {
		case 0:
			src = append([]byte(nil), ones...)
		case 1:
			src = make([]byte, size)
		}
		g := &streamGen{script: [][]byte{src}, rng: rand.New(rand.NewPCG(1, 2)), limit: 100}
		v, p, _ := rrCall(g, t, nil)
		c.Eval(1)
		if p != nil {
			c.Violate(fmt.Sprintf("%s no-modulo: call fails", t.Name), p.Value, nil)
			return
		}
		r := rrBig(v)
		if r == nil || r.Sign() < 0 || r.Cmp(full) >= 0 {
			c.Violate(fmt.Sprintf("%s no-modulo: result out of range", t.Name), fmt.Sprint(r), nil)
			return
		}
		total := 0
		for _, s := range g.sizes {
			total += s
		}
		if total < size {
			c.Violate(fmt.Sprintf("%s no-modulo: reads fewer bytes than the type has", t.Name), fmt.Sprintf("reads %d bytes for a %d-byte type: cannot be uniform over the type", total, size), nil)
			return
		}
		if g.calls == 1 && g.sizes[0] == size {
			key := r.String()
			if prev, dup := seen[key]; dup && prev != fmt.Sprintf("%x", src) {
				c.Violate(fmt.Sprintf("%s no-modulo: two different sources give the same result", t.Name), fmt.Sprintf("sources %s and %x both give %s", prev, src, key), nil)
				return
			}
			seen[key] = fmt.Sprintf("%x", src)
		}
		c.Inc("wide_nomodulo_calls")
	}
}

// ---------------------------------------------------------------- zero modulo + script leg

func rrZeroAndScripts(c *core.Ctx) {
	for _, t := range rrTypes {
		// direct: zero modulo
		g := &streamGen{rng: rand.New(rand.NewPCG(3, 4)), limit: 100}
		_, p, raw := rrCall(g, t, t.Mk(big.NewInt(0)))
		c.Eval(1)
		ok := false
		if p != nil {
			if e, isErr := raw.(error); isErr {
				_, ok = e.(cerrors.UserError)
				if _, internal := e.(cerrors.InternalError); internal {
					ok = false
				}
			}
		}
		if ok {
			c.Inc("zero_modulo_user_errors")
		} else {
			c.Violate(fmt.Sprintf("%s zero modulo: not a user error (direct)", t.Name),
				fmt.Sprintf("stdlib.RevertibleRandom(%s, modulo 0): expected a panic with a user error, observed %v", t.Name, raw), map[string]any{"type": t.Name})
		}
		if len(g.sizes) > 0 {
			c.Inc("zero_modulo_reads_randomness")
		}
	}
	// scripts
	for i := 0; i < c.Pick(6, 30); i++ {
		for _, t := range rrTypes {
			// zero modulo
			if i == 0 {
				src := fmt.Sprintf("access(all) fun main(): %s {\n return revertibleRandom<%s>(modulo: 0)\n}", t.Name, t.Name)
				for _, eng := range host.AllEngines {
					h := host.New()
					out := h.RunScript(eng, src, nil, nil)
					c.Eval(1)
					if cls := host.Classify(out); cls == host.ClassUser {
						c.Inc("script_zero_modulo_user_errors")
					} else {
						c.Violate(fmt.Sprintf("%s zero modulo: script fails with class %s", t.Name, cls),
							fmt.Sprintf("engine %s: revertibleRandom<%s>(modulo: 0): class %s: %s", eng, t.Name, cls, clipStr(host.ErrText(out), 300)),
							map[string]any{"engine": eng.String(), "script": src})
					}
				}
			}
			// bounded, and the same bytes give the same result as the direct call
			ms := rrWideModuli(t, c.Rng)
			m := ms[c.Rng.IntN(len(ms))]
			withMod := c.Rng.IntN(4) != 0
			var src string
			if withMod {
				src = fmt.Sprintf("access(all) fun main(): %s {\n return revertibleRandom<%s>(modulo: %s)\n}", t.Name, t.Name, m)
			} else {
				src = fmt.Sprintf("access(all) fun main(): %s {\n return revertibleRandom<%s>()\n}", t.Name, t.Name)
			}
			s1, s2 := c.Rng.Uint64(), c.Rng.Uint64()
			dg := &streamGen{rng: rand.New(rand.NewPCG(s1, s2)), limit: 4000}
			var mv interpreter.Value
			if withMod {
				mv = t.Mk(m)
			}
			dv, dp, _ := rrCall(dg, t, mv)
			if dp != nil {
				c.Violate(fmt.Sprintf("%s: call fails", t.Name), dp.Value, nil)
				continue
			}
			want := rrBig(dv)
			for _, eng := range host.AllEngines {
				h := host.New()
				sg := &streamGen{rng: rand.New(rand.NewPCG(s1, s2)), limit: 4000}
				h.Random = sg.ReadRandom
				out := h.RunScript(eng, src, nil, nil)
				c.Eval(1)
				c.Inc("script_runs_" + eng.String())
				if host.Classify(out) != host.ClassNone {
					c.Violate(fmt.Sprintf("%s: script fails", t.Name), fmt.Sprintf("engine %s: %s", eng, clipStr(host.ErrText(out), 300)), map[string]any{"engine": eng.String(), "script": src})
					continue
				}
				got, ok := new(big.Int).SetString(out.Value.String(), 10)
				if !ok {
					c.Violate(fmt.Sprintf("%s: script result unreadable", t.Name), out.Value.String(), nil)
					continue
				}
				if withMod && got.Cmp(m) >= 0 {
					c.Violate(fmt.Sprintf("%s: script result not below modulo", t.Name), fmt.Sprintf("engine %s: %s returned %s", eng, src, got), map[string]any{"engine": eng.String(), "script": src})
				}
				if got.Cmp(want) != 0 {
					c.Violate(fmt.Sprintf("%s: script result differs from the direct call on the same random bytes", t.Name),
						fmt.Sprintf("engine %s: %s returned %s; stdlib.RevertibleRandom with the same byte stream returns %s", eng, src, got, want), map[string]any{"engine": eng.String(), "script": src})
				}
				c.Inc("script_bounded_results")
			}
			c.DistinctHash(fnv64([]byte("script"), []byte(src)))
		}
	}
	if c.WantSample() {
		c.Sample(map[string]any{"leg": "script", "example": "revertibleRandom<UInt8>(modulo: 0) -> user error on I, V, Vp"})
	}
}

// ---------------------------------------------------------------- tasks

type rrTask struct {
	Kind string // exact8 | exact16 | nomod | wide | script
	Type string
	Part int
	Of   int
}

func rrTasks(tier string) []rrTask {
	var ts []rrTask
	for _, tn := range []string{"UInt8", "Word8"} {
		for p := 0; p < 4; p++ {
			ts = append(ts, rrTask{"exact8", tn, p, 4})
		}
	}
	parts16 := 16
	if tier == "thorough" {
		parts16 = 256
	}
	for _, tn := range []string{"UInt16", "Word16"} {
		for p := 0; p < parts16; p++ {
			ts = append(ts, rrTask{"exact16", tn, p, parts16})
		}
	}
	for _, tn := range []string{"UInt8", "Word8", "UInt16", "Word16"} {
		ts = append(ts, rrTask{"nomod", tn, 0, 1})
	}
	reps := 1
	if tier == "thorough" {
		reps = 4
	}
	for r := 0; r < reps; r++ {
		for _, t := range rrTypes[4:] {
			ts = append(ts, rrTask{"wide", t.Name, r, reps})
			for mi := 0; mi < rrStatModuli; mi++ {
				ts = append(ts, rrTask{"stat", t.Name, mi, r})
			}
		}
	}
	scr := 4
	if tier == "thorough" {
		scr = 16
	}
	for p := 0; p < scr; p++ {
		ts = append(ts, rrTask{"script", "", p, scr})
	}
	return ts
}

var rr16Boundary = []uint64{257, 258, 259, 300, 383, 384, 385, 511, 512, 513, 767, 768, 1000, 1023, 1024, 1025, 2047, 2048, 2049, 4095, 4096, 4097,
	8191, 8192, 8193, 10000, 16383, 16384, 16385, 21845, 21846, 32767, 32768, 32769, 43690, 43691, 49151, 49152, 49153, 50000, 60000, 65279, 65280, 65281, 65533, 65534, 65535}

func init() {
	core.Register(&core.Prop{
		ID:    "C47",
		Level: "exploration",
		Rule: "direct calls of stdlib.RevertibleRandom with a scripted RandomGenerator. UInt8/Word8: every modulus 1..255, UInt16/Word16: every modulus <= 256 plus 47 boundary and ~465 seeded random larger moduli (quick) / every modulus 1..65535 (thorough); " +
			"for each modulus EVERY possible first draw (256 or 65536 byte strings) is served and accepted draws are counted per result; rejected draws are re-run with second draws to check memorylessness; " +
			"no-modulo calls are enumerated completely for 8/16-bit types. 32..256-bit types: boundary/random moduli with adversarial sources, and a fixed-seed 200000-draw bucket test per modulus. " +
			"Scripts on I, V, Vp: zero modulo and agreement with the direct call on the same byte stream. A case is distinct by (type, modulus[, source]) and non-trivial always",
		Assumptions: []string{
			"exactness for 8/16-bit types: P(v) = accepted_draws(v) / accepted_draws, which holds when a rejected draw has no influence on later draws; that memorylessness is itself checked (all pairs for 8-bit types, a sample of pairs for 16-bit types)",
			"for 32..256-bit types enumeration is impossible: the result bound is checked on every call and uniformity only statistically (8 buckets, 6 sigma, fixed PRNG seed) — held on samples",
			"the size of a draw is observed, not prescribed: only draws too small to reach every value below the modulus are reported; if an 8/16-bit draw exceeds 2 bytes the modulus is not enumerable and the floor on exact_moduli makes the run inconclusive",
		},
		NumCases:   func(tier string) int { return len(rrTasks(tier)) },
		Exhaustive: func(tier string) bool { return tier == "thorough" },
		Floors: map[string]int64{
			"exact_moduli":                   2*255 + 2*256 + 400,
			"exact_nomodulo_types":           4,
			"first_draws_enumerated":         30_000_000,
			"accepted_draws":                 10_000_000,
			"rejected_draws":                 1_000_000,
			"independence_checks":            1_000_000,
			"wide_adversarial_calls":         2000,
			"statistical_tests":              40,
			"wide_nomodulo_calls":            10000,
			"zero_modulo_user_errors":        12,
			"script_zero_modulo_user_errors": 36,
			"script_bounded_results":         200,
		},
		Run: func(c *core.Ctx) {
			task := rrTasks(c.Tier)[c.Case]
			switch task.Kind {
			case "exact8":
				t := rrTypeByName(task.Type)
				x := &rrExact{c: c, t: t, res: make([]uint32, 65536), acc: make([]bool, 65536), counts: make([]uint32, 65536)}
				for m := uint64(1); m <= 255; m++ {
					if int(m)%task.Of == task.Part {
						x.modulo(m, true)
						c.DistinctHash(fnv64([]byte(t.Name), []byte{byte(m), byte(m >> 8)}))
					}
				}
				if c.WantSample() {
					c.Sample(map[string]any{"leg": "exact", "type": t.Name, "moduli": fmt.Sprintf("all m in 1..255 with m %% %d == %d", task.Of, task.Part), "first_draws": "all 256 one-byte strings; every rejected draw followed by every second draw"})
				}
			case "exact16":
				t := rrTypeByName(task.Type)
				x := &rrExact{c: c, t: t, res: make([]uint32, 65536), acc: make([]bool, 65536), counts: make([]uint32, 65536)}
				var ms []uint64
				if c.Thorough() {
					for m := uint64(1); m <= 65535; m++ {
						if int(m)%task.Of == task.Part {
							ms = append(ms, m)
						}
					}
				} else {
					for m := uint64(1); m <= 256; m++ {
						if int(m)%task.Of == task.Part {
							ms = append(ms, m)
						}
					}
					for i, m := range rr16Boundary {
						if i%task.Of == task.Part {
							ms = append(ms, m)
						}
					}
					for i := 0; i < 29; i++ {
						ms = append(ms, 257+uint64(c.Rng.IntN(65535-257+1)))
					}
				}
				for _, m := range ms {
					x.modulo(m, false)
					c.DistinctHash(fnv64([]byte(t.Name), []byte{byte(m), byte(m >> 8)}))
				}
				if c.WantSample() {
					c.Sample(map[string]any{"leg": "exact", "type": t.Name, "moduli_in_case": len(ms), "first_draws": "all 65536 two-byte strings (256 one-byte strings for m <= 256)"})
				}
			case "nomod":
				t := rrTypeByName(task.Type)
				x := &rrExact{c: c, t: t}
				x.noModulo()
				c.DistinctHash(fnv64([]byte(t.Name), []byte("nomod")))
			case "wide":
				rrWide(c, rrTypeByName(task.Type))
			case "stat":
				rrStat(c, rrTypeByName(task.Type), task.Part, task.Of)
			case "script":
				rrZeroAndScripts(c)
			}
		},
	})
}
