package misc

import (
	"fmt"
	"math/rand/v2"
	"strings"
)

// Corpus of feature-rich Cadence programs for C35 (compilation determinism). Every block contributes top-level
// declarations and one `fun tN(): Int`; the generated main calls the blocks of the program. Blocks are
// parameterised by a seeded generator: identifier suffixes, numbers of fields / functions / cases / elements,
// literal values and declaration order vary, the feature set of a block does not.

type progGen struct {
	r   *rand.Rand
	sfx int
}

func (g *progGen) suffix() string {
	g.sfx++
	letters := "ABCDEFGHJKLMNPQRSTUVWXYZ"
	return fmt.Sprintf("%c%c%d", letters[g.r.IntN(len(letters))], letters[g.r.IntN(len(letters))], g.sfx)
}

func (g *progGen) n(lo, hi int) int { return lo + g.r.IntN(hi-lo+1) }

type progBlock struct {
	Name  string
	Decls string
	Call  string // expression of type Int
}

type blockFn func(g *progGen) progBlock

func intList(g *progGen, n int) string {
	var xs []string
	for i := 0; i < n; i++ {
		xs = append(xs, fmt.Sprint(g.n(0, 99)))
	}
	return strings.Join(xs, ", ")
}

func blkControl(g *progGen) progBlock {
	s := g.suffix()
	var cases strings.Builder
	nc := g.n(2, 6)
	for i := 0; i < nc; i++ {
		fmt.Fprintf(&cases, "        case %d:\n            total = total + %d\n", i, g.n(1, 50))
	}
	d := fmt.Sprintf(`
access(all) fun fib%[1]s(_ n: Int): Int {
    if n < 2 {
        return n
    }
    return fib%[1]s(n - 1) + fib%[1]s(n - 2)
}

access(all) fun ctl%[1]s(): Int {
    var total = 0
    var i = 0
    while i < %[2]d {
        i = i + 1
        if i %% 2 == 0 {
            continue
        }
        total = total + i
        if total > %[3]d {
            break
        }
    }
    for x in [%[4]s] {
        total = total + x
    }
    for idx, y in ["a", "bc", "def"] {
        total = total + idx + y.length
    }
    let add = fun(_ a: Int): Int {
        return a + total
    }
    var counter = 0
    let inc = fun(): Int {
        counter = counter + 1
        return counter
    }
    inc()
    inc()
    switch total %% %[5]d {
%[6]s        default:
            total = total + 1
    }
    let t = total > 10 ? 1 : 2
    return add(fib%[1]s(%[7]d)) + counter + t
}
`, s, g.n(3, 20), g.n(20, 200), intList(g, g.n(1, 8)), nc+1, cases.String(), g.n(3, 9))
	return progBlock{"control", d, "ctl" + s + "()"}
}

func blkStruct(g *progGen) progBlock {
	s := g.suffix()
	nf := g.n(1, 6)
	var fields, inits, sum strings.Builder
	for i := 0; i < nf; i++ {
		fmt.Fprintf(&fields, "    access(all) var f%d: Int\n", i)
		fmt.Fprintf(&inits, "        self.f%d = a + %d\n", i, g.n(0, 9))
		fmt.Fprintf(&sum, " + self.f%d", i)
	}
	d := fmt.Sprintf(`
access(all) struct P%[1]s {
    access(all) let a: Int
    access(all) var b: String
%[2]s
    init(a: Int) {
        self.a = a
        self.b = "p%[1]s"
%[3]s    }

    access(all) fun sum(): Int {
        return self.a%[4]s
    }

    access(all) view fun isBig(): Bool {
        return self.a > %[5]d
    }

    access(all) fun rename(_ n: String) {
        self.b = n
    }
}

access(all) fun str%[1]s(): Int {
    let p = P%[1]s(a: %[6]d)
    let o: P%[1]s? = p
    let n: P%[1]s? = nil
    var r = o?.a ?? 0
    r = r + (n?.sum() ?? 7)
    let any: AnyStruct = p
    if let q = any as? P%[1]s {
        r = r + q.sum()
    }
    let forced = any as! P%[1]s
    let up = p as AnyStruct
    let isP = up.isInstance(Type<P%[1]s>())
    let s = "v=\(r) b=\(p.b) big=\(p.isBig())"
    r = r + s.length + forced.a
    let dict: {String: Int} = {"x": %[7]d, "y": 2}
    r = r + (dict["x"] ?? 0) + dict.length
    var arr: [Int] = [%[8]s]
    arr.append(r)
    r = r + arr[0] + arr.length
    var copy = p
    copy.rename("other")
    if isP && copy.b != p.b {
        r = r + 1
    }
    let opt: Int?? = 5
    if let inner = opt {
        r = r + (inner ?? 0)
    }
    return r + o!.a
}
`, s, fields.String(), inits.String(), sum.String(), g.n(1, 10), g.n(1, 20), g.n(1, 9), intList(g, g.n(1, 5)))
	return progBlock{"struct", d, "str" + s + "()"}
}

func blkInterface(g *progGen) progBlock {
	s := g.suffix()
	ni := g.n(1, 4)
	var impls, elems strings.Builder
	for i := 0; i < ni; i++ {
		override := ""
		if g.r.IntN(2) == 0 {
			override = fmt.Sprintf(`
    access(all) fun scaled(_ k: Int): Int {
        return self.area() * k + %d
    }
`, i)
		}
		fmt.Fprintf(&impls, `
access(all) struct Sh%[1]s%[2]d: Shape%[1]s, Named%[1]s {
    access(all) let side: Int

    init(_ side: Int) {
        self.side = side
    }

    access(all) fun area(): Int {
        return self.side * %[3]d
    }

    access(all) view fun name(): String {
        return "sh%[2]d"
    }
%[4]s}
`, s, i, g.n(1, 5), override)
		if i > 0 {
			elems.WriteString(", ")
		}
		fmt.Fprintf(&elems, "Sh%s%d(%d)", s, i, g.n(1, 9))
	}
	// several default functions per interface: the compiler generates one delegator per inherited default function
	var helpers, helperCalls strings.Builder
	nh := g.n(2, 6)
	for i := 0; i < nh; i++ {
		fmt.Fprintf(&helpers, "\n    access(all) fun helper%d(): Int {\n        return self.area() + %d\n    }\n", i, g.n(1, 50))
		fmt.Fprintf(&helperCalls, " + sh.helper%d()", i)
	}
	d := fmt.Sprintf(`
access(all) struct interface Named%[1]s {
    access(all) view fun name(): String

    access(all) fun describe(): String {
        return "I am ".concat(self.name())
    }

    access(all) fun shout(): String {
        return self.describe().concat("!")
    }

    access(all) fun whisper(): String {
        return self.name().concat("...")
    }
}

access(all) struct interface Shape%[1]s {
    access(all) fun area(): Int {
        post {
            result >= 0: "area must not be negative"
        }
    }

    access(all) fun scaled(_ k: Int): Int {
        pre {
            k > 0: "factor must be positive"
        }
        post {
            result >= before(k): "scaled result too small"
        }
        return self.area() * k
    }
%[5]s}
%[2]s
access(all) fun ifc%[1]s(): Int {
    let shapes: [{Shape%[1]s}] = [%[3]s]
    var total = 0
    for sh in shapes {
        total = total + sh.scaled(%[4]d) + sh.area()%[6]s
        if let nm = sh as? {Named%[1]s} {
            total = total + nm.describe().length + nm.shout().length + nm.whisper().length
        }
    }
    return total
}
`, s, impls.String(), elems.String(), g.n(1, 4), helpers.String(), helperCalls.String())
	return progBlock{"interface", d, "ifc" + s + "()"}
}

func blkResource(g *progGen) progBlock {
	s := g.suffix()
	nr := g.n(1, 5)
	var adds strings.Builder
	for i := 0; i < nr; i++ {
		fmt.Fprintf(&adds, "    box.add(<- create R%s(%d))\n", s, g.n(1, 30))
	}
	d := fmt.Sprintf(`
access(all) resource R%[1]s {
    access(all) var v: Int

    init(_ v: Int) {
        self.v = v
    }

    access(all) fun bump() {
        self.v = self.v + 1
    }
}

access(all) resource Box%[1]s {
    access(all) var inner: @R%[1]s?
    access(all) var items: @[R%[1]s]
    access(all) var named: @{String: R%[1]s}

    init() {
        self.inner <- nil
        self.items <- []
        self.named <- {}
    }

    access(all) fun put(_ r: @R%[1]s) {
        let old <- self.inner <- r
        destroy old
    }

    access(all) fun add(_ r: @R%[1]s) {
        self.items.append(<-r)
    }

    access(all) fun name(_ k: String, _ r: @R%[1]s) {
        let old <- self.named[k] <- r
        destroy old
    }

    access(all) fun total(): Int {
        var t = 0
        var i = 0
        while i < self.items.length {
            t = t + self.items[i].v
            i = i + 1
        }
        if let r = &self.inner as &R%[1]s? {
            t = t + r.v
        }
        for k in self.named.keys {
            t = t + (self.named[k]?.v ?? 0)
        }
        return t
    }
}

access(all) fun res%[1]s(): Int {
    let box <- create Box%[1]s()
%[2]s    box.put(<- create R%[1]s(%[3]d))
    box.put(<- create R%[1]s(%[4]d))
    box.name("k", <- create R%[1]s(3))
    var a <- create R%[1]s(1)
    var b <- create R%[1]s(2)
    a <-> b
    a.bump()
    let ref = &a as &R%[1]s
    var t = box.total() + ref.v + b.v
    let maybe: @R%[1]s? <- create R%[1]s(9)
    if let got <- maybe {
        t = t + got.v
        destroy got
    }
    let taken <- box.items.remove(at: 0)
    t = t + taken.v
    destroy taken
    destroy a
    destroy b
    destroy box
    return t
}
`, s, adds.String(), g.n(1, 9), g.n(1, 9))
	return progBlock{"resource", d, "res" + s + "()"}
}

func blkEntitlement(g *progGen) progBlock {
	s := g.suffix()
	ne := g.n(2, 5)
	var ents, maps, funs, calls strings.Builder
	for i := 0; i < ne; i++ {
		fmt.Fprintf(&ents, "access(all) entitlement E%s%d\n", s, i)
		fmt.Fprintf(&ents, "access(all) entitlement F%s%d\n", s, i)
		fmt.Fprintf(&maps, "    E%[1]s%[2]d -> F%[1]s%[2]d\n", s, i)
		fmt.Fprintf(&funs, "    access(E%[1]s%[2]d) fun secret%[2]d(): Int {\n        return %[3]d\n    }\n", s, i, g.n(1, 99))
	}
	for i := 0; i < ne; i++ {
		fmt.Fprintf(&calls, "    let r%[2]d = &v as auth(E%[1]s%[2]d) &V%[1]s\n    t = t + r%[2]d.secret%[2]d()\n", s, i)
	}
	d := fmt.Sprintf(`
%[2]s
access(all) entitlement mapping M%[1]s {
%[3]s}

access(all) struct In%[1]s {
    access(F%[1]s0) fun deep(): Int {
        return 5
    }

    access(all) fun open(): Int {
        return 1
    }
}

access(all) struct V%[1]s {
    access(mapping M%[1]s) let inner: In%[1]s

    init() {
        self.inner = In%[1]s()
    }

%[4]s
    access(E%[1]s0 | E%[1]s1) fun either(): Int {
        return 2
    }

    access(all) fun open(): Int {
        return 1
    }
}

access(all) fun ent%[1]s(): Int {
    let v = V%[1]s()
    var t = 0
%[5]s    let both = &v as auth(E%[1]s0, E%[1]s1) &V%[1]s
    t = t + both.either() + both.inner.deep()
    let plain = both as &V%[1]s
    t = t + plain.open() + plain.inner.open()
    if let back = plain as? auth(E%[1]s0) &V%[1]s {
        t = t + back.secret0()
    }
    return t
}
`, s, ents.String(), maps.String(), funs.String(), calls.String())
	return progBlock{"entitlement", d, "ent" + s + "()"}
}

func blkEnumEvent(g *progGen) progBlock {
	s := g.suffix()
	nc := g.n(2, 7)
	var cases, sw strings.Builder
	for i := 0; i < nc; i++ {
		fmt.Fprintf(&cases, "    access(all) case c%d\n", i)
		fmt.Fprintf(&sw, "        case Color%s.c%d:\n            t = t + %d\n", s, i, g.n(1, 20))
	}
	d := fmt.Sprintf(`
access(all) enum Color%[1]s: UInt8 {
%[2]s}

access(all) fun enm%[1]s(): Int {
    var t = 0
    let c = Color%[1]s.c%[3]d
    switch c {
%[4]s        default:
            t = t + 100
    }
    t = t + Int(c.rawValue)
    if let d = Color%[1]s(rawValue: %[5]d) {
        t = t + Int(d.rawValue) + 1
    }
    if Color%[1]s(rawValue: 200) == nil {
        t = t + 3
    }
    return t
}
`, s, cases.String(), g.n(0, nc-1), sw.String(), g.n(0, nc-1))
	return progBlock{"enum", d, "enm" + s + "()"}
}

func blkAttachment(g *progGen) progBlock {
	s := g.suffix()
	d := fmt.Sprintf(`
access(all) struct Base%[1]s {
    access(all) let x: Int

    init(_ x: Int) {
        self.x = x
    }
}

access(all) attachment Att%[1]s for Base%[1]s {
    access(all) let extra: Int

    init(_ extra: Int) {
        self.extra = extra
    }

    access(all) fun hello(): Int {
        return base.x + self.extra
    }
}

access(all) resource RB%[1]s {
    access(all) let y: Int

    init() {
        self.y = %[2]d
    }
}

access(all) attachment RAtt%[1]s for RB%[1]s {
    access(all) fun twice(): Int {
        return base.y * 2
    }
}

access(all) fun att%[1]s(): Int {
    let b = Base%[1]s(%[3]d)
    let withAtt = attach Att%[1]s(%[4]d) to b
    var t = withAtt[Att%[1]s]?.hello() ?? 0
    var again = withAtt
    remove Att%[1]s from again
    if again[Att%[1]s] == nil {
        t = t + 1
    }
    let r <- attach RAtt%[1]s() to <- create RB%[1]s()
    t = t + (r[RAtt%[1]s]?.twice() ?? 0)
    destroy r
    return t
}
`, s, g.n(1, 9), g.n(1, 9), g.n(1, 9))
	return progBlock{"attachment", d, "att" + s + "()"}
}

func blkBuiltins(g *progGen) progBlock {
	s := g.suffix()
	d := fmt.Sprintf(`
access(all) fun apply%[1]s(_ f: fun(Int): Int, _ x: Int): Int {
    return f(x)
}

access(all) view fun clamp%[1]s(_ x: Int, lo: Int, hi: Int): Int {
    if x < lo {
        return lo
    }
    if x > hi {
        return hi
    }
    return x
}

access(all) fun blt%[1]s(): Int {
    let xs: [Int] = [%[2]s]
    let doubled = xs.map(fun(_ x: Int): Int {
        return x * 2
    })
    let evens = doubled.filter(view fun(_ x: Int): Bool {
        return x %% 4 == 0
    })
    var t = doubled.length + evens.length
    let words = "the quick brown fox".split(separator: " ")
    t = t + words.length + "héllo".utf8.length
    let u: UInt8 = %[3]d
    let w: Word8 = 250
    t = t + Int(u.saturatingAdd(200)) + Int(w + 10)
    t = t + Int((0x0f as UInt16) << 2) + Int((0xf0 as UInt16) >> 4) + Int((5 as UInt8) & 3) + Int((5 as UInt8) | 2) + Int((5 as UInt8) ^ 1)
    let fx: UFix64 = 1.5
    t = t + Int(fx * 2.0)
    let neg = -t
    t = t + clamp%[1]s(neg, lo: 0, hi: 10)
    t = t + apply%[1]s(fun(_ v: Int): Int {
        return v + %[4]d
    }, 1)
    let p = /public/foo%[1]s
    let sp = /storage/bar%[1]s
    t = t + p.toString().length + sp.toString().length
    let addr: Address = 0x%[5]d
    t = t + addr.toString().length
    let ty = Type<Int>()
    if ty == (1).getType() {
        t = t + 1
    }
    var k = 0
    while true {
        k = k + 1
        if k >= %[6]d {
            break
        }
    }
    let nested: [[Int]] = [[1], [2, 3]]
    t = t + nested[1][1] + k
    let d: {Int: String} = {1: "a", 2: "b"}
    for key in d.keys {
        t = t + key
    }
    let o: Int? = t > 0 ? t : nil
    return o ?? 0
}
`, s, intList(g, g.n(1, 9)), g.n(1, 99), g.n(1, 9), g.n(1, 9), g.n(1, 5))
	return progBlock{"builtins", d, "blt" + s + "()"}
}

var scriptBlocks = []blockFn{blkControl, blkStruct, blkInterface, blkResource, blkEntitlement, blkEnumEvent, blkAttachment, blkBuiltins}

var scriptBlockNames = []string{"control", "struct", "interface", "resource", "entitlement", "enum", "attachment", "builtins"}

// genContracts returns two contracts (C0 deployed at 0x1, C1 at 0x2 importing C0).
func genContracts(g *progGen) (c0, c1 string) {
	nEv := g.n(1, 3)
	var events, emits strings.Builder
	for i := 0; i < nEv; i++ {
		fmt.Fprintf(&events, "    access(all) event Ev%d(v: Int, who: String)\n", i)
		fmt.Fprintf(&emits, "        emit Ev%d(v: x + %d, who: \"c0\")\n", i, i)
	}
	nFn := g.n(1, 5)
	var fns strings.Builder
	for i := 0; i < nFn; i++ {
		fmt.Fprintf(&fns, "    access(all) fun util%d(_ x: Int): Int {\n        return x * %d + self.base\n    }\n\n", i, g.n(1, 9))
	}
	c0 = fmt.Sprintf(`
access(all) contract C0 {
    access(all) entitlement Admin
    access(all) entitlement Reader

    access(all) entitlement mapping Pass {
        Admin -> Reader
    }

%[1]s
    access(all) var base: Int
    access(all) let names: {String: Int}

    access(all) enum Kind: UInt8 {
        access(all) case small
        access(all) case large
    }

    access(all) struct interface Describable {
        access(all) view fun id(): Int

        access(all) fun describe(): String {
            pre {
                self.id() >= 0: "negative id"
            }
            return "item ".concat(self.id().toString())
        }

        access(all) fun double(): Int {
            return self.id() * 2
        }

        access(all) fun triple(): Int {
            return self.id() * 3
        }

        access(all) fun label(): String {
            return self.describe().concat("#")
        }
    }

    access(all) struct Item: Describable {
        access(all) let n: Int
        access(all) let kind: Kind

        init(_ n: Int) {
            self.n = n
            self.kind = n > %[2]d ? Kind.large : Kind.small
        }

        access(all) view fun id(): Int {
            return self.n
        }
    }

    access(all) resource interface Holder {
        access(all) view fun count(): Int
        access(Admin) fun store(_ i: Item) {
            post {
                self.count() == before(self.count()) + 1: "count must grow"
            }
        }
    }

    access(all) resource Vault: Holder {
        access(all) var items: [Item]
        access(mapping Pass) let meta: Meta

        init() {
            self.items = []
            self.meta = Meta()
        }

        access(all) view fun count(): Int {
            return self.items.length
        }

        access(Admin) fun store(_ i: Item) {
            self.items.append(i)
        }
    }

    access(all) struct Meta {
        access(Reader) fun read(): Int {
            return 11
        }
    }

    access(all) attachment Tag for Vault {
        access(all) fun label(): String {
            return "vault with ".concat(base.count().toString())
        }
    }

%[3]s    access(all) fun createVault(): @Vault {
        return <- create Vault()
    }

    access(all) fun announce(_ x: Int) {
%[4]s    }

    init() {
        self.base = %[5]d
        self.names = {"a": 1, "b": 2}
    }
}
`, events.String(), g.n(1, 9), fns.String(), emits.String(), g.n(1, 9))

	c1 = fmt.Sprintf(`
import C0 from 0x1

access(all) contract C1 {
    access(all) struct Wrapper: C0.Describable {
        access(all) let item: C0.Item

        init(_ n: Int) {
            self.item = C0.Item(n)
        }

        access(all) view fun id(): Int {
            return self.item.n + %[1]d
        }
    }

    access(all) resource Keeper {
        access(all) let vault: @C0.Vault

        init() {
            self.vault <- C0.createVault()
        }

        access(all) fun fill(_ k: Int): Int {
            let r = &self.vault as auth(C0.Admin) &C0.Vault
            var i = 0
            while i < k {
                r.store(C0.Item(i))
                i = i + 1
            }
            return r.count() + r.meta.read()
        }
    }

    access(all) fun makeKeeper(): @Keeper {
        return <- create Keeper()
    }

    access(all) fun total(_ k: Int): Int {
        let keeper <- create Keeper()
        let t = keeper.fill(k) + C0.util0(k)
        destroy keeper
        return t
    }

    init() {}
}
`, g.n(1, 9))
	return
}

// genImportingScript: a script that imports both contracts and also declares its own composites.
func genImportingScript(g *progGen, blocks []progBlock) string {
	var sb strings.Builder
	sb.WriteString("import C0 from 0x1\nimport C1 from 0x2\n")
	for _, b := range blocks {
		sb.WriteString(b.Decls)
	}
	sb.WriteString(fmt.Sprintf(`
access(all) fun main(): Int {
    var t = C1.total(%d)
    let w = C1.Wrapper(%d)
    t = t + w.describe().length + w.id()
    let d: {C0.Describable} = C0.Item(4)
    t = t + d.id() + d.double() + d.triple() + d.label().length + w.double()
    let v <- attach C0.Tag() to <- C0.createVault()
    t = t + (v[C0.Tag]?.label()?.length ?? 0)
    let admin = &v as auth(C0.Admin) &C0.Vault
    admin.store(C0.Item(1))
    t = t + admin.meta.read() + v.count()
    destroy v
    C0.announce(t)
    let k <- C1.makeKeeper()
    t = t + k.fill(2)
    destroy k
    if C0.Kind.large.rawValue == 1 {
        t = t + C0.base + (C0.names["a"] ?? 0)
    }
`, g.n(1, 5), g.n(1, 20)))
	for _, b := range blocks {
		fmt.Fprintf(&sb, "    t = t + %s\n", b.Call)
	}
	sb.WriteString("    return t\n}\n")
	return sb.String()
}

func genPlainScript(g *progGen, blocks []progBlock) string {
	var sb strings.Builder
	for _, b := range blocks {
		sb.WriteString(b.Decls)
	}
	sb.WriteString("\naccess(all) fun main(): Int {\n    var t = 0\n")
	for _, b := range blocks {
		fmt.Fprintf(&sb, "    t = t + %s\n", b.Call)
	}
	sb.WriteString("    return t\n}\n")
	return sb.String()
}

func genTransaction(g *progGen) string {
	return fmt.Sprintf(`
import C0 from 0x1
import C1 from 0x2

transaction {
    let n: Int
    let keeper: @C1.Keeper

    prepare(signer: &Account) {
        self.n = %d
        self.keeper <- C1.makeKeeper()
    }

    pre {
        self.n > 0: "n must be positive"
    }

    execute {
        let got = self.keeper.fill(self.n)
        C0.announce(got)
        destroy self.keeper
    }

    post {
        self.n < 100: "n too large"
    }
}
`, g.n(1, 6))
}

// pickBlocks chooses a seeded non-empty subset of the script blocks in seeded order.
func pickBlocks(g *progGen, all bool) []progBlock {
	idx := g.r.Perm(len(scriptBlocks))
	k := len(idx)
	if !all {
		k = 1 + g.r.IntN(len(idx))
	}
	var out []progBlock
	for _, i := range idx[:k] {
		out = append(out, scriptBlocks[i](g))
		if g.r.IntN(5) == 0 { // the same feature twice with different parameters
			out = append(out, scriptBlocks[i](g))
		}
	}
	return out
}
