package misc

import (
	"errors"
	"fmt"
	mrand "math/rand"
	"sort"
	"strings"

	"github.com/onflow/cadence/common/bimap"
	"github.com/onflow/cadence/common/intervalst"
	"github.com/onflow/cadence/common/list"
	"github.com/onflow/cadence/common/orderedmap"
	"github.com/onflow/cadence/common/persistent"

	"verif/harness/core"
)

// C51 — internal ordered collections behave like their models.
//
// Direct calls; every structure is driven by a seeded operation history with keys from a small range and
// compared, operation by operation, with a slice/map model written here.

// histLog keeps the operation log of one history for witnesses.
type histLog struct {
	ops []string
}

func (h *histLog) add(format string, a ...any) {
	h.ops = append(h.ops, fmt.Sprintf(format, a...))
}

func (h *histLog) witness(structure string, extra map[string]any) map[string]any {
	ops := h.ops
	trunc := false
	if len(ops) > 400 {
		ops = ops[len(ops)-400:]
		trunc = true
	}
	w := map[string]any{"structure": structure, "history_len": len(h.ops), "history": ops, "history_truncated_to_last_400": trunc}
	for k, v := range extra {
		w[k] = v
	}
	return w
}

func histLen(c *core.Ctx) int {
	switch c.Rng.IntN(10) {
	case 0:
		return 10 + c.Rng.IntN(20)
	case 1, 2, 3:
		return 30 + c.Rng.IntN(200)
	case 9:
		return 2000 + c.Rng.IntN(3001)
	}
	return 200 + c.Rng.IntN(1500)
}

func keyRange(c *core.Ctx) int {
	return []int{3, 4, 8, 16, 64}[c.Rng.IntN(5)]
}

// ================================================================ OrderedMap

type omEntry struct{ k, v int }

type omModel struct{ es []omEntry }

func (m *omModel) find(k int) int {
	for i, e := range m.es {
		if e.k == k {
			return i
		}
	}
	return -1
}

func (m *omModel) set(k, v int) (int, bool) {
	if i := m.find(k); i >= 0 {
		old := m.es[i].v
		m.es[i].v = v
		return old, true
	}
	m.es = append(m.es, omEntry{k, v})
	return 0, false
}

func (m *omModel) del(k int) (int, bool) {
	i := m.find(k)
	if i < 0 {
		return 0, false
	}
	old := m.es[i].v
	m.es = append(m.es[:i:i], m.es[i+1:]...)
	return old, true
}

func (m *omModel) String() string {
	var sb strings.Builder
	for i, e := range m.es {
		if i > 0 {
			sb.WriteString(" ")
		}
		fmt.Fprintf(&sb, "%d:%d", e.k, e.v)
	}
	return "[" + sb.String() + "]"
}

type intMap = orderedmap.OrderedMap[int, int]

func omDump(om *intMap) string {
	var sb strings.Builder
	first := true
	om.Foreach(func(k, v int) {
		if !first {
			sb.WriteString(" ")
		}
		first = false
		fmt.Fprintf(&sb, "%d:%d", k, v)
	})
	return "[" + sb.String() + "]"
}

// omCompare checks every read path of om against the model; returns a description of the first mismatch.
func omCompare(om *intMap, m *omModel) (string, string) {
	{
		i, same := 0, true
		om.Foreach(func(k, v int) {
			if i >= len(m.es) || m.es[i].k != k || m.es[i].v != v {
				same = false
			}
			i++
		})
		if !same || i != len(m.es) {
			return "Foreach", fmt.Sprintf("Foreach order %s, model %s", omDump(om), m.String())
		}
	}
	want := ""
	if om.Len() != len(m.es) {
		return "Len", fmt.Sprintf("Len() = %d, model %d", om.Len(), len(m.es))
	}
	// Oldest -> Next
	i := 0
	for p := om.Oldest(); p != nil; p = p.Next() {
		if i >= len(m.es) || p.Key != m.es[i].k || p.Value != m.es[i].v {
			return "Oldest/Next", fmt.Sprintf("forward walk differs at position %d (model %s)", i, m.String())
		}
		i++
		if i > len(m.es)+1 {
			break
		}
	}
	if i != len(m.es) {
		return "Oldest/Next", fmt.Sprintf("forward walk visits %d pairs, model has %d", i, len(m.es))
	}
	// Newest -> Prev
	i = len(m.es) - 1
	n := 0
	for p := om.Newest(); p != nil; p = p.Prev() {
		if i < 0 || p.Key != m.es[i].k || p.Value != m.es[i].v {
			return "Newest/Prev", fmt.Sprintf("backward walk differs at position %d (model %s)", i, m.String())
		}
		i--
		n++
		if n > len(m.es)+1 {
			break
		}
	}
	if n != len(m.es) {
		return "Newest/Prev", fmt.Sprintf("backward walk visits %d pairs, model has %d", n, len(m.es))
	}
	// ForeachWithIndex
	bad := ""
	cnt := 0
	om.ForeachWithIndex(func(idx, k, v int) {
		if idx != cnt || idx >= len(m.es) || m.es[idx].k != k || m.es[idx].v != v {
			bad = fmt.Sprintf("ForeachWithIndex: index %d key %d value %d (model %s)", idx, k, v, m.String()+want)
		}
		cnt++
	})
	if bad != "" || cnt != len(m.es) {
		return "ForeachWithIndex", bad + fmt.Sprintf(" visited %d of %d", cnt, len(m.es))
	}
	return "", ""
}

func omHistory(c *core.Ctx) {
	K := keyRange(c)
	n := histLen(c)
	h := &histLog{}
	var om *intMap
	zeroValue := c.Rng.IntN(3) == 0
	if zeroValue {
		om = &intMap{}
		h.add("om := &orderedmap.OrderedMap[int,int]{}")
	} else {
		om = orderedmap.New[intMap](c.Rng.IntN(4))
		h.add("om := orderedmap.New[OrderedMap[int,int]](_)")
	}
	m := &omModel{}
	next := 1
	lastMut := "new"
	initialised := !zeroValue // has Set ever been called (the zero value allocates lazily)
	fail := func(op, msg string) {
		state := "initialised"
		if !initialised {
			state = "never-initialised"
		}
		key := fmt.Sprintf("OrderedMap.%s differs from model (after %s)", op, lastMut)
		if !initialised {
			key = fmt.Sprintf("OrderedMap.%s differs from model on a never-initialised (zero value) map", op)
		}
		_ = state
		c.Violate(key, "OrderedMap: "+msg, h.witness("OrderedMap", map[string]any{"model": m.String(), "impl": omDump(om)}))
	}
	buildOther := func() (*intMap, *omModel) {
		var o *intMap
		switch c.Rng.IntN(4) {
		case 0:
			o = &intMap{}
		default:
			o = orderedmap.New[intMap](0)
		}
		om2 := &omModel{}
		cnt := c.Rng.IntN(K + 1)
		for i := 0; i < cnt; i++ {
			k := c.Rng.IntN(K)
			o.Set(k, next)
			om2.set(k, next)
			next++
		}
		return o, om2
	}
	for step := 0; step < n; step++ {
		c.Eval(1)
		k := c.Rng.IntN(K)
		switch op := c.Rng.IntN(100); {
		case op < 30:
			v := next
			next++
			h.add("Set(%d,%d)", k, v)
			go1, gp := om.Set(k, v)
			wo, wp := m.set(k, v)
			initialised = true
			if gp != wp || (wp && go1 != wo) {
				fail("Set", fmt.Sprintf("Set(%d,%d) returned (%d,%v), model (%d,%v)", k, v, go1, gp, wo, wp))
				return
			}
			if wp {
				c.Inc("om_reset_existing_key")
				lastMut = "Set(existing)"
			} else {
				lastMut = "Set(new)"
			}
		case op < 52:
			h.add("Delete(%d)", k)
			go1, gp := om.Delete(k)
			wo, wp := m.del(k)
			if gp != wp || (wp && go1 != wo) {
				fail("Delete", fmt.Sprintf("Delete(%d) returned (%d,%v), model (%d,%v)", k, go1, gp, wo, wp))
				return
			}
			if wp {
				c.Inc("om_delete_present")
				lastMut = "Delete(present)"
			} else {
				c.Inc("om_delete_absent")
				lastMut = "Delete(absent)"
			}
		case op < 62:
			h.add("Get(%d)", k)
			gv, gp := om.Get(k)
			i := m.find(k)
			if gp != (i >= 0) || (gp && gv != m.es[i].v) {
				fail("Get", fmt.Sprintf("Get(%d) = (%d,%v), model index %d", k, gv, gp, i))
				return
			}
			if om.Contains(k) != (i >= 0) {
				fail("Contains", fmt.Sprintf("Contains(%d) = %v", k, om.Contains(k)))
				return
			}
			p := om.GetPair(k)
			if (p != nil) != (i >= 0) || (p != nil && (p.Key != k || p.Value != m.es[i].v)) {
				fail("GetPair", fmt.Sprintf("GetPair(%d) = %v", k, p))
				return
			}
		case op < 70:
			// predicates
			thr := c.Rng.IntN(K + 1)
			mod := 1 + c.Rng.IntN(3)
			preds := []struct {
				name string
				f    func(int) bool
			}{
				{fmt.Sprintf("k<%d", thr), func(x int) bool { return x < thr }},
				{fmt.Sprintf("k%%%d==0", mod), func(x int) bool { return x%mod == 0 }},
				{"false", func(int) bool { return false }},
				{"true", func(int) bool { return true }},
			}
			pr := preds[c.Rng.IntN(len(preds))]
			wantAll, wantAny := true, false
			for _, e := range m.es {
				if pr.f(e.k) {
					wantAny = true
				} else {
					wantAll = false
				}
			}
			h.add("ForAllKeys(%s); ForAnyKey(%s)", pr.name, pr.name)
			if got := om.ForAllKeys(pr.f); got != wantAll {
				fail("ForAllKeys", fmt.Sprintf("ForAllKeys(%s) = %v, model %v (keys %s)", pr.name, got, wantAll, m.String()))
				return
			}
			if len(m.es) == 0 {
				c.Inc("om_any_on_empty")
			}
			if got := om.ForAnyKey(pr.f); got != wantAny {
				// read-only: the history goes on (state of map and model are unaffected)
				fail("ForAnyKey", fmt.Sprintf("ForAnyKey(%s) = %v, model %v (keys %s)", pr.name, got, wantAny, m.String()))
			}
		case op < 75:
			// early exit
			stop := c.Rng.IntN(len(m.es) + 2)
			sentinel := errors.New("stop")
			visited := 0
			h.add("ForeachWithError(stop at %d)", stop)
			err := om.ForeachWithError(func(k, v int) error {
				if visited == stop {
					return sentinel
				}
				if visited >= len(m.es) || m.es[visited].k != k || m.es[visited].v != v {
					return fmt.Errorf("order differs at %d", visited)
				}
				visited++
				return nil
			})
			if stop < len(m.es) {
				if err != sentinel || visited != stop {
					fail("ForeachWithError", fmt.Sprintf("stop at %d: err=%v visited=%d", stop, err, visited))
					return
				}
			} else if err != nil || visited != len(m.es) {
				fail("ForeachWithError", fmt.Sprintf("no stop: err=%v visited=%d of %d", err, visited, len(m.es)))
				return
			}
		case op < 80:
			o, mo := buildOther()
			h.add("SetAll(other=%s)", mo.String())
			om.SetAll(o)
			for _, e := range mo.es {
				m.set(e.k, e.v)
			}
			if len(mo.es) > 0 {
				initialised = true
			}
			lastMut = "SetAll"
			c.Inc("om_setall")
		case op < 88:
			o, mo := buildOther()
			h.add("KeySetIntersection/Union/IsDisjointFrom(other=%s)", mo.String())
			inter := &omModel{}
			union := &omModel{}
			disjoint := true
			for _, e := range m.es {
				union.set(e.k, e.v)
				if mo.find(e.k) >= 0 {
					inter.set(e.k, e.v)
					disjoint = false
				}
			}
			for _, e := range mo.es {
				union.set(e.k, e.v)
			}
			if got := omDump(orderedmap.KeySetIntersection(om, o)); got != inter.String() {
				fail("KeySetIntersection", fmt.Sprintf("got %s, model %s", got, inter.String()))
				return
			}
			if got := omDump(orderedmap.KeySetUnion(om, o)); got != union.String() {
				fail("KeySetUnion", fmt.Sprintf("got %s, model %s", got, union.String()))
				return
			}
			if got := om.KeySetIsDisjointFrom(o); got != disjoint {
				fail("KeySetIsDisjointFrom", fmt.Sprintf("got %v, model %v", got, disjoint))
				return
			}
			c.Inc("om_keyset_ops")
		case op < 90:
			h.add("Clear()")
			om.Clear()
			m.es = nil
			lastMut = "Clear"
			c.Inc("om_clear")
		default:
			// full comparison below
		}
		if step%8 == 7 || step == n-1 || n < 64 {
			if op, msg := omCompare(om, m); op != "" {
				fail(op, msg)
				return
			}
			c.Inc("om_full_comparisons")
		}
	}
	c.Inc("histories_orderedmap")
	c.DistinctHash(fnv64([]byte("om"), []byte(strings.Join(h.ops, ";"))))
	if c.WantSample() {
		ops := h.ops
		if len(ops) > 40 {
			ops = ops[:40]
		}
		c.Sample(map[string]any{"structure": "OrderedMap", "key_range": K, "history_len": n, "first_ops": ops, "final_model": clipStr(m.String(), 300)})
	}
}

// ================================================================ persistent.OrderedSet

type psModel struct {
	parent *psModel
	own    []int
}

func (m *psModel) contains(x int) bool {
	for s := m; s != nil; s = s.parent {
		for _, y := range s.own {
			if y == x {
				return true
			}
		}
	}
	return false
}

func (m *psModel) add(x int) {
	if !m.contains(x) {
		m.own = append(m.own, x)
	}
}

func (m *psModel) order() []int {
	var out []int
	for s := m; s != nil; s = s.parent {
		out = append(out, s.own...)
	}
	return out
}

func (m *psModel) inChain(o *psModel) bool {
	for s := m; s != nil; s = s.parent {
		if s == o {
			return true
		}
	}
	return false
}

func psHistory(c *core.Ctx) {
	K := keyRange(c)
	n := histLen(c)
	if n > 1500 {
		n = 1500
	}
	h := &histLog{}
	type pair struct {
		s *persistent.OrderedSet[int]
		m *psModel
	}
	pool := []pair{{persistent.NewOrderedSet[int](nil), &psModel{}}}
	h.add("s0 := NewOrderedSet(nil)")
	lastOp := "new"
	fail := func(op, msg string) {
		c.Violate(fmt.Sprintf("OrderedSet.%s differs from model (after %s)", op, lastOp), "persistent.OrderedSet: "+msg, h.witness("persistent.OrderedSet", nil))
	}
	collect := func(s *persistent.OrderedSet[int]) []int {
		var out []int
		_ = s.ForEach(func(x int) error { out = append(out, x); return nil })
		return out
	}
	only := -1
	checkAll := func() bool {
		for i, p := range pool {
			if only >= 0 && i != only && i != (only+1)%len(pool) {
				continue
			}
			got, want := collect(p.s), p.m.order()
			same := len(got) == len(want)
			for j := 0; same && j < len(got); j++ {
				same = got[j] == want[j]
			}
			if !same {
				fail("ForEach", fmt.Sprintf("s%d iterates %v, model %v", i, got, want))
				return false
			}
			if p.s.IsEmpty() != (len(want) == 0) {
				fail("IsEmpty", fmt.Sprintf("s%d.IsEmpty() = %v, model has %d items", i, p.s.IsEmpty(), len(want)))
				return false
			}
			for x := 0; x < K; x++ {
				if p.s.Contains(x) != p.m.contains(x) {
					fail("Contains", fmt.Sprintf("s%d.Contains(%d) = %v, model %v", i, x, p.s.Contains(x), p.m.contains(x)))
					return false
				}
			}
		}
		return true
	}
	for step := 0; step < n; step++ {
		c.Eval(1)
		i := c.Rng.IntN(len(pool))
		// bias towards the youngest sets (the checker mutates leaves)
		if c.Rng.IntN(2) == 0 {
			i = len(pool) - 1 - c.Rng.IntN(min(3, len(pool)))
		}
		x := c.Rng.IntN(K)
		switch op := c.Rng.IntN(100); {
		case op < 55:
			h.add("s%d.Add(%d)", i, x)
			if pool[i].m.contains(x) {
				c.Inc("ps_add_existing")
			}
			pool[i].s.Add(x)
			pool[i].m.add(x)
			lastOp = "Add"
		case op < 70:
			if len(pool) >= 10 {
				// drop the youngest set that is nobody's parent
				for j := len(pool) - 1; j > 0; j-- {
					isParent := false
					for _, q := range pool {
						if q.m.parent == pool[j].m {
							isParent = true
						}
					}
					if !isParent {
						h.add("drop s%d (renumbering s%d..)", j, j+1)
						pool = append(pool[:j:j], pool[j+1:]...)
						break
					}
				}
				continue
			}
			h.add("s%d := s%d.Clone()", len(pool), i)
			child := pool[i].s.Clone()
			if child.Parent != pool[i].s {
				fail("Clone", "Parent of the clone is not the cloned set")
				return
			}
			pool = append(pool, pair{child, &psModel{parent: pool[i].m}})
			c.Inc("ps_clones")
			lastOp = "Clone"
		case op < 80:
			a, b := c.Rng.IntN(len(pool)), c.Rng.IntN(len(pool))
			// the receiver must not be part of the chain that is being iterated
			if pool[a].m.inChain(pool[i].m) {
				continue
			}
			h.add("s%d.AddIntersection(s%d, s%d)", i, a, b)
			pool[i].s.AddIntersection(pool[a].s, pool[b].s)
			for _, y := range pool[a].m.order() {
				if pool[b].m.contains(y) {
					pool[i].m.add(y)
				}
			}
			c.Inc("ps_add_intersection")
			lastOp = "AddIntersection"
		case op < 88:
			// early exit
			want := pool[i].m.order()
			stop := c.Rng.IntN(len(want) + 2)
			sentinel := errors.New("stop")
			visited := 0
			h.add("s%d.ForEach(stop at %d)", i, stop)
			err := pool[i].s.ForEach(func(int) error {
				if visited == stop {
					return sentinel
				}
				visited++
				return nil
			})
			if stop < len(want) {
				if err != sentinel || visited != stop {
					fail("ForEach(early exit)", fmt.Sprintf("stop at %d: err=%v visited=%d", stop, err, visited))
					return
				}
			} else if err != nil || visited != len(want) {
				fail("ForEach(early exit)", fmt.Sprintf("err=%v visited=%d of %d", err, visited, len(want)))
				return
			}
		default:
		}
		// every set after every operation in short histories; otherwise the touched set and a neighbour,
		// and every set each 16 operations and at the end
		only = -1
		if n >= 64 && step%16 != 15 && step != n-1 && i < len(pool) {
			only = i
		}
		if !checkAll() {
			return
		}
	}
	c.Inc("histories_orderedset")
	c.DistinctHash(fnv64([]byte("ps"), []byte(strings.Join(h.ops, ";"))))
}

// ================================================================ IntervalST

type ipos int

func (p ipos) Compare(other intervalst.Position) int {
	if _, ok := other.(intervalst.MinPosition); ok {
		return 1
	}
	o := other.(ipos)
	switch {
	case p < o:
		return -1
	case p > o:
		return 1
	}
	return 0
}

type ivEntry struct{ lo, hi, v int }

func ivOf(i intervalst.Interval) (int, int) { return int(i.Min.(ipos)), int(i.Max.(ipos)) }

func ivHistory(c *core.Ctx) {
	K := []int{4, 8, 16, 40, 200}[c.Rng.IntN(5)]
	n := histLen(c)
	h := &histLog{}
	if n > 1500 {
		n = 1500
	}
	mrand.Seed(int64(c.Rng.Uint64() >> 1)) // the tree draws its rotations from the global math/rand source
	t := &intervalst.IntervalST[int]{}
	var model []ivEntry
	next := 1
	fail := func(op, msg string) {
		c.Violate("IntervalST."+op+" differs from linear-scan model", "IntervalST: "+msg, h.witness("IntervalST", map[string]any{"intervals": fmt.Sprint(model)}))
	}
	randIv := func() (int, int) {
		lo := c.Rng.IntN(K)
		var hi int
		switch c.Rng.IntN(4) {
		case 0:
			hi = lo // point interval
		case 1:
			hi = lo + c.Rng.IntN(3)
		default:
			hi = lo + c.Rng.IntN(K-lo+1)
		}
		return lo, hi
	}
	has := func(lo, hi, v int) bool {
		for _, e := range model {
			if e.lo == lo && e.hi == hi && e.v == v {
				return true
			}
		}
		return false
	}
	for step := 0; step < n; step++ {
		c.Eval(1)
		switch op := c.Rng.IntN(100); {
		case op < 40:
			lo, hi := randIv()
			if len(model) > 0 && c.Rng.IntN(5) == 0 {
				// exact duplicate of an existing interval (Put does not check)
				e := model[c.Rng.IntN(len(model))]
				lo, hi = e.lo, e.hi
				c.Inc("iv_duplicate_intervals")
			}
			v := next
			next++
			h.add("Put([%d,%d], %d)", lo, hi, v)
			for _, e := range model {
				if e.lo <= hi && lo <= e.hi && !(e.lo == lo && e.hi == hi) {
					c.Inc("iv_overlapping_puts")
					break
				}
			}
			t.Put(intervalst.NewInterval(ipos(lo), ipos(hi)), v)
			model = append(model, ivEntry{lo, hi, v})
		case op < 55:
			p := c.Rng.IntN(K+2) - 1
			h.add("Search(%d)", p)
			iv, v, ok := t.Search(ipos(p))
			want := false
			for _, e := range model {
				if e.lo <= p && p <= e.hi {
					want = true
				}
			}
			if ok != want {
				fail("Search", fmt.Sprintf("Search(%d) present=%v, model %v", p, ok, want))
				return
			}
			if ok {
				lo, hi := ivOf(*iv)
				if !(lo <= p && p <= hi) || !has(lo, hi, v) {
					fail("Search", fmt.Sprintf("Search(%d) returned [%d,%d]=%d which is not a stored interval containing the point", p, lo, hi, v))
					return
				}
				c.Inc("iv_search_hits")
			} else {
				c.Inc("iv_search_misses")
			}
		case op < 68:
			lo, hi := randIv()
			if c.Rng.IntN(3) == 0 {
				lo -= 2
				hi = lo + c.Rng.IntN(3)
			}
			h.add("SearchInterval([%d,%d])", lo, hi)
			iv, v, ok := t.SearchInterval(intervalst.NewInterval(ipos(lo), ipos(hi)))
			want := false
			for _, e := range model {
				if e.lo <= hi && lo <= e.hi {
					want = true
				}
			}
			if ok != want {
				fail("SearchInterval", fmt.Sprintf("SearchInterval([%d,%d]) present=%v, model %v", lo, hi, ok, want))
				return
			}
			if ok {
				l2, h2 := ivOf(*iv)
				if !(l2 <= hi && lo <= h2) || !has(l2, h2, v) {
					fail("SearchInterval", fmt.Sprintf("SearchInterval([%d,%d]) returned [%d,%d]=%d: not a stored intersecting interval", lo, hi, l2, h2, v))
					return
				}
			}
		case op < 82:
			p := c.Rng.IntN(K+2) - 1
			h.add("SearchAll(%d)", p)
			got := t.SearchAll(ipos(p))
			var gs, ws []string
			for _, e := range got {
				lo, hi := ivOf(e.Interval)
				gs = append(gs, fmt.Sprintf("[%d,%d]=%d", lo, hi, e.Value))
			}
			for _, e := range model {
				if e.lo <= p && p <= e.hi {
					ws = append(ws, fmt.Sprintf("[%d,%d]=%d", e.lo, e.hi, e.v))
				}
			}
			sort.Strings(gs)
			sort.Strings(ws)
			if strings.Join(gs, " ") != strings.Join(ws, " ") {
				fail("SearchAll", fmt.Sprintf("SearchAll(%d) = {%s}, model {%s}", p, strings.Join(gs, " "), strings.Join(ws, " ")))
				return
			}
			c.Inc("iv_searchall")
		case op < 98:
			lo, hi := randIv()
			if len(model) > 0 && c.Rng.IntN(2) == 0 {
				e := model[c.Rng.IntN(len(model))]
				lo, hi = e.lo, e.hi
			}
			h.add("Get([%d,%d])", lo, hi)
			v, ok := t.Get(intervalst.NewInterval(ipos(lo), ipos(hi)))
			want := false
			for _, e := range model {
				if e.lo == lo && e.hi == hi {
					want = true
				}
			}
			if ok != want || (ok && !has(lo, hi, v)) {
				fail("Get", fmt.Sprintf("Get([%d,%d]) = (%d,%v), model present=%v", lo, hi, v, ok, want))
				return
			}
			if t.Contains(intervalst.NewInterval(ipos(lo), ipos(hi))) != want {
				fail("Contains", fmt.Sprintf("Contains([%d,%d]) != %v", lo, hi, want))
				return
			}
		default:
			h.add("Values()")
			got := append([]int(nil), t.Values()...)
			sort.Ints(got)
			if len(got) != len(model) {
				fail("Values", fmt.Sprintf("Values() has %d values, model %d", len(got), len(model)))
				return
			}
			for i, v := range got {
				if v != i+1 { // values are 1..len(model)
					fail("Values", fmt.Sprintf("Values() = %v", got))
					return
				}
			}
		}
		if step%64 == 63 || step == n-1 {
			c.Inc("iv_invariant_checks")
			if !t.VerifCheck() {
				c.Violate("IntervalST invariant hook (size / max-endpoint augmentation) fails", "IntervalST.VerifCheck() = false", h.witness("IntervalST", nil))
				return
			}
		}
	}
	c.Inc("histories_intervalst")
	c.DistinctHash(fnv64([]byte("iv"), []byte(strings.Join(h.ops, ";"))))
	if c.WantSample() {
		ops := h.ops
		if len(ops) > 30 {
			ops = ops[:30]
		}
		c.Sample(map[string]any{"structure": "IntervalST", "position_range": K, "history_len": n, "first_ops": ops})
	}
}

// ================================================================ BiMap

func bmHistory(c *core.Ctx) {
	K := keyRange(c)
	n := histLen(c)
	h := &histLog{}
	b := bimap.NewBiMap[int, int]()
	fwd := map[int]int{}
	bwd := map[int]int{}
	lastOp := "new"
	fail := func(op, msg string) {
		c.Violate(fmt.Sprintf("BiMap.%s differs from model (after %s)", op, lastOp), "BiMap: "+msg, h.witness("BiMap", map[string]any{"forward": fmt.Sprint(fwd), "backward": fmt.Sprint(bwd)}))
	}
	for step := 0; step < n; step++ {
		c.Eval(1)
		k, v := c.Rng.IntN(K), 100+c.Rng.IntN(K)
		switch op := c.Rng.IntN(100); {
		case op < 50:
			h.add("Insert(%d,%d)", k, v)
			b.Insert(k, v)
			oldV, kHad := fwd[k]
			oldK, vHad := bwd[v]
			if kHad {
				delete(bwd, oldV)
			}
			if vHad {
				delete(fwd, oldK)
			}
			fwd[k] = v
			bwd[v] = k
			switch {
			case kHad && vHad && oldV != v:
				c.Inc("bm_insert_both_taken")
				lastOp = "Insert(key and value taken)"
			case kHad:
				c.Inc("bm_insert_key_taken")
				lastOp = "Insert(key taken)"
			case vHad:
				c.Inc("bm_insert_value_taken")
				lastOp = "Insert(value taken)"
			default:
				lastOp = "Insert(fresh)"
			}
		case op < 70:
			h.add("Delete(%d)", k)
			b.Delete(k)
			if ov, ok := fwd[k]; ok {
				delete(fwd, k)
				delete(bwd, ov)
				c.Inc("bm_delete_present")
				lastOp = "Delete(present)"
			} else {
				lastOp = "Delete(absent)"
			}
		case op < 90:
			h.add("DeleteInverse(%d)", v)
			b.DeleteInverse(v)
			if ok2, ok := bwd[v]; ok {
				delete(bwd, v)
				delete(fwd, ok2)
				c.Inc("bm_deleteinverse_present")
				lastOp = "DeleteInverse(present)"
			} else {
				lastOp = "DeleteInverse(absent)"
			}
		default:
		}
		// complete read-back
		if b.Size() != len(fwd) || len(fwd) != len(bwd) {
			fail("Size", fmt.Sprintf("Size() = %d, model %d/%d", b.Size(), len(fwd), len(bwd)))
			return
		}
		for x := 0; x < K; x++ {
			gv, ok := b.Get(x)
			wv, wok := fwd[x]
			if ok != wok || (ok && gv != wv) || b.Exists(x) != wok {
				fail("Get", fmt.Sprintf("Get(%d) = (%d,%v), Exists = %v, model (%d,%v)", x, gv, ok, b.Exists(x), wv, wok))
				return
			}
			gk, ok := b.GetInverse(100 + x)
			wk, wok := bwd[100+x]
			if ok != wok || (ok && gk != wk) || b.ExistsInverse(100+x) != wok {
				fail("GetInverse", fmt.Sprintf("GetInverse(%d) = (%d,%v), ExistsInverse = %v, model (%d,%v)", 100+x, gk, ok, b.ExistsInverse(100+x), wk, wok))
				return
			}
		}
	}
	c.Inc("histories_bimap")
	c.DistinctHash(fnv64([]byte("bm"), []byte(strings.Join(h.ops, ";"))))
}

// ================================================================ list.List

func llHistory(c *core.Ctx) {
	n := histLen(c)
	if n > 1500 {
		n = 1500
	}
	h := &histLog{}
	type handle struct {
		e     *list.Element[int]
		alive bool
		id    int
	}
	var l *list.List[int]
	if c.Rng.IntN(2) == 0 {
		l = list.New[int]()
		h.add("l := list.New()")
	} else {
		l = &list.List[int]{}
		h.add("l := &list.List{}")
	}
	var handles []*handle
	var order []*handle // model
	next := 1
	lastOp := "new"
	fail := func(op, msg string) {
		var ms []int
		for _, x := range order {
			ms = append(ms, x.e.Value)
		}
		c.Violate(fmt.Sprintf("List.%s differs from slice model (after %s)", op, lastOp), "list.List: "+msg, h.witness("list.List", map[string]any{"model": fmt.Sprint(ms)}))
	}
	idx := func(x *handle) int {
		for i, y := range order {
			if y == x {
				return i
			}
		}
		return -1
	}
	removeAt := func(i int) { order = append(order[:i:i], order[i+1:]...) }
	insertAt := func(i int, x *handle) {
		order = append(order, nil)
		copy(order[i+1:], order[i:])
		order[i] = x
	}
	newH := func(e *list.Element[int]) *handle {
		x := &handle{e: e, alive: true, id: len(handles)}
		handles = append(handles, x)
		return x
	}
	pick := func() *handle {
		if len(handles) == 0 {
			return nil
		}
		if len(order) > 0 && c.Rng.IntN(4) != 0 {
			return order[c.Rng.IntN(len(order))]
		}
		return handles[c.Rng.IntN(len(handles))] // possibly removed
	}
	foreign := list.New[int]()
	foreignEl := foreign.PushBack(-1)
	for step := 0; step < n; step++ {
		c.Eval(1)
		switch op := c.Rng.IntN(100); {
		case op < 12:
			v := next
			next++
			h.add("PushBack(%d)", v)
			order = append(order, newH(l.PushBack(v)))
			lastOp = "PushBack"
		case op < 22:
			v := next
			next++
			h.add("PushFront(%d)", v)
			insertAt(0, newH(l.PushFront(v)))
			lastOp = "PushFront"
		case op < 34:
			mk := pick()
			if mk == nil {
				continue
			}
			v := next
			next++
			before := c.Rng.IntN(2) == 0
			h.add("Insert(before=%v)(%d, mark=#%d alive=%v)", before, v, mk.id, mk.alive)
			var e *list.Element[int]
			if before {
				e = l.InsertBefore(v, mk.e)
			} else {
				e = l.InsertAfter(v, mk.e)
			}
			if !mk.alive {
				if e != nil {
					fail("Insert", "insert relative to a removed element returned an element")
					return
				}
				c.Inc("ll_insert_removed_mark")
				continue
			}
			if e == nil {
				fail("Insert", "insert relative to a live element returned nil")
				return
			}
			i := idx(mk)
			if !before {
				i++
			}
			insertAt(i, newH(e))
			lastOp = "Insert"
		case op < 48:
			x := pick()
			if x == nil {
				continue
			}
			h.add("Remove(#%d alive=%v)", x.id, x.alive)
			got := l.Remove(x.e)
			if got != x.e.Value {
				fail("Remove", "wrong value returned")
				return
			}
			if x.alive {
				removeAt(idx(x))
				x.alive = false
				c.Inc("ll_remove_live")
			} else {
				c.Inc("ll_remove_removed")
			}
			lastOp = "Remove"
		case op < 70:
			x, mk := pick(), pick()
			if x == nil || mk == nil {
				continue
			}
			kind := c.Rng.IntN(4)
			names := []string{"MoveToFront", "MoveToBack", "MoveBefore", "MoveAfter"}
			h.add("%s(#%d alive=%v, mark=#%d alive=%v)", names[kind], x.id, x.alive, mk.id, mk.alive)
			switch kind {
			case 0:
				l.MoveToFront(x.e)
				if x.alive {
					removeAt(idx(x))
					insertAt(0, x)
				}
			case 1:
				l.MoveToBack(x.e)
				if x.alive {
					removeAt(idx(x))
					order = append(order, x)
				}
			case 2:
				l.MoveBefore(x.e, mk.e)
				if x.alive && mk.alive && x != mk {
					removeAt(idx(x))
					insertAt(idx(mk), x)
				}
			case 3:
				l.MoveAfter(x.e, mk.e)
				if x.alive && mk.alive && x != mk {
					removeAt(idx(x))
					insertAt(idx(mk)+1, x)
				}
			}
			lastOp = names[kind]
			c.Inc("ll_moves")
		case op < 74:
			h.add("Insert/Move relative to an element of another list")
			if l.InsertBefore(0, foreignEl) != nil || l.InsertAfter(0, foreignEl) != nil {
				fail("Insert", "insert relative to a foreign element returned an element")
				return
			}
			if x := pick(); x != nil {
				l.MoveBefore(x.e, foreignEl)
				l.MoveAfter(foreignEl, x.e)
			}
			l.MoveToFront(foreignEl)
			if foreign.Len() != 1 || foreign.Front() != foreignEl {
				fail("Move", "a foreign list was modified")
				return
			}
		case op < 80:
			o := list.New[int]()
			cnt := c.Rng.IntN(4)
			var vals []int
			for i := 0; i < cnt; i++ {
				vals = append(vals, next)
				o.PushBack(next)
				next++
			}
			front := c.Rng.IntN(2) == 0
			self := c.Rng.IntN(6) == 0
			if self {
				vals = nil
				for _, x := range order {
					vals = append(vals, x.e.Value)
				}
				o = l
			}
			h.add("PushList(front=%v, self=%v, %v)", front, self, vals)
			if front {
				l.PushFrontList(o)
			} else {
				l.PushBackList(o)
			}
			// re-discover the new elements
			var hs []*handle
			if front {
				e := l.Front()
				for range vals {
					hs = append(hs, newH(e))
					e = e.Next()
				}
				order = append(hs, order...)
			} else {
				e := l.Back()
				for range vals {
					hs = append([]*handle{newH(e)}, hs...)
					e = e.Prev()
				}
				order = append(order, hs...)
			}
			for i, x := range hs {
				if x.e == nil || x.e.Value != vals[i] {
					fail("PushList", fmt.Sprintf("pushed values differ: want %v", vals))
					return
				}
			}
			lastOp = "PushList"
		case op < 82:
			h.add("Init()")
			l.Init()
			for _, x := range order {
				x.alive = false
				// container/list semantics: elements of a re-initialised list still point to it; exclude them from later use
			}
			handles = nil
			order = nil
			lastOp = "Init"
		default:
		}
		// read-back: forward, backward, Len, Front, Back
		if l.Len() != len(order) {
			fail("Len", fmt.Sprintf("Len() = %d, model %d", l.Len(), len(order)))
			return
		}
		i := 0
		for e := l.Front(); e != nil; e = e.Next() {
			if i >= len(order) || order[i].e != e {
				fail("Front/Next", fmt.Sprintf("forward walk differs at %d", i))
				return
			}
			i++
		}
		if i != len(order) {
			fail("Front/Next", fmt.Sprintf("forward walk visits %d of %d", i, len(order)))
			return
		}
		i = len(order) - 1
		for e := l.Back(); e != nil; e = e.Prev() {
			if i < 0 || order[i].e != e {
				fail("Back/Prev", fmt.Sprintf("backward walk differs at %d", i))
				return
			}
			i--
		}
		if i != -1 {
			fail("Back/Prev", "backward walk too short")
			return
		}
	}
	c.Inc("histories_list")
	c.DistinctHash(fnv64([]byte("ll"), []byte(strings.Join(h.ops, ";"))))
}

// ================================================================ registration

func init() {
	core.Register(&core.Prop{
		ID:    "C51",
		Level: "exploration",
		Rule: "seeded operation histories (10..5000 operations, keys/positions from ranges of 3..200 so that re-insertion, deletion of present and absent keys, duplicate and overlapping intervals are frequent) " +
			"against orderedmap.OrderedMap (zero value and New), persistent.OrderedSet (clone trees), intervalst.IntervalST, bimap.BiMap and list.List; every operation's result and a complete read-back " +
			"(iteration in both directions, lookups over the whole key range) are compared with slice/map models; IntervalST.VerifCheck() every 64 operations and at the end. A history is distinct by its operation log; non-trivial always (>= 10 operations)",
		Assumptions: []string{
			"models: slice of pairs in insertion order (OrderedMap; re-Set keeps the position, Delete+Set moves to the end), chain of slices child-first (OrderedSet, as its unit test fixes the order), linear scan (IntervalST; Search/SearchInterval/Get may return any matching entry), two Go maps kept bijective (BiMap), slice of element handles (List)",
			"the any-quantifier over an empty key set is false, the all-quantifier true",
			"IntervalST draws rotations from the global math/rand source; it is re-seeded per history so that a replay is deterministic",
			"OrderedSet.AddIntersection is never called with a receiver that belongs to the chain being iterated",
		},
		NumCases: func(tier string) int {
			if tier == "thorough" {
				return 800
			}
			return 80
		},
		Floors: map[string]int64{
			"histories_orderedmap":    150,
			"histories_orderedset":    150,
			"histories_intervalst":    150,
			"histories_bimap":         150,
			"histories_list":          150,
			"om_reset_existing_key":   2000,
			"om_delete_present":       2000,
			"om_delete_absent":        1000,
			"om_full_comparisons":     5000,
			"om_keyset_ops":           500,
			"om_setall":               300,
			"om_any_on_empty":         50,
			"ps_clones":               500,
			"ps_add_existing":         2000,
			"ps_add_intersection":     500,
			"iv_duplicate_intervals":  1000,
			"iv_overlapping_puts":     5000,
			"iv_search_hits":          2000,
			"iv_search_misses":        200,
			"iv_searchall":            2000,
			"iv_invariant_checks":     1000,
			"bm_insert_key_taken":     1000,
			"bm_insert_value_taken":   1000,
			"bm_insert_both_taken":    500,
			"bm_delete_present":       1000,
			"bm_deleteinverse_present": 1000,
			"ll_moves":                2000,
			"ll_remove_live":          1000,
			"ll_remove_removed":       100,
			"ll_insert_removed_mark":  100,
		},
		Run: func(c *core.Ctx) {
			per := c.Pick(10, 50)
			for i := 0; i < per; i++ {
				omHistory(c)
				psHistory(c)
				ivHistory(c)
				bmHistory(c)
				llHistory(c)
			}
		},
	})
}
