package misc

import (
	"fmt"
	"regexp"
	"runtime/debug"
	"strings"
)

// panicInfo describes a Go panic recovered around a direct call into the code under test.
type panicInfo struct {
	Value string // fmt.Sprint of the panic value
	Kind  string // normalised kind: digits stripped ("runtime error: slice bounds out of range [:#]")
	Site  string // first frame inside github.com/onflow/cadence
	Stack string
}

var digitsRe = regexp.MustCompile(`-?[0-9]+`)

// guard runs f and reports a recovered panic (nil when f returned normally).
func guard(f func()) (p *panicInfo) {
	defer func() {
		if r := recover(); r != nil {
			st := string(debug.Stack())
			val := fmt.Sprint(r)
			if e, ok := r.(error); ok {
				val = e.Error()
			}
			p = &panicInfo{
				Value: val,
				Kind:  digitsRe.ReplaceAllString(val, "#"),
				Site:  cadenceFrame(st),
				Stack: clipStr(st, 4000),
			}
		}
	}()
	f()
	return nil
}

// cadenceFrame returns the first stack frame that lies in the code under test.
func cadenceFrame(stack string) string {
	for _, l := range strings.Split(stack, "\n") {
		l = strings.TrimSpace(l)
		if strings.HasPrefix(l, "github.com/onflow/cadence") {
			if i := strings.LastIndex(l, "("); i > 0 {
				l = l[:i]
			}
			// drop generic instantiation noise
			l = strings.ReplaceAll(l, "[...]", "")
			return l
		}
	}
	return "unknown"
}

func clipStr(s string, n int) string {
	if len(s) > n {
		return s[:n] + "…"
	}
	return s
}

func hexBytes(b []byte) string {
	const maxShown = 96
	if len(b) <= maxShown {
		return fmt.Sprintf("%x", b)
	}
	return fmt.Sprintf("%x…(%d bytes)", b[:maxShown], len(b))
}

func fnv64(parts ...[]byte) uint64 {
	h := uint64(14695981039346656037)
	for _, p := range parts {
		for _, x := range p {
			h ^= uint64(x)
			h *= 1099511628211
		}
		h ^= 0xff
		h *= 1099511628211
	}
	return h
}
