package misc

import (
	"crypto/sha256"
	"encoding/hex"
	"fmt"
	"math"
	"math/rand/v2"
	"reflect"
	"sort"
	"strings"
	"unsafe"

	"github.com/onflow/cadence/bbq"
	"github.com/onflow/cadence/bbq/leb128"
	"github.com/onflow/cadence/bbq/opcode"
	"github.com/onflow/cadence/common"
	"github.com/onflow/cadence/runtime"

	"verif/harness/core"
	"verif/harness/host"
)

// C35 — compilation is deterministic; instruction and LEB128 encodings round-trip.
//
// (1) Programs of the corpus (c35_corpus.go) are compiled by the runtime itself (scripts / transactions on the VM
//     environments, with and without peephole optimisation); the compiled *bbq.InstructionProgram is read out of the
//     program cache the runtime hands to the host and rendered to a canonical dump. The dump must be identical for
//     5 compilations in one process and across 3 separate processes (every case of this check is a fresh process;
//     hashes are compared by the parent in Finalize).
// (2) Every instruction of every compiled program: Encode -> DecodeInstruction == original, consumed == encoded length.
// (3) Randomly built instructions of every opcode (reflection over the instruction structs): same round trip, singly and
//     as streams through DecodeInstructions.
// (4) LEB128: Append*/Read* round trips at all byte-length boundaries, extremes and random values.

// ---------------------------------------------------------------- reading the compiled program

func compiledProgramOf(p *runtime.Program) *bbq.InstructionProgram {
	if p == nil {
		return nil
	}
	v := reflect.ValueOf(p).Elem().FieldByName("compiledProgram")
	if !v.IsValid() {
		return nil
	}
	v = reflect.NewAt(v.Type(), unsafe.Pointer(v.UnsafeAddr())).Elem()
	if v.IsNil() {
		return nil
	}
	f := v.Elem().FieldByName("program")
	if !f.IsValid() {
		return nil
	}
	f = reflect.NewAt(f.Type(), unsafe.Pointer(f.UnsafeAddr())).Elem()
	prog, _ := f.Interface().(*bbq.InstructionProgram)
	return prog
}

func locString(l common.Location) string {
	if l == nil {
		return "<nil>"
	}
	return fmt.Sprintf("%T:%s", l, l.ID())
}

// dumpProgram renders everything the statement lists: function order and bodies, constants, type table, imports,
// contracts, globals, variables, per-function metadata and line tables.
func dumpProgram(p *bbq.InstructionProgram) (out string, printerPanic *panicInfo) {
	var sb strings.Builder
	printerPanic = guard(func() {
		sb.WriteString(bbq.NewInstructionsProgramPrinter(false, false, false).PrintProgram(p))
	})
	sb.WriteString("-- Contracts --\n")
	for i, c := range p.Contracts {
		fmt.Fprintf(&sb, "%d | %s | %s\n", i, c.Name, locString(c.Location))
	}
	sb.WriteString("-- Imports (raw) --\n")
	for i, im := range p.Imports {
		fmt.Fprintf(&sb, "%d | %s | %s\n", i, im.Name, locString(im.Location))
	}
	sb.WriteString("-- Globals --\n")
	for i, g := range p.Globals {
		gi := g.GetGlobalInfo()
		kind := reflect.TypeOf(g).String()
		if j := strings.Index(kind, "["); j > 0 {
			kind = kind[:j]
		}
		fmt.Fprintf(&sb, "%d | %s | %s | %s | %s | %d\n", i, kind, gi.Name, gi.QualifiedName, locString(gi.Location), gi.Index)
	}
	sb.WriteString("-- Variables --\n")
	for i, v := range p.Variables {
		fmt.Fprintf(&sb, "%d | %s | getter=%v\n", i, v.Name, v.Getter != nil)
	}
	sb.WriteString("-- Function table --\n")
	dumpFn := func(i int, f *bbq.Function[opcode.Instruction]) {
		fmt.Fprintf(&sb, "%d | %q | %q | params=%d typeParams=%d locals=%d type=%d code=%d native=%v\n",
			i, f.Name, f.QualifiedName, f.ParameterCount, f.TypeParameterCount, f.LocalCount, f.TypeIndex, len(f.Code), f.Code == nil)
		for _, pi := range f.LineNumbers.Positions {
			fmt.Fprintf(&sb, "    @%d %d:%d-%d:%d\n", pi.InstructionIndex, pi.Position.StartPos.Line, pi.Position.StartPos.Column, pi.Position.EndPos.Line, pi.Position.EndPos.Column)
		}
	}
	for i := range p.Functions {
		dumpFn(i, &p.Functions[i])
	}
	for i, v := range p.Variables {
		if v.Getter != nil {
			dumpFn(-1-i, v.Getter)
		}
	}
	sb.WriteString("-- Types (raw) --\n")
	for i, t := range p.Types {
		if t == nil {
			fmt.Fprintf(&sb, "%d | <nil>\n", i)
			continue
		}
		fmt.Fprintf(&sb, "%d | %s\n", i, t.ID())
	}
	sb.WriteString("-- Constants (raw) --\n")
	for i, k := range p.Constants {
		fmt.Fprintf(&sb, "%d | %s | %s\n", i, k.Kind, k.String())
	}
	return sb.String(), printerPanic
}

func hash16(s string) string {
	h := sha256.Sum256([]byte(s))
	return hex.EncodeToString(h[:8])
}

// firstDifference locates the first differing line of two dumps and the section header above it.
func firstDifference(a, b string) (section, la, lb string) {
	al, bl := strings.Split(a, "\n"), strings.Split(b, "\n")
	section = "?"
	for i := 0; i < len(al) || i < len(bl); i++ {
		var x, y string
		if i < len(al) {
			x = al[i]
		}
		if i < len(bl) {
			y = bl[i]
		}
		if strings.HasPrefix(x, "-- ") && x == y {
			section = x
		}
		if x != y {
			return section, x, y
		}
	}
	return section, "", ""
}

// sectionClass removes program-specific names from a section header ("-- ctlAB3 --" -> "function body").
func sectionClass(section string) string {
	switch section {
	case "-- Imports --", "-- Constant Pool --", "-- Type Pool --", "-- Contracts --", "-- Imports (raw) --", "-- Globals --",
		"-- Variables --", "-- Function table --", "-- Types (raw) --", "-- Constants (raw) --":
		return strings.Trim(section, "- ")
	}
	return "function body"
}

// ---------------------------------------------------------------- corpus programs

type c35Program struct {
	Kind      string // plain | importing | transaction
	Contracts [2]string
	Source    string
	Features  string
}

func c35Gen(seed int64, tier string, chunk, idx int) c35Program {
	g := &progGen{r: core.CaseRng(seed, "C35-corpus", tier, chunk*1000+idx)}
	var p c35Program
	switch idx % 3 {
	case 0:
		blocks := pickBlocks(g, idx%6 == 0)
		p.Kind = "plain"
		p.Source = genPlainScript(g, blocks)
		p.Features = blockNames(blocks)
	case 1:
		p.Kind = "importing"
		p.Contracts[0], p.Contracts[1] = genContracts(g)
		blocks := pickBlocks(g, false)
		if len(blocks) > 3 {
			blocks = blocks[:3]
		}
		p.Source = genImportingScript(g, blocks)
		p.Features = "contracts+" + blockNames(blocks)
	default:
		p.Kind = "transaction"
		p.Contracts[0], p.Contracts[1] = genContracts(g)
		p.Source = genTransaction(g)
		p.Features = "contracts+transaction"
	}
	return p
}

func blockNames(bs []progBlock) string {
	seen := map[string]bool{}
	var ns []string
	for _, b := range bs {
		if !seen[b.Name] {
			seen[b.Name] = true
			ns = append(ns, b.Name)
		}
	}
	sort.Strings(ns)
	return strings.Join(ns, ",")
}

// compileOnce runs the program on a fresh host/runtime/environment and returns the dump of every program the runtime compiled.
func compileOnce(eng host.Engine, p c35Program) (dump string, progs []*bbq.InstructionProgram, out host.Outcome, pp *panicInfo) {
	h := host.New()
	if p.Kind != "plain" {
		if o := h.Deploy(eng, host.Addr(1), "C0", p.Contracts[0]); o.Err != nil || o.Escaped != nil {
			return "", nil, o, nil
		}
		if o := h.Deploy(eng, host.Addr(2), "C1", p.Contracts[1]); o.Err != nil || o.Escaped != nil {
			return "", nil, o, nil
		}
	}
	if p.Kind == "transaction" {
		out = h.RunTx(eng, p.Source, nil, []common.Address{host.Addr(3)}, nil)
	} else {
		out = h.RunScript(eng, p.Source, nil, nil)
	}
	type entry struct {
		loc  string
		prog *bbq.InstructionProgram
	}
	var es []entry
	for loc, rp := range h.Programs {
		if cp := compiledProgramOf(rp); cp != nil {
			es = append(es, entry{locString(loc), cp})
		}
	}
	sort.Slice(es, func(i, j int) bool { return es[i].loc < es[j].loc })
	var sb strings.Builder
	for _, e := range es {
		fmt.Fprintf(&sb, "==================== %s\n", e.loc)
		d, ppanic := dumpProgram(e.prog)
		if ppanic != nil && pp == nil {
			pp = ppanic
		}
		sb.WriteString(d)
		progs = append(progs, e.prog)
	}
	return sb.String(), progs, out, pp
}

const c35ProgramsPerChunk = 6

func c35Chunks(tier string) int {
	if tier == "thorough" {
		return 60
	}
	return 5
}

const c35Replicas = 3

func c35ProgramCase(c *core.Ctx, chunk, replica int) {
	var hashes []string
	for idx := 0; idx < c35ProgramsPerChunk; idx++ {
		p := c35Gen(c.Seed, c.Tier, chunk, idx)
		c.Distinct(p.Source + p.Contracts[0])
		for _, eng := range []host.Engine{host.EngV, host.EngVp} {
			reps := 1
			if replica == 0 {
				reps = 5
			}
			var first string
			for rep := 0; rep < reps; rep++ {
				dump, progs, out, pp := compileOnce(eng, p)
				c.Eval(1)
				if out.Err != nil || out.Escaped != nil {
					// a corpus program that does not run is a harness problem, not a finding of this property
					c.Inc("corpus_program_failed")
					c.Note(fmt.Sprintf("corpus-failure|%s|%s", p.Kind, eng), clipStr(host.ErrText(out), 600))
				} else {
					c.Inc("program_runs_ok")
				}
				if pp != nil {
					c.Violate("program printer panics on a compiled program ["+pp.Kind+"]", "bbq.ProgramPrinter.PrintProgram panicked: "+pp.Value,
						map[string]any{"engine": eng.String(), "program": p.Source, "contracts": p.Contracts, "stack": pp.Stack})
				}
				if len(progs) == 0 {
					c.Inc("no_compiled_program_found")
					continue
				}
				c.Count("compiled_programs_dumped", int64(len(progs)))
				if rep == 0 {
					first = dump
					hashes = append(hashes, hash16(dump))
					if replica == 0 {
						for _, cp := range progs {
							c35RoundTripProgram(c, cp, eng)
						}
						if idx == 0 && eng == host.EngV && c.WantSample() {
							c.Sample(map[string]any{"leg": "determinism", "kind": p.Kind, "features": p.Features, "source_head": clipStr(p.Source, 500), "dump_hash": hash16(dump), "dump_bytes": len(dump)})
						}
					}
					continue
				}
				c.Inc("same_process_recompilations")
				if dump != first {
					sec, la, lb := firstDifference(first, dump)
					c.Violate(fmt.Sprintf("compilation differs between two compilations in one process: %s (peephole=%v, %s program)", sectionClass(sec), eng == host.EngVp, p.Kind),
						fmt.Sprintf("engine %s, features %s: compilation #1 and #%d of the same program differ in section %q:\n  first:  %s\n  later: %s", eng, p.Features, rep+1, sec, clipStr(la, 200), clipStr(lb, 200)),
						map[string]any{"engine": eng.String(), "kind": p.Kind, "features": p.Features, "program": p.Source, "contracts": p.Contracts, "section": sec, "line_first": la, "line_later": lb})
					break
				}
			}
		}
	}
	c.Note(fmt.Sprintf("c35|%05d|%d", chunk, replica), strings.Join(hashes, ","))
	c.Inc("program_cases")
}

// ---------------------------------------------------------------- instruction round trips

// sameInstruction compares two instructions field by field (nil and empty slices are equal); it returns the name of the
// first differing field.
func sameInstruction(a, b opcode.Instruction) (bool, string) {
	va, vb := reflect.ValueOf(a), reflect.ValueOf(b)
	if va.Type() != vb.Type() {
		return false, "(type)"
	}
	if va.Kind() != reflect.Struct {
		return reflect.DeepEqual(a, b), "(value)"
	}
	for i := 0; i < va.NumField(); i++ {
		fa, fb := va.Field(i), vb.Field(i)
		if fa.Kind() == reflect.Slice {
			if fa.Len() != fb.Len() {
				return false, va.Type().Field(i).Name
			}
			for j := 0; j < fa.Len(); j++ {
				if !reflect.DeepEqual(fa.Index(j).Interface(), fb.Index(j).Interface()) {
					return false, va.Type().Field(i).Name
				}
			}
			continue
		}
		if !reflect.DeepEqual(fa.Interface(), fb.Interface()) {
			return false, va.Type().Field(i).Name
		}
	}
	return true, ""
}

func c35RoundTrip(c *core.Ctx, ins opcode.Instruction, origin string) bool {
	c.Eval(1)
	var buf []byte
	var dec opcode.Instruction
	var ip uint16
	if p := guard(func() {
		ins.Encode(&buf)
		dec = opcode.DecodeInstruction(&ip, buf)
	}); p != nil {
		c.Violate(fmt.Sprintf("instruction %s: Encode/Decode panics [%s]", ins.Opcode(), p.Kind),
			fmt.Sprintf("%s %+v: %s", ins.Opcode(), ins, p.Value), map[string]any{"instruction": fmt.Sprintf("%T%+v", ins, ins), "origin": origin, "encoded_hex": hexBytes(buf), "stack": p.Stack})
		return false
	}
	if int(ip) != len(buf) {
		c.Violate(fmt.Sprintf("instruction %s: decoder consumes a different length than the encoder wrote", ins.Opcode()),
			fmt.Sprintf("%T%+v encodes to %d bytes (%s); DecodeInstruction consumed %d", ins, ins, len(buf), hexBytes(buf), ip),
			map[string]any{"instruction": fmt.Sprintf("%T%+v", ins, ins), "origin": origin, "encoded_hex": hexBytes(buf), "consumed": ip})
		return false
	}
	if ok, field := sameInstruction(ins, dec); !ok {
		c.Violate(fmt.Sprintf("instruction %s: decode(encode(i)) != i in field %s", ins.Opcode(), field),
			fmt.Sprintf("%T%+v encodes to %s and decodes to %T%+v", ins, ins, hexBytes(buf), dec, dec),
			map[string]any{"instruction": fmt.Sprintf("%T%+v", ins, ins), "decoded": fmt.Sprintf("%T%+v", dec, dec), "origin": origin, "encoded_hex": hexBytes(buf)})
		return false
	}
	return true
}

func c35RoundTripProgram(c *core.Ctx, p *bbq.InstructionProgram, eng host.Engine) {
	check := func(f *bbq.Function[opcode.Instruction]) {
		if len(f.Code) == 0 {
			return
		}
		var stream []byte
		for _, ins := range f.Code {
			c.Inc("compiled_instructions_round_tripped")
			c.Inc("op_seen_" + ins.Opcode().String())
			c35RoundTrip(c, ins, "compiled:"+f.QualifiedName)
			ins.Encode(&stream)
		}
		// the whole function body as one byte stream
		if len(stream) < math.MaxUint16 {
			var decoded []opcode.Instruction
			if pp := guard(func() { decoded = opcode.DecodeInstructions(stream) }); pp != nil {
				c.Violate("DecodeInstructions panics on an encoded function body ["+pp.Kind+"]", pp.Value, map[string]any{"function": f.QualifiedName, "engine": eng.String()})
				return
			}
			if len(decoded) != len(f.Code) {
				c.Violate("DecodeInstructions returns a different number of instructions for an encoded function body",
					fmt.Sprintf("function %s: %d instructions encoded, %d decoded", f.QualifiedName, len(f.Code), len(decoded)), map[string]any{"function": f.QualifiedName, "engine": eng.String()})
				return
			}
			for i := range decoded {
				if ok, field := sameInstruction(f.Code[i], decoded[i]); !ok {
					_ = field
					// one key: the per-instruction round trip above names the faulty opcode
					c.Violate("DecodeInstructions(encoded function body) differs from the function's instructions",
						fmt.Sprintf("function %s instruction %d: %+v decoded as %+v", f.QualifiedName, i, f.Code[i], decoded[i]), map[string]any{"function": f.QualifiedName})
					return
				}
			}
			c.Inc("function_bodies_stream_round_tripped")
		}
	}
	for i := range p.Functions {
		check(&p.Functions[i])
	}
	for _, v := range p.Variables {
		if v.Getter != nil {
			check(v.Getter)
		}
	}
}

var u16Boundary = []uint16{0, 1, 2, 127, 128, 254, 255, 256, 257, 511, 512, 0x7ffe, 0x7fff, 0x8000, 0x8001, 0xff00, 0xfffe, 0xffff}

func randU16(r *rand.Rand) uint16 {
	if r.IntN(2) == 0 {
		return u16Boundary[r.IntN(len(u16Boundary))]
	}
	return uint16(r.Uint32())
}

func randLen(r *rand.Rand) int {
	switch r.IntN(40) {
	case 0:
		return 255
	case 1:
		return 256
	case 2:
		return 257
	case 3:
		return 1000 + r.IntN(500)
	}
	return []int{0, 0, 1, 1, 2, 3, 5, 17}[r.IntN(8)]
}

var upvalueType = reflect.TypeOf(opcode.Upvalue{})

// randomInstruction fills a new value of the struct type t with random operands. ok=false when a field kind is unknown.
func randomInstruction(r *rand.Rand, t reflect.Type) (ins opcode.Instruction, ok bool) {
	v := reflect.New(t).Elem()
	if t.Kind() == reflect.Struct {
		for i := 0; i < t.NumField(); i++ {
			f := v.Field(i)
			switch f.Kind() {
			case reflect.Uint16:
				f.SetUint(uint64(randU16(r)))
			case reflect.Uint8:
				f.SetUint(uint64(r.IntN(256)))
			case reflect.Uint, reflect.Uint32, reflect.Uint64:
				// operands of wider Go type (common.CompositeKind) are written as 16 bits
				f.SetUint(uint64(randU16(r)))
			case reflect.Bool:
				f.SetBool(r.IntN(2) == 0)
			case reflect.Slice:
				n := randLen(r)
				if n == 0 {
					continue // nil
				}
				s := reflect.MakeSlice(f.Type(), n, n)
				for j := 0; j < n; j++ {
					switch {
					case f.Type().Elem().Kind() == reflect.Uint16:
						s.Index(j).SetUint(uint64(randU16(r)))
					case f.Type().Elem() == upvalueType:
						s.Index(j).Set(reflect.ValueOf(opcode.Upvalue{TargetIndex: randU16(r), IsLocal: r.IntN(2) == 0}))
					default:
						return nil, false
					}
				}
				f.Set(s)
			default:
				return nil, false
			}
		}
	}
	ins, ok = v.Interface().(opcode.Instruction)
	return
}

// instructionTypes discovers the instruction struct type of every assigned opcode by decoding the opcode byte followed by zeros.
func instructionTypes() (types map[opcode.Opcode]reflect.Type, order []opcode.Opcode) {
	types = map[opcode.Opcode]reflect.Type{}
	zeros := make([]byte, 64)
	for b := 0; b < int(opcode.OpcodeMax); b++ {
		code := append([]byte{byte(b)}, zeros...)
		var ins opcode.Instruction
		if p := guard(func() {
			var ip uint16
			ins = opcode.DecodeInstruction(&ip, code)
		}); p != nil || ins == nil {
			continue
		}
		if ins.Opcode() != opcode.Opcode(b) {
			continue
		}
		types[opcode.Opcode(b)] = reflect.TypeOf(ins)
		order = append(order, opcode.Opcode(b))
	}
	return
}

func c35RandomInstructions(c *core.Ctx) {
	types, order := instructionTypes()
	c.Max("opcodes_with_decoder", int64(len(order)))
	perOpcode := c.Pick(600, 6000)
	for _, op := range order {
		t := types[op]
		operands := 0
		if t.Kind() == reflect.Struct {
			operands = t.NumField()
		}
		n := perOpcode
		if operands == 0 {
			n = 2
		}
		okAll := true
		for i := 0; i < n; i++ {
			ins, ok := randomInstruction(c.Rng, t)
			if !ok {
				c.Inc("opcodes_with_unknown_operand_kind")
				okAll = false
				break
			}
			if ins.Opcode() != op {
				c.Violate(fmt.Sprintf("instruction %s: Opcode() of the decoded zero instruction differs", op), fmt.Sprintf("%T", ins), nil)
				break
			}
			c.Inc("random_instructions_round_tripped")
			if operands > 0 && (c.Quick() || i%8 == 0) {
				// thorough: only every 8th random instruction enters the distinct set (conservative count)
				c.DistinctHash(fnv64([]byte(fmt.Sprintf("%T%+v", ins, ins))))
			}
			if !c35RoundTrip(c, ins, "random") {
				okAll = false
				break
			}
		}
		if okAll {
			c.Inc("opcode_case_pairs_round_tripped")
		}
		// random operand BYTES: whatever instruction the decoder makes of them must itself round-trip.
		// (A decoder panic on bytes that end inside an operand is a documented precondition, not a finding.)
		if operands > 0 {
			for i := 0; i < c.Pick(100, 400); i++ {
				code := make([]byte, 1+48)
				code[0] = byte(op)
				for j := 1; j < len(code); j++ {
					code[j] = byte(c.Rng.Uint32())
				}
				if c.Rng.IntN(2) == 0 {
					// keep array counts small so that the operands fit
					for j := 1; j < len(code); j += 2 {
						code[j] = 0
						if c.Rng.IntN(3) == 0 {
							code[j+1] &= 3
						}
					}
				}
				var ins opcode.Instruction
				var ip uint16
				if p := guard(func() { ins = opcode.DecodeInstruction(&ip, code) }); p != nil {
					c.Inc("random_bytes_beyond_input")
					continue
				}
				c.Inc("random_bytes_decoded")
				c35RoundTrip(c, ins, "random-bytes")
			}
		}
	}
	// random streams
	for s := 0; s < c.Pick(200, 1500); s++ {
		k := 1 + c.Rng.IntN(40)
		var want []opcode.Instruction
		var code []byte
		for i := 0; i < k; i++ {
			op := order[c.Rng.IntN(len(order))]
			ins, ok := randomInstruction(c.Rng, types[op])
			if !ok {
				continue
			}
			var one []byte
			ins.Encode(&one)
			if len(code)+len(one) >= math.MaxUint16 {
				break
			}
			code = append(code, one...)
			want = append(want, ins)
		}
		var got []opcode.Instruction
		if p := guard(func() { got = opcode.DecodeInstructions(code) }); p != nil {
			c.Violate("DecodeInstructions panics on a stream of encoded instructions ["+p.Kind+"]", p.Value, map[string]any{"stream_hex": hexBytes(code), "instructions": fmt.Sprintf("%+v", want)})
			continue
		}
		c.Eval(1)
		c.Inc("random_streams_round_tripped")
		bad := len(got) != len(want)
		for i := 0; !bad && i < len(got); i++ {
			if ok, _ := sameInstruction(want[i], got[i]); !ok {
				bad = true
			}
		}
		if bad {
			c.Violate("DecodeInstructions(encoded stream) differs from the encoded instructions",
				fmt.Sprintf("%d instructions encoded, %d decoded; stream %s", len(want), len(got), hexBytes(code)), map[string]any{"instructions": clipStr(fmt.Sprintf("%+v", want), 2000), "decoded": clipStr(fmt.Sprintf("%+v", got), 2000)})
		}
	}
	if c.WantSample() {
		ins, _ := randomInstruction(c.Rng, types[opcode.Invoke])
		var b []byte
		if ins != nil {
			ins.Encode(&b)
		}
		c.Sample(map[string]any{"leg": "random-instruction", "instruction": clipStr(fmt.Sprintf("%T%+v", ins, ins), 300), "encoded_hex": hexBytes(b)})
	}
}

// ---------------------------------------------------------------- LEB128

func uLen(v uint64) int {
	n := 1
	for v >= 0x80 {
		v >>= 7
		n++
	}
	return n
}

func sLen(v int64) int {
	n := 1
	for {
		b := v & 0x7f
		v >>= 7
		if (v == 0 && b&0x40 == 0) || (v == -1 && b&0x40 != 0) {
			return n
		}
		n++
	}
}

func c35Leb(c *core.Ctx) {
	r := c.Rng
	fail := func(fn string, v any, msg string) {
		c.Violate("leb128."+fn+" round trip fails", fmt.Sprintf("%s(%v): %s", fn, v, msg), map[string]any{"function": fn, "value": fmt.Sprint(v)})
	}
	prefixes := [][]byte{nil, {0xff}, {0x80, 0x00, 0x7f}}
	suffixes := [][]byte{nil, {0x00}, {0xff, 0xff}, {0x80}}
	chkU64 := func(v uint64) {
		c.Eval(1)
		c.Inc("leb_u64")
		pre, suf := prefixes[r.IntN(len(prefixes))], suffixes[r.IntN(len(suffixes))]
		var enc []byte
		var got uint64
		var n int
		var err error
		if p := guard(func() {
			enc = leb128.AppendUint64(append([]byte(nil), pre...), v)
			got, n, err = leb128.ReadUint64(append(append([]byte(nil), enc[len(pre):]...), suf...))
		}); p != nil {
			fail("Uint64", v, "panic: "+p.Value)
			return
		}
		if string(enc[:len(pre)]) != string(pre) {
			fail("AppendUint64", v, "prefix modified")
		}
		if err != nil || got != v || n != len(enc)-len(pre) || n != uLen(v) {
			fail("Uint64", v, fmt.Sprintf("encoded %x, read (%d, %d, %v), expected length %d", enc[len(pre):], got, n, err, uLen(v)))
		}
		c.DistinctHash(fnv64([]byte("u64"), enc[len(pre):]))
	}
	chkU32 := func(v uint32) {
		c.Eval(1)
		c.Inc("leb_u32")
		pre, suf := prefixes[r.IntN(len(prefixes))], suffixes[r.IntN(len(suffixes))]
		var enc []byte
		var got uint32
		var n int
		var err error
		if p := guard(func() {
			enc = leb128.AppendUint32(append([]byte(nil), pre...), v)
			got, n, err = leb128.ReadUint32(append(append([]byte(nil), enc[len(pre):]...), suf...))
		}); p != nil {
			fail("Uint32", v, "panic: "+p.Value)
			return
		}
		if err != nil || got != v || n != len(enc)-len(pre) || n != uLen(uint64(v)) {
			fail("Uint32", v, fmt.Sprintf("encoded %x, read (%d, %d, %v), expected length %d", enc[len(pre):], got, n, err, uLen(uint64(v))))
		}
		// fixed-length variant: every length from the minimal one up to 5 must decode to v with that length; shorter must fail
		for l := 1; l <= 5; l++ {
			var fenc []byte
			var ferr error
			if p := guard(func() { fenc, ferr = leb128.AppendUint32FixedLength(append([]byte(nil), pre...), v, l) }); p != nil {
				fail("AppendUint32FixedLength", v, "panic: "+p.Value)
				continue
			}
			c.Inc("leb_u32_fixed")
			if l < uLen(uint64(v)) {
				if ferr == nil {
					fail("AppendUint32FixedLength", v, fmt.Sprintf("length %d is too small but no error was returned (%x)", l, fenc))
				}
				continue
			}
			if ferr != nil || len(fenc)-len(pre) != l {
				fail("AppendUint32FixedLength", v, fmt.Sprintf("length %d: err=%v encoded %x", l, ferr, fenc))
				continue
			}
			g2, n2, e2 := leb128.ReadUint32(append(append([]byte(nil), fenc[len(pre):]...), suf...))
			if e2 != nil || g2 != v || n2 != l {
				fail("AppendUint32FixedLength", v, fmt.Sprintf("length %d: encoded %x reads back as (%d, %d, %v)", l, fenc[len(pre):], g2, n2, e2))
			}
		}
		c.DistinctHash(fnv64([]byte("u32"), enc[len(pre):]))
	}
	chkS64 := func(v int64) {
		c.Eval(1)
		c.Inc("leb_s64")
		pre, suf := prefixes[r.IntN(len(prefixes))], suffixes[r.IntN(len(suffixes))]
		var enc []byte
		var got int64
		var n int
		var err error
		if p := guard(func() {
			enc = leb128.AppendInt64(append([]byte(nil), pre...), v)
			got, n, err = leb128.ReadInt64(append(append([]byte(nil), enc[len(pre):]...), suf...))
		}); p != nil {
			fail("Int64", v, "panic: "+p.Value)
			return
		}
		if err != nil || got != v || n != len(enc)-len(pre) || n != sLen(v) {
			fail("Int64", v, fmt.Sprintf("encoded %x, read (%d, %d, %v), expected length %d", enc[len(pre):], got, n, err, sLen(v)))
		}
		c.DistinctHash(fnv64([]byte("s64"), enc[len(pre):]))
	}
	chkS32 := func(v int32) {
		c.Eval(1)
		c.Inc("leb_s32")
		pre, suf := prefixes[r.IntN(len(prefixes))], suffixes[r.IntN(len(suffixes))]
		var enc []byte
		var got int32
		var n int
		var err error
		if p := guard(func() {
			enc = leb128.AppendInt32(append([]byte(nil), pre...), v)
			got, n, err = leb128.ReadInt32(append(append([]byte(nil), enc[len(pre):]...), suf...))
		}); p != nil {
			fail("Int32", v, "panic: "+p.Value)
			return
		}
		if err != nil || got != v || n != len(enc)-len(pre) || n != sLen(int64(v)) {
			fail("Int32", v, fmt.Sprintf("encoded %x, read (%d, %d, %v), expected length %d", enc[len(pre):], got, n, err, sLen(int64(v))))
		}
		c.DistinctHash(fnv64([]byte("s32"), enc[len(pre):]))
	}

	// every byte-length boundary
	for k := 0; k <= 9; k++ {
		b := uint64(1) << (7 * k)
		for _, d := range []int64{-2, -1, 0, 1, 2} {
			v := b + uint64(d)
			chkU64(v)
			c.Inc("leb_boundary_values")
			if v <= math.MaxUint32 {
				chkU32(uint32(v))
			}
			// signed boundaries are at 2^(7k-1)
			if k >= 1 {
				sb := int64(1) << (7*k - 1)
				chkS64(sb + d)
				chkS64(-sb + d)
				if sb+2 <= math.MaxInt32 {
					chkS32(int32(sb + d))
					chkS32(int32(-sb + d))
				}
			}
		}
	}
	for _, v := range []uint64{0, 1, 127, 128, math.MaxUint32 - 1, math.MaxUint32, math.MaxUint32 + 1, math.MaxInt64, math.MaxInt64 + 1, math.MaxUint64 - 1, math.MaxUint64} {
		chkU64(v)
		if v <= math.MaxUint32 {
			chkU32(uint32(v))
		}
	}
	for _, v := range []int64{0, 1, -1, 63, 64, -64, -65, math.MaxInt32, math.MinInt32, math.MaxInt32 + 1, math.MinInt32 - 1, math.MaxInt64, math.MinInt64, math.MaxInt64 - 1, math.MinInt64 + 1} {
		chkS64(v)
		if v >= math.MinInt32 && v <= math.MaxInt32 {
			chkS32(int32(v))
		}
	}
	// random values of every bit length
	n := c.Pick(12000, 100000)
	for i := 0; i < n; i++ {
		bits := 1 + r.IntN(64)
		v := r.Uint64() >> (64 - bits)
		chkU64(v)
		chkS64(int64(v))
		chkS64(-int64(v))
		chkS64(int64(r.Uint64()) >> r.IntN(64))
		b32 := 1 + r.IntN(32)
		w := r.Uint32() >> (32 - b32)
		chkU32(w)
		chkS32(int32(w))
		chkS32(-int32(w))
		chkS32(int32(r.Uint32()) >> r.IntN(32))
	}
	if c.WantSample() {
		c.Sample(map[string]any{"leg": "leb128", "example": fmt.Sprintf("AppendUint64(2^63) = %x; AppendInt64(-2^63) = %x", leb128.AppendUint64(nil, 1<<63), leb128.AppendInt64(nil, math.MinInt64))})
	}
}

// ---------------------------------------------------------------- registration

func c35Layout(tier string) (prog, instr, leb int) {
	if tier == "thorough" {
		return c35Chunks(tier) * c35Replicas, 32, 8
	}
	return c35Chunks(tier) * c35Replicas, 6, 4
}

func init() {
	core.Register(&core.Prop{
		ID:           "C35",
		Level:        "exploration",
		FreshProcess: true,
		Rule: "every case runs in a fresh process. Program cases: chunk k of 6 seeded corpus programs (plain scripts built from 8 feature blocks — control flow/closures, structs/optionals/casts/string templates, interfaces with default functions and conditions, resources, " +
			"entitlements and mappings, enums, attachments, builtins/paths — scripts importing two deployed contracts, transactions) is compiled by the runtime's own VM environments (peephole off and on) " +
			"5 times in process 0 and once in processes 1 and 2; the canonical dump (printer output plus contracts, globals, variables, function metadata, line tables, raw type and constant tables) is compared textually in-process and by hash across processes. " +
			"Every compiled instruction and seeded random instructions of every opcode (operands from uint16 boundaries, arrays of 0..1500 elements) are encoded and decoded back; " +
			"LEB128 at 2^(7k)+-2, signed 2^(7k-1)+-2, extremes and random values of every bit length, with prefixes/suffixes. Distinct by program text / instruction value / encoding (thorough tier: every 8th random instruction is entered in the distinct set, so the count is conservative)",
		Assumptions: []string{
			"the compiled program is read through reflection from runtime.Program (the cache entry the runtime gives to the host), i.e. it is the artefact the VM really executes",
			"the dump uses bbq's own program printer for instruction streams; a printer that hides a difference would hide it from this check (the raw tables are dumped independently)",
			"instruction values are built over the Go field types of the generated instruction structs; operands whose Go type is wider than 16 bits (common.CompositeKind) are drawn from 0..65535",
			"determinism is observed, not proved: Go map iteration order is randomised per iteration, so 5 in-process compilations of programs with several declarations of each kind expose an order dependence with high probability",
		},
		NumCases: func(tier string) int {
			p, i, l := c35Layout(tier)
			return p + i + l
		},
		Floors: map[string]int64{
			"program_cases":                        10,
			"program_runs_ok":                      150,
			"same_process_recompilations":          100,
			"compiled_programs_dumped":             300,
			"cross_process_programs_compared":      40,
			"compiled_instructions_round_tripped":  20000,
			"function_bodies_stream_round_tripped": 1000,
			"random_instructions_round_tripped":    100000,
			"opcode_case_pairs_round_tripped":      200,
			"random_streams_round_tripped":         500,
			"random_bytes_decoded":                 8000,
			"leb_u64":                              20000,
			"leb_u32":                              20000,
			"leb_s64":                              50000,
			"leb_s32":                              50000,
			"leb_u32_fixed":                        50000,
			"leb_boundary_values":                  100,
			"max:opcodes_with_decoder":             75,
			"distinct_opcodes_in_compiled_code":    45,
		},
		Run: func(c *core.Ctx) {
			p, i, _ := c35Layout(c.Tier)
			switch {
			case c.Case < p:
				chunks := c35Chunks(c.Tier)
				c35ProgramCase(c, c.Case%chunks, c.Case/chunks)
			case c.Case < p+i:
				c35RandomInstructions(c)
			default:
				c35Leb(c)
			}
		},
		Finalize: func(a *core.Agg) {
			// cross-process comparison of the per-program dump hashes
			byChunk := map[string]map[string]string{}
			for k, v := range a.Notes {
				parts := strings.Split(k, "|")
				if len(parts) != 3 || parts[0] != "c35" {
					continue
				}
				if byChunk[parts[1]] == nil {
					byChunk[parts[1]] = map[string]string{}
				}
				byChunk[parts[1]][parts[2]] = v
			}
			var chunks []string
			for k := range byChunk {
				chunks = append(chunks, k)
			}
			sort.Strings(chunks)
			for _, ch := range chunks {
				reps := byChunk[ch]
				base, ok := reps["0"]
				if !ok {
					continue
				}
				bh := strings.Split(base, ",")
				for _, r := range []string{"1", "2"} {
					other, ok := reps[r]
					if !ok {
						continue
					}
					oh := strings.Split(other, ",")
					for i := 0; i < len(bh) && i < len(oh); i++ {
						a.Counters["cross_process_programs_compared"]++
						if bh[i] != oh[i] {
							prog, eng := i/2, []string{"V", "Vp"}[i%2]
							a.Violate(fmt.Sprintf("compilation differs between two processes (peephole=%v, %s program)", i%2 == 1, []string{"plain", "importing", "transaction"}[prog%3]),
								fmt.Sprintf("chunk %s program %d engine %s: dump hash %s in process 0, %s in process %s (re-run with the same VERIF_SEED; program = c35Gen(seed, tier, chunk, index))", ch, prog, eng, bh[i], oh[i], r),
								map[string]any{"chunk": ch, "program_index": prog, "engine": eng})
						}
					}
					if len(bh) != len(oh) {
						a.Violate("compilation differs between two processes (number of compiled programs)", fmt.Sprintf("chunk %s: %d vs %d dumps", ch, len(bh), len(oh)), nil)
					}
				}
			}
			// opcode coverage of compiled code
			n := int64(0)
			for k := range a.Counters {
				if strings.HasPrefix(k, "op_seen_") {
					n++
				}
			}
			a.Counters["distinct_opcodes_in_compiled_code"] = n
			// keep the notes small in the evidence
			for k := range a.Notes {
				if strings.HasPrefix(k, "c35|") {
					delete(a.Notes, k)
				}
			}
		},
	})
}
