package misc

import (
	"bytes"
	"encoding/binary"
	"fmt"
	"math/rand/v2"
	"strings"

	"github.com/onflow/cadence/stdlib/rlp"

	"verif/harness/core"
	"verif/harness/host"
)

// C46 — RLP decoding accepts exactly canonical encodings and never crashes.
//
// Oracle: a reference RLP encoder and an independent canonical-form recogniser written from the RLP
// definition (all length arithmetic in uint64 with explicit comparisons, no additions that can wrap).
// Observed: results / recovered panics of rlp.DecodeString and rlp.DecodeList (direct calls) and the
// outcome class of RLP.decodeString / RLP.decodeList in scripts on the three engines.

// ---------------------------------------------------------------- reference encoder

func rlpHeader(n uint64, shortBase byte) []byte {
	if n <= 55 {
		return []byte{shortBase + byte(n)}
	}
	var l [8]byte
	binary.BigEndian.PutUint64(l[:], n)
	i := 0
	for l[i] == 0 {
		i++
	}
	out := []byte{shortBase + 55 + byte(8-i)}
	return append(out, l[i:]...)
}

func rlpEncodeString(p []byte) []byte {
	if len(p) == 1 && p[0] < 0x80 {
		return []byte{p[0]}
	}
	return append(rlpHeader(uint64(len(p)), 0x80), p...)
}

// rlpEncodeList wraps already encoded items.
func rlpEncodeList(items [][]byte) []byte {
	n := 0
	for _, it := range items {
		n += len(it)
	}
	out := rlpHeader(uint64(n), 0xc0)
	for _, it := range items {
		out = append(out, it...)
	}
	return out
}

type rlpNode struct {
	IsList bool
	Str    []byte
	Items  []*rlpNode
}

func (n *rlpNode) encode() []byte {
	if !n.IsList {
		return rlpEncodeString(n.Str)
	}
	var items [][]byte
	for _, c := range n.Items {
		items = append(items, c.encode())
	}
	return rlpEncodeList(items)
}

// ---------------------------------------------------------------- reference recogniser

type rlpItem struct {
	IsList    bool
	HdrLen    int
	PayLen    uint64
	Wrapped81 bool // 0x81 xx with xx < 0x80: a single byte that must be encoded as itself
}

// rlpParseItem parses the header of the item at w[0]; the item must lie completely inside the window w.
// reason is "" when the header is canonical and the payload fits.
func rlpParseItem(w []byte) (it rlpItem, reason string) {
	if len(w) == 0 {
		return it, "empty"
	}
	b0 := w[0]
	switch {
	case b0 < 0x80:
		return rlpItem{HdrLen: 0, PayLen: 1}, ""
	case b0 <= 0xb7:
		it = rlpItem{HdrLen: 1, PayLen: uint64(b0 - 0x80)}
	case b0 <= 0xbf:
		it = rlpItem{HdrLen: 1 + int(b0-0xb7)}
	case b0 <= 0xf7:
		it = rlpItem{IsList: true, HdrLen: 1, PayLen: uint64(b0 - 0xc0)}
	default:
		it = rlpItem{IsList: true, HdrLen: 1 + int(b0-0xf7)}
	}
	if it.HdrLen > 1 {
		if len(w) < it.HdrLen {
			return it, "truncated-length-field"
		}
		if w[1] == 0 {
			return it, "length-with-leading-zero"
		}
		var n uint64
		for _, x := range w[1:it.HdrLen] {
			n = n<<8 | uint64(x)
		}
		if n <= 55 {
			return it, "long-form-for-short-length"
		}
		it.PayLen = n
	}
	if it.PayLen > uint64(len(w)-it.HdrLen) {
		return it, "length-beyond-input"
	}
	if !it.IsList && it.HdrLen == 1 && it.PayLen == 1 && w[1] < 0x80 {
		it.Wrapped81 = true
	}
	return it, ""
}

func (it rlpItem) total() int { return it.HdrLen + int(it.PayLen) }

// rlpStringVerdict: canonical string encoding with no trailing bytes?
func rlpStringVerdict(b []byte) (payload []byte, canonical bool, reason string) {
	it, why := rlpParseItem(b)
	if why != "" {
		return nil, false, why
	}
	if it.IsList {
		return nil, false, "type-mismatch"
	}
	if it.Wrapped81 {
		return nil, false, "single-byte-wrapped"
	}
	if it.total() != len(b) {
		return nil, false, "trailing-bytes"
	}
	return b[it.HdrLen:], true, ""
}

type listClass int

const (
	listCanonical   listClass = iota // canonical at every depth: must be accepted
	listItemWrapped                  // framing fine but an item of the list itself is 0x81 xx (xx<0x80): must be rejected
	listDeepOnly                     // the list and its items' headers are canonical; some item *content* (depth >= 2) is not:
	// decodeList is documented not to decode recursively, so either outcome is accepted
	listReject // must be rejected
)

func rlpDeepCanonical(item []byte) bool {
	it, why := rlpParseItem(item)
	if why != "" || it.Wrapped81 || it.total() != len(item) {
		return false
	}
	if !it.IsList {
		return true
	}
	w := item[it.HdrLen:]
	for len(w) > 0 {
		ci, cwhy := rlpParseItem(w)
		if cwhy != "" {
			return false
		}
		if !rlpDeepCanonical(w[:ci.total()]) {
			return false
		}
		w = w[ci.total():]
	}
	return true
}

func rlpListVerdict(b []byte) (items [][]byte, class listClass, reason string) {
	it, why := rlpParseItem(b)
	if why != "" {
		return nil, listReject, why
	}
	if !it.IsList {
		return nil, listReject, "type-mismatch"
	}
	if it.total() != len(b) {
		return nil, listReject, "trailing-bytes"
	}
	w := b[it.HdrLen:]
	wrapped := false
	deep := true
	items = [][]byte{}
	for len(w) > 0 {
		ci, cwhy := rlpParseItem(w)
		if cwhy != "" {
			return nil, listReject, "item:" + cwhy
		}
		if ci.Wrapped81 {
			wrapped = true
		}
		item := w[:ci.total()]
		if !rlpDeepCanonical(item) {
			deep = false
		}
		items = append(items, item)
		w = w[ci.total():]
	}
	switch {
	case wrapped:
		return items, listItemWrapped, "item:single-byte-wrapped"
	case !deep:
		return items, listDeepOnly, "nested-item-content-non-canonical"
	}
	return items, listCanonical, ""
}

// rlpShape names the syntactic class of an input (for violation keys).
func rlpShape(b []byte) string {
	if len(b) == 0 {
		return "empty"
	}
	b0 := b[0]
	switch {
	case b0 < 0x80:
		return "single-byte"
	case b0 <= 0xb7:
		return "short-string"
	case b0 <= 0xbf:
		return fmt.Sprintf("long-string/ll=%d", b0-0xb7)
	case b0 <= 0xf7:
		return "short-list"
	}
	return fmt.Sprintf("long-list/ll=%d", b0-0xf7)
}

// ---------------------------------------------------------------- direct-call oracle


func rlpCheckDirect(c *core.Ctx, b []byte, origin string) {
	c.Eval(2)
	shape := rlpShape(b)

	// --- DecodeString
	var str []byte
	var n int
	var err error
	if p := guard(func() { str, n, err = rlp.DecodeString(b, 0) }); p != nil {
		c.Inc("go_panics")
		_, _, why := rlpStringVerdict(b)
		c.Violate(fmt.Sprintf("DecodeString go-panic at %s [%s] (%s)", p.Site, p.Kind, why),
			fmt.Sprintf("rlp.DecodeString(%s, 0) panicked: %s", hexBytes(b), p.Value),
			map[string]any{"input_hex": fmt.Sprintf("%x", clipBytes(b, 256)), "input_len": len(b), "origin": origin, "panic": p.Value, "stack": p.Stack})
	} else {
		payload, canonical, reason := rlpStringVerdict(b)
		accepted := err == nil && n == len(b)
		switch {
		case canonical && !accepted:
			c.Violate(fmt.Sprintf("DecodeString rejects canonical %s", shape),
				fmt.Sprintf("rlp.DecodeString(%s, 0): canonical string encoding not accepted: err=%v bytesRead=%d len=%d", hexBytes(b), err, n, len(b)),
				map[string]any{"input_hex": fmt.Sprintf("%x", clipBytes(b, 256)), "input_len": len(b), "origin": origin, "err": fmt.Sprint(err), "bytesRead": n})
		case canonical && !bytes.Equal(str, payload):
			c.Violate(fmt.Sprintf("DecodeString wrong payload %s", shape),
				fmt.Sprintf("rlp.DecodeString(%s, 0): payload %s, expected %s", hexBytes(b), hexBytes(str), hexBytes(payload)),
				map[string]any{"input_hex": fmt.Sprintf("%x", clipBytes(b, 256)), "origin": origin})
		case !canonical && accepted:
			c.Violate(fmt.Sprintf("DecodeString accepts non-canonical %s (%s)", shape, reason),
				fmt.Sprintf("rlp.DecodeString(%s, 0) accepted (payload %s, bytesRead %d) but the input is not a canonical string encoding: %s", hexBytes(b), hexBytes(str), n, reason),
				map[string]any{"input_hex": fmt.Sprintf("%x", clipBytes(b, 256)), "input_len": len(b), "origin": origin, "reason": reason})
		}
		if accepted {
			c.Inc("string_accepted")
		} else {
			c.Inc("string_rejected")
		}
		if canonical {
			// the encoder and the recogniser must agree (self-check of the oracle)
			if !bytes.Equal(rlpEncodeString(payload), b) {
				c.Violate("oracle-self-check: encoder and recogniser disagree (string)", fmt.Sprintf("input %s", hexBytes(b)), nil)
			}
		}
	}

	// --- DecodeList
	var items [][]byte
	if p := guard(func() { items, n, err = rlp.DecodeList(b, 0) }); p != nil {
		c.Inc("go_panics")
		_, _, why := rlpListVerdict(b)
		c.Violate(fmt.Sprintf("DecodeList go-panic at %s [%s] (%s)", p.Site, p.Kind, why),
			fmt.Sprintf("rlp.DecodeList(%s, 0) panicked: %s", hexBytes(b), p.Value),
			map[string]any{"input_hex": fmt.Sprintf("%x", clipBytes(b, 256)), "input_len": len(b), "origin": origin, "panic": p.Value, "stack": p.Stack})
		return
	}
	want, class, reason := rlpListVerdict(b)
	accepted := err == nil && n == len(b)
	itemsEqual := func() bool {
		if len(items) != len(want) {
			return false
		}
		for i := range items {
			if !bytes.Equal(items[i], want[i]) {
				return false
			}
		}
		return true
	}
	switch class {
	case listCanonical:
		if !accepted {
			c.Violate(fmt.Sprintf("DecodeList rejects canonical %s", shape),
				fmt.Sprintf("rlp.DecodeList(%s, 0): canonical list encoding not accepted: err=%v bytesRead=%d len=%d", hexBytes(b), err, n, len(b)),
				map[string]any{"input_hex": fmt.Sprintf("%x", clipBytes(b, 256)), "input_len": len(b), "origin": origin, "err": fmt.Sprint(err), "bytesRead": n})
		} else if !itemsEqual() {
			c.Violate(fmt.Sprintf("DecodeList wrong items %s", shape),
				fmt.Sprintf("rlp.DecodeList(%s, 0): items %x, expected %x", hexBytes(b), clipItems(items), clipItems(want)),
				map[string]any{"input_hex": fmt.Sprintf("%x", clipBytes(b, 256)), "origin": origin})
		}
		if !bytes.Equal(rlpEncodeList(want), b) {
			c.Violate("oracle-self-check: encoder and recogniser disagree (list)", fmt.Sprintf("input %s", hexBytes(b)), nil)
		}
	case listItemWrapped:
		c.Inc("list_item_wrapped_inputs")
		if accepted {
			c.Violate("DecodeList accepts a list whose own item is a single byte < 0x80 encoded as 0x81 xx",
				fmt.Sprintf("rlp.DecodeList(%s, 0) accepted %d items although an item of the list uses the non-canonical two-byte form 0x81 xx (xx < 0x80); every other non-canonical item header is rejected, and DecodeString rejects the same bytes", hexBytes(b), len(items)),
				map[string]any{"input_hex": fmt.Sprintf("%x", clipBytes(b, 256)), "input_len": len(b), "origin": origin, "items": fmt.Sprintf("%x", clipItems(items))})
		}
	case listDeepOnly:
		c.Inc("latitude_nested_content_noncanonical")
		if accepted && !itemsEqual() {
			c.Violate(fmt.Sprintf("DecodeList wrong items %s", shape),
				fmt.Sprintf("rlp.DecodeList(%s, 0): items %x, expected %x", hexBytes(b), clipItems(items), clipItems(want)),
				map[string]any{"input_hex": fmt.Sprintf("%x", clipBytes(b, 256)), "origin": origin})
		}
	case listReject:
		if accepted {
			c.Violate(fmt.Sprintf("DecodeList accepts non-canonical %s (%s)", shape, reason),
				fmt.Sprintf("rlp.DecodeList(%s, 0) accepted %d items (bytesRead %d) but the input is not a canonical list encoding: %s", hexBytes(b), len(items), n, reason),
				map[string]any{"input_hex": fmt.Sprintf("%x", clipBytes(b, 256)), "input_len": len(b), "origin": origin, "reason": reason})
		}
	}
	if accepted {
		c.Inc("list_accepted")
	} else {
		c.Inc("list_rejected")
	}
}

func clipBytes(b []byte, n int) []byte {
	if len(b) > n {
		return b[:n]
	}
	return b
}

func clipItems(items [][]byte) [][]byte {
	var out [][]byte
	for i, it := range items {
		if i >= 8 {
			break
		}
		out = append(out, clipBytes(it, 32))
	}
	return out
}

// ---------------------------------------------------------------- generators

var rlpPayloadLens = []int{0, 1, 1, 1, 2, 3, 7, 31, 54, 55, 56, 57, 58, 100, 254, 255, 256, 257, 300, 1000}
var rlpBigLens = []int{65535, 65536, 65537, 70000}

func rlpRandPayload(r *rand.Rand, allowBig bool) []byte {
	n := rlpPayloadLens[r.IntN(len(rlpPayloadLens))]
	if allowBig && r.IntN(60) == 0 {
		n = rlpBigLens[r.IntN(len(rlpBigLens))]
	}
	p := make([]byte, n)
	for i := range p {
		p[i] = byte(r.Uint32())
	}
	if n == 1 {
		switch r.IntN(4) {
		case 0:
			p[0] = 0x7f
		case 1:
			p[0] = 0x80
		case 2:
			p[0] = 0
		}
	}
	return p
}

func rlpRandNode(r *rand.Rand, depth int, allowBig bool) *rlpNode {
	if depth <= 0 || r.IntN(3) != 0 {
		return &rlpNode{Str: rlpRandPayload(r, allowBig)}
	}
	n := &rlpNode{IsList: true}
	k := r.IntN(6)
	switch r.IntN(12) {
	case 0: // payload exactly around the 55/56 boundary: k single-byte items
		k = 54 + r.IntN(4)
		for i := 0; i < k; i++ {
			n.Items = append(n.Items, &rlpNode{Str: []byte{byte(r.IntN(0x80))}})
		}
		return n
	case 1: // around the 255/256 boundary
		k = 254 + r.IntN(4)
		for i := 0; i < k; i++ {
			n.Items = append(n.Items, &rlpNode{Str: []byte{byte(r.IntN(0x80))}})
		}
		return n
	}
	for i := 0; i < k; i++ {
		n.Items = append(n.Items, rlpRandNode(r, depth-1, false))
	}
	return n
}

// extreme declared lengths (the real payload that follows has length have)
func rlpExtremeLens(r *rand.Rand, have int) []uint64 {
	h := uint64(have)
	ls := []uint64{
		1<<63 - 1, 1 << 63, 1<<63 + 1, 1<<64 - 1, 1<<64 - 2, 1<<62 - 1, 1 << 62, 1<<62 + 1,
		1<<63 - 1 - h, 1<<63 - h, 1<<63 - 9, 1<<63 - 10, 1<<63 - 2,
		^uint64(0) - h, ^uint64(0) - h + 1, 1<<64 - 9, 1<<64 - 10,
		1 << 32, 1<<32 - 1, 1<<31 - 1, 1 << 31, 1 << 56, 1<<56 - 1,
		h + 1, h, 56, 55, 1, 0,
	}
	if h > 0 {
		ls = append(ls, h-1)
	}
	ls = append(ls, r.Uint64(), r.Uint64()|1<<63, r.Uint64()>>1)
	return ls
}

// rlpForcedHeader builds a long-form header with a length field of exactly ll bytes (1..8) for n,
// truncating n to ll bytes — possibly non-minimal, possibly with leading zeros.
func rlpForcedHeader(isList bool, ll int, n uint64) []byte {
	var l [8]byte
	binary.BigEndian.PutUint64(l[:], n)
	base := byte(0xb7)
	if isList {
		base = 0xf7
	}
	return append([]byte{base + byte(ll)}, l[8-ll:]...)
}

// rlpMutants calls f with mutated variants of the canonical encoding e.
func rlpMutants(r *rand.Rand, e []byte, f func(m []byte, origin string)) {
	cp := func(b []byte) []byte { return append([]byte(nil), b...) }
	// 1. single-byte edits of the prefix
	pre := len(e)
	if pre > 11 {
		pre = 11
	}
	for i := 0; i < pre; i++ {
		m := cp(e)
		m[i] = byte(r.Uint32())
		f(m, "edit")
		m = cp(e)
		m[i]++
		f(m, "edit+1")
		m = cp(e)
		m[i]--
		f(m, "edit-1")
	}
	// 2. truncations
	if len(e) <= 40 {
		for i := 0; i < len(e); i++ {
			f(cp(e[:i]), "truncate")
		}
	} else {
		for k := 0; k < 12; k++ {
			f(cp(e[:r.IntN(len(e))]), "truncate")
		}
		f(cp(e[:len(e)-1]), "truncate")
	}
	// 3. trailing bytes
	f(append(cp(e), 0), "trailing")
	f(append(cp(e), byte(r.Uint32()), byte(r.Uint32())), "trailing")
	// 4. non-minimal length fields / leading zeros / long form for short payloads
	it, why := rlpParseItem(e)
	if why == "" && len(e) > 0 && e[0] >= 0x80 {
		payload := e[it.HdrLen:]
		for ll := 1; ll <= 8; ll++ {
			m := append(rlpForcedHeader(it.IsList, ll, it.PayLen), payload...)
			f(m, "forced-length-field")
		}
		// 5. type swap
		m := cp(e)
		if it.IsList {
			m[0] -= 0x40
		} else {
			m[0] += 0x40
		}
		f(m, "type-swap")
		// 6. extreme declared lengths at top level, both kinds
		keep := payload
		if len(keep) > 64 {
			keep = keep[:64]
		}
		for _, n := range rlpExtremeLens(r, len(keep)) {
			for _, isList := range []bool{false, true} {
				ll := 8
				if r.IntN(4) == 0 {
					ll = 1 + r.IntN(8)
				}
				f(append(rlpForcedHeader(isList, ll, n), keep...), "extreme-length")
			}
		}
	}
	// 7. single byte wrapped
	x := byte(r.IntN(0x80))
	f([]byte{0x81, x}, "wrapped-single-byte")
	f(rlpEncodeList([][]byte{{0x81, x}}), "wrapped-single-byte-item")
	f(rlpEncodeList([][]byte{rlpEncodeList([][]byte{{0x81, x}})}), "wrapped-single-byte-nested")
}

// rlpNestedExtreme: a list (correctly framed for the bytes that are really there) that contains an item whose header
// declares an extreme length; optionally nested one level deeper.
func rlpNestedExtreme(r *rand.Rand, f func(m []byte, origin string)) {
	good := func() []byte { return rlpRandNode(r, 1, false).encode() }
	tail := make([]byte, r.IntN(12))
	for i := range tail {
		tail[i] = byte(r.Uint32())
	}
	for _, n := range rlpExtremeLens(r, len(tail)) {
		isList := r.IntN(2) == 0
		ll := 8
		if r.IntN(5) == 0 {
			ll = 1 + r.IntN(8)
		}
		bad := append(rlpForcedHeader(isList, ll, n), tail...)
		var items [][]byte
		pos := r.IntN(3)
		for i := 0; i < pos; i++ {
			g := good()
			if len(g) < 200 {
				items = append(items, g)
			}
		}
		items = append(items, bad)
		if r.IntN(2) == 0 {
			g := good()
			if len(g) < 200 {
				items = append(items, g)
			}
		}
		l := rlpEncodeList(items)
		f(l, "nested-extreme-length")
		if r.IntN(3) == 0 {
			f(rlpEncodeList([][]byte{rlpEncodeString([]byte("ab")), l}), "nested2-extreme-length")
		}
	}
}

// ---------------------------------------------------------------- script leg

func cadenceByteArray(b []byte) string {
	var sb strings.Builder
	sb.WriteString("[")
	for i, x := range b {
		if i > 0 {
			sb.WriteString(",")
		}
		fmt.Fprintf(&sb, "%d", x)
	}
	sb.WriteString("]")
	return sb.String()
}

func cadenceByteArrayValueString(b []byte) string { // the rendering of a cadence.Array of UInt8
	var sb strings.Builder
	sb.WriteString("[")
	for i, x := range b {
		if i > 0 {
			sb.WriteString(", ")
		}
		fmt.Fprintf(&sb, "%d", x)
	}
	sb.WriteString("]")
	return sb.String()
}

func rlpScriptCheck(c *core.Ctx, b []byte, origin string) {
	arr := cadenceByteArray(b)
	payload, canonical, sreason := rlpStringVerdict(b)
	items, lclass, lreason := rlpListVerdict(b)

	srcS := "access(all) fun main(): [UInt8] {\n let input: [UInt8] = " + arr + "\n return RLP.decodeString(input)\n}"
	srcL := "access(all) fun main(): [[UInt8]] {\n let input: [UInt8] = " + arr + "\n return RLP.decodeList(input)\n}"
	for _, eng := range host.AllEngines {
		// decodeString
		h := host.New()
		out := h.RunScript(eng, srcS, nil, nil)
		c.Eval(1)
		c.Inc("script_runs_" + eng.String())
		cls := host.Classify(out)
		switch {
		case cls == host.ClassNone:
			c.Inc("script_accepted")
			got := out.Value.String()
			if !canonical {
				c.Violate(fmt.Sprintf("script: RLP.decodeString accepts non-canonical %s (%s)", rlpShape(b), sreason),
					fmt.Sprintf("engine %s: RLP.decodeString(%s) returned %s; input is not canonical: %s", eng, hexBytes(b), clipStr(got, 200), sreason),
					map[string]any{"engine": eng.String(), "script": clipStr(srcS, 3000), "origin": origin})
			} else if got != cadenceByteArrayValueString(payload) {
				c.Violate("script: RLP.decodeString wrong payload "+rlpShape(b),
					fmt.Sprintf("engine %s: RLP.decodeString(%s) returned %s, expected %s", eng, hexBytes(b), clipStr(got, 200), hexBytes(payload)),
					map[string]any{"engine": eng.String(), "script": clipStr(srcS, 3000), "origin": origin})
			}
		case cls == host.ClassUser:
			c.Inc("script_rejected_user")
			if canonical {
				c.Violate("script: RLP.decodeString rejects canonical "+rlpShape(b),
					fmt.Sprintf("engine %s: RLP.decodeString(%s) failed: %s", eng, hexBytes(b), clipStr(host.ErrText(out), 300)),
					map[string]any{"engine": eng.String(), "script": clipStr(srcS, 3000), "origin": origin})
			}
		default:
			c.Inc("script_rejected_nonuser")
			c.Violate(fmt.Sprintf("script: RLP.decodeString fails with %s error (%s) (%s)", cls, lastKind(out), sreason),
				fmt.Sprintf("engine %s: RLP.decodeString(%s) must fail with a user error; observed class %s: %s", eng, hexBytes(b), cls, clipStr(host.ErrText(out), 400)),
				map[string]any{"engine": eng.String(), "script": clipStr(srcS, 3000), "origin": origin, "error": clipStr(host.ErrText(out), 1500), "kinds": host.ErrKinds(out.Err)})
		}

		// decodeList
		h = host.New()
		out = h.RunScript(eng, srcL, nil, nil)
		c.Eval(1)
		c.Inc("script_runs_" + eng.String())
		cls = host.Classify(out)
		switch {
		case cls == host.ClassNone:
			c.Inc("script_accepted")
			got := out.Value.String()
			var parts []string
			for _, it := range items {
				parts = append(parts, cadenceByteArrayValueString(it))
			}
			want := "[" + strings.Join(parts, ", ") + "]"
			switch lclass {
			case listReject:
				c.Violate(fmt.Sprintf("script: RLP.decodeList accepts non-canonical %s (%s)", rlpShape(b), lreason),
					fmt.Sprintf("engine %s: RLP.decodeList(%s) returned %s; input is not canonical: %s", eng, hexBytes(b), clipStr(got, 200), lreason),
					map[string]any{"engine": eng.String(), "script": clipStr(srcL, 3000), "origin": origin})
			case listItemWrapped:
				c.Violate("script: RLP.decodeList accepts a list whose own item is a single byte < 0x80 encoded as 0x81 xx",
					fmt.Sprintf("engine %s: RLP.decodeList(%s) returned %s", eng, hexBytes(b), clipStr(got, 200)),
					map[string]any{"engine": eng.String(), "script": clipStr(srcL, 3000), "origin": origin})
			default:
				if got != want {
					c.Violate("script: RLP.decodeList wrong items "+rlpShape(b),
						fmt.Sprintf("engine %s: RLP.decodeList(%s) returned %s, expected %s", eng, hexBytes(b), clipStr(got, 300), clipStr(want, 300)),
						map[string]any{"engine": eng.String(), "script": clipStr(srcL, 3000), "origin": origin})
				}
			}
		case cls == host.ClassUser:
			c.Inc("script_rejected_user")
			if lclass == listCanonical {
				c.Violate("script: RLP.decodeList rejects canonical "+rlpShape(b),
					fmt.Sprintf("engine %s: RLP.decodeList(%s) failed: %s", eng, hexBytes(b), clipStr(host.ErrText(out), 300)),
					map[string]any{"engine": eng.String(), "script": clipStr(srcL, 3000), "origin": origin})
			}
		default:
			c.Inc("script_rejected_nonuser")
			c.Violate(fmt.Sprintf("script: RLP.decodeList fails with %s error (%s) (%s)", cls, lastKind(out), lreason),
				fmt.Sprintf("engine %s: RLP.decodeList(%s) must fail with a user error; observed class %s: %s", eng, hexBytes(b), cls, clipStr(host.ErrText(out), 400)),
				map[string]any{"engine": eng.String(), "script": clipStr(srcL, 3000), "origin": origin, "error": clipStr(host.ErrText(out), 1500), "kinds": host.ErrKinds(out.Err)})
		}
	}
}

func lastKind(o host.Outcome) string {
	if o.Escaped != nil {
		return "escaped"
	}
	ks := host.ErrKinds(o.Err)
	if len(ks) == 0 {
		return "?"
	}
	return ks[len(ks)-1]
}

// ---------------------------------------------------------------- registration

func c46Layout(tier string) (exh, rnd, scr int) {
	if tier == "thorough" {
		return 256, 400, 96
	}
	return 1, 40, 12
}

func init() {
	core.Register(&core.Prop{
		ID:    "C46",
		Level: "exploration",
		Rule: "direct calls of rlp.DecodeString/DecodeList on (a) every byte string of length <= 2 (quick) / <= 3 (thorough, sharded by first byte), " +
			"(b) canonical encodings of seeded random nested structures (depth <= 5, payload lengths across 0/1/55/56/255/256/65535/65536) and " +
			"(c) their mutants: prefix byte edits, truncations, trailing bytes, forced 1..8-byte length fields (non-minimal, leading zeros), type swaps, " +
			"0x81-wrapped single bytes, and declared lengths from {2^63-1, 2^63, 2^64-1, 2^62+-1, 2^32, len+-1, ...} at top level and inside list items; " +
			"plus RLP.decodeString/decodeList scripts on I, V, Vp. An input is non-trivial when non-empty; distinct by content " +
			"(for the 3-byte enumeration only a 1/256 subsample is entered in the distinct set, so the count is conservative)",
		Assumptions: []string{
			"oracle = reference encoder plus an independent canonical-form recogniser written from the RLP definition (uint64 comparisons, no wrapping additions); both are cross-checked against each other on every accepted input",
			"decodeList is documented as non-recursive: when the list framing and the headers of its own items are canonical but the content of an item (depth >= 2) is not, either outcome is accepted (counted in latitude_nested_content_noncanonical)",
			"a single byte < 0x80 encoded as 0x81 xx as a direct item of the list is treated as a non-canonical length (statement: every non-canonical input fails), as reference splitters (go-ethereum rlp.Split) do",
			"direct calls use startIndex 0 and count an input as accepted when err == nil and bytesRead == len(input), which is what the Cadence wrappers do",
		},
		NumCases: func(tier string) int {
			e, r, s := c46Layout(tier)
			return e + r + s
		},
		Exhaustive: func(tier string) bool { return true },
		Floors: map[string]int64{
			"exhaustive_inputs":             65793,
			"string_accepted":               2000,
			"string_rejected":               20000,
			"list_accepted":                 1000,
			"list_rejected":                 20000,
			"canonical_structures":          1000,
			"mutants":                       20000,
			"extreme_length_inputs":         5000,
			"nested_extreme_length_inputs":  1000,
			"list_item_wrapped_inputs":      100,
			"script_accepted":               40,
			"script_rejected_user":          100,
			"script_runs_I":                 100,
			"script_runs_V":                 100,
			"script_runs_Vp":                100,
			"script_extreme_length_inputs":  20,
			"latitude_nested_content_noncanonical": 10,
		},
		Run: func(c *core.Ctx) {
			exh, rnd, _ := c46Layout(c.Tier)
			switch {
			case c.Case < exh:
				c46Exhaustive(c)
			case c.Case < exh+rnd:
				c46Random(c)
			default:
				c46Script(c)
			}
		},
	})
}

func c46Exhaustive(c *core.Ctx) {
	run := func(b []byte, distinct bool) {
		rlpCheckDirect(c, b, "exhaustive")
		c.Inc("exhaustive_inputs")
		if distinct && len(b) > 0 {
			c.DistinctHash(fnv64(b))
		}
	}
	if c.Case == 0 {
		run([]byte{}, false)
		for a := 0; a < 256; a++ {
			run([]byte{byte(a)}, true)
			for b := 0; b < 256; b++ {
				run([]byte{byte(a), byte(b)}, true)
			}
		}
		if c.WantSample() {
			c.Sample(map[string]any{"leg": "exhaustive", "inputs": "all byte strings of length 0, 1, 2", "example": "c180 -> DecodeList accepted, items [80]"})
		}
	}
	if c.Thorough() {
		a := byte(c.Case)
		buf := make([]byte, 3)
		for b := 0; b < 256; b++ {
			for d := 0; d < 256; d++ {
				buf[0], buf[1], buf[2] = a, byte(b), byte(d)
				run(buf, d == 0)
			}
		}
		c.Inc("exhaustive_3byte_first_bytes")
	}
}

func c46Random(c *core.Ctx) {
	nStruct := c.Pick(60, 150)
	for i := 0; i < nStruct; i++ {
		node := rlpRandNode(c.Rng, 1+c.Rng.IntN(5), true)
		e := node.encode()
		c.Inc("canonical_structures")
		c.DistinctHash(fnv64(e))
		rlpCheckDirect(c, e, "canonical")
		if node.IsList {
			// the reference decoder must see exactly the children
			want, class, _ := rlpListVerdict(e)
			if class != listCanonical || len(want) != len(node.Items) {
				c.Violate("oracle-self-check: recogniser rejects an encoder output (list)", hexBytes(e), nil)
			}
		} else if _, ok, _ := rlpStringVerdict(e); !ok {
			c.Violate("oracle-self-check: recogniser rejects an encoder output (string)", hexBytes(e), nil)
		}
		if i == 0 && c.WantSample() {
			c.Sample(map[string]any{"leg": "random-structure", "canonical_hex": hexBytes(e), "mutants": "edits, truncations, trailing bytes, forced length fields, extreme lengths"})
		}
		rlpMutants(c.Rng, e, func(m []byte, origin string) {
			c.Inc("mutants")
			if origin == "extreme-length" {
				c.Inc("extreme_length_inputs")
			}
			c.DistinctHash(fnv64(m))
			rlpCheckDirect(c, m, origin)
		})
		rlpNestedExtreme(c.Rng, func(m []byte, origin string) {
			c.Inc("mutants")
			c.Inc("nested_extreme_length_inputs")
			c.DistinctHash(fnv64(m))
			rlpCheckDirect(c, m, origin)
		})
	}
}

func c46Script(c *core.Ctx) {
	var inputs []struct {
		b      []byte
		origin string
	}
	add := func(b []byte, origin string) {
		if len(b) <= 400 {
			inputs = append(inputs, struct {
				b      []byte
				origin string
			}{append([]byte(nil), b...), origin})
		}
	}
	var pool []struct {
		b      []byte
		origin string
	}
	for len(pool) < 400 {
		node := rlpRandNode(c.Rng, 1+c.Rng.IntN(3), false)
		e := node.encode()
		if len(e) > 400 {
			continue
		}
		add(e, "canonical")
		rlpMutants(c.Rng, e, func(m []byte, origin string) {
			if len(m) <= 400 {
				pool = append(pool, struct {
					b      []byte
					origin string
				}{append([]byte(nil), m...), origin})
			}
		})
		rlpNestedExtreme(c.Rng, func(m []byte, origin string) {
			if len(m) <= 400 {
				pool = append(pool, struct {
					b      []byte
					origin string
				}{append([]byte(nil), m...), origin})
			}
		})
	}
	// a fixed share of every mutant family
	want := map[string]int{"extreme-length": 6, "nested-extreme-length": 5, "nested2-extreme-length": 2, "forced-length-field": 3, "truncate": 2,
		"trailing": 2, "edit": 2, "type-swap": 1, "wrapped-single-byte": 1, "wrapped-single-byte-item": 1, "wrapped-single-byte-nested": 1, "edit+1": 1, "edit-1": 1}
	c.Rng.Shuffle(len(pool), func(i, j int) { pool[i], pool[j] = pool[j], pool[i] })
	for _, p := range pool {
		if want[p.origin] > 0 {
			want[p.origin]--
			add(p.b, p.origin)
		}
	}
	if len(inputs) > 40 {
		inputs = inputs[:40]
	}
	for i, in := range inputs {
		if strings.Contains(in.origin, "extreme") {
			c.Inc("script_extreme_length_inputs")
		}
		c.DistinctHash(fnv64([]byte("script"), in.b))
		rlpScriptCheck(c, in.b, in.origin)
		if i == 0 && c.WantSample() {
			c.Sample(map[string]any{"leg": "script", "input_hex": hexBytes(in.b), "origin": in.origin})
		}
	}
}
