package num2

import (
	"fmt"
	"math/big"
	"sort"

	"github.com/onflow/cadence/interpreter"
	"github.com/onflow/cadence/sema"

	"verif/harness/core"
	"verif/harness/host"
	"verif/harness/num"
)

// C16 — numeric conversions preserve the value or fail.
//
// Oracle (math/big): the source denotes the rational raw/10^scale (scale 0 for integers).
//   integer target (not Word): trunc(source) if in range, else Overflow|Underflow
//   Word target:               trunc(source) mod 2^n
//   fixed-point target:        source*10^scale truncated toward zero (or rounded by the rule when a
//                              rounding argument is passed) if in range, else Overflow|Underflow
// Observed: return value / recovered panic of interpreter.ConverterDeclarations[T].Convert and
// .ConvertWithRounding (the exported Convert* functions), and results of `T(x)` / `T(x, rounding: r)`
// in scripts on three engines.

type numT struct {
	Name  string
	IsFix bool
	Int   num.IntType
	Fix   num.FixType
}

func (t numT) scale() int {
	if t.IsFix {
		return t.Fix.Scale
	}
	return 0
}

func (t numT) signed() bool {
	if t.IsFix {
		return t.Fix.Signed
	}
	return t.Int.Signed
}

// minRaw / maxRaw: bounds of the raw (scaled) integer; nil = unbounded
func (t numT) minRaw() *big.Int {
	if t.IsFix {
		return t.Fix.MinRaw()
	}
	return t.Int.Min()
}

func (t numT) maxRaw() *big.Int {
	if t.IsFix {
		return t.Fix.MaxRaw()
	}
	return t.Int.Max()
}

func (t numT) inRangeRaw(x *big.Int) bool {
	if mn := t.minRaw(); mn != nil && x.Cmp(mn) < 0 {
		return false
	}
	if mx := t.maxRaw(); mx != nil && x.Cmp(mx) > 0 {
		return false
	}
	return true
}

func (t numT) make(raw *big.Int) interpreter.NumberValue {
	if t.IsFix {
		return t.Fix.Make(raw)
	}
	return t.Int.Make(raw)
}

// literal renders the raw value as Cadence source of the type
func (t numT) literal(raw *big.Int) string {
	if t.IsFix {
		return num.FixString(t.Fix, raw)
	}
	return raw.String()
}

// rawOfString reads the raw value back from a decimal rendering
func (t numT) rawOfString(v fmt.Stringer) *big.Int {
	if t.IsFix {
		return num.RawOf(t.Fix, v)
	}
	return num.ToBig(v)
}

// concreteNumTypes: sema.AllNumberTypes minus the abstract supertypes, in a deterministic order.
// Types unknown to the harness tables are returned in missing.
func concreteNumTypes() (out []numT, missing []string) {
	var names []string
	for _, t := range sema.AllNumberTypes {
		if st, ok := t.(interface{ IsSuperType() bool }); ok && st.IsSuperType() {
			continue
		}
		names = append(names, t.String())
	}
	sort.Strings(names)
next:
	for _, n := range names {
		for _, it := range num.IntTypes {
			if it.Name == n {
				out = append(out, numT{Name: n, Int: it})
				continue next
			}
		}
		for _, ft := range num.FixTypes {
			if ft.Name == n {
				out = append(out, numT{Name: n, IsFix: true, Fix: ft})
				continue next
			}
		}
		missing = append(missing, n)
	}
	return
}

var c16types, c16missing = concreteNumTypes()

func c16decl(name string) *interpreter.ValueConverterDeclaration {
	for i := range interpreter.ConverterDeclarations {
		if interpreter.ConverterDeclarations[i].Name == name {
			return &interpreter.ConverterDeclarations[i]
		}
	}
	return nil
}

// c16expect computes the expectation for converting the source (raw at scale ss) to t with rule
// ("" = no rounding argument).
func c16expect(c *core.Ctx, s numT, raw *big.Int, t numT, rule string) (fixExpect, string) {
	// target raw = source * 10^(st) / 10^(ss)
	n := new(big.Int).Mul(raw, pow10(t.scale()))
	d := pow10(s.scale())
	r := rule
	if r == "" {
		r = "towardZero"
	}
	q, class, up := roundQuo(n, d, r)
	if c != nil {
		if class != "exact" {
			c.Inc("fraction_dropped")
			if rule != "" {
				c.Inc("rounded_with_rule_" + class)
				if up {
					c.Inc("rounded_away")
				}
			}
		}
	}
	if !t.IsFix && t.Int.Word {
		w := t.Int.Wrap(q)
		if c != nil && w.Cmp(q) != 0 {
			c.Inc("word_wrapped")
		}
		return fixExpect{Value: w}, class
	}
	if t.inRangeRaw(q) {
		return fixExpect{Value: q}, class
	}
	return fixExpect{Fail: "range"}, class
}

func c16convertDirect(decl *interpreter.ValueConverterDeclaration, v interpreter.Value, rule int) callOutcome {
	return protect(func() fmt.Stringer {
		switch rule {
		case -1:
			return decl.Convert(nil, v)
		case 0:
			return decl.ConvertWithRounding(nil, v, 0)
		case 1:
			return decl.ConvertWithRounding(nil, v, 1)
		case 2:
			return decl.ConvertWithRounding(nil, v, 2)
		case 3:
			return decl.ConvertWithRounding(nil, v, 3)
		}
		panic("bad rule")
	})
}

func c16check(c *core.Ctx, where string, s, t numT, rule, class string, raw *big.Int, exp fixExpect, got callOutcome, extra map[string]any) {
	var gotRaw *big.Int
	if got.Kind == "" {
		gotRaw = t.rawOfString(got.Val)
		c.Inc("outcome_value")
	} else if isOverUnder(got.Kind) {
		c.Inc("outcome_range_failure")
	} else {
		c.Inc("outcome_" + got.Kind)
	}
	if c15judge(exp, got.Kind, gotRaw) {
		return
	}
	gotClass := "value"
	if got.Kind != "" {
		gotClass = "fail:" + got.Kind
	}
	expDesc := exp.class()
	if exp.Fail == "" {
		expDesc = "value:" + t.literal(exp.Value)
	}
	r := ""
	if rule != "" {
		r = "[" + rule + "]"
	}
	sign := "nonneg"
	if raw.Sign() < 0 {
		sign = "neg"
	}
	// where the expected result sits: a non-zero source whose result is zero, or a result on a target bound
	mag := ""
	if exp.Fail == "" {
		switch {
		case exp.Value.Sign() == 0 && raw.Sign() != 0:
			mag = ",to-zero"
		case t.minRaw() != nil && exp.Value.Cmp(t.minRaw()) == 0 && exp.Value.Sign() != 0:
			mag = ",to-min"
		case t.maxRaw() != nil && exp.Value.Cmp(t.maxRaw()) == 0:
			mag = ",to-max"
		}
	}
	// ties only matter to the two nearest-half rules
	if class != "exact" && rule != "nearestHalfAway" && rule != "nearestHalfEven" {
		class = "frac"
	}
	key := fmt.Sprintf("%s%s->%s%s{%s,%s%s} expected=%s got=%s", where, s.Name, t.Name, r, class, sign, mag, exp.class(), gotClass)
	w := map[string]any{"source_type": s.Name, "target_type": t.Name, "rounding": rule, "source": s.literal(raw), "expected": expDesc, "observed": got.describe()}
	for k, v := range extra {
		w[k] = v
	}
	c.Violate(key, fmt.Sprintf("%s(%s as %s)%s: expected %s, observed %s", t.Name, s.literal(raw), s.Name, r, expDesc, got.describe()), w)
}

// c16sources: source values of type s interesting for target t.
func c16sources(s, t numT) []*big.Int {
	var out []*big.Int
	seen := map[string]bool{}
	add := func(x *big.Int) {
		if !s.inRangeRaw(x) || seen[x.String()] {
			return
		}
		seen[x.String()] = true
		out = append(out, x)
	}
	unit := pow10(s.scale()) // 1.0 in source raw units
	around := func(x *big.Int) {
		for _, d := range []*big.Int{bi(0), bi(1), bi(-1), bi(2), bi(-2), unit, new(big.Int).Neg(unit),
			new(big.Int).Div(unit, bi(2)), new(big.Int).Neg(new(big.Int).Div(unit, bi(2)))} {
			add(new(big.Int).Add(x, d))
		}
	}
	// target bounds expressed in the source's raw units (floor and ceil when not exact)
	bound := func(b *big.Int) {
		if b == nil {
			return
		}
		n := new(big.Int).Mul(b, pow10(s.scale()))
		d := pow10(t.scale())
		q, m := new(big.Int).DivMod(n, d, new(big.Int)) // floor
		around(q)
		if m.Sign() != 0 {
			around(new(big.Int).Add(q, bi(1)))
		}
	}
	bound(t.minRaw())
	bound(t.maxRaw())
	if !t.IsFix && t.Int.Bits != 0 {
		// modulus of Word targets and its multiples
		m := new(big.Int).Mul(pow2(t.Int.Bits), unit)
		around(m)
		around(new(big.Int).Neg(m))
		around(new(big.Int).Mul(m, bi(3)))
		if !t.Int.Signed {
			// 2^(n-1)
			around(new(big.Int).Mul(pow2(t.Int.Bits-1), unit))
		}
	}
	around(bi(0))
	around(unit)
	around(new(big.Int).Neg(unit))
	if mn := s.minRaw(); mn != nil {
		around(mn)
	} else {
		around(new(big.Int).Neg(pow2(300)))
	}
	if mx := s.maxRaw(); mx != nil {
		around(mx)
	} else {
		around(pow2(300))
	}
	// Go int boundaries (ToInt is used by generic converters)
	for _, k := range []int{31, 32, 63, 64} {
		around(new(big.Int).Mul(pow2(k), unit))
		around(new(big.Int).Neg(new(big.Int).Mul(pow2(k), unit)))
	}
	if s.IsFix {
		// fractional patterns: x.5, ties and near-ties at the 8-digit scale of Fix64 targets
		if s.scale() > 8 {
			u8 := pow10(s.scale() - 8) // one Fix64 unit in source raw units
			h := new(big.Int).Div(u8, bi(2))
			for _, k := range []int64{0, 1, 2, 3, 100000000, 250000001} {
				base := new(big.Int).Mul(bi(k), u8)
				for _, off := range []*big.Int{h, new(big.Int).Add(h, bi(1)), new(big.Int).Sub(h, bi(1)), bi(1), new(big.Int).Sub(u8, bi(1))} {
					v := new(big.Int).Add(base, off)
					add(v)
					add(new(big.Int).Neg(v))
				}
			}
		}
	}
	return out
}

func c16random(c *core.Ctx, s numT) *big.Int {
	if s.IsFix {
		return num.FixRandom(s.Fix, c.Rng)
	}
	return num.Random(s.Int, c.Rng)
}

func c16randomFor(c *core.Ctx, s, t numT, cands []*big.Int) *big.Int {
	switch c.Rng.IntN(4) {
	case 0:
		return cands[c.Rng.IntN(len(cands))]
	case 1:
		// a boundary candidate plus a small random fraction / offset
		x := new(big.Int).Add(cands[c.Rng.IntN(len(cands))], randBits(c.Rng, 1+c.Rng.IntN(40)))
		if s.inRangeRaw(x) {
			return x
		}
	}
	return c16random(c, s)
}

var c16ruleNames = []string{"towardZero", "awayFromZero", "nearestHalfAway", "nearestHalfEven"}

func c16scriptCases(tier string) int {
	if tier == "thorough" {
		return len(c16types) * 16
	}
	return len(c16types)
}

func init() {
	nT := len(c16types)
	core.Register(&core.Prop{
		ID: "C16",
		Rule: "every (source, target) pair among the concrete numeric types of sema.AllNumberTypes (abstract supertypes removed; count reported as max:concrete_types): source values at and around every target bound (expressed in the source type, +-0/1/2 raw units, +-1.0, +-0.5), Word moduli, source extremes, Go-int boundaries, fractional ties at the 8-digit scale, plus seeded random values; direct calls of the exported converter (and the rounding converter x 4 rules where the type declares one) and script calls T(x) / T(x, rounding: r) on engines I, V, Vp; a case is distinct by (source type, target type, rule, value)",
		Assumptions: []string{
			"oracle = exact rational value of the source (math/big); results are read back through the value's decimal String()",
			"either Overflow or Underflow is accepted for an unrepresentable value",
			"for Word targets the integer part is the value truncated toward zero, reduced modulo 2^n into [0, 2^n)",
		},
		NumCases:   func(tier string) int { return nT + nT*map[string]int{"quick": 1, "thorough": 16}[tier] + c16scriptCases(tier) },
		Exhaustive: func(string) bool { return false },
		Floors: map[string]int64{
			"pairs_direct": int64(nT*nT) * 4 / 5, "pairs_script": int64(nT*nT) * 4 / 5,
			"outcome_value": 20000, "outcome_range_failure": 10000, "word_wrapped": 2000, "fraction_dropped": 2000,
			"rounding_calls": 2000, "rounded_with_rule_tie": 20, "rounded_with_rule_inexact": 200, "rounded_away": 100,
			"script_runs_I": 500, "script_runs_V": 500, "script_runs_Vp": 500, "script_rounding": 50,
		},
		Run: func(c *core.Ctx) {
			if len(c16missing) > 0 {
				c.Violate("harness-table-missing-type", fmt.Sprintf("numeric types without an oracle table entry: %v", c16missing), c16missing)
			}
			c.Max("concrete_types", int64(nT))
			randCases := nT * c.Pick(1, 16)
			switch {
			case c.Case < nT:
				c16directCase(c, c16types[c.Case], false)
			case c.Case < nT+randCases:
				c16directCase(c, c16types[(c.Case-nT)%nT], true)
			default:
				c16scriptCase(c, c16types[(c.Case-nT-randCases)%nT])
			}
		},
	})
}

func c16directCase(c *core.Ctx, s numT, random bool) {
	for _, t := range c16types {
		decl := c16decl(t.Name)
		if decl == nil {
			c.Violate("no-converter-declaration "+t.Name, "no interpreter.ConverterDeclarations entry", t.Name)
			continue
		}
		cands := c16sources(s, t)
		var vals []*big.Int
		if random {
			for i := 0; i < 400; i++ {
				vals = append(vals, c16randomFor(c, s, t, cands))
			}
		} else {
			vals = cands
			c.Inc("pairs_direct")
		}
		for _, raw := range vals {
			v := s.make(raw)
			c.Eval(1)
			exp, class := c16expect(c, s, raw, t, "")
			got := c16convertDirect(decl, v, -1)
			c16check(c, "", s, t, "", class, raw, exp, got, nil)
			c.DistinctHash(hashParts(s.Name, t.Name, "", raw))
			if decl.ConvertWithRounding != nil {
				for ri, rn := range c16ruleNames {
					c.Eval(1)
					c.Inc("rounding_calls")
					exp, class := c16expect(c, s, raw, t, rn)
					got := c16convertDirect(decl, v, ri)
					c16check(c, "", s, t, rn, class, raw, exp, got, nil)
					c.DistinctHash(hashParts(s.Name, t.Name, rn, raw))
				}
			}
		}
	}
	if c.WantSample() {
		t := c16types[0]
		c.Sample(map[string]any{"source_type": s.Name, "random": random, "targets": len(c16types),
			"example_sources_for_" + t.Name: len(c16sources(s, t))})
	}
}

func c16scriptCase(c *core.Ctx, s numT) {
	per := 3
	for _, t := range c16types {
		decl := c16decl(t.Name)
		cands := c16sources(s, t)
		c.Inc("pairs_script")
		for i := 0; i < per; i++ {
			raw := c16randomFor(c, s, t, cands)
			if i == 0 {
				raw = cands[c.Rng.IntN(len(cands))]
			}
			rule := ""
			if decl != nil && decl.ConvertWithRounding != nil && c.Rng.IntN(2) == 0 {
				rule = c16ruleNames[c.Rng.IntN(4)]
				c.Inc("script_rounding")
			}
			exp, class := c16expect(nil, s, raw, t, rule)
			call := t.Name + "(x)"
			if rule != "" {
				call = t.Name + "(x, rounding: RoundingRule." + rule + ")"
			}
			src := fmt.Sprintf("access(all) fun main(): %s {\n let x: %s = %s\n return %s\n}", t.Name, s.Name, s.literal(raw), call)
			// the same conversion by direct call: a script result that equals it is the same behaviour
			// and is reported under the direct-call key; only an engine-specific deviation gets an engine key
			ri := -1
			for i, rn := range c16ruleNames {
				if rn == rule {
					ri = i
				}
			}
			direct := callOutcome{Kind: "no-converter"}
			if decl != nil {
				direct = c16convertDirect(decl, s.make(raw), ri)
			}
			for _, eng := range host.AllEngines {
				h := host.New()
				out := h.RunScript(eng, src, nil, nil)
				c.Eval(1)
				c.Inc("script_runs_" + eng.String())
				got := callOutcome{}
				if out.Err != nil || out.Escaped != nil {
					got.Kind = failKindOf(out)
					got.Raw = host.ErrText(out)
				} else {
					got.Val = strVal(out.Value.String())
				}
				where := "script[" + eng.String() + "] "
				if got.describe() == direct.describe() {
					where = ""
					c.Inc("script_equals_direct")
				}
				c16check(c, where, s, t, rule, class, raw, exp, got,
					map[string]any{"engine": eng.String(), "script": src, "error": fmt.Sprint(got.Raw), "direct_call": direct.describe()})
			}
			c.DistinctHash(hashParts(s.Name, t.Name, "script"+rule, raw))
			if i == 0 && c.WantSample() {
				c.Sample(map[string]any{"script": src, "expected": exp.class()})
			}
		}
	}
}
