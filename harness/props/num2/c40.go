package num2

import (
	"fmt"
	"math/big"
	"strings"
	"unicode/utf8"

	"github.com/onflow/cadence"
	"golang.org/x/text/unicode/norm"

	"verif/harness/core"
	"verif/harness/host"
	"verif/harness/num"
)

// C40 — literals denote their written values.
//
// Observed: the checker's verdict (error kinds of the ParsingCheckingError of a script) and, when the
// program is accepted, the value the script returns on engines I, V, Vp.
// Oracle: the harness generates each literal from a mathematical value / code point sequence it chose itself
// (so the denoted value is known by construction, never re-parsed from the text):
//   integer literal, base 2/8/10/16, underscores between digits, leading zeros, optional `-` (signed
//   types and untyped only): rejected with a range error iff value outside range(T); else returns value
//   fixed-point literal: rejected iff more fraction digits than the scale or value out of range; else exact
//   string / character literal with escapes: the result's UTF-8 is canonically equivalent (NFC) to the
//   intended code points; escapes naming no Unicode scalar value cannot yield them, so accepting them is
//   reported.

type c40lit struct {
	Kind     string // int | fix | str | chr
	TypeName string // "" = untyped (integers: Int)
	Text     string // literal source text
	// expectation
	Reject     bool   // the checker must reject
	RejectWhy  string // range | scale | scale+range | invalid-code-point
	Value      string // expected rendering (toString) of the value: integers decimal, fixed via raw
	Raw        *big.Int
	Fix        *num.FixType
	Runes      []rune // intended code points (strings)
	Shape      string // for keys: base / perturbations
	BadCP      string // class of an invalid code point, if any
	FracDigits int
}

func c40intLiteral(c *core.Ctx, v *big.Int, allowNeg bool) (text, shape string) {
	base := []int{2, 8, 10, 16}[c.Rng.IntN(4)]
	digits := new(big.Int).Abs(v).Text(base)
	if base == 16 && c.Rng.IntN(2) == 0 {
		digits = strings.ToUpper(digits)
	}
	shape = fmt.Sprintf("base%d", base)
	if c.Rng.IntN(4) == 0 {
		digits = strings.Repeat("0", 1+c.Rng.IntN(4)) + digits
		shape += "+leading-zeros"
	}
	if c.Rng.IntN(3) == 0 && len(digits) > 1 {
		n := 1 + c.Rng.IntN(3)
		for i := 0; i < n; i++ {
			p := 1 + c.Rng.IntN(len(digits)-1)
			if digits[p-1] == '_' || digits[p] == '_' {
				continue
			}
			digits = digits[:p] + "_" + digits[p:]
		}
		if strings.Contains(digits, "_") {
			shape += "+underscores"
		}
	}
	prefix := map[int]string{2: "0b", 8: "0o", 10: "", 16: "0x"}[base]
	text = prefix + digits
	if v.Sign() < 0 {
		text = "-" + text
		shape += "+negative"
	} else if allowNeg && v.Sign() == 0 && c.Rng.IntN(4) == 0 {
		text = "-" + text
		// one shape for every spelling of a negated zero (base, zeros, underscores are in the witness)
		shape = "negative-zero"
		c.Inc("int_negative_zero")
	}
	return
}

func c40genInt(c *core.Ctx) c40lit {
	untyped := c.Rng.IntN(12) == 0
	var t num.IntType
	if untyped {
		t = num.IntTypeByName("Int")
	} else {
		t = num.IntTypes[c.Rng.IntN(len(num.IntTypes))]
	}
	// value: around the type's bounds, small, or a long random number (up to ~300 digits)
	var v *big.Int
	switch c.Rng.IntN(6) {
	case 0, 1, 2:
		var b *big.Int
		if c.Rng.IntN(2) == 0 {
			b = t.Max()
		} else {
			b = t.Min()
		}
		if b == nil {
			b = pow2(64 * (1 + c.Rng.IntN(4)))
			if c.Rng.IntN(2) == 0 {
				b.Neg(b)
			}
		}
		v = new(big.Int).Add(b, bi(int64(c.Rng.IntN(5))-2))
	case 3:
		v = bi(int64(c.Rng.IntN(300)) - 40)
	case 4:
		v = randBits(c.Rng, 1+c.Rng.IntN(1000))
		if c.Rng.IntN(2) == 0 {
			v.Neg(v)
		}
	default:
		v = num.Random(t, c.Rng)
	}
	if !t.Signed && v.Sign() < 0 {
		// `-x` on an unsigned type is a unary minus the checker rejects as a type mismatch, not a literal
		v.Neg(v)
	}
	text, shape := c40intLiteral(c, v, t.Signed)
	l := c40lit{Kind: "int", Text: text, Shape: shape, Raw: v, Value: v.String()}
	if !untyped {
		l.TypeName = t.Name
	}
	if !t.InRange(v) {
		l.Reject, l.RejectWhy = true, "range"
	}
	return l
}

func c40genFix(c *core.Ctx) c40lit {
	ft := num.FixTypes[c.Rng.IntN(len(num.FixTypes))]
	f := ft.Factor()
	// choose integer part and fraction digits independently: fraction digit count 1..scale+2
	nd := 1 + c.Rng.IntN(ft.Scale+2)
	if c.Rng.IntN(3) == 0 {
		nd = 1 + c.Rng.IntN(3)
	}
	var ip *big.Int
	maxInt := new(big.Int).Quo(ft.MaxRaw(), f)
	minInt := new(big.Int).Quo(ft.MinRaw(), f) // <= 0
	neg := false
	switch c.Rng.IntN(5) {
	case 0, 1:
		ip = new(big.Int).Add(maxInt, bi(int64(c.Rng.IntN(3))-1))
	case 2:
		if ft.Signed {
			ip = new(big.Int).Add(new(big.Int).Neg(minInt), bi(int64(c.Rng.IntN(3))-1))
			neg = true
		} else {
			ip = bi(int64(c.Rng.IntN(5)))
		}
	case 3:
		ip = bi(int64(c.Rng.IntN(1000)))
	default:
		ip = randBits(c.Rng, 1+c.Rng.IntN(ft.Bits-20))
	}
	if ip.Sign() < 0 {
		ip = bi(0)
	}
	if ft.Signed && !neg && c.Rng.IntN(3) == 0 {
		neg = true
	}
	// fraction digits: random, or the leading digits of the bound's fraction +-1 (straddles the range)
	frac := c17digits(c, nd)
	if c.Rng.IntN(2) == 0 {
		b := ft.MaxRaw()
		if neg {
			b = new(big.Int).Neg(ft.MinRaw())
		}
		bf := new(big.Int).Rem(b, f).String()
		bf = strings.Repeat("0", ft.Scale-len(bf)) + bf
		if nd <= ft.Scale {
			d, _ := new(big.Int).SetString(bf[:nd], 10)
			d.Add(d, bi(int64(c.Rng.IntN(3))-1))
			if d.Sign() >= 0 && len(d.String()) <= nd {
				frac = fmt.Sprintf("%0*s", nd, d.String())
			}
		}
	}
	ipText := ip.String()
	shape := "full-scale"
	if c.Rng.IntN(5) == 0 {
		ipText = strings.Repeat("0", 1+c.Rng.IntN(3)) + ipText
		c.Inc("fix_leading_zeros")
	}
	text := ipText + "." + frac
	if neg {
		text = "-" + text
	}
	l := c40lit{Kind: "fix", TypeName: ft.Name, Text: text, Shape: shape, Fix: &ft, FracDigits: nd}
	if nd < ft.Scale {
		l.Shape = "fewer-fraction-digits-than-scale"
	} else if nd > ft.Scale {
		l.Shape = "more-fraction-digits-than-scale"
	}
	// exact value at scale max(nd, scale)
	if nd > ft.Scale {
		l.Reject, l.RejectWhy = true, "scale"
		// also out of range?
		return l
	}
	raw, _ := new(big.Int).SetString(ip.String()+frac+strings.Repeat("0", ft.Scale-nd), 10)
	if neg {
		raw.Neg(raw)
	}
	l.Raw = raw
	if !ft.InRangeRaw(raw) {
		l.Reject, l.RejectWhy = true, "range"
		return l
	}
	l.Value = num.FixString(ft, raw)
	return l
}

var c40simpleEscapes = []struct {
	text string
	r    rune
}{{`\0`, 0}, {`\\`, '\\'}, {`\t`, '\t'}, {`\n`, '\n'}, {`\r`, '\r'}, {`\"`, '"'}, {`\'`, '\''}}

func c40randRune(c *core.Ctx) rune {
	for {
		var r rune
		switch c.Rng.IntN(6) {
		case 0:
			r = rune(0x20 + c.Rng.IntN(0x5f))
		case 1:
			r = rune(0xa0 + c.Rng.IntN(0x700))
		case 2:
			r = rune(0x300 + c.Rng.IntN(0x70)) // combining marks
		case 3:
			r = rune(0x1F300 + c.Rng.IntN(0x400))
		case 4:
			r = []rune{0, 1, 0x7f, 0xD7FF, 0xE000, 0xFFFD, 0xFFFF, 0x10000, 0x10FFFF, 0x200D, 0xFE0F, 0x1F1E6, 0x1F1FA}[c.Rng.IntN(13)]
		default:
			r = rune(c.Rng.IntN(0x110000))
		}
		if utf8.ValidRune(r) {
			return r
		}
	}
}

func c40genStr(c *core.Ctx) c40lit {
	l := c40lit{Kind: "str", TypeName: "String", Shape: "valid"}
	var sb strings.Builder
	n := 1 + c.Rng.IntN(12)
	bad := c.Rng.IntN(8) == 0
	badAt := c.Rng.IntN(n)
	for i := 0; i < n; i++ {
		if bad && i == badAt {
			var cp int
			switch c.Rng.IntN(3) {
			case 0:
				cp = 0xD800 + c.Rng.IntN(0x800)
				l.BadCP = "surrogate"
			case 1:
				cp = 0x110000 + c.Rng.IntN(0xEF0000)
				l.BadCP = "above-10FFFF"
			default:
				cp = 0x1000000 + c.Rng.IntN(0xF000000) // 7 hex digits
				l.BadCP = "seven-hex-digits"
			}
			fmt.Fprintf(&sb, `\u{%X}`, cp)
			l.Reject, l.RejectWhy, l.Shape = true, "invalid-code-point", "invalid-code-point:"+l.BadCP
			continue
		}
		switch c.Rng.IntN(4) {
		case 0:
			e := c40simpleEscapes[c.Rng.IntN(len(c40simpleEscapes))]
			sb.WriteString(e.text)
			l.Runes = append(l.Runes, e.r)
		case 1, 2:
			r := c40randRune(c)
			h := fmt.Sprintf("%x", r)
			if c.Rng.IntN(2) == 0 {
				h = strings.ToUpper(h)
			}
			if len(h) < 6 && c.Rng.IntN(3) == 0 {
				h = strings.Repeat("0", 1+c.Rng.IntN(6-len(h))) + h
			}
			sb.WriteString(`\u{` + h + `}`)
			l.Runes = append(l.Runes, r)
		default:
			// raw text (not ", \, control characters or line breaks)
			r := c40randRune(c)
			if r < 0x20 || r == '"' || r == '\\' || r == 0x7f || r == 0x85 || r == 0x2028 || r == 0x2029 {
				r = 'z'
			}
			sb.WriteRune(r)
			l.Runes = append(l.Runes, r)
		}
	}
	l.Text = `"` + sb.String() + `"`
	return l
}

func c40genChr(c *core.Ctx) c40lit {
	l := c40lit{Kind: "chr", TypeName: "Character", Shape: "valid"}
	base := c40randRune(c)
	for base < 0x21 || (base >= 0x7f && base < 0xa1) || (base >= 0x300 && base < 0x370) || base == 0x200D || base == 0xFE0F || base > 0x2FFFF || (base >= 0x1F1E6 && base <= 0x1F1FF) || base == 0xFFFD || base == 0xFFFF {
		base = rune(0x41 + c.Rng.IntN(26))
	}
	l.Runes = []rune{base}
	text := fmt.Sprintf(`\u{%x}`, base)
	if c.Rng.IntN(2) == 0 && base < 0x250 {
		m := rune(0x300 + c.Rng.IntN(5))
		l.Runes = append(l.Runes, m)
		text += fmt.Sprintf(`\u{%x}`, m)
	}
	l.Text = `"` + text + `"`
	return l
}

// ---- running

func (l c40lit) decl(i int) string {
	switch l.Kind {
	case "int", "fix":
		if l.TypeName == "" {
			return fmt.Sprintf(" let x%d = %s\n r.append(x%d.toString())\n", i, l.Text, i)
		}
		return fmt.Sprintf(" let x%d: %s = %s\n r.append(x%d.toString())\n", i, l.TypeName, l.Text, i)
	case "str":
		return fmt.Sprintf(" let x%d: String = %s\n r.append(String.encodeHex(x%d.utf8))\n", i, l.Text, i)
	case "chr":
		return fmt.Sprintf(" let x%d: Character = %s\n r.append(String.encodeHex(x%d.toString().utf8))\n", i, l.Text, i)
	}
	panic(l.Kind)
}

func c40script(ls []c40lit) string {
	var sb strings.Builder
	sb.WriteString("access(all) fun main(): [String] {\n let r: [String] = []\n")
	for i, l := range ls {
		sb.WriteString(l.decl(i))
	}
	sb.WriteString(" return r\n}")
	return sb.String()
}

func c40key(l c40lit, what string) string {
	tn := l.TypeName
	if tn == "" {
		tn = "untyped"
	}
	return fmt.Sprintf("%s-literal %s {%s} %s", l.Kind, tn, l.Shape, what)
}

// c40judgeValue compares one accepted literal's observed rendering
func c40judgeValue(c *core.Ctx, l c40lit, got string, eng host.Engine, src string) {
	ok := false
	expDesc := l.Value
	switch l.Kind {
	case "int":
		ok = got == l.Value
	case "fix":
		if okr, _, _, _, _ := c17read(got); okr {
			ok = num.RawOf(*l.Fix, strVal(got)).Cmp(l.Raw) == 0
		}
	case "str", "chr":
		want := norm.NFC.String(string(l.Runes))
		expDesc = fmt.Sprintf("%x (NFC of %U)", want, l.Runes)
		b, err := hexDecode(got)
		ok = err == nil && norm.NFC.String(string(b)) == want
	}
	c.Inc("accepted_" + l.Kind)
	if ok {
		return
	}
	c.Violate(c40key(l, "wrong-value"),
		fmt.Sprintf("engine %s: %s literal %s (type %s) evaluates to %s, expected %s", eng, l.Kind, core.Clip(l.Text, 200), l.TypeName, core.Clip(got, 200), core.Clip(expDesc, 200)),
		map[string]any{"engine": eng.String(), "script": core.Clip(src, 4000), "literal": l.Text, "expected": expDesc, "observed": got})
}

func hexDecode(s string) ([]byte, error) {
	if len(s)%2 != 0 {
		return nil, fmt.Errorf("odd")
	}
	out := make([]byte, len(s)/2)
	for i := range out {
		var v byte
		if _, err := fmt.Sscanf(s[2*i:2*i+2], "%02x", &v); err != nil {
			return nil, err
		}
		out[i] = v
	}
	return out, nil
}

// c40single runs one literal alone on one engine and judges verdict + value.
func c40single(c *core.Ctx, l c40lit, eng host.Engine) {
	src := c40script([]c40lit{l})
	out := host.New().RunScript(eng, src, nil, nil)
	c.Eval(1)
	c.Inc("script_runs_" + eng.String())
	if out.Escaped != nil {
		c.Violate(c40key(l, "escaped-panic"), host.ErrText(out), map[string]any{"script": src})
		return
	}
	if out.Err == nil {
		arr, ok := out.Value.(cadence.Array)
		if !ok || len(arr.Values) != 1 {
			c.Violate("result-shape", "unexpected result", map[string]any{"script": src})
			return
		}
		got := string(arr.Values[0].(cadence.String))
		if l.Reject {
			c.Inc("expected_reject_but_accepted")
			what := "accepted-although-" + l.RejectWhy
			c.Violate(c40key(l, what),
				fmt.Sprintf("engine %s: %s literal %s for type %s is accepted (evaluates to %s) although it must be rejected (%s)", eng, l.Kind, core.Clip(l.Text, 200), l.TypeName, core.Clip(got, 100), l.RejectWhy),
				map[string]any{"engine": eng.String(), "script": src, "literal": l.Text, "observed": got, "reason": l.RejectWhy})
			return
		}
		c40judgeValue(c, l, got, eng, src)
		return
	}
	// failed: which kind
	kinds := strings.Join(host.ErrKinds(out.Err), ",")
	rangeErr := strings.Contains(kinds, "InvalidIntegerLiteralRangeError") || strings.Contains(kinds, "InvalidFixedPointLiteralRangeError")
	scaleErr := strings.Contains(kinds, "InvalidFixedPointLiteralScaleError")
	if l.Reject {
		c.Inc("rejected_" + l.Kind)
		okKind := false
		switch l.RejectWhy {
		case "range":
			okKind = rangeErr
		case "scale":
			okKind = scaleErr || rangeErr
		case "invalid-code-point":
			okKind = host.Classify(out) == host.ClassUser
		}
		if !okKind {
			c.Violate(c40key(l, "rejected-with-unexpected-error"),
				fmt.Sprintf("engine %s: literal %s for %s rejected, but not with a %s error: %s", eng, core.Clip(l.Text, 200), l.TypeName, l.RejectWhy, kinds),
				map[string]any{"engine": eng.String(), "script": src, "error": host.ErrText(out)})
		}
		return
	}
	what := "rejected-although-valid"
	if ks := host.ErrKinds(out.Err); len(ks) > 0 {
		what += "(" + strings.TrimPrefix(ks[len(ks)-1], "*") + ")"
	}
	if rangeErr {
		what = "rejected-as-out-of-range-although-in-range"
	} else if scaleErr {
		what = "rejected-for-scale-although-within-scale"
	}
	c.Violate(c40key(l, what),
		fmt.Sprintf("engine %s: %s literal %s for type %s rejected (%s) although its value %s is representable", eng, l.Kind, core.Clip(l.Text, 200), l.TypeName, kinds, core.Clip(l.Value, 100)),
		map[string]any{"engine": eng.String(), "script": src, "error": host.ErrText(out), "literal": l.Text})
}

func c40runBatch(c *core.Ctx, accept []c40lit) {
	if len(accept) == 0 {
		return
	}
	src := c40script(accept)
	for _, eng := range host.AllEngines {
		out := host.New().RunScript(eng, src, nil, nil)
		c.Inc("script_runs_" + eng.String())
		arr, ok := out.Value.(cadence.Array)
		if out.Err != nil || out.Escaped != nil || !ok || len(arr.Values) != len(accept) {
			// some literal of the batch was rejected or failed: judge them one by one
			c.Inc("batches_split")
			for _, l := range accept {
				c40single(c, l, eng)
			}
			continue
		}
		c.Eval(int64(len(accept)))
		for i, l := range accept {
			c40judgeValue(c, l, string(arr.Values[i].(cadence.String)), eng, src)
		}
	}
}

func init() {
	core.Register(&core.Prop{
		ID: "C40",
		Rule: "literals generated from values chosen by the harness: integer literals in base 2/8/10/16 with underscores between digits, leading zeros, 1..~300 digits, optional negation, as `let x: T = <lit>` for all 20 integer types and untyped; fixed-point literals for the 4 types with 1..scale+2 fraction digits and integer parts at/around the bounds; string and character literals mixing raw text, the seven simple escapes and \\u{1-6 hex digits} (leading zeros, both cases), plus escapes naming surrogates / values above 10FFFF; literals expected to be accepted are run in batches of 20 (split and re-run singly when the batch fails), literals expected to be rejected singly; engines I, V, Vp; distinct by (kind, type, literal text)",
		Assumptions: []string{
			"the denoted value is known by construction (the literal text is rendered from it), never re-parsed by the harness",
			"`-x` for an unsigned type is a unary minus (type mismatch), not a literal, and is not generated",
			"string results are compared up to canonical equivalence (NFC, golang.org/x/text/unicode/norm) because Cadence normalises string literals",
			"a scale violation may be reported by the checker as a scale or as a range error",
		},
		NumCases:   func(tier string) int { return map[string]int{"quick": 48, "thorough": 800}[tier] },
		Exhaustive: func(string) bool { return false },
		Floors: map[string]int64{
			"accepted_int": 3000, "accepted_fix": 800, "accepted_str": 800, "accepted_chr": 300,
			"rejected_int": 300, "rejected_fix": 100, "int_base2": 300, "int_base8": 300, "int_base10": 300, "int_base16": 300,
			"int_underscores": 300, "int_leading_zeros": 300, "int_negative_zero": 20, "fix_leading_zeros": 100, "fix_fewer_digits_than_scale": 200, "fix_at_bound_integer_part": 200,
			"str_unicode_escapes": 1000, "str_simple_escapes": 500, "str_invalid_code_points": 50,
			"script_runs_I": 300, "script_runs_V": 300, "script_runs_Vp": 300,
		},
		Run: func(c *core.Ctx) {
			var lits []c40lit
			for i := 0; i < 120; i++ {
				l := c40genInt(c)
				for _, b := range []string{"base2", "base8", "base10", "base16"} {
					if strings.HasPrefix(l.Shape, b) && (len(l.Shape) == len(b) || l.Shape[len(b)] == '+') {
						c.Inc("int_" + b)
					}
				}
				if strings.Contains(l.Shape, "underscores") {
					c.Inc("int_underscores")
				}
				if strings.Contains(l.Shape, "leading-zeros") {
					c.Inc("int_leading_zeros")
				}
				lits = append(lits, l)
			}
			if c.Case < 4 {
				// every signed type gets a negated zero in one spelling per case (deterministic coverage)
				for _, t := range num.IntTypes {
					if !t.Signed {
						continue
					}
					text := []string{"-0", "-0x0", "-0b00", "-0o0_0"}[c.Case]
					c.Inc("int_negative_zero")
					lits = append(lits, c40lit{Kind: "int", TypeName: t.Name, Text: text, Shape: "negative-zero", Raw: bi(0), Value: "0"})
				}
			}
			nInt := len(lits)
			for i := 0; i < 60; i++ {
				l := c40genFix(c)
				if strings.Contains(l.Shape, "fewer-fraction") {
					c.Inc("fix_fewer_digits_than_scale")
				}
				f := l.Fix.Factor()
				ipart := new(big.Int)
				if l.Raw != nil {
					ipart.Quo(new(big.Int).Abs(l.Raw), f)
					if ipart.Cmp(new(big.Int).Quo(l.Fix.MaxRaw(), f)) == 0 || (l.Fix.Signed && ipart.Cmp(new(big.Int).Quo(new(big.Int).Neg(l.Fix.MinRaw()), f)) == 0) {
						c.Inc("fix_at_bound_integer_part")
					}
				}
				lits = append(lits, l)
			}
			for i := 0; i < 40; i++ {
				l := c40genStr(c)
				c.Count("str_unicode_escapes", int64(strings.Count(l.Text, `\u{`)))
				c.Count("str_simple_escapes", int64(strings.Count(l.Text, `\`)-strings.Count(l.Text, `\u{`)))
				if l.Reject {
					c.Inc("str_invalid_code_points")
				}
				lits = append(lits, l)
			}
			for i := 0; i < 15; i++ {
				lits = append(lits, c40genChr(c))
			}
			var batch []c40lit
			for _, l := range lits {
				c.Distinct(l.Kind + "\x00" + l.TypeName + "\x00" + l.Text)
				if l.Reject {
					for _, eng := range host.AllEngines {
						c40single(c, l, eng)
					}
					continue
				}
				batch = append(batch, l)
				if len(batch) == 20 {
					c40runBatch(c, batch)
					batch = nil
				}
			}
			c40runBatch(c, batch)
			if c.WantSample() {
				c.Sample(map[string]any{"int": lits[0].Text, "int_type": lits[0].TypeName, "fix": lits[nInt].Text, "fix_type": lits[nInt].TypeName, "str": lits[nInt+60].Text})
			}
		},
	})
}
