package num2

import (
	"fmt"
	"math/big"

	"github.com/onflow/cadence/common"
	"github.com/onflow/cadence/interpreter"

	"verif/harness/core"
	"verif/harness/num"
)

// C32 — big-integer memory metering never under-reports.
//
// Events: the MemoryKindBigInt amounts metered (through the context's MeterMemory) during one direct call
// of Plus/Minus/Mul/Div/Mod/Negate/BitwiseOr/Xor/And/LeftShift/RightShift on Int, UInt, Int128, Int256,
// UInt128, UInt256, Word128, Word256 values.
// Oracle: sum of metered amounts >= len(result.Bits()) * word size (bytes), the result being read from
// the returned value (ToBigInt).

type meterCtx struct {
	interpreter.NoOpStringContext
	bigInt   *big.Int // sum of MemoryKindBigInt amounts (big: a wrapped estimate must not overflow the sum)
	maxOne   uint64
	calls    int
	anyOther uint64
}

func (m *meterCtx) MeterMemory(u common.MemoryUsage) error {
	if u.Kind == common.MemoryKindBigInt {
		m.bigInt.Add(m.bigInt, new(big.Int).SetUint64(u.Amount))
		if u.Amount > m.maxOne {
			m.maxOne = u.Amount
		}
		m.calls++
	} else {
		m.anyOther += u.Amount
	}
	return nil
}

var c32ops = []string{"+", "-", "*", "/", "%", "neg", "|", "^", "&", "<<", ">>"}

var c32typeNames = []string{"Int", "UInt", "Int128", "Int256", "UInt128", "UInt256", "Word128", "Word256"}

func c32call(ctx *meterCtx, op string, x, y interpreter.IntegerValue) callOutcome {
	return protect(func() fmt.Stringer {
		switch op {
		case "+":
			return x.Plus(ctx, y)
		case "-":
			return x.Minus(ctx, y)
		case "*":
			return x.Mul(ctx, y)
		case "/":
			return x.Div(ctx, y)
		case "%":
			return x.Mod(ctx, y)
		case "neg":
			return x.Negate(ctx)
		case "|":
			return x.BitwiseOr(ctx, y)
		case "^":
			return x.BitwiseXor(ctx, y)
		case "&":
			return x.BitwiseAnd(ctx, y)
		case "<<":
			return x.BitwiseLeftShift(ctx, y)
		case ">>":
			return x.BitwiseRightShift(ctx, y)
		}
		panic("bad op " + op)
	})
}

func wordLen(x *big.Int) int { return len(x.Bits()) }

// c32rel: operand-length relation class for keys
func c32rel(op string, a, b *big.Int) string {
	la, lb := wordLen(a), wordLen(b)
	if op == "neg" {
		return "unary"
	}
	if op == "<<" || op == ">>" {
		if !b.IsUint64() {
			return "shift>=2^64"
		}
		s := b.Uint64()
		switch {
		case s == 0:
			return "shift=0"
		case s < 64:
			return "shift<64"
		case s < uint64(64*la):
			return "64<=shift<bits(a)"
		}
		return "shift>=bits(a)"
	}
	switch {
	case la < lb:
		return "|a|<|b|"
	case la == lb:
		return "|a|==|b|"
	case la < 2*lb:
		return "|b|<|a|<2|b|"
	}
	return "|a|>=2|b|"
}

func c32signs(op string, a, b *big.Int) string {
	s := func(x *big.Int) string {
		switch x.Sign() {
		case -1:
			return "-"
		case 0:
			return "0"
		}
		return "+"
	}
	if op == "neg" || op == "<<" || op == ">>" {
		return "a" + s(a)
	}
	return "a" + s(a) + ",b" + s(b)
}

// c32operand draws an operand with a chosen word length: 2^(64k)-1, 2^(64k), 2^(64k)+1, random.
func c32operand(c *core.Ctx, t num.IntType, maxWords int) *big.Int {
	if t.Bits != 0 {
		maxWords = t.Bits / 64
	}
	var k int
	switch c.Rng.IntN(6) {
	case 0:
		k = c.Rng.IntN(4)
	case 1:
		k = 38 + c.Rng.IntN(6) // around the Karatsuba threshold 40
	case 2:
		k = 97 + c.Rng.IntN(6) // around the division threshold 100
	default:
		k = c.Rng.IntN(maxWords + 1)
	}
	if k > maxWords {
		k = maxWords
	}
	var x *big.Int
	switch c.Rng.IntN(6) {
	case 0:
		x = new(big.Int).Sub(pow2(64*k), bi(1))
	case 1:
		x = pow2(64 * k)
	case 2:
		x = new(big.Int).Add(pow2(64*k), bi(1))
	case 3:
		if k == 0 {
			x = bi(int64(c.Rng.IntN(3)))
		} else {
			// top word small, rest random
			x = randBits(c.Rng, 64*(k-1)+1+c.Rng.IntN(8))
		}
	default:
		if k == 0 {
			x = bi(0)
		} else {
			x = randBits(c.Rng, 64*k)
			x.SetBit(x, 64*k-1-c.Rng.IntN(8), 1)
		}
	}
	if t.Signed && c.Rng.IntN(2) == 0 {
		x.Neg(x)
	}
	if !t.InRange(x) {
		if t.Bits != 0 {
			x = t.Wrap(x)
		} else {
			x.Abs(x)
		}
	}
	return x
}

func c32shift(c *core.Ctx, t num.IntType) *big.Int {
	switch c.Rng.IntN(8) {
	case 0:
		return bi(int64(c.Rng.IntN(9)))
	case 1:
		return bi(int64(8 * c.Rng.IntN(1025))) // multiples of 8 up to 8192
	case 2:
		return bi(int64(64 * c.Rng.IntN(129))) // multiples of 64 up to 8192
	case 3:
		return bi(int64(64*c.Rng.IntN(129) + []int{-1, 1}[c.Rng.IntN(2)] + 1))
	case 4:
		if t.Bits != 0 {
			return bi(int64(c.Rng.IntN(t.Bits + 2)))
		}
	}
	n := bi(int64(c.Rng.IntN(8193)))
	if !t.InRange(n) {
		return bi(int64(c.Rng.IntN(100)))
	}
	return n
}

func init() {
	core.Register(&core.Prop{
		ID: "C32",
		Rule: "direct calls of Plus/Minus/Mul/Div/Mod/Negate/BitwiseOr/Xor/And/LeftShift/RightShift on Int and UInt values with word lengths 0..130 (values 2^(64k)-1, 2^(64k), 2^(64k)+1, random with a small or large top word, both signs, every length order, lengths around the Karatsuba (40) and division (100) thresholds; shift amounts 0..8192 incl. multiples of 8 and 64) and on Int128/Int256/UInt128/UInt256/Word128/Word256 values over their whole range, under a context that records every metered MemoryKindBigInt amount; distinct by (type, op, a, b)",
		Assumptions: []string{
			"the size of the result is len(result.Bits()) * common.BigIntWordSize, read from the returned value's ToBigInt copy (normalised, so never larger than the allocation)",
			"calls that fail (division by zero, overflow / underflow of a sized type, negative shift) produce no result and are not judged",
			"an estimate that wraps around to ~2^64 is counted (monitor implausible_estimates) but is not an under-report",
		},
		NumCases:   func(tier string) int { return map[string]int{"quick": 64, "thorough": 640}[tier] },
		Exhaustive: func(string) bool { return false },
		Floors: map[string]int64{
			"calls_with_result": 30000, "calls_failed": 500, "metered_events": 30000, "result_words_ge_40": 2000, "result_words_ge_100": 500,
			"shift_ge_64": 1000, "operands_both_ge_100_words": 200, "negative_operands": 5000, "sized_type_calls": 5000,
		},
		Run: func(c *core.Ctx) {
			n := c.Pick(400, 1000)
			for i := 0; i < n; i++ {
				var t num.IntType
				if c.Rng.IntN(3) == 0 {
					t = num.IntTypeByName(c32typeNames[2+c.Rng.IntN(len(c32typeNames)-2)])
				} else {
					t = num.IntTypeByName(c32typeNames[c.Rng.IntN(2)])
				}
				a := c32operand(c, t, 130)
				b := c32operand(c, t, 130)
				if c.Rng.IntN(5) == 0 {
					// same length, b slightly smaller / larger
					b = new(big.Int).Add(a, bi(int64(c.Rng.IntN(5))-2))
					if c.Rng.IntN(2) == 0 {
						b.Rsh(a, uint(c.Rng.IntN(70)))
					}
					if !t.InRange(b) {
						b = new(big.Int).Set(a)
					}
				}
				for _, op := range c32ops {
					bb := b
					if op == "<<" || op == ">>" {
						bb = c32shift(c, t)
					}
					if op == "neg" && !t.Signed {
						continue
					}
					c32one(c, t, op, a, bb)
				}
			}
		},
	})
}

func c32one(c *core.Ctx, t num.IntType, op string, a, b *big.Int) {
	x := t.Make(a).(interpreter.IntegerValue)
	y := t.Make(b).(interpreter.IntegerValue)
	ctx := &meterCtx{bigInt: new(big.Int)}
	c.Eval(1)
	got := c32call(ctx, op, x, y)
	c.DistinctHash(hashParts(t.Name, op, a, b))
	if t.Bits != 0 {
		c.Inc("sized_type_calls")
	}
	if a.Sign() < 0 || b.Sign() < 0 {
		c.Inc("negative_operands")
	}
	if (op == "<<" || op == ">>") && b.Cmp(bi(64)) >= 0 {
		c.Inc("shift_ge_64")
	}
	if wordLen(a) >= 100 && wordLen(b) >= 100 {
		c.Inc("operands_both_ge_100_words")
	}
	c.Count("metered_events", int64(ctx.calls))
	if ctx.maxOne > 1<<40 {
		c.Inc("implausible_estimates")
		if c.WantSample() {
			c.Sample(map[string]any{"implausible_estimate": ctx.maxOne, "type": t.Name, "op": op, "a_words": wordLen(a), "b": core.Clip(b.String(), 40)})
		}
	}
	if got.Kind != "" {
		c.Inc("calls_failed")
		return
	}
	c.Inc("calls_with_result")
	bn, ok := got.Val.(interface {
		ToBigInt(common.MemoryGauge) *big.Int
	})
	if !ok {
		c.Violate("result-not-a-big-number "+t.Name, fmt.Sprintf("%T has no ToBigInt", got.Val), nil)
		return
	}
	res := bn.ToBigInt(nil)
	rw := wordLen(res)
	if rw >= 40 {
		c.Inc("result_words_ge_40")
	}
	if rw >= 100 {
		c.Inc("result_words_ge_100")
	}
	size := int64(rw * common.BigIntWordSize)
	if ctx.bigInt.Cmp(bi(size)) >= 0 {
		return
	}
	key := fmt.Sprintf("%s.%s under-report rel=%s signs=%s", t.Name, op, c32rel(op, a, b), c32signs(op, a, b))
	c.Violate(key,
		fmt.Sprintf("%s %s: operands of %d and %d words (b=%s): metered %s bytes of BigInt memory, result occupies %d bytes (%d words)",
			t.Name, op, wordLen(a), wordLen(b), core.Clip(b.String(), 30), ctx.bigInt, size, rw),
		map[string]any{"type": t.Name, "op": op, "a": a.String(), "b": b.String(), "a_words": wordLen(a), "b_words": wordLen(b),
			"metered_bytes": ctx.bigInt.String(), "result_bytes": size, "metering_events": ctx.calls})
}
