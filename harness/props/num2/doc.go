// Package num2 holds the checks of group num2 (see harness/groups.txt).
package num2
