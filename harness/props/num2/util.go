package num2

import (
	"fmt"
	"math/big"
	"strings"

	"github.com/onflow/cadence/interpreter"

	"verif/harness/host"
	"verif/harness/num"
)

// Shared helpers of group num2 (copied in spirit from props/arith; not imported from there).

type callOutcome struct {
	Val  fmt.Stringer
	Kind string // "" = returned; otherwise panic / error kind
	Raw  any
}

func protect(f func() fmt.Stringer) (o callOutcome) {
	defer func() {
		if r := recover(); r != nil {
			o.Kind = num.PanicKind(r)
			o.Raw = r
		}
	}()
	o.Val = f()
	return
}

var noopCtx = interpreter.NoOpStringContext{}

func (o callOutcome) describe() string {
	if o.Kind != "" {
		return "fail:" + o.Kind
	}
	return "value:" + o.Val.String()
}

func isOverUnder(k string) bool { return k == "Overflow" || k == "Underflow" }

type strVal string

func (s strVal) String() string { return string(s) }

// failKindOf maps a script outcome to the same kind names num.PanicKind uses for direct calls.
func failKindOf(o host.Outcome) string {
	if o.Escaped != nil {
		return "ESCAPED"
	}
	if o.Err == nil {
		return ""
	}
	cls := host.Classify(o)
	ks := host.ErrKinds(o.Err)
	for _, k := range ks {
		switch {
		case strings.HasSuffix(k, "OverflowError"):
			return "Overflow"
		case strings.HasSuffix(k, "UnderflowError"):
			return "Underflow"
		case strings.HasSuffix(k, "DivisionByZeroError"):
			return "DivisionByZero"
		case strings.HasSuffix(k, "NegativeShiftError"):
			return "NegativeShift"
		case strings.HasSuffix(k, "MemoryMeteringError"):
			return "MemoryMetering"
		}
	}
	last := ""
	if len(ks) > 0 {
		last = ks[len(ks)-1]
	}
	return string(cls) + ":" + last
}

func hashParts(parts ...any) uint64 {
	h := uint64(14695981039346656037)
	mix := func(bs []byte) {
		for _, x := range bs {
			h ^= uint64(x)
			h *= 1099511628211
		}
		h ^= 0xff
		h *= 1099511628211
	}
	for _, p := range parts {
		switch v := p.(type) {
		case string:
			mix([]byte(v))
		case *big.Int:
			if v == nil {
				mix([]byte{0xfe})
			} else {
				mix(v.Bytes())
				mix([]byte{byte(v.Sign() + 1)})
			}
		case int:
			mix([]byte(fmt.Sprint(v)))
		default:
			mix([]byte(fmt.Sprint(v)))
		}
	}
	return h
}

func pow2(k int) *big.Int  { return new(big.Int).Lsh(big.NewInt(1), uint(k)) }
func pow10(k int) *big.Int { return new(big.Int).Exp(big.NewInt(10), big.NewInt(int64(k)), nil) }
func bi(x int64) *big.Int  { return big.NewInt(x) }

// randBits draws a non-negative integer of at most k bits.
func randBits(r interface{ Uint64() uint64 }, k int) *big.Int {
	x := new(big.Int)
	for i := 0; i < (k+63)/64; i++ {
		x.Lsh(x, 64)
		x.Or(x, new(big.Int).SetUint64(r.Uint64()))
	}
	x.And(x, new(big.Int).Sub(pow2(k), big.NewInt(1)))
	return x
}
