package num2

import (
	"fmt"
	"math/big"
	"strings"

	"github.com/onflow/cadence"

	"verif/harness/core"
	"verif/harness/host"
	"verif/harness/num"
)

// C21 — InclusiveRange iteration and membership match the arithmetic sequence.
//
// Oracle (math/big): members = start, start+step, ... while not beyond end. Observed through scripts on
// engines I, V, Vp: the array collected by `for x in r` and the results of `r.contains(x)`.
// A construction failure (InclusiveRangeConstructionError) is never a violation; such ranges are skipped
// and counted. Every script runs under a computation limit so that a non-terminating iteration is
// observed as a failure instead of hanging the worker.

const c21maxMembers = 300
const c21compLimit = 8000

type c21range struct {
	T           num.IntType
	Start, End  *big.Int
	Step        *big.Int // nil = default step
	Members     []*big.Int
	Constructed bool // what the harness expects to be constructible (informative only)
}

func c21shapeOf(t num.IntType) string {
	switch {
	case t.Bits == 0 && t.Signed:
		return "Int"
	case t.Bits == 0:
		return "UInt"
	case t.Word:
		return "word"
	case t.Signed:
		return "signed-fixed-width"
	}
	return "unsigned-fixed-width"
}

// effective step of a range (default: +1 or -1)
func (r *c21range) step() *big.Int {
	if r.Step != nil {
		return r.Step
	}
	if r.Start.Cmp(r.End) > 0 {
		return bi(-1)
	}
	return bi(1)
}

func (r *c21range) computeMembers() {
	st := r.step()
	r.Members = nil
	if st.Sign() == 0 {
		return
	}
	x := new(big.Int).Set(r.Start)
	for {
		if st.Sign() > 0 && x.Cmp(r.End) > 0 {
			break
		}
		if st.Sign() < 0 && x.Cmp(r.End) < 0 {
			break
		}
		r.Members = append(r.Members, new(big.Int).Set(x))
		if len(r.Members) > c21maxMembers+5 {
			break
		}
		x.Add(x, st)
	}
}

func (r *c21range) isMember(x *big.Int) bool {
	st := r.step()
	if st.Sign() == 0 {
		return false
	}
	d := new(big.Int).Sub(x, r.Start)
	if st.Sign() > 0 {
		if x.Cmp(r.Start) < 0 || x.Cmp(r.End) > 0 {
			return false
		}
	} else {
		if x.Cmp(r.Start) > 0 || x.Cmp(r.End) < 0 {
			return false
		}
	}
	return new(big.Int).Rem(d, st).Sign() == 0
}

func (r *c21range) ctor() string {
	if r.Step == nil {
		return "InclusiveRange(s, e)"
	}
	return "InclusiveRange(s, e, step: st)"
}

func (r *c21range) decls() string {
	tn := r.T.Name
	s := fmt.Sprintf(" let s: %s = %s\n let e: %s = %s\n", tn, r.Start, tn, r.End)
	if r.Step != nil {
		s += fmt.Sprintf(" let st: %s = %s\n", tn, r.Step)
	}
	return s
}

func (r *c21range) describe() string {
	st := "default"
	if r.Step != nil {
		st = r.Step.String()
	}
	return fmt.Sprintf("InclusiveRange<%s>(%s, %s, step: %s)", r.T.Name, r.Start, r.End, st)
}

func c21genRange(c *core.Ctx, t num.IntType) *c21range {
	r := &c21range{T: t}
	lo, hi := t.Min(), t.Max()
	if lo == nil {
		lo = new(big.Int).Neg(pow2(130))
	}
	if hi == nil {
		hi = pow2(130)
	}
	special := func() *big.Int {
		cands := []*big.Int{lo, new(big.Int).Add(lo, bi(1)), bi(-1), bi(0), bi(1), new(big.Int).Sub(hi, bi(1)), hi,
			new(big.Int).Sub(hi, bi(int64(c.Rng.IntN(12)))), new(big.Int).Add(lo, bi(int64(c.Rng.IntN(12))))}
		for {
			x := cands[c.Rng.IntN(len(cands))]
			if t.InRange(x) {
				return x
			}
		}
	}
	pick := func() *big.Int {
		if c.Rng.IntN(5) < 3 {
			return special()
		}
		return num.Random(t, c.Rng)
	}
	r.Start, r.End = pick(), pick()
	if c.Rng.IntN(4) == 0 {
		// a short range next to start
		d := bi(int64(c.Rng.IntN(40)))
		if c.Rng.IntN(2) == 0 && t.Signed {
			d.Neg(d)
		}
		e := new(big.Int).Add(r.Start, d)
		if t.InRange(e) {
			r.End = e
		}
	}
	if !t.Signed && r.Start.Cmp(r.End) > 0 && c.Rng.IntN(10) != 0 {
		r.Start, r.End = r.End, r.Start // mostly constructible ranges for unsigned types
	}
	diff := new(big.Int).Sub(r.End, r.Start)
	adiff := new(big.Int).Abs(diff)
	if c.Rng.IntN(8) == 0 && adiff.Cmp(bi(c21maxMembers-1)) <= 0 {
		r.Step = nil // default step
	} else {
		k := int64(1 + c.Rng.IntN(c21maxMembers-1))
		if c.Rng.IntN(3) == 0 {
			k = int64(1 + c.Rng.IntN(6))
		}
		// |step| >= ceil(|diff| / k)
		st := new(big.Int).Add(adiff, bi(k-1))
		st.Quo(st, bi(k))
		switch c.Rng.IntN(4) {
		case 0:
			st.Add(st, bi(int64(c.Rng.IntN(3))))
		case 1:
			if adiff.Sign() > 0 && c.Rng.IntN(2) == 0 {
				st.Set(adiff) // exactly reaches end in one step
			}
		}
		if st.Sign() == 0 {
			st = bi(int64(1 + c.Rng.IntN(5)))
		}
		if diff.Sign() < 0 {
			st.Neg(st)
		}
		if diff.Sign() == 0 && t.Signed && c.Rng.IntN(2) == 0 {
			st.Neg(st)
		}
		if c.Rng.IntN(40) == 0 {
			st.Neg(st) // moving away from end: construction must fail; counted as skipped
		}
		if c.Rng.IntN(60) == 0 {
			st = bi(0)
		}
		if !t.InRange(st) {
			// the step itself is not representable: use the largest representable magnitude
			if st.Sign() > 0 {
				st = new(big.Int).Set(hi)
			} else {
				st = new(big.Int).Set(lo)
			}
			if !t.InRange(st) {
				st = bi(1)
			}
		}
		r.Step = st
	}
	r.computeMembers()
	return r
}

func c21needles(c *core.Ctx, r *c21range) []*big.Int {
	t := r.T
	var out []*big.Int
	seen := map[string]bool{}
	add := func(x *big.Int) {
		if x == nil || !t.InRange(x) || seen[x.String()] || len(out) >= 14 {
			return
		}
		seen[x.String()] = true
		out = append(out, x)
	}
	st := r.step()
	add(r.End)
	if n := len(r.Members); n > 0 {
		last := r.Members[n-1]
		add(last)
		add(new(big.Int).Add(last, st)) // one step beyond the last member
		add(new(big.Int).Add(last, bi(1)))
		add(new(big.Int).Sub(last, bi(1)))
		m := r.Members[c.Rng.IntN(n)]
		add(m)
		add(new(big.Int).Add(m, bi(1)))
	}
	add(r.Start)
	add(new(big.Int).Sub(r.Start, st)) // far side of start
	add(new(big.Int).Sub(r.Start, bi(1)))
	add(new(big.Int).Add(r.Start, bi(1)))
	add(t.Min())
	add(t.Max())
	add(bi(0))
	add(new(big.Int).Add(r.End, bi(1)))
	add(new(big.Int).Sub(r.End, bi(1)))
	add(num.Random(t, c.Rng))
	return out
}

func c21opts() *host.Options {
	return &host.Options{Config: host.DefaultConfig, Comp: &host.Gauge{CompLimit: c21compLimit}}
}

func c21isConstructionError(out host.Outcome) bool {
	return out.Err != nil && host.HasKind(out.Err, "InclusiveRangeConstructionError")
}

func c21failKind(out host.Outcome) string {
	if out.Err != nil && host.HasKind(out.Err, "LimitError") {
		return "no-termination(computation-limit)"
	}
	return failKindOf(out)
}

func c21needleClass(r *c21range, x *big.Int) string {
	switch {
	case r.isMember(x):
		if x.Cmp(r.Start) == 0 {
			return "start"
		}
		if x.Cmp(r.End) == 0 {
			return "end-member"
		}
		return "member"
	case x.Cmp(r.End) == 0:
		return "end-not-member"
	}
	st := r.step()
	between := (st.Sign() > 0 && x.Cmp(r.Start) > 0 && x.Cmp(r.End) < 0) || (st.Sign() < 0 && x.Cmp(r.Start) < 0 && x.Cmp(r.End) > 0)
	if between {
		return "between-non-member"
	}
	return "outside"
}

func init() {
	core.Register(&core.Prop{
		ID: "C21",
		Rule: "generated ranges over all 20 integer element types: start/end from {min, min+1, -1, 0, 1, max-1, max, near-bound} and seeded random values, steps that do and do not divide end-start, default step, both directions, |step| chosen so that the sequence has <= 300 members; per range one iteration script and one contains script (<= 14 needles: members, neighbours, end, min, max, 0, both far sides) on engines I, V, Vp under a computation limit; distinct by (type, start, end, step)",
		Assumptions: []string{
			"oracle = math/big arithmetic sequence start, start+step, ... not beyond end",
			"a construction failure (InclusiveRangeConstructionError) is never required nor forbidden; such ranges are skipped and counted",
			"a script stopped by the 8 000-unit computation limit while iterating a range of <= 300 members is reported as non-termination",
		},
		NumCases:   func(tier string) int { return map[string]int{"quick": 64, "thorough": 800}[tier] },
		Exhaustive: func(string) bool { return false },
		Floors: map[string]int64{
			"ranges_constructed": 400, "ranges_construction_failed": 20, "iterations_ok": 500, "members_total": 20000,
			"contains_true": 2000, "contains_false": 2000, "end_not_member_probed": 200, "ranges_touching_type_bound": 100,
			"default_step": 20, "negative_step": 60, "script_runs_I": 500, "script_runs_V": 500, "script_runs_Vp": 500,
		},
		Run: func(c *core.Ctx) {
			n := c.Pick(40, 150)
			for i := 0; i < n; i++ {
				t := num.IntTypes[(c.Case+i)%len(num.IntTypes)]
				r := c21genRange(c, t)
				c21checkRange(c, r)
			}
		},
	})
}

func c21checkRange(c *core.Ctx, r *c21range) {
	t := r.T
	shape := c21shapeOf(t)
	c.DistinctHash(hashParts("range", t.Name, r.Start, r.End, r.Step))
	iterSrc := fmt.Sprintf("access(all) fun main(): [%s] {\n%s let r = %s\n var out: [%s] = []\n for x in r { out.append(x) }\n return out\n}", t.Name, r.decls(), r.ctor(), t.Name)
	needles := c21needles(c, r)
	containsSrc := func(ns []*big.Int) string {
		var sb strings.Builder
		fmt.Fprintf(&sb, "access(all) fun main(): [Bool] {\n%s let r = %s\n", r.decls(), r.ctor())
		var items []string
		for i, x := range ns {
			fmt.Fprintf(&sb, " let n%d: %s = %s\n", i, t.Name, x)
			items = append(items, fmt.Sprintf("r.contains(n%d)", i))
		}
		sb.WriteString(" return [" + strings.Join(items, ", ") + "]\n}")
		return sb.String()
	}
	touches := false
	if n := len(r.Members); n > 0 {
		next := new(big.Int).Add(r.Members[n-1], r.step())
		touches = !t.InRange(next)
	}
	counted := false
	for _, eng := range host.AllEngines {
		h := host.New()
		out := h.RunScript(eng, iterSrc, nil, c21opts())
		c.Eval(1)
		c.Inc("script_runs_" + eng.String())
		if c21isConstructionError(out) {
			if !counted {
				c.Inc("ranges_construction_failed")
				counted = true
			}
			continue
		}
		if !counted {
			counted = true
			c.Inc("ranges_constructed")
			c.Count("members_total", int64(len(r.Members)))
			if touches {
				c.Inc("ranges_touching_type_bound")
			}
			if r.Step == nil {
				c.Inc("default_step")
			}
			if r.step().Sign() < 0 {
				c.Inc("negative_step")
			}
		}
		if len(r.Members) == 0 || len(r.Members) > c21maxMembers {
			// constructed although the harness sees no finite short sequence (zero step, moving away): the
			// statement only speaks about the denoted sequence of a constructed range; with step 0 or a
			// step moving away from end there is none. Not judged.
			c.Inc("constructed_without_model_sequence")
			continue
		}
		// ---- iteration
		if out.Err != nil || out.Escaped != nil {
			kind := c21failKind(out)
			cls := "other"
			if touches {
				cls = "element-after-last-member-is-out-of-type-range"
			}
			c.Violate(fmt.Sprintf("iterate %s fails:%s %s", shape, kind, cls),
				fmt.Sprintf("engine %s: iterating %s fails (%s); expected %d members", eng, r.describe(), kind, len(r.Members)),
				map[string]any{"engine": eng.String(), "script": iterSrc, "error": host.ErrText(out), "expected_members": len(r.Members), "type": t.Name})
		} else {
			arr, ok := out.Value.(cadence.Array)
			good := ok && len(arr.Values) == len(r.Members)
			if good {
				for i, v := range arr.Values {
					if v.String() != r.Members[i].String() {
						good = false
						break
					}
				}
			}
			if good {
				c.Inc("iterations_ok")
			} else {
				c.Violate(fmt.Sprintf("iterate %s wrong-sequence", shape),
					fmt.Sprintf("engine %s: iterating %s yields %s; expected %d members %s..", eng, r.describe(), core.Clip(fmt.Sprint(out.Value), 300), len(r.Members), r.Members[0]),
					map[string]any{"engine": eng.String(), "script": iterSrc, "observed": core.Clip(fmt.Sprint(out.Value), 2000), "expected_members": len(r.Members), "type": t.Name})
			}
		}
		// ---- contains
		judge := func(x *big.Int, got bool) {
			want := r.isMember(x)
			if want {
				c.Inc("contains_true")
			} else {
				c.Inc("contains_false")
			}
			cls := c21needleClass(r, x)
			if cls == "end-not-member" {
				c.Inc("end_not_member_probed")
			}
			if got != want {
				c.Violate(fmt.Sprintf("contains %s wrong-result needle=%s expected=%v", shape, cls, want),
					fmt.Sprintf("engine %s: %s.contains(%s) = %v, expected %v", eng, r.describe(), x, got, want),
					map[string]any{"engine": eng.String(), "script": containsSrc([]*big.Int{x}), "needle": x.String(), "type": t.Name})
			}
		}
		failed := func(x *big.Int, o host.Outcome, src string) {
			d := new(big.Int).Sub(x, r.Start)
			cls := "other"
			if !t.InRange(d) {
				cls = "needle-minus-start-out-of-type-range"
			}
			c.Violate(fmt.Sprintf("contains %s fails:%s %s", shape, c21failKind(o), cls),
				fmt.Sprintf("engine %s: %s.contains(%s) fails (%s)", eng, r.describe(), x, c21failKind(o)),
				map[string]any{"engine": eng.String(), "script": src, "error": host.ErrText(o), "needle": x.String(), "type": t.Name})
		}
		src := containsSrc(needles)
		co := host.New().RunScript(eng, src, nil, c21opts())
		c.Eval(int64(len(needles)))
		if co.Err == nil && co.Escaped == nil {
			arr, ok := co.Value.(cadence.Array)
			if !ok || len(arr.Values) != len(needles) {
				c.Violate("contains result-shape", "unexpected result", map[string]any{"script": src, "value": fmt.Sprint(co.Value)})
				continue
			}
			for i, v := range arr.Values {
				judge(needles[i], bool(v.(cadence.Bool)))
			}
			continue
		}
		// the batch failed: find the failing needles one by one
		c.Inc("contains_batches_failed")
		for _, x := range needles {
			s1 := containsSrc([]*big.Int{x})
			o1 := host.New().RunScript(eng, s1, nil, c21opts())
			if o1.Err != nil || o1.Escaped != nil {
				failed(x, o1, s1)
				continue
			}
			if arr, ok := o1.Value.(cadence.Array); ok && len(arr.Values) == 1 {
				judge(x, bool(arr.Values[0].(cadence.Bool)))
			}
		}
	}
	if c.WantSample() {
		c.Sample(map[string]any{"range": r.describe(), "members": len(r.Members), "iteration_script": iterSrc})
	}
}
