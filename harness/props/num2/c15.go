package num2

import (
	"fmt"
	"math/big"

	"github.com/onflow/cadence/interpreter"

	"verif/harness/core"
	"verif/harness/host"
	"verif/harness/num"
)

// C15 — fixed-point arithmetic is exact at the type's scale.
//
// Oracle: exact integer / rational arithmetic on the raw scaled integers with math/big:
//   a+b, a-b               raw sum / difference
//   a*b                    trunc(a*b / 10^s)
//   a/b                    trunc(a*10^s / b)
//   a%b                    a - trunc(a/b)*b with trunc to an integer  == big.Int.Rem(a, b) on raw values
//   a.multiplyDivide(b,c,r) round_r(a*b / c)
// and the range predicate of the type. Observed: return values (read back through the decimal
// String()) or recovered panics of the interpreter values' methods; script results on three engines.

type c15task struct {
	Type string
	Kind string // bound | rand | fmdbound | fmdrand | edge
	Part int
	Of   int
}

var c15ops = []string{"+", "-", "*", "/", "%"}

// The rounding modes are passed as the untyped constants 0..3 (= sema.RoundingRule raw values =
// fix.RoundingMode values) so that the harness module does not need a direct dependency on the
// fixed-point library.
var c15rules = []struct {
	Name string
	Raw  int
}{
	{"towardZero", 0},
	{"awayFromZero", 1},
	{"nearestHalfAway", 2},
	{"nearestHalfEven", 3},
}

func c15callFMD(x, y, z interpreter.FixedPointValue, raw int) callOutcome {
	return protect(func() fmt.Stringer {
		switch raw {
		case 0:
			return x.MultiplyDivide(noopCtx, y, z, 0)
		case 1:
			return x.MultiplyDivide(noopCtx, y, z, 1)
		case 2:
			return x.MultiplyDivide(noopCtx, y, z, 2)
		case 3:
			return x.MultiplyDivide(noopCtx, y, z, 3)
		}
		panic("bad rounding rule")
	})
}

func c15tasks(tier string) []c15task {
	var ts []c15task
	th := tier == "thorough"
	pick := func(q, t int) int {
		if th {
			return t
		}
		return q
	}
	for _, ft := range num.FixTypes {
		for _, k := range []struct {
			kind string
			n    int
		}{{"bound", pick(2, 4)}, {"rand", pick(2, 48)}, {"fmdbound", pick(4, 24)}, {"fmdrand", pick(2, 48)}, {"edge", pick(2, 48)}} {
			for p := 0; p < k.n; p++ {
				ts = append(ts, c15task{ft.Name, k.kind, p, k.n})
			}
		}
	}
	return ts
}

// c15boundary extends num.FixBoundary with values that make ties and sub-unit results.
func c15boundary(t num.FixType) []*big.Int {
	bs := num.FixBoundary(t)
	f := t.Factor()
	extra := []*big.Int{
		bi(2), bi(3), bi(4), bi(7), bi(10),
		new(big.Int).Mul(f, bi(2)), new(big.Int).Mul(f, bi(4)),
		new(big.Int).Div(f, bi(10)),
		new(big.Int).Add(new(big.Int).Div(f, bi(2)), bi(0)), // 0.5
		new(big.Int).Add(f, new(big.Int).Div(f, bi(2))),      // 1.5
		new(big.Int).Add(new(big.Int).Mul(f, bi(2)), new(big.Int).Div(f, bi(2))), // 2.5
		new(big.Int).Sqrt(t.MaxRaw()),
		new(big.Int).Add(new(big.Int).Sqrt(t.MaxRaw()), bi(1)),
		new(big.Int).Div(t.MaxRaw(), bi(3)),
		new(big.Int).Add(new(big.Int).Div(t.MaxRaw(), bi(2)), bi(1)),
		new(big.Int).Add(new(big.Int).Div(t.MaxRaw(), bi(2)), bi(2)),
	}
	seen := map[string]bool{}
	for _, b := range bs {
		seen[b.String()] = true
	}
	add := func(x *big.Int) {
		if !t.InRangeRaw(x) || seen[x.String()] {
			return
		}
		seen[x.String()] = true
		bs = append(bs, x)
	}
	for _, e := range extra {
		add(e)
		if t.Signed {
			add(new(big.Int).Neg(e))
		}
	}
	return bs
}

// reduced boundary for the quick multiplyDivide cube
func c15fmdBoundary(t num.FixType, tier string) []*big.Int {
	bs := c15boundary(t)
	if tier == "thorough" {
		return bs
	}
	// keep every value whose index is even plus the extremes (first entries are around 0 and ±1.0)
	var out []*big.Int
	for i, b := range bs {
		if i%2 == 0 || b.Cmp(t.MaxRaw()) == 0 || b.Cmp(t.MinRaw()) == 0 {
			out = append(out, b)
		}
	}
	return out
}

// roundQuo returns n/d rounded by the rule, the class of the division (exact | inexact | tie),
// and whether the rule moved the result away from the truncated quotient.
func roundQuo(n, d *big.Int, rule string) (*big.Int, string, bool) {
	q, r := new(big.Int).QuoRem(n, d, new(big.Int))
	if r.Sign() == 0 {
		return q, "exact", false
	}
	s := int64(n.Sign() * d.Sign())
	twice := new(big.Int).Abs(r)
	twice.Lsh(twice, 1)
	cmp := twice.Cmp(new(big.Int).Abs(d))
	class := "inexact"
	if cmp == 0 {
		class = "tie"
	}
	up := false
	switch rule {
	case "towardZero":
	case "awayFromZero":
		up = true
	case "nearestHalfAway":
		up = cmp >= 0
	case "nearestHalfEven":
		up = cmp > 0 || (cmp == 0 && q.Bit(0) == 1)
	default:
		panic(rule)
	}
	if up {
		q.Add(q, bi(s))
	}
	return q, class, up
}

type fixExpect struct {
	Value *big.Int // expected raw value, nil when a failure is expected
	Fail  string   // "" | "range" | "DivisionByZero"
	// RangeAlsoOK: a range failure is also acceptable (only `%` with an out-of-range quotient)
	RangeAlsoOK bool
}

func (e fixExpect) class() string {
	if e.Fail != "" {
		return "fail:" + e.Fail
	}
	return "value"
}

func c15expect(c *core.Ctx, t num.FixType, op string, a, b *big.Int) fixExpect {
	f := t.Factor()
	inr := func(r *big.Int) fixExpect {
		if t.InRangeRaw(r) {
			return fixExpect{Value: r}
		}
		return fixExpect{Fail: "range"}
	}
	switch op {
	case "+":
		return inr(new(big.Int).Add(a, b))
	case "-":
		return inr(new(big.Int).Sub(a, b))
	case "*":
		p := new(big.Int).Mul(a, b)
		r := new(big.Int).Quo(p, f)
		if c != nil && p.Sign() != 0 && r.Sign() == 0 {
			c.Inc("sub_unit_results")
		}
		return inr(r)
	case "/":
		if b.Sign() == 0 {
			return fixExpect{Fail: "DivisionByZero"}
		}
		p := new(big.Int).Mul(a, f)
		r := new(big.Int).Quo(p, b)
		if c != nil && p.Sign() != 0 && r.Sign() == 0 {
			c.Inc("sub_unit_results")
		}
		return inr(r)
	case "%":
		if b.Sign() == 0 {
			return fixExpect{Fail: "DivisionByZero"}
		}
		q := new(big.Int).Quo(new(big.Int).Mul(a, f), b)
		e := fixExpect{Value: new(big.Int).Rem(a, b)}
		if !t.InRangeRaw(q) {
			e.RangeAlsoOK = true
			if c != nil {
				c.Inc("mod_quotient_out_of_range")
			}
		}
		return e
	}
	panic(op)
}

func c15expectFMD(c *core.Ctx, t num.FixType, rule string, a, b, d *big.Int) (fixExpect, string) {
	if d.Sign() == 0 {
		return fixExpect{Fail: "DivisionByZero"}, "zero-divisor"
	}
	r, class, up := roundQuo(new(big.Int).Mul(a, b), d, rule)
	if c != nil {
		c.Inc("fmd_" + class)
		if up {
			c.Inc("fmd_rounded_away")
		}
	}
	if t.InRangeRaw(r) {
		return fixExpect{Value: r}, class
	}
	return fixExpect{Fail: "range"}, class
}

// c15judge compares an observation (raw value or failure kind) with the expectation.
func c15judge(exp fixExpect, gotKind string, gotRaw *big.Int) bool {
	switch {
	case exp.Fail == "":
		if gotKind == "" {
			return gotRaw.Cmp(exp.Value) == 0
		}
		return exp.RangeAlsoOK && isOverUnder(gotKind)
	case exp.Fail == "range":
		return isOverUnder(gotKind)
	default:
		return gotKind == exp.Fail
	}
}

func c15check(c *core.Ctx, where string, t num.FixType, op, class string, operands []*big.Int, exp fixExpect, got callOutcome, extra map[string]any) {
	var raw *big.Int
	if got.Kind == "" {
		raw = num.RawOf(t, got.Val)
		c.Inc("outcome_value")
	} else {
		c.Inc("outcome_" + got.Kind)
	}
	if c15judge(exp, got.Kind, raw) {
		return
	}
	gotClass := "value"
	if got.Kind != "" {
		gotClass = "fail:" + got.Kind
	}
	expDesc := exp.class()
	if exp.Fail == "" {
		expDesc = "value:" + num.FixString(t, exp.Value)
	}
	var ops []string
	for _, o := range operands {
		ops = append(ops, num.FixString(t, o))
	}
	key := fmt.Sprintf("%s%s.%s", where, t.Name, op)
	if class != "" {
		key += "{" + class + "}"
	}
	key += fmt.Sprintf(" expected=%s got=%s", exp.class(), gotClass)
	if exp.Fail == "" && got.Kind == "" {
		// magnitude error in units of the last place: +1 / -1 / other
		d := new(big.Int).Sub(new(big.Int).Abs(raw), new(big.Int).Abs(exp.Value))
		// (a quotient that is one too large can be rounded up once more: +1 and +2 are one class)
		switch {
		case d.Cmp(bi(1)) == 0 || d.Cmp(bi(2)) == 0:
			key += "(magnitude+1..2ulp)"
		case d.Cmp(bi(-1)) == 0 || d.Cmp(bi(-2)) == 0:
			key += "(magnitude-1..2ulp)"
		}
	}
	w := map[string]any{"type": t.Name, "op": op, "operands": ops, "expected": expDesc, "observed": got.describe()}
	for k, v := range extra {
		w[k] = v
	}
	c.Violate(key, fmt.Sprintf("%s %s %v: expected %s, observed %s", t.Name, op, ops, expDesc, got.describe()), w)
}

func c15callBinary(op string, x, y interpreter.NumberValue) callOutcome {
	return protect(func() fmt.Stringer {
		switch op {
		case "+":
			return x.Plus(noopCtx, y)
		case "-":
			return x.Minus(noopCtx, y)
		case "*":
			return x.Mul(noopCtx, y)
		case "/":
			return x.Div(noopCtx, y)
		case "%":
			return x.Mod(noopCtx, y)
		}
		panic("bad op " + op)
	})
}

func c15pick(c *core.Ctx, t num.FixType, bs []*big.Int) *big.Int {
	switch c.Rng.IntN(6) {
	case 0, 1:
		return bs[c.Rng.IntN(len(bs))]
	case 2:
		// small magnitudes: sub-unit products, ties with small divisors
		x := randBits(c.Rng, 1+c.Rng.IntN(t.Bits/3))
		if t.Signed && c.Rng.IntN(2) == 0 {
			x.Neg(x)
		}
		return x
	case 3:
		// whole numbers and halves
		x := new(big.Int).Mul(randBits(c.Rng, 1+c.Rng.IntN(20)), new(big.Int).Div(t.Factor(), bi(2)))
		if t.Signed && c.Rng.IntN(2) == 0 {
			x.Neg(x)
		}
		if t.InRangeRaw(x) {
			return x
		}
		return num.FixRandom(t, c.Rng)
	default:
		return num.FixRandom(t, c.Rng)
	}
}

const c15scriptPerCase = 60

func c15scriptCases(tier string) int {
	if tier == "thorough" {
		return 320
	}
	return 16
}

func init() {
	core.Register(&core.Prop{
		ID: "C15",
		Rule: "direct calls of Plus/Minus/Mul/Div/Mod and MultiplyDivide (x 4 rounding rules) on interpreter Fix64/UFix64/Fix128/UFix128 values built from raw scaled integers: boundary-set squared (cubed for multiplyDivide) plus seeded random operands biased to boundaries, sub-unit magnitudes and halves; plus a script leg (operators and multiplyDivide with 2 and 3 arguments) on engines I, V, Vp; a case is distinct by (type, op/rule, operands)",
		Assumptions: []string{
			"oracle = math/big integer arithmetic on the raw scaled integers (exact rational result, truncated toward zero, or rounded per rule for multiplyDivide); results are read back through the value's decimal String()",
			"either Overflow or Underflow is accepted for an out-of-range result; `%` may additionally fail with a range error only when the quotient a/b is out of range",
			"a % b is read as a - trunc(a/b)*b with trunc() to an integer (the implementation's and documentation's reading), i.e. the remainder of the raw integers with the sign of the dividend",
		},
		NumCases:   func(tier string) int { return len(c15tasks(tier)) + c15scriptCases(tier) },
		Exhaustive: func(string) bool { return false },
		Floors: map[string]int64{
			"outcome_value": 20000, "outcome_Overflow": 2000, "outcome_Underflow": 500, "outcome_DivisionByZero": 500,
			"fmd_evals": 50000, "fmd_tie": 200, "fmd_inexact": 5000, "fmd_exact": 1000, "fmd_rounded_away": 2000,
			"sub_unit_results": 100, "mod_quotient_out_of_range": 20, "edge_cases": 2000,
			"script_runs_I": 200, "script_runs_V": 200, "script_runs_Vp": 200, "script_outcome_value": 200, "script_outcome_fail": 30,
			"script_fmd": 100,
		},
		Run: func(c *core.Ctx) {
			tasks := c15tasks(c.Tier)
			if c.Case >= len(tasks) {
				c15scriptLeg(c)
				return
			}
			task := tasks[c.Case]
			t := num.FixTypeByName(task.Type)
			bs := c15boundary(t)

			binary := func(a, b *big.Int) {
				x, y := t.Make(a), t.Make(b)
				for _, op := range c15ops {
					c.Eval(1)
					exp := c15expect(c, t, op, a, b)
					got := c15callBinary(op, x, y)
					c15check(c, "", t, op, "", []*big.Int{a, b}, exp, got, nil)
					c.DistinctHash(hashParts(t.Name, op, a, b))
				}
			}
			fmd := func(a, b, d *big.Int) {
				x := t.Make(a).(interpreter.FixedPointValue)
				y := t.Make(b).(interpreter.FixedPointValue)
				z := t.Make(d).(interpreter.FixedPointValue)
				for _, rule := range c15rules {
					c.Eval(1)
					c.Inc("fmd_evals")
					exp, class := c15expectFMD(c, t, rule.Name, a, b, d)
					got := c15callFMD(x, y, z, rule.Raw)
					c15check(c, "", t, "multiplyDivide["+rule.Name+"]", class, []*big.Int{a, b, d}, exp, got, nil)
					c.DistinctHash(hashParts(t.Name, "fmd"+rule.Name, a, b, d))
				}
			}

			switch task.Kind {
			case "bound":
				for i, a := range bs {
					if i%task.Of != task.Part {
						continue
					}
					for _, b := range bs {
						binary(a, b)
					}
				}
			case "rand":
				for i := 0; i < c.Pick(6000, 12000); i++ {
					binary(c15pick(c, t, bs), c15pick(c, t, bs))
				}
			case "edge":
				// quotients that straddle machine-word boundaries: the quotient of the division is
				// m or m-1 with m = k*2^w - {0,1,2} (w = half the type's width) and a divisor wider than a word
				w := t.Bits / 2
				f := t.Factor()
				for i := 0; i < c.Pick(3000, 8000); i++ {
					d := randBits(c.Rng, w+1+c.Rng.IntN(w-2))
					d.SetBit(d, w+c.Rng.IntN(w-2), 1)
					k := int64(1)
					if c.Rng.IntN(2) == 0 {
						k = 1 + int64(c.Rng.IntN(1<<uint(c.Rng.IntN(16))))
					}
					m := new(big.Int).Lsh(bi(k), uint(w))
					m.Sub(m, bi(int64(c.Rng.IntN(3))))
					sign := func(x *big.Int) *big.Int {
						if t.Signed && c.Rng.IntN(3) == 0 {
							return new(big.Int).Neg(x)
						}
						return x
					}
					if !t.InRangeRaw(d) || !t.InRangeRaw(m) {
						continue
					}
					c.Inc("edge_cases")
					// multiplyDivide(m, d -/+ j, d): quotient m -/+ a little
					j := bi(int64(c.Rng.IntN(4)) - 1)
					b := new(big.Int).Sub(d, j)
					if t.InRangeRaw(b) {
						fmd(sign(m), sign(b), sign(d))
					}
					// a / d with a*10^s ~ m*d
					a := new(big.Int).Quo(new(big.Int).Mul(m, d), f)
					a.Add(a, bi(int64(c.Rng.IntN(2))))
					if t.InRangeRaw(a) {
						binary(sign(a), sign(d))
					}
				}
			case "fmdbound":
				fb := c15fmdBoundary(t, c.Tier)
				for i, a := range fb {
					if i%task.Of != task.Part {
						continue
					}
					for _, b := range fb {
						for _, d := range fb {
							fmd(a, b, d)
						}
					}
				}
				c.Max("fmd_boundary_size", int64(len(fb)))
			case "fmdrand":
				for i := 0; i < c.Pick(5000, 12000); i++ {
					a, b, d := c15pick(c, t, bs), c15pick(c, t, bs), c15pick(c, t, bs)
					if c.Rng.IntN(4) == 0 {
						// force the divisor to make halves: c = 2*gcd-ish small value
						d = []*big.Int{bi(2), bi(4), new(big.Int).Mul(t.Factor(), bi(2)), bi(6), bi(10)}[c.Rng.IntN(5)]
					}
					fmd(a, b, d)
				}
			}
			if c.WantSample() {
				mx := t.MaxRaw()
				c.Sample(map[string]any{"task": task, "boundary_values": len(bs),
					"example": fmt.Sprintf("%s: max * 1.%0*d -> %s", t.Name, t.Scale, 1,
						c15callBinary("*", t.Make(mx), t.Make(new(big.Int).Add(t.Factor(), bi(1)))).describe())})
			}
		},
	})
}

func c15scriptLeg(c *core.Ctx) {
	for i := 0; i < c15scriptPerCase; i++ {
		t := num.FixTypes[c.Rng.IntN(len(num.FixTypes))]
		bs := c15boundary(t)
		a, b, d := c15pick(c, t, bs), c15pick(c, t, bs), c15pick(c, t, bs)
		var exp fixExpect
		var opName, class, expr string
		operands := []*big.Int{a, b}
		isFMD := c.Rng.IntN(3) == 0
		ruleRaw := 0
		if isFMD {
			if c.Rng.IntN(4) == 0 {
				d = []*big.Int{bi(2), bi(4), new(big.Int).Mul(t.Factor(), bi(2)), bi(0)}[c.Rng.IntN(4)]
			}
			operands = []*big.Int{a, b, d}
			ri := c.Rng.IntN(len(c15rules) + 1)
			if ri < len(c15rules) {
				ruleRaw = c15rules[ri].Raw
			}
			if ri == len(c15rules) {
				// two-argument form: the default is truncation
				exp, class = c15expectFMD(nil, t, "towardZero", a, b, d)
				opName = "multiplyDivide[default]"
				expr = "a.multiplyDivide(b, c)"
			} else {
				exp, class = c15expectFMD(nil, t, c15rules[ri].Name, a, b, d)
				opName = "multiplyDivide[" + c15rules[ri].Name + "]"
				expr = "a.multiplyDivide(b, c, rounding: RoundingRule." + c15rules[ri].Name + ")"
			}
			c.Inc("script_fmd")
		} else {
			op := c15ops[c.Rng.IntN(len(c15ops))]
			exp = c15expect(nil, t, op, a, b)
			opName = op
			expr = "a " + op + " b"
		}
		src := fmt.Sprintf("access(all) fun main(): %s {\n let a: %s = %s\n let b: %s = %s\n let c: %s = %s\n return %s\n}",
			t.Name, t.Name, num.FixString(t, a), t.Name, num.FixString(t, b), t.Name, num.FixString(t, d), expr)
		// the same operation by direct call: a script result equal to it is the same behaviour and is
		// reported under the direct-call key; only an engine-specific deviation gets an engine key
		var direct callOutcome
		if isFMD {
			direct = c15callFMD(t.Make(a).(interpreter.FixedPointValue), t.Make(b).(interpreter.FixedPointValue),
				t.Make(d).(interpreter.FixedPointValue), ruleRaw)
		} else {
			direct = c15callBinary(opName, t.Make(a), t.Make(b))
		}
		for _, eng := range host.AllEngines {
			h := host.New()
			out := h.RunScript(eng, src, nil, nil)
			c.Eval(1)
			c.Inc("script_runs_" + eng.String())
			got := callOutcome{}
			if out.Err != nil || out.Escaped != nil {
				got.Kind = failKindOf(out)
				got.Raw = host.ErrText(out)
				c.Inc("script_outcome_fail")
			} else {
				got.Val = strVal(out.Value.String())
				c.Inc("script_outcome_value")
			}
			where := "script[" + eng.String() + "] "
			keyOp := opName
			if got.describe() == direct.describe() {
				where = ""
				c.Inc("script_equals_direct")
				if keyOp == "multiplyDivide[default]" {
					keyOp = "multiplyDivide[towardZero]"
				}
			}
			c15check(c, where, t, keyOp, class, operands, exp, got,
				map[string]any{"engine": eng.String(), "script": src, "error": fmt.Sprint(got.Raw), "direct_call": direct.describe()})
		}
		c.DistinctHash(hashParts(t.Name, "script"+opName, a, b, d))
		if i == 0 && c.WantSample() {
			c.Sample(map[string]any{"script": src, "expected": exp.class()})
		}
	}
}
