package num2

import (
	"encoding/hex"
	"fmt"
	"math/big"
	"regexp"
	"strings"

	"github.com/onflow/cadence"

	"verif/harness/core"
	"verif/harness/host"
	"verif/harness/num"
)

// C17 — textual and byte encodings of numbers and addresses round-trip.
//
// All observations are script results (batched: one script returns an array of strings, one entry per
// evaluation) on engines I, V, Vp. Oracles:
//  (1) T.fromString(x.toString()) == x and T.fromBigEndianBytes(x.toBigEndianBytes()) == x
//  (2) width independence of fromString (metamorphic, no reference grammar): for a generated string s
//      and the types of one class (signed int / unsigned int incl. Word / signed fixed / unsigned fixed):
//      every type for which the value denoted by s is out of range returns nil; all types for which it is
//      in range (or all types, when s denotes no value at all) agree on accept / reject.
//  (3) fromBigEndianBytes(b) is nil exactly when len(b) > size(T) (never for Int / UInt), lengths 0..size+1
//  (4) Address.fromString(a.toString()) == a, Address.fromBytes(a.toBytes()) == a,
//      String.encodeHex(b).decodeHex() == b, path constructors and toString round-trip.

type c17class struct {
	Name  string
	Types []numT
}

func c17classes() []c17class {
	cs := []c17class{{Name: "signed-int"}, {Name: "unsigned-int"}, {Name: "signed-fixed"}, {Name: "unsigned-fixed"}}
	for _, t := range c16types {
		i := 0
		switch {
		case !t.IsFix && t.signed():
			i = 0
		case !t.IsFix:
			i = 1
		case t.signed():
			i = 2
		default:
			i = 3
		}
		cs[i].Types = append(cs[i].Types, t)
	}
	return cs
}

func c17size(t numT) int { // bytes; 0 = unbounded
	if t.IsFix {
		return t.Fix.Bits / 8
	}
	return t.Int.Bits / 8
}

// cadence string literal (ASCII printable kept, everything else escaped)
func cdcQuote(s string) string {
	var b strings.Builder
	b.WriteByte('"')
	for _, r := range s {
		switch {
		case r == '"':
			b.WriteString(`\"`)
		case r == '\\':
			b.WriteString(`\\`)
		case r == '\n':
			b.WriteString(`\n`)
		case r == '\t':
			b.WriteString(`\t`)
		case r == '\r':
			b.WriteString(`\r`)
		case r < 0x20 || r == 0x7f:
			fmt.Fprintf(&b, `\u{%x}`, r)
		default:
			b.WriteRune(r)
		}
	}
	b.WriteByte('"')
	return b.String()
}

var c17valueRe = regexp.MustCompile(`^([+-]?)([0-9][0-9_]*)?(\.([0-9]*))?$`)

// c17read is the harness's trivial decimal reader: sign, digits (underscores ignored), optional fraction.
// ok=false: the string denotes no value.
func c17read(s string) (ok bool, neg bool, intDigits, fracDigits string, hasDot bool) {
	m := c17valueRe.FindStringSubmatch(s)
	if m == nil {
		return
	}
	intDigits = strings.ReplaceAll(m[2], "_", "")
	fracDigits = m[4]
	hasDot = m[3] != ""
	if intDigits == "" && fracDigits == "" {
		return
	}
	return true, m[1] == "-", intDigits, fracDigits, hasDot
}

func c17shapeAll(s string) string { return c17shapeOf(s, true) }

// c17shape names the dominant perturbation present in s (for violation keys)
func c17shape(s string) string { return c17shapeOf(s, false) }

func c17shapeOf(s string, all bool) string {
	var parts []string
	t := s
	if strings.TrimSpace(t) != t || strings.ContainsAny(t, " \t\n\r") {
		parts = append(parts, "whitespace")
		t = strings.TrimSpace(t)
	}
	if strings.HasPrefix(t, "+") {
		parts = append(parts, "plus-sign")
		t = t[1:]
	} else if strings.HasPrefix(t, "-") {
		if strings.Trim(t[1:], "0_.") == "" && len(t) > 1 {
			parts = append(parts, "minus-zero")
		} else {
			parts = append(parts, "minus-sign")
		}
		t = t[1:]
	}
	if strings.Contains(t, "_") {
		parts = append(parts, "underscore")
	}
	if len(t) > 1 && t[0] == '0' && t[1] != '.' {
		parts = append(parts, "leading-zeros")
	}
	if strings.HasPrefix(t, ".") {
		parts = append(parts, "no-integer-part")
	}
	if strings.HasSuffix(t, ".") {
		parts = append(parts, "no-fraction-part")
	}
	if strings.Trim(t, "0123456789_.") != "" {
		parts = append(parts, "other-characters")
	}
	if t == "" {
		parts = append(parts, "no-digits")
	}
	if len(parts) == 0 {
		return "plain"
	}
	if all {
		return strings.Join(parts, "+")
	}
	// one dominant perturbation (priority order) so that keys stay few and stable; the other
	// perturbations of the string are in the witness
	for _, p := range []string{"whitespace", "other-characters", "no-digits", "plus-sign", "minus-zero", "minus-sign", "underscore", "no-integer-part", "no-fraction-part", "leading-zeros"} {
		for _, q := range parts {
			if p == q {
				return p
			}
		}
	}
	return strings.Join(parts, "+")
}

func c17digits(c *core.Ctx, n int) string {
	var b strings.Builder
	for i := 0; i < n; i++ {
		b.WriteByte(byte('0' + c.Rng.IntN(10)))
	}
	return b.String()
}

var c17fixedStrings = []string{"+5", "-0", "0", "-1", "+0", "00", "007", "1_000", "", "+", "-", " 5", "5 ", "0x10", "1e3", "--1", "+-1", "1-", "５", "-0.0", "+0.5", "1.", ".5", "1", "0.5", "-.5", "1.0", "01.50", "1_0.5", "1.5_0", "١٢٣"}

// c17genString draws a string from the literal grammar with perturbations.
func c17genString(c *core.Ctx, cl c17class, fixedIdx int) string {
	if fixedIdx >= 0 && fixedIdx < len(c17fixedStrings) {
		return c17fixedStrings[fixedIdx]
	}
	isFix := cl.Types[0].IsFix
	// integer digits: small, or around the bounds of one of the class's types
	var ip string
	switch c.Rng.IntN(4) {
	case 0:
		ip = c17digits(c, 1+c.Rng.IntN(3))
	case 1:
		ip = c17digits(c, 1+c.Rng.IntN(80))
	default:
		t := cl.Types[c.Rng.IntN(len(cl.Types))]
		b := t.maxRaw()
		if c.Rng.IntN(2) == 0 && t.minRaw() != nil && t.minRaw().Sign() < 0 {
			b = t.minRaw()
		}
		if b == nil {
			b = pow2(64 * (1 + c.Rng.IntN(5)))
		}
		v := new(big.Int).Abs(b)
		if t.IsFix {
			v.Quo(v, pow10(t.scale()))
		}
		v.Add(v, bi(int64(c.Rng.IntN(5))-2))
		ip = new(big.Int).Abs(v).String()
	}
	sign := ""
	switch c.Rng.IntN(10) {
	case 0, 1:
		sign = "+"
	case 2, 3, 4:
		sign = "-"
	}
	if c.Rng.IntN(10) < 2 {
		ip = strings.Repeat("0", 1+c.Rng.IntN(3)) + ip
	}
	if c.Rng.IntN(10) == 0 && len(ip) > 1 {
		p := 1 + c.Rng.IntN(len(ip)-1)
		ip = ip[:p] + "_" + ip[p:]
	}
	s := sign + ip
	fracP := 5
	if isFix {
		fracP = 90
	}
	if c.Rng.IntN(100) < fracP {
		var nd int
		switch c.Rng.IntN(5) {
		case 0:
			nd = c.Rng.IntN(3)
		case 1:
			nd = 7 + c.Rng.IntN(3) // around scale 8
		case 2:
			nd = 23 + c.Rng.IntN(3) // around scale 24
		default:
			nd = c.Rng.IntN(9)
		}
		s += "." + c17digits(c, nd)
		if c.Rng.IntN(20) == 0 {
			s = sign + "." + c17digits(c, 1+nd)
		}
	}
	switch c.Rng.IntN(25) {
	case 0:
		s = " " + s
	case 1:
		s = s + []string{" ", "\t", "\n"}[c.Rng.IntN(3)]
	case 2:
		s = s + []string{"e3", "x", "f", "%", "a"}[c.Rng.IntN(5)]
	case 3:
		s = []string{"0x", "0b", "0o", "#"}[c.Rng.IntN(4)] + s
	}
	return s
}

// c17denoted returns the raw value of s at the type's scale when s denotes a value exactly
// representable at that scale; exact=false when it has too many fractional digits.
func c17denoted(t numT, neg bool, intDigits, fracDigits string) (raw *big.Int, exact bool) {
	if intDigits == "" {
		intDigits = "0"
	}
	if len(fracDigits) > t.scale() {
		return nil, false
	}
	d := intDigits + fracDigits + strings.Repeat("0", t.scale()-len(fracDigits))
	raw, _ = new(big.Int).SetString(d, 10)
	if neg {
		raw.Neg(raw)
	}
	return raw, true
}

type c17eval struct {
	Expr string // Cadence expression of type String
	// check receives the result string and reports a problem ("" = fine): key, message
	Check func(got string) (key, msg string)
	Group int // evaluations of one metamorphic group are judged together (Group >= 0) through Judge
}

type c17batch struct {
	Pre   []string // statements before the appends
	Evals []c17eval
	// Post is called with all results (after the per-evaluation checks) for group oracles
	Post func(results []string, report func(key, msg string, w map[string]any))
	Kind string
}

func (b *c17batch) source() string {
	var sb strings.Builder
	sb.WriteString("access(all) fun main(): [String] {\n let r: [String] = []\n")
	for _, p := range b.Pre {
		sb.WriteString(" " + p + "\n")
	}
	for _, e := range b.Evals {
		sb.WriteString(" r.append(" + e.Expr + ")\n")
	}
	sb.WriteString(" return r\n}\n")
	return sb.String()
}

func c17run(c *core.Ctx, b *c17batch) {
	if len(b.Evals) == 0 {
		return
	}
	src := b.source()
	results := make([][]string, len(host.AllEngines))
	same := true
	for ei, eng := range host.AllEngines {
		h := host.New()
		out := h.RunScript(eng, src, nil, nil)
		c.Inc("script_runs_" + eng.String())
		if out.Err != nil || out.Escaped != nil {
			// the statement says these functions return nil instead of failing; a failing batch is reported
			// with the batch kind (the generator only emits well-typed programs)
			c.Violate("script-failed "+b.Kind+" ["+failKindOf(out)+"]", "batch script failed on engine "+eng.String()+": "+host.ErrText(out),
				map[string]any{"engine": eng.String(), "script": core.Clip(src, 20000), "error": host.ErrText(out)})
			return
		}
		arr, ok := out.Value.(cadence.Array)
		if !ok || len(arr.Values) != len(b.Evals) {
			c.Violate("script-result-shape "+b.Kind, "unexpected result shape", map[string]any{"engine": eng.String(), "script": core.Clip(src, 20000), "value": fmt.Sprint(out.Value)})
			return
		}
		for _, v := range arr.Values {
			s, _ := v.(cadence.String)
			results[ei] = append(results[ei], string(s))
		}
		if ei > 0 && strings.Join(results[ei], "\x00") != strings.Join(results[0], "\x00") {
			same = false
		}
	}
	judge := func(ei int, prefix string) {
		res := results[ei]
		for i, e := range b.Evals {
			c.Eval(1)
			if e.Check == nil {
				continue
			}
			if key, msg := e.Check(res[i]); key != "" {
				c.Violate(prefix+key, msg, map[string]any{"engine": host.AllEngines[ei].String(), "expression": e.Expr, "observed": res[i], "pre": b.Pre})
			}
		}
		if b.Post != nil {
			b.Post(res, func(key, msg string, w map[string]any) {
				w["engine"] = host.AllEngines[ei].String()
				c.Violate(prefix+key, msg, w)
			})
		}
	}
	if same {
		c.Inc("batches_engines_agree")
		c.Eval(int64(2 * len(b.Evals)))
		judge(0, "")
	} else {
		c.Inc("batches_engines_differ")
		for ei, eng := range host.AllEngines {
			judge(ei, "["+eng.String()+"] ")
		}
	}
	if c.WantSample() {
		c.Sample(map[string]any{"kind": b.Kind, "script_head": core.Clip(src, 600), "results_head": fmt.Sprint(results[0][:min(6, len(results[0]))])})
	}
}

// ---- (2) width independence of fromString

func c17metamorphicBatch(c *core.Ctx, cl c17class, strs []string) *c17batch {
	b := &c17batch{Kind: "fromString-" + cl.Name}
	type cell struct{ si, ti int }
	var cells []cell
	for si, s := range strs {
		for ti, t := range cl.Types {
			b.Evals = append(b.Evals, c17eval{Expr: fmt.Sprintf("(%s.fromString(%s)?.toString()) ?? \"nil\"", t.Name, cdcQuote(s))})
			cells = append(cells, cell{si, ti})
		}
		c.Distinct(cl.Name + "\x00" + s)
	}
	b.Post = func(res []string, report func(string, string, map[string]any)) {
		idx := 0
		for si, s := range strs {
			ok, neg, ip, fp, hasDot := c17read(s)
			if ok && !cl.Types[0].IsFix && hasDot {
				ok = false // a fraction denotes no integer value
			}
			var accept, reject []string // among comparable types
			comparable := 0
			for ti, t := range cl.Types {
				got := res[idx]
				idx++
				_ = ti
				accepted := got != "nil"
				if accepted {
					c.Inc("fromString_accepted")
				} else {
					c.Inc("fromString_nil")
				}
				if !ok {
					// denotes no value: every type of the class is comparable
					comparable++
					if accepted {
						accept = append(accept, t.Name)
					} else {
						reject = append(reject, t.Name)
					}
					continue
				}
				raw, exact := c17denoted(t, neg, ip, fp)
				if !exact {
					// more fractional digits than the scale: when the excess digits are not all zero the
					// value is not representable in T ("nil is returned otherwise"); all-zero excess digits
					// are left out (the statement does not say whether such a spelling is acceptable)
					if strings.Trim(fp[t.scale():], "0") != "" {
						c.Inc("fromString_unrepresentable_fraction")
						if accepted {
							report("fromString-unrepresentable-accepted "+t.Name+" excess-fraction-digits", fmt.Sprintf("%s.fromString(%q) = %s although the value needs more than %d fractional digits", t.Name, s, got, t.scale()),
								map[string]any{"type": t.Name, "string": s, "observed": got})
						}
					} else {
						c.Inc("fromString_excess_zero_digits_skipped")
					}
					continue
				}
				if !t.inRangeRaw(raw) {
					c.Inc("fromString_out_of_range")
					if accepted {
						side := "above-max"
						if raw.Sign() < 0 {
							side = "below-min"
						}
						report("fromString-out-of-range-accepted "+t.Name+" "+side, fmt.Sprintf("%s.fromString(%q) = %s although the value is outside the type's range", t.Name, s, got),
							map[string]any{"type": t.Name, "string": s, "observed": got})
					}
					continue
				}
				comparable++
				if accepted {
					accept = append(accept, t.Name)
				} else {
					reject = append(reject, t.Name)
				}
			}
			if comparable >= 2 {
				c.Inc("fromString_groups_compared")
				if !ok {
					c.Inc("fromString_groups_no_value")
				}
			}
			if len(accept) > 0 && len(reject) > 0 {
				report(fmt.Sprintf("fromString-width-dependence %s %s", cl.Name, c17shape(s)),
					fmt.Sprintf("fromString(%q): accepted by %v but rejected (nil) by %v, although the denoted value is in range for all of them", s, accept, reject),
					map[string]any{"string": s, "class": cl.Name, "accepted_by": accept, "rejected_by": reject, "all_perturbations": c17shapeAll(s)})
			}
			_ = si
		}
	}
	return b
}

// ---- (1) round trips

func c17roundTripBatch(c *core.Ctx, per int) *c17batch {
	b := &c17batch{Kind: "roundtrip"}
	for _, t := range c16types {
		var vals []*big.Int
		var bs []*big.Int
		if t.IsFix {
			bs = num.FixBoundary(t.Fix)
		} else {
			bs = num.Boundary(t.Int)
		}
		for i := 0; i < per; i++ {
			if i%2 == 0 {
				vals = append(vals, bs[c.Rng.IntN(len(bs))])
			} else {
				vals = append(vals, c16random(c, t))
			}
		}
		for _, raw := range vals {
			t, raw := t, raw
			lit := fmt.Sprintf("(%s as %s)", t.literal(raw), t.Name)
			mk := func(what, expr string) c17eval {
				return c17eval{Expr: expr, Check: func(got string) (string, string) {
					c.Inc("roundtrip_" + what)
					if got != "nil" {
						if ok, _, _, _, _ := c17read(got); ok {
							gr := t.rawOfString(strVal(got))
							if gr.Cmp(raw) == 0 {
								return "", ""
							}
						}
					}
					return what + " roundtrip " + t.Name, fmt.Sprintf("%s: %s of %s gives %s", t.Name, what, t.literal(raw), got)
				}}
			}
			b.Evals = append(b.Evals,
				mk("fromString(toString)", fmt.Sprintf("(%s.fromString(%s.toString())?.toString()) ?? \"nil\"", t.Name, lit)),
				mk("fromBigEndianBytes(toBigEndianBytes)", fmt.Sprintf("(%s.fromBigEndianBytes(%s.toBigEndianBytes())?.toString()) ?? \"nil\"", t.Name, lit)),
			)
			c.DistinctHash(hashParts("rt", t.Name, raw))
		}
	}
	return b
}

// ---- (3) byte lengths

func c17bytesBatch(c *core.Ctx, types []numT) *c17batch {
	b := &c17batch{Kind: "fromBigEndianBytes-length"}
	for _, t := range types {
		size := c17size(t)
		maxLen := size + 1
		if size == 0 {
			maxLen = 40
		}
		for n := 0; n <= maxLen; n++ {
			t, n := t, n
			bytes := make([]string, n)
			pat := c.Rng.IntN(5)
			for i := range bytes {
				var v int
				switch pat {
				case 0:
					v = 0xff
				case 1:
					v = 0
				case 2:
					if i == 0 {
						v = 0x80
					}
				default:
					v = c.Rng.IntN(256)
				}
				bytes[i] = fmt.Sprint(v)
			}
			arr := "[" + strings.Join(bytes, ",") + "]"
			if n == 0 {
				arr = "[]"
			}
			b.Evals = append(b.Evals, c17eval{
				Expr: fmt.Sprintf("(%s.fromBigEndianBytes(%s)?.toString()) ?? \"nil\"", t.Name, arr),
				Check: func(got string) (string, string) {
					tooLong := size != 0 && n > size
					if tooLong {
						c.Inc("bytes_too_long")
					} else {
						c.Inc("bytes_fits")
					}
					switch {
					case tooLong && got != "nil":
						return "fromBigEndianBytes too-long-accepted " + t.Name, fmt.Sprintf("%s.fromBigEndianBytes of %d bytes (size %d) = %s, expected nil", t.Name, n, size, got)
					case !tooLong && got == "nil":
						rel := "len<size"
						if n == size {
							rel = "len==size"
						}
						if size == 0 {
							rel = "unbounded"
						}
						if n == 0 {
							rel = "empty"
						}
						return "fromBigEndianBytes nil-for-fitting-input " + t.Name + " " + rel, fmt.Sprintf("%s.fromBigEndianBytes(%s) = nil although %d <= size %d", t.Name, arr, n, size)
					}
					return "", ""
				},
			})
			c.DistinctHash(hashParts("bytes", t.Name, n, arr))
		}
	}
	return b
}

// ---- (4) addresses, hex, paths

var c17identRe = regexp.MustCompile(`^[A-Za-z_][A-Za-z0-9_]*$`)

func c17miscBatch(c *core.Ctx) *c17batch {
	b := &c17batch{Kind: "address-hex-path"}
	eq := func(what, want string) func(string) (string, string) {
		return func(got string) (string, string) {
			c.Inc("misc_" + what)
			if got == want {
				return "", ""
			}
			return what, fmt.Sprintf("%s: expected %q, observed %q", what, want, got)
		}
	}
	for i := 0; i < 10; i++ {
		var a uint64
		switch c.Rng.IntN(4) {
		case 0:
			a = uint64(c.Rng.IntN(300))
		case 1:
			a = ^uint64(0) - uint64(c.Rng.IntN(3))
		default:
			a = c.Rng.Uint64() >> uint(c.Rng.IntN(64))
		}
		canon := fmt.Sprintf("0x%016x", a)
		lit := fmt.Sprintf("0x%x", a)
		b.Evals = append(b.Evals,
			c17eval{Expr: fmt.Sprintf("(Address.fromString((%s as Address).toString())?.toString()) ?? \"nil\"", lit), Check: eq("Address.fromString(toString)", canon)},
			c17eval{Expr: fmt.Sprintf("Address.fromBytes((%s as Address).toBytes()).toString()", lit), Check: eq("Address.fromBytes(toBytes)", canon)},
			c17eval{Expr: fmt.Sprintf("(Address.fromString(%s)?.toString()) ?? \"nil\"", cdcQuote(canon)), Check: eq("Address.fromString(canonical).toString", canon)},
		)
		c.Distinct("addr" + canon)
	}
	for i := 0; i < 10; i++ {
		n := c.Rng.IntN(40)
		if i == 0 {
			n = 0
		}
		bs := make([]byte, n)
		var items []string
		for j := range bs {
			bs[j] = byte(c.Rng.IntN(256))
			items = append(items, fmt.Sprint(bs[j]))
		}
		hx := hex.EncodeToString(bs)
		arr := "[" + strings.Join(items, ",") + "]"
		b.Evals = append(b.Evals,
			c17eval{Expr: fmt.Sprintf("String.encodeHex(%s)", arr), Check: eq("String.encodeHex", hx)},
			c17eval{Expr: fmt.Sprintf("String.encodeHex(String.encodeHex(%s).decodeHex())", arr), Check: eq("encodeHex(decodeHex(encodeHex))", hx)},
			c17eval{Expr: fmt.Sprintf("String.encodeHex(%s.decodeHex())", cdcQuote(hx)), Check: eq("encodeHex(decodeHex)", hx)},
		)
		c.Distinct("hex" + hx)
	}
	doms := []struct{ ctor, prefix string }{{"StoragePath", "/storage/"}, {"PublicPath", "/public/"}, {"PrivatePath", "/private/"}}
	for i := 0; i < 8; i++ {
		id := []string{"a", "_", "foo", "A1_b", "x9"}[c.Rng.IntN(5)]
		if c.Rng.IntN(2) == 0 {
			const al = "abcdefghijklmnopqrstuvwxyzABCDEFGHIJKLMNOPQRSTUVWXYZ_0123456789"
			n := 1 + c.Rng.IntN(30)
			var sb strings.Builder
			sb.WriteByte(al[c.Rng.IntN(53)])
			for j := 1; j < n; j++ {
				sb.WriteByte(al[c.Rng.IntN(len(al))])
			}
			id = sb.String()
		}
		d := doms[c.Rng.IntN(len(doms))]
		want := d.prefix + id
		b.Evals = append(b.Evals,
			c17eval{Expr: fmt.Sprintf("(%s(identifier: %s)?.toString()) ?? \"nil\"", d.ctor, cdcQuote(id)), Check: eq(d.ctor+"(identifier:).toString", want)},
			c17eval{Expr: fmt.Sprintf("(%s(identifier: %s)! == %s(identifier: %s(identifier: %s)!.toString().slice(from: %d, upTo: %d))!).toString()",
				d.ctor, cdcQuote(id), d.ctor, d.ctor, cdcQuote(id), len(d.prefix), len(want)), Check: eq(d.ctor+" reconstructed from toString", "true")},
			c17eval{Expr: fmt.Sprintf("(%s%s).toString()", d.prefix, id), Check: eq("path literal toString", want)},
		)
		c.Distinct("path" + want)
	}
	return b
}

func init() {
	classes := c17classes()
	core.Register(&core.Prop{
		ID: "C17",
		Rule: "batched scripts (<= ~250 evaluations each) on engines I, V, Vp: (1) fromString(toString) and fromBigEndianBytes(toBigEndianBytes) on boundary and seeded random values of every concrete numeric type; (2) fromString on strings drawn from the literal grammar with perturbations (signs, leading zeros, underscores, excess fraction digits, missing parts, whitespace, foreign characters, values around every type bound) applied to every type of the string's class; (3) fromBigEndianBytes on arrays of every length 0..size+1 (0..40 for Int/UInt); (4) Address / hex / path round trips; an evaluation is distinct by (class or type, string or value or byte array)",
		Assumptions: []string{
			"the value a string denotes is read by a trivial decimal reader (sign, digits, underscores ignored, optional fraction); no reference grammar is imposed: acceptance is only compared between types of one class for which the value is in range (fixed-point: and has no more fractional digits than the smaller scale, i.e. excess fractional digits are excluded from the comparison)",
			"for byte arrays shorter than the type's size the statement fixes no value; only nil / non-nil is checked",
			"results are compared through toString() of the returned values",
		},
		NumCases:   func(tier string) int { return map[string]int{"quick": 48, "thorough": 1600}[tier] },
		Exhaustive: func(string) bool { return false },
		Floors: map[string]int64{
			"fromString_accepted": 2000, "fromString_nil": 2000, "fromString_out_of_range": 500, "fromString_groups_compared": 1000, "fromString_groups_no_value": 100, "fromString_unrepresentable_fraction": 100,
			"roundtrip_fromString(toString)": 1000, "roundtrip_fromBigEndianBytes(toBigEndianBytes)": 1000,
			"bytes_too_long": 30, "bytes_fits": 500,
			"misc_Address.fromString(toString)": 50, "misc_encodeHex(decodeHex)": 50, "misc_path literal toString": 50,
			"script_runs_I": 100, "script_runs_V": 100, "script_runs_Vp": 100, "batches_engines_agree": 100,
		},
		Run: func(c *core.Ctx) {
			// (2) one batch per class
			for ci, cl := range classes {
				per := 200 / len(cl.Types)
				var strs []string
				for i := 0; i < per; i++ {
					fixedIdx := -1
					if i < 3 {
						// the fixed perturbation list is spread over the cases
						fixedIdx = (c.Case*3 + i + ci) % len(c17fixedStrings)
					}
					strs = append(strs, c17genString(c, cl, fixedIdx))
				}
				c17run(c, c17metamorphicBatch(c, cl, strs))
			}
			// (1)
			c17run(c, c17roundTripBatch(c, 4))
			// (3) a rotating subset of types, every length
			var ts []numT
			for i := 0; i < 5; i++ {
				ts = append(ts, c16types[(c.Case*5+i)%len(c16types)])
			}
			c17run(c, c17bytesBatch(c, ts))
			// (4)
			c17run(c, c17miscBatch(c))
		},
	})
}
