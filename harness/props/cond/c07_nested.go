package cond

import (
	"fmt"
	"strings"

	"github.com/onflow/cadence"

	"verif/harness/core"
	"verif/harness/host"
)

// Nested view scopes: an inner view closure / inner view function that writes a local, parameter or
// container element of the ENCLOSING view function and then escapes. If the checker accepts the
// program, calling the escaped view function twice in a row (no arguments, nothing else happens in
// between) must give the same result both times: a different second result means the first call
// mutated a value (the captured variable) that existed before that call.

type c07capture struct{ id, decl, write, read string }

var c07captures = []c07capture{
	{"int-var", "var n = 0", "n = n + 1", "n"},
	{"int-compound-assign", "var n = 0", "n = n * 2 + 1", "n"},
	{"array-element", "var xs = [0, 0]", "xs[1] = xs[1] + 1", "xs[1]"},
	{"dictionary-entry", "var d = {\"k\": 0}", "d[\"k\"] = (d[\"k\"] ?? 0) + 1", "d[\"k\"] ?? 0"},
	{"swap", "var p = 0\n    var q = 1", "p <-> q", "p"},
	{"parameter-copy", "var n = start", "n = n + 1", "n"},
}

type c07nesting struct{ id, tmpl string }

// @DECL@ declaration(s) in the enclosing view function, @W@ the write, @R@ the read
var c07nestings = []c07nesting{
	{"closure-in-view-function", `access(all) view fun make(_ start: Int): view fun(): Int {
    @DECL@
    return view fun(): Int {
        @W@
        return @R@
    }
}`},
	{"closure-in-closure-in-view-function", `access(all) view fun make(_ start: Int): view fun(): Int {
    @DECL@
    let outer = view fun(): view fun(): Int {
        return view fun(): Int {
            @W@
            return @R@
        }
    }
    return outer()
}`},
	{"inner-function-in-view-function", `access(all) view fun make(_ start: Int): view fun(): Int {
    @DECL@
    view fun inner(): Int {
        @W@
        return @R@
    }
    return inner
}`},
	{"closure-in-view-method", `access(all) struct Maker {
    access(all) view fun make(_ start: Int): view fun(): Int {
        @DECL@
        return view fun(): Int {
            @W@
            return @R@
        }
    }
}
access(all) view fun make(_ start: Int): view fun(): Int {
    return Maker().make(start)
}`},
	{"closure-in-nested-block-of-view-function", `access(all) view fun make(_ start: Int): view fun(): Int {
    @DECL@
    if start >= 0 {
        let f = view fun(): Int {
            if start >= 0 {
                @W@
            }
            return @R@
        }
        return f
    }
    return view fun(): Int { return 0 }
}`},
}

func c07Nested(c *core.Ctx) {
	k := c.Case
	cp := c07captures[k%len(c07captures)]
	ns := c07nestings[(k/len(c07captures))%len(c07nestings)]
	decl := strings.ReplaceAll(cp.decl, "\n    ", "\n    ")
	prog := strings.NewReplacer("@DECL@", decl, "@W@", cp.write, "@R@", cp.read).Replace(ns.tmpl)
	start := c.Rng.IntN(5)
	prog += fmt.Sprintf("\naccess(all) fun main(): [Int] {\n    let next = make(%d)\n    return [next(), next()]\n}\n", start)
	id := cp.id + " @ " + ns.id
	// control: the same program without the write must be accepted (so a rejection of the real
	// program is attributable to the write) and give the same result twice
	control := strings.NewReplacer("@DECL@", decl, "@W@", "let unused = 0", "@R@", cp.read).Replace(ns.tmpl) +
		fmt.Sprintf("\naccess(all) fun main(): [Int] {\n    let next = make(%d)\n    return [next(), next()]\n}\n", start)
	if co := host.New().RunScript(host.EngI, control, nil, nil); co.Err != nil || co.Escaped != nil {
		c.Violate("harness: nested-view control program is not accepted: "+id, host.ErrText(co), map[string]any{"program": control})
		return
	}
	c.Inc("nested_view_controls_accepted")
	for _, eng := range host.AllEngines {
		h := host.New()
		o := h.RunScript(eng, prog, nil, nil)
		c.Eval(1)
		if eng == host.EngI {
			c.Inc("nested_view_programs")
			c.Distinct(prog)
		}
		if o.Err != nil || o.Escaped != nil {
			if isCheckerRejection(o.Err) {
				if eng == host.EngI {
					if host.HasKind(o.Err, "PurityError") {
						c.Inc("nested_view_rejected_by_purity")
					} else {
						c.Inc("nested_view_rejected_otherwise")
						c.Note("nested_view_rejected_otherwise", core.Clip(host.ErrText(o), 600)+"\n"+prog)
					}
				}
				break
			}
			c.Violate(fmt.Sprintf("nested-view[%s] accepted program fails: %s", eng, id), host.ErrText(o), map[string]any{"program": prog, "engine": eng.String()})
			continue
		}
		arr, ok := o.Value.(cadence.Array)
		if !ok || len(arr.Values) != 2 {
			c.Violate(fmt.Sprintf("nested-view[%s] unexpected result shape: %s", eng, id), fmt.Sprint(o.Value), map[string]any{"program": prog})
			continue
		}
		if eng == host.EngI {
			c.Inc("nested_view_accepted")
		}
		if arr.Values[0].String() != arr.Values[1].String() {
			c.Violate(fmt.Sprintf("accepted-impurity: escaped view closure mutates captured state: %s", id),
				fmt.Sprintf("engine %s: the checker accepts the program; two consecutive calls of the returned view function give %s and %s, so the first call mutated the captured variable", eng, arr.Values[0], arr.Values[1]),
				map[string]any{"program": prog, "engine": eng.String()})
		}
	}
}
