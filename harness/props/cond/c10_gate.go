package cond

import (
	"fmt"
	"strings"

	"github.com/onflow/cadence"

	"verif/harness/core"
	"verif/harness/host"
)

// Contract-level inherited conditions: a contract conforming to one or two *contract interfaces*
// whose contract functions declare pre/post conditions. The conforming contract declares nested
// types (interfaces, composites, events, enums) before, between and after the functions. The
// reference model is three integers per function: pre holds iff x > lo, the implementation returns
// x + d, post holds iff result < hi.

type gateFn struct {
	name      string
	lo, hi, d int64
	hasPre    bool
	hasPost   bool
	// second interface (KJ) adds its own conditions to the same function
	lo2    int64
	hasKJ  bool
	rename bool // the implementation renames the parameter
}

type gateWorld struct {
	fns     []*gateFn
	twoIfcs bool
	ki, kj  string
	ks      string
	shape   string // placement of nested declarations, part of the violation key
}

var gateNested = []string{
	"access(all) struct interface Marker {}",
	"access(all) struct interface Marked { access(all) fun m(_ q: Int): Int { pre { q >= 0: \"Marked.m pre\" } } }",
	"access(all) resource interface RMarker { access(all) fun rm(): Int }",
	"access(all) struct Plain { access(all) fun m(_ q: Int): Int { return q } }",
	"access(all) struct Impl: Marked { access(all) fun m(_ q: Int): Int { return q + 1 } }",
	"access(all) resource Res { access(all) fun rm(): Int { return 1 } }",
	"access(all) event Note(n: Int)",
	"access(all) enum Shade: UInt8 { access(all) case dark; access(all) case light }",
	"access(all) entitlement Ent",
}

func newGateWorld(r interface{ IntN(int) int }) *gateWorld {
	w := &gateWorld{twoIfcs: r.IntN(3) == 0}
	nf := 1 + r.IntN(3)
	for i := 0; i < nf; i++ {
		f := &gateFn{name: fmt.Sprintf("gate%d", i), lo: int64(r.IntN(20)), d: int64(r.IntN(7)) - 2, rename: r.IntN(2) == 0}
		f.hi = f.lo + 5 + int64(r.IntN(30))
		switch r.IntN(4) {
		case 0:
			f.hasPre = true
		case 1:
			f.hasPost = true
		default:
			f.hasPre, f.hasPost = true, true
		}
		if w.twoIfcs && r.IntN(2) == 0 {
			f.hasKJ = true
			f.lo2 = f.lo + 1 + int64(r.IntN(3))
		}
		w.fns = append(w.fns, f)
	}
	iface := func(name string, second bool) string {
		var sb strings.Builder
		fmt.Fprintf(&sb, "access(all) contract interface %s {\n", name)
		if r.IntN(3) == 0 {
			sb.WriteString("    access(all) struct interface Inner { access(all) fun m(_ q: Int): Int { pre { q >= 0: \"Inner.m pre\" } } }\n")
		}
		for _, f := range w.fns {
			if second {
				if !f.hasKJ {
					continue
				}
				fmt.Fprintf(&sb, "    access(all) fun %s(_ x: Int): Int {\n        pre { x > %d: \"%s.%s pre\" }\n    }\n", f.name, f.lo2, name, f.name)
				continue
			}
			fmt.Fprintf(&sb, "    access(all) fun %s(_ x: Int): Int {\n", f.name)
			if f.hasPre {
				fmt.Fprintf(&sb, "        pre { x > %d: \"%s.%s pre\" }\n", f.lo, name, f.name)
			}
			if f.hasPost {
				fmt.Fprintf(&sb, "        post { result < %d: \"%s.%s post\" }\n", f.hi, name, f.name)
			}
			sb.WriteString("    }\n")
		}
		sb.WriteString("}\n")
		return sb.String()
	}
	w.ki = iface("KI", false)
	if w.twoIfcs {
		w.kj = iface("KJ", true)
	}
	var sb strings.Builder
	sb.WriteString("import KI from 0x0000000000000001\n")
	conf := "KI"
	if w.twoIfcs {
		sb.WriteString("import KJ from 0x0000000000000001\n")
		conf = "KI, KJ"
	}
	fmt.Fprintf(&sb, "access(all) contract KS: %s {\n", conf)
	used := map[int]bool{}
	var shape []string
	nested := func(slot string) {
		n := r.IntN(3)
		for k := 0; k < n; k++ {
			i := r.IntN(len(gateNested))
			if used[i] || (i == 4 && !used[1]) {
				continue
			}
			used[i] = true
			sb.WriteString("    " + gateNested[i] + "\n")
			shape = append(shape, fmt.Sprintf("%s:%s", slot, strings.Fields(gateNested[i])[1]+"-"+strings.Fields(gateNested[i])[2]))
		}
	}
	nested("before")
	for i, f := range w.fns {
		p := "x"
		if f.rename {
			p = "amount"
		}
		fmt.Fprintf(&sb, "    access(all) fun %s(_ %s: Int): Int {\n        return %s + %d\n    }\n", f.name, p, p, f.d)
		if i+1 < len(w.fns) {
			nested("between")
		}
	}
	nested("after")
	sb.WriteString("    init() {}\n}\n")
	w.ks = sb.String()
	seen := map[string]bool{}
	var uniq []string
	for _, s := range shape {
		// key granularity: where (before/between/after the functions) an interface or another
		// kind of nested declaration sits
		slot, what, _ := strings.Cut(s, ":")
		if strings.Contains(what, "interface") {
			s = slot + ":interface"
		} else {
			s = slot + ":other"
		}
		if !seen[s] {
			seen[s] = true
			uniq = append(uniq, s)
		}
	}
	w.shape = strings.Join(uniq, ",")
	if w.shape == "" {
		w.shape = "no-nested-declarations"
	}
	return w
}

// expected outcome of KS.<f>(x): "" + value, or the message of the failing condition
func (f *gateFn) expect(x int64) (val int64, failMsgs []string) {
	if f.hasPre && !(x > f.lo) {
		failMsgs = append(failMsgs, "KI."+f.name+" pre")
	}
	if f.hasKJ && !(x > f.lo2) {
		failMsgs = append(failMsgs, "KJ."+f.name+" pre")
	}
	if len(failMsgs) > 0 {
		return 0, failMsgs
	}
	val = x + f.d
	if f.hasPost && !(val < f.hi) {
		return 0, []string{"KI." + f.name + " post"}
	}
	return val, nil
}

func c10Gate(c *core.Ctx) {
	w := newGateWorld(c.Rng)
	world := w.ki + w.kj + w.ks
	hosts := map[host.Engine]*host.Host{}
	for _, eng := range host.AllEngines {
		h := host.New()
		hosts[eng] = h
		type dep struct{ name, src string }
		deps := []dep{{"KI", w.ki}}
		if w.twoIfcs {
			deps = append(deps, dep{"KJ", w.kj})
		}
		for _, d := range deps {
			if o := h.Deploy(eng, host.Addr(1), d.name, d.src); o.Err != nil || o.Escaped != nil {
				if isCheckerRejection(o.Err) {
					c.Inc("gate_worlds_rejected_by_checker")
					c.Note("c10_gate_last_rejected", core.Clip(host.ErrText(o), 600)+"\n"+world)
					return
				}
				c.Violate(fmt.Sprintf("gate [%s] deployment of the contract interface fails: %s", eng, normKind(host.ErrKind(o.Err))),
					"deploying a generated contract interface failed: "+host.ErrText(o), map[string]any{"engine": eng.String(), "world": world})
				return
			}
		}
		if o := h.Deploy(eng, host.Addr(2), "KS", w.ks); o.Err != nil || o.Escaped != nil {
			if isCheckerRejection(o.Err) {
				c.Inc("gate_worlds_rejected_by_checker")
				c.Note("c10_gate_last_rejected", core.Clip(host.ErrText(o), 600)+"\n"+world)
				return
			}
			c.Violate(fmt.Sprintf("gate [%s] deployment of the conforming contract fails: %s", eng, normKind(host.ErrKind(o.Err))),
				"deploying the generated conforming contract failed: "+host.ErrText(o), map[string]any{"engine": eng.String(), "world": world})
			return
		}
	}
	c.Inc("gate_worlds")
	for _, f := range w.fns {
		xs := []int64{f.lo, f.lo + 1, f.lo + 2, f.hi - f.d, f.hi - f.d - 1, f.lo - 3, f.hi + 4}
		if f.hasKJ {
			xs = append(xs, f.lo2, f.lo2+1)
		}
		for _, x := range xs {
			src := fmt.Sprintf("import KS from 0x0000000000000002\naccess(all) fun main(): Int {\n    return KS.%s(%d)\n}\n", f.name, x)
			val, fails := f.expect(x)
			for _, eng := range host.AllEngines {
				h := hosts[eng]
				h.ResetTrace()
				o := h.RunScript(eng, src, nil, nil)
				c.Eval(1)
				if eng == host.EngI {
					c.Inc("contract_gate_calls")
					c.Distinct(world + src)
					if len(fails) > 0 {
						c.Inc("contract_gate_expected_condition_error")
					} else {
						c.Inc("contract_gate_expected_success")
					}
				}
				wit := map[string]any{"engine": eng.String(), "contracts": world, "script": src, "error": host.ErrText(o)}
				kind := "pre"
				if len(fails) > 0 && strings.HasSuffix(fails[0], " post") {
					kind = "post"
				}
				if len(fails) == 0 {
					if o.Err != nil || o.Escaped != nil {
						c.Violate(fmt.Sprintf("gate [%s] all inherited contract-function conditions hold but the call fails (%s) | %s", eng, normKind(host.ErrKind(o.Err)), w.shape),
							fmt.Sprintf("KS.%s(%d): every inherited condition holds (model result %d) but the call failed", f.name, x, val), wit)
						continue
					}
					got, ok := o.Value.(cadence.Int)
					if !ok || got.Big().Int64() != val {
						c.Violate(fmt.Sprintf("gate [%s] wrong result | %s", eng, w.shape),
							fmt.Sprintf("KS.%s(%d) returned %v, model %d", f.name, x, o.Value, val), wit)
					}
					continue
				}
				ce := condErrOf(o.Err)
				if ce == nil {
					c.Violate(fmt.Sprintf("gate [%s] inherited contract-function %s-condition not enforced | %s", eng, kind, w.shape),
						fmt.Sprintf("KS.%s(%d): condition(s) %v of the contract interface are false but the call did not fail with a condition error (error: %s)", f.name, x, fails, core.Clip(host.ErrText(o), 200)), wit)
					continue
				}
				named := false
				for _, m := range fails {
					if ce.Message == m {
						named = true
					}
				}
				if !named {
					c.Violate(fmt.Sprintf("gate [%s] condition error names another condition | %s", eng, w.shape),
						fmt.Sprintf("KS.%s(%d): false condition(s) %v, reported %q", f.name, x, fails, ce.Message), wit)
				}
			}
		}
	}
}
