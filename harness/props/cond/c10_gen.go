package cond

import (
	"fmt"
	"math/rand/v2"
)

// ---------------------------------------------------------------------------------------------
// C10 world generator. It follows the checker's rules for interface inheritance so that (nearly)
// every world is accepted:
//   * within the ancestor closure of any interface at most one interface gives a function a
//     default implementation, and a declaration below a default implementation has conditions;
//   * a composite that does not override a function needs exactly one default implementation in its
//     transitive conformance set;
//   * an interface that assigns a field in a default function declares that field itself.
// ---------------------------------------------------------------------------------------------

type c10gen struct {
	r *rand.Rand
	w *world
}

func (g *c10gen) n(k int) int       { return g.r.IntN(k) }
func (g *c10gen) p(pct int) bool    { return g.r.IntN(100) < pct }
func (g *c10gen) rng(a, b int) int64 { return int64(a + g.r.IntN(b-a+1)) }
func pickOf[T any](g *c10gen, xs []T) T { return xs[g.r.IntN(len(xs))] }

// atoms available in a context
type exCtx struct {
	nparams int
	nlocals int
	post    bool // before(...) allowed
	result  bool // result allowed
}

func (g *c10gen) param(cx exCtx) *ex { return prm(g.n(cx.nparams)) }
func (g *c10gen) field() *ex         { return fld(g.n(2)) }

// pure expression over the entry state (argument of before)
func (g *c10gen) beforeArg(cx exCtx) *ex {
	switch g.n(6) {
	case 0:
		return bin("+", g.field(), g.param(cx))
	case 1:
		return bin("+", fld(0), fld(1))
	case 2:
		return bin("*", g.field(), cst(2))
	default:
		return g.field()
	}
}

func (g *c10gen) atom(cx exCtx) *ex {
	for {
		switch g.n(7) {
		case 0, 1:
			return g.param(cx)
		case 2, 3:
			return g.field()
		case 4:
			if cx.nlocals > 0 {
				return loc(g.n(cx.nlocals))
			}
		case 5:
			if cx.post {
				return bef(g.beforeArg(cx))
			}
		case 6:
			if cx.result {
				return res()
			}
		}
	}
}

func (g *c10gen) smallExpr(cx exCtx) *ex {
	a := g.atom(cx)
	switch g.n(8) {
	case 0:
		return bin("+", a, cst(g.rng(-6, 9)))
	case 1:
		return bin("-", a, g.atom(cx))
	case 2:
		return bin("+", a, g.atom(cx))
	case 3:
		return bin("*", a, cst(g.rng(2, 3)))
	case 4:
		return bin("%", a, cst(g.rng(2, 5)))
	default:
		return a
	}
}

var cmpOps = []string{"<", "<=", ">", ">=", "==", "!="}

// "mostly true" comparisons over the input domain v,w∈[-5,100], x,y∈[-10,60]
func (g *c10gen) looseCmp(cx exCtx) *bex {
	pa := g.param(cx)
	f := g.field()
	switch g.n(12) {
	case 0:
		return cmp(pa, ">", cst(g.rng(-8, 6)))
	case 1:
		return cmp(pa, "<", cst(g.rng(35, 70)))
	case 2:
		m := g.rng(2, 4)
		return cmp(bin("%", pa, cst(m)), "!=", cst(g.rng(0, int(m)-1)))
	case 3:
		return cmp(bin("%", pa, cst(2)), "==", cst(0))
	case 4:
		return cmp(pa, "!=", cst(g.rng(-3, 20)))
	case 5:
		return cmp(f, "<", cst(g.rng(90, 400)))
	case 6:
		return cmp(f, ">=", cst(g.rng(-40, 5)))
	case 7:
		return cmp(bin("+", f, pa), "<", cst(g.rng(150, 500)))
	case 8:
		return cmp(bin("+", pa, g.param(cx)), ">", cst(g.rng(-10, 4)))
	case 9:
		return cmp(fld(0), "!=", bin("+", fld(1), cst(g.rng(-4, 4))))
	case 10:
		return cmp(bin("-", f, pa), ">", cst(g.rng(-90, -40)))
	default:
		return cmp(g.smallExpr(cx), pickOf(g, cmpOps), g.smallExpr(cx))
	}
}

func (g *c10gen) postCmp(cx exCtx) *bex {
	f := g.n(2)
	pa := g.param(cx)
	if cx.result && g.p(50) {
		switch g.n(7) {
		case 0:
			return cmp(res(), "!=", cst(g.rng(-5, 40)))
		case 1:
			return cmp(res(), ">=", bin("-", bef(fld(f)), cst(g.rng(0, 80))))
		case 2:
			return cmp(res(), "==", bin("+", bef(fld(f)), pa))
		case 3:
			m := g.rng(2, 4)
			return cmp(bin("%", res(), cst(m)), "!=", cst(g.rng(0, int(m)-1)))
		case 4:
			return cmp(res(), "<", cst(g.rng(200, 900)))
		case 5:
			return cmp(res(), ">", cst(g.rng(-300, -20)))
		default:
			return cmp(res(), pickOf(g, cmpOps), g.smallExpr(cx))
		}
	}
	switch g.n(8) {
	case 0:
		return cmp(fld(f), ">=", bef(fld(f)))
	case 1:
		return cmp(fld(f), "==", bef(fld(f)))
	case 2:
		return cmp(bin("-", fld(f), bef(fld(f))), "<", cst(g.rng(30, 200)))
	case 3:
		return cmp(fld(f), "!=", bef(fld(1-f)))
	case 4:
		return cmp(bef(bin("+", fld(f), pa)), "<=", bin("+", fld(f), cst(g.rng(40, 120))))
	case 5:
		return cmp(fld(f), "!=", bin("+", bef(fld(f)), cst(g.rng(1, 9))))
	default:
		return g.looseCmp(cx)
	}
}

func (g *c10gen) test(cx exCtx) *bex {
	mk := func() *bex {
		if cx.post {
			return g.postCmp(cx)
		}
		return g.looseCmp(cx)
	}
	b := mk()
	switch g.n(12) {
	case 0:
		return &bex{k: bxAnd, l: b, r: mk()}
	case 1:
		return &bex{k: bxOr, l: b, r: g.looseCmp(cx)}
	case 2:
		// !(negated comparison): keeps the "mostly true" bias
		if b.k == bxCmp {
			neg := map[string]string{"<": ">=", "<=": ">", ">": "<=", ">=": "<", "==": "!=", "!=": "=="}
			return &bex{k: bxNot, l: cmp(b.a, neg[b.op], b.b)}
		}
	}
	return b
}

func (g *c10gen) conds(d *fdecl, post bool, n int, emitPct int) []*cond {
	cx := exCtx{nparams: len(d.fn.labels), post: post, result: post && d.fn.returns}
	var out []*cond
	kind := "pre"
	if post {
		kind = "post"
	}
	for i := 0; i < n; i++ {
		c := &cond{tag: fmt.Sprintf("%s.%s.%s%d", d.owner, d.fn.name, kind, i), post: post, decl: d}
		if g.p(emitPct) {
			c.emit = true
			c.a = g.smallExpr(cx)
			c.b = g.atom(cx)
			if post && g.p(60) {
				c.b = bef(g.beforeArg(cx))
			}
			if cx.result && g.p(50) {
				c.a = res()
			}
		} else {
			c.test = g.test(cx)
		}
		out = append(out, c)
	}
	return out
}

// body of fn for a declaration whose `self` can call `callable`
func (g *c10gen) body(d *fdecl, callable []*cfunc) *body {
	b := &body{}
	cx := exCtx{nparams: len(d.fn.labels)}
	assign := func() *stmt {
		f := g.n(2)
		var e *ex
		switch g.n(7) {
		case 0:
			e = bin("+", fld(f), g.param(cx))
		case 1:
			e = bin("+", fld(f), cst(g.rng(1, 9)))
		case 2:
			e = bin("-", fld(1-f), g.param(cx))
		case 3:
			e = bin("+", bin("*", fld(f), cst(2)), g.param(cx))
		case 4:
			e = bin("+", bin("%", g.param(cx), cst(3)), fld(f))
		default:
			e = g.smallExpr(cx)
		}
		return &stmt{k: stAssign, field: f, e: e}
	}
	retExpr := func() *ex {
		if !d.fn.returns {
			return nil
		}
		switch g.n(5) {
		case 0:
			return fld(g.n(2))
		case 1:
			return bin("+", fld(g.n(2)), g.param(cx))
		default:
			return g.smallExpr(cx)
		}
	}
	ns := 1 + g.n(3)
	for i := 0; i < ns; i++ {
		switch {
		case len(callable) > 0 && g.p(30):
			callee := pickOf(g, callable)
			s := &stmt{k: stCall, callee: callee, local: -1}
			for range callee.labels {
				switch g.n(4) {
				case 0:
					s.args = append(s.args, cst(g.rng(-2, 30)))
				case 1:
					s.args = append(s.args, bin("+", g.param(cx), cst(g.rng(-3, 5))))
				default:
					s.args = append(s.args, g.param(cx))
				}
			}
			if callee.returns && g.p(75) {
				s.local = b.nlocals
				b.nlocals++
			}
			b.stmts = append(b.stmts, s)
			if s.local >= 0 {
				cx.nlocals = b.nlocals
			}
		case g.p(28):
			s := &stmt{k: stIfRet, cnd: g.looseCmpBody(cx)}
			if g.p(60) {
				s.then = assign()
			}
			s.ret = retExpr()
			b.stmts = append(b.stmts, s)
		default:
			b.stmts = append(b.stmts, assign())
		}
	}
	b.ret = retExpr()
	return b
}

// branch conditions in bodies: roughly 50/50 over the input domain
func (g *c10gen) looseCmpBody(cx exCtx) *bex {
	switch g.n(4) {
	case 0:
		return cmp(g.param(cx), ">", cst(g.rng(5, 40)))
	case 1:
		return cmp(bin("%", g.param(cx), cst(2)), "==", cst(g.rng(0, 1)))
	case 2:
		return cmp(g.field(), "<", cst(g.rng(10, 70)))
	default:
		return cmp(g.atom(cx), pickOf(g, cmpOps), g.atom(cx))
	}
}

func (g *c10gen) pnames(fn *cfunc, rename bool) []string {
	out := append([]string{}, fn.labels...)
	if rename {
		alt := []string{"a", "b", "c"}
		if g.p(50) {
			alt = []string{"p", "q", "z"}
		}
		for i := range out {
			if g.p(70) {
				out[i] = alt[i]
			}
		}
	}
	return out
}

// defaultHolders: interfaces in the closure of `roots` (plus extra) giving fn a default implementation
func defaultHolders(roots []*iface, fn *cfunc) []*iface {
	var out []*iface
	for _, i := range closure(roots) {
		if d := i.decl(fn); d != nil && d.body != nil {
			out = append(out, i)
		}
	}
	return out
}

func declaredIn(roots []*iface, fn *cfunc) bool {
	for _, i := range closure(roots) {
		if i.decl(fn) != nil {
			return true
		}
	}
	return false
}

func newC10World(r *rand.Rand) *world {
	g := &c10gen{r: r}
	w := &world{resource: g.p(50), contract: g.p(35)}
	g.w = w
	// functions
	nf := 2 + g.n(2)
	for i := 0; i < nf; i++ {
		fn := &cfunc{name: fmt.Sprintf("f%d", i), idx: i, labels: []string{"x"}, returns: g.p(65)}
		if i == 0 || g.p(40) {
			fn.labels = []string{"x", "y"}
		}
		w.funcs = append(w.funcs, fn)
	}
	// interfaces
	ni := 2 + g.n(4)
	split := ni // contract mode: interfaces with idx >= split live in CS
	if w.contract && g.p(50) {
		split = 1 + g.n(ni)
	}
	for k := 0; k < ni; k++ {
		i := &iface{name: fmt.Sprintf("I%d", k), idx: k, inCS: k >= split}
		// parents: bias towards chains
		if k > 0 {
			var cand []*iface
			if g.p(65) {
				cand = append(cand, w.ifaces[k-1])
			}
			if k > 1 && g.p(30) {
				cand = append(cand, w.ifaces[g.n(k-1)])
			}
			for _, p := range cand {
				// a contract CI interface cannot inherit from a CS interface
				if p.inCS && !i.inCS {
					continue
				}
				if p.depth() >= 4 {
					continue
				}
				trial := append(append([]*iface{}, i.parents...), p)
				ok := true
				for _, fn := range w.funcs {
					if len(defaultHolders(trial, fn)) > 1 {
						ok = false
					}
				}
				dup := false
				for _, q := range i.parents {
					if q == p {
						dup = true
					}
				}
				if ok && !dup {
					i.parents = trial
				}
			}
		}
		for _, fn := range w.funcs {
			pct := 65
			if len(i.parents) == 0 {
				pct = 80
			}
			if !g.p(pct) {
				continue
			}
			d := &fdecl{fn: fn, owner: i.name, pnames: g.pnames(fn, g.p(25))}
			npre, npost := g.n(3), g.n(3)
			if npre+npost == 0 {
				if g.p(50) {
					npre = 1
				} else {
					npost = 1
				}
			}
			d.pre = g.conds(d, false, npre, 20)
			d.post = g.conds(d, true, npost, 20)
			if len(defaultHolders(i.parents, fn)) == 0 && g.p(40) {
				// callable from a default function: functions declared in i's closure, later in order (acyclic)
				var callable []*cfunc
				for _, f2 := range w.funcs {
					if f2.idx > fn.idx && (declaredIn(i.parents, f2)) {
						callable = append(callable, f2)
					}
				}
				d.body = g.body(d, callable)
			}
			i.decls = append(i.decls, d)
		}
		w.ifaces = append(w.ifaces, i)
	}
	// composites
	nc := 1 + g.n(2)
	for k := 0; k < nc; k++ {
		s := &comp{name: fmt.Sprintf("S%d", k)}
		// conformances: the deepest interface most of the time, plus random others
		first := w.ifaces[ni-1]
		if g.p(35) {
			first = pickOf(g, w.ifaces)
		}
		s.conf = []*iface{first}
		for extra := g.n(3); extra > 0; extra-- {
			p := pickOf(g, w.ifaces)
			dup := false
			for _, q := range s.conf {
				if q == p {
					dup = true
				}
			}
			if !dup {
				s.conf = append(s.conf, p)
			}
		}
		// which functions the composite can call on itself: decided first (those that will exist)
		exists := map[*cfunc]bool{}
		override := map[*cfunc]bool{}
		for _, fn := range w.funcs {
			declared := declaredIn(s.conf, fn)
			nd := len(defaultHolders(s.conf, fn))
			switch {
			case declared && nd == 1:
				exists[fn] = true
				override[fn] = g.p(45)
			case declared:
				exists[fn] = true
				override[fn] = true
			default:
				if g.p(30) {
					exists[fn] = true
					override[fn] = true
				}
			}
		}
		for _, fn := range w.funcs {
			if !override[fn] {
				continue
			}
			d := &fdecl{fn: fn, owner: s.name, inComp: true, pnames: g.pnames(fn, g.p(50))}
			if !g.p(30) { // 30 %: an override without any condition of its own
				d.pre = g.conds(d, false, g.n(3), 15)
				d.post = g.conds(d, true, g.n(3), 15)
			}
			var callable []*cfunc
			for _, f2 := range w.funcs {
				if f2.idx > fn.idx && exists[f2] {
					callable = append(callable, f2)
				}
			}
			d.body = g.body(d, callable)
			s.decls = append(s.decls, d)
		}
		w.comps = append(w.comps, s)
	}
	return w
}
