package cond

import (
	"fmt"
	"sort"
	"strings"
)

// ---------------------------------------------------------------------------------------------
// C10 world model: a tiny language of Int expressions / comparisons / statements that is rendered
// to Cadence source AND evaluated by this file (the independent model). Nothing here looks at the
// code under test.
// ---------------------------------------------------------------------------------------------

const (
	exConst = iota
	exParam
	exField
	exLocal
	exResult
	exBefore // before(inner)
	exBin
)

var fieldNames = [2]string{"v", "w"}

type ex struct {
	k     int
	n     int64  // exConst
	i     int    // exParam: index ; exField: index ; exLocal: index
	op    string // exBin: + - * %
	l, r  *ex
	inner *ex // exBefore
}

func cst(n int64) *ex          { return &ex{k: exConst, n: n} }
func prm(i int) *ex            { return &ex{k: exParam, i: i} }
func fld(i int) *ex            { return &ex{k: exField, i: i} }
func loc(i int) *ex            { return &ex{k: exLocal, i: i} }
func res() *ex                 { return &ex{k: exResult} }
func bef(e *ex) *ex            { return &ex{k: exBefore, inner: e} }
func bin(op string, l, r *ex) *ex { return &ex{k: exBin, op: op, l: l, r: r} }

func (e *ex) uses(kind int) bool {
	if e == nil {
		return false
	}
	if e.k == kind {
		return true
	}
	return e.l.uses(kind) || e.r.uses(kind) || e.inner.uses(kind)
}

// names: the parameter names of the declaration the expression is rendered in.
func (e *ex) render(pn []string) string {
	switch e.k {
	case exConst:
		if e.n < 0 {
			return fmt.Sprintf("(%d)", e.n)
		}
		return fmt.Sprint(e.n)
	case exParam:
		return pn[e.i]
	case exField:
		return "self." + fieldNames[e.i]
	case exLocal:
		return fmt.Sprintf("t%d", e.i)
	case exResult:
		return "result"
	case exBefore:
		return "before(" + e.inner.render(pn) + ")"
	case exBin:
		return "(" + e.l.render(pn) + " " + e.op + " " + e.r.render(pn) + ")"
	}
	panic("bad ex")
}

// env of the model evaluator
type env struct {
	params []int64
	fields *[2]int64 // current state of self
	entry  [2]int64  // state of self on entry of the call (for before)
	locals []int64
	result int64
}

const modelLimit = int64(1) << 40

func (e *ex) eval(v *env) int64 {
	switch e.k {
	case exConst:
		return e.n
	case exParam:
		return v.params[e.i]
	case exField:
		return v.fields[e.i]
	case exLocal:
		return v.locals[e.i]
	case exResult:
		return v.result
	case exBefore:
		// parameters are constants, locals cannot occur in conditions: evaluate against the entry state
		cur := v.fields
		ent := v.entry
		v.fields = &ent
		r := e.inner.eval(v)
		v.fields = cur
		return r
	case exBin:
		a, b := e.l.eval(v), e.r.eval(v)
		var r int64
		switch e.op {
		case "+":
			r = a + b
		case "-":
			r = a - b
		case "*":
			r = a * b
		case "%":
			if b == 0 {
				panic(modelOverflow{})
			}
			r = a % b // truncated remainder, as Cadence's Int %
		default:
			panic("bad op")
		}
		if r > modelLimit || r < -modelLimit {
			panic(modelOverflow{})
		}
		return r
	}
	panic("bad ex")
}

type modelOverflow struct{}

// boolean expressions
const (
	bxCmp = iota
	bxAnd
	bxOr
	bxNot
)

type bex struct {
	k    int
	op   string // bxCmp: < <= > >= == !=
	a, b *ex
	l, r *bex
}

func cmp(a *ex, op string, b *ex) *bex { return &bex{k: bxCmp, op: op, a: a, b: b} }

func (b *bex) uses(kind int) bool {
	if b == nil {
		return false
	}
	return b.a.uses(kind) || b.b.uses(kind) || b.l.uses(kind) || b.r.uses(kind)
}

func (b *bex) render(pn []string) string {
	switch b.k {
	case bxCmp:
		return b.a.render(pn) + " " + b.op + " " + b.b.render(pn)
	case bxAnd:
		return "(" + b.l.render(pn) + ") && (" + b.r.render(pn) + ")"
	case bxOr:
		return "(" + b.l.render(pn) + ") || (" + b.r.render(pn) + ")"
	case bxNot:
		return "!(" + b.l.render(pn) + ")"
	}
	panic("bad bex")
}

func (b *bex) eval(v *env) bool {
	switch b.k {
	case bxCmp:
		x, y := b.a.eval(v), b.b.eval(v)
		switch b.op {
		case "<":
			return x < y
		case "<=":
			return x <= y
		case ">":
			return x > y
		case ">=":
			return x >= y
		case "==":
			return x == y
		case "!=":
			return x != y
		}
		panic("bad cmp")
	case bxAnd:
		return b.l.eval(v) && b.r.eval(v)
	case bxOr:
		return b.l.eval(v) || b.r.eval(v)
	case bxNot:
		return !b.l.eval(v)
	}
	panic("bad bex")
}

// ---------------------------------------------------------------- declarations

type cfunc struct {
	name    string
	idx     int
	labels  []string // argument labels (= parameter names in the interfaces unless renamed)
	returns bool     // Int (true) or Void
}

type cond struct {
	tag  string // owner.fn.pre0 — also the condition's message
	post bool
	emit bool
	test *bex
	a, b *ex // emit condition: Ev(tag:, a:, b:)
	decl *fdecl
}

func (c *cond) usesBefore() bool {
	if c.emit {
		return c.a.uses(exBefore) || c.b.uses(exBefore)
	}
	return c.test.uses(exBefore)
}
func (c *cond) usesResult() bool {
	if c.emit {
		return c.a.uses(exResult) || c.b.uses(exResult)
	}
	return c.test.uses(exResult)
}

const (
	stAssign = iota
	stCall
	stIfRet
)

type stmt struct {
	k      int
	field  int
	e      *ex
	callee *cfunc
	args   []*ex
	local  int // stCall on an Int function: index of the local receiving the result ; -1 none
	cnd    *bex
	then   *stmt // optional assignment before the early return
	ret    *ex   // nil in Void functions
}

type body struct {
	stmts   []*stmt
	ret     *ex // nil in Void functions
	nlocals int
}

type fdecl struct {
	fn     *cfunc
	owner  string // interface or composite name
	inComp bool
	pnames []string
	pre    []*cond
	post   []*cond
	body   *body
}

func (d *fdecl) conds() []*cond { return append(append([]*cond{}, d.pre...), d.post...) }

type iface struct {
	name    string
	idx     int
	parents []*iface
	decls   []*fdecl
	inCS    bool // contract mode: declared in the second contract
}

func (i *iface) decl(fn *cfunc) *fdecl {
	for _, d := range i.decls {
		if d.fn == fn {
			return d
		}
	}
	return nil
}

// closure: i and all its ancestors, in a deterministic order (by declaration index)
func closure(roots []*iface) []*iface {
	seen := map[*iface]bool{}
	var out []*iface
	var walk func(i *iface)
	walk = func(i *iface) {
		if seen[i] {
			return
		}
		seen[i] = true
		out = append(out, i)
		for _, p := range i.parents {
			walk(p)
		}
	}
	for _, r := range roots {
		walk(r)
	}
	sort.Slice(out, func(a, b int) bool { return out[a].idx < out[b].idx })
	return out
}

// depth of an interface in the inheritance DAG (root = 1)
func (i *iface) depth() int {
	d := 0
	for _, p := range i.parents {
		if pd := p.depth(); pd > d {
			d = pd
		}
	}
	return d + 1
}

type comp struct {
	name  string
	conf  []*iface
	decls []*fdecl
}

func (s *comp) decl(fn *cfunc) *fdecl {
	for _, d := range s.decls {
		if d.fn == fn {
			return d
		}
	}
	return nil
}

type world struct {
	resource bool
	contract bool
	funcs    []*cfunc
	ifaces   []*iface
	comps    []*comp
}

// impl: the implementation the statement's semantics select for fn on composite s:
// the composite's own declaration, else the unique default function of the conformance set.
func (w *world) impl(s *comp, fn *cfunc) *fdecl {
	if d := s.decl(fn); d != nil {
		return d
	}
	var found *fdecl
	for _, i := range closure(s.conf) {
		if d := i.decl(fn); d != nil && d.body != nil {
			if found != nil {
				return nil // ambiguous: generator must not produce this
			}
			found = d
		}
	}
	return found
}

// applicable: every declaration whose conditions apply to a call of fn on s:
// own + every interface of the transitive conformance set.
func (w *world) applicable(s *comp, fn *cfunc) []*fdecl {
	var out []*fdecl
	if d := s.decl(fn); d != nil {
		out = append(out, d)
	}
	for _, i := range closure(s.conf) {
		if d := i.decl(fn); d != nil {
			out = append(out, d)
		}
	}
	return out
}

func (w *world) hasFunc(s *comp, fn *cfunc) bool { return w.impl(s, fn) != nil }

// ---------------------------------------------------------------- model execution

type callNode struct {
	fn     *cfunc
	parent *callNode
	impl   *fdecl
}

func (n *callNode) depth() int {
	d := 0
	for p := n.parent; p != nil; p = p.parent {
		d++
	}
	return d
}

type falseCond struct {
	c    *cond
	node *callNode
}

type evPred struct {
	tag  string
	a, b int64
	c    *cond
	node *callNode
}

func (e evPred) key() string { return fmt.Sprintf("%s|%d|%d", e.tag, e.a, e.b) }

// machine runs one call tree in "continue mode": every applicable condition is evaluated even
// after a false one, so that the set of false conditions is known. (Everything evaluated before the
// first false condition sees exactly the state a real execution would see, whatever the order of
// evaluation among the pre- (resp. post-) conditions of one call, because conditions are pure.)
type machine struct {
	w      *world
	s      *comp
	fields [2]int64
	falses []falseCond
	events []evPred
	evals  int // conditions evaluated
	steps  int
}

func (m *machine) call(fn *cfunc, args []int64, parent *callNode) int64 {
	impl := m.w.impl(m.s, fn)
	if impl == nil {
		panic("model: no implementation for " + fn.name)
	}
	m.steps++
	if m.steps > 64 {
		panic(modelOverflow{})
	}
	node := &callNode{fn: fn, parent: parent, impl: impl}
	decls := m.w.applicable(m.s, fn)
	v := &env{params: args, fields: &m.fields, entry: m.fields}
	evalConds := func(post bool) {
		for _, d := range decls {
			cs := d.pre
			if post {
				cs = d.post
			}
			for _, c := range cs {
				m.evals++
				if c.emit {
					m.events = append(m.events, evPred{tag: c.tag, a: c.a.eval(v), b: c.b.eval(v), c: c, node: node})
					continue
				}
				if !c.test.eval(v) {
					m.falses = append(m.falses, falseCond{c, node})
				}
			}
		}
	}
	evalConds(false)
	// body
	b := impl.body
	v.locals = make([]int64, b.nlocals)
	var ret int64
	returned := false
	doAssign := func(s *stmt) { m.fields[s.field] = s.e.eval(v) }
	for _, s := range b.stmts {
		switch s.k {
		case stAssign:
			doAssign(s)
		case stCall:
			as := make([]int64, len(s.args))
			for i, a := range s.args {
				as[i] = a.eval(v)
			}
			r := m.call(s.callee, as, node)
			if s.local >= 0 {
				v.locals[s.local] = r
			}
		case stIfRet:
			if s.cnd.eval(v) {
				if s.then != nil {
					doAssign(s.then)
				}
				if s.ret != nil {
					ret = s.ret.eval(v)
				}
				returned = true
			}
		}
		if returned {
			break
		}
	}
	if !returned && b.ret != nil {
		ret = b.ret.eval(v)
	}
	v.result = ret
	evalConds(true)
	return ret
}

type modelRun struct {
	ok       bool // model stayed within its numeric limits
	ret      int64
	fields   [2]int64
	falses   []falseCond
	events   []evPred
	evals    int
	nested   int // number of nested calls performed
}

func (w *world) run(s *comp, fn *cfunc, v0, w0 int64, args []int64) (r modelRun) {
	m := &machine{w: w, s: s, fields: [2]int64{v0, w0}}
	defer func() {
		if p := recover(); p != nil {
			if _, ok := p.(modelOverflow); ok {
				r = modelRun{ok: false}
				return
			}
			panic(p)
		}
	}()
	ret := m.call(fn, args, nil)
	return modelRun{ok: true, ret: ret, fields: m.fields, falses: m.falses, events: m.events, evals: m.evals, nested: m.steps - 1}
}

// ---------------------------------------------------------------- rendering

func (w *world) kindWord() string {
	if w.resource {
		return "resource"
	}
	return "struct"
}

func renderCond(c *cond, pn []string) string {
	if c.emit {
		return fmt.Sprintf("emit Ev(tag: %q, a: %s, b: %s)", c.tag, c.a.render(pn), c.b.render(pn))
	}
	return fmt.Sprintf("%s: %q", c.test.render(pn), c.tag)
}

func renderStmt(sb *strings.Builder, ind string, s *stmt, d *fdecl) {
	pn := d.pnames
	switch s.k {
	case stAssign:
		fmt.Fprintf(sb, "%sself.%s = %s\n", ind, fieldNames[s.field], s.e.render(pn))
	case stCall:
		var as []string
		for i, a := range s.args {
			as = append(as, s.callee.labels[i]+": "+a.render(pn))
		}
		call := fmt.Sprintf("self.%s(%s)", s.callee.name, strings.Join(as, ", "))
		if s.local >= 0 {
			fmt.Fprintf(sb, "%slet t%d = %s\n", ind, s.local, call)
		} else {
			fmt.Fprintf(sb, "%s%s\n", ind, call)
		}
	case stIfRet:
		fmt.Fprintf(sb, "%sif %s {\n", ind, s.cnd.render(pn))
		if s.then != nil {
			renderStmt(sb, ind+"    ", s.then, d)
		}
		if s.ret != nil {
			fmt.Fprintf(sb, "%s    return %s\n", ind, s.ret.render(pn))
		} else {
			fmt.Fprintf(sb, "%s    return\n", ind)
		}
		fmt.Fprintf(sb, "%s}\n", ind)
	}
}

func renderDecl(sb *strings.Builder, ind string, d *fdecl) {
	var ps []string
	for i, l := range d.fn.labels {
		if d.pnames[i] == l {
			ps = append(ps, l+": Int")
		} else {
			ps = append(ps, l+" "+d.pnames[i]+": Int")
		}
	}
	rt := ""
	if d.fn.returns {
		rt = ": Int"
	}
	fmt.Fprintf(sb, "%saccess(all) fun %s(%s)%s", ind, d.fn.name, strings.Join(ps, ", "), rt)
	if len(d.pre) == 0 && len(d.post) == 0 && d.body == nil {
		sb.WriteString("\n")
		return
	}
	sb.WriteString(" {\n")
	if len(d.pre) > 0 {
		fmt.Fprintf(sb, "%s    pre {\n", ind)
		for _, c := range d.pre {
			fmt.Fprintf(sb, "%s        %s\n", ind, renderCond(c, d.pnames))
		}
		fmt.Fprintf(sb, "%s    }\n", ind)
	}
	if len(d.post) > 0 {
		fmt.Fprintf(sb, "%s    post {\n", ind)
		for _, c := range d.post {
			fmt.Fprintf(sb, "%s        %s\n", ind, renderCond(c, d.pnames))
		}
		fmt.Fprintf(sb, "%s    }\n", ind)
	}
	if d.body != nil {
		for _, s := range d.body.stmts {
			renderStmt(sb, ind+"    ", s, d)
		}
		if d.body.ret != nil {
			fmt.Fprintf(sb, "%s    return %s\n", ind, d.body.ret.render(d.pnames))
		}
	}
	fmt.Fprintf(sb, "%s}\n", ind)
}

// qual: how a declaration located in contract `from` (""/CI/CS) names interface i
func (w *world) ifaceRef(i *iface, from string) string {
	if !w.contract {
		return i.name
	}
	home := "CI"
	if i.inCS {
		home = "CS"
	}
	if home == from {
		return i.name
	}
	return home + "." + i.name
}

func (w *world) compRef(s *comp, from string) string {
	if !w.contract || from == "CS" {
		return s.name
	}
	return "CS." + s.name
}

func (w *world) renderIface(sb *strings.Builder, ind string, i *iface, from string) {
	fmt.Fprintf(sb, "%saccess(all) %s interface %s", ind, w.kindWord(), i.name)
	if len(i.parents) > 0 {
		var ps []string
		for _, p := range i.parents {
			ps = append(ps, w.ifaceRef(p, from))
		}
		sb.WriteString(": " + strings.Join(ps, ", "))
	}
	sb.WriteString(" {\n")
	fmt.Fprintf(sb, "%s    access(all) var v: Int\n%s    access(all) var w: Int\n", ind, ind)
	for _, d := range i.decls {
		renderDecl(sb, ind+"    ", d)
	}
	fmt.Fprintf(sb, "%s}\n", ind)
}

func (w *world) renderComp(sb *strings.Builder, ind string, s *comp, from string) {
	var ps []string
	for _, p := range s.conf {
		ps = append(ps, w.ifaceRef(p, from))
	}
	fmt.Fprintf(sb, "%saccess(all) %s %s: %s {\n", ind, w.kindWord(), s.name, strings.Join(ps, ", "))
	fmt.Fprintf(sb, "%s    access(all) var v: Int\n%s    access(all) var w: Int\n", ind, ind)
	fmt.Fprintf(sb, "%s    init(v: Int, w: Int) {\n%s        self.v = v\n%s        self.w = w\n%s    }\n", ind, ind, ind, ind)
	for _, d := range s.decls {
		renderDecl(sb, ind+"    ", d)
	}
	fmt.Fprintf(sb, "%s}\n", ind)
}

const evDecl = "access(all) event Ev(tag: String, a: Int, b: Int)\n"

// sources: script mode → one block of top-level declarations; contract mode → two contracts.
func (w *world) sources() (decls, ci, cs string) {
	if !w.contract {
		var sb strings.Builder
		sb.WriteString(evDecl)
		for _, i := range w.ifaces {
			w.renderIface(&sb, "", i, "")
		}
		for _, s := range w.comps {
			w.renderComp(&sb, "", s, "")
		}
		return sb.String(), "", ""
	}
	var a, b strings.Builder
	a.WriteString("access(all) contract CI {\n    " + evDecl)
	for _, i := range w.ifaces {
		if !i.inCS {
			w.renderIface(&a, "    ", i, "CI")
		}
	}
	a.WriteString("}\n")
	b.WriteString("import CI from 0x0000000000000001\naccess(all) contract CS {\n    " + evDecl)
	for _, i := range w.ifaces {
		if i.inCS {
			w.renderIface(&b, "    ", i, "CS")
		}
	}
	for _, s := range w.comps {
		w.renderComp(&b, "    ", s, "CS")
		if w.resource {
			fmt.Fprintf(&b, "    access(all) fun mk%s(v: Int, w: Int): @%s {\n        return <- create %s(v: v, w: w)\n    }\n", s.name, s.name, s.name)
		}
	}
	b.WriteString("}\n")
	return "", a.String(), b.String()
}
