// Package cond holds the checks of group cond (see harness/groups.txt).
package cond
