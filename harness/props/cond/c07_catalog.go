package cond

// ---------------------------------------------------------------------------------------------
// C07 catalogue of impure candidates (and genuinely pure operations) that the generator plants into
// `view` contexts. Placeholders:
//   @G@    prefix to READ a global / call a global function   (layout S: ""      layout C: "C0.")
//   @GW@   prefix to WRITE a global                            (layout S: ""      layout C: "self." — contract function only)
//   @ARR@ @DICT@ @INT@   the "direct" pre-existing [Int] / {String: Int} / Int the host can reach without a reference
//                        (function & init hosts: globals; method hosts: self fields; closure host: captured variables)
// Names always in scope inside the view context (parameters):
//   a: Int, arr: [Int] (copy), s: P (copy), ra: auth(Mutate) &[Int], rd: auth(Mutate) &{String: Int}, rs: &P, ro: &P?,
//   rr: &R, acct: auth(Storage, Capabilities, Inbox, Contracts, Keys) &Account, f: fun(): Void (impure), vf: view fun(): Int
// ---------------------------------------------------------------------------------------------

type c07entry struct {
	id   string
	stmt string // statement form (may be several lines)
	expr string // expression form (non-resource typed), "" if none
	// requirements
	needSelf bool // needs a struct/resource method host (or a condition host)
	needCapt bool // needs the closure host
	needRes  bool // needs the resource method host
	needInit bool // needs the view-initializer host (fields fra / frd / fras / fp of the value under construction)
	onlyC    bool // only valid in the contract layout
	onlyS    bool // only valid in the script layout
	// harmless: no effect the statement forbids even when executed (pure, or only touches values created
	// inside the call); the impure control is not expected to detect anything
	harmless bool
	// pure: expected to be accepted by the checker
	pure bool
}

var c07catalog = []c07entry{
	// ---- assignments
	{id: "assign-direct-int", stmt: "@INT@ = 7"},
	{id: "assign-direct-index", stmt: "@ARR@[0] = 7"},
	{id: "assign-direct-dict-index", stmt: "@DICT@[\"k\"] = 7"},
	{id: "assign-direct-dict-new-key", stmt: "@DICT@[\"z\"] = 7"},
	{id: "assign-direct-dict-nil", stmt: "@DICT@[\"k\"] = nil"},
	{id: "assign-self-field-struct-value", stmt: "self.q = Q(9)", needSelf: true},
	{id: "assign-self-optional-nil", stmt: "self.q = nil", needSelf: true},
	{id: "assign-self-compound", stmt: "self.n = self.n + 1", needSelf: true},
	{id: "assign-captured-int", stmt: "cInt = 7", needCapt: true},
	{id: "assign-captured-array", stmt: "cArr = [9]", needCapt: true},
	{id: "index-write-through-ref", stmt: "ra[0] = 7"},
	{id: "dict-index-write-through-ref", stmt: "rd[\"k\"] = 7"},
	{id: "index-write-through-local-ref-to-direct", stmt: "let g1 = &@ARR@ as auth(Mutate) &[Int]\ng1[0] = 7"},
	{id: "index-write-through-borrowed-storage-ref", stmt: "let b1 = acct.storage.borrow<auth(Mutate) &[Int]>(from: /storage/arr)!\nb1[0] = 7"},
	{id: "index-write-through-capability-borrow", stmt: "let b2 = acct.capabilities.borrow<auth(Mutate) &[Int]>(/public/arr)!\nb2[0] = 7"},
	// ---- writes rooted at `self` inside a view initializer that leave the value under construction
	{id: "init-index-write-through-self-ref-field", stmt: "self.fra[0] = 7", needInit: true},
	{id: "init-dict-write-through-self-ref-field", stmt: "self.frd[\"k\"] = 7", needInit: true},
	{id: "init-index-write-through-self-ref-array-element", stmt: "self.fras[0][0] = 7", needInit: true},
	{id: "index-write-through-ref-field-of-local-struct", stmt: "let hw = RefHolder(ra)\nhw.r[0] = 7"},
	{id: "dict-write-through-ref-field-of-local-struct", stmt: "let hd = DictRefHolder(rd)\nhd.r[\"k\"] = 7"},
	{id: "init-write-own-array-field-element", stmt: "self.fown[0] = 9", needInit: true, harmless: true, pure: true},
	// ---- mutating container built-ins, directly and through references
	{id: "array-append-direct", stmt: "@ARR@.append(9)", expr: "@ARR@.append(9)"},
	{id: "array-append-ref", stmt: "ra.append(9)", expr: "ra.append(9)"},
	{id: "array-appendAll-direct", stmt: "@ARR@.appendAll([8, 9])", expr: "@ARR@.appendAll([8, 9])"},
	{id: "array-appendAll-ref", stmt: "ra.appendAll([8, 9])", expr: "ra.appendAll([8, 9])"},
	{id: "array-insert-direct", stmt: "@ARR@.insert(at: 0, 9)", expr: "@ARR@.insert(at: 0, 9)"},
	{id: "array-insert-ref", stmt: "ra.insert(at: 0, 9)", expr: "ra.insert(at: 0, 9)"},
	{id: "array-remove-direct", stmt: "let x1 = @ARR@.remove(at: 0)", expr: "@ARR@.remove(at: 0)"},
	{id: "array-remove-ref", stmt: "let x1 = ra.remove(at: 0)", expr: "ra.remove(at: 0)"},
	{id: "array-removeFirst-direct", stmt: "let x1 = @ARR@.removeFirst()", expr: "@ARR@.removeFirst()"},
	{id: "array-removeFirst-ref", stmt: "let x1 = ra.removeFirst()", expr: "ra.removeFirst()"},
	{id: "array-removeLast-direct", stmt: "let x1 = @ARR@.removeLast()", expr: "@ARR@.removeLast()"},
	{id: "array-removeLast-ref", stmt: "let x1 = ra.removeLast()", expr: "ra.removeLast()"},
	{id: "dict-insert-direct", stmt: "let x1 = @DICT@.insert(key: \"z\", 9)", expr: "@DICT@.insert(key: \"z\", 9)"},
	{id: "dict-insert-ref", stmt: "let x1 = rd.insert(key: \"z\", 9)", expr: "rd.insert(key: \"z\", 9)"},
	{id: "dict-remove-direct", stmt: "let x1 = @DICT@.remove(key: \"k\")", expr: "@DICT@.remove(key: \"k\")"},
	{id: "dict-remove-ref", stmt: "let x1 = rd.remove(key: \"k\")", expr: "rd.remove(key: \"k\")"},
	{id: "array-append-local", stmt: "var l1 = [1]\nl1.append(2)", harmless: true},
	{id: "array-append-param-copy", stmt: "arr.append(2)", expr: "arr.append(2)", harmless: true},
	{id: "dict-forEachKey-impure-callback", stmt: "rd.forEachKey(fun (k: String): Bool { f(); return true })", expr: "rd.forEachKey(fun (k: String): Bool { f(); return true })"},
	{id: "array-map-impure-callback", stmt: "let x1 = ra.map(fun (e: Int): Int { f(); return e })"},
	// ---- swap / move / destroy / create
	{id: "swap-direct-elements", stmt: "@ARR@[0] <-> @ARR@[1]"},
	{id: "swap-through-ref", stmt: "ra[0] <-> ra[1]"},
	{id: "swap-local-with-direct", stmt: "var l2 = [5]\nl2[0] <-> @ARR@[0]"},
	{id: "swap-local-with-ref", stmt: "var l2 = [5]\nl2[0] <-> ra[0]"},
	{id: "swap-direct-int-with-local", stmt: "var l3 = 5\nl3 <-> @INT@"},
	{id: "move-resource-field-second-value", stmt: "let old1 <- self.r2 <- create R2()\nreturn <- old1", needRes: true},
	{id: "swap-resource-field", stmt: "var n1 <- create R2()\nn1 <-> self.r2\nreturn <- n1", needRes: true},
	{id: "force-move-into-resource-dict", stmt: "self.rsd[\"z\"] <-! create R2()", needRes: true},
	{id: "create-resource-and-return", stmt: "return <- create R2()", needRes: true, harmless: true, pure: true},
	{id: "create-resource-and-destroy-later", stmt: "let n2 <- create R2()\ndestroy n2", harmless: true},
	// ---- storage / capabilities / inbox / contracts / keys
	{id: "storage-save", stmt: "acct.storage.save(5, to: /storage/fresh)", expr: "acct.storage.save(5, to: /storage/fresh)"},
	{id: "storage-load", stmt: "let x1 = acct.storage.load<[Int]>(from: /storage/arr)", expr: "acct.storage.load<[Int]>(from: /storage/arr)"},
	{id: "storage-load-resource", stmt: "let x2 <- acct.storage.load<@R2>(from: /storage/res2)\nreturn <- x2", needRes: true, onlyC: true},
	{id: "storage-borrow-then-mutating-method", stmt: "acct.storage.borrow<auth(Mutate) &[Int]>(from: /storage/arr)!.append(9)", expr: "acct.storage.borrow<auth(Mutate) &[Int]>(from: /storage/arr)!.append(9)"},
	{id: "storage-borrow-resource-then-setter", stmt: "acct.storage.borrow<&R>(from: /storage/res)!.setN(9)", expr: "acct.storage.borrow<&R>(from: /storage/res)!.setN(9)", onlyC: true},
	{id: "storage-save-via-getAuthAccount", stmt: "getAuthAccount<auth(Storage) &Account>(0x1).storage.save(5, to: /storage/fresh)", expr: "getAuthAccount<auth(Storage) &Account>(0x1).storage.save(5, to: /storage/fresh)", onlyS: true},
	{id: "capability-borrow-then-mutating-method", stmt: "getAccount(0x1).capabilities.borrow<auth(Mutate) &[Int]>(/public/arr)!.append(9)", expr: "getAccount(0x1).capabilities.borrow<auth(Mutate) &[Int]>(/public/arr)!.append(9)"},
	{id: "capability-issue", stmt: "let c1 = acct.capabilities.storage.issue<&[Int]>(/storage/arr)", expr: "acct.capabilities.storage.issue<&[Int]>(/storage/arr)"},
	{id: "capability-account-issue", stmt: "let c1 = acct.capabilities.account.issue<&Account>()", expr: "acct.capabilities.account.issue<&Account>()"},
	{id: "capability-publish", stmt: "acct.capabilities.publish(acct.capabilities.get<&[Int]>(/public/arr), at: /public/second)", expr: "acct.capabilities.publish(acct.capabilities.get<&[Int]>(/public/arr), at: /public/second)"},
	{id: "capability-unpublish", stmt: "let c1 = acct.capabilities.unpublish(/public/arr)", expr: "acct.capabilities.unpublish(/public/arr)"},
	{id: "capability-controller-setTag", stmt: "acct.capabilities.storage.getControllers(forPath: /storage/arr)[0].setTag(\"t\")", expr: "acct.capabilities.storage.getControllers(forPath: /storage/arr)[0].setTag(\"t\")"},
	{id: "capability-controller-delete", stmt: "acct.capabilities.storage.getControllers(forPath: /storage/arr)[0].delete()", expr: "acct.capabilities.storage.getControllers(forPath: /storage/arr)[0].delete()"},
	{id: "capability-controller-retarget", stmt: "acct.capabilities.storage.getControllers(forPath: /storage/arr)[0].retarget(/storage/dict)", expr: "acct.capabilities.storage.getControllers(forPath: /storage/arr)[0].retarget(/storage/dict)"},
	{id: "inbox-publish", stmt: "acct.inbox.publish(acct.capabilities.get<&[Int]>(/public/arr), name: \"n\", recipient: 0x2)", expr: "acct.inbox.publish(acct.capabilities.get<&[Int]>(/public/arr), name: \"n\", recipient: 0x2)"},
	{id: "contracts-remove", stmt: "let c2 = acct.contracts.remove(name: \"Nope\")", expr: "acct.contracts.remove(name: \"Nope\")", harmless: true},
	{id: "keys-revoke", stmt: "let c3 = acct.keys.revoke(keyIndex: 0)", expr: "acct.keys.revoke(keyIndex: 0)", harmless: true},
	// ---- events, logging
	{id: "emit-statement", stmt: "emit Ev(x: 1)"},
	{id: "log", stmt: "log(\"hello\")", expr: "log(\"hello\")", harmless: true},
	// ---- calls of non-view functions / function values
	{id: "call-global-nonview-function", stmt: "@G@bump()", expr: "@G@bump()"},
	{id: "call-setter-through-ref", stmt: "rs.setN(9)", expr: "rs.setN(9)"},
	{id: "call-setter-through-optional-chain", stmt: "ro?.setN(9)", expr: "ro?.setN(9)"},
	{id: "call-setter-through-force-unwrap", stmt: "ro!.setN(9)", expr: "ro!.setN(9)"},
	{id: "call-setter-through-resource-ref", stmt: "rr.setN(9)", expr: "rr.setN(9)"},
	{id: "call-setter-on-self", stmt: "self.setN(9)", expr: "self.setN(9)", needSelf: true},
	{id: "call-setter-on-self-nested-optional", stmt: "self.q?.setM(9)", expr: "self.q?.setM(9)", needSelf: true},
	{id: "call-setter-on-param-copy", stmt: "s.setN(9)", expr: "s.setN(9)", harmless: true},
	{id: "call-setter-on-global-struct", stmt: "@G@gS.setN(9)", expr: "@G@gS.setN(9)"},
	{id: "call-impure-function-value", stmt: "f()", expr: "f()"},
	{id: "call-impure-function-value-parenthesised", stmt: "(f)()", expr: "(f)()"},
	{id: "call-function-value-force-cast-to-view", stmt: "(f as! view fun(): Void)()", expr: "(f as! view fun(): Void)()"},
	{id: "call-function-value-failable-cast-to-view", stmt: "if let vf2 = f as? view fun(): Void { vf2() }"},
	{id: "call-function-value-via-AnyStruct-cast", stmt: "let any1: AnyStruct = f\n(any1 as! view fun(): Void)()"},
	{id: "call-impure-closure-defined-inside", stmt: "let k1 = fun (): Void { ra[0] = 7 }\nk1()"},
	{id: "call-bound-setter-value", stmt: "let k2 = rs.setN\nk2(9)"},
	// ---- attachments
	{id: "attach-to-param-copy", stmt: "let s4 = attach A() to s", expr: "attach A() to s", harmless: true, pure: true},
	{id: "remove-attachment-from-local-copy", stmt: "var s5 = @G@gSA\nremove A from s5", harmless: true, pure: true},
	{id: "remove-attachment-from-direct", stmt: "remove A from @GW@gSA", onlyS: true},
	{id: "remove-attachment-from-self-field", stmt: "remove A from self.pa", needSelf: true},
	// ---- genuinely pure operations (expected: accepted, no effect)
	{id: "pure-local-array-index-write", stmt: "var l4 = [1, 2]\nl4[0] = 5", harmless: true, pure: true},
	{id: "pure-local-dict-write", stmt: "var l5: {String: Int} = {}\nl5[\"a\"] = 1\nl5[\"a\"] = nil", harmless: true, pure: true},
	{id: "pure-param-copy-index-write", stmt: "arr[0] = 5", harmless: true, pure: true},
	{id: "pure-local-swap", stmt: "var l6 = [1, 2]\nl6[0] <-> l6[1]", harmless: true, pure: true},
	{id: "pure-local-var-assign", stmt: "var l7 = 1\nl7 = l7 + a", harmless: true, pure: true},
	{id: "pure-deref-copy-index-write", stmt: "var l8 = *ra\nl8[0] = 5", harmless: true, pure: true},
	{id: "pure-copy-of-direct-index-write", stmt: "var l9 = @ARR@\nl9[0] = 5", harmless: true, pure: true},
	{id: "pure-new-struct", stmt: "let l10 = P()", expr: "P().getN()", harmless: true, pure: true},
	{id: "pure-view-calls", stmt: "let l11 = vf() + rs.getN() + s.getN()", expr: "vf() + rs.getN()", harmless: true, pure: true},
	{id: "pure-array-view-builtins", stmt: "let l12 = ra.length + arr.slice(from: 0, upTo: 1).length + (ra.contains(1) ? 1 : 0) + arr.concat([1]).length", expr: "ra.contains(1)", harmless: true, pure: true},
	{id: "pure-dict-view-builtins", stmt: "let l13 = rd.keys.length + rd.values.length + (rd.containsKey(\"k\") ? 1 : 0)", expr: "rd.containsKey(\"k\")", harmless: true, pure: true},
	{id: "pure-storage-copy", stmt: "let l14 = acct.storage.copy<[Int]>(from: /storage/arr)", expr: "acct.storage.copy<[Int]>(from: /storage/arr)", harmless: true, pure: true},
	{id: "pure-storage-borrow-read", stmt: "let l15 = acct.storage.borrow<&[Int]>(from: /storage/arr)!.length", expr: "acct.storage.borrow<&[Int]>(from: /storage/arr)!.length", harmless: true, pure: true},
	{id: "pure-storage-check-type", stmt: "let l16 = acct.storage.check<[Int]>(from: /storage/arr)\nlet l17 = acct.storage.type(at: /storage/arr)", expr: "acct.storage.check<[Int]>(from: /storage/arr)", harmless: true, pure: true},
	{id: "pure-capability-get-check-borrow", stmt: "let l18 = acct.capabilities.get<&[Int]>(/public/arr).check()\nlet l19 = acct.capabilities.borrow<&[Int]>(/public/arr)!.length", expr: "acct.capabilities.get<&[Int]>(/public/arr).borrow()!.length", harmless: true, pure: true},
	{id: "pure-controller-read", stmt: "let l20 = acct.capabilities.storage.getControllers(forPath: /storage/arr).length", expr: "acct.capabilities.storage.getControllers(forPath: /storage/arr)[0].tag", harmless: true, pure: true},
	{id: "pure-reference-to-direct-read", stmt: "let l21 = (&@ARR@ as &[Int]).length", expr: "(&@ARR@ as &[Int])[0]", harmless: true, pure: true},
	{id: "pure-string-ops", stmt: "let l22 = \"ab\".concat(a.toString()).length", expr: "\"ab\".concat(a.toString())", harmless: true, pure: true},
	{id: "pure-read-through-everything", stmt: "let l23 = @INT@ + @ARR@[0] + (@DICT@[\"k\"] ?? 0) + rr.n + (ro?.n ?? 0)", expr: "@INT@ + @ARR@[0] + rr.n", harmless: true, pure: true},
}

// ---------------------------------------------------------------- hosts and positions

const (
	hostFunc    = iota // global function (script top-level / contract function)
	hostStruct         // struct method
	hostRes            // resource method
	hostInit           // view initializer of a struct
	hostClosure        // view closure defined in the driver (captures driver locals)
	hostPre            // pre-condition of a non-view struct method (expression forms only)
	hostPost           // post-condition of a non-view struct method (expression forms only)
	nHosts
)

var c07hostNames = []string{"view-function", "view-struct-method", "view-resource-method", "view-initializer", "view-closure", "pre-condition", "post-condition"}

// statement positions (op is a statement block) and expression positions (op is an expression)
var c07stmtPositions = []struct{ name, tmpl string }{
	{"statement", "@OP@"},
	{"nested-block", "if a > 0 {\n@OP@\n}"},
	{"else-branch", "if a < 0 {\n} else {\n@OP@\n}"},
	{"for-loop", "for i9 in [1] {\n@OP@\n}"},
	{"while-loop", "var w9 = 0\nwhile w9 < 1 {\n@OP@\nw9 = w9 + 1\n}"},
	{"switch-case", "switch a {\ncase 1:\n@OP@\ndefault:\nbreak\n}"},
	{"if-let-block", "if let z9 = ro {\n@OP@\n}"},
	{"inner-view-closure", "let k9 = @VIEW@fun (): Void {\n@OP@\n}\nk9()"},
	{"inner-view-function-declaration", "@VIEW@fun inner9() {\n@OP@\n}\ninner9()"},
	{"doubly-nested-closure", "let k8 = @VIEW@fun (): Void {\nlet k7 = @VIEW@fun (): Void {\n@OP@\n}\nk7()\n}\nk8()"},
}

var c07exprPositions = []struct{ name, tmpl string }{
	{"argument", "let e9 = @G@okAny(@OP@)"},
	{"variable-initializer", "let e9: AnyStruct? = @OP@"},
	{"conditional-branch-expression", "let e9 = a > 0 ? @G@okAny(@OP@) : false"},
	{"if-test", "if @G@okAny(@OP@) {\n}"},
	{"array-literal-element", "let e9: [AnyStruct?] = [@OP@]"},
	{"short-circuit-rhs", "let e9 = a < 0 || @G@okAny(@OP@)"},
	{"nil-coalescing-rhs", "let e9: AnyStruct? = @G@nilAny() ?? @OP@"},
	{"closure-argument", "let e9 = (@VIEW@fun (): Bool { return @G@okAny(@OP@) })()"},
}

// positions inside a condition: the expression must be Bool
var c07condPositions = []struct{ name, tmpl string }{
	{"condition-argument", "@G@okAny(@OP@)"},
	{"condition-conditional-branch", "a > 0 ? @G@okAny(@OP@) : false"},
	{"condition-short-circuit-rhs", "a < 0 || @G@okAny(@OP@)"},
	{"condition-array-literal", "@G@okAny([@OP@])"},
	{"condition-before", "@G@okAny(before(@OP@))"}, // post-conditions only
}

// genuinely pure filler statements (local state only)
var c07fillers = []string{
	"var p1 = [1, 2, 3]\np1[1] = a",
	"var p2: {String: Int} = {\"x\": 1}\np2[\"y\"] = a",
	"let p3 = arr.length + ra.length",
	"var p4 = 0\nfor e4 in arr { p4 = p4 + e4 }",
	"let p5 = rs.getN() + vf()",
	"var p6 = a\nif p6 > 0 { p6 = p6 - 1 }",
}
