package cond

import (
	"fmt"
	"reflect"
	"sort"
	"strings"

	"github.com/onflow/cadence"
	"github.com/onflow/cadence/common"
	"github.com/onflow/cadence/sema"

	"verif/harness/core"
	"verif/harness/host"
)

// C07 — view functions (and view initializers, pre/post-conditions) have no observable side effects.
//
// Events monitored during an ACCEPTED view context's execution (3 engines; as a script and inside a
// committing transaction):
//   * snapshots (logged value strings) of every value that existed before the call — globals / contract
//     fields, the referents of the reference arguments, captured variables, self, stored values,
//     capability controllers — before vs after the call;
//   * account storage: scripts issue no SetValue at all; the ledger after the transaction WITH the view
//     call equals the ledger after the same transaction WITHOUT it;
//   * EmitEvent: only events of `emit` CONDITIONS may be added by the call.
// Rejected programs are classified (purity errors only / other) and the same program with `view`
// removed is executed as an IMPURE CONTROL: it proves per catalogue entry that the candidate is valid
// Cadence and that the monitor sees its effect.

type c07run struct {
	snapA, snapB []string
	ok           bool // both snapshots present
	err          string
	failed       bool
	setValues    int
	events       []string
	ledger       string
}

func c07observe(h *host.Host, o host.Outcome) c07run {
	r := c07run{}
	if o.Err != nil || o.Escaped != nil {
		r.failed = true
		r.err = host.ErrText(o)
	}
	state := 0
	for _, l := range h.Logs {
		switch {
		case l == `"<<A"`:
			state = 1
		case l == `"A>>"`:
			state = 2
		case l == `"<<B"`:
			state = 3
		case l == `"B>>"`:
			state = 4
		case state == 1:
			r.snapA = append(r.snapA, l)
		case state == 3:
			r.snapB = append(r.snapB, l)
		}
	}
	r.ok = state == 4
	r.setValues = h.CountKind(host.KSetValue)
	for _, e := range h.Events {
		r.events = append(r.events, e.String())
	}
	r.ledger = h.Ledger.DumpString()
	return r
}

// stray events: events of `with` that are neither in `without` nor events of an emit condition
func strayEvents(with, without []string, evs []cadence.Event) []string {
	base := map[string]int{}
	for _, e := range without {
		base[e]++
	}
	var out []string
	for i, e := range with {
		if base[e] > 0 {
			base[e]--
			continue
		}
		// allowed: the event declared by the emit condition of the condition hosts: Ev(x: 100)
		if i < len(evs) {
			if f := evs[i].FieldsMappedByName(); len(f) == 1 {
				if x, ok := f["x"].(cadence.Int); ok && x.String() == "100" && strings.HasSuffix(evs[i].EventType.QualifiedIdentifier, "Ev") {
					continue
				}
			}
		}
		out = append(out, e)
	}
	return out
}

// classification of a rejection: only purity errors / anything else
func c07errorKinds(err error) (purity, other int, otherKinds []string) {
	host.Walk(err, func(e error) {
		if _, ok := e.(sema.SemanticError); !ok {
			return
		}
		if _, ok := e.(*sema.PurityError); ok {
			purity++
			return
		}
		other++
		otherKinds = append(otherKinds, normKind(reflect.TypeOf(e).String()))
	})
	return
}

func c07isRejection(o host.Outcome) bool {
	return o.Err != nil && (host.HasKind(o.Err, "ParsingCheckingError") || host.HasKind(o.Err, "CheckerError") || host.HasKind(o.Err, "sema.") || host.HasKind(o.Err, "parser."))
}

type c07env struct {
	h      *host.Host
	base   *host.Ledger
	uuid   uint64
	acctID map[common.Address]uint64
}

// prepare: deploy (layout C) + setup transaction; returns nil,outcome when the deployment is rejected.
func c07prepare(eng host.Engine, p *c07prog, src string) (*c07env, host.Outcome) {
	h := host.New()
	if p.layoutC {
		o := h.Deploy(eng, host.Addr(1), "C0", src)
		if o.Err != nil || o.Escaped != nil {
			return nil, o
		}
	}
	o := h.RunTx(eng, c07SetupTx, nil, []common.Address{host.Addr(1)}, nil)
	if o.Err != nil || o.Escaped != nil {
		panic("C07 setup transaction failed: " + host.ErrText(o))
	}
	e := &c07env{h: h, base: h.Ledger.Clone(), uuid: h.UUID, acctID: map[common.Address]uint64{}}
	for k, v := range h.AccountIDs {
		e.acctID[k] = v
	}
	return e, host.Outcome{}
}

func (e *c07env) reset() {
	e.h.Ledger = e.base.Clone()
	e.h.UUID = e.uuid
	e.h.AccountIDs = map[common.Address]uint64{}
	for k, v := range e.acctID {
		e.h.AccountIDs[k] = v
	}
	e.h.ResetTrace()
}

func (e *c07env) script(eng host.Engine, src string) (c07run, []cadence.Event) {
	r, evs, _ := e.scriptO(eng, src)
	return r, evs
}

func (e *c07env) scriptO(eng host.Engine, src string) (c07run, []cadence.Event, host.Outcome) {
	e.reset()
	o := e.h.RunScript(eng, src, nil, nil)
	return c07observe(e.h, o), e.h.Events, o
}

func (e *c07env) tx(eng host.Engine, src string) (c07run, []cadence.Event) {
	e.reset()
	o := e.h.RunTx(eng, src, nil, []common.Address{host.Addr(1)}, nil)
	return c07observe(e.h, o), e.h.Events
}

// effects lists what the statement forbids, observed in one with-call run (vs the without-call run, if any)
func c07effects(with c07run, withEvents []cadence.Event, without *c07run, script bool, labels []string) []string {
	var out []string
	if with.ok {
		n := len(with.snapA)
		if len(with.snapB) != n {
			out = append(out, fmt.Sprintf("snapshot length changed %d -> %d", n, len(with.snapB)))
		} else {
			for i := 0; i < n; i++ {
				if with.snapA[i] != with.snapB[i] {
					l := fmt.Sprintf("#%d", i)
					if i < len(labels) {
						l = labels[i]
					}
					out = append(out, fmt.Sprintf("pre-existing value mutated: %s: %s -> %s", l, core.Clip(with.snapA[i], 80), core.Clip(with.snapB[i], 80)))
				}
			}
		}
	}
	if script {
		if with.setValues > 0 {
			out = append(out, fmt.Sprintf("storage written: %d SetValue calls in a script", with.setValues))
		}
		if s := strayEvents(with.events, nil, withEvents); len(s) > 0 {
			out = append(out, "event emitted: "+strings.Join(s, "; "))
		}
	} else if without != nil && !with.failed && !without.failed {
		if with.ledger != without.ledger {
			out = append(out, "storage written: ledger after the transaction differs from the ledger after the same transaction without the view call")
		}
		if s := strayEvents(with.events, without.events, withEvents); len(s) > 0 {
			out = append(out, "event emitted: "+strings.Join(s, "; "))
		}
	}
	return out
}

func effectClass(effects []string) string {
	set := map[string]bool{}
	for _, e := range effects {
		set[strings.SplitN(e, ":", 2)[0]] = true
	}
	var ks []string
	for k := range set {
		ks = append(ks, k)
	}
	sort.Strings(ks)
	return strings.Join(ks, "+")
}

const c07ProgsPerCase = 16

func c07Cases(tier string) int {
	if tier == "thorough" {
		return 960
	}
	return 96
}

func init() {
	floors := map[string]int64{
		"nested_view_programs": 30, "nested_view_controls_accepted": 30,
		"programs": 1000, "accepted_and_executed": 150, "rejected_by_purity": 500,
		"executions_monitored": 600, "control_runs": 300, "control_effect_detected": 250,
		"layout:S": 150, "layout:C": 300, "mode:script": 200, "mode:transaction": 100,
		"emit_condition_events_allowed": 5,
	}
	for _, e := range c07catalog {
		floors["generated:"+e.id] = 3
	}
	for _, n := range c07hostNames {
		floors["host:"+n] = 25
	}
	core.Register(&core.Prop{
		ID:   "C07",
		Rule: fmt.Sprintf("one of %d catalogue operations (impure candidates and genuinely pure operations; round-robin so every entry is generated) planted at a random syntactic position (statement, nested block, else branch, loops, switch, if-let, inner closures / inner functions, argument, initializer, conditional branch, short-circuit, nil-coalescing, array literal, before(...)) of a view function / struct method / resource method / view initializer / view closure / pre-condition / post-condition, in a script-level or contract-level layout, mixed with pure filler; accepted programs are executed on 3 engines as a script and as a committing transaction (with and without the view call); rejected ones are re-run without `view` as impure control; distinct = distinct program text", len(c07catalog)),
		Assumptions: []string{
			"pre-existing values are observed through their logged string renderings before and after the call (globals/contract fields, referents of reference arguments, captured variables, self, stored values, capability controllers, paths)",
			"storage writes of a transaction are attributed to the view call by comparing the committed ledger with and without the call (same contract, flag argument)",
			"events Ev(x: 100) are the events declared by the generated `emit` conditions and are allowed; logging and UUID consumption are not side effects in the sense of the statement",
		},
		NumCases: c07Cases,
		Floors:   floors,
		Run:      runC07,
		Finalize: func(a *core.Agg) {
			p, acc := a.Counters["programs"], a.Counters["accepted_and_executed"]
			if p > 0 && acc*100 < 15*p {
				a.Inconclusive = append(a.Inconclusive, fmt.Sprintf("accepted-and-executed %d of %d programs (< 15 %%)", acc, p))
			}
			// the monitor must not be blind: every candidate that is not harmless must have shown its effect in the impure control
			for _, e := range c07catalog {
				if e.harmless {
					continue
				}
				runs, det := a.Counters["control_runs:"+e.id], a.Counters["control_effect_detected:"+e.id]
				if runs >= 3 && det == 0 {
					a.Inconclusive = append(a.Inconclusive, fmt.Sprintf("monitor blind: impure control of %q ran %d times without any detected effect", e.id, runs))
				}
			}
		},
	})
}

func runC07(c *core.Ctx) {
	for i := 0; i < c07ProgsPerCase; i++ {
		idx := (c.Case*c07ProgsPerCase + i) % len(c07catalog)
		c07Program(c, newC07Prog(c.Rng, idx))
	}
	// nested view scopes with an escaping inner view function (c07_nested.go)
	c07Nested(c)
}

func c07Key(p *c07prog, effects []string) string {
	if p.entry.id == "emit-statement" && effectClass(effects) == "event emitted" {
		return "emit-statement-in-view-body"
	}
	return fmt.Sprintf("accepted-impurity: %s @ %s in %s: %s", p.entry.id, p.position, c07hostNames[p.host], effectClass(effects))
}

func c07Program(c *core.Ctx, p *c07prog) {
	src, labels := p.source(true)
	e := p.entry
	c.Inc("programs")
	c.Inc("generated:" + e.id)
	c.Inc("host:" + c07hostNames[p.host])
	c.Inc("position:" + p.position)
	if p.layoutC {
		c.Inc("layout:C")
	} else {
		c.Inc("layout:S")
	}
	c.Distinct(src)
	wit := func(extra map[string]any) map[string]any {
		m := map[string]any{"entry": e.id, "position": p.position, "host": c07hostNames[p.host]}
		if p.layoutC {
			m["contract_C0@0x1"] = src
			m["setup_transaction"] = c07SetupTx
			m["script"] = c07DriveScript()
			m["transaction"] = c07DriveTx(true)
		} else {
			m["script"] = src
			m["setup_transaction"] = c07SetupTx
		}
		for k, v := range extra {
			m[k] = v
		}
		return m
	}

	// ---- step 1: does the checker accept the view variant? (engine I)
	accepted := true
	var rejection host.Outcome
	envs := map[host.Engine]*c07env{}
	var firstRun *c07run
	var firstEvents []cadence.Event
	{
		env, o := c07prepare(host.EngI, p, src)
		c.Eval(1)
		if env == nil {
			accepted = false
			rejection = o
		} else {
			envs[host.EngI] = env
			if !p.layoutC {
				// layout S: the script itself is the program
				r, evs, o := env.scriptO(host.EngI, src)
				c.Eval(1)
				if r.failed && c07isRejection(o) && len(env.h.Logs) == 0 {
					accepted = false
					rejection = o
				} else {
					firstRun, firstEvents = &r, evs
				}
			}
		}
	}
	if !accepted {
		if !c07isRejection(rejection) {
			c.Violate(fmt.Sprintf("deployment/start failed with %s: %s", normKind(host.ErrKind(rejection.Err)), e.id), "the program failed before execution with an error that is not a checker rejection: "+host.ErrText(rejection), wit(nil))
			return
		}
		pur, oth, kinds := c07errorKinds(rejection.Err)
		control := c07Control(c, p)
		switch {
		case control == "invalid":
			c.Inc("invalid_candidate")
			c.Inc("invalid_candidate:" + e.id + "@" + c07hostNames[p.host])
			c.Note("c07_invalid:"+e.id, p.id()+"\n"+core.Clip(host.ErrText(rejection), 700))
			c.Count("generated:"+e.id, -1)
		case oth == 0 && pur > 0:
			c.Inc("rejected_by_purity")
			c.Inc("rejected_by_purity:" + e.id)
		default:
			c.Inc("rejected_for_other_reasons_in_view_context")
			c.Inc("rejected_other:" + e.id + ":" + strings.Join(kinds, ","))
		}
		if e.pure && control != "invalid" {
			c.Inc("pure_operation_rejected:" + e.id)
		}
		return
	}

	// ---- step 2: accepted → execute on 3 engines, as script and as committing transaction
	c.Inc("accepted_and_executed")
	c.Inc("accepted:" + e.id)
	ranOK := false
	for _, eng := range host.AllEngines {
		env := envs[eng]
		if env == nil {
			var o host.Outcome
			env, o = c07prepare(eng, p, src)
			c.Eval(1)
			if env == nil {
				c.Violate(fmt.Sprintf("[%s] program accepted on engine I is rejected at deployment: %s", eng, e.id), host.ErrText(o), wit(map[string]any{"engine": eng.String()}))
				continue
			}
		}
		judge := func(mode string, with c07run, evs []cadence.Event, without *c07run) {
			c.Inc("executions_monitored")
			c.Inc("mode:" + mode)
			if with.failed {
				c.Inc("accepted_but_failed_at_run_time")
				c.Inc("run_time_failure:" + e.id)
				c.Note("c07_runtime_failure:"+e.id, p.id()+"\n"+core.Clip(with.err, 500))
				if c07looksLikeChecker(with.err) {
					c.Violate(fmt.Sprintf("[%s] %s run rejected by the checker although the program was accepted: %s", eng, mode, e.id), with.err, wit(map[string]any{"engine": eng.String()}))
				}
				return
			}
			if !with.ok {
				c.Violate("harness: snapshot markers missing", "the driver did not log both snapshots", wit(map[string]any{"engine": eng.String(), "mode": mode}))
				return
			}
			ranOK = true
			for _, ev := range evs {
				if f := ev.FieldsMappedByName(); len(f) == 1 {
					if x, ok := f["x"].(cadence.Int); ok && x.String() == "100" {
						c.Inc("emit_condition_events_allowed")
					}
				}
			}
			effects := c07effects(with, evs, without, mode == "script", labels)
			if len(effects) == 0 {
				return
			}
			c.Violate(c07Key(p, effects),
				fmt.Sprintf("engine %s, %s: a view context accepted by the checker had observable side effects: %s", eng, mode, strings.Join(effects, " | ")),
				wit(map[string]any{"engine": eng.String(), "mode": mode, "effects": effects, "events": with.events}))
		}
		if p.layoutC {
			r, evs := env.script(eng, c07DriveScript())
			c.Eval(1)
			judge("script", r, evs, nil)
			rw, evw := env.tx(eng, c07DriveTx(true))
			rn, _ := env.tx(eng, c07DriveTx(false))
			c.Eval(2)
			if rn.failed {
				c.Violate("harness: driver without the view call failed", rn.err, wit(map[string]any{"engine": eng.String()}))
				continue
			}
			judge("transaction", rw, evw, &rn)
		} else {
			if eng == host.EngI && firstRun != nil {
				judge("script", *firstRun, firstEvents, nil)
			} else {
				r, evs := env.script(eng, src)
				c.Eval(1)
				judge("script", r, evs, nil)
			}
		}
	}
	if ranOK && c.WantSample() && !e.pure {
		c.Sample(map[string]any{"accepted_program": p.id(), "source": core.Clip(src, 3000)})
	}
}

func c07looksLikeChecker(errText string) bool {
	return strings.Contains(errText, "Checking failed") || strings.Contains(errText, "Parsing failed")
}

// c07Control runs the program with every `view` of the planted context removed (engine I):
//   "invalid"  → the candidate is not valid Cadence even without `view` (generator noise)
//   otherwise  → valid; records whether the monitor detects the candidate's effect.
func c07Control(c *core.Ctx, p *c07prog) string {
	e := p.entry
	if p.host == hostPre || p.host == hostPost {
		// conditions are always view contexts: there is no impure variant. Validate the expression by
		// planting it in the body of a non-view struct method instead.
		q := *p
		q.host = hostStruct
		q.exprForm = true
		q.position, q.posTmpl = "argument", c07exprPositions[0].tmpl
		q.fillers = []string{"", ""}
		return c07ControlRun(c, &q, e, false)
	}
	return c07ControlRun(c, p, e, true)
}

func c07ControlRun(c *core.Ctx, p *c07prog, e *c07entry, count bool) string {
	src, labels := p.source(false)
	env, o := c07prepare(host.EngI, p, src)
	c.Eval(1)
	if env == nil {
		_ = o
		return "invalid"
	}
	var with c07run
	var evs []cadence.Event
	var without *c07run
	script := !p.layoutC
	if p.layoutC {
		with, evs = env.tx(host.EngI, c07DriveTx(true))
		wo, _ := env.tx(host.EngI, c07DriveTx(false))
		without = &wo
		c.Eval(2)
	} else {
		var o host.Outcome
		with, evs, o = env.scriptO(host.EngI, src)
		c.Eval(1)
		if with.failed && c07isRejection(o) && len(env.h.Logs) == 0 {
			return "invalid"
		}
	}
	if !count {
		return "valid"
	}
	c.Inc("control_runs")
	c.Inc("control_runs:" + e.id)
	if with.failed {
		c.Inc("control_failed_at_run_time:" + e.id)
		c.Note("c07_control_runtime_failure:"+e.id, p.id()+"\n"+core.Clip(with.err, 500))
		return "valid"
	}
	if effects := c07effects(with, evs, without, script, labels); len(effects) > 0 {
		c.Inc("control_effect_detected")
		c.Inc("control_effect_detected:" + e.id)
		if e.harmless {
			c.Inc("control_effect_detected_for_harmless:" + e.id)
			c.Note("c07_harmless_effect:"+e.id, p.id()+"\n"+strings.Join(effects, " | "))
		}
	}
	return "valid"
}
