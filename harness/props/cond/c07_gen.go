package cond

import (
	"fmt"
	"math/rand/v2"
	"strings"
)

// ---------------------------------------------------------------------------------------------
// C07 program generator: one catalogue entry planted at one syntactic position of one kind of `view`
// context (host), in one of two layouts:
//   layout S: everything at the top level of a script (globals = script globals)
//   layout C: everything inside a deployed contract C0 (globals = contract fields); driven by a script
//             and by a committing transaction.
// The driver logs a snapshot of every pre-existing value before and after the view call.
// ---------------------------------------------------------------------------------------------

const c07AcctType = "auth(Storage, Capabilities, Inbox, Contracts, Keys) &Account"

const c07Params = "a: Int, arr: [Int], s: P, ra: auth(Mutate) &[Int], rd: auth(Mutate) &{String: Int}, rs: &P, ro: &P?, rr: &R, acct: " + c07AcctType + ", f: fun(): Void, vf: view fun(): Int"

var c07ArgNames = []string{"a", "arr", "s", "ra", "rd", "rs", "ro", "rr", "acct", "f", "vf"}
var c07ArgValues = []string{"1", "xs", "sv", "&xs as auth(Mutate) &[Int]", "&dd as auth(Mutate) &{String: Int}", "&sv as &P", "&sv as &P", "&res as &R", "acct", "f", "vf"}

func c07Args(labelled bool) string {
	var out []string
	for i, v := range c07ArgValues {
		if labelled {
			out = append(out, c07ArgNames[i]+": "+v)
		} else {
			out = append(out, v)
		}
	}
	return strings.Join(out, ", ")
}

const c07Types = `access(all) event Ev(x: Int)
access(all) struct Q {
    access(all) var m: Int
    view init(_ m: Int) { self.m = m }
    access(all) fun setM(_ v: Int) { self.m = v }
}
access(all) struct P {
    access(all) var n: Int
    access(all) var arr: [Int]
    view init() { self.n = 1; self.arr = [1, 2] }
    access(all) fun setN(_ v: Int) { self.n = v }
    access(all) view fun getN(): Int { return self.n }
}
access(all) struct RefHolder {
    access(all) var r: auth(Mutate) &[Int]
    view init(_ r: auth(Mutate) &[Int]) { self.r = r }
}
access(all) struct DictRefHolder {
    access(all) var r: auth(Mutate) &{String: Int}
    view init(_ r: auth(Mutate) &{String: Int}) { self.r = r }
}
access(all) attachment A for P {
    access(all) var k: Int
    view init() { self.k = 1 }
}
access(all) resource R2 {
    access(all) var n: Int
    view init() { self.n = 1 }
}
access(all) resource R {
    access(all) var n: Int
    access(all) var arr: [Int]
    init() { self.n = 1; self.arr = [1, 2] }
    access(all) fun setN(_ v: Int) { self.n = v }
}
`

const c07HostFields = `    access(all) var n: Int
    access(all) var arr: [Int]
    access(all) var d: {String: Int}
    access(all) var q: Q?
    access(all) var pa: P
`
const c07HostInit = `self.n = 1; self.arr = [1, 2, 3]; self.d = {"k": 1}; self.q = Q(1); self.pa = attach A() to P()`

type c07prog struct {
	layoutC  bool
	host     int
	entry    *c07entry
	entryIdx int
	exprForm bool
	position string
	posTmpl  string
	fillers  []string // before / after
	emitCond bool     // condition hosts: an `emit Ev(x: 100)` condition next to the planted one
}

func (p *c07prog) id() string {
	l := "S"
	if p.layoutC {
		l = "C"
	}
	return fmt.Sprintf("%s/%s/%s/%s", l, c07hostNames[p.host], p.entry.id, p.position)
}

func indent(s, ind string) string {
	lines := strings.Split(s, "\n")
	for i, l := range lines {
		if l != "" {
			lines[i] = ind + l
		}
	}
	return strings.Join(lines, "\n")
}

// planted: the view-context body fragment (statements) or condition expression with placeholders resolved
func (p *c07prog) resolve(s string, view bool) string {
	g, gw := "", ""
	if p.layoutC {
		g, gw = "C0.", "C0."
		if p.host == hostFunc {
			gw = "self."
		}
	}
	var arr, dict, in string
	switch p.host {
	case hostStruct, hostRes, hostPre, hostPost:
		arr, dict, in = "self.arr", "self.d", "self.n"
	case hostClosure:
		arr, dict, in = "cArr", "cD", "cInt"
	default:
		arr, dict, in = gw+"gArr", gw+"gDict", gw+"gInt"
	}
	v := ""
	if view {
		v = "view "
	}
	r := strings.NewReplacer("@ARR@", arr, "@DICT@", dict, "@INT@", in, "@GW@", gw, "@G@", g, "@VIEW@", v)
	return r.Replace(s)
}

func (p *c07prog) op() string {
	if p.exprForm {
		return p.entry.expr
	}
	return p.entry.stmt
}

// body of the view context (statements, without the final return)
func (p *c07prog) body(view bool) string {
	var parts []string
	if len(p.fillers) > 0 {
		parts = append(parts, p.fillers[0])
	}
	parts = append(parts, strings.Replace(p.posTmpl, "@OP@", p.op(), 1))
	if len(p.fillers) > 1 {
		parts = append(parts, p.fillers[1])
	}
	return p.resolve(strings.Join(parts, "\n"), view)
}

// hostDecl: declarations that hold the view context; hostSetup/callStmt/hostSnap/hostTeardown: driver pieces
func (p *c07prog) hostPieces(view bool) (decl, setup, call, snap, teardown string) {
	v := ""
	if view {
		v = "view "
	}
	structSnap := "log(host.n)\nlog(host.arr)\nlog(host.d)\nlog(host.q?.m)\nlog(host.pa[A] != nil)"
	switch p.host {
	case hostFunc:
		decl = fmt.Sprintf("access(all) %sfun v(%s): Int {\n%s\n    return a\n}\n", v, c07Params, indent(p.body(view), "    "))
		fn := "v"
		if p.layoutC {
			fn = "C0.v"
		}
		call = fmt.Sprintf("r = %s(%s)", fn, c07Args(true))
	case hostStruct:
		decl = fmt.Sprintf("access(all) struct HS {\n%s    init() { %s }\n    access(all) fun setN(_ v: Int) { self.n = v }\n    access(all) %sfun v(%s): Int {\n%s\n        return a\n    }\n}\n",
			c07HostFields, c07HostInit, v, c07Params, indent(p.body(view), "        "))
		setup = "let host = HS()"
		call = fmt.Sprintf("r = host.v(%s)", c07Args(true))
		snap = structSnap
	case hostRes:
		decl = fmt.Sprintf("access(all) resource HR {\n%s    access(all) var r2: @R2\n    access(all) var rsd: @{String: R2}\n    init() { %s; self.r2 <- create R2(); self.rsd <- {} }\n    access(all) fun setN(_ v: Int) { self.n = v }\n    access(all) %sfun v(%s): @R2? {\n%s\n        return nil\n    }\n}\n",
			c07HostFields, c07HostInit, v, c07Params, indent(p.body(view), "        "))
		setup = "let host <- create HR()"
		call = fmt.Sprintf("let rv <- host.v(%s)\ndestroy rv", c07Args(true))
		snap = structSnap + "\nlog(host.r2.uuid)\nlog(host.rsd.keys)"
		teardown = "destroy host"
	case hostInit:
		decl = fmt.Sprintf("access(all) struct HI {\n    access(all) var n: Int\n    access(all) var fra: auth(Mutate) &[Int]\n    access(all) var frd: auth(Mutate) &{String: Int}\n    access(all) var fras: [auth(Mutate) &[Int]]\n    access(all) var fp: P\n    access(all) var fown: [Int]\n"+
			"    %sinit(%s) {\n        self.n = a\n        self.fra = ra\n        self.frd = rd\n        self.fras = [ra]\n        self.fp = s\n        self.fown = arr\n%s\n    }\n}\n", v, c07Params, indent(p.body(view), "        "))
		call = fmt.Sprintf("r = HI(%s).n", c07Args(true))
	case hostClosure:
		setup = fmt.Sprintf("let v = %sfun (%s): Int {\n%s\n    return a\n}", v, c07Params, indent(p.body(view), "    "))
		call = fmt.Sprintf("r = v(%s)", c07Args(false))
	case hostPre, hostPost:
		kind := "pre"
		if p.host == hostPost {
			kind = "post"
		}
		cond := p.resolve(strings.Replace(p.posTmpl, "@OP@", p.op(), 1), true)
		extra := ""
		if p.emitCond {
			extra = "            emit Ev(x: 100)\n"
		}
		decl = fmt.Sprintf("access(all) struct HS {\n%s    init() { %s }\n    access(all) fun setN(_ v: Int) { self.n = v }\n    access(all) fun cf(%s): Int {\n        %s {\n%s            %s: \"planted\"\n        }\n        return a\n    }\n}\n",
			c07HostFields, c07HostInit, c07Params, kind, extra, cond)
		setup = "let host = HS()"
		call = fmt.Sprintf("r = host.cf(%s)", c07Args(true))
		snap = structSnap
	}
	return
}

// snapshot statements and their labels (same order)
func (p *c07prog) snapshot(hostSnap string) (stmts string, labels []string) {
	g := ""
	if p.layoutC {
		g = "C0."
	}
	items := []struct{ label, expr string }{
		{"global gInt", g + "gInt"}, {"global gArr", g + "gArr"}, {"global gDict", g + "gDict"},
		{"global gS.n", g + "gS.n"}, {"global gS.arr", g + "gS.arr"}, {"global gSA attachment", g + "gSA[A] != nil"}, {"global gOpt?.n", g + "gOpt?.n"},
		{"referent of ra (driver local xs)", "xs"}, {"referent of rd (driver local dd)", "dd"},
		{"referent of rs/ro (driver local sv).n", "sv.n"}, {"referent of rs/ro (driver local sv).arr", "sv.arr"}, {"driver local sv attachment", "sv[A] != nil"},
		{"referent of rr (driver resource res).n", "res.n"}, {"referent of rr (driver resource res).arr", "res.arr"},
		{"captured cInt", "cInt"}, {"captured cArr", "cArr"}, {"captured cD", "cD"}, {"captured cS.n", "cS.n"},
		{"state mutated by the impure function value f", "fcount"},
		{"stored /storage/arr", "acct.storage.copy<[Int]>(from: /storage/arr)"},
		{"stored /storage/dict", "acct.storage.copy<{String: Int}>(from: /storage/dict)"},
		{"storage paths", "acct.storage.storagePaths"}, {"public paths", "acct.storage.publicPaths"},
		{"capability controllers of /storage/arr", "acct.capabilities.storage.getControllers(forPath: /storage/arr).length"},
		{"capability controller tag", "acct.capabilities.storage.getControllers(forPath: /storage/arr).length > 0 ? acct.capabilities.storage.getControllers(forPath: /storage/arr)[0].tag : \"-\""},
		{"capability controller target check", "acct.capabilities.get<&[Int]>(/public/arr).check()"},
		{"account capability controllers", "acct.capabilities.account.getControllers().length"},
		{"contract names", "acct.contracts.names"},
	}
	if p.layoutC {
		items = append(items,
			struct{ label, expr string }{"stored /storage/res .n", "acct.storage.borrow<&R>(from: /storage/res)?.n"},
			struct{ label, expr string }{"stored /storage/res2 present", "acct.storage.type(at: /storage/res2)"})
	}
	var sb strings.Builder
	for _, it := range items {
		fmt.Fprintf(&sb, "log(%s)\n", it.expr)
		labels = append(labels, it.label)
	}
	if hostSnap != "" {
		for i, l := range strings.Split(hostSnap, "\n") {
			sb.WriteString(l + "\n")
			labels = append(labels, fmt.Sprintf("self (host) field #%d", i))
		}
	}
	return strings.TrimRight(sb.String(), "\n"), labels
}

func (p *c07prog) driver(view bool) (string, []string) {
	_, setup, call, hostSnap, teardown := p.hostPieces(view)
	snap, labels := p.snapshot(hostSnap)
	var sb strings.Builder
	fmt.Fprintf(&sb, "access(all) fun drive(acct: %s, doCall: Bool): Int {\n", c07AcctType)
	sb.WriteString(indent(`var xs = [1, 2, 3]
var dd: {String: Int} = {"k": 1}
var sv = P()
let res <- create R()
var cInt = 1
var cArr = [1, 2, 3]
var cD: {String: Int} = {"k": 1}
var cS = P()
var fcount = [0]
let f = fun (): Void { fcount[0] = fcount[0] + 1 }
let vf = view fun (): Int { return 1 }`, "    ") + "\n")
	if setup != "" {
		sb.WriteString(indent(setup, "    ") + "\n")
	}
	sb.WriteString("    var r = 0\n    log(\"<<A\")\n" + indent(snap, "    ") + "\n    log(\"A>>\")\n")
	sb.WriteString("    if doCall {\n" + indent(call, "        ") + "\n    }\n")
	sb.WriteString("    log(\"<<B\")\n" + indent(snap, "    ") + "\n    log(\"B>>\")\n    destroy res\n")
	if teardown != "" {
		sb.WriteString("    " + teardown + "\n")
	}
	sb.WriteString("    return r\n}\n")
	return sb.String(), labels
}

const c07Helpers = `access(all) view fun okAny(_ x: AnyStruct?): Bool { return true }
access(all) view fun nilAny(): AnyStruct? { return nil }
`

// source: layout S → the whole script (with main); layout C → the contract code
func (p *c07prog) source(view bool) (src string, labels []string) {
	decl, _, _, _, _ := p.hostPieces(view)
	drv, labels := p.driver(view)
	var sb strings.Builder
	if !p.layoutC {
		sb.WriteString(c07Types)
		sb.WriteString("access(all) var gInt: Int = 1\naccess(all) var gArr: [Int] = [1, 2, 3]\naccess(all) var gDict: {String: Int} = {\"k\": 1}\naccess(all) var gS: P = P()\naccess(all) var gSA: P = attach A() to P()\naccess(all) var gOpt: P? = P()\n")
		sb.WriteString(c07Helpers)
		sb.WriteString("access(all) fun bump() { gInt = gInt + 1 }\n")
		sb.WriteString(decl)
		sb.WriteString(drv)
		fmt.Fprintf(&sb, "access(all) fun main(): Int {\n    return drive(acct: getAuthAccount<%s>(0x1), doCall: true)\n}\n", c07AcctType)
		return sb.String(), labels
	}
	sb.WriteString("access(all) contract C0 {\n")
	sb.WriteString(indent(c07Types, "    "))
	sb.WriteString("    access(all) var gInt: Int\n    access(all) var gArr: [Int]\n    access(all) var gDict: {String: Int}\n    access(all) var gS: P\n    access(all) var gSA: P\n    access(all) var gOpt: P?\n")
	sb.WriteString(indent(c07Helpers, "    "))
	sb.WriteString("    access(all) fun bump() { self.gInt = self.gInt + 1 }\n")
	sb.WriteString(indent(decl, "    "))
	sb.WriteString(indent(drv, "    "))
	sb.WriteString("    init() {\n        self.gInt = 1\n        self.gArr = [1, 2, 3]\n        self.gDict = {\"k\": 1}\n        self.gS = P()\n        self.gSA = attach A() to P()\n        self.gOpt = P()\n        self.account.storage.save(<- create R(), to: /storage/res)\n        self.account.storage.save(<- create R2(), to: /storage/res2)\n    }\n}\n")
	return sb.String(), labels
}

const c07SetupTx = `transaction {
    prepare(acct: auth(Storage, Capabilities) &Account) {
        acct.storage.save([1, 2, 3], to: /storage/arr)
        acct.storage.save({"k": 1}, to: /storage/dict)
        let cap = acct.capabilities.storage.issue<auth(Mutate) &[Int]>(/storage/arr)
        acct.capabilities.publish(cap, at: /public/arr)
    }
}`

func c07DriveScript() string {
	return fmt.Sprintf("import C0 from 0x0000000000000001\naccess(all) fun main(): Int {\n    return C0.drive(acct: getAuthAccount<%s>(0x1), doCall: true)\n}\n", c07AcctType)
}

func c07DriveTx(doCall bool) string {
	return fmt.Sprintf("import C0 from 0x0000000000000001\ntransaction {\n    prepare(acct: %s) {\n        C0.drive(acct: acct, doCall: %v)\n    }\n}\n", c07AcctType, doCall)
}

// ---------------------------------------------------------------- choice

func (e *c07entry) validFor(layoutC bool, host int) bool {
	if e.onlyC && !layoutC || e.onlyS && layoutC {
		return false
	}
	selfHost := host == hostStruct || host == hostRes || host == hostPre || host == hostPost
	if e.needSelf && !selfHost {
		return false
	}
	if e.needInit && host != hostInit {
		return false
	}
	if e.needRes && host != hostRes {
		return false
	}
	if e.needCapt && host != hostClosure {
		return false
	}
	if (host == hostPre || host == hostPost) && e.expr == "" {
		return false
	}
	return true
}

// newC07Prog plants catalogue entry idx somewhere valid.
func newC07Prog(r *rand.Rand, idx int) *c07prog {
	e := &c07catalog[idx]
	p := &c07prog{entry: e, entryIdx: idx}
	for try := 0; ; try++ {
		p.layoutC = r.IntN(100) < 65
		p.host = r.IntN(nHosts)
		if e.validFor(p.layoutC, p.host) {
			break
		}
		if try > 200 {
			panic("no valid placement for " + e.id)
		}
	}
	// a resource `self` cannot be captured by closures, and a `return <- r` cannot sit in a closure
	noClosure := func(form string) bool {
		return strings.Contains(form, "return <-") || p.host == hostRes && strings.Contains(p.resolve(form, true), "self.")
	}
	pickPos := func(list []struct{ name, tmpl string }, form string) (string, string) {
		for {
			pos := list[r.IntN(len(list))]
			if noClosure(form) && strings.Contains(pos.tmpl, "@VIEW@fun") {
				continue
			}
			// a planted `return` must not make the rest of the body unreachable
			if strings.Contains(form, "return <-") && (pos.name == "statement" || pos.name == "while-loop" || pos.name == "switch-case") {
				continue
			}
			return pos.name, pos.tmpl
		}
	}
	switch {
	case p.host == hostPre || p.host == hostPost:
		p.exprForm = true
		n := len(c07condPositions)
		if p.host == hostPre {
			n-- // before(...) only in post-conditions
		}
		pos := c07condPositions[r.IntN(n)]
		p.position, p.posTmpl = pos.name, pos.tmpl
		p.emitCond = r.IntN(3) == 0
	case e.expr != "" && (e.stmt == "" || r.IntN(2) == 0):
		p.exprForm = true
		p.position, p.posTmpl = pickPos(c07exprPositions, e.expr)
	default:
		p.position, p.posTmpl = pickPos(c07stmtPositions, e.stmt)
	}
	if p.host != hostPre && p.host != hostPost {
		for i := 0; i < 2; i++ {
			if r.IntN(2) == 0 {
				p.fillers = append(p.fillers, c07fillers[r.IntN(len(c07fillers))])
			} else {
				p.fillers = append(p.fillers, "")
			}
		}
		// the two fillers must not declare the same names
		if p.fillers[0] != "" && p.fillers[0] == p.fillers[1] {
			p.fillers[1] = ""
		}
	}
	return p
}
