package cond

import (
	"fmt"
	"sort"
	"strings"

	"github.com/onflow/cadence"
	"github.com/onflow/cadence/ast"
	"github.com/onflow/cadence/common"
	"github.com/onflow/cadence/interpreter"

	"verif/harness/core"
	"verif/harness/host"
)

// C10 — function pre- and post-conditions are always enforced.
//
// Oracle: the condition model of c10_model.go. For every generated call the model evaluates every
// applicable condition (own + inherited from EVERY interface of the transitive conformance set) on
// the model state; expected outcome = normal return iff all hold, else *interpreter.ConditionError
// (a user error). Calls are generated condition by condition (exactly one false condition), plus
// all-true calls and a few arbitrary ones. `emit` conditions must deliver exactly the predicted
// events on success. Evaluation order is recorded (counters order:*) but not judged.

const (
	formConcrete = iota
	formInter
	formRefConcrete
	formRefInter
	formBound
	formOptRef
)

var formNames = []string{"concrete", "{I}", "&S", "&{I}", "bound-function-value", "(&{I})?."}

type c10call struct {
	s      *comp
	fn     *cfunc
	v0, w0 int64
	args   []int64
	form   int
	via    *iface // for {I} forms
	model  modelRun
	target string // "all-true" | "single" | "multi"
}

func (w *world) script(c *c10call) string {
	var sb strings.Builder
	from := ""
	if w.contract {
		sb.WriteString("import CI from 0x0000000000000001\nimport CS from 0x0000000000000002\n")
		from = "script"
	} else {
		d, _, _ := w.sources()
		sb.WriteString(d)
	}
	sName := w.compRef(c.s, from)
	var as, asNoLabel []string
	for i, a := range c.args {
		lit := fmt.Sprint(a)
		as = append(as, c.fn.labels[i]+": "+lit)
		asNoLabel = append(asNoLabel, lit)
	}
	args := strings.Join(as, ", ")
	sb.WriteString("access(all) fun main(): [Int] {\n")
	ctor := fmt.Sprintf("%s(v: %d, w: %d)", sName, c.v0, c.w0)
	if w.resource {
		if w.contract {
			ctor = fmt.Sprintf("CS.mk%s(v: %d, w: %d)", c.s.name, c.v0, c.w0)
		} else {
			ctor = "create " + ctor
		}
		fmt.Fprintf(&sb, "    let s <- %s\n", ctor)
	} else {
		fmt.Fprintf(&sb, "    let s = %s\n", ctor)
	}
	recv := "s"  // receiver of the call
	state := "s" // where the state is read after the call
	iName := ""
	if c.via != nil {
		iName = w.ifaceRef(c.via, from)
	}
	switch c.form {
	case formInter:
		if w.resource {
			fmt.Fprintf(&sb, "    let i: @{%s} <- s\n", iName)
		} else {
			fmt.Fprintf(&sb, "    let i: {%s} = s\n", iName)
		}
		recv, state = "i", "i"
	case formRefConcrete:
		fmt.Fprintf(&sb, "    let r = &s as &%s\n", sName)
		recv = "r"
	case formRefInter:
		fmt.Fprintf(&sb, "    let r = &s as &{%s}\n", iName)
		recv = "r"
	case formOptRef:
		fmt.Fprintf(&sb, "    let r: &{%s}? = &s as &{%s}\n", iName, iName)
		recv = "r?"
	}
	call := fmt.Sprintf("%s.%s(%s)", recv, c.fn.name, args)
	if c.form == formBound {
		fmt.Fprintf(&sb, "    let g = s.%s\n", c.fn.name)
		call = fmt.Sprintf("g(%s)", strings.Join(asNoLabel, ", "))
	}
	if c.fn.returns {
		if c.form == formOptRef {
			call += "!"
		}
		fmt.Fprintf(&sb, "    let ret = %s\n", call)
	} else {
		fmt.Fprintf(&sb, "    %s\n    let ret = 0\n", call)
	}
	fmt.Fprintf(&sb, "    let out = [ret, %s.v, %s.w]\n", state, state)
	if w.resource {
		fmt.Fprintf(&sb, "    destroy %s\n", state)
	}
	sb.WriteString("    return out\n}\n")
	return sb.String()
}

// forms valid for a call of fn on s
func (w *world) forms(r interface{ IntN(int) int }, s *comp, fn *cfunc) (int, *iface) {
	// interfaces through which fn is visible
	var vias []*iface
	for _, i := range closure(s.conf) {
		if declaredIn([]*iface{i}, fn) {
			vias = append(vias, i)
		}
	}
	cands := []int{formConcrete, formRefConcrete}
	if len(vias) > 0 {
		cands = append(cands, formInter, formInter, formRefInter, formRefInter, formOptRef)
	}
	if !w.resource {
		cands = append(cands, formBound)
	}
	f := cands[r.IntN(len(cands))]
	var via *iface
	if f == formInter || f == formRefInter || f == formOptRef {
		via = vias[r.IntN(len(vias))]
	}
	return f, via
}

// classification of a condition relative to the composite / implementation (for floors and keys)
func (w *world) condClass(s *comp, c *cond) string {
	if c.decl.inComp {
		return "own"
	}
	for _, i := range s.conf {
		if i.name == c.decl.owner {
			return "inherited-direct"
		}
	}
	return "inherited-indirect"
}

func (w *world) implClass(s *comp, fn *cfunc) string {
	d := w.impl(s, fn)
	if d.inComp {
		inh := false
		for _, a := range w.applicable(s, fn) {
			if !a.inComp {
				inh = true
			}
		}
		switch {
		case len(d.pre)+len(d.post) == 0 && inh:
			return "override-without-own-conditions"
		case inh:
			return "override"
		default:
			return "own-function"
		}
	}
	// default function: how far up?
	for _, i := range s.conf {
		if i.name == d.owner {
			return "default-function-direct"
		}
	}
	return "default-function-indirect"
}

type obsEvent struct {
	tag  string
	a, b string
}

func eventsOf(h *host.Host) (out []obsEvent, bad int) {
	for _, e := range h.Events {
		if !strings.HasSuffix(e.EventType.QualifiedIdentifier, "Ev") {
			bad++
			continue
		}
		f := e.FieldsMappedByName()
		tag, ok1 := f["tag"].(cadence.String)
		a, ok2 := f["a"].(cadence.Int)
		b, ok3 := f["b"].(cadence.Int)
		if !ok1 || !ok2 || !ok3 {
			bad++
			continue
		}
		out = append(out, obsEvent{string(tag), a.String(), b.String()})
	}
	return
}

func condErrOf(err error) *interpreter.ConditionError {
	var ce *interpreter.ConditionError
	host.Walk(err, func(e error) {
		if x, ok := e.(*interpreter.ConditionError); ok && ce == nil {
			ce = x
		}
	})
	return ce
}

func isCheckerRejection(err error) bool {
	return err != nil && (host.HasKind(err, "ParsingCheckingError") || host.HasKind(err, "CheckerError") || host.HasKind(err, "sema."))
}

func c10Cases(tier string) int {
	if tier == "thorough" {
		return 640
	}
	return 64
}

const c10WorldsPerCase = 5

func init() {
	core.Register(&core.Prop{
		ID:   "C10",
		Rule: "generated worlds: struct/resource interface DAGs (depth ≤ 4, `B: A` inheritance, optionally split over two deployed contracts) in which every interface function declares own pre/post conditions over Int parameters, self fields, before(...) and result, some `emit` conditions; contracts conforming to one or two contract interfaces whose contract functions carry pre/post conditions, with nested type declarations before/between/after the functions; default functions, overrides (with and without own conditions, renamed parameters), nested calls; calls generated condition by condition from the Go condition model (exactly one false condition) plus all-true and arbitrary calls, through the concrete type, {I}, &S, &{I}, optional chaining and bound function values; distinct = distinct (world, call script)",
		Assumptions: []string{
			"the Go model evaluates Int arithmetic with int64 on small operands (calls that leave ±2^40 are discarded)",
			"conditions are pure, so the order of evaluation among the pre- (post-) conditions of one call cannot change which conditions are false; order is recorded, not judged",
			"events are matched by their field values (tag, a, b); the event type only has to be an `Ev`",
		},
		NumCases: c10Cases,
		Floors: map[string]int64{
			"worlds_accepted": 60, "calls": 1000,
			"expected_success": 500, "expected_condition_error": 500,
			"falsified:pre": 200, "falsified:post": 200,
			"falsified:own": 50, "falsified:inherited-direct": 200, "falsified:inherited-indirect": 100,
			"falsified:inherited-only-function": 200,
			"falsified:nested-call": 30, "falsified:uses-before": 100, "falsified:uses-result": 50,
			"impl:default-function-direct": 150, "impl:default-function-indirect": 100, "impl:override": 400, "impl:override-without-own-conditions": 200,
			"form:concrete": 100, "form:{I}": 200, "form:&S": 100, "form:&{I}": 200, "form:(&{I})?.": 100, "form:bound-function-value": 50,
			"emit_events_checked": 2000, "contract_mode_calls": 300, "contract_gate_calls": 300, "contract_gate_expected_condition_error": 100, "contract_gate_expected_success": 100, "renamed_parameters_calls": 500,
			"kind:struct": 30, "kind:resource": 30, "single_false_condition_named": 1000,
		},
		Run: runC10,
		Finalize: func(a *core.Agg) {
			// both outcome classes at least 30 % of the judged calls
			s, f := a.Counters["expected_success"], a.Counters["expected_condition_error"]
			if t := s + f; t > 0 && (s*100 < 30*t || f*100 < 30*t) {
				a.Inconclusive = append(a.Inconclusive, fmt.Sprintf("outcome balance: %d expected successes vs %d expected condition errors (each must be >= 30 %%)", s, f))
			}
		},
	})
}

func runC10(c *core.Ctx) {
	for k := 0; k < c10WorldsPerCase; k++ {
		c10World(c)
	}
	// contract functions with conditions inherited from contract interfaces (c10_gate.go)
	for k := 0; k < 2; k++ {
		c10Gate(c)
	}
}

func c10World(c *core.Ctx) {
	w := newC10World(c.Rng)
	calls := c10Calls(c, w)
	decls, ci, cs := w.sources()
	worldText := decls + ci + cs
	hosts := map[host.Engine]*host.Host{}
	accepted := true
	for _, eng := range host.AllEngines {
		h := host.New()
		hosts[eng] = h
		if w.contract {
			for n, src := range []string{ci, cs} {
				name := []string{"CI", "CS"}[n]
				o := h.Deploy(eng, host.Addr(uint64(n+1)), name, src)
				if o.Err != nil || o.Escaped != nil {
					if eng == host.EngI && isCheckerRejection(o.Err) {
						accepted = false
						c.Inc("worlds_rejected_by_checker")
						c.Note("c10_last_rejected_world", core.Clip(host.ErrText(o), 600)+"\n"+worldText)
					} else {
						c.Violate(fmt.Sprintf("[%s] deployment of a world accepted elsewhere fails: %s", eng, normKind(host.ErrKind(o.Err))),
							"deploying the generated contracts failed: "+host.ErrText(o), map[string]any{"engine": eng.String(), "CI": ci, "CS": cs})
						accepted = false
					}
					break
				}
			}
		}
		if !accepted {
			break
		}
	}
	if !accepted {
		return
	}
	first := true
	keep := w.contract && c.Rng.IntN(2) == 0
	if keep {
		c.Inc("worlds_with_cached_contract_programs")
	}
	for _, call := range calls {
		src := w.script(call)
		for _, eng := range host.AllEngines {
			h := hosts[eng]
			if !w.contract {
				h = host.New()
			}
			h.ResetTrace()
			var opt *host.Options
			if keep {
				// contract mode, every other world: the checked contract programs (and their elaborations,
				// which the VM's desugaring re-reads for inherited conditions) are reused by all calls
				opt = &host.Options{Config: host.DefaultConfig, KeepPrograms: true}
				// ... but never the script itself (all scripts share one location)
				for l := range h.Programs {
					if _, ok := l.(common.AddressLocation); !ok {
						delete(h.Programs, l)
					}
				}
			}
			o := h.RunScript(eng, src, nil, opt)
			c.Eval(1)
			if o.Err != nil && condErrOf(o.Err) == nil && isCheckerRejection(o.Err) {
				if eng == host.EngI {
					c.Inc("calls_rejected_by_checker")
					c.Note("c10_last_rejected_call", core.Clip(host.ErrText(o), 600)+"\n"+worldText+src)
				}
				if first && eng == host.EngI {
					c.Inc("worlds_rejected_by_checker")
					return
				}
				continue
			}
			if first && eng == host.EngI {
				c.Inc("worlds_accepted")
				if w.resource {
					c.Inc("kind:resource")
				} else {
					c.Inc("kind:struct")
				}
			}
			if eng == host.EngI {
				c10Coverage(c, w, call)
				c.Distinct(worldText + src)
				if c.WantSample() && len(call.model.falses) == 1 {
					c.Sample(map[string]any{"contracts": ci + cs, "script": src, "falsified": call.model.falses[0].c.tag, "error": host.ErrText(o)})
				}
			}
			c10Judge(c, w, call, eng, h, o, worldText, src)
		}
		first = false
	}
}

func normKind(k string) string {
	k = strings.TrimPrefix(k, "*")
	if i := strings.LastIndex(k, "."); i >= 0 {
		k = k[i+1:]
	}
	return k
}

// c10Calls picks the calls of a world from the model: condition by condition.
func c10Calls(c *core.Ctx, w *world) []*c10call {
	r := c.Rng
	var out []*c10call
	for _, s := range w.comps {
		for _, fn := range w.funcs {
			if !w.hasFunc(s, fn) {
				continue
			}
			type cand struct {
				v0, w0 int64
				args   []int64
				m      modelRun
			}
			var allTrue []cand
			single := map[string]cand{}
			var singleKeys []string
			var multi []cand
			for t := 0; t < 500; t++ {
				cd := cand{v0: int64(r.IntN(106) - 5), w0: int64(r.IntN(106) - 5)}
				for range fn.labels {
					cd.args = append(cd.args, int64(r.IntN(71)-10))
				}
				cd.m = w.run(s, fn, cd.v0, cd.w0, cd.args)
				if !cd.m.ok {
					c.Inc("model_out_of_range")
					continue
				}
				switch len(cd.m.falses) {
				case 0:
					if len(allTrue) < 12 {
						allTrue = append(allTrue, cd)
					}
				case 1:
					f := cd.m.falses[0]
					k := fmt.Sprintf("%s@%d", f.c.tag, f.node.depth())
					if _, ok := single[k]; !ok {
						single[k] = cd
						singleKeys = append(singleKeys, k)
					}
				default:
					if len(multi) < 2 {
						multi = append(multi, cd)
					}
				}
			}
			sort.Strings(singleKeys)
			// how many conditions could have been targeted
			total := 0
			for _, d := range w.applicable(s, fn) {
				for _, cc := range d.conds() {
					if !cc.emit {
						total++
					}
				}
			}
			c.Count("targets_total", int64(total))
			c.Count("targets_found", int64(len(singleKeys)))
			if len(singleKeys) > 8 {
				r.Shuffle(len(singleKeys), func(i, j int) { singleKeys[i], singleKeys[j] = singleKeys[j], singleKeys[i] })
				singleKeys = singleKeys[:8]
				sort.Strings(singleKeys)
			}
			add := func(cd cand, target string) {
				f, via := w.forms(r, s, fn)
				out = append(out, &c10call{s: s, fn: fn, v0: cd.v0, w0: cd.w0, args: cd.args, form: f, via: via, model: cd.m, target: target})
			}
			for _, k := range singleKeys {
				add(single[k], "single")
			}
			nTrue := len(singleKeys) + 1
			if nTrue < 2 {
				nTrue = 2
			}
			for i := 0; i < nTrue && i < len(allTrue); i++ {
				add(allTrue[i], "all-true")
			}
			if len(multi) > 0 && r.IntN(2) == 0 {
				add(multi[0], "multi")
			}
		}
	}
	return out
}

func c10Coverage(c *core.Ctx, w *world, call *c10call) {
	c.Inc("calls")
	c.Inc("target:" + call.target)
	c.Inc("form:" + formNames[call.form])
	c.Inc("impl:" + w.implClass(call.s, call.fn))
	if w.contract {
		c.Inc("contract_mode_calls")
	}
	for _, d := range w.applicable(call.s, call.fn) {
		for i, l := range d.fn.labels {
			if d.pnames[i] != l {
				c.Inc("renamed_parameters_calls")
				goto done
			}
		}
	}
done:
	if call.model.nested > 0 {
		c.Inc("calls_with_nested_calls")
	}
	if len(call.model.falses) == 0 {
		c.Inc("expected_success")
		return
	}
	c.Inc("expected_condition_error")
	if len(call.model.falses) != 1 {
		return
	}
	f := call.model.falses[0]
	if f.c.post {
		c.Inc("falsified:post")
	} else {
		c.Inc("falsified:pre")
	}
	c.Inc("falsified:" + w.condClass(call.s, f.c))
	if f.node.parent != nil {
		c.Inc("falsified:nested-call")
	}
	if f.c.usesBefore() {
		c.Inc("falsified:uses-before")
	}
	if f.c.usesResult() {
		c.Inc("falsified:uses-result")
	}
	// inherited-only: the executed implementation is a default function, or an override that has no
	// condition of its own: every applicable condition is inherited
	ic := w.implClass(call.s, f.node.fn)
	if strings.HasPrefix(ic, "default-function") || ic == "override-without-own-conditions" {
		c.Inc("falsified:inherited-only-function")
	}
}

func condShape(w *world, s *comp, f falseCond) string {
	k := "pre"
	if f.c.post {
		k = "post"
	}
	extra := ""
	if f.c.usesBefore() {
		extra += "+before"
	}
	if f.c.usesResult() {
		extra += "+result"
	}
	nest := ""
	if f.node.parent != nil {
		nest = " in nested call"
	}
	return fmt.Sprintf("%s %s-condition%s%s of %s", w.condClass(s, f.c), k, extra, nest, w.implClass(s, f.node.fn))
}

func c10Judge(c *core.Ctx, w *world, call *c10call, eng host.Engine, h *host.Host, o host.Outcome, worldText, src string) {
	m := call.model
	kindW := w.kindWord()
	wit := func(extra map[string]any) map[string]any {
		var fs []string
		for _, f := range m.falses {
			fs = append(fs, fmt.Sprintf("%s (call depth %d)", f.c.tag, f.node.depth()))
		}
		var evs []string
		for _, e := range m.events {
			evs = append(evs, e.key())
		}
		x := map[string]any{"engine": eng.String(), "script": src, "model_false_conditions": fs,
			"model_return": m.ret, "model_fields_after": m.fields, "model_events(continue-mode)": evs,
			"observed_error": host.ErrText(o), "observed_value": fmt.Sprint(o.Value)}
		if w.contract {
			_, ci, cs := w.sources()
			x["contract_CI@0x1"] = ci
			x["contract_CS@0x2"] = cs
		}
		for k, v := range extra {
			x[k] = v
		}
		return x
	}
	ctx := fmt.Sprintf("%s via %s", kindW, formNames[call.form])
	if o.Escaped != nil {
		c.Violate(fmt.Sprintf("[%s] escaped panic (%s)", eng, ctx), "a Go panic escaped the execution", wit(nil))
		return
	}
	obsEvents, badEvents := eventsOf(h)
	if badEvents > 0 {
		c.Violate(fmt.Sprintf("[%s] malformed condition event (%s)", eng, ctx), "an event delivered to the host is not an Ev(tag:String,a:Int,b:Int)", wit(nil))
	}
	predicted := map[string]int{}
	for _, e := range m.events {
		predicted[e.key()]++
	}
	observed := map[string]int{}
	for _, e := range obsEvents {
		observed[e.tag+"|"+e.a+"|"+e.b]++
	}

	if len(m.falses) == 0 {
		// ---- expected: normal return
		if o.Err != nil {
			ce := condErrOf(o.Err)
			if ce != nil {
				c.Violate(fmt.Sprintf("[%s] spurious condition failure: all conditions hold, %s of %s (%s)", eng, ce.ConditionKind.Name(), w.implClass(call.s, call.fn), ctx),
					fmt.Sprintf("engine %s: every applicable condition holds in the model but the call failed with %q", eng, ce.Error()), wit(nil))
			} else {
				c.Violate(fmt.Sprintf("[%s] unexpected error %s although all conditions hold (%s)", eng, normKind(host.ErrKind(o.Err)), ctx),
					"the call failed with an error that is not a condition error", wit(nil))
			}
			return
		}
		c.Inc("observed_success")
		// model sanity: result / state
		exp := fmt.Sprintf("[%d, %d, %d]", m.ret, m.fields[0], m.fields[1])
		if got := fmt.Sprint(o.Value); got != exp {
			c.Violate(fmt.Sprintf("[%s] result-or-state differs from model on success (%s, %s)", eng, w.implClass(call.s, call.fn), ctx),
				fmt.Sprintf("engine %s: expected [result, v, w] = %s, observed %s", eng, exp, got), wit(nil))
		}
		// emit conditions: exactly once each, with the predicted values
		if !sameCounts(predicted, observed) {
			c.Violate(fmt.Sprintf("[%s] emit-condition events differ from model on success (%s, %s)", eng, w.implClass(call.s, call.fn), ctx),
				fmt.Sprintf("engine %s: predicted events %v, observed %v", eng, predicted, observed), wit(nil))
		}
		c.Count("emit_events_checked", int64(len(m.events)))
		c10Order(c, w, call, obsEvents)
		return
	}

	// ---- expected: condition error
	if o.Err == nil {
		f := m.falses[0]
		key := fmt.Sprintf("[%s] condition not enforced: %s (%s)", eng, condShape(w, call.s, f), ctx)
		if len(m.falses) > 1 {
			key = fmt.Sprintf("[%s] conditions not enforced: several false, first %s (%s)", eng, condShape(w, call.s, f), ctx)
		}
		c.Violate(key, fmt.Sprintf("engine %s: condition %q is false in the model but the call returned normally with %v", eng, f.c.tag, o.Value), wit(nil))
		return
	}
	ce := condErrOf(o.Err)
	if ce == nil {
		c.Violate(fmt.Sprintf("[%s] false condition reported as %s instead of a condition error (%s)", eng, normKind(host.ErrKind(o.Err)), ctx),
			"the call failed, but not with a condition error", wit(nil))
		return
	}
	if cl := host.Classify(o); cl != host.ClassUser {
		c.Violate(fmt.Sprintf("[%s] condition error classified %s (%s)", eng, cl, ctx), "a condition error must be a user error", wit(nil))
	}
	c.Inc("observed_condition_error")
	if len(m.falses) == 1 {
		f := m.falses[0]
		wantKind := ast.ConditionKindPre
		if f.c.post {
			wantKind = ast.ConditionKindPost
		}
		if ce.Message != f.c.tag || ce.ConditionKind != wantKind {
			c.Violate(fmt.Sprintf("[%s] wrong condition reported: falsified %s (%s)", eng, condShape(w, call.s, f), ctx),
				fmt.Sprintf("engine %s: only %q (%s) is false in the model, but the error is %q", eng, f.c.tag, wantKind.Name(), ce.Error()), wit(nil))
			return
		}
		c.Inc("single_false_condition_named")
		// events: observed ⊆ predicted(continue-mode); pre-emit events of every call whose body was entered are required
		required := map[string]int{}
		entered := map[*callNode]bool{}
		n := f.node
		if !f.c.post {
			n = n.parent
		}
		for ; n != nil; n = n.parent {
			entered[n] = true
		}
		for _, e := range m.events {
			if !e.c.post && entered[e.node] {
				required[e.key()]++
			}
		}
		bad := ""
		for k, n := range observed {
			if n > predicted[k] {
				bad = fmt.Sprintf("event %s observed %d times, predicted at most %d", k, n, predicted[k])
			}
		}
		for k, n := range required {
			if observed[k] < n {
				bad = fmt.Sprintf("event %s of a pre-condition of an entered call observed %d times, expected at least %d", k, observed[k], n)
			}
		}
		if bad != "" {
			c.Violate(fmt.Sprintf("[%s] emit-condition events inconsistent with model on condition failure (%s)", eng, ctx), "engine "+eng.String()+": "+bad, wit(nil))
		}
		c.Count("emit_events_checked", int64(len(required)))
	}
}

func sameCounts(a, b map[string]int) bool {
	if len(a) != len(b) {
		return false
	}
	for k, v := range a {
		if b[k] != v {
			return false
		}
	}
	return true
}

// c10Order records (does not judge) the evaluation order of own vs inherited emit conditions of the
// outermost call on success.
func c10Order(c *core.Ctx, w *world, call *c10call, evs []obsEvent) {
	firstOf := func(kind string, own bool) int {
		for i, e := range evs {
			parts := strings.Split(e.tag, ".")
			if len(parts) != 3 || parts[1] != call.fn.name || !strings.HasPrefix(parts[2], kind) {
				continue
			}
			if (parts[0] == call.s.name) == own {
				return i
			}
		}
		return -1
	}
	for _, kind := range []string{"pre", "post"} {
		o, i := firstOf(kind, true), firstOf(kind, false)
		if o >= 0 && i >= 0 {
			if o < i {
				c.Inc("order:" + kind + ":own-before-inherited")
			} else {
				c.Inc("order:" + kind + ":inherited-before-own")
			}
		}
	}
}
