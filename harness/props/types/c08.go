package types

import (
	"fmt"
	"hash/fnv"
	"math/bits"
	"runtime/debug"
	"sort"
	"strings"

	"github.com/onflow/cadence/interpreter"
	"github.com/onflow/cadence/sema"

	"verif/harness/core"
)

// C08 — subtyping is a consistent preorder across all implementations.
//
// Observed: the boolean results of five entry points of the real code on every ordered pair of a generated pool
//   hand        sema.CheckSubTypeWithoutEquality (+ Type.Equal)          hand-written checker relation
//   gen         sema.CheckSubTypeWithoutEquality_gen (+ Type.Equal)      generated checker relation
//   static-gen  interpreter.CheckSubTypeWithoutEquality_gen (+ StaticType.Equal) on converted static types
//   runtime     interpreter.IsSubType on converted static types
//   runtime-sema interpreter.IsSubTypeOfSemaType (static subtype, checker supertype)
// Oracle (differential + algebraic laws, no model of subtyping): all five agree on every pair; each is reflexive;
// Never <= T <= Any; the checker relation and the run-time relation are transitive (bitset closure over the matrix).

const (
	relHand = iota
	relGen
	relStaticGen
	relRuntime
	relRuntimeSema
	numRels
)

var relNames = [numRels]string{"hand", "gen", "static-gen", "runtime", "runtime-sema"}

type bitMatrix struct {
	n     int
	words int
	bits  []uint64
}

func newBitMatrix(n int) *bitMatrix {
	w := (n + 63) / 64
	return &bitMatrix{n: n, words: w, bits: make([]uint64, n*w)}
}
func (m *bitMatrix) set(i, j int)      { m.bits[i*m.words+j/64] |= 1 << (uint(j) % 64) }
func (m *bitMatrix) get(i, j int) bool { return m.bits[i*m.words+j/64]&(1<<(uint(j)%64)) != 0 }
func (m *bitMatrix) row(i int) []uint64 {
	return m.bits[i*m.words : (i+1)*m.words]
}

func c08PoolSize(tier string) int {
	if tier == "thorough" {
		return 320
	}
	return 150
}

func c08Cases(tier string) int {
	if tier == "thorough" {
		return 640
	}
	return 48
}

// evalRel evaluates one relation, turning a Go panic into a reported outcome.
func evalRel(w *World, rel int, a, b GT) (res bool, panicked string) {
	defer func() {
		if r := recover(); r != nil {
			st := string(debug.Stack())
			panicked = fmt.Sprintf("%v @ %s", r, relTopFrame(st))
		}
	}()
	switch rel {
	case relHand:
		return a.T.Equal(b.T) || sema.CheckSubTypeWithoutEquality(a.T, b.T), ""
	case relGen:
		return a.T.Equal(b.T) || sema.CheckSubTypeWithoutEquality_gen(a.T, b.T), ""
	case relStaticGen:
		return a.St.Equal(b.St) || interpreter.CheckSubTypeWithoutEquality_gen(w.Inter, a.St, b.St), ""
	case relRuntime:
		return interpreter.IsSubType(w.Inter, a.St, b.St), ""
	case relRuntimeSema:
		return interpreter.IsSubTypeOfSemaType(w.Inter, a.St, b.T), ""
	}
	panic("bad relation")
}

func relTopFrame(stack string) string {
	for _, l := range strings.Split(stack, "\n") {
		l = strings.TrimSpace(l)
		if strings.HasPrefix(l, "github.com/onflow/cadence") {
			if i := strings.LastIndex(l, "("); i > 0 {
				l = l[:i]
			}
			return l
		}
	}
	return "unknown"
}

func relVector(w *World, a, b GT) (v [numRels]bool, panics [numRels]string) {
	for r := 0; r < numRels; r++ {
		v[r], panics[r] = evalRel(w, r, a, b)
	}
	return
}

func vecString(v [numRels]bool) string {
	var parts []string
	for r := 0; r < numRels; r++ {
		x := "F"
		if v[r] {
			x = "T"
		}
		parts = append(parts, relNames[r]+"="+x)
	}
	return strings.Join(parts, " ")
}

// ---- core reduction: descend through the structural rule of a same-constructor pair as long as exactly one required
// component pair shows the same kind of observation, so that keys name the smallest shape that shows the problem.

type compPair struct{ sub, super sema.Type }

// structuralPairs lists the component pairs (oriented sub, super) whose relation the structural subtype rule of the
// pair requires; ok=false when the constructors differ or a side condition of the rule (size, purity, arity,
// authorization) already fails.
func structuralPairs(a, b sema.Type) ([]compPair, bool) {
	if y, ok := b.(*sema.OptionalType); ok {
		if x, ok := a.(*sema.OptionalType); ok {
			return []compPair{{x.Type, y.Type}}, true
		}
		return []compPair{{a, y.Type}}, true
	}
	switch x := a.(type) {
	case *sema.VariableSizedType:
		if y, ok := b.(*sema.VariableSizedType); ok {
			return []compPair{{x.Type, y.Type}}, true
		}
	case *sema.ConstantSizedType:
		if y, ok := b.(*sema.ConstantSizedType); ok && x.Size == y.Size {
			return []compPair{{x.Type, y.Type}}, true
		}
	case *sema.DictionaryType:
		if y, ok := b.(*sema.DictionaryType); ok {
			return []compPair{{x.KeyType, y.KeyType}, {x.ValueType, y.ValueType}}, true
		}
	case *sema.ReferenceType:
		if y, ok := b.(*sema.ReferenceType); ok && y.Authorization.PermitsAccess(x.Authorization) {
			return []compPair{{x.Type, y.Type}}, true
		}
	case *sema.CapabilityType:
		if y, ok := b.(*sema.CapabilityType); ok && x.BorrowType != nil && y.BorrowType != nil {
			return []compPair{{x.BorrowType, y.BorrowType}}, true
		}
	case *sema.FunctionType:
		if y, ok := b.(*sema.FunctionType); ok && (x.Purity == y.Purity || x.Purity == sema.FunctionPurityView) &&
			len(x.Parameters) == len(y.Parameters) &&
			len(x.TypeParameters) == 0 && len(y.TypeParameters) == 0 && x.Arity == nil && y.Arity == nil &&
			x.IsConstructor == y.IsConstructor {
			var ps []compPair
			for i := range x.Parameters {
				ps = append(ps, compPair{y.Parameters[i].TypeAnnotation.Type, x.Parameters[i].TypeAnnotation.Type})
			}
			ps = append(ps, compPair{x.ReturnTypeAnnotation.Type, y.ReturnTypeAnnotation.Type})
			return ps, true
		}
	}
	return nil, false
}

// reducePair descends while exactly one required component pair satisfies `bad`.
func reducePair(w *World, a, b sema.Type, bad func(a, b GT) bool) (sema.Type, sema.Type) {
	for i := 0; i < 10; i++ {
		pairs, ok := structuralPairs(a, b)
		if !ok {
			break
		}
		var hit []compPair
		for _, p := range pairs {
			if p.sub == nil || p.super == nil {
				continue
			}
			if _, isGeneric := p.sub.(*sema.GenericType); isGeneric {
				continue
			}
			if _, isGeneric := p.super.(*sema.GenericType); isGeneric {
				continue
			}
			if bad(w.mk(p.sub), w.mk(p.super)) {
				hit = append(hit, p)
			}
		}
		if len(hit) != 1 {
			break
		}
		a, b = hit[0].sub, hit[0].super
	}
	return a, b
}

// neverContainer: an optional / array / dictionary-value chain of depth >= 1 whose innermost element is Never.
func neverContainer(t sema.Type) bool {
	d, inner := containerChain(t)
	return d > 0 && inner == sema.NeverType
}

// containerChain strips optionals, arrays and dictionary values.
func containerChain(t sema.Type) (depth int, inner sema.Type) {
	for {
		switch x := t.(type) {
		case *sema.OptionalType:
			t = x.Type
		case *sema.VariableSizedType:
			t = x.Type
		case *sema.ConstantSizedType:
			t = x.Type
		case *sema.DictionaryType:
			t = x.ValueType
		default:
			return depth, t
		}
		depth++
	}
}

func optionalChainOf(t sema.Type, base sema.Type) (depth int, ok bool) {
	for {
		if o, isOpt := t.(*sema.OptionalType); isOpt {
			t = o.Type
			depth++
			continue
		}
		return depth, t == base
	}
}

// neverVsAnyResourceClass: a container/optional chain over Never against a (possibly empty) container/optional
// chain over AnyResource — the root-cause class "a container of Never is covariant but not resource-kinded".
func neverVsAnyResourceClass(a, c sema.Type) bool {
	_, inner := containerChain(c)
	return neverContainer(a) && inner == sema.AnyResourceType
}

func hasDisagreement(v [numRels]bool) bool {
	for r := 1; r < numRels; r++ {
		if v[r] != v[0] {
			return true
		}
	}
	return false
}

func disagreementKey(w *World, a, b GT, v [numRels]bool) (key string, ca, cb sema.Type) {
	ca, cb = reducePair(w, a.T, b.T, func(x, y GT) bool {
		v2, p2 := relVector(w, x, y)
		for _, p := range p2 {
			if p != "" {
				return false
			}
		}
		return hasDisagreement(v2)
	})
	cv, _ := relVector(w, w.mk(ca), w.mk(cb))
	if d, ok := optionalChainOf(ca, sema.NeverType); ok && d > 0 && cb == sema.AnyResourceType &&
		!cv[relHand] && !cv[relGen] && !cv[relStaticGen] && cv[relRuntime] && cv[relRuntimeSema] {
		return "relations disagree: core Never? <: AnyResource is false for the checker relations (hand, gen, static-gen) and true for the run-time relations (IsSubTypeOfSemaType unwraps the optional)", ca, cb
	}
	return fmt.Sprintf("relations disagree: core %s <: %s [%s]", Skeleton(ca), Skeleton(cb), vecString(cv)), ca, cb
}

func transitivityKey(w *World, rel int, relLabel string, a, b, c GT) (key string, ca, cc sema.Type) {
	ca, cc = reducePair(w, a.T, c.T, func(x, y GT) bool {
		// a component is on the failing path when the relation under test, or the checker relation, rejects it
		// (the run-time relation answers some component pairs differently from how it answers them nested)
		r, p := evalRel(w, rel, x, y)
		h, ph := evalRel(w, relHand, x, y)
		return p == "" && ph == "" && (!r || !h)
	})
	if it, ok := c.T.(*sema.InterfaceType); ok && it.Location == nil {
		if bt, ok := b.T.(*sema.IntersectionType); ok && bt.EffectiveIntersectionSet().Contains(it) {
			switch a.T.(type) {
			case *sema.CompositeType, *sema.IntersectionType, *sema.InterfaceType:
			default:
				return fmt.Sprintf("non-transitive (%s relation): builtin type T conforming to builtin interface I: T <: {I} and {I} <: I but not T <: I (bare interface supertype only handles composite, intersection and interface subtypes)", relLabel), ca, cc
			}
		}
	}
	if neverVsAnyResourceClass(ca, cc) {
		return fmt.Sprintf("non-transitive (%s relation): core container/optional of Never is not below AnyResource (or a container/optional of it) although it is below a covariant container of AnyResource that is (container of Never is not resource-kinded)", relLabel), ca, cc
	}
	return fmt.Sprintf("non-transitive (%s relation): %s <: %s <: %s but not %s <: %s",
		relLabel, Skeleton(a.T), Skeleton(b.T), Skeleton(c.T), Skeleton(ca), Skeleton(cc)), ca, cc
}

func gtDesc(g GT) map[string]any {
	return map[string]any{"type": g.T.QualifiedString(), "type_id": string(g.T.ID()), "static": g.St.String(), "kind": g.Kind, "source": g.Src}
}

func hashPair(a, b GT) uint64 {
	h := fnv.New64a()
	_, _ = h.Write([]byte(a.T.ID()))
	_, _ = h.Write([]byte{0})
	_, _ = h.Write([]byte(b.T.ID()))
	return h.Sum64()
}

var c08RequiredKinds = []string{
	"Never", "Any", "AnyStruct", "AnyResource", "number", "number-abstract", "primitive", "path", "Type",
	"optional", "array-variable", "array-constant", "dictionary",
	"reference-unauthorized", "reference-conjunction", "reference-disjunction",
	"intersection", "structure", "resource", "attachment", "enum", "contract", "event",
	"structure-interface", "resource-interface", "capability", "function", "inclusive-range", "builtin-composite",
}

func c08Run(c *core.Ctx) {
	w := GetWorld(true)
	g := NewGen(w, c.Rng, 3)
	n := c08PoolSize(c.Tier)
	pool, st := g.Pool(n)
	n = len(pool)
	c.Count("pool_types", int64(n))
	c.Count("denotability_verified_by_checker", int64(st.Verified))
	c.Count("candidates_rejected_by_checker", int64(st.Rejected))
	c.Count("expression_only_types", int64(st.ExpressionOnly))
	c.Count("position_only_interface_types", int64(st.PositionOnly))
	if st.Mismatch > 0 {
		c.Count("generator_source_mismatch", int64(st.Mismatch))
	}
	kinds := map[string]bool{}
	withNeverComponent, withFunctionFeatures := 0, 0
	for _, p := range pool {
		c.Inc("kind:" + p.Kind)
		kinds[p.Kind] = true
		if p.T != sema.NeverType && containsComponent(p.T, func(t sema.Type) bool { return t == sema.NeverType }) {
			withNeverComponent++
		}
		if f, ok := p.T.(*sema.FunctionType); ok && (len(f.TypeParameters) > 0 || f.Arity != nil || f.Purity == sema.FunctionPurityView) {
			withFunctionFeatures++
		}
		if p.T != sema.AnyType && containsComponent(p.T, func(t sema.Type) bool { return t == sema.AnyType }) {
			panic("generator produced a type with Any as a component: " + p.T.String())
		}
	}
	c.Count("types_with_never_component", int64(withNeverComponent))
	c.Count("function_types_with_purity_arity_or_type_parameters", int64(withFunctionFeatures))
	c.Max("kinds_in_one_pool", int64(len(kinds)))

	var mats [numRels]*bitMatrix
	for r := range mats {
		mats[r] = newBitMatrix(n)
	}
	neverIdx, anyIdx := -1, -1
	for i, p := range pool {
		if p.T == sema.NeverType {
			neverIdx = i
		}
		if p.T == sema.AnyType {
			anyIdx = i
		}
	}
	kindPairs := map[string]bool{}
	var truePairs, properPairs int64
	for i, a := range pool {
		for j, b := range pool {
			v, panics := relVector(w, a, b)
			c.Eval(numRels)
			for r := 0; r < numRels; r++ {
				if panics[r] != "" {
					c.Violate(fmt.Sprintf("panic in relation %s: %s", relNames[r], stripAddrs(panics[r])),
						fmt.Sprintf("relation %s panicked on %s <: %s: %s", relNames[r], a.T.QualifiedString(), b.T.QualifiedString(), panics[r]),
						map[string]any{"sub": gtDesc(a), "super": gtDesc(b), "relation": relNames[r], "panic": panics[r]})
					continue
				}
				if v[r] {
					mats[r].set(i, j)
				}
			}
			if i != j {
				c.DistinctHash(hashPair(a, b))
				kindPairs[a.Kind+"|"+b.Kind] = true
			}
			if v[relHand] {
				truePairs++
				if i != j {
					properPairs++
				}
			}
			agree := true
			for r := 0; r < numRels; r++ {
				if panics[r] != "" {
					// already reported; a panicked relation has no value to compare
					v = [numRels]bool{}
					break
				}
			}
			for r := 1; r < numRels; r++ {
				if v[r] != v[0] {
					agree = false
				}
			}
			if !agree {
				c.Inc("pairs_with_disagreement")
				key, ca, cb := disagreementKey(w, a, b, v)
				c.Violate(key,
					fmt.Sprintf("%s <: %s : %s", a.T.QualifiedString(), b.T.QualifiedString(), vecString(v)),
					map[string]any{"sub": gtDesc(a), "super": gtDesc(b), "relations": vecString(v),
						"reduced_sub": ca.QualifiedString(), "reduced_super": cb.QualifiedString(),
						"how": "sema.CheckSubTypeWithoutEquality / _gen on the sema types; interpreter.CheckSubTypeWithoutEquality_gen, IsSubType, IsSubTypeOfSemaType on interpreter.ConvertSemaToStaticType of them"})
			}
			if i > 3 && j > 3 && i != j && (v[relHand] || (i+j)%97 == 0) && c.WantSample() {
				c.Sample(map[string]any{"sub": a.T.QualifiedString(), "super": b.T.QualifiedString(), "relations": vecString(v)})
			}
		}
	}
	c.Count("pairs_evaluated", int64(n)*int64(n))
	c.Count("pairs_true", truePairs)
	c.Count("pairs_true_proper", properPairs)
	c.Count("kind_pairs_seen_sum", int64(len(kindPairs)))
	c.Max("kind_pairs_in_one_pool", int64(len(kindPairs)))

	// laws
	for r := 0; r < numRels; r++ {
		m := mats[r]
		for i, a := range pool {
			if !m.get(i, i) {
				c.Violate(fmt.Sprintf("not reflexive (%s): %s", relNames[r], Skeleton(a.T)),
					fmt.Sprintf("%s is not a subtype of itself according to %s", a.T.QualifiedString(), relNames[r]),
					map[string]any{"type": gtDesc(a), "relation": relNames[r]})
			}
			c.Inc("law_reflexive_checked")
			if neverIdx >= 0 && !m.get(neverIdx, i) {
				c.Violate(fmt.Sprintf("Never is not below (%s): %s", relNames[r], Skeleton(a.T)),
					fmt.Sprintf("Never <: %s is false according to %s", a.T.QualifiedString(), relNames[r]),
					map[string]any{"type": gtDesc(a), "relation": relNames[r]})
			}
			if anyIdx >= 0 && !m.get(i, anyIdx) {
				c.Violate(fmt.Sprintf("Any is not above (%s): %s", relNames[r], Skeleton(a.T)),
					fmt.Sprintf("%s <: Any is false according to %s", a.T.QualifiedString(), relNames[r]),
					map[string]any{"type": gtDesc(a), "relation": relNames[r]})
			}
			c.Inc("law_bottom_top_checked")
		}
	}
	if neverIdx < 0 || anyIdx < 0 {
		panic("pool without Never/Any")
	}

	// transitivity by closure over the boolean matrix: R[a,b] => row(b) ⊆ row(a)
	for _, tr := range []struct {
		rel   int
		label string
	}{{relHand, "checker"}, {relRuntime, "run-time"}} {
		m := mats[tr.rel]
		reported := 0
		for a := 0; a < n; a++ {
			ra := m.row(a)
			for b := 0; b < n; b++ {
				if a == b || !m.get(a, b) {
					continue
				}
				c.Inc("transitivity_premises_checked")
				rb := m.row(b)
				for wi := range rb {
					missing := rb[wi] &^ ra[wi]
					for missing != 0 {
						bit := bits.TrailingZeros64(missing)
						missing &^= 1 << uint(bit)
						ci := wi*64 + bit
						c.Inc("transitivity_failures_" + tr.label)
						if reported > 200 {
							continue
						}
						reported++
						A, B, C := pool[a], pool[b], pool[ci]
						key, ca, cc := transitivityKey(w, tr.rel, tr.label, A, B, C)
						c.Violate(key,
							fmt.Sprintf("%s relation (%s): %s <: %s and %s <: %s but not %s <: %s", tr.label, relNames[tr.rel],
								A.T.QualifiedString(), B.T.QualifiedString(), B.T.QualifiedString(), C.T.QualifiedString(), A.T.QualifiedString(), C.T.QualifiedString()),
							map[string]any{"a": gtDesc(A), "b": gtDesc(B), "c": gtDesc(C), "relation": relNames[tr.rel],
								"reduced_a": ca.QualifiedString(), "reduced_c": cc.QualifiedString()})
					}
				}
			}
		}
	}
}

func stripAddrs(s string) string {
	// panic texts can contain type names of one run; keep the frame and the first words only
	if i := strings.Index(s, " @ "); i >= 0 {
		msg, frame := s[:i], s[i+3:]
		words := strings.Fields(msg)
		if len(words) > 10 {
			words = words[:10]
		}
		return strings.Join(words, " ") + " @ " + frame
	}
	return s
}

func init() {
	floors := map[string]int64{
		"pairs_evaluated":                  200000,
		"pairs_true_proper":                4000,
		"transitivity_premises_checked":    8000,
		"law_reflexive_checked":            5000,
		"denotability_verified_by_checker": 1000,
		"types_with_never_component":       20,
		"function_types_with_purity_arity_or_type_parameters": 30,
		"max:kinds_in_one_pool":      20,
		"max:kind_pairs_in_one_pool": 250,
	}
	for _, k := range c08RequiredKinds {
		floors["kind:"+k] = 3
	}
	core.Register(&core.Prop{
		ID:    "C08",
		Level: "exploration",
		Rule: "each case builds one seeded pool of distinct types (quick 150, thorough 320) with the shared type generator over a checked prelude " +
			"(entitlements, mappings, interface DAGs, conforming structs/resources, attachments, enums, event, contract): leaves = every builtin type " +
			"(incl. abstract numeric supertypes, paths, Type, Never, AnyStruct/AnyResource, Any only as the bare top element) and all prelude nominal types; " +
			"then repeated derivations from pool members (optional, variable/constant array, dictionary with valid key, reference with unauthorized/conjunction/disjunction " +
			"authorization over 4 entitlements, capability, function with purity/arity/type parameters, InclusiveRange, intersection) so related shapes co-occur; " +
			"every candidate with a source form is confirmed denotable by the checker; all ordered pairs of the pool are evaluated with 5 relations; " +
			"triples are covered by closure over the full boolean matrix; distinct = ordered pair of distinct type IDs",
		Assumptions: []string{
			"no model of subtyping: the oracle is agreement of the five entry points plus the preorder laws on the observed matrices",
			"`Any` is not denotable (not in sema.AllBuiltinTypes), so it is in the pool only as the bare top element, never as a component",
			"`auth(mapping M) &T` reference types are rejected by the checker everywhere in the pinned tree, so no mapped reference type is in the pools",
			"bare interface types and bare attachment types are pool members (programs denote them in conformance lists, attachment base types, `v[A]`) and components only where the checker accepts that (`&A`)",
			"equality used by the relations: sema Type.Equal for the checker relations, StaticType.Equal for static-gen (as interpreter.IsSubType does)",
		},
		NumCases: c08Cases,
		Run:      c08Run,
		Floors:   floors,
		Finalize: func(a *core.Agg) {
			tot, tr := a.Counters["pairs_evaluated"], a.Counters["pairs_true"]
			if tot > 0 {
				pct := 100 * float64(tr) / float64(tot)
				a.Notes["true_pair_percentage"] = fmt.Sprintf("%.2f", pct)
				if pct < 2 || pct > 60 {
					a.Inconclusive = append(a.Inconclusive, fmt.Sprintf("fraction of true pairs %.2f%% outside [2%%, 60%%]", pct))
				}
			}
			var missing []string
			for _, k := range c08RequiredKinds {
				if a.Counters["kind:"+k] == 0 {
					missing = append(missing, k)
				}
			}
			sort.Strings(missing)
			if len(missing) > 0 {
				a.Inconclusive = append(a.Inconclusive, "type kinds never generated: "+strings.Join(missing, ","))
			}
		},
	})
}
