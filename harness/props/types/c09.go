package types

import (
	"fmt"
	"math/rand/v2"
	"regexp"
	"strings"
	"sync"

	"github.com/onflow/cadence"
	"github.com/onflow/cadence/ast"
	"github.com/onflow/cadence/sema"

	"verif/harness/core"
	"verif/harness/host"
)

// C09 — dynamic casts and run-time type tests agree.
//
// Events: results of generated scripts on 3 engines. For a value v (built by the script, run-time type D known from
// construction) and a target type T the script returns
//   [(v as? T) != nil, v.isInstance(Type<T>()), v.getType().isSubtype(of: Type<T>()), the cast result, v]
// and separate scripts evaluate `v as! T`.
// Oracle (statement):
//   * v neither optional nor storage reference: the three booleans are equal to each other and to
//     sema.IsSubType(D, T) (C08 guards that relation); a successful cast yields the original value
//     (equal exported value; same uuid for resources);
//   * optional v (non-nil, 1-2 layers): `as?` succeeds iff the unwrapped value's type is a subtype of T, unless T is
//     AnyStruct / AnyResource or an optional of them, in which case the optional itself is tested;
//   * `as!` fails (user-class force-cast error) iff `as?` yields nil.
// Calibration encoded in the expectation (DESIGN §C09): transferring a reference into an AnyStruct-typed (or any
// less-authorized) variable converts its run-time authorization, also inside containers.

type c09Value struct {
	Kind       string
	Setup      []string // statements executed before the value expression
	Expr       string
	Boxed      bool      // `let v: AnyStruct = expr` (AnyResource for resources); otherwise `let v = expr`
	Dyn        sema.Type // run-time type of v as declared in the script (after the conversion of the declaration)
	Referent   sema.Type // ephemeral references: run-time type of the referent
	OptLayers  int       // > 0: optional subject; Dyn is then the type of the unwrapped value
	Resource   bool
	Exportable bool
	Concrete   string // resources: source of the concrete composite type ("" for containers / optionals)
}

type c09Gen struct {
	w   *World
	rng *rand.Rand
	c   *core.Ctx
}

func (g *c09Gen) pick(xs ...string) string { return xs[g.rng.IntN(len(xs))] }

func (g *c09Gen) ents(idx []int) []*sema.EntitlementType {
	var out []*sema.EntitlementType
	for _, i := range idx {
		out = append(out, g.w.Ents[i])
	}
	return out
}

// randomAuth over E, F, G: index list + kind.
func (g *c09Gen) randomAuth() sema.Access {
	switch g.rng.IntN(5) {
	case 0:
		return sema.UnauthorizedAccess
	case 1, 2:
		k := 1 + g.rng.IntN(3)
		return sema.NewEntitlementSetAccess(g.ents(g.rng.Perm(3)[:k]), sema.Conjunction)
	default:
		k := 2 + g.rng.IntN(2)
		return sema.NewEntitlementSetAccess(g.ents(g.rng.Perm(3)[:k]), sema.Disjunction)
	}
}

type leafValue struct {
	Expr string
	Dyn  sema.Type
	Kind string
}

func (g *c09Gen) leaf() leafValue {
	w := g.w
	r := g.rng
	switch x := r.IntN(100); {
	case x < 30:
		// numbers of every concrete kind
		_, nums, _ := builtinLeaves()
		var concrete []sema.Type
		for _, n := range nums {
			if !isAbstractNumber(n) {
				concrete = append(concrete, n)
			}
		}
		t := concrete[r.IntN(len(concrete))]
		lit := fmt.Sprint(1 + r.IntN(100))
		if sema.IsSubType(t, sema.FixedPointType) {
			lit += ".5"
		}
		return leafValue{"(" + lit + " as " + t.String() + ")", t, "number"}
	case x < 38:
		return leafValue{`"hi"`, sema.StringType, "string"}
	case x < 42:
		return leafValue{`("x" as Character)`, sema.CharacterType, "character"}
	case x < 46:
		return leafValue{g.pick("true", "false"), sema.BoolType, "bool"}
	case x < 50:
		return leafValue{"(0x1 as Address)", sema.TheAddressType, "address"}
	case x < 56:
		if r.IntN(2) == 0 {
			return leafValue{"/storage/a", sema.StoragePathType, "path"}
		}
		return leafValue{"/public/a", sema.PublicPathType, "path"}
	case x < 60:
		return leafValue{"Type<" + g.pick("Int", "String", "S0", "&S1", "[Int]") + ">()", sema.MetaType, "type-value"}
	case x < 66:
		e := w.Enums[r.IntN(len(w.Enums))]
		cs := "a"
		if e.Identifier == "EN2" {
			cs = "x"
		}
		return leafValue{e.Identifier + "." + cs, e, "enum"}
	case x < 88:
		s := w.Structs[r.IntN(len(w.Structs))]
		return leafValue{s.Identifier + "()", s, "struct"}
	case x < 92:
		bt := g.pick("&Int", "&S0", "auth(E) &S3", "&{SI0}")
		var borrow sema.Type
		switch bt {
		case "&Int":
			borrow = sema.NewReferenceType(nil, sema.UnauthorizedAccess, sema.IntType)
		case "&S0":
			borrow = sema.NewReferenceType(nil, sema.UnauthorizedAccess, w.Named("S0"))
		case "auth(E) &S3":
			borrow = sema.NewReferenceType(nil, sema.NewEntitlementSetAccess(g.ents([]int{0}), sema.Conjunction), w.Named("S3"))
		default:
			borrow = sema.NewReferenceType(nil, sema.UnauthorizedAccess,
				sema.NewIntersectionType(nil, nil, []*sema.InterfaceType{w.Named("SI0").(*sema.InterfaceType)}))
		}
		return leafValue{"getAccount(0x1).capabilities.get<" + bt + ">(/public/x)", sema.NewCapabilityType(nil, borrow), "capability"}
	case x < 96:
		if r.IntN(2) == 0 {
			return leafValue{"InclusiveRange(1, 5)", sema.NewInclusiveRangeType(nil, sema.IntType), "inclusive-range"}
		}
		return leafValue{"InclusiveRange(1 as UInt8, 5 as UInt8)", sema.NewInclusiveRangeType(nil, sema.UInt8Type), "inclusive-range"}
	default:
		ft := &sema.FunctionType{
			Parameters:           []sema.Parameter{{Identifier: "x", TypeAnnotation: sema.NewTypeAnnotation(sema.IntType)}},
			ReturnTypeAnnotation: sema.NewTypeAnnotation(sema.IntType),
		}
		if r.IntN(2) == 0 {
			ft.Purity = sema.FunctionPurityView
			return leafValue{"view fun (x: Int): Int { return x }", ft, "function"}
		}
		return leafValue{"fun (x: Int): Int { return x }", ft, "function"}
	}
}

// supertypesOf lists denotable supertypes of a struct-kinded run-time type (used as declared element / borrow types,
// and as near-miss targets). Candidates are fixed; the relation is only used to keep generated programs well typed
// (the checker re-validates every script).
func (g *c09Gen) supertypesOf(d sema.Type) []sema.Type {
	w := g.w
	cands := []sema.Type{d, sema.AnyStructType, sema.HashableStructType,
		sema.NumberType, sema.SignedNumberType, sema.IntegerType, sema.SignedIntegerType, sema.FixedSizeUnsignedIntegerType,
		sema.FixedPointType, sema.SignedFixedPointType, sema.PathType, sema.CapabilityPathType,
		sema.NewCapabilityType(nil, nil)}
	for _, i := range w.StructIfs {
		cands = append(cands, sema.NewIntersectionType(nil, nil, []*sema.InterfaceType{i}))
	}
	cands = append(cands, sema.NewIntersectionType(nil, nil, []*sema.InterfaceType{w.StructIfs[1], w.StructIfs[2]}))
	var out []sema.Type
	for _, c := range cands {
		if sema.IsSubType(d, c) {
			out = append(out, c)
		}
	}
	return out
}

func isExportableLeaf(kind string) bool {
	switch kind {
	case "function":
		return false
	}
	return true
}

// structValue builds a struct-kinded non-reference value expression of the given nesting depth.
func (g *c09Gen) structValue(depth int) (expr string, dyn sema.Type, kind string, exportable bool) {
	r := g.rng
	if depth <= 0 || r.IntN(3) == 0 {
		l := g.leaf()
		return l.Expr, l.Dyn, l.Kind, isExportableLeaf(l.Kind)
	}
	w := g.w
	e, d, _, ex := g.structValue(depth - 1)
	sups := g.supertypesOf(d)
	et := sups[r.IntN(len(sups))]
	if r.IntN(4) == 0 {
		et = sema.NewOptionalType(nil, et)
	}
	es, ok := w.SrcOf(et)
	if !ok {
		et = d
		es, _ = w.SrcOf(d)
	}
	switch r.IntN(3) {
	case 0:
		return "([" + e + ", " + e + "] as [" + es + "])", sema.NewVariableSizedType(nil, et), "array-variable", ex
	case 1:
		return "([" + e + ", " + e + "] as [" + es + "; 2])", sema.NewConstantSizedType(nil, et, 2), "array-constant", ex
	default:
		keys := []leafValue{
			{`"k"`, sema.StringType, ""}, {"(1 as Int)", sema.IntType, ""}, {"(2 as UInt8)", sema.UInt8Type, ""},
			{"true", sema.BoolType, ""}, {"/public/k", sema.PublicPathType, ""}, {"EN.a", w.Named("EN"), ""},
		}
		k := keys[r.IntN(len(keys))]
		kt := k.Dyn
		if r.IntN(3) == 0 {
			kt = sema.HashableStructType
		}
		ks, _ := w.SrcOf(kt)
		return "({" + k.Expr + ": " + e + "} as {" + ks + ": " + es + "})", sema.NewDictionaryType(nil, kt, et), "dictionary", ex
	}
}

// stripAuthorizations: the run-time type after a transfer into a position whose static type carries no authorization
// (AnyStruct): every reference authorization in the type becomes unauthorized.
func stripAuthorizations(t sema.Type) sema.Type {
	switch t := t.(type) {
	case *sema.ReferenceType:
		return sema.NewReferenceType(nil, sema.UnauthorizedAccess, t.Type)
	case *sema.OptionalType:
		return sema.NewOptionalType(nil, stripAuthorizations(t.Type))
	case *sema.VariableSizedType:
		return sema.NewVariableSizedType(nil, stripAuthorizations(t.Type))
	case *sema.ConstantSizedType:
		return sema.NewConstantSizedType(nil, stripAuthorizations(t.Type), t.Size)
	case *sema.DictionaryType:
		return sema.NewDictionaryType(nil, stripAuthorizations(t.KeyType), stripAuthorizations(t.ValueType))
	}
	return t
}

func (g *c09Gen) value() c09Value {
	r := g.rng
	w := g.w
	switch x := r.IntN(100); {
	case x < 42:
		// plain struct-kinded value, boxed
		e, d, k, ex := g.structValue(r.IntN(3))
		return c09Value{Kind: k, Expr: e, Boxed: true, Dyn: d, Exportable: ex}
	case x < 54:
		// optional subject: 1-2 layers around a non-optional value
		e, d, k, ex := g.structValue(r.IntN(2))
		layers := 1 + r.IntN(2)
		ds, ok := w.SrcOf(d)
		if !ok {
			return c09Value{Kind: k, Expr: e, Boxed: true, Dyn: d, Exportable: ex}
		}
		if _, isFn := d.(*sema.FunctionType); isFn {
			ds = "(" + ds + ")"
		}
		v := c09Value{Kind: "optional-of-" + k, Expr: "(" + e + " as " + ds + strings.Repeat("?", layers) + ")", Dyn: d, OptLayers: layers, Exportable: ex}
		v.Boxed = r.IntN(2) == 0
		return v
	case x < 80:
		return g.referenceValue()
	default:
		return g.resourceValue()
	}
}

func (g *c09Gen) referenceValue() c09Value {
	r := g.rng
	w := g.w
	var setup []string
	var refDyn sema.Type
	var kind string
	resourceReferent := false
	switch r.IntN(10) {
	case 0, 1, 2, 3, 4:
		s := w.Structs[r.IntN(len(w.Structs))]
		setup = append(setup, "let target = "+s.Identifier+"()")
		refDyn, kind = s, "reference-to-struct"
	case 5, 6:
		rs := w.Resources[r.IntN(len(w.Resources))]
		setup = append(setup, "let target <- create "+rs.Identifier+"()")
		refDyn, kind, resourceReferent = rs, "reference-to-resource", true
	case 7:
		setup = append(setup, "let target = [1, 2] as [Int]")
		refDyn, kind = sema.NewVariableSizedType(nil, sema.IntType), "reference-to-array"
	case 8:
		setup = append(setup, "let target = 5 as Int16")
		refDyn, kind = sema.Int16Type, "reference-to-number"
	default:
		// builtin: unauthorized reference to an account
		v := c09Value{Kind: "reference-to-account", Expr: "getAccount(0x1)", Boxed: r.IntN(2) == 0,
			Dyn: sema.NewReferenceType(nil, sema.UnauthorizedAccess, sema.AccountType), Referent: sema.AccountType}
		return v
	}
	// borrow type: a supertype of the referent's type
	var borrows []sema.Type
	if resourceReferent {
		borrows = []sema.Type{refDyn, sema.AnyResourceType}
		for _, i := range w.ResIfs {
			it := sema.NewIntersectionType(nil, nil, []*sema.InterfaceType{i})
			if sema.IsSubType(refDyn, it) {
				borrows = append(borrows, it)
			}
		}
	} else {
		borrows = g.supertypesOf(refDyn)
	}
	borrow := borrows[r.IntN(len(borrows))]
	if _, ok := w.SrcOf(borrow); !ok {
		borrow = refDyn
	}
	auth := g.randomAuth()
	staticRef := sema.NewReferenceType(nil, auth, borrow)
	ss, _ := w.SrcOf(staticRef)
	setup = append(setup, "let ref = &target as "+ss)
	dynRef := sema.NewReferenceType(nil, auth, refDyn)
	v := c09Value{Kind: kind, Setup: setup, Referent: refDyn, Exportable: !resourceReferent}
	if resourceReferent {
		v.Setup = append(v.Setup, "CLEANUP destroy target")
	}
	switch r.IntN(6) {
	case 0, 1:
		// typed: run-time authorization kept
		v.Expr, v.Boxed, v.Dyn = "ref", false, dynRef
	case 2:
		// boxed in AnyStruct: authorization dropped
		v.Expr, v.Boxed, v.Dyn = "ref", true, stripAuthorizations(dynRef)
	case 3:
		// transferred to a less authorized typed variable first: authorization converted to that type's
		super := sema.NewReferenceType(nil, sema.UnauthorizedAccess, borrow)
		sup, _ := w.SrcOf(super)
		v.Setup = append(v.Setup, "let weaker: "+sup+" = ref")
		v.Expr, v.Boxed, v.Dyn = "weaker", false, sema.NewReferenceType(nil, sema.UnauthorizedAccess, refDyn)
		v.Kind += "-weakened"
	case 4:
		// array of references, typed
		v.Expr, v.Boxed, v.Dyn = "[ref, ref]", false, sema.NewVariableSizedType(nil, staticRef)
		v.Kind = "array-of-references"
		v.Referent = nil
	default:
		// array of references, boxed: element authorizations dropped
		v.Expr, v.Boxed, v.Dyn = "[ref, ref]", true, sema.NewVariableSizedType(nil, stripAuthorizations(staticRef))
		v.Kind = "array-of-references-boxed"
		v.Referent = nil
	}
	return v
}

func (g *c09Gen) resourceValue() c09Value {
	r := g.rng
	w := g.w
	rs := w.Resources[r.IntN(len(w.Resources))]
	create := "create " + rs.Identifier + "()"
	switch r.IntN(6) {
	case 0, 1, 2:
		return c09Value{Kind: "resource", Expr: create, Boxed: true, Dyn: rs, Resource: true, Concrete: rs.Identifier}
	case 3:
		layers := 1 + r.IntN(2)
		return c09Value{Kind: "optional-of-resource", Setup: []string{"let opt: @" + rs.Identifier + strings.Repeat("?", layers) + " <- " + create},
			Expr: "opt", Boxed: true, Dyn: rs, OptLayers: layers, Resource: true}
	default:
		// container of resources with a declared element type
		ets := []sema.Type{rs, sema.AnyResourceType}
		for _, i := range w.ResIfs {
			it := sema.NewIntersectionType(nil, nil, []*sema.InterfaceType{i})
			if sema.IsSubType(rs, it) {
				ets = append(ets, it)
			}
		}
		et := ets[r.IntN(len(ets))]
		es, _ := w.SrcOf(et)
		if r.IntN(2) == 0 {
			return c09Value{Kind: "array-of-resources", Setup: []string{"let arr: @[" + es + "] <- [<- " + create + "]"},
				Expr: "arr", Boxed: true, Dyn: sema.NewVariableSizedType(nil, et), Resource: true}
		}
		return c09Value{Kind: "dictionary-of-resources", Setup: []string{"let dict: @{String: " + es + "} <- {\"k\": <- " + create + "}"},
			Expr: "dict", Boxed: true, Dyn: sema.NewDictionaryType(nil, sema.StringType, et), Resource: true}
	}
}

// ---------------------------------------------------------------- targets

var (
	c09PoolOnce sync.Once
	c09Pool     []GT
)

// c09TargetPool: one generator pool per process, from a fixed seed (identical in every worker).
func c09TargetPool(seed int64) []GT {
	c09PoolOnce.Do(func() {
		w := GetWorld(false)
		g := NewGen(w, rand.New(rand.NewPCG(uint64(seed)*0x9E3779B97F4A7C15+11, 0xC09)), 2)
		pool, _ := g.Pool(260)
		for _, p := range pool {
			if p.Src == "" || p.T == sema.AnyType || p.T == sema.NeverType {
				continue
			}
			if _, isInterface := p.T.(*sema.InterfaceType); isInterface {
				continue
			}
			c09Pool = append(c09Pool, p)
		}
	})
	return c09Pool
}

// nearTypes: the type itself, supertypes, and near misses (sibling types, changed sizes / authorizations / optionality).
func (g *c09Gen) nearTypes(d sema.Type, depth int) []sema.Type {
	w := g.w
	r := g.rng
	out := []sema.Type{d, sema.NewOptionalType(nil, d)}
	resource := d.IsResourceType()
	if resource {
		out = append(out, sema.AnyResourceType, sema.NewOptionalType(nil, sema.AnyResourceType))
	} else {
		out = append(out, sema.AnyStructType, sema.NewOptionalType(nil, sema.AnyStructType))
	}
	switch t := d.(type) {
	case *sema.CompositeType:
		if t.Location != nil {
			ifs, comps := w.StructIfs, w.Structs
			if resource {
				ifs, comps = w.ResIfs, w.Resources
			}
			for _, i := range ifs {
				out = append(out, sema.NewIntersectionType(nil, nil, []*sema.InterfaceType{i}))
			}
			out = append(out, sema.NewIntersectionType(nil, nil, []*sema.InterfaceType{ifs[1], ifs[2]}),
				sema.NewIntersectionType(nil, nil, []*sema.InterfaceType{ifs[3], ifs[4]}))
			for _, c := range comps {
				out = append(out, c)
			}
			if !resource {
				out = append(out, sema.HashableStructType, sema.AnyStructAttachmentType, w.StructAtts[0])
			} else {
				out = append(out, sema.AnyResourceAttachmentType, w.ResAtts[0])
			}
		}
	case *sema.VariableSizedType:
		if depth > 0 {
			for _, e := range g.nearTypes(t.Type, depth-1) {
				out = append(out, sema.NewVariableSizedType(nil, e))
			}
		}
		out = append(out, sema.NewConstantSizedType(nil, t.Type, 2))
	case *sema.ConstantSizedType:
		if depth > 0 {
			for _, e := range g.nearTypes(t.Type, depth-1) {
				out = append(out, sema.NewConstantSizedType(nil, e, t.Size))
			}
		}
		out = append(out, sema.NewConstantSizedType(nil, t.Type, t.Size+1), sema.NewVariableSizedType(nil, t.Type))
	case *sema.DictionaryType:
		if depth > 0 {
			for _, e := range g.nearTypes(t.ValueType, depth-1) {
				out = append(out, sema.NewDictionaryType(nil, t.KeyType, e))
			}
		}
		out = append(out, sema.NewDictionaryType(nil, sema.HashableStructType, t.ValueType),
			sema.NewDictionaryType(nil, sema.StringType, t.ValueType), sema.NewDictionaryType(nil, sema.IntType, t.ValueType))
	case *sema.ReferenceType:
		var refd []sema.Type
		if depth > 0 {
			refd = g.nearTypes(t.Type, depth-1)
		} else {
			refd = []sema.Type{t.Type}
		}
		for _, rt := range refd {
			if _, isOpt := rt.(*sema.OptionalType); isOpt {
				continue
			}
			out = append(out, sema.NewReferenceType(nil, sema.UnauthorizedAccess, rt))
			for k := 0; k < 2; k++ {
				out = append(out, sema.NewReferenceType(nil, g.randomAuth(), rt))
			}
			out = append(out, sema.NewReferenceType(nil, t.Authorization, rt))
		}
	case *sema.CapabilityType:
		out = append(out, sema.NewCapabilityType(nil, nil),
			sema.NewCapabilityType(nil, sema.NewReferenceType(nil, sema.UnauthorizedAccess, sema.StringType)))
		if t.BorrowType != nil && depth > 0 {
			for _, b := range g.nearTypes(t.BorrowType, 0) {
				if _, isRef := b.(*sema.ReferenceType); isRef {
					out = append(out, sema.NewCapabilityType(nil, b))
				}
			}
		}
	case *sema.InclusiveRangeType:
		out = append(out, sema.NewInclusiveRangeType(nil, sema.IntType), sema.NewInclusiveRangeType(nil, sema.UInt8Type),
			sema.NewInclusiveRangeType(nil, sema.Int8Type))
	case *sema.FunctionType:
		mk := func(purity sema.FunctionPurity, p, ret sema.Type) sema.Type {
			return &sema.FunctionType{Purity: purity,
				Parameters:           []sema.Parameter{{Identifier: "x", TypeAnnotation: sema.NewTypeAnnotation(p)}},
				ReturnTypeAnnotation: sema.NewTypeAnnotation(ret)}
		}
		out = append(out, mk(sema.FunctionPurityImpure, sema.IntType, sema.IntType), mk(sema.FunctionPurityView, sema.IntType, sema.IntType),
			mk(sema.FunctionPurityImpure, sema.Int8Type, sema.IntType), mk(sema.FunctionPurityImpure, sema.IntType, sema.IntegerType),
			mk(sema.FunctionPurityImpure, sema.IntegerType, sema.IntType), mk(sema.FunctionPurityImpure, sema.IntType, sema.AnyStructType))
	default:
		if !resource {
			out = append(out, g.supertypesOf(d)...)
			_, nums, other := builtinLeaves()
			out = append(out, nums[r.IntN(len(nums))], nums[r.IntN(len(nums))], other[r.IntN(len(other))])
		}
	}
	return out
}

func (g *c09Gen) targets(v c09Value, k int, pool []GT) []sema.Type {
	r := g.rng
	near := g.nearTypes(v.Dyn, 1)
	if v.Referent != nil {
		// near misses of the referent type as well (the divergence class answers for the referent)
		near = append(near, g.nearTypes(v.Referent, 0)...)
	}
	if v.OptLayers > 0 {
		near = append(near, sema.NewOptionalType(nil, sema.NewOptionalType(nil, v.Dyn)))
	}
	r.Shuffle(len(near), func(i, j int) { near[i], near[j] = near[j], near[i] })
	seen := map[sema.TypeID]bool{}
	var out []sema.Type
	add := func(t sema.Type) {
		if t == nil || seen[t.ID()] || t.IsResourceType() != v.Resource {
			return
		}
		if _, ok := g.w.SrcOf(t); !ok {
			return
		}
		seen[t.ID()] = true
		out = append(out, t)
	}
	add(v.Dyn)
	for _, t := range near {
		if len(out) >= k-2 {
			break
		}
		add(t)
	}
	for tries := 0; len(out) < k && tries < 50; tries++ {
		add(pool[r.IntN(len(pool))].T)
	}
	return out
}

// ---------------------------------------------------------------- scripts

func (v c09Value) setupLines() (pre []string, cleanup []string) {
	for _, s := range v.Setup {
		if strings.HasPrefix(s, "CLEANUP ") {
			cleanup = append(cleanup, strings.TrimPrefix(s, "CLEANUP "))
		} else {
			pre = append(pre, s)
		}
	}
	return
}

func (v c09Value) decl(name string) string {
	switch {
	case v.Resource:
		return "let " + name + ": @AnyResource <- " + v.Expr
	case v.Boxed:
		return "let " + name + ": AnyStruct = " + v.Expr
	}
	return "let " + name + " = " + v.Expr
}

func targetAnnotation(w *World, t sema.Type) string {
	s, _ := w.annotationSrc(t)
	return s
}

// scriptA: observations for every target. Returns the script and the line number of each target's first statement.
func c09ScriptA(w *World, v c09Value, targets []sema.Type) (string, []int) {
	var b strings.Builder
	b.WriteString("access(all) fun main(): [AnyStruct] {\n    let res: [AnyStruct] = []\n")
	lines := make([]int, len(targets))
	line := func() int { return strings.Count(b.String(), "\n") + 1 }
	pre, cleanup := v.setupLines()
	if !v.Resource {
		for _, s := range pre {
			b.WriteString("    " + s + "\n")
		}
		b.WriteString("    " + v.decl("v") + "\n")
		for i, t := range targets {
			ts := targetAnnotation(w, t)
			lines[i] = line()
			fmt.Fprintf(&b, "    res.append((v as? %s) != nil); res.append(v.isInstance(Type<%s>())); res.append(v.getType().isSubtype(of: Type<%s>()))", ts, ts, ts)
			if v.Exportable {
				fmt.Fprintf(&b, "; res.append(v as? %s)", ts)
			}
			b.WriteString("\n")
		}
		if v.Exportable {
			b.WriteString("    res.append(v)\n")
		}
		for _, s := range cleanup {
			b.WriteString("    " + s + "\n")
		}
	} else {
		// a fresh resource per target: `as?` moves it
		for i, t := range targets {
			ts := targetAnnotation(w, t)
			lines[i] = line()
			b.WriteString("    if true {\n")
			for _, s := range pre {
				b.WriteString("        " + s + "\n")
			}
			if v.Concrete != "" {
				fmt.Fprintf(&b, "        let typed <- %s\n        let id = typed.uuid\n        let v: @AnyResource <- typed\n", v.Expr)
			} else {
				b.WriteString("        " + v.decl("v") + "\n")
			}
			fmt.Fprintf(&b, "        let inst = v.isInstance(Type<%s>())\n        let sub = v.getType().isSubtype(of: Type<%s>())\n", ts, ts)
			fmt.Fprintf(&b, "        if let casted <- v as? %s {\n            res.append(true); res.append(inst); res.append(sub)\n", ts)
			if v.Concrete != "" {
				fmt.Fprintf(&b, "            let back <- casted as! @%s\n            res.append(back.uuid == id)\n            destroy back\n", v.Concrete)
			} else {
				b.WriteString("            res.append(true)\n            destroy casted\n")
			}
			b.WriteString("        } else {\n            res.append(false); res.append(inst); res.append(sub); res.append(false)\n            destroy v\n        }\n    }\n")
		}
	}
	b.WriteString("    return res\n}\n")
	return withTrimmedPrelude(b.String(), lines)
}

func withTrimmedPrelude(body string, lines []int) (string, []int) {
	prelude := TrimmedScriptPrelude(body)
	shift := strings.Count(prelude, "\n")
	for i := range lines {
		lines[i] += shift
	}
	return prelude + body, lines
}

// scriptForce: `as!` for the listed targets in sequence (fresh value per cast for resources).
func c09ScriptForce(w *World, v c09Value, targets []sema.Type) (string, []int) {
	var b strings.Builder
	b.WriteString("access(all) fun main(): Int {\n    var done = 0\n")
	lines := make([]int, len(targets))
	line := func() int { return strings.Count(b.String(), "\n") + 1 }
	pre, cleanup := v.setupLines()
	if !v.Resource {
		for _, s := range pre {
			b.WriteString("    " + s + "\n")
		}
		b.WriteString("    " + v.decl("v") + "\n")
		for i, t := range targets {
			lines[i] = line()
			fmt.Fprintf(&b, "    let forced%d = v as! %s; done = done + 1\n", i, targetAnnotation(w, t))
		}
		for _, s := range cleanup {
			b.WriteString("    " + s + "\n")
		}
	} else {
		for i, t := range targets {
			b.WriteString("    if true {\n")
			for _, s := range pre {
				b.WriteString("        " + s + "\n")
			}
			b.WriteString("        " + v.decl("v") + "\n")
			lines[i] = line()
			fmt.Fprintf(&b, "        let forced <- v as! %s; done = done + 1\n        destroy forced\n    }\n", targetAnnotation(w, t))
		}
	}
	b.WriteString("    return done\n}\n")
	return withTrimmedPrelude(b.String(), lines)
}

// ---------------------------------------------------------------- expectation

func isOptionalPreservingTarget(t sema.Type) bool {
	u := sema.UnwrapOptionalType(t)
	return u == sema.AnyStructType || u == sema.AnyResourceType
}

func wrapOptional(t sema.Type, layers int) sema.Type {
	for i := 0; i < layers; i++ {
		t = sema.NewOptionalType(nil, t)
	}
	return t
}

// expectedCast: does `v as? T` succeed according to the statement.
func expectedCast(v c09Value, t sema.Type) bool {
	if v.OptLayers > 0 && isOptionalPreservingTarget(t) {
		return sema.IsSubType(wrapOptional(v.Dyn, v.OptLayers), t)
	}
	return sema.IsSubType(v.Dyn, t)
}

const (
	c09ValuesPerCase  = 5
	c09TargetsPerCase = 8
	c09ForceFailures  = 2
)

func c09Run(c *core.Ctx) {
	w := GetWorld(false)
	pool := c09TargetPool(c.Seed)
	g := &c09Gen{w: w, rng: c.Rng, c: c}
	for i := 0; i < c09ValuesPerCase; i++ {
		c09OneValue(c, g, pool)
	}
}

func c09OneValue(c *core.Ctx, g *c09Gen, pool []GT) {
	w := g.w
	v := g.value()
	targets := g.targets(v, c09TargetsPerCase, pool)

	// the checker decides which (value, target) pairs are programs at all: the script is first run on the interpreter
	// engine (real runtime checker with the standard library); targets on lines with checker errors are dropped
	var scriptA string
	var firstOut host.Outcome
	validated := false
	for round := 0; round < 4 && !validated; round++ {
		script, lines := c09ScriptA(w, v, targets)
		h := host.New()
		out := h.RunScript(host.EngI, script, nil, nil)
		c.Eval(1)
		var cerr *sema.CheckerError
		if out.Err != nil {
			host.Walk(out.Err, func(e error) {
				if ce, ok := e.(*sema.CheckerError); ok && cerr == nil {
					cerr = ce
				}
			})
		}
		if cerr == nil {
			if out.Err != nil && host.HasKind(out.Err, "parser.") {
				c.Violate("harness: generated script does not parse", host.ErrText(out), map[string]any{"script": script})
				return
			}
			scriptA, firstOut, validated = script, out, true
			break
		}
		bad := map[int]bool{}
		for _, e := range cerr.Errors {
			if p, has := e.(ast.HasPosition); has {
				bad[p.StartPosition().Line] = true
			}
		}
		var kept []sema.Type
		attributed := false
		for i, t := range targets {
			end := 1 << 30
			if i+1 < len(lines) {
				end = lines[i+1]
			}
			isBad := false
			for l := range bad {
				if l >= lines[i] && l < end && (v.Resource || l == lines[i]) {
					isBad = true
				}
			}
			if isBad {
				attributed = true
				c.Inc("targets_rejected_by_checker")
				continue
			}
			kept = append(kept, t)
		}
		if !attributed {
			c.Inc("values_rejected_by_checker")
			c.Note("value_rejected_sample", core.Clip(v.Expr+" :: "+host.ErrText(out), 600))
			return
		}
		targets = kept
		if len(targets) == 0 {
			return
		}
	}
	if !validated {
		c.Inc("values_rejected_by_checker")
		return
	}
	c.Inc("values")
	c.Inc("value_kind:" + v.Kind)
	if v.Boxed {
		c.Inc("values_boxed")
	} else {
		c.Inc("values_typed")
	}
	c09CrossKind(c, w, v)
	per := 4
	if !v.Resource && !v.Exportable {
		per = 3
	}
	if c.WantSample() {
		c.Sample(map[string]any{"script": scriptA, "value_run_time_type": v.Dyn.QualifiedString()})
	}
	vdesc := map[string]any{"value": v.Expr, "setup": v.Setup, "boxed": v.Boxed, "run_time_type": v.Dyn.QualifiedString(), "optional_layers": v.OptLayers}
	isRefValue := v.Referent != nil

	for _, eng := range host.AllEngines {
		h := host.New()
		var out host.Outcome
		if eng == host.EngI {
			out = firstOut
		} else {
			out = h.RunScript(eng, scriptA, nil, nil)
			c.Eval(1)
		}
		c.Inc("script_runs_" + eng.String())
		if out.Err != nil || out.Escaped != nil {
			c.Violate(fmt.Sprintf("script[%s] failed (%s): value kind %s", eng, host.Classify(out), v.Kind),
				host.ErrText(out), map[string]any{"script": scriptA, "engine": eng.String(), "value": vdesc})
			continue
		}
		arr, ok := out.Value.(cadence.Array)
		want := len(targets) * per
		if !v.Resource && v.Exportable {
			want++
		}
		if !ok || len(arr.Values) != want {
			c.Violate(fmt.Sprintf("script[%s]: unexpected result shape", eng), fmt.Sprint(out.Value), map[string]any{"script": scriptA})
			continue
		}
		var original string
		if !v.Resource && v.Exportable {
			original = arr.Values[len(arr.Values)-1].String()
		}
		var succeeded, failed []sema.Type
		for i, t := range targets {
			b1 := bool(arr.Values[i*per].(cadence.Bool))
			b2 := bool(arr.Values[i*per+1].(cadence.Bool))
			b3 := bool(arr.Values[i*per+2].(cadence.Bool))
			exp := expectedCast(v, t)
			c.Inc("pairs")
			c.Distinct(v.Expr + "|" + strings.Join(v.Setup, ";") + "|" + fmt.Sprint(v.Boxed) + "|" + string(t.ID()))
			if b1 {
				succeeded = append(succeeded, t)
				c.Inc("cast_succeeded")
			} else {
				failed = append(failed, t)
				c.Inc("cast_failed")
			}
			tk := KindOf(t)
			witness := func() map[string]any {
				return map[string]any{"script": scriptA, "engine": eng.String(), "value": vdesc, "target": t.QualifiedString(),
					"observed": map[string]bool{"as?": b1, "isInstance": b2, "getType().isSubtype": b3}, "expected_cast": exp}
			}
			switch {
			case v.OptLayers > 0:
				// optional subject: only the unwrap rule for the cast is stated
				c.Inc("optional_subject_pairs")
				if isOptionalPreservingTarget(t) {
					c.Inc("optional_subject_preserving_target_pairs")
				}
				if b1 != exp {
					c.Violate(fmt.Sprintf("optional subject [%s]: as? %v, unwrap rule says %v: %s -> %s", eng, b1, exp, v.Kind, tk),
						fmt.Sprintf("engine %s: value %s (%d optional layers around %s) as? %s: observed %v, expected %v", eng, v.Expr, v.OptLayers, v.Dyn.QualifiedString(), t.QualifiedString(), b1, exp),
						witness())
				}
			default:
				c.Inc("equivalence_pairs")
				if b1 == exp && b2 == exp && b3 == exp {
					c.Inc("equivalence_held")
					if exp {
						c.Inc("equivalence_held_true")
					} else {
						c.Inc("equivalence_held_false")
					}
					break
				}
				// known divergence class: for an ephemeral reference isInstance / getType answer for the referent
				if isRefValue && b1 == exp {
					refExp := sema.IsSubType(v.Referent, t)
					if b2 == refExp && b3 == refExp {
						c.Inc("ephemeral_reference_divergence")
						c.Violate("ephemeral-reference: isInstance/getType answer for the referent",
							fmt.Sprintf("engine %s: v = %s (run-time type %s): (v as? %s) != nil is %v but v.isInstance(Type<%s>()) is %v and v.getType().isSubtype(of:) is %v — they answer for the referent type %s",
								eng, v.Expr, v.Dyn.QualifiedString(), t.QualifiedString(), b1, t.QualifiedString(), b2, b3, v.Referent.QualifiedString()),
							witness())
						break
					}
				}
				var wrong []string
				if b1 != exp {
					wrong = append(wrong, "as?")
				}
				if b2 != exp {
					wrong = append(wrong, "isInstance")
				}
				if b3 != exp {
					wrong = append(wrong, "getType.isSubtype")
				}
				c.Violate(fmt.Sprintf("disagreement [%s]: %s differ from the subtype expectation %v: value %s, target %s", eng, strings.Join(wrong, "+"), exp, v.Kind, tk),
					fmt.Sprintf("engine %s: v = %s (run-time type %s), target %s: as? %v, isInstance %v, getType().isSubtype %v, expected %v",
						eng, v.Expr, v.Dyn.QualifiedString(), t.QualifiedString(), b1, b2, b3, exp),
					witness())
			}
			// a successful cast yields the original value
			if b1 {
				c.Inc("identity_checked")
				same := true
				var got string
				if v.Resource {
					same = bool(arr.Values[i*per+3].(cadence.Bool))
				} else if v.Exportable {
					// capabilities: the cast converts the borrow type to the target's (like reference authorizations);
					// identity of a capability is its address and id
					got = capabilityBorrowRe.ReplaceAllString(arr.Values[i*per+3].String(), "Capability(address")
					orig := capabilityBorrowRe.ReplaceAllString(original, "Capability(address")
					// (for an optional subject the result is the unwrapped value or the optional itself: exported optionals print as their content)
					same = got == orig
				}
				if !same {
					c.Violate(fmt.Sprintf("identity [%s]: successful cast does not yield the original value: %s -> %s", eng, v.Kind, tk),
						fmt.Sprintf("engine %s: %s as? %s yields %s, original %s", eng, v.Expr, t.QualifiedString(), got, original), witness())
				}
			}
		}

		// as! : must succeed exactly for the targets for which as? succeeded on this engine
		if len(succeeded) > 0 {
			fs, lines := c09ScriptForce(w, v, succeeded)
			fo := h.RunScript(eng, fs, nil, nil)
			c.Eval(1)
			c.Inc("force_cast_success_scripts")
			if fo.Err != nil || fo.Escaped != nil {
				which := "?"
				if le, ok := firstErrorLine(fo.Err); ok {
					for i, l := range lines {
						if l == le {
							which = succeeded[i].QualifiedString()
						}
					}
				}
				c.Violate(fmt.Sprintf("as! [%s] fails although as? succeeded: value %s (%s)", eng, v.Kind, host.Classify(fo)),
					fmt.Sprintf("engine %s: v = %s: `v as! %s` failed: %s", eng, v.Expr, which, host.ErrText(fo)),
					map[string]any{"script": fs, "engine": eng.String(), "value": vdesc})
			} else {
				c.Count("force_cast_succeeded", int64(len(succeeded)))
			}
		}
		for i, t := range failed {
			if i >= c09ForceFailures {
				break
			}
			fs, _ := c09ScriptForce(w, v, []sema.Type{t})
			fo := h.RunScript(eng, fs, nil, nil)
			c.Eval(1)
			c.Inc("force_cast_failure_scripts")
			cls := host.Classify(fo)
			isForceCastError := fo.Err != nil && host.HasKind(fo.Err, "ForceCastTypeMismatchError")
			switch {
			case fo.Err == nil && fo.Escaped == nil:
				c.Violate(fmt.Sprintf("as! [%s] succeeds although as? yields nil: value %s, target %s", eng, v.Kind, KindOf(t)),
					fmt.Sprintf("engine %s: v = %s: `v as! %s` succeeded but `v as? %s` is nil", eng, v.Expr, t.QualifiedString(), t.QualifiedString()),
					map[string]any{"script": fs, "engine": eng.String(), "value": vdesc})
			case cls != host.ClassUser || !isForceCastError:
				c.Violate(fmt.Sprintf("as! [%s] fails with %s %v instead of a user-class force-cast error", eng, cls, host.ErrKinds(fo.Err)),
					host.ErrText(fo), map[string]any{"script": fs, "engine": eng.String(), "value": vdesc})
			default:
				c.Inc("force_cast_failed_as_expected")
			}
		}
	}
}

var capabilityBorrowRe = regexp.MustCompile(`Capability<.*?>\(address`)

func firstErrorLine(err error) (int, bool) {
	line, found := 0, false
	host.Walk(err, func(e error) {
		if found {
			return
		}
		if p, ok := e.(ast.HasPosition); ok {
			if l := p.StartPosition().Line; l > 0 {
				line, found = l, true
			}
		}
	})
	return line, found
}

func c09Cases(tier string) int {
	if tier == "thorough" {
		return 6000
	}
	return 200
}

func init() {
	core.Register(&core.Prop{
		ID:    "C09",
		Level: "exploration",
		Rule: "each case: 5 seeded values x up to 8 target types. Values are written as Cadence expressions whose run-time type is known from construction: every concrete numeric type, " +
			"String/Character/Bool/Address/paths/Type values, enums, structs with conformances, capabilities, inclusive ranges, function values, nested arrays (variable/constant) and dictionaries with declared " +
			"element types, optionals (1-2 layers, boxed or typed), ephemeral references (to structs, resources, arrays, numbers, an account) with random authorization and borrow type (typed, boxed into AnyStruct, weakened " +
			"by a typed variable, in arrays), resources (boxed into AnyResource, optional, in arrays/dictionaries). Targets: the run-time type, its supertypes, near misses (sibling composites/interfaces, changed sizes, " +
			"authorizations, optionality, element types) and random types from the shared type generator; the checker pre-validates every (value, target) program. 3 engines; `as!` in separate scripts; distinct = (value expression, target type ID)",
		Assumptions: []string{
			"expectation = sema.IsSubType(run-time type known from construction, target) (the relation itself is guarded by C08)",
			"transferring a reference into AnyStruct or a less-authorized typed variable converts its run-time authorization (calibrated, DESIGN §C09), also for references inside a boxed array",
			"nil subjects are not generated: `(nil as? T) != nil` cannot distinguish a failed cast from a successful cast to an optional type",
			"identity of non-resource values is compared on the exported values (capabilities by address and id: a cast converts the borrow type like it converts reference authorizations); resources by uuid after casting back to the concrete type",
		},
		NumCases: c09Cases,
		Run:      c09Run,
		Floors: map[string]int64{
			"values": 400, "pairs": 6000, "cast_succeeded": 1500, "cast_failed": 1500,
			"equivalence_held_true": 800, "equivalence_held_false": 800,
			"optional_subject_pairs": 300, "optional_subject_preserving_target_pairs": 40,
			"identity_checked": 1500, "force_cast_succeeded": 1500, "force_cast_failed_as_expected": 800,
			"script_runs_I": 400, "script_runs_V": 400, "script_runs_Vp": 400,
			"values_boxed": 300, "values_typed": 60,
			"value_kind:number": 15, "value_kind:struct": 15, "value_kind:array-variable": 10, "value_kind:array-constant": 10, "value_kind:dictionary": 10,
			"value_kind:reference-to-struct": 15, "value_kind:reference-to-resource": 5, "value_kind:resource": 20, "value_kind:capability": 2,
			"value_kind:enum": 2, "value_kind:path": 2, "value_kind:type-value": 2, "value_kind:function": 1, "value_kind:inclusive-range": 1,
			"value_kind:reference-to-account": 2, "value_kind:array-of-references": 5, "value_kind:array-of-references-boxed": 5,
			"value_kind:array-of-resources": 5, "value_kind:optional-of-resource": 5,
		},
	})
}
