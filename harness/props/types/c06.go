package types

import (
	"fmt"
	"math/bits"
	"sort"
	"strings"

	"github.com/onflow/cadence"
	"github.com/onflow/cadence/ast"
	"github.com/onflow/cadence/interpreter"
	"github.com/onflow/cadence/sema"

	"verif/harness/core"
	"verif/harness/host"
)

// C06 — entitlement authorization algebra is sound and upcasts never escalate.
//
// Oracle: a possible-worlds model written here (bit sets over a small universe of entitlements), independent of
// sema/access.go. An access denotes the upward-closed family of worlds (= sets of entitlements held) in which it
// is satisfied:   unauthorized / access(all): every world;  conjunction S: w ⊇ S;  disjunction S: w ∩ S ≠ ∅;
// access(self): no world (no reference authorization ever satisfies it).
//   entails(A, R)  :=  for all worlds w ⊆ U:  sat(A, w) ⇒ sat(R, w)
// * R.PermitsAccess(A) must equal entails(A, R)                       (statement, sentence 1)
// * O = IntersectAccess(A, B) must satisfy entails(A, O) ∧ entails(B, O)   (derived access grants no more than either source)
// * O = M.Image(A) must satisfy: for all w with sat(A, w): sat(O, image_M(w))   (mapping never grants more than the source justifies);
//   refusing with an error is sound
// * auth(A) &T <: auth(B) &T  ⇔  entails(A, B)
// * end to end (3 engines): for a reference with authorization A upcast to B, every authorization obtainable for a
//   mapped field through the upcast reference (probed with `as? auth(P) &Inner` for every set authorization P) is
//   also obtainable through the original reference, and everything obtainable through the original reference is
//   justified by A's worlds; every entitlement-guarded member the checker accepts through the upcast reference is
//   accepted through the original one.

type mAuth struct {
	Kind int  // mAll, mSelf, mConj, mDisj
	Set  uint // bit i = entitlement i of the universe
}

const (
	mAll = iota
	mSelf
	mConj
	mDisj
)

func (a mAuth) sat(w uint) bool {
	switch a.Kind {
	case mAll:
		return true
	case mSelf:
		return false
	case mConj:
		return w&a.Set == a.Set
	default:
		return w&a.Set != 0
	}
}

// entails: every world satisfying a satisfies r (universe of n entitlements).
func entails(n int, a, r mAuth) bool {
	for w := uint(0); w < 1<<n; w++ {
		if a.sat(w) && !r.sat(w) {
			return false
		}
	}
	return true
}

func (a mAuth) kindName() string {
	switch a.Kind {
	case mAll:
		return "unauthorized"
	case mSelf:
		return "self"
	case mConj:
		return fmt.Sprintf("conjunction/%d", bits.OnesCount(a.Set))
	default:
		return fmt.Sprintf("disjunction/%d", bits.OnesCount(a.Set))
	}
}

func (a mAuth) kindOnly() string {
	return strings.Split(a.kindName(), "/")[0]
}

func (a mAuth) render(names []string) string {
	switch a.Kind {
	case mAll:
		return "unauthorized"
	case mSelf:
		return "access(self)"
	}
	var ns []string
	for i := range names {
		if a.Set&(1<<i) != 0 {
			ns = append(ns, names[i])
		}
	}
	sep := ", "
	if a.Kind == mDisj {
		sep = " | "
	}
	return "auth(" + strings.Join(ns, sep) + ")"
}

func setRelation(a, b uint) string {
	switch {
	case a == b:
		return "equal"
	case a&b == 0:
		return "disjoint"
	case a&b == a:
		return "subset"
	case a&b == b:
		return "superset"
	}
	return "overlap"
}

func toAccess(ents []*sema.EntitlementType, a mAuth) sema.Access {
	switch a.Kind {
	case mAll:
		return sema.UnauthorizedAccess
	case mSelf:
		return sema.PrimitiveAccess(ast.AccessSelf)
	}
	var es []*sema.EntitlementType
	for i, e := range ents {
		if a.Set&(1<<i) != 0 {
			es = append(es, e)
		}
	}
	kind := sema.Conjunction
	if a.Kind == mDisj {
		kind = sema.Disjunction
	}
	return sema.NewEntitlementSetAccess(es, kind)
}

func fromAccess(ents []*sema.EntitlementType, acc sema.Access) (mAuth, error) {
	switch acc := acc.(type) {
	case sema.PrimitiveAccess:
		switch acc {
		case sema.UnauthorizedAccess:
			return mAuth{Kind: mAll}, nil
		case sema.PrimitiveAccess(ast.AccessSelf):
			return mAuth{Kind: mSelf}, nil
		}
		return mAuth{}, fmt.Errorf("unexpected primitive access %s", acc.String())
	case sema.EntitlementSetAccess:
		var set uint
		var err error
		acc.Entitlements.Foreach(func(e *sema.EntitlementType, _ struct{}) {
			found := false
			for i, x := range ents {
				if x == e {
					set |= 1 << i
					found = true
				}
			}
			if !found {
				err = fmt.Errorf("entitlement %s outside the universe", e.QualifiedString())
			}
		})
		k := mConj
		if acc.SetKind == sema.Disjunction {
			k = mDisj
		}
		return mAuth{Kind: k, Set: set}, err
	}
	return mAuth{}, fmt.Errorf("unexpected access %T", acc)
}

// allAuths: unauthorized, self (optional), every conjunction and every disjunction (singletons included) over n entitlements.
func allAuths(n int, withSelf bool, singletonDisj bool) []mAuth {
	out := []mAuth{{Kind: mAll}}
	if withSelf {
		out = append(out, mAuth{Kind: mSelf})
	}
	for s := uint(1); s < 1<<n; s++ {
		out = append(out, mAuth{Kind: mConj, Set: s})
	}
	for s := uint(1); s < 1<<n; s++ {
		if singletonDisj || bits.OnesCount(s) >= 2 {
			out = append(out, mAuth{Kind: mDisj, Set: s})
		}
	}
	return out
}

// mMap is the model of an entitlement mapping: rel[i] = bit set of outputs of input i.
type mMap struct {
	Rel      []uint
	Identity bool
}

func (m mMap) image(w uint) uint {
	var out uint
	for i, r := range m.Rel {
		if w&(1<<i) != 0 {
			out |= r
		}
	}
	if m.Identity {
		out |= w
	}
	return out
}

func (m mMap) render(names []string) string {
	var ps []string
	if m.Identity {
		ps = append(ps, "include Identity")
	}
	for i, r := range m.Rel {
		for j := range names {
			if r&(1<<j) != 0 {
				ps = append(ps, names[i]+" -> "+names[j])
			}
		}
	}
	return "{ " + strings.Join(ps, "  ") + " }"
}

// imageSound: O is justified by input A through m.
func imageSound(n int, m mMap, a, o mAuth) (bool, uint) {
	for w := uint(0); w < 1<<n; w++ {
		if a.sat(w) && !o.sat(m.image(w)) {
			return false, w
		}
	}
	return true, 0
}

// imageClass names the root-cause class of an unsound image.
func imageClass(n int, m mMap, a mAuth) string {
	if a.Kind == mDisj {
		empty, nonEmpty := 0, 0
		for i := 0; i < n; i++ {
			if a.Set&(1<<i) != 0 {
				if m.image(1<<i) == 0 {
					empty++
				} else {
					nonEmpty++
				}
			}
		}
		if empty > 0 && nonEmpty > 0 {
			return "disjunction input with a member whose image is empty: that member is dropped, the result claims the other members' images"
		}
	}
	return "input " + a.kindOnly()
}

var entNames4 = []string{"E", "F", "G", "H"}

func worldNames(set uint, names []string) string {
	var ns []string
	for i := range names {
		if set&(1<<i) != 0 {
			ns = append(ns, names[i])
		}
	}
	return "{" + strings.Join(ns, ",") + "}"
}

// ---------------------------------------------------------------- part 1: algebra, exhaustive

func c06Permits(c *core.Ctx) {
	w := GetWorld(true)
	n := 4
	for i, e := range w.Ents {
		if e.Identifier != entNames4[i] {
			panic("prelude entitlement order changed")
		}
	}
	auths := allAuths(n, true, true)
	for _, r := range auths {
		for _, a := range auths {
			R, A := toAccess(w.Ents, r), toAccess(w.Ents, a)
			got := R.PermitsAccess(A)
			want := entails(n, a, r)
			c.Eval(1)
			c.Inc("permits_pairs")
			if got {
				c.Inc("permits_true")
			} else {
				c.Inc("permits_false")
			}
			c.Distinct("permits|" + r.render(entNames4) + "|" + a.render(entNames4))
			if got != want {
				c.Violate(fmt.Sprintf("PermitsAccess: requirement %s, authorization %s, sets %s: got %v, model %v",
					r.kindOnly(), a.kindOnly(), setRelation(r.Set, a.Set), got, want),
					fmt.Sprintf("(%s).PermitsAccess(%s) = %v, possible-worlds model says %v", r.render(entNames4), a.render(entNames4), got, want),
					map[string]any{"requirement": r.render(entNames4), "authorization": a.render(entNames4), "observed": got, "model": want})
			}
			if c.WantSample() && r.Kind == mDisj && a.Kind == mConj && got {
				c.Sample(map[string]any{"op": "PermitsAccess", "requirement": r.render(entNames4), "authorization": a.render(entNames4), "result": got})
			}

			// intersection
			O := sema.IntersectAccess(A, R)
			c.Eval(1)
			c.Inc("intersect_pairs")
			o, err := fromAccess(w.Ents, O)
			if err != nil {
				c.Violate("IntersectAccess: result not representable in the universe", err.Error(),
					map[string]any{"a": a.render(entNames4), "b": r.render(entNames4), "result": O.String()})
				continue
			}
			if o.Kind != mAll {
				c.Inc("intersect_nontrivial_results")
			}
			for idx, src := range []mAuth{a, r} {
				if !entails(n, src, o) {
					which := []string{"first", "second"}[idx]
					c.Violate(fmt.Sprintf("IntersectAccess(%s, %s) = %s grants more than its %s operand", a.kindOnly(), r.kindOnly(), o.kindOnly(), which),
						fmt.Sprintf("IntersectAccess(%s, %s) = %s is not entailed by %s", a.render(entNames4), r.render(entNames4), o.render(entNames4), src.render(entNames4)),
						map[string]any{"a": a.render(entNames4), "b": r.render(entNames4), "result": o.render(entNames4)})
				}
			}
		}
	}

	// part 2: reference subtyping vs the model (denotable authorizations: disjunctions of >= 2)
	den := allAuths(n, false, false)
	for _, referenced := range []sema.Type{w.Named("S0"), w.Named("R0"), sema.AnyStructType} {
		for _, a := range den {
			for _, b := range den {
				ta := sema.NewReferenceType(nil, toAccess(w.Ents, a), referenced)
				tb := sema.NewReferenceType(nil, toAccess(w.Ents, b), referenced)
				want := entails(n, a, b)
				got := sema.IsSubType(ta, tb)
				gotRuntime := interpreter.IsSubType(w.Inter, interpreter.ConvertSemaToStaticType(nil, ta), interpreter.ConvertSemaToStaticType(nil, tb))
				c.Eval(2)
				c.Inc("reference_subtyping_pairs")
				if want {
					c.Inc("reference_subtyping_true")
				}
				c.Distinct("refsub|" + ta.QualifiedString() + "|" + tb.QualifiedString())
				for _, o := range []struct {
					name string
					got  bool
				}{{"checker", got}, {"run-time", gotRuntime}} {
					if o.got != want {
						c.Violate(fmt.Sprintf("reference subtyping (%s): auth(%s) <: auth(%s), sets %s: got %v, model %v",
							o.name, a.kindOnly(), b.kindOnly(), setRelation(a.Set, b.Set), o.got, want),
							fmt.Sprintf("%s <: %s is %v (%s), possible-worlds model says %v", ta.QualifiedString(), tb.QualifiedString(), o.got, o.name, want),
							map[string]any{"sub": ta.QualifiedString(), "super": tb.QualifiedString(), "observed": o.got, "model": want})
					}
				}
			}
		}
	}
}

const c06ImageParts = 8

// c06Image: all 512 relations over 3 entitlements (split in parts) x identity on/off x all inputs.
func c06Image(c *core.Ctx, part int) {
	w := GetWorld(true)
	n := 3
	ents := w.Ents[:n]
	names := entNames4[:n]
	inputs := allAuths(n, true, true)
	for relBits := uint(0); relBits < 512; relBits++ {
		if int(relBits)%c06ImageParts != part {
			continue
		}
		for _, identity := range []bool{false, true} {
			m := mMap{Rel: make([]uint, n), Identity: identity}
			mt := sema.NewEntitlementMapType(nil, w.Location, fmt.Sprintf("Gen%d", relBits))
			mt.IncludesIdentity = identity
			for i := 0; i < n; i++ {
				for j := 0; j < n; j++ {
					if relBits&(1<<(uint(i*n+j))) != 0 {
						m.Rel[i] |= 1 << j
						mt.Relations = append(mt.Relations, sema.NewEntitlementRelation(nil, ents[i], ents[j]))
					}
				}
			}
			ma := sema.NewEntitlementMapAccess(mt)
			for _, a := range inputs {
				c06CheckImage(c, n, ents, names, ma, m, a, "constructed mapping")
				c.Distinct(fmt.Sprintf("image|%d|%v|%s", relBits, identity, a.render(names)))
			}
		}
	}
}

func c06CheckImage(c *core.Ctx, n int, ents []*sema.EntitlementType, names []string, ma *sema.EntitlementMapAccess, m mMap, a mAuth, origin string) {
	A := toAccess(ents, a)
	O, err := ma.Image(nil, A, ast.EmptyRange)
	c.Eval(1)
	c.Inc("image_evaluations")
	if err != nil {
		// refusing is sound
		c.Inc("image_refused_unrepresentable")
		return
	}
	o, cerr := fromAccess(ents, O)
	if cerr != nil {
		c.Violate("Image: result not representable in the universe", cerr.Error(),
			map[string]any{"mapping": m.render(names), "input": a.render(names), "result": O.String()})
		return
	}
	if o.Kind == mConj || o.Kind == mDisj {
		c.Inc("image_authorized_results")
	}
	if a.Kind == mDisj && o.Kind != mAll {
		c.Inc("image_disjunction_inputs_authorized_result")
	}
	sound, wBad := imageSound(n, m, a, o)
	if sound {
		return
	}
	c.Inc("image_unsound")
	c.Violate("Image unsound: "+imageClass(n, m, a),
		fmt.Sprintf("%s %s (%s): Image(%s) = %s, but a holder of exactly %s satisfies the input and its image %s does not satisfy the result",
			origin, m.render(names), map[bool]string{true: "with identity", false: "without identity"}[m.Identity],
			a.render(names), o.render(names), worldNames(wBad, names), worldNames(m.image(wBad), names)),
		map[string]any{"mapping": m.render(names), "input": a.render(names), "result": o.render(names),
			"counterexample_world": worldNames(wBad, names), "image_of_world": worldNames(m.image(wBad), names),
			"how": "sema.NewEntitlementMapAccess(mapType).Image(nil, input, ast.EmptyRange)"})
}

// ---------------------------------------------------------------- part 3: end to end

const c06ProgramsPerCase = 8

var e2eNames = []string{"A", "B", "C", "D"}

type e2eMapping struct {
	Name       string
	Own        []uint // own relations
	Includes   []int  // indices of included (earlier) mappings
	InclIdent  bool
	Flat       mMap // model: own ∪ included, identity if included anywhere in the chain
}

func (m e2eMapping) decl() string {
	var ps []string
	if m.InclIdent {
		ps = append(ps, "include Identity")
	}
	for _, i := range m.Includes {
		ps = append(ps, fmt.Sprintf("include M%d", i))
	}
	for i, r := range m.Own {
		for j := range e2eNames {
			if r&(1<<j) != 0 {
				ps = append(ps, e2eNames[i]+" -> "+e2eNames[j])
			}
		}
	}
	return fmt.Sprintf("access(all) entitlement mapping %s {\n    %s\n}", m.Name, strings.Join(ps, "\n    "))
}

func authSrc(a mAuth, refType string) string {
	if a.Kind == mAll {
		return "&" + refType
	}
	return a.render(e2eNames) + " &" + refType
}

type e2eField struct {
	Name    string
	Mapping int
	Decl    string // field type
	Init    string
	RefType string // type behind the reference obtained by accessing the field through a reference
	Owner   string // Outer | ROuter
}

func randAuth(c *core.Ctx, n int) mAuth {
	full := uint(1<<n) - 1
	switch c.Rng.IntN(8) {
	case 0:
		return mAuth{Kind: mAll}
	case 1, 2, 3:
		return mAuth{Kind: mConj, Set: 1 + uint(c.Rng.IntN(int(full)))}
	default:
		for {
			s := 1 + uint(c.Rng.IntN(int(full)))
			if bits.OnesCount(s) >= 2 {
				return mAuth{Kind: mDisj, Set: s}
			}
		}
	}
}

func c06E2E(c *core.Ctx) {
	for p := 0; p < c06ProgramsPerCase; p++ {
		c06Program(c)
	}
}

func c06Program(c *core.Ctx) {
	n := 4
	r := c.Rng
	// mappings with include chains
	var maps []e2eMapping
	for k := 0; k < 3; k++ {
		m := e2eMapping{Name: fmt.Sprintf("M%d", k), Own: make([]uint, n)}
		pairs := r.IntN(5)
		if k == 0 && pairs == 0 {
			pairs = 1
		}
		for i := 0; i < pairs; i++ {
			m.Own[r.IntN(n)] |= 1 << r.IntN(n)
		}
		m.InclIdent = r.IntN(4) == 0
		if k > 0 && r.IntN(2) == 0 {
			m.Includes = append(m.Includes, r.IntN(k))
			if k == 2 && r.IntN(3) == 0 && m.Includes[0] != 1 {
				m.Includes = append(m.Includes, 1)
			}
		}
		flat := mMap{Rel: append([]uint{}, m.Own...), Identity: m.InclIdent}
		for _, inc := range m.Includes {
			for i := range flat.Rel {
				flat.Rel[i] |= maps[inc].Flat.Rel[i]
			}
			flat.Identity = flat.Identity || maps[inc].Flat.Identity
		}
		m.Flat = flat
		maps = append(maps, m)
	}
	fields := []e2eField{
		{Name: "f0", Mapping: r.IntN(3), Decl: "Inner", Init: "Inner()", RefType: "Inner", Owner: "Outer"},
		{Name: "f1", Mapping: r.IntN(3), Decl: "Inner?", Init: "Inner()", RefType: "Inner", Owner: "Outer"},
		{Name: "f2", Mapping: r.IntN(3), Decl: "[Inner]", Init: "[Inner()]", RefType: "[Inner]", Owner: "Outer"},
		{Name: "g0", Mapping: r.IntN(3), Decl: "@RInner", Init: "<- create RInner()", RefType: "RInner", Owner: "ROuter"},
	}
	// members guarded by entitlement sets
	type member struct {
		Name string
		Req  mAuth
	}
	var members []member
	for i := 0; i < 4; i++ {
		var q mAuth
		for {
			q = randAuth(c, n)
			if q.Kind != mAll {
				break
			}
		}
		members = append(members, member{fmt.Sprintf("m%d", i), q})
	}

	var decls strings.Builder
	for _, e := range e2eNames {
		fmt.Fprintf(&decls, "access(all) entitlement %s\n", e)
	}
	for _, m := range maps {
		decls.WriteString(m.decl() + "\n")
	}
	decls.WriteString("access(all) struct Inner {}\naccess(all) resource RInner {}\n")
	decls.WriteString("access(all) struct Outer {\n")
	for _, f := range fields[:3] {
		fmt.Fprintf(&decls, "    access(mapping M%d) let %s: %s\n", f.Mapping, f.Name, f.Decl)
	}
	for _, m := range members {
		acc := strings.TrimSuffix(strings.TrimPrefix(m.Req.render(e2eNames), "auth("), ")")
		fmt.Fprintf(&decls, "    access(%s) fun %s(): Int { return 1 }\n", acc, m.Name)
	}
	decls.WriteString("    init() {\n")
	for _, f := range fields[:3] {
		fmt.Fprintf(&decls, "        self.%s = %s\n", f.Name, f.Init)
	}
	decls.WriteString("    }\n}\n")
	fmt.Fprintf(&decls, "access(all) resource ROuter {\n    access(mapping M%d) let g0: @RInner\n    init() { self.g0 <- create RInner() }\n}\n", fields[3].Mapping)

	// the original authorization and the upcast targets
	A := randAuth(c, n)
	all := allAuths(n, false, false)
	var supers, nonSupers []mAuth
	for _, b := range all {
		if b == A {
			continue
		}
		if entails(n, A, b) {
			supers = append(supers, b)
		} else {
			nonSupers = append(nonSupers, b)
		}
	}
	var ups []mAuth
	// one random supertype, then disjunction supertypes preferred (the interesting direction)
	r.Shuffle(len(supers), func(i, j int) { supers[i], supers[j] = supers[j], supers[i] })
	if len(supers) > 0 {
		ups = append(ups, supers[0])
		rest := append([]mAuth{}, supers[1:]...)
		sort.SliceStable(rest, func(i, j int) bool { return rest[i].Kind == mDisj && rest[j].Kind != mDisj })
		for _, b := range rest {
			if len(ups) < 3 {
				ups = append(ups, b)
			}
		}
	}
	var illegal []mAuth
	if len(nonSupers) > 0 {
		illegal = append(illegal, nonSupers[r.IntN(len(nonSupers))])
	}

	// ---- phase 1: the checker decides every site (one site per line)
	type site struct {
		Kind   string // upcast | illegal-upcast | member | field
		Ref    mAuth
		Target mAuth
		Member int
		Field  int
		Line   int
	}
	var sites []site
	var probe strings.Builder
	base := decls.String()
	line := strings.Count(base, "\n") + 1
	addSite := func(s site, text string) {
		s.Line = line
		sites = append(sites, s)
		probe.WriteString(text + "\n")
		line++
	}
	refs := append([]mAuth{A}, ups...)
	for i, b := range ups {
		addSite(site{Kind: "upcast", Ref: A, Target: b}, fmt.Sprintf("access(all) fun up%d(_ r: %s): %s { return r }", i, authSrc(A, "Outer"), authSrc(b, "Outer")))
	}
	for i, b := range illegal {
		addSite(site{Kind: "illegal-upcast", Ref: A, Target: b}, fmt.Sprintf("access(all) fun bad%d(_ r: %s): %s { return r }", i, authSrc(A, "Outer"), authSrc(b, "Outer")))
	}
	for ri, ref := range refs {
		for mi, m := range members {
			addSite(site{Kind: "member", Ref: ref, Member: mi}, fmt.Sprintf("access(all) fun mem%d_%d(_ r: %s): Int { return r.%s() }", ri, mi, authSrc(ref, "Outer"), m.Name))
		}
		for fi, f := range fields {
			addSite(site{Kind: "field", Ref: ref, Field: fi}, fmt.Sprintf("access(all) fun fld%d_%d(_ r: %s) { let x = r.%s }", ri, fi, authSrc(ref, f.Owner), f.Name))
		}
	}
	checkSrc := base + probe.String()
	ch, err := checkSource(checkSrc, scriptLocation)
	c.Eval(1)
	c.Inc("e2e_programs_checked")
	badLines := map[int]string{}
	if err != nil {
		cerr, ok := err.(*sema.CheckerError)
		if !ok {
			c.Violate("e2e: generated program does not parse/check for a harness reason", err.Error(), map[string]any{"program": checkSrc})
			return
		}
		for _, e := range cerr.Errors {
			l := 0
			if p, has := e.(ast.HasPosition); has {
				l = p.StartPosition().Line
			}
			badLines[l] = fmt.Sprintf("%T", e)
		}
	}
	baseLines := strings.Count(base, "\n")
	for l, what := range badLines {
		if l <= baseLines {
			c.Violate("e2e: generated declarations rejected by the checker: "+what, fmt.Sprintf("line %d: %s", l, what), map[string]any{"program": checkSrc})
			return
		}
	}

	// mapping declarations resolved by the checker vs the flattened model: Image on the real map types (include chains)
	if ch != nil {
		var ents []*sema.EntitlementType
		for _, nme := range e2eNames {
			if v, ok := ch.Elaboration.GetGlobalType(nme); ok {
				if e, ok := v.Type.(*sema.EntitlementType); ok {
					ents = append(ents, e)
				}
			}
		}
		if len(ents) == n {
			for _, m := range maps {
				v, ok := ch.Elaboration.GetGlobalType(m.Name)
				if !ok {
					continue
				}
				mt, ok := v.Type.(*sema.EntitlementMapType)
				if !ok {
					continue
				}
				ma := sema.NewEntitlementMapAccess(mt)
				if len(m.Includes) > 0 || m.InclIdent {
					c.Inc("declared_mappings_with_includes")
				}
				for i := 0; i < 6; i++ {
					c06CheckImage(c, n, ents, e2eNames, ma, m.Flat, randAuth(c, n), "declared mapping "+m.Name+" (includes resolved by the checker)")
				}
			}
		}
	}

	fieldOK := map[[2]int]bool{} // (ref index, field index) accepted by the checker
	refIndex := func(a mAuth) int {
		for i, x := range refs {
			if x == a {
				return i
			}
		}
		return -1
	}
	memberOK := map[[2]int]bool{}
	upOK := make([]bool, len(ups))
	for _, s := range sites {
		_, rejected := badLines[s.Line]
		switch s.Kind {
		case "upcast", "illegal-upcast":
			want := s.Kind == "upcast"
			c.Inc("checker_upcast_sites")
			if !rejected {
				c.Inc("checker_upcast_accepted")
			} else {
				c.Inc("checker_upcast_rejected")
			}
			if rejected == want {
				c.Violate(fmt.Sprintf("checker: implicit upcast auth(%s) -> auth(%s), sets %s: accepted=%v, model=%v",
					s.Ref.kindOnly(), s.Target.kindOnly(), setRelation(s.Ref.Set, s.Target.Set), !rejected, want),
					fmt.Sprintf("returning %s as %s: checker accepted=%v (%s), model says %v", authSrc(s.Ref, "Outer"), authSrc(s.Target, "Outer"), !rejected, badLines[s.Line], want),
					map[string]any{"program": checkSrc, "line": s.Line})
			}
			if s.Kind == "upcast" {
				for i, b := range ups {
					if b == s.Target {
						upOK[i] = !rejected
					}
				}
			}
		case "member":
			req := members[s.Member].Req
			want := entails(n, s.Ref, req)
			c.Inc("checker_member_sites")
			if !rejected {
				c.Inc("checker_member_accepted")
			}
			memberOK[[2]int{refIndex(s.Ref), s.Member}] = !rejected
			if rejected == want {
				c.Violate(fmt.Sprintf("checker: member requiring %s accessed through auth(%s), sets %s: accepted=%v, model=%v",
					req.kindOnly(), s.Ref.kindOnly(), setRelation(req.Set, s.Ref.Set), !rejected, want),
					fmt.Sprintf("member with access(%s) through %s: checker accepted=%v (%s), model says %v", req.render(e2eNames), authSrc(s.Ref, "Outer"), !rejected, badLines[s.Line], want),
					map[string]any{"program": checkSrc, "line": s.Line})
			}
		case "field":
			fieldOK[[2]int{refIndex(s.Ref), s.Field}] = !rejected
			if rejected {
				c.Inc("field_sites_refused_by_checker")
				if !strings.Contains(badLines[s.Line], "UnrepresentableEntitlementMapOutputError") {
					c.Violate("checker: mapped field access rejected with "+badLines[s.Line],
						fmt.Sprintf("access of %s through %s rejected: %s", fields[s.Field].Name, authSrc(s.Ref, fields[s.Field].Owner), badLines[s.Line]),
						map[string]any{"program": checkSrc, "line": s.Line})
				}
			}
		}
	}
	// statement, last sentence, member part: accepted through the upcast => accepted through the original
	for ui := range ups {
		if !upOK[ui] {
			continue
		}
		for mi, m := range members {
			c.Inc("member_reach_comparisons")
			if memberOK[[2]int{ui + 1, mi}] && !memberOK[[2]int{0, mi}] {
				c.Violate(fmt.Sprintf("e2e: member requiring %s reachable through the upcast auth(%s) but not through the original auth(%s)",
					m.Req.kindOnly(), ups[ui].kindOnly(), A.kindOnly()),
					fmt.Sprintf("member access(%s): accepted through %s, rejected through %s", m.Req.render(e2eNames), authSrc(ups[ui], "Outer"), authSrc(A, "Outer")),
					map[string]any{"program": checkSrc})
			}
		}
	}

	// ---- phase 2: run time, 3 engines: probe the authorization obtained for every mapped field through every reference
	probes := allAuths(n, false, false)[1:] // every conjunction and every disjunction of >= 2
	var main strings.Builder
	main.WriteString("access(all) fun main(): [Bool] {\n    let res: [Bool] = []\n    let o = Outer()\n    let ro <- create ROuter()\n")
	upcastForms := []string{"cast", "typed-let", "argument"}
	var helper strings.Builder
	type slot struct {
		Ref   int
		Field int
	}
	var slots []slot
	for _, owner := range []string{"Outer", "ROuter"} {
		v := "o"
		if owner == "ROuter" {
			v = "ro"
		}
		pfx := strings.ToLower(owner[:2])
		fmt.Fprintf(&main, "    let %s0 = &%s as %s\n", pfx, v, authSrc(A, owner))
		for ui, b := range ups {
			if !upOK[ui] {
				continue
			}
			form := upcastForms[r.IntN(len(upcastForms))]
			c.Inc("upcast_form_" + form)
			switch form {
			case "cast":
				fmt.Fprintf(&main, "    let %s%d = %s0 as %s\n", pfx, ui+1, pfx, authSrc(b, owner))
			case "typed-let":
				fmt.Fprintf(&main, "    let %s%d: %s = %s0\n", pfx, ui+1, authSrc(b, owner), pfx)
			default:
				fmt.Fprintf(&helper, "access(all) fun id%s%d(_ x: %s): %s { return x }\n", pfx, ui+1, authSrc(b, owner), authSrc(b, owner))
				fmt.Fprintf(&main, "    let %s%d = id%s%d(%s0)\n", pfx, ui+1, pfx, ui+1, pfx)
			}
		}
	}
	// two of the four mapped fields are probed at run time (keeps the script small)
	probed := map[int]bool{}
	for _, fi := range r.Perm(len(fields))[:2] {
		probed[fi] = true
	}
	for ri := range refs {
		if ri > 0 && !upOK[ri-1] {
			continue
		}
		for fi, f := range fields {
			if !probed[fi] || !fieldOK[[2]int{ri, fi}] {
				continue
			}
			pfx := strings.ToLower(f.Owner[:2])
			slots = append(slots, slot{ri, fi})
			for _, p := range probes {
				fmt.Fprintf(&main, "    res.append((%s%d.%s as? %s) != nil)\n", pfx, ri, f.Name, authSrc(p, f.RefType))
			}
		}
	}
	main.WriteString("    destroy ro\n    return res\n}\n")
	script := base + helper.String() + main.String()
	if len(slots) == 0 {
		c.Inc("e2e_programs_without_runtime_sites")
		return
	}
	c.Distinct(script)
	if c.WantSample() {
		c.Sample(map[string]any{"program": script, "original": authSrc(A, "Outer")})
	}

	type finding struct {
		engines []string
		msg     string
		witness map[string]any
	}
	found := map[string]*finding{}
	var foundOrder []string
	report := func(eng host.Engine, key, msg string, witness map[string]any) {
		f, ok := found[key]
		if !ok {
			f = &finding{msg: msg, witness: witness}
			found[key] = f
			foundOrder = append(foundOrder, key)
		}
		for _, e := range f.engines {
			if e == eng.String() {
				return
			}
		}
		f.engines = append(f.engines, eng.String())
	}
	defer func() {
		for _, key := range foundOrder {
			f := found[key]
			f.witness["engines"] = f.engines
			c.Violate(fmt.Sprintf("e2e[engines %s]: %s", strings.Join(f.engines, ","), key), f.msg, f.witness)
		}
	}()
	for _, eng := range host.AllEngines {
		h := host.New()
		out := h.RunScript(eng, script, nil, nil)
		c.Eval(1)
		c.Inc("e2e_script_runs_" + eng.String())
		if out.Err != nil || out.Escaped != nil {
			c.Violate(fmt.Sprintf("e2e[%s]: script failed: %s", eng, host.Classify(out)),
				host.ErrText(out), map[string]any{"script": script, "engine": eng.String()})
			continue
		}
		arr, ok := out.Value.(cadence.Array)
		if !ok || len(arr.Values) != len(slots)*len(probes) {
			c.Violate(fmt.Sprintf("e2e[%s]: unexpected result shape", eng), fmt.Sprint(out.Value), map[string]any{"script": script})
			continue
		}
		reach := map[slot][]bool{}
		for si, s := range slots {
			bs := make([]bool, len(probes))
			for pi := range probes {
				bs[pi] = bool(arr.Values[si*len(probes)+pi].(cadence.Bool))
				if bs[pi] {
					c.Inc("e2e_probe_success")
				} else {
					c.Inc("e2e_probe_failure")
				}
			}
			reach[s] = bs
		}
		for fi, f := range fields {
			m := maps[f.Mapping].Flat
			orig, hasOrig := reach[slot{0, fi}]
			if hasOrig {
				// justified by the source authorization
				for pi, p := range probes {
					if !orig[pi] {
						continue
					}
					if sound, wBad := imageSound(n, m, A, p); !sound {
						c.Inc("e2e_unjustified_authorizations")
						report(eng, fmt.Sprintf("mapped field through auth(%s) reference yields an authorization the source does not justify: %s",
							A.kindOnly(), imageClass(n, m, A)),
							fmt.Sprintf("engine %s: `(r.%s as? %s) != nil` with r: %s and mapping %s %s — a holder of exactly %s satisfies r's authorization but its image is %s",
								eng, f.Name, authSrc(p, f.RefType), authSrc(A, f.Owner), maps[f.Mapping].Name, m.render(e2eNames), worldNames(wBad, e2eNames), worldNames(m.image(wBad), e2eNames)),
							map[string]any{"script": script, "engine": eng.String(), "field": f.Name, "probe": authSrc(p, f.RefType)})
					}
				}
			}
			for ui, b := range ups {
				up, hasUp := reach[slot{ui + 1, fi}]
				if !hasUp {
					continue
				}
				c.Inc("e2e_upcast_field_comparisons")
				for pi, p := range probes {
					if !up[pi] {
						continue
					}
					reachedOrig := hasOrig && orig[pi]
					if reachedOrig {
						c.Inc("e2e_reach_preserved")
						continue
					}
					c.Inc("e2e_escalations")
					class := imageClass(n, m, b)
					report(eng, fmt.Sprintf("authorization reachable through a reference upcast to auth(%s) but not through the original reference: %s",
						b.kindOnly(), class),
						fmt.Sprintf("engine %s: field %s (mapping %s %s): `as? %s` succeeds on the reference upcast from %s to %s and fails (or is refused) on the original",
							eng, f.Name, maps[f.Mapping].Name, m.render(e2eNames), authSrc(p, f.RefType), authSrc(A, f.Owner), authSrc(b, f.Owner)),
						map[string]any{"script": script, "engine": eng.String(), "field": f.Name, "probe": authSrc(p, f.RefType),
							"original": authSrc(A, f.Owner), "upcast": authSrc(b, f.Owner), "original_site_accepted_by_checker": hasOrig})
				}
			}
		}
	}
}

func c06Cases(tier string) int {
	e2e := 80
	if tier == "thorough" {
		e2e = 3000
	}
	return 1 + c06ImageParts + e2e
}

func init() {
	core.Register(&core.Prop{
		ID:    "C06",
		Level: "exploration",
		Rule: "case 0: all 32x32 ordered pairs of accesses over 4 entitlements (unauthorized, access(self), 15 conjunctions, 15 disjunctions) for PermitsAccess and IntersectAccess, " +
			"and all 27x27 pairs of denotable authorizations for reference subtyping (checker and run-time) on 3 referenced types; cases 1-8: all 512 relations over 3 entitlements x identity on/off x 16 inputs for Image (exhaustive); " +
			"remaining cases (quick 80, thorough 3000): 8 seeded programs each, declaring 4 entitlements, 3 mappings with random relations / Identity / include chains, a struct and a resource with mapped fields (T, T?, [T], @R) and " +
			"entitlement-guarded functions, an original authorization A, up to 3 legal upcast targets (disjunctions preferred) and one illegal; every site is first decided by the checker (one site per line), " +
			"then a script probes on 3 engines the authorization obtained for two of the mapped fields through every reference with `as?` against all 26 set authorizations; distinct = algebra input tuple / program text",
		Assumptions: []string{
			"possible-worlds model: unauthorized = all worlds, conjunction S = supersets of S, disjunction S = worlds meeting S, access(self) = no world",
			"soundness only: an Image / IntersectAccess result weaker than the best representable one is not reported; errors (unrepresentable output) are sound refusals",
			"include chains are flattened by the harness (own relations ∪ included relations, identity if included anywhere) to obtain the model mapping",
			"the upcast in the script really converts the run-time authorization (calibrated: `up as? auth(F) &T` fails after upcast from auth(F) to auth(E | F))",
		},
		NumCases: c06Cases,
		Run: func(c *core.Ctx) {
			switch {
			case c.Case == 0:
				c06Permits(c)
			case c.Case <= c06ImageParts:
				c06Image(c, c.Case-1)
			default:
				c06E2E(c)
			}
		},
		Floors: map[string]int64{
			"permits_pairs": 1024, "permits_true": 100, "permits_false": 100,
			"intersect_pairs": 1024, "intersect_nontrivial_results": 50,
			"reference_subtyping_pairs": 3 * 729, "reference_subtyping_true": 300,
			"image_evaluations": 512 * 2 * 16, "image_authorized_results": 3000, "image_refused_unrepresentable": 500,
			"image_disjunction_inputs_authorized_result": 500,
			"declared_mappings_with_includes": 100,
			"e2e_programs_checked": 300, "e2e_script_runs_I": 150, "e2e_script_runs_V": 150, "e2e_script_runs_Vp": 150,
			"e2e_probe_success": 5000, "e2e_probe_failure": 25000, "e2e_upcast_field_comparisons": 800, "e2e_reach_preserved": 2500,
			"checker_upcast_accepted": 250, "checker_upcast_rejected": 100, "checker_member_accepted": 250, "member_reach_comparisons": 1000,
			"upcast_form_argument": 50, "upcast_form_cast": 50, "upcast_form_typed-let": 50,
		},
		Finalize: func(a *core.Agg) {
			a.Notes["algebra_part"] = "exhaustive over the stated universes (PermitsAccess, IntersectAccess, reference subtyping, Image); the end-to-end part is sampled"
		},
	})
}
