// Package types holds the checks of group types (see harness/groups.txt).
package types
