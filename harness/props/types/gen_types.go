package types

import (
	"fmt"
	"math/rand/v2"
	"regexp"
	"sort"
	"strings"
	"sync"

	"github.com/onflow/cadence/ast"
	"github.com/onflow/cadence/common"
	"github.com/onflow/cadence/interpreter"
	"github.com/onflow/cadence/parser"
	"github.com/onflow/cadence/sema"
)

// Shared type generator of group `types` (DESIGN §3.3): recursive, depth-bounded, seeded, over sema.Type,
// built on a *checked prelude* so that composite / interface / entitlement types carry the conformance data
// the real checker computed. Every generated sema.Type is paired with its static type.

// preludeDecls is the declaration list of the prelude. It is checked either nested in a contract `P`
// (address location; C08, C06) or at the top level of a script (C09).
const preludeDecls = `
access(all) entitlement E
access(all) entitlement F
access(all) entitlement G
access(all) entitlement H
access(all) entitlement mapping M { E -> F  G -> H }
access(all) entitlement mapping MI { include Identity  E -> G }
access(all) entitlement mapping MC { include M  F -> H }

access(all) struct interface SI0 {}
access(all) struct interface SI1: SI0 {}
access(all) struct interface SI2: SI0 {}
access(all) struct interface SI3: SI1, SI2 {}
access(all) struct interface SI4 {}
access(all) resource interface RI0 {}
access(all) resource interface RI1: RI0 {}
access(all) resource interface RI2: RI0 {}
access(all) resource interface RI3: RI1, RI2 {}
access(all) resource interface RI4 {}

access(all) struct S0 {
    access(all) let n: Int
    init() { self.n = 7 }
}
access(all) struct S1: SI1 {
    access(all) let n: Int
    init() { self.n = 1 }
}
access(all) struct S2: SI2 {}
access(all) struct S3: SI3 {
    access(all) let n: Int
    access(mapping M) let inner: S0
    access(mapping MI) let innerI: S0
    access(mapping MC) let innerC: S0
    init() {
        self.n = 3
        self.inner = S0()
        self.innerI = S0()
        self.innerC = S0()
    }
}
access(all) struct S4: SI1, SI4 {}
access(all) resource R0 {}
access(all) resource R1: RI1 {}
access(all) resource R2: RI2 {}
access(all) resource R3: RI3 {}
access(all) resource R4: RI1, RI4 {}
access(all) attachment AS for SI0 {}
access(all) attachment AS1 for S1 {}
access(all) attachment AR for RI0 {}
access(all) attachment AR1 for AnyResource {}
access(all) enum EN: UInt8 {
    access(all) case a
    access(all) case b
}
access(all) enum EN2: Int {
    access(all) case x
}
access(all) event Ev(x: Int)
`

// World is a checked prelude plus the nominal types pulled out of its elaboration.
type World struct {
	InContract bool
	Location   common.Location
	Checker    *sema.Checker
	Elab       *sema.Elaboration
	Inter      *interpreter.Interpreter // the TypeConverter of the run-time relations

	Ents       []*sema.EntitlementType    // E F G H
	Maps       []*sema.EntitlementMapType // M MI MC
	StructIfs  []*sema.InterfaceType
	ResIfs     []*sema.InterfaceType
	Structs    []*sema.CompositeType
	Resources  []*sema.CompositeType
	StructAtts []*sema.CompositeType
	ResAtts    []*sema.CompositeType
	Enums      []*sema.CompositeType
	Events     []*sema.CompositeType
	Contracts  []sema.Type // P, PI (contract world only)

	byName map[string]sema.Type
}

// Source returns the program text: prelude + extra declarations placed in the same scope.
func (w *World) Source(extra string) string {
	return worldSource(w.InContract, extra)
}

func worldSource(inContract bool, extra string) string {
	if inContract {
		return "access(all) contract interface PI {}\naccess(all) contract P: PI {\n" + preludeDecls + "\n" + extra + "\n}\n"
	}
	return preludeDecls + "\n" + extra + "\n"
}

// preludeBlock is one top-level declaration of the prelude with the prelude names its text mentions.
type preludeBlock struct {
	Name string
	Text string
	Deps []string
}

var (
	preludeBlocksOnce sync.Once
	preludeBlocks     []preludeBlock
	preludeNameRe     = regexp.MustCompile(`[A-Za-z_][A-Za-z_0-9]*`)
)

func getPreludeBlocks() []preludeBlock {
	preludeBlocksOnce.Do(func() {
		var cur []string
		flush := func() {
			if len(cur) == 0 {
				return
			}
			text := strings.Join(cur, "\n") + "\n"
			head := strings.Fields(strings.NewReplacer(":", " ", "(", " ", "{", " ").Replace(cur[0]))
			// access(all) <kind words...> NAME ...
			name := ""
			for i := 1; i < len(head); i++ {
				switch head[i] {
				case "all)", "entitlement", "mapping", "struct", "resource", "interface", "attachment", "enum", "event", "access":
					continue
				}
				name = head[i]
				break
			}
			preludeBlocks = append(preludeBlocks, preludeBlock{Name: name, Text: text})
			cur = nil
		}
		for _, l := range strings.Split(preludeDecls, "\n") {
			if strings.HasPrefix(l, "access(all) ") {
				flush()
			}
			if strings.TrimSpace(l) != "" || len(cur) > 0 {
				cur = append(cur, l)
			}
		}
		flush()
		names := map[string]bool{}
		for _, b := range preludeBlocks {
			names[b.Name] = true
		}
		for i := range preludeBlocks {
			seen := map[string]bool{}
			for _, id := range preludeNameRe.FindAllString(preludeBlocks[i].Text, -1) {
				if names[id] && id != preludeBlocks[i].Name && !seen[id] {
					seen[id] = true
					preludeBlocks[i].Deps = append(preludeBlocks[i].Deps, id)
				}
			}
		}
	})
	return preludeBlocks
}

// TrimmedScriptPrelude returns the prelude declarations (top-level form) that `body` mentions, closed under
// dependencies, in prelude order. Scripts that declare fewer types parse and check an order of magnitude faster.
func TrimmedScriptPrelude(body string) string {
	blocks := getPreludeBlocks()
	byName := map[string]*preludeBlock{}
	for i := range blocks {
		byName[blocks[i].Name] = &blocks[i]
	}
	need := map[string]bool{}
	var visit func(n string)
	visit = func(n string) {
		b, ok := byName[n]
		if !ok || need[n] {
			return
		}
		need[n] = true
		for _, d := range b.Deps {
			visit(d)
		}
	}
	for _, id := range preludeNameRe.FindAllString(body, -1) {
		visit(id)
	}
	var sb strings.Builder
	for _, b := range blocks {
		if need[b.Name] {
			sb.WriteString(b.Text)
		}
	}
	return sb.String()
}

// Q qualifies a prelude name for use in source of this world.
func (w *World) Q(name string) string {
	if w.InContract {
		return "P." + name
	}
	return name
}

var contractLocation = common.AddressLocation{Address: common.Address{0, 0, 0, 0, 0, 0, 0, 1}, Name: "P"}
var scriptLocation = common.ScriptLocation{0x1}

func checkSource(src string, loc common.Location) (*sema.Checker, error) {
	prog, err := parser.ParseProgram(nil, []byte(src), parser.Config{})
	if err != nil {
		return nil, err
	}
	ch, err := sema.NewChecker(prog, loc, nil, &sema.Config{AccessCheckMode: sema.AccessCheckModeStrict})
	if err != nil {
		return nil, err
	}
	return ch, ch.Check()
}

var (
	worldOnce [2]sync.Once
	worlds    [2]*World
)

// GetWorld returns the process-wide world (contract-nested or script-top-level).
func GetWorld(inContract bool) *World {
	i := 0
	if inContract {
		i = 1
	}
	worldOnce[i].Do(func() { worlds[i] = newWorld(inContract) })
	return worlds[i]
}

func newWorld(inContract bool) *World {
	w := &World{InContract: inContract, byName: map[string]sema.Type{}}
	if inContract {
		w.Location = contractLocation
	} else {
		w.Location = scriptLocation
	}
	ch, err := checkSource(w.Source(""), w.Location)
	if err != nil {
		panic(fmt.Sprintf("types prelude does not check: %v", err))
	}
	w.Checker = ch
	w.Elab = ch.Elaboration

	nested := func(f func(name string, t sema.Type)) {
		if inContract {
			p := w.Elab.CompositeType(w.Location.TypeID(nil, "P"))
			p.NestedTypes.Foreach(f)
			w.Contracts = append(w.Contracts, p)
			if v, ok := w.Elab.GetGlobalType("PI"); ok {
				w.Contracts = append(w.Contracts, v.Type)
			}
			return
		}
		w.Elab.ForEachGlobalType(func(name string, v *sema.Variable) { f(name, v.Type) })
	}
	nested(func(name string, t sema.Type) {
		w.byName[name] = t
		switch t := t.(type) {
		case *sema.EntitlementType:
			w.Ents = append(w.Ents, t)
		case *sema.EntitlementMapType:
			w.Maps = append(w.Maps, t)
		case *sema.InterfaceType:
			switch t.CompositeKind {
			case common.CompositeKindStructure:
				w.StructIfs = append(w.StructIfs, t)
			case common.CompositeKindResource:
				w.ResIfs = append(w.ResIfs, t)
			}
		case *sema.CompositeType:
			switch t.Kind {
			case common.CompositeKindStructure:
				w.Structs = append(w.Structs, t)
			case common.CompositeKindResource:
				w.Resources = append(w.Resources, t)
			case common.CompositeKindAttachment:
				if t.IsResourceType() {
					w.ResAtts = append(w.ResAtts, t)
				} else {
					w.StructAtts = append(w.StructAtts, t)
				}
			case common.CompositeKindEnum:
				w.Enums = append(w.Enums, t)
			case common.CompositeKindEvent:
				w.Events = append(w.Events, t)
			}
		}
	})
	if len(w.Ents) != 4 || len(w.Maps) != 3 || len(w.StructIfs) != 5 || len(w.ResIfs) != 5 ||
		len(w.Structs) != 5 || len(w.Resources) != 5 || len(w.StructAtts) != 2 || len(w.ResAtts) != 2 ||
		len(w.Enums) != 2 || len(w.Events) != 1 {
		panic("types prelude: unexpected declaration inventory")
	}

	inter, err := interpreter.NewInterpreter(
		interpreter.ProgramFromChecker(ch),
		w.Location,
		&interpreter.Config{
			CompositeTypeHandler: func(location common.Location, typeID interpreter.TypeID) *sema.CompositeType {
				return w.Elab.CompositeType(typeID)
			},
			ImportLocationHandler: func(inter *interpreter.Interpreter, location common.Location) interpreter.Import {
				return interpreter.VirtualImport{Elaboration: w.Elab}
			},
		},
	)
	if err != nil {
		panic(fmt.Sprintf("types prelude: interpreter: %v", err))
	}
	w.Inter = inter
	return w
}

func (w *World) Named(name string) sema.Type {
	t, ok := w.byName[name]
	if !ok {
		panic("types prelude: no type " + name)
	}
	return t
}

// GT is a generated type: checker type, run-time static type, source text ("" when the type can only arise as
// the type of an expression, e.g. function types with type parameters or mapped reference types) and kind label.
type GT struct {
	T    sema.Type
	St   interpreter.StaticType
	Src  string
	Kind string
}

func (w *World) mk(t sema.Type) GT {
	src, _ := w.SrcOf(t)
	return GT{T: t, St: interpreter.ConvertSemaToStaticType(nil, t), Src: src, Kind: KindOf(t)}
}

// ---------------------------------------------------------------- leaves

var abstractNumberTypes = []sema.Type{
	sema.NumberType, sema.SignedNumberType, sema.IntegerType, sema.SignedIntegerType,
	sema.FixedSizeUnsignedIntegerType, sema.FixedPointType, sema.SignedFixedPointType,
}

func isAbstractNumber(t sema.Type) bool {
	for _, a := range abstractNumberTypes {
		if t == a {
			return true
		}
	}
	return false
}

// builtinLeaves: every builtin simple type a program can name (AllBuiltinTypes without the two
// parameterised placeholders, which are generated with arguments; `Storable` and the invalid type are not in it).
func builtinLeaves() (all []sema.Type, numbers []sema.Type, other []sema.Type) {
	for _, t := range sema.AllBuiltinTypes {
		switch t.(type) {
		case *sema.CapabilityType, *sema.InclusiveRangeType:
			continue
		}
		if t == sema.StorableType || t.IsInvalidType() {
			continue
		}
		all = append(all, t)
		if sema.IsSubType(t, sema.NumberType) && t != sema.NeverType {
			numbers = append(numbers, t)
		} else {
			other = append(other, t)
		}
	}
	return
}

// KindOf labels the top-level shape of a type (coverage monitors, kind-pair floor).
func KindOf(t sema.Type) string {
	switch t {
	case sema.NeverType:
		return "Never"
	case sema.AnyType:
		return "Any"
	case sema.AnyStructType:
		return "AnyStruct"
	case sema.AnyResourceType:
		return "AnyResource"
	case sema.AnyStructAttachmentType, sema.AnyResourceAttachmentType:
		return "AnyAttachment"
	case sema.HashableStructType:
		return "HashableStruct"
	case sema.MetaType:
		return "Type"
	case sema.PathType, sema.StoragePathType, sema.CapabilityPathType, sema.PublicPathType, sema.PrivatePathType:
		return "path"
	}
	if isAbstractNumber(t) {
		return "number-abstract"
	}
	switch t := t.(type) {
	case *sema.NumericType, *sema.FixedPointNumericType:
		return "number"
	case *sema.OptionalType:
		return "optional"
	case *sema.VariableSizedType:
		return "array-variable"
	case *sema.ConstantSizedType:
		return "array-constant"
	case *sema.DictionaryType:
		return "dictionary"
	case *sema.ReferenceType:
		switch a := t.Authorization.(type) {
		case sema.EntitlementSetAccess:
			if a.SetKind == sema.Disjunction {
				return "reference-disjunction"
			}
			return "reference-conjunction"
		case *sema.EntitlementMapAccess:
			return "reference-mapped"
		}
		return "reference-unauthorized"
	case *sema.IntersectionType:
		return "intersection"
	case *sema.CapabilityType:
		return "capability"
	case *sema.InclusiveRangeType:
		return "inclusive-range"
	case *sema.FunctionType:
		return "function"
	case *sema.InterfaceType:
		return t.CompositeKind.Name() + "-interface"
	case *sema.CompositeType:
		if t.Location == nil {
			return "builtin-composite"
		}
		if t.Kind == common.CompositeKindAttachment {
			return "attachment"
		}
		return t.Kind.Name()
	}
	return "primitive"
}

// ---------------------------------------------------------------- source rendering

// SrcOf renders a type as Cadence source in the scope of the world. ok=false: not denotable by a type annotation.
func (w *World) SrcOf(t sema.Type) (string, bool) {
	switch t := t.(type) {
	case *sema.OptionalType:
		s, ok := w.SrcOf(t.Type)
		if !ok {
			return "", false
		}
		switch t.Type.(type) {
		case *sema.ReferenceType, *sema.FunctionType:
			return "(" + s + ")?", true
		}
		return s + "?", true
	case *sema.VariableSizedType:
		s, ok := w.SrcOf(t.Type)
		return "[" + s + "]", ok
	case *sema.ConstantSizedType:
		s, ok := w.SrcOf(t.Type)
		return fmt.Sprintf("[%s; %d]", s, t.Size), ok
	case *sema.DictionaryType:
		k, ok1 := w.SrcOf(t.KeyType)
		v, ok2 := w.SrcOf(t.ValueType)
		return "{" + k + ": " + v + "}", ok1 && ok2
	case *sema.ReferenceType:
		s, ok := w.SrcOf(t.Type)
		if !ok {
			return "", false
		}
		switch t.Type.(type) {
		case *sema.OptionalType, *sema.FunctionType:
			s = "(" + s + ")"
		}
		switch a := t.Authorization.(type) {
		case sema.EntitlementSetAccess:
			var names []string
			a.Entitlements.Foreach(func(e *sema.EntitlementType, _ struct{}) {
				names = append(names, w.Q(e.Identifier))
			})
			sep := ", "
			if a.SetKind == sema.Disjunction {
				if len(names) < 2 {
					return "", false
				}
				sep = " | "
			}
			return "auth(" + strings.Join(names, sep) + ") &" + s, true
		case *sema.EntitlementMapAccess:
			return "", false
		}
		return "&" + s, true
	case *sema.IntersectionType:
		if t.LegacyType != nil { //nolint:staticcheck
			return "", false
		}
		var names []string
		for _, i := range t.Types {
			s, _ := w.SrcOf(i)
			names = append(names, s)
		}
		return "{" + strings.Join(names, ", ") + "}", true
	case *sema.CapabilityType:
		if t.BorrowType == nil {
			return "Capability", true
		}
		s, ok := w.SrcOf(t.BorrowType)
		return "Capability<" + s + ">", ok
	case *sema.InclusiveRangeType:
		s, ok := w.SrcOf(t.MemberType)
		return "InclusiveRange<" + s + ">", ok
	case *sema.FunctionType:
		if len(t.TypeParameters) > 0 || t.Arity != nil || t.IsConstructor {
			return "", false
		}
		var ps []string
		for _, p := range t.Parameters {
			s, ok := w.SrcOf(p.TypeAnnotation.Type)
			if !ok {
				return "", false
			}
			if p.TypeAnnotation.IsResource {
				s = "@" + s
			}
			ps = append(ps, s)
		}
		r, ok := w.SrcOf(t.ReturnTypeAnnotation.Type)
		if !ok {
			return "", false
		}
		if t.ReturnTypeAnnotation.IsResource {
			r = "@" + r
		}
		s := "fun(" + strings.Join(ps, ", ") + "): " + r
		if t.Purity == sema.FunctionPurityView {
			s = "view " + s
		}
		return s, true
	case *sema.GenericType:
		return "", false
	case *sema.InterfaceType:
		if t.Location == nil {
			return t.QualifiedString(), true
		}
		if t.CompositeKind == common.CompositeKindContract {
			return t.Identifier, true
		}
		return w.Q(t.Identifier), true
	case *sema.CompositeType:
		if t.Location == nil {
			return t.QualifiedString(), true
		}
		if t.Kind == common.CompositeKindContract {
			return t.Identifier, true
		}
		return w.Q(t.Identifier), true
	}
	return t.QualifiedString(), true
}

// annotationSrc is the source of a type in annotation position (`@` for resource-kinded types).
func (w *World) annotationSrc(t sema.Type) (string, bool) {
	s, ok := w.SrcOf(t)
	if ok && t.IsResourceType() {
		s = "@" + s
	}
	return s, ok
}

// ---------------------------------------------------------------- generator

type Gen struct {
	W        *World
	Rng      *rand.Rand
	MaxDepth int

	leavesAll   []sema.Type
	leavesNum   []sema.Type
	leavesOther []sema.Type
	nominal     []sema.Type
}

func NewGen(w *World, rng *rand.Rand, maxDepth int) *Gen {
	g := &Gen{W: w, Rng: rng, MaxDepth: maxDepth}
	g.leavesAll, g.leavesNum, g.leavesOther = builtinLeaves()
	for _, l := range [][]*sema.CompositeType{w.Structs, w.Resources, w.StructAtts, w.ResAtts, w.Enums, w.Events} {
		for _, t := range l {
			g.nominal = append(g.nominal, t)
		}
	}
	for _, l := range [][]*sema.InterfaceType{w.StructIfs, w.ResIfs} {
		for _, t := range l {
			g.nominal = append(g.nominal, t)
		}
	}
	g.nominal = append(g.nominal, w.Contracts...)
	return g
}

func pick[T any](r *rand.Rand, xs []T) T { return xs[r.IntN(len(xs))] }

// Leaf returns a random simple type (never `Any`: it is not denotable, see DESIGN §C08).
func (g *Gen) Leaf() sema.Type {
	switch x := g.Rng.IntN(100); {
	case x < 22:
		return pick(g.Rng, g.leavesNum)
	case x < 45:
		return pick(g.Rng, g.leavesOther)
	case x < 52:
		return pick(g.Rng, []sema.Type{sema.NeverType, sema.AnyStructType, sema.AnyResourceType, sema.HashableStructType})
	default:
		return pick(g.Rng, g.nominal)
	}
}

// Auth returns a random reference authorization over the world's entitlements:
// unauthorized, conjunction (1..4 entitlements), disjunction (2..4 entitlements); random order.
func (g *Gen) Auth() sema.Access {
	switch g.Rng.IntN(5) {
	case 0:
		return sema.UnauthorizedAccess
	case 1, 2:
		return sema.NewEntitlementSetAccess(g.entSubset(1), sema.Conjunction)
	default:
		return sema.NewEntitlementSetAccess(g.entSubset(2), sema.Disjunction)
	}
}

func (g *Gen) entSubset(min int) []*sema.EntitlementType {
	n := len(g.W.Ents)
	k := min + g.Rng.IntN(n-min+1)
	if g.Rng.IntN(3) > 0 && k > 3 {
		k = 3
	}
	perm := g.Rng.Perm(n)
	var out []*sema.EntitlementType
	for _, i := range perm[:k] {
		out = append(out, g.W.Ents[i])
	}
	return out
}

// AllAuths lists every authorization over the first n entitlements: unauthorized, all conjunctions, all disjunctions of >= 2.
func (w *World) AllAuths(n int) []sema.Access {
	out := []sema.Access{sema.UnauthorizedAccess}
	for mask := 1; mask < 1<<n; mask++ {
		var es []*sema.EntitlementType
		for i := 0; i < n; i++ {
			if mask&(1<<i) != 0 {
				es = append(es, w.Ents[i])
			}
		}
		out = append(out, sema.NewEntitlementSetAccess(es, sema.Conjunction))
		if len(es) >= 2 {
			out = append(out, sema.NewEntitlementSetAccess(es, sema.Disjunction))
		}
	}
	return out
}

func referencable(t sema.Type) bool {
	switch t.(type) {
	case *sema.ReferenceType, *sema.OptionalType:
		return false
	}
	return t != sema.NeverType
}

// Derive applies one random type constructor to t (and, where needed, to other types supplied by `other`).
// The result may be invalid (e.g. a non-hashable dictionary key): Pool validates candidates with the checker.
func (g *Gen) Derive(t sema.Type, other func() sema.Type) sema.Type {
	r := g.Rng
	switch x := r.IntN(100); {
	case x < 14:
		return sema.NewOptionalType(nil, t)
	case x < 26:
		return sema.NewVariableSizedType(nil, t)
	case x < 34:
		return sema.NewConstantSizedType(nil, t, int64(1+r.IntN(3)))
	case x < 44:
		key := t
		val := other()
		if !sema.IsSubType(key, sema.HashableStructType) || r.IntN(2) == 0 {
			key, val = g.keyType(), t
		}
		return sema.NewDictionaryType(nil, key, val)
	case x < 66:
		if rt, ok := t.(*sema.ReferenceType); ok {
			// same referenced type, another authorization: the authorization lattice of one referent
			return sema.NewReferenceType(nil, g.Auth(), rt.Type)
		}
		return sema.NewReferenceType(nil, g.Auth(), t)
	case x < 74:
		if _, ok := t.(*sema.ReferenceType); ok {
			return sema.NewCapabilityType(nil, t)
		}
		if r.IntN(8) == 0 {
			return sema.NewCapabilityType(nil, nil)
		}
		return sema.NewCapabilityType(nil, sema.NewReferenceType(nil, g.Auth(), t))
	case x < 90:
		return g.function(t, other)
	case x < 94:
		if sema.IsSubType(t, sema.IntegerType) && t != sema.NeverType {
			return sema.NewInclusiveRangeType(nil, t)
		}
		return sema.NewInclusiveRangeType(nil, pick(r, g.leavesNum))
	default:
		return g.Intersection(t)
	}
}

func (g *Gen) keyType() sema.Type {
	r := g.Rng
	switch r.IntN(6) {
	case 0:
		return sema.StringType
	case 1:
		return pick(r, g.leavesNum)
	case 2:
		return pick(r, []sema.Type{sema.BoolType, sema.CharacterType, sema.TheAddressType, sema.MetaType,
			sema.HashableStructType, sema.NeverType})
	case 3:
		return pick(r, []sema.Type{sema.PathType, sema.StoragePathType, sema.PublicPathType, sema.CapabilityPathType, sema.PrivatePathType})
	case 4:
		return g.W.Enums[r.IntN(len(g.W.Enums))]
	default:
		return sema.StringType
	}
}

// Intersection builds an intersection type of same-kind interfaces, containing t when t is an interface.
func (g *Gen) Intersection(t sema.Type) sema.Type {
	r := g.Rng
	ifs := g.W.StructIfs
	if t.IsResourceType() {
		ifs = g.W.ResIfs
	}
	var chosen []*sema.InterfaceType
	if it, ok := t.(*sema.InterfaceType); ok && it.CompositeKind != common.CompositeKindContract {
		if it.CompositeKind == common.CompositeKindResource {
			ifs = g.W.ResIfs
		} else {
			ifs = g.W.StructIfs
		}
		chosen = append(chosen, it)
	}
	k := 1 + r.IntN(3)
	for _, i := range r.Perm(len(ifs)) {
		if len(chosen) >= k {
			break
		}
		dup := false
		for _, c := range chosen {
			if c == ifs[i] {
				dup = true
			}
		}
		if !dup {
			chosen = append(chosen, ifs[i])
		}
	}
	r.Shuffle(len(chosen), func(i, j int) { chosen[i], chosen[j] = chosen[j], chosen[i] })
	return sema.NewIntersectionType(nil, nil, chosen)
}

func (g *Gen) function(t sema.Type, other func() sema.Type) sema.Type {
	r := g.Rng
	f := &sema.FunctionType{}
	if r.IntN(3) == 0 {
		f.Purity = sema.FunctionPurityView
	}
	np := r.IntN(4)
	usedT := false
	ann := func(x sema.Type) sema.TypeAnnotation { return sema.NewTypeAnnotation(x) }
	for i := 0; i < np; i++ {
		pt := other()
		if !usedT && r.IntN(2) == 0 {
			pt, usedT = t, true
		}
		f.Parameters = append(f.Parameters, sema.Parameter{Label: sema.ArgumentLabelNotRequired, Identifier: fmt.Sprintf("p%d", i), TypeAnnotation: ann(pt)})
	}
	switch {
	case !usedT || r.IntN(3) == 0:
		f.ReturnTypeAnnotation = ann(t)
	case r.IntN(2) == 0:
		f.ReturnTypeAnnotation = sema.VoidTypeAnnotation
	default:
		f.ReturnTypeAnnotation = ann(other())
	}
	// features that only arise as types of expressions (builtin / constructor functions)
	if r.IntN(6) == 0 {
		ntp := 1 + r.IntN(2)
		for i := 0; i < ntp; i++ {
			tp := &sema.TypeParameter{Name: fmt.Sprintf("T%d", i)}
			switch r.IntN(4) {
			case 0:
			case 1:
				tp.TypeBound = sema.AnyStructType
			case 2:
				tp.TypeBound = pick(r, g.leavesNum)
			default:
				tp.TypeBound = sema.NewReferenceType(nil, sema.UnauthorizedAccess, sema.AnyStructType)
			}
			tp.Optional = r.IntN(4) == 0
			f.TypeParameters = append(f.TypeParameters, tp)
		}
		if r.IntN(2) == 0 {
			gt := &sema.GenericType{TypeParameter: f.TypeParameters[0]}
			if len(f.Parameters) > 0 && r.IntN(2) == 0 {
				f.Parameters[0].TypeAnnotation = ann(gt)
			} else {
				f.ReturnTypeAnnotation = ann(gt)
			}
		}
	}
	if r.IntN(8) == 0 {
		min := r.IntN(len(f.Parameters) + 1)
		f.Arity = &sema.Arity{Min: min, Max: min + r.IntN(3)}
	}
	if r.IntN(16) == 0 {
		f.IsConstructor = true
	}
	return f
}

// containsAny reports whether `Any` occurs as a component of t (it is excluded: only the bare top element is in a pool).
func containsComponent(t sema.Type, pred func(sema.Type) bool) bool {
	found := false
	var walk func(t sema.Type)
	walk = func(t sema.Type) {
		if t == nil || found {
			return
		}
		if pred(t) {
			found = true
			return
		}
		switch t := t.(type) {
		case *sema.OptionalType:
			walk(t.Type)
		case *sema.VariableSizedType:
			walk(t.Type)
		case *sema.ConstantSizedType:
			walk(t.Type)
		case *sema.DictionaryType:
			walk(t.KeyType)
			walk(t.ValueType)
		case *sema.ReferenceType:
			walk(t.Type)
		case *sema.CapabilityType:
			walk(t.BorrowType)
		case *sema.InclusiveRangeType:
			walk(t.MemberType)
		case *sema.FunctionType:
			for _, tp := range t.TypeParameters {
				walk(tp.TypeBound)
			}
			for _, p := range t.Parameters {
				walk(p.TypeAnnotation.Type)
			}
			walk(t.ReturnTypeAnnotation.Type)
		case *sema.GenericType:
			walk(t.TypeParameter.TypeBound)
		}
	}
	walk(t)
	return found
}

func typeDepth(t sema.Type) int {
	d := 0
	sub := func(ts ...sema.Type) {
		for _, x := range ts {
			if x != nil {
				if dd := typeDepth(x); dd > d {
					d = dd
				}
			}
		}
	}
	switch t := t.(type) {
	case *sema.OptionalType:
		sub(t.Type)
	case *sema.VariableSizedType:
		sub(t.Type)
	case *sema.ConstantSizedType:
		sub(t.Type)
	case *sema.DictionaryType:
		sub(t.KeyType, t.ValueType)
	case *sema.ReferenceType:
		sub(t.Type)
	case *sema.CapabilityType:
		sub(t.BorrowType)
	case *sema.InclusiveRangeType:
		sub(t.MemberType)
	case *sema.FunctionType:
		for _, p := range t.Parameters {
			sub(p.TypeAnnotation.Type)
		}
		sub(t.ReturnTypeAnnotation.Type)
	default:
		return 0
	}
	return d + 1
}

func isPositionOnly(t sema.Type) bool {
	switch t := t.(type) {
	case *sema.InterfaceType:
		return true
	case *sema.CompositeType:
		return t.Kind == common.CompositeKindAttachment
	}
	return false
}

// PoolStats reports what validation did (monitors).
type PoolStats struct {
	Candidates     int
	Rejected       int // not denotable according to the checker
	Mismatch       int // source parsed to a different type (generator rendering problem; dropped)
	ExpressionOnly int // kept without source (function types with type parameters / arity / constructor flag)
	PositionOnly   int // bare interface / attachment types (denotable in conformance lists, attachment base types, `v[A]` only)
	Verified       int // denotability confirmed by the checker
	RejectedSample string
}

// Pool builds a pool of n distinct types in which related shapes co-occur: a set of leaves (always Never, Any,
// AnyStruct, AnyResource), then repeated derivations from types already in the pool. Candidates with a source form
// are validated by the checker (the type must be accepted in a parameter annotation and resolve to the same type ID).
func (g *Gen) Pool(n int) ([]GT, PoolStats) {
	var stats PoolStats
	var pool []sema.Type
	seen := map[sema.TypeID]bool{}
	add := func(t sema.Type) bool {
		id := t.ID()
		if seen[id] {
			return false
		}
		seen[id] = true
		pool = append(pool, t)
		return true
	}
	for _, t := range []sema.Type{sema.NeverType, sema.AnyType, sema.AnyStructType, sema.AnyResourceType} {
		add(t)
	}
	nLeaves := n / 5
	if nLeaves < 12 {
		nLeaves = 12
	}
	{
		// leaves are validated like every other candidate; bare interface types and bare attachment types are the
		// exception: the checker rejects them in annotations ("invalid use of interface as type", "cannot refer
		// directly to attachment type") but programs denote them in conformance lists, attachment base types,
		// `v[A]` / `attach A()` / `remove A from v`, which is where the relation is applied to them — they are pool
		// members, and components of other types only where the checker accepts that (e.g. `&A`).
		var cands []sema.Type
		cseen := map[sema.TypeID]bool{}
		for tries := 0; len(cands) < nLeaves-len(pool) && tries < 10*n; tries++ {
			l := g.Leaf()
			if !seen[l.ID()] && !cseen[l.ID()] {
				cseen[l.ID()] = true
				cands = append(cands, l)
			}
		}
		var toCheck []sema.Type
		for _, l := range cands {
			if isPositionOnly(l) {
				stats.PositionOnly++
				add(l)
				continue
			}
			toCheck = append(toCheck, l)
		}
		stats.Candidates += len(toCheck)
		ok := g.W.Validate(toCheck, &stats)
		for i, l := range toCheck {
			if ok[i] {
				add(l)
			}
		}
	}
	usable := func(t sema.Type) bool {
		return t != sema.AnyType && typeDepth(t) < g.MaxDepth
	}
	randomBase := func() sema.Type {
		for {
			if o := pick(g.Rng, pool); usable(o) {
				return o
			}
		}
	}
	// relatedBase prefers a pool member that is comparable with t, so that derived shapes are comparable too
	relatedBase := func(t sema.Type) sema.Type {
		for tries := 0; tries < 12; tries++ {
			o := pick(g.Rng, pool)
			if o != t && usable(o) && (sema.IsSubType(t, o) || sema.IsSubType(o, t)) {
				return o
			}
		}
		return randomBase()
	}
	// families of the extreme types: their optionals and containers always co-occur
	{
		var cands []sema.Type
		for _, t := range []sema.Type{sema.NeverType, sema.AnyStructType, sema.AnyResourceType} {
			cands = append(cands, sema.NewOptionalType(nil, t), sema.NewVariableSizedType(nil, t))
			switch g.Rng.IntN(3) {
			case 0:
				cands = append(cands, sema.NewConstantSizedType(nil, t, 2))
			case 1:
				cands = append(cands, sema.NewDictionaryType(nil, sema.StringType, t))
			default:
				cands = append(cands, sema.NewOptionalType(nil, sema.NewOptionalType(nil, t)))
			}
		}
		// the builtin interface with builtin conforming types: bare, as intersection, and one conforming simple type
		stringerSet := sema.NewIntersectionType(nil, nil, []*sema.InterfaceType{sema.StructStringerType})
		add(sema.StructStringerType)
		stats.PositionOnly++
		cands = append(cands, stringerSet,
			pick(g.Rng, []sema.Type{sema.BoolType, sema.IntType, sema.StringType, sema.TheAddressType, sema.UFix64Type, sema.CharacterType, sema.PathType}))
		stats.Candidates += len(cands)
		ok := g.W.Validate(cands, &stats)
		for i, c := range cands {
			if ok[i] {
				add(c)
			}
		}
	}
	for rounds := 0; len(pool) < n && rounds < 60; rounds++ {
		// candidates of this round: one constructor applied to a base and to one or two bases related to it
		var cands []sema.Type
		cseen := map[sema.TypeID]bool{}
		want := (n - len(pool)) * 3 / 2
		if want < 8 {
			want = 8
		}
		if want > 120 {
			want = 120
		}
		for tries := 0; len(cands) < want && tries < 20*want; tries++ {
			t := randomBase()
			bases := []sema.Type{t}
			for k := 1 + g.Rng.IntN(2); k > 0; k-- {
				bases = append(bases, relatedBase(t))
			}
			// replay the same constructor choice on every base by re-seeding the choice stream
			s1, s2 := g.Rng.Uint64(), g.Rng.Uint64()
			saved := g.Rng
			for _, b := range bases {
				g.Rng = rand.New(rand.NewPCG(s1, s2))
				c := g.Derive(b, func() sema.Type {
					// component choices come from the shared stream so that they coincide across the bases
					for {
						if o := pool[g.Rng.IntN(len(pool))]; usable(o) {
							return o
						}
					}
				})
				if c == nil || seen[c.ID()] || cseen[c.ID()] {
					continue
				}
				cseen[c.ID()] = true
				cands = append(cands, c)
			}
			g.Rng = saved
		}
		stats.Candidates += len(cands)
		ok := g.W.Validate(cands, &stats)
		for i, c := range cands {
			if ok[i] && len(pool) < n {
				add(c)
			}
		}
	}
	out := make([]GT, len(pool))
	for i, t := range pool {
		out[i] = g.W.mk(t)
	}
	return out, stats
}

// Validate asks the checker whether each candidate is a type a program can denote: candidates with a source form are
// written as parameter annotations of global functions next to the prelude and checked; a candidate is accepted
// iff its line has no checker error and the resolved type has the same type ID. Candidates without source form
// (expression-only function types) are accepted when every source-denotable component is.
func (w *World) Validate(cands []sema.Type, stats *PoolStats) []bool {
	ok := make([]bool, len(cands))
	var sb strings.Builder
	lineOf := map[int]int{} // line -> candidate
	head := w.Source(validationHead + "\x00")
	headLines := strings.Count(head[:strings.Index(head, "\x00")], "\n")
	line := headLines + 1
	names := map[int]string{}
	for i, c := range cands {
		src, has := w.annotationSrc(c)
		if !has {
			// expression-only: validate the components that do have source
			ok[i] = true
			for _, comp := range expressionOnlyComponents(c) {
				cs, chas := w.annotationSrc(comp)
				if !chas {
					continue
				}
				fmt.Fprintf(&sb, "access(all) fun v%dc%d(_ x: %s)\n", i, line, cs)
				lineOf[line] = -(i + 1)
				line++
			}
			stats.ExpressionOnly++
			continue
		}
		name := fmt.Sprintf("v%d", i)
		names[i] = name
		fmt.Fprintf(&sb, "access(all) fun %s(_ x: %s)\n", name, src)
		lineOf[line] = i + 1
		line++
	}
	src := w.Source(validationHead + sb.String() + "}\n")
	ch, err := checkSource(src, w.Location)
	bad := map[int]bool{}
	if err != nil {
		cerr, isChecker := err.(*sema.CheckerError)
		if !isChecker {
			// parse error: attribute by position as well
			if perr, isParse := err.(parser.Error); isParse {
				for _, e := range perr.Errors {
					if p, has := e.(ast.HasPosition); has {
						bad[p.StartPosition().Line] = true
					}
				}
			}
			if ch == nil {
				// cannot attribute without an elaboration: reject everything with a source form
				for l := range lineOf {
					bad[l] = true
				}
			}
		} else {
			for _, e := range cerr.Errors {
				if p, has := e.(ast.HasPosition); has {
					bad[p.StartPosition().Line] = true
				}
			}
		}
	}
	var lines []int
	for l := range lineOf {
		lines = append(lines, l)
	}
	sort.Ints(lines)
	for _, l := range lines {
		idx := lineOf[l]
		if idx < 0 {
			if bad[l] {
				ok[-idx-1] = false
			}
			continue
		}
		i := idx - 1
		if bad[l] {
			stats.Rejected++
			if stats.RejectedSample == "" {
				s, _ := w.SrcOf(cands[i])
				stats.RejectedSample = s
			}
			continue
		}
		// resolved type must be the same type
		var resolved sema.Type
		if ch != nil {
			resolved = w.lookupFunctionParam(ch, names[i])
		}
		if resolved == nil || resolved.ID() != cands[i].ID() {
			stats.Mismatch++
			continue
		}
		ok[i] = true
		stats.Verified++
	}
	return ok
}

const validationHead = "access(all) struct interface ValidationProbe {\n"

func (w *World) lookupFunctionParam(ch *sema.Checker, name string) sema.Type {
	var probe *sema.InterfaceType
	if w.InContract {
		p := ch.Elaboration.CompositeType(w.Location.TypeID(nil, "P"))
		if p == nil {
			return nil
		}
		t, ok := p.NestedTypes.Get("ValidationProbe")
		if !ok {
			return nil
		}
		probe, _ = t.(*sema.InterfaceType)
	} else {
		v, ok := ch.Elaboration.GetGlobalType("ValidationProbe")
		if !ok {
			return nil
		}
		probe, _ = v.Type.(*sema.InterfaceType)
	}
	if probe == nil {
		return nil
	}
	m, ok := probe.Members.Get(name)
	if !ok {
		return nil
	}
	ft, _ := m.TypeAnnotation.Type.(*sema.FunctionType)
	if ft == nil || len(ft.Parameters) != 1 {
		return nil
	}
	return ft.Parameters[0].TypeAnnotation.Type
}

// expressionOnlyComponents lists the maximal source-denotable components of a type without source form.
func expressionOnlyComponents(t sema.Type) []sema.Type {
	var out []sema.Type
	switch t := t.(type) {
	case *sema.FunctionType:
		for _, tp := range t.TypeParameters {
			if tp.TypeBound != nil {
				out = append(out, tp.TypeBound)
			}
		}
		for _, p := range t.Parameters {
			out = append(out, p.TypeAnnotation.Type)
		}
		out = append(out, t.ReturnTypeAnnotation.Type)
	case *sema.OptionalType:
		out = append(out, t.Type)
	case *sema.VariableSizedType:
		out = append(out, t.Type)
	case *sema.ConstantSizedType:
		out = append(out, t.Type)
	case *sema.DictionaryType:
		out = append(out, t.KeyType, t.ValueType)
	case *sema.ReferenceType:
		out = append(out, t.Type)
	case *sema.CapabilityType:
		if t.BorrowType != nil {
			out = append(out, t.BorrowType)
		}
	}
	var flat []sema.Type
	for _, c := range out {
		if _, isGeneric := c.(*sema.GenericType); isGeneric {
			continue
		}
		flat = append(flat, c)
	}
	return flat
}

// ---------------------------------------------------------------- skeletons (violation keys)

// Skeleton renders a type with nominal names replaced by their kind, entitlement names by position-independent
// placeholders and sizes dropped, so that violation keys name a shape class and not one run's particular types.
func Skeleton(t sema.Type) string {
	if t == nil {
		return "nil"
	}
	switch t := t.(type) {
	case *sema.OptionalType:
		return Skeleton(t.Type) + "?"
	case *sema.VariableSizedType:
		return "[" + Skeleton(t.Type) + "]"
	case *sema.ConstantSizedType:
		return "[" + Skeleton(t.Type) + "; n]"
	case *sema.DictionaryType:
		return "{" + Skeleton(t.KeyType) + ": " + Skeleton(t.ValueType) + "}"
	case *sema.ReferenceType:
		return authSkeleton(t.Authorization) + "&" + Skeleton(t.Type)
	case *sema.IntersectionType:
		k := "struct"
		if t.IsResourceType() {
			k = "resource"
		}
		return fmt.Sprintf("{%d %s interfaces}", len(t.Types), k)
	case *sema.CapabilityType:
		if t.BorrowType == nil {
			return "Capability"
		}
		return "Capability<" + Skeleton(t.BorrowType) + ">"
	case *sema.InclusiveRangeType:
		return "InclusiveRange<" + Skeleton(t.MemberType) + ">"
	case *sema.FunctionType:
		var ps []string
		for _, p := range t.Parameters {
			ps = append(ps, Skeleton(p.TypeAnnotation.Type))
		}
		s := "fun"
		if t.Purity == sema.FunctionPurityView {
			s = "view fun"
		}
		if len(t.TypeParameters) > 0 {
			s += fmt.Sprintf("<%d type params>", len(t.TypeParameters))
		}
		s += "(" + strings.Join(ps, ", ") + ")"
		if t.Arity != nil {
			s += "[arity]"
		}
		if t.IsConstructor {
			s += "[ctor]"
		}
		return s + ": " + Skeleton(t.ReturnTypeAnnotation.Type)
	case *sema.GenericType:
		return "generic"
	case *sema.InterfaceType:
		if t.Location == nil {
			return t.QualifiedString()
		}
		return t.CompositeKind.Name() + "-interface"
	case *sema.CompositeType:
		if t.Location == nil {
			return t.QualifiedString()
		}
		if t.Kind == common.CompositeKindAttachment {
			if t.IsResourceType() {
				return "resource-attachment"
			}
			return "struct-attachment"
		}
		return t.Kind.Name()
	case *sema.NumericType, *sema.FixedPointNumericType:
		if isAbstractNumber(t) {
			return t.String()
		}
		return "number"
	}
	return t.String()
}

func authSkeleton(a sema.Access) string {
	switch a := a.(type) {
	case sema.EntitlementSetAccess:
		if a.SetKind == sema.Disjunction {
			return fmt.Sprintf("auth(|%d) ", a.Entitlements.Len())
		}
		return fmt.Sprintf("auth(,%d) ", a.Entitlements.Len())
	case *sema.EntitlementMapAccess:
		return "auth(mapping) "
	}
	return ""
}
