package types

import (
	"fmt"
	"strings"

	"github.com/onflow/cadence"
	"github.com/onflow/cadence/sema"

	"verif/harness/core"
	"verif/harness/host"
)

// Cross-kind instance tests: a resource-kinded value (a resource, an optional / array / dictionary of
// resources) is never an instance of a struct-kinded type and vice versa. `as?` between the kinds is
// rejected statically, so only `isInstance` and `getType().isSubtype(of:)` can observe these pairs.

type crossTarget struct {
	src string
	t   sema.Type
}

var (
	crossStructTargets = []crossTarget{
		{"AnyStruct", sema.AnyStructType},
		{"AnyStruct?", sema.NewOptionalType(nil, sema.AnyStructType)},
		{"[AnyStruct]", sema.NewVariableSizedType(nil, sema.AnyStructType)},
		{"{String: AnyStruct}", sema.NewDictionaryType(nil, sema.StringType, sema.AnyStructType)},
		{"HashableStruct", sema.HashableStructType},
	}
	crossResourceTargets = []crossTarget{
		{"@AnyResource", sema.AnyResourceType},
		{"@AnyResource?", sema.NewOptionalType(nil, sema.AnyResourceType)},
		{"@[AnyResource]", sema.NewVariableSizedType(nil, sema.AnyResourceType)},
		{"@{String: AnyResource}", sema.NewDictionaryType(nil, sema.StringType, sema.AnyResourceType)},
	}
)

func c09CrossKind(c *core.Ctx, w *World, v c09Value) {
	if v.Referent != nil {
		return // references are covered (and calibrated) by the main script
	}
	targets := crossResourceTargets
	if v.Resource {
		targets = crossStructTargets
	}
	var b strings.Builder
	b.WriteString("access(all) fun main(): [Bool] {\n    let res: [Bool] = []\n")
	pre, cleanup := v.setupLines()
	for _, s := range pre {
		b.WriteString("    " + s + "\n")
	}
	b.WriteString("    " + v.decl("v") + "\n")
	for _, t := range targets {
		fmt.Fprintf(&b, "    res.append(v.isInstance(Type<%s>())); res.append(v.getType().isSubtype(of: Type<%s>()))\n", t.src, t.src)
	}
	for _, s := range cleanup {
		b.WriteString("    " + s + "\n")
	}
	if v.Resource {
		b.WriteString("    destroy v\n")
	}
	b.WriteString("    return res\n}\n")
	script, _ := withTrimmedPrelude(b.String(), nil)
	dyn := wrapOptional(v.Dyn, v.OptLayers)
	for _, eng := range host.AllEngines {
		h := host.New()
		out := h.RunScript(eng, script, nil, nil)
		c.Eval(1)
		if out.Err != nil || out.Escaped != nil {
			if eng == host.EngI && host.HasKind(out.Err, "CheckerError") {
				c.Inc("cross_kind_scripts_rejected_by_checker")
				c.Note("cross_kind_rejected_sample", core.Clip(host.ErrText(out), 500)+"\n"+script)
				return
			}
			c.Violate(fmt.Sprintf("cross-kind script[%s] failed (%s): value kind %s", eng, host.Classify(out), v.Kind),
				host.ErrText(out), map[string]any{"script": script, "engine": eng.String()})
			continue
		}
		arr, ok := out.Value.(cadence.Array)
		if !ok || len(arr.Values) != 2*len(targets) {
			c.Violate(fmt.Sprintf("cross-kind script[%s] returned an unexpected shape", eng), fmt.Sprint(out.Value), map[string]any{"script": script})
			continue
		}
		for i, t := range targets {
			want := sema.IsSubType(dyn, t.t)
			for k, what := range []string{"isInstance", "getType().isSubtype"} {
				got := bool(arr.Values[2*i+k].(cadence.Bool))
				if eng == host.EngI {
					c.Inc("cross_kind_tests")
				}
				if got != want {
					c.Violate(fmt.Sprintf("cross-kind[%s] %s: %s value against %s: got %v, subtyping says %v", eng, what, v.Kind, t.src, got, want),
						fmt.Sprintf("engine %s: v = %s (run-time type %s): %s(Type<%s>()) is %v but the run-time type is%s a subtype of it",
							eng, v.Expr, dyn.QualifiedString(), what, t.src, got, map[bool]string{true: "", false: " not"}[want]),
						map[string]any{"script": script, "engine": eng.String(), "value": v.Expr, "setup": v.Setup, "run_time_type": dyn.QualifiedString()})
				}
			}
		}
	}
}
