// Package conc holds the checks of group conc (see harness/groups.txt).
package conc
