package prog

import (
	"verif/harness/host"
)

// guardMemLimit bounds the metered memory of a main (un-minimised) run. Generated programs may
// double a string or an array in nested loops; without a bound one such program takes the worker
// process (and the machine) down. The bound is harness-imposed: an execution that hits it is not
// judged (memGuarded), on any engine.
const guardMemLimit = 1 << 30

func guard() *host.Options {
	return &host.Options{Config: host.DefaultConfig, Mem: &host.Gauge{MemLimit: guardMemLimit}}
}

// memGuarded reports whether the execution failed because of the harness' own gauge limit.
func memGuarded(o host.Outcome) bool {
	found := false
	if o.Err != nil {
		host.Walk(o.Err, func(e error) {
			if _, ok := e.(host.LimitError); ok {
				found = true
			}
			if _, ok := e.(*host.LimitError); ok {
				found = true
			}
		})
	}
	return found
}
