// Package prog holds the checks of group prog (see harness/groups.txt).
package prog
