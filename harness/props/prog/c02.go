package prog

import (
	"fmt"
	"sort"
	"strings"

	"github.com/onflow/cadence"

	"verif/harness/audit"
	"verif/harness/core"
	"verif/harness/host"
)

// C02 — resources are never duplicated or lost at run time.
// Events: GenerateUUID results (creations), ResourceDestroyed events carrying self.uuid
// (every generated resource type declares one), and the resource census of the ledger
// before and after each transaction.
// Oracle (conservation, exactly-once), on every successful execution:
//   pre-census ∪ created = destroyed ⊎ post-census ; every uuid at most once in the census ;
//   every destroyed uuid has exactly one destruction event and was known (created or stored).

func destroyedUUIDs(events []cadence.Event) (ids []uint64, malformed int) {
	for _, e := range events {
		if !strings.HasSuffix(e.EventType.QualifiedIdentifier, ".ResourceDestroyed") {
			continue
		}
		f := e.FieldsMappedByName()
		u, ok := f["uuid"].(cadence.UInt64)
		if !ok {
			malformed++
			continue
		}
		ids = append(ids, uint64(u))
	}
	return
}

func censusSet(rs []audit.Resource) (map[uint64]audit.Resource, []uint64) {
	m := map[uint64]audit.Resource{}
	var dups []uint64
	for _, r := range rs {
		if _, ok := m[r.UUID]; ok {
			dups = append(dups, r.UUID)
		}
		m[r.UUID] = r
	}
	return m, dups
}

func sortedKeys(m map[uint64]bool) []uint64 {
	var ks []uint64
	for k := range m {
		ks = append(ks, k)
	}
	sort.Slice(ks, func(i, j int) bool { return ks[i] < ks[j] })
	return ks
}

type consFailure struct {
	Kind string
	Msg  string
	IDs  any
}

// conservationFailures applies the conservation laws to one successful execution.
func conservationFailures(h *host.Host, pre, post []audit.Resource) (fs []consFailure, created map[uint64]bool, destroyedList []uint64) {
	created = map[uint64]bool{}
	for _, u := range h.UUIDs {
		created[u] = true
	}
	var malformed int
	destroyedList, malformed = destroyedUUIDs(h.Events)
	if malformed > 0 {
		fs = append(fs, consFailure{"destruction-event-without-uuid", "a ResourceDestroyed event does not carry the declared uuid field", malformed})
	}
	preM, _ := censusSet(pre)
	postM, dups := censusSet(post)
	if len(dups) > 0 {
		fs = append(fs, consFailure{"duplicate-uuid-in-storage", fmt.Sprintf("two live stored resources share uuid(s) %v", dups), dups})
	}
	seen := map[uint64]int{}
	for _, u := range destroyedList {
		seen[u]++
	}
	// "emits that event": a resource whose type is known from the pre-census must be reported
	// by the ResourceDestroyed event declared in its own type.
	for _, e := range h.Events {
		if !strings.HasSuffix(e.EventType.QualifiedIdentifier, ".ResourceDestroyed") {
			continue
		}
		u, ok := e.FieldsMappedByName()["uuid"].(cadence.UInt64)
		if !ok {
			continue
		}
		if r, ok := preM[uint64(u)]; ok && r.TypeID != "" && e.EventType.ID() != r.TypeID+".ResourceDestroyed" {
			fs = append(fs, consFailure{"destruction-event-of-other-type", fmt.Sprintf("stored resource uuid %d of type %s was reported destroyed by event %s", uint64(u), r.TypeID, e.EventType.ID()), uint64(u)})
		}
	}
	for _, u := range sortedKeysInt(seen) {
		n := seen[u]
		if n > 1 {
			fs = append(fs, consFailure{"destroyed-more-than-once", fmt.Sprintf("uuid %d has %d destruction events", u, n), u})
		}
		if !created[u] {
			if _, ok := preM[u]; !ok {
				fs = append(fs, consFailure{"destroyed-unknown-resource", fmt.Sprintf("destruction event for uuid %d which was neither created in this execution nor stored before it", u), u})
			}
		}
	}
	expect := map[uint64]bool{}
	for u := range preM {
		expect[u] = true
	}
	for u := range created {
		expect[u] = true
	}
	for u := range seen {
		delete(expect, u)
	}
	var lost, extraIDs []uint64
	for u := range expect {
		if _, ok := postM[u]; !ok {
			lost = append(lost, u)
		}
	}
	for u := range postM {
		if !expect[u] {
			extraIDs = append(extraIDs, u)
		}
	}
	sort.Slice(lost, func(i, j int) bool { return lost[i] < lost[j] })
	sort.Slice(extraIDs, func(i, j int) bool { return extraIDs[i] < extraIDs[j] })
	if len(lost) > 0 {
		fs = append(fs, consFailure{"resource-lost", fmt.Sprintf("uuid(s) %v were created or stored, not destroyed, and are in no storage location after a successful execution", lost), lost})
	}
	if len(extraIDs) > 0 {
		fs = append(fs, consFailure{"resource-survives-destruction-or-appears", fmt.Sprintf("uuid(s) %v are in storage although destroyed or never created", extraIDs), extraIDs})
	}
	return
}

func sortedKeysInt(m map[uint64]int) []uint64 {
	var ks []uint64
	for k := range m {
		ks = append(ks, k)
	}
	sort.Slice(ks, func(i, j int) bool { return ks[i] < ks[j] })
	return ks
}

// rerunFunc re-executes a candidate program and returns its host and censuses; ok is false when
// the execution was not successful.
type rerunFunc func(cand string) (h *host.Host, pre, post []audit.Resource, ok bool)

// conservation checks one successful execution and reports (minimised) violations.
func conservation(c *core.Ctx, eng host.Engine, kind, src string, extra map[string]any, h *host.Host, pre, post []audit.Resource, rerun rerunFunc) {
	fs, created, destroyedList := conservationFailures(h, pre, post)
	c.Count("created", int64(len(created)))
	c.Count("destroyed_events", int64(len(destroyedList)))
	c.Count("census_resources", int64(len(post)))
	for i, f := range fs {
		ww := w(extra, "program", src)
		ww["engine"] = eng.String()
		ww["uuids"] = f.IDs
		ww["created"] = sortedKeys(created)
		ww["destroyed"] = destroyedList
		var pc, qc []string
		for _, r := range pre {
			pc = append(pc, fmt.Sprintf("%d %s %s", r.UUID, r.TypeID, r.Path))
		}
		for _, r := range post {
			qc = append(qc, fmt.Sprintf("%d %s %s", r.UUID, r.TypeID, r.Path))
		}
		ww["pre_census"] = pc
		ww["post_census"] = qc
		minKey := ""
		if rerun != nil && i == 0 {
			min := minimize(src, func(cand string) bool {
				h2, p2, q2, ok := rerun(cand)
				if !ok {
					return false
				}
				f2, _, _ := conservationFailures(h2, p2, q2)
				for _, x := range f2 {
					if x.Kind == f.Kind {
						return true
					}
				}
				return false
			}, 300)
			ww["minimal_program"] = min
			minKey = " | min " + skeletonKey(min)
		}
		c.Violate(fmt.Sprintf("%s[%s] %s%s", kind, eng, f.Kind, minKey), f.Msg, ww)
	}
}

func w(extra map[string]any, k string, v any) map[string]any {
	m := map[string]any{k: v}
	for a, b := range extra {
		m[a] = b
	}
	return m
}

func init() {
	core.Register(&core.Prop{
		ID:   "C02",
		Rule: "generated resource-heavy programs: scripts (nothing stored: created == destroyed) and transaction histories over a deployed contract on three engines with one evolving ledger per engine; the census of all stored resources (any account, any nesting) is taken from the ledger bytes before and after every transaction; distinct = distinct accepted program text that created at least one resource",
		Assumptions: []string{
			"every generated resource type declares ResourceDestroyed(uuid: UInt64 = self.uuid, ...); creations are observed as GenerateUUID callbacks",
			"the census walks account storage with Cadence's exported storage API (harness/audit)",
			"only successful executions are judged (the statement's quantifier)",
		},
		NumCases: func(tier string) int {
			if tier == "thorough" {
				return 3000
			}
			return 160
		},
		Floors: map[string]int64{"successful_executions": 500, "created": 2000, "destroyed_events": 1000, "census_resources": 200, "nested_census_resources": 20,
			"feat:res_move_into_nested": 5, "feat:res_move_into_array": 5, "feat:res_move_into_dict": 5, "feat:res_swap": 1, "feat:storage_save_resource": 5, "feat:storage_load_resource": 3, "feat:res_nested_take": 3},
		Run: runC02,
	})
}

func runC02(c *core.Ctx) {
	s := newScenario(c.Rng, 8)
	for _, p := range s.Scripts {
		if p.Features["res_decl"] == 0 {
			continue
		}
		for _, eng := range host.AllEngines {
			h := host.New()
			o := h.RunScript(eng, p.Source, nil, guard())
			c.Eval(1)
			if o.Err != nil || o.Escaped != nil {
				c.Inc("script_not_successful")
				continue
			}
			c.Inc("successful_executions")
			if eng == host.EngI {
				c.Distinct(p.Source)
				for f, n := range p.Features {
					c.Count("feat:"+f, int64(n))
				}
			}
			conservation(c, eng, "script", p.Source, nil, h, nil, nil, func(cand string) (*host.Host, []audit.Resource, []audit.Resource, bool) {
				h2 := host.New()
				o2 := h2.RunScript(eng, cand, nil, limited())
				return h2, nil, nil, o2.Err == nil && o2.Escaped == nil
			})
		}
	}
	for _, eng := range host.AllEngines {
		h := host.New()
		d := h.Deploy(eng, host.Addr(1), "C0", s.Contract)
		if d.Err != nil || d.Escaped != nil {
			c.Inc("deploy_failed")
			continue
		}
		if s.Twin {
			if d2 := h.Deploy(eng, host.Addr(2), "C0", s.Contract); d2.Err != nil || d2.Escaped != nil {
				c.Inc("twin_deploy_failed")
			} else {
				c.Inc("twin_deployed")
			}
		}
		for i, tx := range s.Txs {
			pre, err := audit.Census(h.Ledger)
			if err != nil {
				c.Violate("census-failed", "resource census of the ledger failed: "+err.Error(), map[string]any{"contract": s.Contract})
				break
			}
			preLedger, preUUID := h.Ledger.Clone(), h.UUID
			h.ResetTrace()
			o := h.RunTx(eng, tx.Source, nil, signersFor(tx.Source), guard())
			c.Eval(1)
			post, err := audit.Census(h.Ledger)
			if err != nil {
				c.Violate("census-failed", "resource census of the ledger failed: "+err.Error(), map[string]any{"contract": s.Contract, "transaction": tx.Source})
				break
			}
			if o.Err != nil || o.Escaped != nil {
				c.Inc("tx_not_successful")
				// a failed transaction must leave the census unchanged
				a, _ := censusSet(pre)
				b, _ := censusSet(post)
				if len(a) != len(b) {
					c.Violate(fmt.Sprintf("transaction[%s] failed-transaction-changed-census", eng), "stored resources changed although the transaction failed",
						map[string]any{"contract": s.Contract, "transaction": tx.Source})
				}
				continue
			}
			c.Inc("successful_executions")
			for _, r := range post {
				if strings.ContainsAny(r.Path, ".[{") {
					c.Inc("nested_census_resources")
				}
			}
			if eng == host.EngI {
				c.Distinct(tx.Source)
				for f, n := range tx.Features {
					c.Count("feat:"+f, int64(n))
				}
			}
			var prior []string
			for k := 0; k < i; k++ {
				prior = append(prior, s.Txs[k].Source)
			}
			codes := h.Codes
			conservation(c, eng, "transaction", tx.Source, map[string]any{"contract": s.Contract, "prior_transactions": prior}, h, pre, post,
				func(cand string) (*host.Host, []audit.Resource, []audit.Resource, bool) {
					h2 := host.New()
					h2.Ledger = preLedger.Clone()
					for k, v := range codes {
						h2.Codes[k] = v
					}
					h2.UUID = preUUID
					o2 := h2.RunTx(eng, cand, nil, signersFor(cand), limited())
					if o2.Err != nil || o2.Escaped != nil {
						return h2, nil, nil, false
					}
					q2, err := audit.Census(h2.Ledger)
					if err != nil {
						return h2, nil, nil, false
					}
					return h2, pre, q2, true
				})
			if i == 0 && eng == host.EngI && c.WantSample() {
				c.Sample(map[string]any{"transaction": tx.Source, "created": h.UUIDs, "stored_after": len(post)})
			}
		}
	}
}
