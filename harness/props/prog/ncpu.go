package prog

import "runtime"

var ncpu = func() int {
	n := runtime.NumCPU()
	if n < 1 {
		n = 1
	}
	return n
}()
