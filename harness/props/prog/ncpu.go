package prog

import (
	"runtime"
	"time"
)

var ncpu = func() int {
	n := runtime.NumCPU()
	if n < 1 {
		n = 1
	}
	return n
}()

// childDeadline bounds a child re-execution (C31/C33). A child needs one or two seconds of CPU;
// the deadline is two orders of magnitude above that, so that only a genuine hang trips it.
const childDeadline = 150 * time.Second

type errChildHung struct{ dump string }

func (e errChildHung) Error() string { return "child process did not finish" }

// hangSeen remembers (per worker process) the child configurations that already hung,
// so that a hang is reported once instead of being waited for in every case.
var hangSeen = map[string]bool{}
