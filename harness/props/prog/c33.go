package prog

import (
	"bytes"
	"crypto/sha256"
	"encoding/hex"
	"fmt"
	"os"
	"os/exec"
	"strconv"
	"strings"
	"syscall"
	"time"

	"verif/harness/core"
	"verif/harness/host"
)

// C33 — execution outcomes are deterministic: the complete host trace (ordered register writes with
// values, events, logs, result, error) of the same workload on the same ledger is byte-identical
// across repetitions in one process and across fresh processes with different CPU sets / GOMAXPROCS
// (storage commit uses NumCPU workers; Go map iteration seeds differ per process and per range).
//
// C31 — metering is deterministic and history independent: the exact sequence of (kind, amount)
// gauge calls of a program is the same when it runs first in a fresh process, twice in a row, and
// after many other programs in a long-lived process. Each engine is compared with itself.

// ---- child process protocol (the worker re-executes its own binary)

func init() {
	if spec := os.Getenv("VERIF_PROG_CHILD"); spec != "" {
		// never outlive the worker that waits for this child (it kills the child at
		// childDeadline; this covers a worker that was itself killed)
		time.AfterFunc(childDeadline+time.Minute, func() { os.Exit(3) })
		childMain(spec)
		os.Exit(0)
	}
}

func childMain(spec string) {
	parts := strings.Split(spec, "|")
	if len(parts) != 5 {
		fmt.Println("BAD-SPEC")
		return
	}
	mode := parts[0]
	seed, _ := strconv.ParseInt(parts[1], 10, 64)
	tier := parts[2]
	cs, _ := strconv.Atoi(parts[3])
	engN, _ := strconv.Atoi(parts[4])
	eng := host.Engine(engN)
	switch mode {
	case "c33":
		s := newScenario(core.CaseRng(seed, "C33", tier, cs), c33Scripts)
		for _, h := range scenarioHashes(s, eng) {
			fmt.Println("H", h)
		}
	case "c31":
		s := newScenario(core.CaseRng(seed, "C31", tier, cs), c31Scripts)
		for _, h := range meteringHashes(s, eng) {
			fmt.Println("H", h)
		}
	}
}

func runChild(spec string, gomaxprocs int, cpus string) ([]string, error) {
	self, err := os.Executable()
	if err != nil {
		return nil, err
	}
	var cmd *exec.Cmd
	if cpus != "" {
		cmd = exec.Command("taskset", "-c", cpus, self)
	} else {
		cmd = exec.Command(self)
	}
	cmd.Env = append(os.Environ(), "VERIF_PROG_CHILD="+spec, fmt.Sprintf("GOMAXPROCS=%d", gomaxprocs))
	var out, errb bytes.Buffer
	cmd.Stdout = &out
	cmd.Stderr = &errb
	if err := cmd.Start(); err != nil {
		return nil, err
	}
	done := make(chan error, 1)
	go func() { done <- cmd.Wait() }()
	select {
	case err := <-done:
		if err != nil {
			return nil, fmt.Errorf("%v: %s", err, core.Clip(errb.String(), 2000))
		}
	case <-time.After(childDeadline):
		// a child normally needs one or two seconds; not finishing within the (very generous)
		// deadline means the execution hangs under this configuration
		_ = cmd.Process.Signal(syscall.SIGQUIT)
		time.Sleep(500 * time.Millisecond)
		_ = cmd.Process.Kill()
		<-done
		return nil, errChildHung{dump: core.Clip(errb.String(), 6000)}
	}
	var hs []string
	for _, l := range strings.Split(out.String(), "\n") {
		if strings.HasPrefix(l, "H ") {
			hs = append(hs, strings.TrimPrefix(l, "H "))
		}
	}
	return hs, nil
}

const c33Scripts = 4

// fullTraceHash hashes the complete ordered callback log plus the API-level outcome.
func fullTraceHash(h *host.Host, o host.Outcome) string {
	s := sha256.New()
	for _, r := range h.Recs {
		fmt.Fprintf(s, "%s|%s|%s\n", r.Kind, r.A, r.B)
	}
	ob := observe(h, o)
	fmt.Fprintf(s, "%s|%s|%s|%s", ob.Result, ob.ErrClass, ob.ErrKind, host.ErrText(o))
	return hex.EncodeToString(s.Sum(nil)[:12])
}

func scenarioHashes(s *Scenario, eng host.Engine) []string {
	var hs []string
	for i := range s.Scripts {
		_, h, o := s.runScript(eng, i, nil)
		hs = append(hs, fullTraceHash(h, o))
	}
	s.runHistory(eng, nil, func(step int, h *host.Host, o host.Outcome) {
		hs = append(hs, fullTraceHash(h, o))
	})
	return hs
}

func init() {
	core.Register(&core.Prop{
		ID:          "C33",
		Rule:        "generated scenarios (4 scripts + a contract deployment and 3..6 resource/storage transactions touching several slabs) are executed 3x in one process and once in each of 3 fresh processes pinned to 1, 2 and all CPUs with GOMAXPROCS 1/4/16; the hash of the full ordered host trace (every callback incl. SetValue keys and values, events, logs) plus result and error text is compared; each engine (I, V) with itself; distinct = distinct program text",
		Assumptions: []string{"the harness host is deterministic (no wall clock, no map iteration in anything hashed)"},
		NumCases: func(tier string) int {
			if tier == "thorough" {
				return 1200
			}
			return 48
		},
		Floors: map[string]int64{"executions_compared": 1000, "fresh_process_runs": 100, "register_writes_observed": 300, "config:1cpu": 20, "config:allcpu": 20},
		Run:    runC33,
	})
}

func runC33(c *core.Ctx) {
	s := newScenario(core.CaseRng(c.Seed, "C33", c.Tier, c.Case), c33Scripts)
	for _, p := range s.Scripts {
		c.Distinct(p.Source)
	}
	for _, p := range s.Txs {
		c.Distinct(p.Source)
	}
	engines := []host.Engine{host.EngI, host.EngV}
	for _, eng := range engines {
		base := scenarioHashes(s, eng)
		// count writes for the floor
		s.runHistory(eng, nil, func(step int, h *host.Host, o host.Outcome) {
			c.Count("register_writes_observed", int64(h.CountKind(host.KSetValue)))
		})
		c.Eval(int64(len(base)))
		report := func(label string, hs []string) {
			if len(hs) != len(base) {
				c.Violate(fmt.Sprintf("trace-count-differs[%s] %s", eng, label), fmt.Sprintf("%s produced %d traces, baseline %d", label, len(hs), len(base)),
					map[string]any{"contract": s.Contract, "engine": eng.String()})
				return
			}
			for i := range hs {
				c.Inc("executions_compared")
				if hs[i] != base[i] {
					src := ""
					kind := "script"
					if i < len(s.Scripts) {
						src = s.Scripts[i].Source
					} else if i == len(s.Scripts) {
						src = s.Contract
						kind = "deploy"
					} else {
						src = s.Txs[i-len(s.Scripts)-1].Source
						kind = "transaction"
					}
					c.Violate(fmt.Sprintf("nondeterministic[%s] %s %s", eng, kind, label),
						fmt.Sprintf("engine %s: host trace of %s #%d differs between the in-process baseline and %s", eng, kind, i, label),
						map[string]any{"engine": eng.String(), "program": src, "contract": s.Contract, "index": i, "config": label, "seed": c.Seed, "case": c.Case})
					return
				}
			}
		}
		for rep := 0; rep < 2; rep++ {
			report("same-process-repeat", scenarioHashes(s, eng))
		}
		spec := fmt.Sprintf("c33|%d|%s|%d|%d", c.Seed, c.Tier, c.Case, int(eng))
		for _, cfg := range []struct {
			label string
			procs int
			cpus  string
		}{{"1cpu", 1, fmt.Sprint(c.Case % ncpu)}, {"2cpu", 4, fmt.Sprintf("%d,%d", c.Case%ncpu, (c.Case+1)%ncpu)}, {"allcpu", 16, ""}} {
			if hangSeen[cfg.label] {
				// this configuration already hung in this worker: reported once, do not wait again
				c.Inc("child_skipped_after_hang")
				continue
			}
			hs, err := runChild(spec, cfg.procs, cfg.cpus)
			if hung, ok := err.(errChildHung); ok {
				hangSeen[cfg.label] = true
				c.Violate(fmt.Sprintf("execution-hangs[%s] fresh-process-%s", eng, cfg.label),
					fmt.Sprintf("engine %s: the scenario that completes in this process did not finish within %s in a fresh process with %s (GOMAXPROCS=%d, cpus=%q)", eng, childDeadline, cfg.label, cfg.procs, cfg.cpus),
					map[string]any{"engine": eng.String(), "config": cfg.label, "contract": s.Contract, "goroutine_dump": hung.dump, "seed": c.Seed, "case": c.Case})
				continue
			}
			if err != nil {
				c.Inc("child_failed")
				c.Note("child_error", err.Error())
				continue
			}
			c.Inc("fresh_process_runs")
			c.Inc("config:" + cfg.label)
			report("fresh-process-"+cfg.label, hs)
		}
	}
	if c.WantSample() {
		c.Sample(map[string]any{"transactions": len(s.Txs), "first_tx": s.Txs[0].Source})
	}
}

// ---------------------------------------------------------------- C31

const c31Scripts = 3

func gaugeHash(g *host.Gauge) string {
	s := sha256.New()
	for _, r := range g.Recs {
		fmt.Fprintf(s, "%v|%d|%d\n", r.Mem, r.Kind, r.Amt)
	}
	return fmt.Sprintf("%s/%d", hex.EncodeToString(s.Sum(nil)[:12]), len(g.Recs))
}

// meteringHashes runs every program of the scenario with recording gauges and returns one hash
// of the (kind, amount) sequence per execution.
func meteringHashes(s *Scenario, eng host.Engine) []string {
	var hs []string
	for i := range s.Scripts {
		g := &host.Gauge{Record: true}
		s.runScript(eng, i, &host.Options{Config: host.DefaultConfig, Mem: g, Comp: g})
		hs = append(hs, gaugeHash(g))
	}
	var gs []*host.Gauge
	s.runHistory(eng, func(step int) *host.Options {
		g := &host.Gauge{Record: true}
		gs = append(gs, g)
		return &host.Options{Config: host.DefaultConfig, Mem: g, Comp: g}
	}, nil)
	for _, g := range gs {
		hs = append(hs, gaugeHash(g))
	}
	return hs
}

func init() {
	core.Register(&core.Prop{
		ID:          "C31",
		Rule:        "generated scenarios (3 scripts + deployment + 3..6 transactions) run with recording memory and computation gauges; the exact (kind, amount) call sequence of each execution is compared between: first thing in a fresh process, twice in a row, and in this long-lived worker after a random prefix of 5..30 other generated programs on both engines (warming the caches); each engine with itself; distinct = distinct program text",
		Assumptions: []string{"the gauge records every MeterMemory / MeterComputation call the runtime makes through Context.MemoryGauge / ComputationGauge"},
		NumCases: func(tier string) int {
			if tier == "thorough" {
				return 1200
			}
			return 48
		},
		Floors: map[string]int64{"sequences_compared": 800, "fresh_process_runs": 60, "gauge_calls_observed": 100000, "warm_prefix_programs": 300},
		Run:    runC31,
	})
}

func runC31(c *core.Ctx) {
	s := newScenario(core.CaseRng(c.Seed, "C31", c.Tier, c.Case), c31Scripts)
	for _, p := range s.Scripts {
		c.Distinct(p.Source)
	}
	for _, p := range s.Txs {
		c.Distinct(p.Source)
	}
	// warm-up prefix: other programs (a different scenario) on both engines
	wr := core.CaseRng(c.Seed, "C31-warm-prefix", c.Tier, c.Case)
	warm := newScenario(wr, 5+wr.IntN(26))
	for i := range warm.Scripts {
		for _, eng := range []host.Engine{host.EngI, host.EngV} {
			warm.runScript(eng, i, nil)
			c.Inc("warm_prefix_programs")
		}
	}
	warm.runHistory(host.EngI, nil, nil)
	warm.runHistory(host.EngV, nil, nil)

	for _, eng := range []host.Engine{host.EngI, host.EngV} {
		warmHs := meteringHashes(s, eng)
		again := meteringHashes(s, eng)
		c.Eval(int64(2 * len(warmHs)))
		for _, h := range warmHs {
			if i := strings.IndexByte(h, '/'); i >= 0 {
				n, _ := strconv.Atoi(h[i+1:])
				c.Count("gauge_calls_observed", int64(n))
			}
		}
		spec := fmt.Sprintf("c31|%d|%s|%d|%d", c.Seed, c.Tier, c.Case, int(eng))
		fresh, err := runChild(spec, 4, "")
		if err != nil {
			c.Inc("child_failed")
			c.Note("child_error", err.Error())
			fresh = nil
		} else {
			c.Inc("fresh_process_runs")
		}
		cmp := func(label string, a, b []string) {
			if len(a) != len(b) {
				c.Violate(fmt.Sprintf("metering-count-differs[%s] %s", eng, label), fmt.Sprintf("%d vs %d executions", len(a), len(b)), map[string]any{"contract": s.Contract})
				return
			}
			for i := range a {
				c.Inc("sequences_compared")
				if a[i] != b[i] {
					src, kind := "", "script"
					if i < len(s.Scripts) {
						src = s.Scripts[i].Source
					} else if i == len(s.Scripts) {
						src, kind = s.Contract, "deploy"
					} else {
						src, kind = s.Txs[i-len(s.Scripts)-1].Source, "transaction"
					}
					c.Violate(fmt.Sprintf("metering-differs[%s] %s %s", eng, kind, label),
						fmt.Sprintf("engine %s: metering sequence of %s #%d differs (%s): %s vs %s", eng, kind, i, label, a[i], b[i]),
						map[string]any{"engine": eng.String(), "program": src, "contract": s.Contract, "schedule": label, "hash_a": a[i], "hash_b": b[i], "seed": c.Seed, "case": c.Case})
					return
				}
			}
		}
		cmp("warm-vs-repeat", warmHs, again)
		if fresh != nil {
			cmp("fresh-process-vs-warm", fresh, warmHs)
		}
	}
	if c.WantSample() {
		c.Sample(map[string]any{"first_script": s.Scripts[0].Source})
	}
}
