package prog

import (
	"crypto/sha256"
	"encoding/hex"
	"fmt"
	"regexp"
	"strings"

	"github.com/onflow/cadence/common"
	jsoncdc "github.com/onflow/cadence/encoding/json"

	"verif/harness/core"
	gen "verif/harness/gen/prog"
	"verif/harness/host"
)

// Obs is the canonical observation of one execution at the API boundary.
type Obs struct {
	Result   string
	ErrClass string
	ErrKind  string
	Logs     []string
	Events   []string
	Writes   []string // ordered SetValue records (key=value)
	Ledger   string   // canonical register dump after the execution
}

func normKind(k string) string {
	k = strings.TrimPrefix(k, "*")
	if i := strings.LastIndex(k, "."); i >= 0 {
		k = k[i+1:]
	}
	return k
}

func observe(h *host.Host, o host.Outcome) Obs {
	ob := Obs{ErrClass: string(host.Classify(o))}
	if o.Err != nil {
		ks := host.ErrKinds(o.Err)
		if len(ks) > 0 {
			ob.ErrKind = normKind(ks[len(ks)-1])
		}
	}
	if o.Value != nil {
		b, err := jsoncdc.Encode(o.Value)
		if err != nil {
			ob.Result = "unencodable:" + err.Error()
		} else {
			ob.Result = string(b)
		}
	}
	ob.Logs = append(ob.Logs, h.Logs...)
	for _, e := range h.Events {
		ob.Events = append(ob.Events, e.String())
	}
	for _, r := range h.Recs {
		if r.Kind == host.KSetValue {
			ob.Writes = append(ob.Writes, r.A+"="+r.B)
		}
	}
	ob.Ledger = h.Ledger.DumpString()
	return ob
}

func (o Obs) Hash() string {
	s := sha256.New()
	fmt.Fprintf(s, "%s|%s|%s|", o.Result, o.ErrClass, o.ErrKind)
	for _, l := range o.Logs {
		fmt.Fprintf(s, "L%s\x00", l)
	}
	for _, l := range o.Events {
		fmt.Fprintf(s, "E%s\x00", l)
	}
	for _, l := range o.Writes {
		fmt.Fprintf(s, "W%s\x00", l)
	}
	fmt.Fprintf(s, "R%s", o.Ledger)
	return hex.EncodeToString(s.Sum(nil)[:12])
}

// diffObs names the first field in which two observations differ ("" = equal).
func diffObs(a, b Obs, compareWrites bool) (field, av, bv string) {
	if a.ErrClass != b.ErrClass {
		return "error-class", a.ErrClass + ":" + a.ErrKind, b.ErrClass + ":" + b.ErrKind
	}
	if a.ErrKind != b.ErrKind {
		return "error-kind", a.ErrKind, b.ErrKind
	}
	if a.Result != b.Result {
		return "result", a.Result, b.Result
	}
	if d, x, y := diffList(a.Logs, b.Logs); d {
		return "logs", x, y
	}
	if d, x, y := diffList(a.Events, b.Events); d {
		return "events", x, y
	}
	if compareWrites {
		if d, x, y := diffList(a.Writes, b.Writes); d {
			return "register-writes", x, y
		}
	}
	if a.Ledger != b.Ledger {
		return "registers", fmt.Sprintf("%d bytes", len(a.Ledger)), fmt.Sprintf("%d bytes", len(b.Ledger))
	}
	return "", "", ""
}

func diffList(a, b []string) (bool, string, string) {
	n := len(a)
	if len(b) < n {
		n = len(b)
	}
	for i := 0; i < n; i++ {
		if a[i] != b[i] {
			return true, fmt.Sprintf("[%d] %s", i, core.Clip(a[i], 200)), fmt.Sprintf("[%d] %s", i, core.Clip(b[i], 200))
		}
	}
	if len(a) != len(b) {
		return true, fmt.Sprintf("len=%d", len(a)), fmt.Sprintf("len=%d", len(b))
	}
	return false, "", ""
}

// Scenario is a generated workload: scripts plus one transaction history over a contract.
type Scenario struct {
	World    *gen.World
	Scripts  []*gen.Program
	Contract string
	Txs      []*gen.Program
	Twin     bool // the contract is also deployed (same name) to account 0x2
}

func newScenario(r *gen.R, nscripts int) *Scenario {
	w := gen.NewWorld(r)
	s := &Scenario{World: w}
	for i := 0; i < nscripts; i++ {
		s.Scripts = append(s.Scripts, gen.Script(r, w, 6+r.IntN(14)))
	}
	s.Contract = gen.ContractSource(w)
	ntx := 3 + r.IntN(4)
	for i := 0; i < ntx; i++ {
		s.Txs = append(s.Txs, gen.Transaction(r, w, 5+r.IntN(10)))
		if r.IntN(6) == 0 {
			s.Txs = append(s.Txs, gen.FieldTx(r))
		}
	}
	if r.IntN(2) == 0 {
		// one commit that touches several (partly fresh) accounts
		at := r.IntN(len(s.Txs) + 1)
		s.Txs = append(s.Txs[:at], append([]*gen.Program{gen.MultiAccountTx(r)}, s.Txs[at:]...)...)
	}
	if r.IntN(2) == 0 {
		// destroys stored resources without importing the declaring contract
		s.Txs = append(s.Txs, gen.SweeperTx(r))
	}
	if r.IntN(3) == 0 {
		// the same contract under the same name on a second account; resources of both
		// locations are stored side by side and swept in one transaction
		s.Twin = true
		tw := gen.TwinTx(r)
		sw := gen.SweeperTx(r)
		at := len(s.Txs) / 2
		s.Txs = append(s.Txs[:at], append([]*gen.Program{tw}, s.Txs[at:]...)...)
		s.Txs = append(s.Txs, sw)
	}
	return s
}

// runHistory deploys the contract and runs the transactions on one engine, returning one
// observation per step (step 0 = deployment).
func (s *Scenario) runHistory(eng host.Engine, opts func(step int) *host.Options, visit func(step int, h *host.Host, o host.Outcome)) []Obs {
	h := host.New()
	var out []Obs
	var opt *host.Options
	if opts != nil {
		opt = opts(0)
	}
	tx := fmt.Sprintf(`transaction { prepare(signer: auth(Contracts) &Account) { signer.contracts.add(name: "C0", code: "%x".decodeHex()) } }`, s.Contract)
	if s.Twin {
		h.RunTx(eng, tx, nil, []common.Address{host.Addr(2)}, nil)
	}
	h.ResetTrace()
	d := h.RunTx(eng, tx, nil, []common.Address{host.Addr(1)}, opt)
	if visit != nil {
		visit(0, h, d)
	}
	out = append(out, observe(h, d))
	if d.Err != nil || d.Escaped != nil {
		return out
	}
	for i, t := range s.Txs {
		if opts != nil {
			opt = opts(i + 1)
		}
		h.ResetTrace()
		if opts == nil {
			opt = guard()
		}
		o := h.RunTx(eng, t.Source, nil, signersFor(t.Source), opt)
		if visit != nil {
			visit(i+1, h, o)
		}
		out = append(out, observe(h, o))
	}
	return out
}

func (s *Scenario) runScript(eng host.Engine, i int, opt *host.Options) (Obs, *host.Host, host.Outcome) {
	h := host.New()
	if opt == nil {
		opt = guard()
	}
	o := h.RunScript(eng, s.Scripts[i].Source, nil, opt)
	return observe(h, o), h, o
}

var prepareRe = regexp.MustCompile(`prepare\(([^\n]*)`)

// signersFor derives the signer accounts of a transaction from the number of parameters of its
// prepare block: account 0x1 first (it holds the deployed contract), then 0x2, 0x3, …
func signersFor(src string) []common.Address {
	n := 1
	if m := prepareRe.FindStringSubmatch(src); m != nil {
		// m[1] is the whole line of the prepare header (parameter types contain parentheses)
		n = strings.Count(m[1], "&Account")
		if n < 1 {
			n = 1
		}
	}
	out := make([]common.Address, n)
	for i := range out {
		out[i] = host.Addr(uint64(i + 1))
	}
	return out
}
