package prog

import (
	"fmt"
	"runtime"
	"sync"
	"sync/atomic"

	"github.com/onflow/cadence"
	"github.com/onflow/cadence/common"
	"github.com/onflow/cadence/encoding/ccf"
	jsoncdc "github.com/onflow/cadence/encoding/json"
	"github.com/onflow/cadence/parser"

	"verif/harness/core"
	gen "verif/harness/gen/prog"
	"verif/harness/host"
)

// C36 — concurrent checking and execution behave like sequential runs and involve no data races.
// Oracle 1: the Go race detector (this check is built with -race; reports are parsed by the parent).
// Oracle 2: every program's outcome under concurrency equals its sequential outcome.
// Every case runs in a fresh process so that lazily initialised shared state (sync.Once members,
// caches of built-in types, lexer pool) is first touched concurrently.

func init() {
	core.Register(&core.Prop{
		ID:           "C36",
		Race:         true,
		FreshProcess: true,
		MaxWorkers:   6, // each case already uses up to 16 goroutines
		Rule:         "per fresh process: 2..16 goroutines released by a barrier, each with its own host and ledger clone but a shared (mutex-protected) program cache holding the imported generated contract, execute generated scripts and transactions importing that contract on interpreter and VM; separate legs for concurrent parsing and for concurrent JSON-CDC/CCF encoding of values that share cadence.Type objects; outcome of every program compared with its sequential outcome; built with -race; distinct = distinct program text",
		Assumptions: []string{
			"the race detector only reports races on the interleavings that occurred; reach comes from fresh-process repetitions, shuffled start order and GOMAXPROCS in {2,8,16}",
			"each goroutine owns its host; only the program cache is shared and it is mutex-protected",
		},
		NumCases: func(tier string) int {
			if tier == "thorough" {
				return 160
			}
			return 6
		},
		Floors: map[string]int64{"concurrent_executions": 300, "overlapping_pairs": 100, "shared_programs_loaded": 5, "parse_leg": 100, "encode_leg": 100},
		Run:    runC36,
	})
}

type concTask struct {
	src string
	tx  bool
	eng host.Engine
}

func runC36(c *core.Ctx) {
	r := c.Rng
	procs := []int{2, 8, 16}[c.Case%3]
	runtime.GOMAXPROCS(procs)
	ng := 2 + r.IntN(c.Pick(7, 15))
	if c.Case%4 == 0 {
		ng = c.Pick(8, 16)
	}
	s := newScenario(r, c.Pick(4, 12))

	// template ledger with the contract deployed (sequentially, before anything concurrent)
	tmpl := map[host.Engine]*host.Host{}
	for _, eng := range []host.Engine{host.EngI, host.EngV} {
		h := host.New()
		d := h.Deploy(eng, host.Addr(1), "C0", s.Contract)
		if d.Err != nil || d.Escaped != nil {
			c.Inc("deploy_failed")
			return
		}
		tmpl[eng] = h
	}
	// scripts importing the shared contract
	var tasks []concTask
	for i, t := range s.Txs {
		eng := []host.Engine{host.EngI, host.EngV}[i%2]
		tasks = append(tasks, concTask{t.Source, true, eng})
	}
	for k := 0; k < c.Pick(8, 24); k++ {
		eng := []host.Engine{host.EngI, host.EngV}[k%2]
		tasks = append(tasks, concTask{importingScript(r, s.World), false, eng})
	}
	for i, p := range s.Scripts {
		eng := []host.Engine{host.EngI, host.EngV}[i%2]
		tasks = append(tasks, concTask{p.Source, false, eng})
	}
	for _, t := range tasks {
		c.Distinct(t.src)
	}

	newHost := func(eng host.Engine, shared *host.SharedPrograms) *host.Host {
		h := host.New()
		h.Ledger = tmpl[eng].Ledger.Clone()
		for k, v := range tmpl[eng].Codes {
			h.Codes[k] = v
		}
		h.UUID = tmpl[eng].UUID
		h.Shared = shared
		return h
	}
	runTask := func(t concTask, shared *host.SharedPrograms) Obs {
		h := newHost(t.eng, shared)
		opt := &host.Options{Config: host.DefaultConfig, KeepPrograms: true}
		var o host.Outcome
		if t.tx {
			o = h.RunTx(t.eng, t.src, nil, signersFor(t.src), opt)
		} else {
			o = h.RunScript(t.eng, t.src, nil, opt)
		}
		return observe(h, o)
	}

	// concurrent run first (fresh process: first use of everything happens concurrently)
	shared := map[host.Engine]*host.SharedPrograms{host.EngI: host.NewSharedPrograms(), host.EngV: host.NewSharedPrograms()}
	conc := make([][]Obs, ng)
	var seq atomic.Int64
	type span struct{ g, start, end int64 }
	spans := make([][]span, ng)
	var wg sync.WaitGroup
	barrier := make(chan struct{})
	order := r.Perm(len(tasks))
	for g := 0; g < ng; g++ {
		wg.Add(1)
		go func(g int) {
			defer wg.Done()
			<-barrier
			conc[g] = make([]Obs, len(tasks))
			for k := range tasks {
				ti := order[(k+g*7)%len(tasks)]
				st := seq.Add(1)
				conc[g][ti] = runTask(tasks[ti], shared[tasks[ti].eng])
				en := seq.Add(1)
				spans[g] = append(spans[g], span{int64(g), st, en})
			}
		}(g)
	}
	close(barrier)
	wg.Wait()
	c.Count("concurrent_executions", int64(ng*len(tasks)))
	c.Eval(int64(ng * len(tasks)))
	c.Count("shared_programs_loaded", int64(shared[host.EngI].Len()+shared[host.EngV].Len()))
	// overlaps between goroutines (by logical sequence numbers, not wall clock)
	var all []span
	for _, sp := range spans {
		all = append(all, sp...)
	}
	overlaps := int64(0)
	for i := 0; i < len(all) && overlaps < 100000; i++ {
		for j := i + 1; j < len(all); j++ {
			if all[i].g != all[j].g && all[i].start < all[j].end && all[j].start < all[i].end {
				overlaps++
			}
		}
	}
	c.Count("overlapping_pairs", overlaps)

	// sequential baseline (unshared caches)
	for ti, t := range tasks {
		base := runTask(t, nil)
		for g := 0; g < ng; g++ {
			if f, av, bv := diffObs(base, conc[g][ti], t.tx); f != "" {
				c.Violate(fmt.Sprintf("concurrent-differs-from-sequential[%s] in %s (%s / %s)", t.eng, f, base.ErrKind, conc[g][ti].ErrKind),
					fmt.Sprintf("engine %s: outcome under concurrency differs from the sequential run in %s: %s vs %s", t.eng, f, core.Clip(av, 300), core.Clip(bv, 300)),
					map[string]any{"program": t.src, "contract": s.Contract, "goroutines": ng, "gomaxprocs": procs, "field": f, "sequential": av, "concurrent": bv})
				break
			}
		}
	}

	// ---- leg: concurrent parsing (lexer / token pools)
	var srcs []string
	for _, t := range tasks {
		srcs = append(srcs, t.src)
	}
	srcs = append(srcs, s.Contract)
	parseOne := func(src string) string {
		p, err := parser.ParseProgram(nil, []byte(src), parser.Config{})
		if err != nil {
			return "ERR:" + err.Error()
		}
		return p.String()
	}
	parsed := make([][]string, ng)
	barrier2 := make(chan struct{})
	for g := 0; g < ng; g++ {
		wg.Add(1)
		go func(g int) {
			defer wg.Done()
			<-barrier2
			for k := range srcs {
				parsed[g] = append(parsed[g], parseOne(srcs[(k+g)%len(srcs)]))
			}
		}(g)
	}
	close(barrier2)
	wg.Wait()
	for g := 0; g < ng; g++ {
		for k := range srcs {
			c.Inc("parse_leg")
			if parsed[g][k] != parseOne(srcs[(k+g)%len(srcs)]) {
				c.Violate("concurrent-parse-differs", "parsing concurrently gave a different AST than parsing alone", map[string]any{"source": srcs[(k+g)%len(srcs)]})
			}
		}
	}

	// ---- leg: concurrent encoding of values sharing cadence.Type objects
	vals := sharedTypeValues()
	enc := func(v cadence.Value) string {
		j, err := jsoncdc.Encode(v)
		if err != nil {
			return "JSONERR:" + err.Error()
		}
		b, err := ccf.Encode(v)
		if err != nil {
			return "CCFERR:" + err.Error()
		}
		return string(j) + "|" + fmt.Sprintf("%x", b) + "|" + v.Type().ID()
	}
	encoded := make([][]string, ng)
	barrier3 := make(chan struct{})
	for g := 0; g < ng; g++ {
		wg.Add(1)
		go func(g int) {
			defer wg.Done()
			<-barrier3
			for rep := 0; rep < 3; rep++ {
				for _, v := range vals {
					encoded[g] = append(encoded[g], enc(v))
				}
			}
		}(g)
	}
	close(barrier3)
	wg.Wait()
	for g := 0; g < ng; g++ {
		for k := range encoded[g] {
			c.Inc("encode_leg")
			if encoded[g][k] != enc(vals[k%len(vals)]) {
				c.Violate("concurrent-encode-differs", "encoding concurrently gave different bytes than encoding alone", map[string]any{"value": vals[k%len(vals)].String()})
			}
		}
	}
	if c.WantSample() {
		c.Sample(map[string]any{"goroutines": ng, "gomaxprocs": procs, "tasks": len(tasks), "example_script": tasks[len(s.Txs)].src})
	}
}

// importingScript: a script that imports the shared contract and exercises its types.
func importingScript(r *gen.R, w *gen.World) string {
	k := r.IntN(40)
	return fmt.Sprintf(`import C0 from 0x1
access(all) fun main(): [AnyStruct] {
    let r <- C0.make1(%d)
    r.putKid(<- C0.make(%d))
    r.setChild(<- C0.make(%d))
    let ref = &r as &C0.R1
    let n = ref.kidCount() + C0.viaRIface(ref) + C0.rec(%d)
    let k <- r.takeKid()
    let t = k.getType().identifier
    destroy k
    let c = r.kidSum()
    destroy r
    C0.fire(n, t)
    let any: AnyStruct = C0.Color.%s
    return [n, t, c, any.isInstance(Type<C0.Color>()), C0.adder(%d)(%d), Type<@C0.R1>().identifier, Type<{C0.SI0}>().identifier, Type<auth(C0.E0) &C0.S0>().identifier]
}`, k, k+1, k+2, r.IntN(5), []string{"red", "green", "blue"}[r.IntN(3)], r.IntN(9), r.IntN(9))
}

// sharedTypeValues builds values whose types are shared objects (intersection / composite types
// with lazily initialised members).
func sharedTypeValues() []cadence.Value {
	loc := common.AddressLocation{Address: common.Address{0, 0, 0, 0, 0, 0, 0, 1}, Name: "C0"}
	iface1 := cadence.NewStructInterfaceType(loc, "C0.SI0", nil, nil)
	iface2 := cadence.NewStructInterfaceType(loc, "C0.SI1", nil, nil)
	inter := cadence.NewIntersectionType([]cadence.Type{iface2, iface1})
	st := cadence.NewStructType(loc, "C0.S0", []cadence.Field{
		{Identifier: "a", Type: cadence.IntType},
		{Identifier: "t", Type: cadence.MetaType},
		{Identifier: "o", Type: cadence.NewOptionalType(cadence.StringType)},
	}, nil)
	ref := cadence.NewReferenceType(cadence.NewEntitlementSetAuthorization(nil, []common.TypeID{"A.0000000000000001.C0.E1", "A.0000000000000001.C0.E0"}, cadence.Conjunction), inter)
	var vals []cadence.Value
	for i := 0; i < 8; i++ {
		v := cadence.NewStruct([]cadence.Value{
			cadence.NewInt(i),
			cadence.NewTypeValue(ref),
			cadence.NewOptional(cadence.String(fmt.Sprint("s", i))),
		}).WithType(st)
		vals = append(vals, v)
		vals = append(vals, cadence.NewArray([]cadence.Value{v, v}).WithType(cadence.NewVariableSizedArrayType(st)))
		vals = append(vals, cadence.NewTypeValue(inter))
	}
	return vals
}
