package prog

import (
	"fmt"
	"sort"
	"strings"

	"verif/harness/core"
	gen "verif/harness/gen/prog"
	"verif/harness/host"
)

// C01 — checker-accepted programs never fail with internal errors.
// Oracle: class of the returned error chain (internal / unprovoked external / escaped panic are
// violations) and liveness of the worker process.

func isCheckerRejection(o host.Outcome) bool {
	if o.Err == nil {
		return false
	}
	rej := false
	host.Walk(o.Err, func(e error) {
		tn := fmt.Sprintf("%T", e)
		if strings.Contains(tn, "CheckerError") || strings.Contains(tn, "ParsingCheckingError") || tn == "parser.Error" {
			rej = true
		}
	})
	return rej
}

// featureSig is a short stable signature of the features a program used (for violation keys).
func errSig(o host.Outcome) string {
	if o.Escaped != nil {
		return "escaped:" + core.Clip(stripNums(fmt.Sprint(o.Escaped)), 80)
	}
	ks := host.ErrKinds(o.Err)
	if len(ks) == 0 {
		return "none"
	}
	// last two kinds
	if len(ks) > 2 {
		ks = ks[len(ks)-2:]
	}
	return strings.Join(ks, ">") + ":" + core.Clip(stripNums(firstLine(innermostMsg(o.Err))), 90)
}

func innermostMsg(err error) string {
	msg := ""
	host.Walk(err, func(e error) {
		tn := fmt.Sprintf("%T", e)
		if tn == "runtime.Error" || tn == "interpreter.Error" {
			return
		}
		msg = e.Error()
	})
	return msg
}

func firstLine(s string) string {
	if i := strings.IndexByte(s, '\n'); i >= 0 {
		return s[:i]
	}
	return s
}

func stripNums(s string) string {
	var b strings.Builder
	for _, r := range s {
		if r >= '0' && r <= '9' {
			continue
		}
		b.WriteRune(r)
	}
	return b.String()
}

func topFeatures(f map[string]int) []string {
	var ks []string
	for k := range f {
		ks = append(ks, k)
	}
	sort.Strings(ks)
	return ks
}

// judgeC01 applies the C01 oracle to one outcome. Returns true when the program completed.
func judgeC01(c *core.Ctx, eng host.Engine, kind string, src string, extra map[string]any, o host.Outcome, rerun func(string) host.Outcome) bool {
	cls := host.Classify(o)
	c.Inc("class_" + string(cls) + "_" + eng.String())
	switch cls {
	case host.ClassNone:
		return true
	case host.ClassUser:
		for _, k := range host.ErrKinds(o.Err) {
			c.Inc("user_error_kind:" + k)
		}
		return false
	}
	w := map[string]any{"engine": eng.String(), "kind": kind, "program": src, "class": string(cls), "error": host.ErrText(o), "error_kinds": host.ErrKinds(o.Err)}
	for k, v := range extra {
		w[k] = v
	}
	minKey := ""
	if rerun != nil {
		sig := errSig(o)
		min := minimize(src, func(cand string) bool {
			o2 := rerun(cand)
			return host.Classify(o2) == cls && errSig(o2) == sig
		}, 300)
		w["minimal_program"] = min
		minKey = " | min " + skeletonKey(min)
	}
	c.Violate(fmt.Sprintf("%s[%s] %s: %s%s", kind, eng, cls, errSig(o), minKey),
		fmt.Sprintf("accepted %s failed on engine %s with a %s error: %s", kind, eng, cls, core.Clip(firstLine(innermostMsg(o.Err)), 300)), w)
	return false
}

const c01ProgramsPerCase = 12

func init() {
	core.Register(&core.Prop{
		ID:   "C01",
		Rule: "typed program generator (world of entitlements, interfaces with conditions and default functions, structs, resources with nested resources, enums, events, attachment; type-directed bodies with casts, references, closures, optional chaining, containers, loops, switch, resources moves, storage and capability calls); each accepted program runs on interpreter, VM and VM+peephole; scripts and multi-transaction histories over a deployed contract; distinct = distinct accepted program text; non-trivial = accepted by the checker and executed",
		Assumptions: []string{
			"error class is decided by walking the whole returned error chain (errors.InternalError / ExternalError / UserError)",
			"no host fault is injected, so an external-class error is a violation too",
			"atree validation (a test-only configuration) is off, as in production embedders",
		},
		NumCases: func(tier string) int {
			if tier == "thorough" {
				return 3200
			}
			return 160
		},
		Floors: map[string]int64{
			"accepted": 500, "completed": 300, "tx_accepted": 100,
			"feat:cast": 10, "feat:ref_struct": 5, "feat:ref_authorized": 5, "feat:closure": 10, "feat:attachment": 5, "feat:iface_call": 3,
			"feat:res_decl": 50, "feat:res_swap": 1, "feat:res_move_into_nested": 3, "feat:optional_chaining": 3, "feat:storage_save_resource": 3,
			"feat:capability": 1, "feat:emit": 10,
		},
		Run: runC01,
	})
}

func runC01(c *core.Ctx) {
	r := c.Rng
	w := gen.NewWorld(r)
	// --- scripts
	for i := 0; i < c01ProgramsPerCase; i++ {
		p := gen.Script(r, w, 6+r.IntN(14))
		c.Inc("generated")
		accepted := false
		for _, eng := range host.AllEngines {
			h := host.New()
			o := h.RunScript(eng, p.Source, nil, guard())
			c.Eval(1)
			if memGuarded(o) {
				c.Inc("memory_guard_skipped")
				continue
			}
			if isCheckerRejection(o) {
				if eng == host.EngI {
					c.Inc("rejected_by_checker")
					noteRejection(c, o)
				}
				break
			}
			accepted = true
			done := judgeC01(c, eng, "script", p.Source, map[string]any{"features": topFeatures(p.Features)}, o, func(cand string) host.Outcome {
				return host.New().RunScript(eng, cand, nil, limited())
			})
			if eng == host.EngI && done {
				c.Inc("completed")
			}
		}
		if accepted {
			c.Inc("accepted")
			c.Distinct(p.Source)
			for f, n := range p.Features {
				c.Count("feat:"+f, int64(n))
			}
			if c.WantSample() && i == 0 {
				c.Sample(map[string]any{"kind": "script", "source": p.Source})
			}
		}
	}
	// --- transaction history over the same world, one ledger per engine
	contract := gen.ContractSource(w)
	ntx := 3 + r.IntN(4)
	var txs []*gen.Program
	for i := 0; i < ntx; i++ {
		txs = append(txs, gen.Transaction(r, w, 5+r.IntN(10)))
	}
	twin := r.IntN(3) == 0
	if twin {
		// the same contract under the same name on account 0x2; resources of both locations
		// are stored side by side and destroyed by one transaction that imports neither
		at := len(txs) / 2
		txs = append(txs[:at], append([]*gen.Program{gen.TwinTx(r)}, txs[at:]...)...)
		txs = append(txs, gen.SweeperTx(r))
	}
	for _, eng := range host.AllEngines {
		h := host.New()
		if twin {
			h.Deploy(eng, host.Addr(2), "C0", contract)
		}
		d := h.Deploy(eng, host.Addr(1), "C0", contract)
		c.Eval(1)
		if d.Err != nil || d.Escaped != nil {
			if isCheckerRejection(d) {
				c.Inc("contract_rejected")
				noteRejection(c, d)
				break
			}
			judgeC01(c, eng, "deploy", contract, nil, d, nil)
			break
		}
		for i, tx := range txs {
			preLedger, preUUID := h.Ledger.Clone(), h.UUID
			o := h.RunTx(eng, tx.Source, nil, signersFor(tx.Source), guard())
			c.Eval(1)
			if memGuarded(o) {
				c.Inc("memory_guard_skipped")
				continue
			}
			if isCheckerRejection(o) {
				if eng == host.EngI {
					c.Inc("tx_rejected_by_checker")
					noteRejection(c, o)
				}
				continue
			}
			if eng == host.EngI {
				c.Inc("tx_accepted")
				c.Distinct(tx.Source)
				for f, n := range tx.Features {
					c.Count("feat:"+f, int64(n))
				}
			}
			pre := preLedger
			done := judgeC01(c, eng, "transaction", tx.Source, map[string]any{"contract": contract, "tx_index": i, "features": topFeatures(tx.Features)}, o, func(cand string) host.Outcome {
				// re-run the candidate from the ledger as it was before this transaction
				h2 := host.New()
				h2.Ledger = pre.Clone()
				for k, v := range h.Codes {
					h2.Codes[k] = v
				}
				h2.UUID = preUUID
				return h2.RunTx(eng, cand, nil, signersFor(cand), limited())
			})
			if done && eng == host.EngI {
				c.Inc("tx_completed")
			}
		}
	}
}

func noteRejection(c *core.Ctx, o host.Outcome) {
	ks := host.ErrKinds(o.Err)
	for _, k := range ks {
		if strings.HasPrefix(k, "*sema.") || strings.HasPrefix(k, "sema.") || strings.Contains(k, "parser") {
			c.Inc("rejection_kind:" + k)
			if c.Thorough() {
				return
			}
			c.Note("rejection_example:"+k, core.Clip(o.Err.Error(), 700))
			return
		}
	}
}
