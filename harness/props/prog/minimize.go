package prog

import (
	"crypto/sha256"
	"encoding/hex"
	"regexp"
	"strings"
	"verif/harness/host"
)

// Delta-minimisation of program-shaped witnesses (DESIGN.md §2.7): remove statements and blocks of
// the generated body while the same oracle verdict persists, then normalise (alpha-rename, strip
// numerals) so that the minimal skeleton is a stable witness key.

// bodyRange returns the index range [lo, hi) of the body lines of the entry point.
func bodyRange(lines []string) (int, int) {
	lo := -1
	for i, l := range lines {
		t := strings.TrimSpace(l)
		if strings.HasPrefix(t, "access(all) fun main(") || strings.HasPrefix(t, "prepare(") {
			lo = i + 1
		}
	}
	if lo < 0 {
		return 0, 0
	}
	// body ends at the closing brace with the entry point's indentation
	hi := len(lines)
	depth := 1
	for i := lo; i < len(lines); i++ {
		depth += strings.Count(lines[i], "{") - strings.Count(lines[i], "}")
		if depth <= 0 {
			hi = i
			break
		}
	}
	return lo, hi
}

// blockEnd: if line i opens a block, the index of the line that closes it (else i).
func blockEnd(lines []string, i, hi int) int {
	depth := strings.Count(lines[i], "{") - strings.Count(lines[i], "}")
	if depth <= 0 {
		return i
	}
	for j := i + 1; j < hi; j++ {
		depth += strings.Count(lines[j], "{") - strings.Count(lines[j], "}")
		if depth <= 0 {
			return j
		}
	}
	return i
}

var declRe = regexp.MustCompile(`^\s*(let|var)\s+([a-z]+[0-9]+)\b`)

// removeWithUses removes the declaration at line i together with every later statement (or whole
// block) of the body that mentions the declared name; the name is also dropped from a final
// `return [...]` list.
func removeWithUses(lines []string, i, hi int, name string) []string {
	// names whose declarations are being removed (grows transitively: a removed statement that
	// itself declares a name, e.g. `let q2 <- attach A() to <-q1`, takes its uses along too)
	names := []string{name}
	uses := func(l string) bool {
		for _, n := range names {
			if regexp.MustCompile(`\b` + regexp.QuoteMeta(n) + `\b`).MatchString(l) {
				return true
			}
		}
		return false
	}
	out := append([]string{}, lines[:i]...)
	for j := i + 1; j < len(lines); j++ {
		if j >= hi || !uses(lines[j]) {
			out = append(out, lines[j])
			continue
		}
		t := strings.TrimSpace(lines[j])
		if strings.HasPrefix(t, "return [") {
			l := lines[j]
			for _, n := range names {
				l = regexp.MustCompile(`\b`+regexp.QuoteMeta(n)+`\b,?\s*`).ReplaceAllString(l, "")
			}
			l = strings.Replace(l, ", ]", "]", 1)
			out = append(out, l)
			continue
		}
		if strings.HasPrefix(t, "}") {
			return nil // would break a block structure
		}
		end := blockEnd(lines, j, hi)
		for k := j; k <= end; k++ {
			if m := declRe.FindStringSubmatch(lines[k]); m != nil {
				names = append(names, m[2])
			}
			if m := ifLetRe.FindStringSubmatch(lines[k]); m != nil {
				names = append(names, m[1])
			}
		}
		j = end
	}
	return out
}

var ifLetRe = regexp.MustCompile(`^\s*if let ([a-z]+[0-9]+)\b`)

var consumeRe = regexp.MustCompile(`<-\s*(q[0-9]+)\b`)
var saveIfRe = regexp.MustCompile(`^\s*if (C0\.)?acct\.storage\.type\(at: [^)]*\) == nil \{\s*$`)

// minimize shrinks src while still(candidate) holds; at most budget oracle calls.
func minimize(src string, still func(string) bool, budget int) string {
	lines := strings.Split(src, "\n")
	try := func(cand []string) bool {
		if budget <= 0 {
			return false
		}
		budget--
		return still(strings.Join(cand, "\n"))
	}
	for pass := 0; pass < 4 && budget > 0; pass++ {
		changed := false
		lo, hi := bodyRange(lines)
		// 1. remove statements / blocks, last first
		for i := hi - 1; i >= lo && budget > 0; i-- {
			if i >= len(lines) {
				continue
			}
			t := strings.TrimSpace(lines[i])
			if t == "" || t == "}" || strings.HasPrefix(t, "} else") || strings.HasPrefix(t, "return") {
				continue
			}
			end := blockEnd(lines, i, hi)
			cand := append(append([]string{}, lines[:i]...), lines[end+1:]...)
			if try(cand) {
				lines = cand
				hi -= end - i + 1
				changed = true
				continue
			}
			// a declaration can only go together with the statements that use the name
			if m := declRe.FindStringSubmatch(lines[i]); m != nil && end == i {
				if cand := removeWithUses(lines, i, hi, m[2]); cand != nil && try(cand) {
					hi -= len(lines) - len(cand)
					lines = cand
					changed = true
				}
			}
		}
		// 1b. unwrap blocks: replace `if/while/for ... { body }` by its body (then-part only)
		lo, hi = bodyRange(lines)
		for i := hi - 1; i >= lo && budget > 0; i-- {
			if i >= len(lines) {
				continue
			}
			t := strings.TrimSpace(lines[i])
			if !(strings.HasPrefix(t, "if ") || strings.HasPrefix(t, "while ") || strings.HasPrefix(t, "for ")) || !strings.HasSuffix(t, "{") {
				continue
			}
			end := blockEnd(lines, i, hi)
			if end == i {
				continue
			}
			// then-part ends at a top-level `} else {` of this block, if any
			bodyEnd := end
			depth := 0
			for j := i; j < end; j++ {
				tj := strings.TrimSpace(lines[j])
				if j > i && depth == 1 && strings.HasPrefix(tj, "} else") {
					bodyEnd = j
					break
				}
				depth += strings.Count(lines[j], "{") - strings.Count(lines[j], "}")
			}
			cand := append([]string{}, lines[:i]...)
			cand = append(cand, lines[i+1:bodyEnd]...)
			cand = append(cand, lines[end+1:]...)
			if try(cand) {
				hi -= len(lines) - len(cand)
				lines = cand
				changed = true
			}
		}
		// 2. replace consuming idioms by a plain destroy
		lo, hi = bodyRange(lines)
		for i := lo; i < hi && budget > 0; i++ {
			t := strings.TrimSpace(lines[i])
			if strings.HasPrefix(t, "destroy ") || strings.HasPrefix(t, "let ") || strings.HasPrefix(t, "var ") {
				continue
			}
			if saveIfRe.MatchString(lines[i]) {
				end := blockEnd(lines, i, hi)
				blk := strings.Join(lines[i:end+1], "\n")
				if m := consumeRe.FindStringSubmatch(blk); m != nil {
					cand := append(append([]string{}, lines[:i]...), "        destroy "+m[1])
					cand = append(cand, lines[end+1:]...)
					if try(cand) {
						lines = cand
						hi -= end - i
						changed = true
					}
				}
				continue
			}
			if m := consumeRe.FindStringSubmatch(t); m != nil && !strings.Contains(t, "<->") {
				cand := append([]string{}, lines...)
				cand[i] = "        destroy " + m[1]
				if try(cand) {
					lines = cand
					changed = true
				}
			}
		}
		if !changed {
			break
		}
	}
	return strings.Join(lines, "\n")
}

var (
	identRe = regexp.MustCompile(`\b([a-z]+)[0-9]+\b`)
	numRe   = regexp.MustCompile(`[0-9]+(\.[0-9]+)?`)
	strRe   = regexp.MustCompile(`"[^"]*"`)
	wsRe    = regexp.MustCompile(`\s+`)
)

// skeleton is the normalised body of a (minimised) program: identifiers alpha-renamed to their
// prefix, numerals and string contents stripped, whitespace collapsed.
func skeleton(src string) string {
	lines := strings.Split(src, "\n")
	lo, hi := bodyRange(lines)
	var out []string
	for _, l := range lines[lo:hi] {
		l = strings.ReplaceAll(l, "C0.", "")
		l = strRe.ReplaceAllString(l, `""`)
		l = identRe.ReplaceAllString(l, "$1")
		l = numRe.ReplaceAllString(l, "N")
		l = strings.TrimSpace(wsRe.ReplaceAllString(l, " "))
		if l == "" || l == `log("")` {
			continue
		}
		out = append(out, l)
	}
	return strings.Join(out, "; ")
}

func skeletonKey(src string) string {
	s := skeleton(src)
	h := sha256.Sum256([]byte(s))
	short := s
	if len(short) > 400 {
		short = short[:400] + "…"
	}
	return hex.EncodeToString(h[:5]) + " " + short
}

// limited returns execution options with a computation limit: minimisation candidates may not
// terminate (e.g. a loop whose increment was removed), so they run metered.
func limited() *host.Options {
	return &host.Options{Config: host.DefaultConfig, Comp: &host.Gauge{CompLimit: 200_000}, Mem: &host.Gauge{MemLimit: 256 << 20}}
}
