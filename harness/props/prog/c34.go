package prog

import (
	"fmt"

	"verif/harness/core"
	"verif/harness/host"
)

// C34 — the bytecode VM (with and without peephole optimisation) is observationally equivalent
// to the interpreter: differential oracle over result, error class and kind, events, logs and
// committed register contents, from identical (empty, then evolving) ledgers.

func init() {
	core.Register(&core.Prop{
		ID:   "C34",
		Rule: "every generated script and every step of every generated transaction history (contract deployment + 3..6 transactions that create/move/store/load resources and values) is run on interpreter, VM and VM+peephole from identical ledgers; distinct = distinct accepted program text; non-trivial = accepted and executed on all three engines",
		Assumptions: []string{
			"outcomes are compared on: JSON-CDC bytes of the result, error class (user/internal/external) and Go type name of the innermost error (package prefix stripped), event strings, log lines, and the byte-exact sorted register dump after each transaction",
		},
		NumCases: func(tier string) int {
			if tier == "thorough" {
				return 4000
			}
			return 200
		},
		Floors: map[string]int64{"scripts_compared": 500, "tx_compared": 300, "committed_histories": 50, "nonempty_ledgers": 50, "user_errors_compared": 1},
		Run:    runC34,
	})
}

func runC34(c *core.Ctx) {
	s := newScenario(c.Rng, 10)
	for i, p := range s.Scripts {
		var obs [3]Obs
		rejected := false
		for ei, eng := range host.AllEngines {
			ob, _, o := s.runScript(eng, i, nil)
			c.Eval(1)
			if isCheckerRejection(o) {
				rejected = true
				break
			}
			obs[ei] = ob
		}
		if rejected {
			c.Inc("rejected_by_checker")
			continue
		}
		c.Inc("scripts_compared")
		c.Distinct(p.Source)
		if obs[0].ErrClass == "user" {
			c.Inc("user_errors_compared")
		}
		for _, pair := range [][2]int{{0, 1}, {1, 2}} {
			a, b := pair[0], pair[1]
			if f, av, bv := diffObs(obs[a], obs[b], false); f != "" {
				ea, eb := host.AllEngines[a], host.AllEngines[b]
				c.Violate(fmt.Sprintf("script %s-vs-%s differs in %s (%s / %s)", ea, eb, f, obs[a].ErrKind, obs[b].ErrKind),
					fmt.Sprintf("script outcome differs between %s and %s in %s: %s  vs  %s", ea, eb, f, core.Clip(av, 300), core.Clip(bv, 300)),
					map[string]any{"program": p.Source, "field": f, ea.String(): av, eb.String(): bv, "features": topFeatures(p.Features)})
			}
		}
		if i == 0 && c.WantSample() {
			c.Sample(map[string]any{"kind": "script", "source": p.Source, "result": core.Clip(obs[0].Result, 300), "logs": len(obs[0].Logs)})
		}
	}
	// transaction history
	var hist [3][]Obs
	for ei, eng := range host.AllEngines {
		hist[ei] = s.runHistory(eng, nil, nil)
		c.Eval(int64(len(hist[ei])))
	}
	n := len(hist[0])
	if len(hist[1]) < n {
		n = len(hist[1])
	}
	if len(hist[2]) < n {
		n = len(hist[2])
	}
	if len(hist[0]) > 1 {
		c.Inc("committed_histories")
	}
	for step := 0; step < n; step++ {
		c.Inc("tx_compared")
		if step > 0 {
			c.Distinct(s.Txs[step-1].Source)
		}
		if len(hist[0][step].Ledger) > 0 {
			c.Inc("nonempty_ledgers")
		}
		if hist[0][step].ErrClass == "user" {
			c.Inc("user_errors_compared")
		}
		for _, pair := range [][2]int{{0, 1}, {1, 2}} {
			a, b := pair[0], pair[1]
			if f, av, bv := diffObs(hist[a][step], hist[b][step], true); f != "" {
				ea, eb := host.AllEngines[a], host.AllEngines[b]
				src := s.Contract
				if step > 0 {
					src = s.Txs[step-1].Source
				}
				var prior []string
				for k := 0; k < step-1 && k < len(s.Txs); k++ {
					prior = append(prior, s.Txs[k].Source)
				}
				c.Violate(fmt.Sprintf("tx %s-vs-%s differs in %s (%s / %s)", ea, eb, f, hist[a][step].ErrKind, hist[b][step].ErrKind),
					fmt.Sprintf("transaction step %d differs between %s and %s in %s: %s  vs  %s", step, ea, eb, f, core.Clip(av, 300), core.Clip(bv, 300)),
					map[string]any{"contract": s.Contract, "step": step, "program": src, "prior_transactions": prior, "field": f, ea.String(): av, eb.String(): bv})
				break
			}
		}
	}
	if len(hist[0]) != len(hist[1]) || len(hist[1]) != len(hist[2]) {
		c.Violate("history-length-differs", fmt.Sprintf("deployment outcome differs between engines: %d/%d/%d steps ran", len(hist[0]), len(hist[1]), len(hist[2])),
			map[string]any{"contract": s.Contract, "I": hist[0][0], "V": hist[1][0], "Vp": hist[2][0]})
	}
}
