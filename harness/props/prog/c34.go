package prog

import (
	"fmt"
	"github.com/onflow/cadence/common"

	"verif/harness/core"
	"verif/harness/host"
)

// C34 — the bytecode VM (with and without peephole optimisation) is observationally equivalent
// to the interpreter: differential oracle over result, error class and kind, events, logs and
// committed register contents, from identical (empty, then evolving) ledgers.

func init() {
	core.Register(&core.Prop{
		ID:   "C34",
		Rule: "every generated script and every step of every generated transaction history (contract deployment + 3..6 transactions that create/move/store/load resources and values) is run on interpreter, VM and VM+peephole from identical ledgers; distinct = distinct accepted program text; non-trivial = accepted and executed on all three engines; a diverging program is delta-minimised and its normalised skeleton is the witness key",
		Assumptions: []string{
			"outcomes are compared on: JSON-CDC bytes of the result, error class (user/internal/external) and Go type name of the innermost error (package prefix stripped), event strings, log lines, ordered register writes and the byte-exact sorted register dump after each transaction",
			"a history is compared up to and including its first diverging step (later steps start from different ledgers)",
		},
		NumCases: func(tier string) int {
			if tier == "thorough" {
				return 4000
			}
			return 200
		},
		Floors: map[string]int64{"scripts_compared": 500, "tx_compared": 300, "committed_histories": 50, "nonempty_ledgers": 50, "user_errors_compared": 1},
		Run:    runC34,
	})
}

func runC34(c *core.Ctx) {
	s := newScenario(c.Rng, 10)
	guarded := false
	for i, p := range s.Scripts {
		var obs [3]Obs
		rejected := false
		for ei, eng := range host.AllEngines {
			ob, _, o := s.runScript(eng, i, guard())
			c.Eval(1)
			if isCheckerRejection(o) {
				rejected = true
				break
			}
			if memGuarded(o) {
				guarded = true
				break
			}
			obs[ei] = ob
		}
		if guarded {
			guarded = false
			c.Inc("memory_guard_skipped")
			continue
		}
		if rejected {
			c.Inc("rejected_by_checker")
			continue
		}
		c.Inc("scripts_compared")
		c.Distinct(p.Source)
		if obs[0].ErrClass == "user" {
			c.Inc("user_errors_compared")
		}
		for _, pair := range [][2]int{{0, 1}, {1, 2}} {
			a, b := pair[0], pair[1]
			if f, av, bv := diffObs(obs[a], obs[b], false); f != "" {
				ea, eb := host.AllEngines[a], host.AllEngines[b]
				min := minimize(p.Source, func(cand string) bool {
					ha, hb := host.New(), host.New()
					oa := ha.RunScript(ea, cand, nil, limited())
					ob := hb.RunScript(eb, cand, nil, limited())
					if isCheckerRejection(oa) || isCheckerRejection(ob) {
						return false
					}
					f2, _, _ := diffObs(observe(ha, oa), observe(hb, ob), false)
					return f2 == f
				}, 300)
				c.Violate(fmt.Sprintf("script %s-vs-%s differs in %s | min %s", ea, eb, f, skeletonKey(min)),
					fmt.Sprintf("script outcome differs between %s and %s in %s: %s  vs  %s", ea, eb, f, core.Clip(av, 300), core.Clip(bv, 300)),
					map[string]any{"program": p.Source, "minimal_program": min, "field": f, ea.String(): av, eb.String(): bv, "features": topFeatures(p.Features)})
				break
			}
		}
		if i == 0 && c.WantSample() {
			c.Sample(map[string]any{"kind": "script", "source": p.Source, "result": core.Clip(obs[0].Result, 300), "logs": len(obs[0].Logs)})
		}
	}

	// transaction history: the three engines step in lock-step, each on its own ledger
	var hs [3]*host.Host
	for ei := range host.AllEngines {
		hs[ei] = host.New()
	}
	steps := append([]string{fmt.Sprintf(`transaction { prepare(signer: auth(Contracts) &Account) { signer.contracts.add(name: "C0", code: "%x".decodeHex()) } }`, s.Contract)}, nil...)
	for _, t := range s.Txs {
		steps = append(steps, t.Source)
	}
	if s.Twin {
		// the same contract under the same name on account 0x2 (not a compared step)
		for ei, eng := range host.AllEngines {
			hs[ei].RunTx(eng, steps[0], nil, []common.Address{host.Addr(2)}, nil)
		}
	}
	for step, src := range steps {
		var obs [3]Obs
		var pre [3]*host.Ledger
		var preUUID [3]uint64
		rejected := false
		for ei, eng := range host.AllEngines {
			h := hs[ei]
			pre[ei], preUUID[ei] = h.Ledger.Clone(), h.UUID
			h.ResetTrace()
			o := h.RunTx(eng, src, nil, signersFor(src), guard())
			c.Eval(1)
			if isCheckerRejection(o) && step > 0 {
				rejected = true
			}
			if memGuarded(o) {
				guarded = true
			}
			obs[ei] = observe(h, o)
		}
		if guarded {
			// the harness' own memory bound was hit on some engine: the ledgers may differ from here on
			c.Inc("memory_guard_skipped")
			break
		}
		if rejected {
			c.Inc("tx_rejected_by_checker")
			continue
		}
		c.Inc("tx_compared")
		if step > 0 {
			c.Distinct(src)
		}
		if step == 1 {
			c.Inc("committed_histories")
		}
		if len(obs[0].Ledger) > 0 {
			c.Inc("nonempty_ledgers")
		}
		if obs[0].ErrClass == "user" {
			c.Inc("user_errors_compared")
		}
		diverged := false
		for _, pair := range [][2]int{{0, 1}, {1, 2}} {
			a, b := pair[0], pair[1]
			f, av, bv := diffObs(obs[a], obs[b], true)
			if f == "" {
				continue
			}
			diverged = true
			ea, eb := host.AllEngines[a], host.AllEngines[b]
			codes := hs[a].Codes
			rerun := func(eng host.Engine, ei int, cand string) (Obs, bool) {
				h2 := host.New()
				h2.Ledger = pre[ei].Clone()
				for k, v := range codes {
					h2.Codes[k] = v
				}
				h2.UUID = preUUID[ei]
				o2 := h2.RunTx(eng, cand, nil, signersFor(cand), limited())
				return observe(h2, o2), !isCheckerRejection(o2)
			}
			min := src
			if step > 0 {
				min = minimize(src, func(cand string) bool {
					oa, ok1 := rerun(ea, a, cand)
					ob, ok2 := rerun(eb, b, cand)
					if !ok1 || !ok2 {
						return false
					}
					f2, _, _ := diffObs(oa, ob, true)
					return f2 == f
				}, 300)
			}
			var prior []string
			for k := 1; k < step; k++ {
				prior = append(prior, steps[k])
			}
			c.Violate(fmt.Sprintf("tx %s-vs-%s differs in %s | min %s", ea, eb, f, skeletonKey(min)),
				fmt.Sprintf("transaction step %d differs between %s and %s in %s: %s  vs  %s", step, ea, eb, f, core.Clip(av, 300), core.Clip(bv, 300)),
				map[string]any{"contract": s.Contract, "step": step, "program": src, "minimal_program": min, "prior_transactions": prior, "field": f, ea.String(): av, eb.String(): bv})
			break
		}
		if diverged {
			break
		}
		if step == 0 && obs[0].ErrClass != "none" {
			break // contract did not deploy
		}
	}
}
