package stor

import (
	"verif/harness/core"
)

// C45 — type identity is preserved across representations.
//
// Each case: (1) a fresh checked universe (random identifiers, random addresses / script IDs, one
// prelude per location kind) and N random type recipes over it, checked subtree by subtree:
// ID(sema) == ID(static) == ID(exported); sema -> static -> sema yields an equal type;
// import(export) equals the static type; every member order of entitlement sets / intersections gives
// the same ID and equal types; nominal type IDs decode to (location, qualified identifier);
// (2) random (location, qualified identifier) pairs: TypeID -> DecodeTypeID round trip;
// (3) batches of run-time type constructor assertions in scripts on all three engines.

func c45NumCases(tier string) int {
	if tier == "thorough" {
		return 512
	}
	return 48
}

func c45Run(c *core.Ctx) {
	r := c.Rng
	nTypes := c.Pick(420, 2000)
	nDecode := c.Pick(400, 2000)
	nScripts := c.Pick(8, 32)
	const nAssert = 32

	u := c45NewUniverse(r)
	c.Inc("universes_checked")
	c45CheckEntitlementNominals(c, u)
	c45GoLeg(c, u, r, nTypes)
	c45DecodeLeg(c, r, nDecode)
	c45ScriptLeg(c, r, nScripts, nAssert)
}

func init() {
	core.Register(&core.Prop{
		ID:    "C45",
		Level: "exploration",
		Rule: "case = a fresh universe (the same ~50 declarations with random identifiers, parsed and checked by the real checker at a random " +
			"address location (contract), a second address location (contract interface), a string, identifier, transaction, script and REPL location, " +
			"plus the built-in nominal types) and N random type recipes over it (depth <= 4: every built-in leaf type, composites of every kind, " +
			"interfaces, optionals, variable/constant-sized arrays, dictionaries with hashable keys, references with unauthorized / conjunction / " +
			"disjunction / mapped authorization, intersections (also with a legacy restricted type), capabilities, function types (view/impure, arity 0-3), " +
			"inclusive ranges), every subtree compared in the three representations, every member order of every entitlement set / intersection rebuilt; " +
			"N random (location, qualified identifier) pairs decoded; M scripts of 32 run-time-constructor assertions (2/3 valid nestings compared with " +
			"Type<T>() and the Go-side ID, 1/3 invalid argument combinations expected nil) run on 3 engines. distinct = distinct root type IDs, " +
			"direct type IDs and script texts.",
		Assumptions: []string{
			"the checker elaborates the prelude declarations correctly (the harness takes nominal checker types from the elaboration, looked up by location.TypeID(qualified identifier))",
			"validity of constructor arguments (hashable key, reference, concrete integer, interface set) is decided by the harness' own reading of the constructor doc strings and the type-annotation rules, not by calling the checker",
			"ImportType(ExportType(t)) is judged only for types ImportType is defined for (not function or attachment types; counted in import_skipped_function_or_attachment)",
			"address locations are named like the one contract they hold; identifier locations are identifiers; the nil location only holds built-in names (none starts with a location prefix)",
			"equality of types is the representations' own Equal; IDs are compared as strings",
		},
		NumCases: c45NumCases,
		Run:      c45Run,
		Floors:   c45Floors,
	})
}
