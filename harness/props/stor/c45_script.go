package stor

import (
	"encoding/hex"
	"fmt"
	"math/rand/v2"
	"strings"

	"github.com/onflow/cadence"
	"github.com/onflow/cadence/common"

	"verif/harness/core"
	"verif/harness/host"
)

// C45 — script leg: the run-time type constructors, on all three engines.
//
// A script declares the prelude at top level (types `s.<script id>.X`), imports a deployed contract
// with the same declarations (types `A.<address>.C.X`) and evaluates a batch of assertions
//     c45chk(<constructor expression>, Type<T>())
// where the constructor expression is a random nesting of run-time constructors that, by the harness'
// own reading of the constructor documentation, denotes T — or is invalid and must yield nil.
// The script returns for every assertion "nil" or ("eq"|"ne") + "|" + the constructed type's identifier.

// ---------------------------------------------------------------- rendering recipes as Cadence syntax

func (n *c45Node) render() string {
	paren := func(k *c45Node, kinds ...c45Kind) string {
		s := k.render()
		for _, kd := range kinds {
			if k.Kind == kd {
				return "(" + s + ")"
			}
		}
		return s
	}
	switch n.Kind {
	case c45Prim:
		return n.Prim.Name
	case c45Nom:
		return n.Nom.Denote
	case c45Opt:
		return paren(n.Kids[0], c45Ref, c45Fun) + "?"
	case c45VarArr:
		return "[" + n.Kids[0].render() + "]"
	case c45ConstArr:
		return fmt.Sprintf("[%s; %d]", n.Kids[0].render(), n.Size)
	case c45Dict:
		return "{" + n.Kids[0].render() + ": " + n.Kids[1].render() + "}"
	case c45Ref:
		auth := ""
		switch n.Auth {
		case c45AuthConj, c45AuthDisj:
			sep := ", "
			if n.Auth == c45AuthDisj {
				sep = " | "
			}
			var names []string
			for _, e := range n.AuthEnt {
				names = append(names, e.Denote)
			}
			auth = "auth(" + strings.Join(names, sep) + ") "
		case c45AuthMap:
			auth = "auth(mapping " + n.AuthMap.Denote + ") "
		}
		return auth + "&" + paren(n.Kids[0], c45Ref, c45Fun, c45Opt)
	case c45Inter:
		var names []string
		for _, e := range n.Intfs {
			names = append(names, e.Denote)
		}
		return "{" + strings.Join(names, ", ") + "}"
	case c45Cap:
		return "Capability<" + n.Kids[0].render() + ">"
	case c45CapBare:
		return "Capability"
	case c45Range:
		return "InclusiveRange<" + n.Kids[0].render() + ">"
	case c45Fun:
		var ps []string
		for _, k := range n.Kids[:len(n.Kids)-1] {
			ps = append(ps, k.annot())
		}
		s := "fun(" + strings.Join(ps, ", ") + "): " + n.Kids[len(n.Kids)-1].annot()
		if n.View {
			s = "view " + s
		}
		return s
	}
	panic("c45: render")
}

// annot is the recipe as a type annotation: resource types carry `@` at the top of the annotation.
func (n *c45Node) annot() string {
	if n.isResource() {
		return "@" + n.render()
	}
	return n.render()
}

func (n *c45Node) typeExpr() string { return "Type<" + n.annot() + ">()" }

// ---------------------------------------------------------------- constructor expressions

type c45ExprGen struct {
	r    *rand.Rand
	used map[string]int // constructor name -> uses (valid nesting)
	// flat: only the root is a constructor call, its arguments are Type<T>() (except attachment types,
	// which can only be named through CompositeType)
	flat bool
	// cur: the constructors used by the expression being rendered, in first-use order
	cur []string
}

func (g *c45ExprGen) begin(flat bool) { g.flat, g.cur = flat, nil }

func (g *c45ExprGen) note(ctor string) {
	g.used[ctor]++
	for _, c := range g.cur {
		if c == ctor {
			return
		}
	}
	g.cur = append(g.cur, ctor)
}

func c45Quote(s string) string {
	var sb strings.Builder
	sb.WriteByte('"')
	for _, ch := range s {
		switch {
		case ch == '"' || ch == '\\':
			sb.WriteByte('\\')
			sb.WriteRune(ch)
		case ch < 0x20 || ch > 0x7e:
			fmt.Fprintf(&sb, "\\u{%x}", ch)
		default:
			sb.WriteRune(ch)
		}
	}
	sb.WriteByte('"')
	return sb.String()
}

// ctorOf names the constructor that builds the root of the recipe ("" = none: not constructible).
func (n *c45Node) ctorOf() string {
	switch n.Kind {
	case c45Nom:
		switch n.Nom.Kind {
		case c45KStruct, c45KResource, c45KContract, c45KEnum, c45KEvent, c45KAttachment:
			return "CompositeType"
		}
	case c45Opt:
		return "OptionalType"
	case c45VarArr:
		return "VariableSizedArrayType"
	case c45ConstArr:
		return "ConstantSizedArrayType"
	case c45Dict:
		return "DictionaryType"
	case c45Ref:
		if n.Auth == c45AuthNone || n.Auth == c45AuthConj {
			return "ReferenceType"
		}
	case c45Inter:
		return "IntersectionType"
	case c45Cap:
		return "CapabilityType"
	case c45Fun:
		// FunctionType builds impure function types; its `parameters` argument is an array of Type values,
		// and a Type value of a type that contains a function type cannot be put into an array
		// ("cannot store non-storable type")
		if !n.View {
			for _, k := range n.Kids[:len(n.Kids)-1] {
				if k.contains(func(m *c45Node) bool { return m.Kind == c45Fun }) {
					return ""
				}
			}
			return "FunctionType"
		}
	case c45Range:
		return "InclusiveRangeType"
	}
	return ""
}

var c45OptionalCtor = map[string]bool{
	"DictionaryType": true, "CompositeType": true, "ReferenceType": true, "IntersectionType": true,
	"CapabilityType": true, "InclusiveRangeType": true,
}

func c45ShuffledIDs(r *rand.Rand, ns []*c45Nominal) string {
	ids := make([]string, len(ns))
	for i, idx := range c45Order(len(ns), r) {
		ids[i] = c45Quote(string(ns[idx].semaType().ID()))
	}
	return "[" + strings.Join(ids, ", ") + "]"
}

// expr renders a constructor expression for the recipe; forceCtor makes the root a constructor call
// when one exists. The result has type `Type` (inner, force-unwrapped) or `Type?`/`Type` (top).
func (g *c45ExprGen) expr(n *c45Node, top bool) string {
	ctor := n.ctorOf()
	attachment := n.Kind == c45Nom && n.Nom.Kind == c45KAttachment
	if ctor == "" || (!top && !attachment && (g.flat || g.r.IntN(3) == 0)) {
		return n.typeExpr()
	}
	g.note(ctor)
	var s string
	switch ctor {
	case "CompositeType":
		s = "CompositeType(" + c45Quote(string(n.Nom.semaType().ID())) + ")"
	case "OptionalType":
		s = "OptionalType(" + g.expr(n.Kids[0], false) + ")"
	case "VariableSizedArrayType":
		s = "VariableSizedArrayType(" + g.expr(n.Kids[0], false) + ")"
	case "ConstantSizedArrayType":
		s = fmt.Sprintf("ConstantSizedArrayType(type: %s, size: %d)", g.expr(n.Kids[0], false), n.Size)
	case "DictionaryType":
		s = "DictionaryType(key: " + g.expr(n.Kids[0], false) + ", value: " + g.expr(n.Kids[1], false) + ")"
	case "ReferenceType":
		s = "ReferenceType(entitlements: " + c45ShuffledIDs(g.r, n.AuthEnt) + ", type: " + g.expr(n.Kids[0], false) + ")"
	case "IntersectionType":
		s = "IntersectionType(types: " + c45ShuffledIDs(g.r, n.Intfs) + ")"
	case "CapabilityType":
		s = "CapabilityType(" + g.expr(n.Kids[0], false) + ")"
	case "FunctionType":
		var ps []string
		for _, k := range n.Kids[:len(n.Kids)-1] {
			ps = append(ps, g.expr(k, false))
		}
		s = "FunctionType(parameters: [" + strings.Join(ps, ", ") + "], return: " + g.expr(n.Kids[len(n.Kids)-1], false) + ")"
	case "InclusiveRangeType":
		s = "InclusiveRangeType(" + g.expr(n.Kids[0], false) + ")"
	}
	if !top && c45OptionalCtor[ctor] {
		s += "!"
	}
	return s
}

// ---------------------------------------------------------------- assertions

type c45Assertion struct {
	Ctor     string
	Expr     string
	Want     string // type expression compared against
	Expect   string // "nil" or "eq|<id>"
	ArgShape string
	Recipe   string
	// Used: every constructor the expression calls; Flat: only the root is a constructor call
	Used []string
	Flat bool
	// Exportable: the constructed Type value may be put into the returned array (a Type value of a type
	// that contains a function type cannot: "cannot store non-storable type")
	Exportable bool
}

func (a *c45Assertion) line() string {
	s := "    c45g = " + a.Expr + "\n    c45r.append(c45chk(c45g, " + a.Want + "))\n"
	if a.Exportable {
		return s + "    c45t.append(c45g)\n"
	}
	return s + "    c45t.append(nil)\n"
}

type c45ScriptWorld struct {
	u        *c45Universe
	contract *c45Prelude // deployed at an address
	local    *c45Prelude // declared by the script
	g        *c45Gen
}

func (w *c45ScriptWorld) byRole(p *c45Prelude, role string, nested bool) *c45Nominal {
	for _, n := range p.Nominals {
		if n.Role == role && strings.Contains(n.QID, ".") == nested {
			return n
		}
	}
	panic("c45: no role " + role)
}

// validAssertion: a random valid recipe whose root is built by a constructor.
func (w *c45ScriptWorld) validAssertion(r *rand.Rand, eg *c45ExprGen) *c45Assertion {
	var n *c45Node
	for {
		n = w.g.gen(1 + r.IntN(3))
		if n.Kind == c45Nom && n.Nom.Kind == c45KAttachment {
			continue
		}
		if n.ctorOf() == "" {
			n = &c45Node{Kind: c45Opt, Kids: []*c45Node{n}}
		}
		break
	}
	c45Build(n, nil)
	eg.begin(r.IntN(2) == 0)
	expr := eg.expr(n, true)
	return &c45Assertion{
		Ctor: n.ctorOf(), Expr: expr, Want: n.typeExpr(), Used: eg.cur, Flat: len(eg.cur) == 1,
		Expect: "eq|" + string(n.Sema.ID()), ArgShape: n.scriptShape(), Recipe: n.describe(),
		Exportable: !n.contains(func(m *c45Node) bool { return m.Kind == c45Fun }),
	}
}

const c45NeverType = "Type<Never>()"

func c45AddrLiteral(a common.Address) string { return "0x" + hex.EncodeToString(a[:]) }

// invalidAssertion: an argument combination that the constructor documentation declares invalid.
func (w *c45ScriptWorld) invalidAssertion(r *rand.Rand, eg *c45ExprGen) *c45Assertion {
	g := w.g
	eg.begin(true)
	sub := func(n *c45Node) string {
		c45Build(n, nil)
		return eg.expr(n, false)
	}
	somePrelude := func() *c45Prelude {
		if r.IntN(2) == 0 {
			return w.contract
		}
		return w.local
	}
	idOf := func(n *c45Nominal) string { return string(n.semaType().ID()) }
	unknownIn := func(p *c45Prelude) string {
		s, _ := c45Ident(r)
		return string(p.Loc.TypeID(nil, "Zz9_"+s))
	}
	otherAddress := func() string {
		al := w.contract.Loc.(common.AddressLocation)
		a := al.Address
		a[3] ^= 0x5a
		return string(common.AddressLocation{Address: a, Name: al.Name}.TypeID(nil, w.byRole(w.contract, "S", true).QID))
	}
	switch r.IntN(6) {
	case 0:
		// DictionaryType: "Returns nil if the key type is not a valid dictionary key."
		var key *c45Node
		for {
			key = g.gen(r.IntN(3))
			if !key.isHashable() && !(key.Kind == c45Nom && key.Nom.Kind == c45KAttachment) {
				break
			}
		}
		val := g.gen(r.IntN(2))
		if val.Kind == c45Nom && val.Nom.Kind == c45KAttachment {
			val = g.prim()
		}
		return &c45Assertion{Ctor: "DictionaryType", Expr: "DictionaryType(key: " + sub(key) + ", value: " + sub(val) + ")",
			Want: c45NeverType, Expect: "nil", ArgShape: "key=" + key.argShape(), Recipe: "key " + key.describe()}
	case 1:
		// ReferenceType: "Providing invalid entitlements in the input array will result in a nil return value"
		p := somePrelude()
		var bad, class string
		switch r.IntN(9) {
		case 0:
			bad, class = unknownIn(p), "unknown-entitlement"
		case 1:
			bad, class = idOf(w.byRole(p, "S", r.IntN(2) == 0 || p == w.contract)), "composite-id"
		case 2:
			bad, class = idOf(w.byRole(p, "SI", r.IntN(2) == 0 || p == w.contract)), "interface-id"
		case 3:
			bad, class = idOf(w.byRole(p, "M", r.IntN(2) == 0 || p == w.contract)), "mapping-id"
		case 4:
			bad, class = "c45garbage", "garbage"
		case 5:
			bad, class = "", "empty-string"
		case 6:
			e := w.byRole(p, "E1", true)
			_, last, _ := strings.Cut(e.QID, ".")
			bad, class = last, "unqualified-name"
		case 7:
			bad, class = otherAddress(), "unknown-address"
		default:
			bad, class = "Identity", "builtin-mapping-id"
		}
		ids := []string{c45Quote(bad)}
		for i := r.IntN(3); i > 0; i-- {
			ids = append(ids, c45Quote(idOf(c45Pick(r, g.ents))))
		}
		r.Shuffle(len(ids), func(i, j int) { ids[i], ids[j] = ids[j], ids[i] })
		target := g.nominalLeaf()
		return &c45Assertion{Ctor: "ReferenceType",
			Expr: "ReferenceType(entitlements: [" + strings.Join(ids, ", ") + "], type: " + sub(target) + ")",
			Want: c45NeverType, Expect: "nil", ArgShape: "entitlement=" + class, Recipe: "entitlement id " + bad}
	case 2:
		// CompositeType: "Returns nil if the identifier does not correspond to any composite type."
		p := somePrelude()
		var bad, class string
		switch r.IntN(10) {
		case 0:
			bad, class = idOf(c45Pick(r, g.sIntf)), "interface-id"
		case 1:
			bad, class = idOf(c45Pick(r, g.ents)), "entitlement-id"
		case 2:
			bad, class = unknownIn(p), "unknown-name"
		case 3:
			bad, class = c45Pick(r, []string{"Int", "String", "AnyStruct", "Capability", "Type", "Never", "UFix64", "Address", "Block", "Path"}), "builtin-non-composite"
		case 4:
			bad, class = "c45garbage", "garbage"
		case 5:
			bad, class = "", "empty-string"
		case 6:
			bad, class = otherAddress(), "unknown-address"
		case 7:
			// the address without zero padding / in upper case denotes no type (IDs are canonical strings)
			al := w.contract.Loc.(common.AddressLocation)
			qid := w.byRole(w.contract, "S", true).QID
			canonical := string(al.TypeID(nil, qid))
			trimmed := "A." + strings.TrimLeft(hex.EncodeToString(al.Address[:]), "0") + "." + qid
			upper := "A." + strings.ToUpper(hex.EncodeToString(al.Address[:])) + "." + qid
			switch {
			case trimmed != canonical && r.IntN(2) == 0:
				bad, class = trimmed, "non-canonical-address"
			case upper != canonical:
				bad, class = upper, "non-canonical-address"
			default:
				bad, class = canonical+".", "trailing-dot"
			}
		case 8:
			bad, class = idOf(w.byRole(p, "S", true))+".", "trailing-dot"
		default:
			bad, class = " "+idOf(w.byRole(p, "S", true)), "leading-space"
		}
		return &c45Assertion{Ctor: "CompositeType", Expr: "CompositeType(" + c45Quote(bad) + ")",
			Want: c45NeverType, Expect: "nil", ArgShape: "id=" + class, Recipe: "identifier " + bad}
	case 3:
		// IntersectionType: "Returns nil if the intersection is not valid."
		p := somePrelude()
		nested := p == w.contract || r.IntN(2) == 0
		var ids []string
		var class string
		switch r.IntN(7) {
		case 0:
			class = "empty"
		case 1:
			ids, class = []string{idOf(w.byRole(p, "S", nested))}, "composite-id"
			if r.IntN(2) == 0 {
				ids = append(ids, idOf(w.byRole(p, "SI", nested)))
			}
		case 2:
			ids, class = []string{idOf(w.byRole(p, "SI", nested)), idOf(w.byRole(p, "RI", nested))}, "mixed-kinds"
		case 3:
			ids, class = []string{idOf(w.byRole(p, "SI2", nested)), idOf(w.byRole(p, "SI2", nested))}, "duplicate"
			if r.IntN(2) == 0 {
				ids = append(ids, idOf(w.byRole(p, "SI", nested)))
			}
		case 4:
			ids, class = []string{idOf(w.byRole(p, "SIF", nested)), idOf(w.byRole(p, "SIG", nested))}, "member-clash"
		case 5:
			ids, class = []string{unknownIn(p)}, "unknown-id"
			if r.IntN(2) == 0 {
				ids = append(ids, idOf(w.byRole(p, "SI", nested)))
			}
		default:
			ids, class = []string{idOf(w.byRole(p, "E1", nested))}, "entitlement-id"
		}
		r.Shuffle(len(ids), func(i, j int) { ids[i], ids[j] = ids[j], ids[i] })
		q := make([]string, len(ids))
		for i, s := range ids {
			q[i] = c45Quote(s)
		}
		return &c45Assertion{Ctor: "IntersectionType", Expr: "IntersectionType(types: [" + strings.Join(q, ", ") + "])",
			Want: c45NeverType, Expect: "nil", ArgShape: "types=" + class, Recipe: strings.Join(ids, ", ")}
	case 4:
		// CapabilityType: "Returns nil if the type is not a reference."
		var arg *c45Node
		for {
			arg = g.gen(r.IntN(3))
			if !arg.isRef() && !(arg.Kind == c45Nom && arg.Nom.Kind == c45KAttachment) {
				break
			}
		}
		return &c45Assertion{Ctor: "CapabilityType", Expr: "CapabilityType(" + sub(arg) + ")",
			Want: c45NeverType, Expect: "nil", ArgShape: "type=" + arg.argShape(), Recipe: arg.describe()}
	default:
		// InclusiveRangeType: "Returns nil if the member type is not a valid inclusive range member type."
		// Valid member types are the concrete integer types (the checker rejects InclusiveRange<Integer>:
		// "memberType must only be a leaf integer type").
		var arg *c45Node
		for {
			if r.IntN(2) == 0 {
				arg = g.prim()
			} else {
				arg = g.gen(r.IntN(2))
			}
			if !arg.isLeafInteger() && !(arg.Kind == c45Nom && arg.Nom.Kind == c45KAttachment) {
				break
			}
		}
		shape := arg.argShape()
		return &c45Assertion{Ctor: "InclusiveRangeType", Expr: "InclusiveRangeType(" + sub(arg) + ")",
			Want: c45NeverType, Expect: "nil", ArgShape: "type=" + shape, Recipe: arg.describe()}
	}
}

// ---------------------------------------------------------------- running

const c45ChkFun = `access(all) fun c45chk(_ got: Type?, _ want: Type): String {
    if got == nil { return "nil" }
    return (got! == want ? "eq|" : "ne|").concat(got!.identifier)
}
`

func c45ScriptErrKey(out host.Outcome) string {
	ks := host.ErrKinds(out.Err)
	last := ""
	if len(ks) > 0 {
		last = ks[len(ks)-1]
	}
	return string(host.Classify(out)) + ":" + last
}

// c45ScriptLeg deploys one contract and runs nScripts scripts of nAssert assertions on every engine.
func c45ScriptLeg(c *core.Ctx, r *rand.Rand, nScripts, nAssert int) {
	h := host.New()
	h.NoRecord = true

	// the deployed contract: random name, random non-zero address
	var addr common.Address
	var addrClass string
	for {
		addr, addrClass = c45RandAddress(r)
		if addr != (common.Address{}) {
			break
		}
	}
	nm := &c45Namer{r: r, used: map[string]bool{}}
	cname := nm.fresh()
	contract := c45BuildPrelude(r, nm, common.AddressLocation{Address: addr, Name: cname}, "", addrClass, false, true)
	if out := h.Deploy(host.EngI, addr, cname, contract.Src); out.Err != nil || out.Escaped != nil {
		c.Violate("script-setup:deploy:"+c45ScriptErrKey(out), "deploying the prelude contract failed: "+core.Clip(host.ErrText(out), 600),
			map[string]any{"contract": contract.Src, "address": c45AddrLiteral(addr), "error": host.ErrText(out)})
		return
	}
	c.Inc("script_contracts_deployed")

	scriptByte := byte(r.IntN(256))
	local := c45BuildPrelude(r, nm, common.ScriptLocation{0x1, scriptByte}, "", "", false, true)

	u := &c45Universe{Preludes: []*c45Prelude{contract, local}}
	u.index()
	w := &c45ScriptWorld{u: u, contract: contract, local: local, g: c45NewGen(r, u, true)}

	header := "import " + cname + " from " + c45AddrLiteral(addr) + "\n" + local.Src + c45ChkFun

	// constructors seen failing in a flat assertion, per engine (keys "<engine>/<constructor>"; lookups only)
	broken := map[string]bool{}

	for s := 0; s < nScripts; s++ {
		eg := &c45ExprGen{r: r, used: map[string]int{}}
		var as []*c45Assertion
		for i := 0; i < nAssert; i++ {
			if r.IntN(3) == 0 {
				as = append(as, w.invalidAssertion(r, eg))
			} else {
				as = append(as, w.validAssertion(r, eg))
			}
		}
		var sb strings.Builder
		sb.WriteString(header)
		sb.WriteString("access(all) fun main(): [AnyStruct] {\n    let c45r: [String] = []\n    let c45t: [Type?] = []\n    var c45g: Type? = nil\n")
		for _, a := range as {
			sb.WriteString(a.line())
		}
		sb.WriteString("    return [c45r, c45t]\n}\n")
		src := sb.String()
		c.Inc("scripts_generated")
		c.DistinctHash(c45Hash(src))
		if s == 0 && c.WantSample() {
			c.Sample(map[string]any{"script_assertion": strings.TrimSpace(as[0].line()), "expected": as[0].Expect})
		}

		for _, eng := range host.AllEngines {
			out := h.RunScript(eng, src, nil, &host.Options{Config: host.DefaultConfig, ScriptLoc: scriptByte})
			c.Eval(int64(len(as)))
			c.Inc("script_runs_" + eng.String())
			if out.Err != nil || out.Escaped != nil {
				c.Violate(fmt.Sprintf("script-error[%s]:%s", eng, c45ScriptErrKey(out)),
					fmt.Sprintf("engine %s: a generated constructor script failed: %s", eng, core.Clip(host.ErrText(out), 800)),
					map[string]any{"engine": eng.String(), "script": src, "error": host.ErrText(out)})
				continue
			}
			var arr, types cadence.Array
			ok := false
			if both, isArr := out.Value.(cadence.Array); isArr && len(both.Values) == 2 {
				var ok1, ok2 bool
				arr, ok1 = both.Values[0].(cadence.Array)
				types, ok2 = both.Values[1].(cadence.Array)
				ok = ok1 && ok2 && len(arr.Values) == len(as) && len(types.Values) == len(as)
			}
			if !ok {
				c.Violate(fmt.Sprintf("script-result[%s]:shape", eng), fmt.Sprintf("engine %s: result is not [[String; %d], [Type?; %d]]: %v", eng, len(as), len(as), out.Value),
					map[string]any{"engine": eng.String(), "script": src})
				continue
			}
			// the exported Type values: the external representation's ID is the Go-side ID
			for i, a := range as {
				if !a.Exportable || a.Expect == "nil" {
					continue
				}
				opt, _ := types.Values[i].(cadence.Optional)
				tv, isType := opt.Value.(cadence.TypeValue)
				if !isType || tv.StaticType == nil {
					continue // a nil result is reported by the assertion itself
				}
				var gotID string
				if okID, m := c45Guard(func() { gotID = tv.StaticType.ID() }); !okID {
					gotID = "PANIC: " + m
				}
				c.Inc("script_exported_ids_" + eng.String())
				if gotID != a.Expect[3:] {
					c.Violate(fmt.Sprintf("script-export-id[%s]:%s", eng, a.ArgShape),
						fmt.Sprintf("engine %s: the exported value of %s has type ID %q, the checker's type ID is %q", eng, core.Clip(a.Expr, 300), gotID, a.Expect[3:]),
						map[string]any{"engine": eng.String(), "assertion": strings.TrimSpace(a.line()), "exported_id": gotID, "expected_id": a.Expect[3:],
							"exported_type": fmt.Sprintf("%T", tv.StaticType), "recipe": a.Recipe,
							"contract": contract.Src, "contract_address": c45AddrLiteral(addr), "script_location_byte": scriptByte, "script_prelude": local.Src})
				}
			}
			// pass 1: flat assertions (one constructor call) and invalid-argument assertions; pass 2: nested
			// ones — a nested failure that uses a constructor already seen failing flat is explained by it
			for pass := 1; pass <= 2; pass++ {
				for i, a := range as {
					if (pass == 1) != (a.Flat || a.Expect == "nil") {
						continue
					}
					sv, _ := arr.Values[i].(cadence.String)
					got := string(sv)
					wantNil := a.Expect == "nil"
					if got == a.Expect {
						if wantNil {
							c.Inc("ctor_nil_" + a.Ctor + "_" + eng.String())
						} else {
							c.Inc("ctor_valid_" + a.Ctor + "_" + eng.String())
						}
						continue
					}
					gotClass := "type"
					switch {
					case got == "nil":
						gotClass = "nil"
					case wantNil:
						gotClass = "type"
					case strings.HasPrefix(got, "ne|") && got[3:] == a.Expect[3:]:
						gotClass = "not-equal-same-identifier"
					case strings.HasPrefix(got, "ne|"):
						gotClass = "not-equal"
					case strings.HasPrefix(got, "eq|"):
						gotClass = "equal-but-other-identifier"
					}
					expClass := "equal"
					if wantNil {
						expClass = "nil"
					}
					family := "ctor"
					if pass == 1 {
						if !wantNil {
							broken[eng.String()+"/"+a.Ctor] = true
						}
					} else {
						explained := false
						for _, used := range a.Used {
							if broken[eng.String()+"/"+used] {
								explained = true
							}
						}
						if explained {
							c.Inc("ctor_nested_failures_explained_by_flat")
							continue
						}
						family = "ctor-nested"
					}
					c.Violate(fmt.Sprintf("%s[%s]:%s:expected-%s-got-%s:%s", family, eng, a.Ctor, expClass, gotClass, a.ArgShape),
						fmt.Sprintf("engine %s: %s: expected %s, observed %s", eng, core.Clip(a.Expr, 300), a.Expect, got),
						map[string]any{
							"engine": eng.String(), "assertion": strings.TrimSpace(a.line()), "expected": a.Expect, "observed": got,
							"recipe": a.Recipe, "minimal_script": c45MinimalScript(cname, addr, local.Src, a),
							"contract": contract.Src, "contract_address": c45AddrLiteral(addr), "script_location_byte": scriptByte,
						})
				}
			}
		}
		// nested constructor uses (informational)
		for _, name := range []string{"OptionalType", "VariableSizedArrayType", "ConstantSizedArrayType", "DictionaryType", "ReferenceType",
			"CompositeType", "FunctionType", "IntersectionType", "CapabilityType", "InclusiveRangeType"} {
			if k := eg.used[name]; k > 0 {
				c.Count("ctor_calls_generated_"+name, int64(k))
			}
		}
	}
}

func c45MinimalScript(cname string, addr common.Address, localSrc string, a *c45Assertion) string {
	return "import " + cname + " from " + c45AddrLiteral(addr) + "\n" + localSrc + c45ChkFun +
		"access(all) fun main(): String {\n    return c45chk(" + a.Expr + ", " + a.Want + ")\n}\n"
}

