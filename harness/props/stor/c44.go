package stor

import (
	"bufio"
	"bytes"
	"encoding/hex"
	"encoding/json"
	"fmt"
	"math/rand/v2"
	"os"
	"path/filepath"
	"sort"
	"strings"
	"sync"

	"github.com/onflow/cadence/common"
	"github.com/onflow/cadence/interpreter"

	"verif/harness/core"
	"verif/harness/host"
)

// C44 — stored-value encodings round-trip and stay stable across versions.
//
//  (a) fresh leg: random recipes -> value/type -> encode -> decode -> canonical equality (+ Equal) -> re-encode
//      -> identical bytes (leaf storables, static types, and containers through an in-memory slab storage);
//  (b) corpus leg: /verif/corpus/c44 (written ONCE by the pinned tree, see README there):
//      recipe -> rebuild -> encode == golden bytes; golden bytes -> decode == recipe; golden ledgers opened by the
//      current runtime -> reader script log == golden log (3 engines); read-only transaction -> zero SetValue.

const c44CorpusCases = 32

func c44CorpusDir() string {
	if d := os.Getenv("VERIF_CORPUS_DIR"); d != "" {
		return filepath.Join(d, "c44")
	}
	return "/verif/corpus/c44"
}

// ---------------------------------------------------------------- corpus file formats

type c44TypeEntry struct {
	ID     string   `json:"id"`
	Recipe *c44Type `json:"recipe"`
	Hex    string   `json:"hex"`
}

type c44ValEntry struct {
	ID     string  `json:"id"`
	Recipe *c44Val `json:"recipe"`
	Hex    string  `json:"hex"`
}

type c44ContEntry struct {
	ID     string   `json:"id"`
	Addr   string   `json:"addr"`
	Recipe *c44Val  `json:"recipe"`
	Root   string   `json:"root"`
	Slabs  c44Slabs `json:"slabs"`
}

type c44World struct {
	ContractName   string `json:"contract_name"`
	Contract       string `json:"contract"`
	ReaderTemplate string `json:"reader_template"`
	NoopTx         string `json:"noop_tx"`
}

type c44Corpus struct {
	Types      []c44TypeEntry
	Values     []c44ValEntry
	Containers []c44ContEntry
	Ledgers    []c44LedgerEntry
	World      c44World
	Err        error
}

var (
	c44CorpusOnce sync.Once
	c44CorpusData *c44Corpus
)

func c44ReadJSONL[T any](path string) ([]T, error) {
	f, err := os.Open(path)
	if err != nil {
		return nil, err
	}
	defer f.Close()
	var out []T
	sc := bufio.NewScanner(f)
	sc.Buffer(make([]byte, 1<<20), 64<<20)
	for sc.Scan() {
		line := bytes.TrimSpace(sc.Bytes())
		if len(line) == 0 {
			continue
		}
		var e T
		if err := json.Unmarshal(line, &e); err != nil {
			return nil, fmt.Errorf("%s: %w", path, err)
		}
		out = append(out, e)
	}
	return out, sc.Err()
}

func c44WriteJSONL[T any](path string, es []T) error {
	var buf bytes.Buffer
	for _, e := range es {
		b, err := json.Marshal(e)
		if err != nil {
			return err
		}
		buf.Write(b)
		buf.WriteByte('\n')
	}
	return os.WriteFile(path, buf.Bytes(), 0o644)
}

func c44LoadCorpus() *c44Corpus {
	c44CorpusOnce.Do(func() {
		d := c44CorpusDir()
		cp := &c44Corpus{}
		var err error
		if cp.Types, err = c44ReadJSONL[c44TypeEntry](filepath.Join(d, "types.jsonl")); err != nil {
			cp.Err = err
		}
		if cp.Values, err = c44ReadJSONL[c44ValEntry](filepath.Join(d, "values.jsonl")); err != nil {
			cp.Err = err
		}
		if cp.Containers, err = c44ReadJSONL[c44ContEntry](filepath.Join(d, "containers.jsonl")); err != nil {
			cp.Err = err
		}
		if cp.Ledgers, err = c44ReadJSONL[c44LedgerEntry](filepath.Join(d, "ledgers.jsonl")); err != nil {
			cp.Err = err
		}
		if b, err := os.ReadFile(filepath.Join(d, "world.json")); err != nil {
			cp.Err = err
		} else if err := json.Unmarshal(b, &cp.World); err != nil {
			cp.Err = err
		}
		c44CorpusData = cp
	})
	return c44CorpusData
}

// ---------------------------------------------------------------- corpus generation (pinned tree, once)

const (
	c44CorpusTypes      = 1200
	c44CorpusValues     = 2600
	c44CorpusContainers = 220
	c44CorpusLedgers    = 90
)

func c44CorpusRng(stream uint64) *rand.Rand {
	// fixed internal seed: independent of VERIF_SEED
	return rand.New(rand.NewPCG(0xC44C0A9505EED001, stream))
}

func c44ContAddr(i int) common.Address {
	var a common.Address
	a[6] = byte(i>>8) | 0x10
	a[7] = byte(i)
	return a
}

// c44SystematicTypes: one entry per primitive, per location kind, per authorization kind... (not random)
func c44SystematicTypes() []*c44Type {
	var out []*c44Type
	for _, n := range c44PrimNames {
		out = append(out, &c44Type{K: "prim", N: n})
	}
	intT := &c44Type{K: "prim", N: "Int"}
	addr := &c44Loc{K: "addr", A: "0000000000000001", N: "C"}
	locs := []*c44Loc{nil, addr, {K: "addr", A: "ffffffffffffffff", N: "Z9_"}, {K: "str", N: "some/path.cdc"}, {K: "str", N: ""},
		{K: "id", N: "Crypto"}, {K: "tx", A: strings.Repeat("ab", 32)}, {K: "script", A: strings.Repeat("01", 32)}, {K: "tx", A: strings.Repeat("00", 32)}}
	for _, l := range locs {
		out = append(out, &c44Type{K: "comp", Loc: l, N: "S"}, &c44Type{K: "comp", Loc: l, N: "Outer.Inner.S"},
			&c44Type{K: "iface", Loc: l, N: "I"}, &c44Type{K: "iface", Loc: l, N: "Outer.I"})
	}
	r := &c44Type{K: "comp", Loc: addr, N: "C.R"}
	i1 := &c44Type{K: "iface", Loc: addr, N: "C.I1"}
	i2 := &c44Type{K: "iface", Loc: addr, N: "C.I2"}
	e1, e2, e3 := "A.0000000000000001.C.E1", "A.0000000000000001.C.E2", "A.0000000000000001.C.E3"
	auths := []*c44Auth{{K: "unauth"}, {K: "inaccessible"}, {K: "map", IDs: []string{"A.0000000000000001.C.M"}}, {K: "map", IDs: []string{"Identity"}},
		{K: "conj", IDs: []string{e1}}, {K: "conj", IDs: []string{e1, e2}}, {K: "conj", IDs: []string{e2, e1}}, {K: "conj", IDs: []string{e3, e1, e2}},
		{K: "disj", IDs: []string{e1, e2}}, {K: "disj", IDs: []string{e2, e1}}, {K: "disj", IDs: []string{e1}}, {K: "conj", IDs: []string{"Mutate", "Insert"}},
		{K: "conj", IDs: []string{"Storage"}}, {K: "disj", IDs: []string{"Insert", "Remove"}}}
	for _, a := range auths {
		out = append(out, &c44Type{K: "ref", Auth: a, T: r}, &c44Type{K: "ref", Auth: a, T: intT},
			&c44Type{K: "cap", T: &c44Type{K: "ref", Auth: a, T: r}})
	}
	out = append(out,
		&c44Type{K: "opt", T: intT}, &c44Type{K: "opt", T: &c44Type{K: "opt", T: intT}},
		&c44Type{K: "varr", T: intT}, &c44Type{K: "varr", T: r},
		&c44Type{K: "dict", Key: &c44Type{K: "prim", N: "String"}, T: intT}, &c44Type{K: "dict", Key: intT, T: &c44Type{K: "prim", N: "String"}},
		&c44Type{K: "cap"}, &c44Type{K: "cap", T: intT}, &c44Type{K: "range", T: intT}, &c44Type{K: "range", T: &c44Type{K: "prim", N: "UInt8"}},
		&c44Type{K: "isect"}, &c44Type{K: "isect", Ts: []*c44Type{i1}}, &c44Type{K: "isect", Ts: []*c44Type{i1, i2}}, &c44Type{K: "isect", Ts: []*c44Type{i2, i1}},
		&c44Type{K: "isect", Ts: []*c44Type{i1}, T: r}, &c44Type{K: "isect", Ts: []*c44Type{i2, i1}, T: &c44Type{K: "prim", N: "AnyResource"}},
		&c44Type{K: "isect", T: &c44Type{K: "prim", N: "AnyStruct"}},
	)
	for _, sz := range c44Sizes {
		out = append(out, &c44Type{K: "carr", T: intT, Size: sz})
	}
	return out
}

func c44SystematicValues() []*c44Val {
	var out []*c44Val
	out = append(out, &c44Val{K: "nil"}, &c44Val{K: "void"}, &c44Val{K: "bool", B: true}, &c44Val{K: "bool", B: false})
	for _, k := range c44NumberKinds {
		lo, hi := c44NumRange(k)
		for _, s := range []string{"0", "1", "23", "24", "255", "256", "65535", "65536", "4294967295", "4294967296", "100000000"} {
			v := c44Big(s)
			if hi != nil && v.Cmp(hi) > 0 {
				continue
			}
			out = append(out, &c44Val{K: k, S: s})
			if lo == nil || lo.Sign() < 0 {
				n := "-" + s
				if lo != nil && c44Big(n).Cmp(lo) < 0 {
					continue
				}
				if s != "0" {
					out = append(out, &c44Val{K: k, S: n})
				}
			}
		}
		if lo != nil {
			out = append(out, &c44Val{K: k, S: lo.String()})
		}
		if hi != nil {
			out = append(out, &c44Val{K: k, S: hi.String()})
		}
		if lo == nil || hi == nil {
			out = append(out, &c44Val{K: k, S: "18446744073709551615"}, &c44Val{K: k, S: "18446744073709551616"},
				&c44Val{K: k, S: "340282366920938463463374607431768211456"})
			if lo == nil {
				out = append(out, &c44Val{K: k, S: "-18446744073709551616"}, &c44Val{K: k, S: "-18446744073709551617"})
			}
		}
	}
	for _, p := range c44TextPieces {
		out = append(out, &c44Val{K: "String", S: p})
	}
	out = append(out, &c44Val{K: "String", S: ""}, &c44Val{K: "String", S: strings.Repeat("x", 23)}, &c44Val{K: "String", S: strings.Repeat("x", 24)},
		&c44Val{K: "String", S: strings.Repeat("y", 255)}, &c44Val{K: "String", S: strings.Repeat("z", 256)}, &c44Val{K: "String", S: strings.Repeat("é", 700)})
	for _, ch := range c44Characters {
		out = append(out, &c44Val{K: "Character", S: ch})
	}
	for _, a := range []string{"0000000000000000", "0000000000000001", "ffffffffffffffff", "0100000000000000", "00000000deadbeef"} {
		out = append(out, &c44Val{K: "Address", S: a})
	}
	for _, d := range []string{"storage", "private", "public"} {
		out = append(out, &c44Val{K: "Path", D: d, S: "foo"}, &c44Val{K: "Path", D: d, S: ""}, &c44Val{K: "Path", D: d, S: "flowTokenVault_2"})
	}
	for i, t := range c44SystematicTypes() {
		out = append(out, &c44Val{K: "Type", T: t})
		if t.K == "ref" {
			id := c44IDs[i%len(c44IDs)]
			out = append(out,
				&c44Val{K: "Cap", S: "0000000000000001", U: id, T: t},
				&c44Val{K: "SCC", T: t, U: id, V: &c44Val{K: "Path", D: "storage", S: "vault"}},
				&c44Val{K: "ACC", T: t, U: id},
				&c44Val{K: "Pub", S: "0000000000000002", V: &c44Val{K: "Cap", S: "0000000000000001", U: id, T: t}},
			)
		}
	}
	out = append(out, &c44Val{K: "Type"})
	for _, id := range c44IDs {
		out = append(out, &c44Val{K: "Cap", S: "00000000000000ff", U: id, T: &c44Type{K: "prim", N: "Int"}})
	}
	// Some nestings 1..6 over several inner kinds
	inners := []*c44Val{{K: "nil"}, {K: "Int", S: "5"}, {K: "String", S: "s"}, {K: "bool", B: true}, {K: "Type", T: &c44Type{K: "prim", N: "Int"}}, {K: "Path", D: "public", S: "p"}}
	for _, in := range inners {
		v := in
		for lvl := 1; lvl <= 6; lvl++ {
			v = &c44Val{K: "Some", V: v}
			out = append(out, v)
		}
	}
	return out
}

func c44SystematicContainers() []*c44Val {
	anyS := &c44Type{K: "prim", N: "AnyStruct"}
	intT := &c44Type{K: "prim", N: "Int"}
	strT := &c44Type{K: "prim", N: "String"}
	addr := &c44Loc{K: "addr", A: "0000000000000001", N: "C"}
	iv := func(n int) *c44Val { return &c44Val{K: "Int", S: fmt.Sprint(n)} }
	sv := func(s string) *c44Val { return &c44Val{K: "String", S: s} }
	var out []*c44Val
	out = append(out,
		&c44Val{K: "Array", T: &c44Type{K: "varr", T: intT}},
		&c44Val{K: "Array", T: &c44Type{K: "varr", T: intT}, Vs: []*c44Val{iv(1), iv(2), iv(3)}},
		&c44Val{K: "Array", T: &c44Type{K: "carr", T: intT, Size: 2}, Vs: []*c44Val{iv(-1), iv(1)}},
		&c44Val{K: "Dict", T: &c44Type{K: "dict", Key: strT, T: intT}},
		&c44Val{K: "Dict", T: &c44Type{K: "dict", Key: strT, T: intT}, Vs: []*c44Val{sv("a"), iv(1), sv("b"), iv(2)}},
	)
	for _, k := range c44Kinds {
		if k.Name == "event" || k.Name == "attachment" || k.Name == "contract" {
			continue
		}
		out = append(out,
			&c44Val{K: "Comp", Loc: addr, N: "C.T", CK: k.Name},
			&c44Val{K: "Comp", Loc: addr, N: "C.T", CK: k.Name, Fs: []string{"a", "b", "uuid"}, Vs: []*c44Val{iv(1), sv("x"), {K: "UInt64", S: "7"}}})
	}
	for _, l := range []*c44Loc{{K: "str", N: "x"}, {K: "id", N: "Crypto"}, {K: "tx", A: strings.Repeat("11", 32)}, {K: "script", A: strings.Repeat("22", 32)}} {
		out = append(out, &c44Val{K: "Comp", Loc: l, N: "Foo", CK: "struct", Fs: []string{"f"}, Vs: []*c44Val{iv(1)}})
	}
	// nesting
	inner := &c44Val{K: "Array", T: &c44Type{K: "varr", T: intT}, Vs: []*c44Val{iv(1), iv(2)}}
	out = append(out,
		&c44Val{K: "Array", T: &c44Type{K: "varr", T: &c44Type{K: "varr", T: intT}}, Vs: []*c44Val{inner, inner}},
		&c44Val{K: "Dict", T: &c44Type{K: "dict", Key: strT, T: anyS}, Vs: []*c44Val{sv("arr"), inner, sv("some"), {K: "Some", V: inner}}},
		&c44Val{K: "Comp", Loc: addr, N: "C.R", CK: "resource", Fs: []string{"kids", "opt"}, Vs: []*c44Val{inner, {K: "Some", V: &c44Val{K: "Some", V: inner}}}},
		&c44Val{K: "Some", V: inner}, &c44Val{K: "Some", V: &c44Val{K: "Some", V: inner}},
	)
	// big ones (several slabs), long strings (storable slabs)
	big := &c44Val{K: "Array", T: &c44Type{K: "varr", T: &c44Type{K: "prim", N: "UInt64"}}}
	for i := 0; i < 600; i++ {
		big.Vs = append(big.Vs, &c44Val{K: "UInt64", S: fmt.Sprint(uint64(i) * 0x9E3779B97F4A7C15 >> 3)})
	}
	bigd := &c44Val{K: "Dict", T: &c44Type{K: "dict", Key: strT, T: intT}}
	for i := 0; i < 300; i++ {
		bigd.Vs = append(bigd.Vs, sv(fmt.Sprintf("key-%d", i)), iv(i*i))
	}
	long := &c44Val{K: "Array", T: &c44Type{K: "varr", T: strT}, Vs: []*c44Val{sv(strings.Repeat("long-", 300)), sv("short"), sv(strings.Repeat("é", 900))}}
	out = append(out, big, bigd, long)
	return out
}

func c44WriteCorpus() (summary string, err error) {
	dir := c44CorpusDir()
	if err := os.MkdirAll(dir, 0o755); err != nil {
		return "", err
	}
	var skipped []string

	// ---- static types
	var types []c44TypeEntry
	seen := map[string]bool{}
	addType := func(t *c44Type) {
		cs := c44CanonTypeR(t)
		if seen[cs] {
			return
		}
		b, f := c44TypeRoundTrip(t)
		if f != nil {
			skipped = append(skipped, "type "+cs+": "+f.Class+": "+f.Msg)
			return
		}
		seen[cs] = true
		types = append(types, c44TypeEntry{ID: fmt.Sprintf("t%04d", len(types)), Recipe: t, Hex: hex.EncodeToString(b)})
	}
	for _, t := range c44SystematicTypes() {
		addType(t)
	}
	g := &c44Gen{R: c44CorpusRng(1)}
	for len(types) < c44CorpusTypes {
		addType(g.typ(1 + g.n(3)))
	}

	// ---- leaf values
	var vals []c44ValEntry
	seen = map[string]bool{}
	addVal := func(r *c44Val) {
		cs := c44CanonValR(r)
		if seen[cs] || len(cs) > 1200 {
			return
		}
		b, f := c44LeafRoundTrip(r)
		if f != nil {
			skipped = append(skipped, "value "+core.Clip(cs, 300)+": "+f.Class+": "+f.Msg)
			return
		}
		seen[cs] = true
		vals = append(vals, c44ValEntry{ID: fmt.Sprintf("v%04d", len(vals)), Recipe: r, Hex: hex.EncodeToString(b)})
	}
	for _, r := range c44SystematicValues() {
		addVal(r)
	}
	g = &c44Gen{R: c44CorpusRng(2)}
	for len(vals) < c44CorpusValues {
		addVal(g.leaf(3))
	}

	// ---- containers through the slab storage
	var conts []c44ContEntry
	addCont := func(r *c44Val) {
		if !r.isContainer() {
			return
		}
		addr := c44ContAddr(len(conts))
		b, f, rej := c44ContainerRoundTrip(r, addr)
		if rej != "" {
			skipped = append(skipped, "container "+core.Clip(c44CanonValR(r), 300)+": harness cannot build: "+core.Clip(rej, 300))
			return
		}
		if f != nil {
			rb, _ := json.Marshal(r)
			skipped = append(skipped, "container "+core.Clip(c44CanonValR(r), 300)+": "+f.Class+": "+f.Msg+"\nRECIPE "+hex.EncodeToString(addr[:])+" "+string(rb))
			return
		}
		size := 0
		for _, d := range b.Slabs.Data {
			size += len(d)
		}
		if size > 6000 && len(conts) > 60 {
			return // keep the corpus small; the systematic big ones come first
		}
		conts = append(conts, c44ContEntry{ID: fmt.Sprintf("c%04d", len(conts)), Addr: hex.EncodeToString(addr[:]), Recipe: r, Root: b.Root, Slabs: b.Slabs})
	}
	for _, r := range c44SystematicContainers() {
		addCont(r)
	}
	g = &c44Gen{R: c44CorpusRng(3)}
	for len(conts) < c44CorpusContainers {
		addCont(g.container(1+g.n(3), true))
	}

	// ---- ledgers
	var ledgers []c44LedgerEntry
	g = &c44Gen{R: c44CorpusRng(4)}
	world := c44World{ContractName: c44ContractName, Contract: c44Contract, ReaderTemplate: c44ReaderTemplate, NoopTx: c44NoopTx}
	for attempt := 0; len(ledgers) < c44CorpusLedgers && attempt < 4*c44CorpusLedgers; attempt++ {
		txs, claims := c44GenLedgerTxs(g)
		id := fmt.Sprintf("l%04d", len(ledgers))
		e, _, err := c44ProduceLedger(id, txs, claims)
		if err != nil {
			skipped = append(skipped, "ledger: "+core.Clip(err.Error(), 1500))
			continue
		}
		var logs [][]string
		bad := ""
		for _, eng := range host.AllEngines {
			h, err := c44OpenLedger(e)
			if err != nil {
				bad = err.Error()
				break
			}
			l, out := c44ReadLedger(h, eng, claims)
			if out.Err != nil || out.Escaped != nil {
				bad = "reader[" + eng.String() + "]: " + host.ErrText(out)
				break
			}
			logs = append(logs, l)
		}
		if bad == "" {
			for i := 1; i < len(logs); i++ {
				if strings.Join(logs[i], "\n") != strings.Join(logs[0], "\n") {
					bad = "engines disagree on the reader log"
				}
			}
		}
		if bad == "" {
			h, _ := c44OpenLedger(e)
			for _, a := range []uint64{1, 2} {
				h.ResetTrace()
				out := h.RunTx(host.EngI, c44NoopTx, nil, []common.Address{host.Addr(a)}, nil)
				if out.Err != nil || out.Escaped != nil {
					bad = "noop tx: " + host.ErrText(out)
				} else if n := h.CountKind(host.KSetValue); n != 0 {
					bad = fmt.Sprintf("noop tx wrote %d registers", n)
				}
			}
		}
		if bad != "" {
			skipped = append(skipped, "ledger "+id+": "+core.Clip(bad, 1500))
			continue
		}
		e.Logs = logs[0]
		ledgers = append(ledgers, *e)
	}

	if err := c44WriteJSONL(filepath.Join(dir, "types.jsonl"), types); err != nil {
		return "", err
	}
	if err := c44WriteJSONL(filepath.Join(dir, "values.jsonl"), vals); err != nil {
		return "", err
	}
	if err := c44WriteJSONL(filepath.Join(dir, "containers.jsonl"), conts); err != nil {
		return "", err
	}
	if err := c44WriteJSONL(filepath.Join(dir, "ledgers.jsonl"), ledgers); err != nil {
		return "", err
	}
	wb, _ := json.MarshalIndent(world, "", " ")
	if err := os.WriteFile(filepath.Join(dir, "world.json"), append(wb, '\n'), 0o644); err != nil {
		return "", err
	}
	sort.Strings(skipped)
	sk := strings.Join(skipped, "\n")
	_ = os.WriteFile(filepath.Join(dir, "generation-skipped.txt"), []byte(sk+"\n"), 0o644)
	return fmt.Sprintf("types=%d values=%d containers=%d ledgers=%d skipped=%d", len(types), len(vals), len(conts), len(ledgers), len(skipped)), nil
}

// ---------------------------------------------------------------- corpus checks

func c44Violate(c *core.Ctx, key string, f *c44Fail, witness map[string]any) {
	if witness == nil {
		witness = map[string]any{}
	}
	for k, v := range f.Extra {
		witness[k] = v
	}
	witness["failure"] = f.Msg
	c.Violate(key+":"+f.Class, f.Msg, witness)
}

func c44CheckTypeEntry(c *core.Ctx, e c44TypeEntry) {
	c.Eval(1)
	c.Inc("corpus_types_checked")
	shape := c44TypeShape(e.Recipe, 1)
	wit := func() map[string]any {
		rb, _ := json.Marshal(e.Recipe)
		return map[string]any{"corpus_entry": e.ID, "recipe": string(rb), "golden_hex": e.Hex}
	}
	var f *c44Fail
	p := c44Protect(func() {
		st := c44BuildType(e.Recipe)
		b, err := interpreter.StaticTypeToBytes(st)
		if err != nil {
			f = &c44Fail{"encode-error", err.Error(), nil}
			return
		}
		if got := hex.EncodeToString(b); got != e.Hex {
			f = &c44Fail{"encode-differs-from-golden", "the current tree encodes the recipe's type to different bytes than the pinned tree did", map[string]any{"current_hex": got}}
			return
		}
		golden, _ := hex.DecodeString(e.Hex)
		d, err := interpreter.StaticTypeFromBytes(golden)
		if err != nil {
			f = &c44Fail{"golden-decode-error", err.Error(), nil}
			return
		}
		want := c44CanonTypeR(e.Recipe)
		if got := c44CanonType(d); got != want {
			f = &c44Fail{"golden-decodes-to-different-type", "golden bytes decode to a type other than the recipe's", c44WantGot(want, got)}
			return
		}
		if !st.Equal(d) {
			f = &c44Fail{"golden-not-Equal", "rebuilt.Equal(decoded golden) is false", map[string]any{"type": want}}
			return
		}
		b2, err := interpreter.StaticTypeToBytes(d)
		if err != nil {
			f = &c44Fail{"golden-reencode-error", err.Error(), nil}
			return
		}
		if got := hex.EncodeToString(b2); got != e.Hex {
			f = &c44Fail{"golden-reencode-differs", "re-encoding the decoded golden type yields different bytes", map[string]any{"current_hex": got}}
		}
	})
	if p != nil {
		f = &c44Fail{"panic", fmt.Sprintf("panic: %v", p), nil}
	}
	if f != nil {
		c44Violate(c, "corpus:type:"+shape, f, wit())
	}
}

func c44CheckValEntry(c *core.Ctx, e c44ValEntry) {
	c.Eval(1)
	c.Inc("corpus_values_checked")
	shape := c44ValShape(e.Recipe, 1)
	wit := func() map[string]any {
		rb, _ := json.Marshal(e.Recipe)
		return map[string]any{"corpus_entry": e.ID, "recipe": core.Clip(string(rb), 3000), "golden_hex": core.Clip(e.Hex, 3000)}
	}
	var f *c44Fail
	p := c44Protect(func() {
		var addr common.Address
		addr[7] = 1
		ctx, storage := c44NewCtx(addr)
		v := c44BuildVal(ctx, e.Recipe)
		b, err := c44EncodeValue(storage, addr, v)
		if err != nil {
			f = &c44Fail{"encode-error", err.Error(), nil}
			return
		}
		if got := hex.EncodeToString(b); got != e.Hex {
			f = &c44Fail{"encode-differs-from-golden", "the current tree encodes the recipe's value to different bytes than the pinned tree did", map[string]any{"current_hex": core.Clip(got, 3000)}}
			return
		}
		golden, _ := hex.DecodeString(e.Hex)
		d, err := c44DecodeValue(storage, golden)
		if err != nil {
			f = &c44Fail{"golden-decode-error", err.Error(), nil}
			return
		}
		want := c44CanonValR(e.Recipe)
		if got := c44CanonVal(ctx, d); got != want {
			f = &c44Fail{"golden-decodes-to-different-value", "golden bytes decode to a value other than the recipe's", c44WantGot(want, got)}
			return
		}
		if ev, ok := v.(interpreter.EquatableValue); ok && !c44HasNilType(e.Recipe) && !ev.Equal(ctx.Inter, d) {
			f = &c44Fail{"golden-not-Equal", "rebuilt.Equal(decoded golden) is false", map[string]any{"value": core.Clip(want, 2000)}}
			return
		}
		b2, err := c44EncodeValue(storage, addr, d)
		if err != nil {
			f = &c44Fail{"golden-reencode-error", err.Error(), nil}
			return
		}
		if got := hex.EncodeToString(b2); got != e.Hex {
			f = &c44Fail{"golden-reencode-differs", "re-encoding the decoded golden value yields different bytes", map[string]any{"current_hex": core.Clip(got, 3000)}}
		}
	})
	if p != nil {
		f = &c44Fail{"panic", fmt.Sprintf("panic: %v", p), nil}
	}
	if f != nil {
		c44Violate(c, "corpus:value:"+shape, f, wit())
	}
}

func c44CheckContEntry(c *core.Ctx, e c44ContEntry) {
	c.Eval(1)
	c.Inc("corpus_containers_checked")
	shape := c44ValShape(e.Recipe, 1)
	wit := func() map[string]any {
		rb, _ := json.Marshal(e.Recipe)
		return map[string]any{"corpus_entry": e.ID, "recipe": core.Clip(string(rb), 3000)}
	}
	var f *c44Fail
	p := c44Protect(func() {
		var addr common.Address
		copy(addr[:], c44MustHex(e.Addr, 8))
		_, _, _, built, buildErr, err := c44BuildContainer(e.Recipe, addr)
		if buildErr != nil {
			f = &c44Fail{"rebuild-panic", fmt.Sprintf("the recipe can no longer be built: %v", buildErr), nil}
			return
		}
		if err != nil {
			f = &c44Fail{"encode-error", err.Error(), nil}
			return
		}
		if built.Root != e.Root {
			f = &c44Fail{"encode-differs-from-golden", "root storable bytes differ from the golden ones", map[string]any{"golden_root": e.Root, "current_root": built.Root}}
			return
		}
		if ok, why := built.Slabs.equal(e.Slabs); !ok {
			f = &c44Fail{"encode-differs-from-golden", "the current tree encodes the recipe's container to different slab bytes (current vs golden): " + core.Clip(why, 800), nil}
			return
		}
		ctx2, storage2, d, err := c44ContainerFromSlabs(c44Built{Slabs: e.Slabs, Root: e.Root}, addr)
		if err != nil {
			f = &c44Fail{"golden-decode-error", err.Error(), nil}
			return
		}
		want := c44CanonValR(e.Recipe)
		if got := c44CanonVal(ctx2, d); got != want {
			f = &c44Fail{"golden-decodes-to-different-value", "golden slabs decode to a value other than the recipe's", c44WantGot(want, got)}
			return
		}
		again, err := c44DumpSlabs(storage2)
		if err != nil {
			f = &c44Fail{"golden-reencode-error", err.Error(), nil}
			return
		}
		if ok, why := e.Slabs.equal(again); !ok {
			f = &c44Fail{"golden-reencode-differs", "re-encoding the decoded golden slabs yields different bytes (golden vs current): " + core.Clip(why, 800), nil}
		}
	})
	if p != nil {
		f = &c44Fail{"panic", fmt.Sprintf("panic: %v", p), nil}
	}
	if f != nil {
		c44Violate(c, "corpus:container:"+shape, f, wit())
	}
}

func c44LineCategory(line string) string {
	// lines look like [0x…, "stored", …] or ["contract", …] / ["claim", …]
	for _, cat := range []string{"storage-controller", "account-controller", "stored", "public", "contract", "claim"} {
		if strings.Contains(line, "\""+cat+"\"") {
			return cat
		}
	}
	return "other"
}

func c44FirstDiff(golden, got []string) (cat, g, o string) {
	gs := map[string]int{}
	for _, l := range golden {
		gs[l]++
	}
	for _, l := range got {
		if gs[l] > 0 {
			gs[l]--
		} else if o == "" {
			o = l
		}
	}
	for _, l := range golden {
		if gs[l] > 0 {
			g = l
			break
		}
	}
	switch {
	case g != "":
		cat = c44LineCategory(g)
	case o != "":
		cat = c44LineCategory(o)
	}
	return cat, g, o
}

func c44CheckLedgerEntry(c *core.Ctx, w *c44World, e *c44LedgerEntry) {
	c.Inc("corpus_ledgers_checked")
	open := func() *host.Host {
		h, err := c44OpenLedger(e)
		if err != nil {
			c.Violate("corpus:ledger:open-error", err.Error(), map[string]any{"corpus_entry": e.ID})
			return nil
		}
		loc := common.AddressLocation{Address: host.Addr(1), Name: w.ContractName}
		h.Codes = map[string][]byte{string(loc.ID()): []byte(w.Contract)}
		return h
	}
	reader := func() string {
		var b strings.Builder
		for _, cl := range e.Claims {
			fmt.Fprintf(&b, "    let claim_%s: [AnyStruct] = [\"claim\", %q, a%d.inbox.claim<%s>(%q, provider: 0x%x)]\n    log(claim_%s)\n",
				cl.Name, cl.Name, cl.Recipient, cl.Type, cl.Name, cl.Provider, cl.Name)
		}
		return strings.Replace(w.ReaderTemplate, "//CLAIMS\n", b.String(), 1)
	}()
	for _, eng := range host.AllEngines {
		h := open()
		if h == nil {
			return
		}
		c.Eval(1)
		out := h.RunScript(eng, reader, nil, nil)
		c.Inc("corpus_reader_runs_" + eng.String())
		if out.Err != nil || out.Escaped != nil {
			kinds := host.ErrKinds(out.Err)
			last := ""
			if len(kinds) > 0 {
				last = kinds[len(kinds)-1]
			}
			c.Violate(fmt.Sprintf("corpus:ledger:reader-error[%s]:%s:%s", eng, host.Classify(out), last),
				"the reader script fails on a ledger written by the pinned tree",
				map[string]any{"corpus_entry": e.ID, "engine": eng.String(), "error": host.ErrText(out)})
			continue
		}
		logs := append([]string(nil), h.Logs...)
		sort.Strings(logs)
		c.Count("corpus_reader_log_lines", int64(len(logs)))
		if strings.Join(logs, "\n") != strings.Join(e.Logs, "\n") {
			cat, g, o := c44FirstDiff(e.Logs, logs)
			c.Violate(fmt.Sprintf("corpus:ledger:reader-log-differs[%s]:%s", eng, cat),
				"values read from a ledger written by the pinned tree differ from the recorded ones",
				map[string]any{"corpus_entry": e.ID, "engine": eng.String(), "golden_line": core.Clip(g, 3000), "observed_line": core.Clip(o, 3000),
					"golden_lines": len(e.Logs), "observed_lines": len(logs)})
		}
	}
	// re-commit without change: a read-only transaction must not write any register
	h := open()
	if h == nil {
		return
	}
	before := h.Ledger.Clone()
	for _, a := range []uint64{1, 2} {
		h.ResetTrace()
		c.Eval(1)
		out := h.RunTx(host.EngI, w.NoopTx, nil, []common.Address{host.Addr(a)}, nil)
		if out.Err != nil || out.Escaped != nil {
			c.Violate("corpus:ledger:noop-tx-error:"+string(host.Classify(out)), "a read-only transaction fails on a ledger written by the pinned tree",
				map[string]any{"corpus_entry": e.ID, "error": host.ErrText(out)})
			continue
		}
		c.Inc("corpus_noop_commits")
		if n := h.CountKind(host.KSetValue); n != 0 {
			c.Violate("corpus:ledger:noop-commit-writes", fmt.Sprintf("a read-only transaction wrote %d registers", n),
				map[string]any{"corpus_entry": e.ID, "changed_registers": h.Ledger.Diff(before)})
		}
	}
}

// ---------------------------------------------------------------- property

func c44FreshCases(tier string) int {
	if tier == "thorough" {
		return 1000
	}
	return 64
}

func c44FreshPerCase(tier string) int {
	if tier == "thorough" {
		return 1000
	}
	return 320
}

func c44Run(c *core.Ctx) {
	if os.Getenv("VERIF_C44_WRITE_CORPUS") == "1" {
		// generator mode: case 0 writes the whole corpus (deterministic, independent of seed and sharding)
		if c.Case == 0 {
			sum, err := c44WriteCorpus()
			if err != nil {
				c.Violate("corpus-generation-failed", err.Error(), nil)
				return
			}
			c.Note("corpus_written", sum+" dir="+c44CorpusDir())
			fmt.Fprintln(os.Stderr, "C44 corpus written:", sum)
			c.Eval(1)
			c.Distinct("corpus-generation")
			c.Distinct(sum)
		}
		return
	}
	if c.Case < c44CorpusCases {
		c44CorpusCase(c)
		return
	}
	c44FreshCase(c)
}

func c44CorpusCase(c *core.Ctx) {
	cp := c44LoadCorpus()
	if cp.Err != nil {
		c.Note("corpus_error", cp.Err.Error())
		return // floors turn a missing corpus into INCONCLUSIVE
	}
	part := c.Case
	for i, e := range cp.Types {
		if i%c44CorpusCases == part {
			c44CheckTypeEntry(c, e)
			c.Distinct("T" + e.Hex)
		}
	}
	for i, e := range cp.Values {
		if i%c44CorpusCases == part {
			c44CheckValEntry(c, e)
			c.Distinct("V" + e.Hex)
		}
	}
	for i, e := range cp.Containers {
		if i%c44CorpusCases == part {
			c44CheckContEntry(c, e)
			c.Distinct("C" + e.ID + e.Root)
		}
	}
	for i := range cp.Ledgers {
		if i%c44CorpusCases == part {
			c44CheckLedgerEntry(c, &cp.World, &cp.Ledgers[i])
			c.Distinct("L" + cp.Ledgers[i].ID)
		}
	}
	if part == 0 && c.WantSample() && len(cp.Values) > 0 {
		c.Sample(map[string]any{"corpus_dir": c44CorpusDir(), "types": len(cp.Types), "values": len(cp.Values), "containers": len(cp.Containers), "ledgers": len(cp.Ledgers),
			"example_value_entry": cp.Values[len(cp.Values)/2]})
	}
}

func c44FreshCase(c *core.Ctx) {
	g := &c44Gen{R: c.Rng}
	n := c44FreshPerCase(c.Tier)
	for i := 0; i < n; i++ {
		switch i % 10 {
		case 0, 1, 2: // static types
			t := g.typ(1 + g.n(4))
			c.Eval(1)
			c.Inc("fresh_types")
			c.Inc("fresh_type_kind_" + t.K)
			b, f := c44TypeRoundTrip(t)
			if f != nil {
				rb, _ := json.Marshal(t)
				c44Violate(c, "roundtrip:type:"+c44TypeShape(t, 1), f, map[string]any{"recipe": string(rb)})
			}
			c.Distinct("T" + string(b))
			if i == 0 && c.WantSample() {
				c.Sample(map[string]any{"type_recipe": t, "encoded": hex.EncodeToString(b)})
			}
		case 3, 4: // containers
			r := g.container(1+g.n(3), true)
			c.Eval(1)
			c.Inc("fresh_containers")
			c.Inc("fresh_container_kind_" + strings.SplitN(c44ValShape(r, 0), "<", 2)[0])
			var addr common.Address
			for j := range addr {
				addr[j] = byte(g.n(256))
			}
			if g.n(8) == 0 {
				addr = common.Address{}
			}
			b, f, rej := c44ContainerRoundTrip(r, addr)
			if rej != "" {
				c.Inc("fresh_containers_harness_rejected")
				c.Note("last_harness_rejected_container", core.Clip(rej, 400))
				continue
			}
			c.Inc("fresh_containers_built")
			if f != nil {
				rb, _ := json.Marshal(r)
				c44Violate(c, "roundtrip:container:"+c44ValShape(r, 1), f, map[string]any{"recipe": core.Clip(string(rb), 6000), "address": hex.EncodeToString(addr[:])})
			}
			c.Count("fresh_container_slabs", int64(len(b.Slabs.IDs)))
			if len(b.Slabs.IDs) > 1 {
				c.Inc("fresh_multi_slab_containers")
			}
			c.Distinct("C" + b.Root + strings.Join(b.Slabs.Data, ""))
		default: // leaf storables
			r := g.leaf(3)
			c.Eval(1)
			c.Inc("fresh_values")
			c.Inc("fresh_value_kind_" + r.K)
			b, f := c44LeafRoundTrip(r)
			if f != nil {
				rb, _ := json.Marshal(r)
				c44Violate(c, "roundtrip:value:"+c44ValShape(r, 1), f, map[string]any{"recipe": core.Clip(string(rb), 6000)})
			}
			c.Distinct("V" + string(b))
		}
	}
}

func init() {
	floors := map[string]int64{
		"corpus_types_checked":      1000,
		"corpus_values_checked":     2000,
		"corpus_containers_checked": 200,
		"corpus_ledgers_checked":    80,
		"corpus_reader_runs_I":      80,
		"corpus_reader_runs_V":      80,
		"corpus_reader_runs_Vp":     80,
		"corpus_reader_log_lines":   1000,
		"corpus_noop_commits":       160,
		"fresh_types":               1000,
		"fresh_values":              2000,
		"fresh_containers_built":    800,
		"fresh_multi_slab_containers": 20,
	}
	for _, k := range []string{"prim", "opt", "varr", "carr", "dict", "ref", "isect", "cap", "range", "comp", "iface"} {
		floors["fresh_type_kind_"+k] = 10
	}
	for _, k := range append(append([]string{}, c44NumberKinds...), "nil", "void", "bool", "String", "Character", "Address", "Path", "Cap", "SCC", "ACC", "Pub", "Type", "Some") {
		floors["fresh_value_kind_"+k] = 10
	}
	core.Register(&core.Prop{
		ID:    "C44",
		Level: "exploration",
		Rule: "cases 0..31: the golden corpus /verif/corpus/c44 (written once by the pinned tree from a fixed internal seed: static-type, leaf-storable and slab-container recipes with their bytes, and full register dumps of ledgers produced by real transactions with the expected reader-script log) sharded by entry index; " +
			"remaining cases: seeded random recipes (30% static types over every kind, 20% containers through an in-memory slab storage, 50% leaf storables of every kind). A case item is distinct by its encoded bytes (corpus: by golden bytes / entry) and non-trivial always (every item is encoded, decoded, compared and re-encoded)",
		Assumptions: []string{
			"the recipe DSL interpreter (harness) maps names to Go constants of the tree under test by identifier; canonical comparison reads public fields of decoded values, independent of ID()/String()/Equal of the tree (Equal is checked additionally)",
			"strings compare by NFC form (computed with golang.org/x/text), as the language defines string equality",
			"the deprecated primitive static type `Capability` is excluded: the decoder deliberately migrates it to CapabilityStaticType",
			"the corpus was produced by the pinned tree; dictionary/account iteration order inside one value string is part of the recorded log, the order of stored paths is not (log lines are compared as a sorted multiset)",
			"atree (external module) slab encoding is deterministic for a deterministic build order",
		},
		NumCases:   func(tier string) int { return c44CorpusCases + c44FreshCases(tier) },
		Exhaustive: func(string) bool { return false },
		Floors:     floors,
		Run:        c44Run,
		Finalize: func(a *core.Agg) {
			if os.Getenv("VERIF_C44_WRITE_CORPUS") == "1" {
				// generator mode: nothing was checked; say so instead of listing every floor
				a.Prop.Floors = nil
				fmt.Printf("C44: golden corpus (re)generated: %s\n", a.Notes["corpus_written"])
				a.Inconclusive = append(a.Inconclusive, "corpus-generation-run (VERIF_C44_WRITE_CORPUS=1): the corpus was written, nothing was checked")
				return
			}
			if e := a.Notes["corpus_error"]; e != "" {
				a.Inconclusive = append(a.Inconclusive, "golden corpus unreadable: "+e)
			}
		},
	})
}
