package stor

import (
	"math/rand/v2"
	"strings"

	"github.com/onflow/cadence/common"

	"verif/harness/core"
)

// C45 — direct decode leg: for a random location of every kind and a random qualified identifier
// (1–4 components), `location.TypeID(qid)` must decode (common.DecodeTypeID) to the same location and
// qualified identifier, and `location.QualifiedIdentifier(id)` must give the qualified identifier back.
//
// Calibration of the input space (what "built from" can mean for each location kind):
//   - address locations: the location's name IS the first component of the qualified identifier (an
//     address location holds one contract / contract interface of that name), so the generator ties them;
//   - identifier locations come from `import Foo`: the name is an identifier;
//   - string locations come from `import "..."`: any string, e.g. a file name with an extension;
//   - nil (built-in) location: the ID is the bare qualified identifier, so the first component must not be
//     one of the registered location prefixes (A, S, I, s, t, REPL) — no built-in type is named so;
//   - transaction / script locations: any 32 bytes.

func c45RandQID(r *rand.Rand, first string) (string, string) {
	k := 1 + r.IntN(4)
	parts := make([]string, 0, k)
	for i := 0; i < k; i++ {
		s, _ := c45Ident(r)
		parts = append(parts, s)
	}
	if first != "" {
		parts[0] = first
	}
	cl := "top-level"
	if k > 1 {
		cl = "nested-qualified"
	}
	return strings.Join(parts, "."), cl
}

func c45IsPrefixName(s string) bool {
	for _, p := range c45PrefixNames {
		if p == s {
			return true
		}
	}
	return false
}

func c45DecodeLeg(c *core.Ctx, r *rand.Rand, count int) {
	for i := 0; i < count; i++ {
		var loc common.Location
		var qid, nameClass, addrClass string
		kind := c45LocKinds[r.IntN(len(c45LocKinds))]
		switch kind {
		case c45LocAddress:
			a, ac := c45RandAddress(r)
			name, _ := c45Ident(r)
			loc = common.AddressLocation{Address: a, Name: name}
			qid, nameClass = c45RandQID(r, name)
			addrClass = ac
		case c45LocString:
			s, cl := c45StringLocName(r)
			loc = common.StringLocation(s)
			qid, nameClass = c45RandQID(r, "")
			if cl == "name-with-dot" {
				nameClass = cl
			}
		case c45LocIdentifier:
			s, _ := c45Ident(r)
			loc = common.IdentifierLocation(s)
			qid, nameClass = c45RandQID(r, "")
		case c45LocTransaction:
			b, ac := c45Rand32(r)
			loc = common.TransactionLocation(b)
			qid, nameClass = c45RandQID(r, "")
			addrClass = ac
		case c45LocScript:
			b, ac := c45Rand32(r)
			loc = common.ScriptLocation(b)
			qid, nameClass = c45RandQID(r, "")
			addrClass = ac
		case c45LocREPL:
			loc = common.REPLLocation{}
			qid, nameClass = c45RandQID(r, "")
		case c45LocNil:
			loc = nil
			for {
				qid, nameClass = c45RandQID(r, "")
				if first, _, _ := strings.Cut(qid, "."); !c45IsPrefixName(first) {
					break
				}
			}
		}
		var id string
		if ok, m := c45Guard(func() { id = string(common.NewTypeIDFromQualifiedName(nil, loc, qid)) }); !ok {
			c.Violate("typeid-panic:"+kind, "building a type ID panicked: "+core.Clip(m, 300),
				map[string]any{"location": c45LocDesc(loc), "qualified_identifier": qid})
			continue
		}
		c.Inc("direct_decodes")
		c.Inc("direct_decoded_" + kind)
		c.DistinctHash(c45Hash(id))
		wit := map[string]any{"leg": "direct", "id_class": addrClass}
		c45CheckDecode(c, id, loc, qid, kind, nameClass, wit)
		if loc != nil {
			var got string
			if ok, m := c45Guard(func() { got = loc.QualifiedIdentifier(common.TypeID(id)) }); !ok {
				c.Violate("qualified-identifier:"+kind+":"+nameClass, "Location.QualifiedIdentifier panicked: "+core.Clip(m, 300),
					map[string]any{"location": c45LocDesc(loc), "type_id": id})
			} else if got != qid {
				c.Violate("qualified-identifier:"+kind+":"+nameClass,
					"Location.QualifiedIdentifier("+id+") = "+got+"; the ID was built from "+qid,
					map[string]any{"location": c45LocDesc(loc), "type_id": id, "got": got, "want": qid})
			}
		}
	}
}

func c45Hash(s string) uint64 {
	// FNV-1a
	h := uint64(14695981039346656037)
	for i := 0; i < len(s); i++ {
		h ^= uint64(s[i])
		h *= 1099511628211
	}
	return h
}
