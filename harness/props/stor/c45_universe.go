package stor

import (
	"encoding/hex"
	"fmt"
	"math/rand/v2"
	"strings"

	"github.com/onflow/cadence/common"
	"github.com/onflow/cadence/parser"
	"github.com/onflow/cadence/sema"
)

// C45 — the checked "universe" the type generator draws nominal types from.
//
// A universe is a list of preludes: the same small set of declarations (entitlements, entitlement
// mappings, struct/resource/contract interfaces, structs, resources, an enum, an event, attachments),
// with random identifiers, parsed and checked by the real checker at one location of every location
// kind, plus the built-in nominal types (nil location).

// ---------------------------------------------------------------- names and locations

const c45LocAddress = "address"
const c45LocString = "string"
const c45LocIdentifier = "identifier"
const c45LocTransaction = "transaction"
const c45LocScript = "script"
const c45LocREPL = "repl"
const c45LocNil = "builtin"

var c45LocKinds = []string{c45LocAddress, c45LocString, c45LocIdentifier, c45LocTransaction, c45LocScript, c45LocREPL, c45LocNil}

var c45Reserved = func() map[string]bool {
	m := map[string]bool{}
	for _, k := range parser.HardKeywords {
		m[k] = true
	}
	for _, k := range parser.SoftKeywords {
		m[k] = true
	}
	for _, k := range []string{"c45chk", "main", "c45r", "c45t", "c45g", "c45f", "c45a", "self", "result", "before", "base"} {
		m[k] = true
	}
	return m
}()

func c45NameTaken(s string) bool {
	if c45Reserved[s] {
		return true
	}
	// names of built-in types and values cannot be redeclared
	return sema.BaseTypeActivation.Find(s) != nil || sema.BaseValueActivation.Find(s) != nil
}

const c45Letters = "ABCDEFGHIJKLMNOPQRSTUVWXYZabcdefghijklmnopqrstuvwxyz"
const c45Alnum = c45Letters + "0123456789_"

// the first components of registered type-ID prefixes: legal identifiers that look like a location prefix
var c45PrefixNames = []string{"A", "S", "I", "s", "t", "REPL"}

// c45Ident returns a random Cadence identifier and its name class.
func c45Ident(r *rand.Rand) (string, string) {
	for {
		var s, class string
		switch r.IntN(10) {
		case 0:
			s, class = c45PrefixNames[r.IntN(len(c45PrefixNames))], "prefix-like"
		case 1:
			// leading underscore
			n := 1 + r.IntN(6)
			b := []byte{'_'}
			for i := 0; i < n; i++ {
				b = append(b, c45Alnum[r.IntN(len(c45Alnum))])
			}
			s, class = string(b), "underscore"
		case 2:
			s, class = string(c45Letters[r.IntN(len(c45Letters))]), "single-letter"
		case 3:
			// hex-looking names (could be confused with an address / script ID)
			n := 2 * (1 + r.IntN(8))
			b := []byte{"abcdefABCDEF"[r.IntN(12)]}
			for i := 1; i < n; i++ {
				b = append(b, "0123456789abcdefABCDEF"[r.IntN(22)])
			}
			s, class = string(b), "hex-like"
		default:
			n := 1 + r.IntN(9)
			b := []byte{c45Letters[r.IntN(len(c45Letters))]}
			for i := 1; i < n; i++ {
				b = append(b, c45Alnum[r.IntN(len(c45Alnum))])
			}
			s, class = string(b), "plain"
		}
		if !c45NameTaken(s) {
			return s, class
		}
	}
}

type c45Namer struct {
	r    *rand.Rand
	used map[string]bool
}

func (n *c45Namer) fresh() string {
	for {
		s, _ := c45Ident(n.r)
		if !n.used[s] {
			n.used[s] = true
			return s
		}
	}
}

func c45RandAddress(r *rand.Rand) (common.Address, string) {
	var a common.Address
	switch r.IntN(7) {
	case 0:
		return a, "all-zero"
	case 1:
		for i := range a {
			a[i] = 0xff
		}
		return a, "all-ff"
	case 2:
		a[7] = byte(1 + r.IntN(255))
		return a, "one-low-byte"
	case 3:
		// leading zero bytes, random tail
		k := 1 + r.IntN(6)
		for i := k; i < 8; i++ {
			a[i] = byte(r.IntN(256))
		}
		if a[k] == 0 {
			a[k] = 1
		}
		return a, "leading-zero-bytes"
	case 4:
		// trailing zero bytes
		k := 1 + r.IntN(6)
		for i := 0; i < k; i++ {
			a[i] = byte(r.IntN(256))
		}
		if a[0] == 0 {
			a[0] = 0x80
		}
		return a, "trailing-zero-bytes"
	case 5:
		// only hex letters (case-sensitivity of hex formatting)
		for i := range a {
			a[i] = []byte{0xab, 0xcd, 0xef, 0xfa, 0xde, 0xbc}[r.IntN(6)]
		}
		return a, "hex-letters"
	default:
		for i := range a {
			a[i] = byte(r.IntN(256))
		}
		return a, "random"
	}
}

func c45Rand32(r *rand.Rand) ([32]byte, string) {
	var a [32]byte
	switch r.IntN(5) {
	case 0:
		return a, "all-zero"
	case 1:
		for i := range a {
			a[i] = 0xff
		}
		return a, "all-ff"
	case 2:
		k := 1 + r.IntN(30)
		for i := k; i < 32; i++ {
			a[i] = byte(r.IntN(256))
		}
		return a, "leading-zero-bytes"
	case 3:
		k := 1 + r.IntN(30)
		for i := 0; i < k; i++ {
			a[i] = byte(r.IntN(256))
		}
		return a, "trailing-zero-bytes"
	default:
		for i := range a {
			a[i] = byte(r.IntN(256))
		}
		return a, "random"
	}
}

// c45StringLocName returns a random string-location name and its class. String locations come from
// `import "..."`: any string, typically a file path.
func c45StringLocName(r *rand.Rand) (string, string) {
	switch r.IntN(8) {
	case 0:
		a, _ := c45Ident(r)
		return a + ".cdc", "name-with-dot"
	case 1:
		a, _ := c45Ident(r)
		b, _ := c45Ident(r)
		c, _ := c45Ident(r)
		return a + "." + b + "." + c, "name-with-dot"
	case 2:
		a, _ := c45Ident(r)
		b, _ := c45Ident(r)
		return a + "/" + b, "path-no-dot"
	case 3:
		a, _ := c45Ident(r)
		return a + " " + "ü✓-" + a, "punctuation-no-dot"
	default:
		s, cl := c45Ident(r)
		return s, cl
	}
}

func c45LocKindOf(loc common.Location) string {
	switch loc.(type) {
	case nil:
		return c45LocNil
	case common.AddressLocation:
		return c45LocAddress
	case common.StringLocation:
		return c45LocString
	case common.IdentifierLocation:
		return c45LocIdentifier
	case common.TransactionLocation:
		return c45LocTransaction
	case common.ScriptLocation:
		return c45LocScript
	case common.REPLLocation:
		return c45LocREPL
	}
	return fmt.Sprintf("%T", loc)
}

func c45LocDesc(loc common.Location) string {
	switch l := loc.(type) {
	case nil:
		return "nil"
	case common.AddressLocation:
		return fmt.Sprintf("AddressLocation{Address: 0x%s, Name: %q}", hex.EncodeToString(l.Address[:]), l.Name)
	case common.StringLocation:
		return fmt.Sprintf("StringLocation(%q)", string(l))
	case common.IdentifierLocation:
		return fmt.Sprintf("IdentifierLocation(%q)", string(l))
	case common.TransactionLocation:
		return "TransactionLocation{0x" + hex.EncodeToString(l[:]) + "}"
	case common.ScriptLocation:
		return "ScriptLocation{0x" + hex.EncodeToString(l[:]) + "}"
	case common.REPLLocation:
		return "REPLLocation{}"
	}
	return fmt.Sprintf("%#v", loc)
}

// ---------------------------------------------------------------- preludes

const (
	c45KStruct     = "struct"
	c45KResource   = "resource"
	c45KContract   = "contract"
	c45KEnum       = "enum"
	c45KEvent      = "event"
	c45KAttachment = "attachment"
	c45KStructIntf = "struct-interface"
	c45KResIntf    = "resource-interface"
	c45KContrIntf  = "contract-interface"
	c45KEnt        = "entitlement"
	c45KMap        = "entitlement-mapping"
)

// c45Nominal is one declared (or built-in) nominal type together with what it was built from.
type c45Nominal struct {
	Kind      string
	Loc       common.Location // the location it was declared at (nil: built-in)
	LocKind   string
	NameClass string // class of the location's name (string locations), else ""
	QID       string // the qualified identifier it was declared with
	Comp      *sema.CompositeType
	Intf      *sema.InterfaceType
	Ent       *sema.EntitlementType
	Map       *sema.EntitlementMapType
	// Denote is how the type is written in a script of the script leg ("" = not denotable there)
	Denote string
	// Role: the template role of the declaration ("SI", "SIF", "SIG", "S", ...)
	Role string
	// ResourceBase: attachment for a resource
	ResourceBase bool
}

func (n *c45Nominal) semaType() sema.Type {
	switch {
	case n.Comp != nil:
		return n.Comp
	case n.Intf != nil:
		return n.Intf
	case n.Ent != nil:
		return n.Ent
	case n.Map != nil:
		return n.Map
	}
	return nil
}

type c45Prelude struct {
	Loc       common.Location
	LocKind   string
	NameClass string
	AddrClass string
	Src       string
	Elab      *sema.Elaboration
	Nominals  []*c45Nominal
}

type c45Decl struct {
	role, kind string
	text       string // with {role} placeholders
	resBase    bool
}

// declarations nested in a contract (or at top level of a non-address location)
var c45Decls = []c45Decl{
	{"E1", c45KEnt, "access(all) entitlement {E1}", false},
	{"E2", c45KEnt, "access(all) entitlement {E2}", false},
	{"E3", c45KEnt, "access(all) entitlement {E3}", false},
	{"E4", c45KEnt, "access(all) entitlement {E4}", false},
	{"M", c45KMap, "access(all) entitlement mapping {M} {\n {E1} -> {E2}\n {E2} -> {E3}\n}", false},
	{"M2", c45KMap, "access(all) entitlement mapping {M2} {\n {E3} -> {E1}\n}", false},
	{"SI", c45KStructIntf, "access(all) struct interface {SI} {}", false},
	{"SI2", c45KStructIntf, "access(all) struct interface {SI2} {}", false},
	{"SI3", c45KStructIntf, "access(all) struct interface {SI3}: {SI} {}", false},
	{"SI4", c45KStructIntf, "access(all) struct interface {SI4} {}", false},
	{"SIF", c45KStructIntf, "access(all) struct interface {SIF} { access(all) fun c45f(): Int }", false},
	{"SIG", c45KStructIntf, "access(all) struct interface {SIG} { access(all) fun c45f(): String }", false},
	{"RI", c45KResIntf, "access(all) resource interface {RI} {}", false},
	{"RI2", c45KResIntf, "access(all) resource interface {RI2} {}", false},
	{"RI3", c45KResIntf, "access(all) resource interface {RI3} {}", false},
	{"S", c45KStruct, "access(all) struct {S}: {SI}, {SI2} {\n access(all) let x: Int\n init() { self.x = 1 }\n}", false},
	{"S2", c45KStruct, "access(all) struct {S2} {}", false},
	{"R", c45KResource, "access(all) resource {R}: {RI}, {RI2} {}", false},
	{"En", c45KEnum, "access(all) enum {En}: UInt8 {\n access(all) case c45a\n}", false},
	{"Ev", c45KEvent, "access(all) event {Ev}(x: Int)", false},
	{"Att", c45KAttachment, "access(all) attachment {Att} for {S} {}", false},
	{"RAtt", c45KAttachment, "access(all) attachment {RAtt} for {R} {}", true},
}

// declarations nested in a contract interface
var c45IntfDecls = []c45Decl{
	{"E1", c45KEnt, "access(all) entitlement {E1}", false},
	{"E2", c45KEnt, "access(all) entitlement {E2}", false},
	{"M", c45KMap, "access(all) entitlement mapping {M} {\n {E1} -> {E2}\n}", false},
	{"SI", c45KStructIntf, "access(all) struct interface {SI} {}", false},
	{"SI2", c45KStructIntf, "access(all) struct interface {SI2} {}", false},
	{"RI", c45KResIntf, "access(all) resource interface {RI} {}", false},
	{"RI2", c45KResIntf, "access(all) resource interface {RI2} {}", false},
	{"Ev", c45KEvent, "access(all) event {Ev}(x: Int)", false},
}

type c45DeclInst struct {
	decl c45Decl
	name string
	qid  string
}

// c45RenderDecls instantiates a declaration template with fresh names; qualifier is "" or "C.".
func c45RenderDecls(decls []c45Decl, nm *c45Namer, qualifier string, indent string) (string, []c45DeclInst) {
	names := map[string]string{}
	for _, d := range decls {
		names[d.role] = nm.fresh()
	}
	var sb strings.Builder
	var out []c45DeclInst
	for _, d := range decls {
		t := d.text
		for _, d2 := range decls {
			t = strings.ReplaceAll(t, "{"+d2.role+"}", names[d2.role])
		}
		for _, line := range strings.Split(t, "\n") {
			sb.WriteString(indent)
			sb.WriteString(line)
			sb.WriteString("\n")
		}
		out = append(out, c45DeclInst{decl: d, name: names[d.role], qid: qualifier + names[d.role]})
	}
	return sb.String(), out
}

var c45SemaConfig = &sema.Config{AccessCheckMode: sema.AccessCheckModeStrict}

func c45Check(src string, loc common.Location) *sema.Elaboration {
	prog, err := parser.ParseProgram(nil, []byte(src), parser.Config{})
	if err != nil {
		panic(fmt.Sprintf("c45: prelude does not parse: %v\n%s", err, src))
	}
	ch, err := sema.NewChecker(prog, loc, nil, c45SemaConfig)
	if err != nil {
		panic(fmt.Sprintf("c45: cannot create checker: %v", err))
	}
	if err := ch.Check(); err != nil {
		panic(fmt.Sprintf("c45: prelude does not check at %s: %v\n%s", c45LocDesc(loc), err, src))
	}
	return ch.Elaboration
}

// c45Resolve looks the declared types up in the elaboration (by the ID the real code assigns).
func c45Resolve(p *c45Prelude, insts []c45DeclInst, denotePrefix string, denotable bool) {
	for _, in := range insts {
		n := &c45Nominal{
			Kind: in.decl.kind, Loc: p.Loc, LocKind: p.LocKind, NameClass: p.NameClass, QID: in.qid,
			Role: in.decl.role, ResourceBase: in.decl.resBase,
		}
		if denotable {
			n.Denote = denotePrefix + in.qid
		}
		id := p.Loc.TypeID(nil, in.qid)
		switch in.decl.kind {
		case c45KEnt:
			n.Ent = p.Elab.EntitlementType(id)
		case c45KMap:
			n.Map = p.Elab.EntitlementMapType(id)
		case c45KStructIntf, c45KResIntf, c45KContrIntf:
			n.Intf = p.Elab.InterfaceType(id)
		default:
			n.Comp = p.Elab.CompositeType(id)
		}
		if n.semaType() == nil {
			// the declaration is not registered under the ID built from its own location and qualified
			// identifier: reported by the caller as a violation (the monitor must not crash on it)
			n.Kind = "missing:" + n.Kind
		}
		p.Nominals = append(p.Nominals, n)
	}
}

// c45BuildPrelude generates, parses and checks one prelude at loc.
// Address locations hold exactly one contract (or contract interface) named like the location;
// all other locations hold top-level declarations, a contract and a contract interface.
func c45BuildPrelude(r *rand.Rand, nm *c45Namer, loc common.Location, nameClass, addrClass string, contractInterface bool, denotable bool) *c45Prelude {
	p := &c45Prelude{Loc: loc, LocKind: c45LocKindOf(loc), NameClass: nameClass, AddrClass: addrClass}
	if nm == nil {
		nm = &c45Namer{r: r, used: map[string]bool{}}
	}
	var sb strings.Builder
	var insts []c45DeclInst

	if al, ok := loc.(common.AddressLocation); ok {
		nm.used[al.Name] = true
		if contractInterface {
			body, in := c45RenderDecls(c45IntfDecls, nm, al.Name+".", "    ")
			sb.WriteString("access(all) contract interface " + al.Name + " {\n" + body + "}\n")
			insts = append(insts, c45DeclInst{decl: c45Decl{role: "CI", kind: c45KContrIntf}, name: al.Name, qid: al.Name})
			insts = append(insts, in...)
		} else {
			body, in := c45RenderDecls(c45Decls, nm, al.Name+".", "    ")
			sb.WriteString("access(all) contract " + al.Name + " {\n" + body + "}\n")
			insts = append(insts, c45DeclInst{decl: c45Decl{role: "C", kind: c45KContract}, name: al.Name, qid: al.Name})
			insts = append(insts, in...)
		}
	} else {
		top, in := c45RenderDecls(c45Decls, nm, "", "")
		sb.WriteString(top)
		insts = append(insts, in...)
		cn := nm.fresh()
		body, in2 := c45RenderDecls(c45Decls, nm, cn+".", "    ")
		sb.WriteString("access(all) contract " + cn + " {\n" + body + "}\n")
		insts = append(insts, c45DeclInst{decl: c45Decl{role: "C", kind: c45KContract}, name: cn, qid: cn})
		insts = append(insts, in2...)
		cin := nm.fresh()
		body3, in3 := c45RenderDecls(c45IntfDecls, nm, cin+".", "    ")
		sb.WriteString("access(all) contract interface " + cin + " {\n" + body3 + "}\n")
		insts = append(insts, c45DeclInst{decl: c45Decl{role: "CI", kind: c45KContrIntf}, name: cin, qid: cin})
		insts = append(insts, in3...)
	}
	p.Src = sb.String()
	p.Elab = c45Check(p.Src, loc)
	c45Resolve(p, insts, "", denotable)
	return p
}

// ---------------------------------------------------------------- built-in nominal types (nil location)

var c45BuiltinNominals = func() []*c45Nominal {
	var out []*c45Nominal
	comp := func(t *sema.CompositeType, qid string) {
		kind := c45KStruct
		switch t.Kind {
		case common.CompositeKindEnum:
			kind = c45KEnum
		case common.CompositeKindResource:
			kind = c45KResource
		case common.CompositeKindContract:
			kind = c45KContract
		}
		out = append(out, &c45Nominal{Kind: kind, LocKind: c45LocNil, QID: qid, Comp: t, Denote: qid, Role: "builtin"})
	}
	// the built-in composite types with the identifiers they are declared with
	comp(sema.AccountType, "Account")
	comp(sema.Account_StorageType, "Account.Storage")
	comp(sema.Account_ContractsType, "Account.Contracts")
	comp(sema.Account_KeysType, "Account.Keys")
	comp(sema.Account_InboxType, "Account.Inbox")
	comp(sema.Account_CapabilitiesType, "Account.Capabilities")
	comp(sema.Account_StorageCapabilitiesType, "Account.StorageCapabilities")
	comp(sema.Account_AccountCapabilitiesType, "Account.AccountCapabilities")
	comp(sema.AccountKeyType, "AccountKey")
	comp(sema.PublicKeyType, "PublicKey")
	comp(sema.HashAlgorithmType, "HashAlgorithm")
	comp(sema.SignatureAlgorithmType, "SignatureAlgorithm")
	comp(sema.RoundingRuleType, "RoundingRule")
	comp(sema.DeploymentResultType, "DeploymentResult")
	out = append(out, &c45Nominal{Kind: c45KStructIntf, LocKind: c45LocNil, QID: "StructStringer", Intf: sema.StructStringerType, Denote: "StructStringer", Role: "builtin"})
	ent := func(t *sema.EntitlementType, qid string) {
		out = append(out, &c45Nominal{Kind: c45KEnt, LocKind: c45LocNil, QID: qid, Ent: t, Denote: qid, Role: "builtin"})
	}
	ent(sema.MutateType, "Mutate")
	ent(sema.InsertType, "Insert")
	ent(sema.RemoveType, "Remove")
	ent(sema.StorageType, "Storage")
	ent(sema.SaveValueType, "SaveValue")
	ent(sema.LoadValueType, "LoadValue")
	ent(sema.CopyValueType, "CopyValue")
	ent(sema.BorrowValueType, "BorrowValue")
	ent(sema.ContractsType, "Contracts")
	ent(sema.AddContractType, "AddContract")
	ent(sema.UpdateContractType, "UpdateContract")
	ent(sema.RemoveContractType, "RemoveContract")
	ent(sema.KeysType, "Keys")
	ent(sema.AddKeyType, "AddKey")
	ent(sema.RevokeKeyType, "RevokeKey")
	ent(sema.InboxType, "Inbox")
	ent(sema.PublishInboxCapabilityType, "PublishInboxCapability")
	ent(sema.UnpublishInboxCapabilityType, "UnpublishInboxCapability")
	ent(sema.ClaimInboxCapabilityType, "ClaimInboxCapability")
	ent(sema.CapabilitiesType, "Capabilities")
	ent(sema.StorageCapabilitiesType, "StorageCapabilities")
	ent(sema.AccountCapabilitiesType, "AccountCapabilities")
	ent(sema.PublishCapabilityType, "PublishCapability")
	ent(sema.UnpublishCapabilityType, "UnpublishCapability")
	ent(sema.GetStorageCapabilityControllerType, "GetStorageCapabilityController")
	ent(sema.IssueStorageCapabilityControllerType, "IssueStorageCapabilityController")
	ent(sema.GetAccountCapabilityControllerType, "GetAccountCapabilityController")
	ent(sema.IssueAccountCapabilityControllerType, "IssueAccountCapabilityController")
	mp := func(t *sema.EntitlementMapType, qid string) {
		out = append(out, &c45Nominal{Kind: c45KMap, LocKind: c45LocNil, QID: qid, Map: t, Denote: qid, Role: "builtin"})
	}
	mp(sema.IdentityType, "Identity")
	mp(sema.AccountMappingType, "AccountMapping")
	mp(sema.CapabilitiesMappingType, "CapabilitiesMapping")
	return out
}()

// ---------------------------------------------------------------- universe

type c45Universe struct {
	Preludes []*c45Prelude
	Nominals []*c45Nominal // all, incl. built-ins

	// pools (deterministic order)
	Composites []*c45Nominal // every composite kind
	Enums      []*c45Nominal
	Attach     []*c45Nominal
	StructIntf []*c45Nominal // valid members of struct intersections (no clashing SIG)
	ResIntf    []*c45Nominal
	ContrIntf  []*c45Nominal
	AllIntf    []*c45Nominal
	Ents       []*c45Nominal
	Maps       []*c45Nominal

	conv *c45Conv
}

func (u *c45Universe) index() {
	u.conv = &c45Conv{
		elabs: map[common.Location]*sema.Elaboration{},
		ents:  map[common.TypeID]*sema.EntitlementType{},
		maps:  map[common.TypeID]*sema.EntitlementMapType{},
	}
	u.Nominals = nil
	for _, p := range u.Preludes {
		u.conv.elabs[p.Loc] = p.Elab
		u.Nominals = append(u.Nominals, p.Nominals...)
	}
	u.Nominals = append(u.Nominals, c45BuiltinNominals...)
	for _, n := range u.Nominals {
		switch n.Kind {
		case c45KStruct, c45KResource, c45KContract, c45KEvent:
			u.Composites = append(u.Composites, n)
		case c45KEnum:
			u.Composites = append(u.Composites, n)
			u.Enums = append(u.Enums, n)
		case c45KAttachment:
			u.Composites = append(u.Composites, n)
			u.Attach = append(u.Attach, n)
		case c45KStructIntf:
			u.AllIntf = append(u.AllIntf, n)
			if n.Role != "SIG" {
				u.StructIntf = append(u.StructIntf, n)
			}
		case c45KResIntf:
			u.AllIntf = append(u.AllIntf, n)
			u.ResIntf = append(u.ResIntf, n)
		case c45KContrIntf:
			u.AllIntf = append(u.AllIntf, n)
			u.ContrIntf = append(u.ContrIntf, n)
		case c45KEnt:
			u.Ents = append(u.Ents, n)
			// flat, decode-independent index for the conversion handler
			u.conv.ents[n.Ent.ID()] = n.Ent
		case c45KMap:
			u.Maps = append(u.Maps, n)
			u.conv.maps[n.Map.ID()] = n.Map
		}
	}
}

// c45NewUniverse builds one prelude per location kind (two for address locations).
func c45NewUniverse(r *rand.Rand) *c45Universe {
	u := &c45Universe{}
	// address location: a contract
	{
		a, ac := c45RandAddress(r)
		name, _ := c45Ident(r)
		u.Preludes = append(u.Preludes, c45BuildPrelude(r, nil, common.AddressLocation{Address: a, Name: name}, "", ac, false, false))
	}
	// address location: a contract interface
	{
		a, ac := c45RandAddress(r)
		name, _ := c45Ident(r)
		u.Preludes = append(u.Preludes, c45BuildPrelude(r, nil, common.AddressLocation{Address: a, Name: name}, "", ac, true, false))
	}
	{
		s, cl := c45StringLocName(r)
		u.Preludes = append(u.Preludes, c45BuildPrelude(r, nil, common.StringLocation(s), cl, "", false, false))
	}
	{
		s, cl := c45Ident(r)
		u.Preludes = append(u.Preludes, c45BuildPrelude(r, nil, common.IdentifierLocation(s), cl, "", false, false))
	}
	{
		b, cl := c45Rand32(r)
		u.Preludes = append(u.Preludes, c45BuildPrelude(r, nil, common.TransactionLocation(b), "", cl, false, false))
	}
	{
		b, cl := c45Rand32(r)
		u.Preludes = append(u.Preludes, c45BuildPrelude(r, nil, common.ScriptLocation(b), "", cl, false, false))
	}
	u.Preludes = append(u.Preludes, c45BuildPrelude(r, nil, common.REPLLocation{}, "", "", false, false))
	u.index()
	return u
}
