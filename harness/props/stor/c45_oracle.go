package stor

import (
	"fmt"
	"math/rand/v2"
	"strings"

	"github.com/onflow/cadence"
	"github.com/onflow/cadence/common"
	"github.com/onflow/cadence/interpreter"
	"github.com/onflow/cadence/runtime"
	"github.com/onflow/cadence/sema"

	"verif/harness/core"
)

// C45 — Go leg: for a recipe, build the checker's type t, convert it to the run-time static type s
// and to the exported type c, and compare what the statement says must agree.

type c45Reps struct {
	T sema.Type
	S interpreter.StaticType
	C cadence.Type
}

// c45Guard runs f and turns a Go panic into (false, message).
func c45Guard(f func()) (ok bool, msg string) {
	defer func() {
		if r := recover(); r != nil {
			ok = false
			msg = fmt.Sprint(r)
		}
	}()
	f()
	return true, ""
}

// c45Convert converts t to the static and the exported representation. The export result cache is
// fresh for every call (it is keyed by type ID and would otherwise hand back the export of an earlier
// member order); seed, if given, pre-populates it with already exported NOMINAL types so that two
// exports share the exported composite / interface objects, as two types exported in one run do
// (cadence.IntersectionType.Equal compares its members by object identity).
func c45Convert(t sema.Type, seed map[sema.TypeID]cadence.Type) (rep c45Reps, results map[sema.TypeID]cadence.Type, where string, msg string) {
	rep.T = t
	if ok, m := c45Guard(func() { rep.S = interpreter.ConvertSemaToStaticType(nil, t) }); !ok {
		return rep, nil, "ConvertSemaToStaticType", m
	}
	if rep.S == nil {
		return rep, nil, "ConvertSemaToStaticType", "returned nil"
	}
	results = map[sema.TypeID]cadence.Type{}
	for k, v := range seed {
		switch v.(type) {
		case cadence.CompositeType, cadence.InterfaceType:
			results[k] = v
		}
	}
	if ok, m := c45Guard(func() { rep.C = runtime.ExportType(t, results) }); !ok {
		return rep, nil, "ExportType", m
	}
	if rep.C == nil {
		return rep, nil, "ExportType", "returned nil"
	}
	return rep, results, "", ""
}

func c45KindMonitor(c *core.Ctx, n *c45Node) {
	switch n.Kind {
	case c45Prim:
		c.Inc("kind_primitive")
		switch {
		case n.Prim.LeafInt:
			c.Inc("kind_prim_integer")
		case n.Prim.AbsInt, n.Prim.T == sema.NumberType, n.Prim.T == sema.SignedNumberType, n.Prim.T == sema.FixedPointType, n.Prim.T == sema.SignedFixedPointType:
			c.Inc("kind_prim_abstract_number")
		case !n.Prim.Denotable:
			c.Inc("kind_prim_nondenotable")
		}
	case c45Nom:
		c.Inc("kind_nominal_" + n.Nom.Kind)
		c.Inc("nominal_at_" + n.Nom.LocKind)
	case c45Opt:
		c.Inc("kind_optional")
	case c45VarArr:
		c.Inc("kind_variable_array")
	case c45ConstArr:
		c.Inc("kind_constant_array")
	case c45Dict:
		c.Inc("kind_dictionary")
	case c45Ref:
		c.Inc("kind_reference")
		c.Inc("auth_" + n.authShape())
	case c45Inter:
		c.Inc("kind_intersection")
		if n.Legacy != nil {
			c.Inc("kind_intersection_legacy")
		}
	case c45Cap:
		c.Inc("kind_capability")
	case c45CapBare:
		c.Inc("kind_capability_bare")
	case c45Fun:
		c.Inc("kind_function")
		if n.View {
			c.Inc("kind_function_view")
		}
	case c45Range:
		c.Inc("kind_inclusive_range")
	}
}

func c45Witness(n *c45Node, extra map[string]any) map[string]any {
	w := map[string]any{"recipe": n.describe(), "shape": n.shape(8)}
	if n.Sema != nil {
		w["sema_type"] = fmt.Sprintf("%T %s", n.Sema, n.Sema.QualifiedString())
		w["sema_id"] = string(n.Sema.ID())
	}
	for k, v := range extra {
		w[k] = v
	}
	return w
}

// c45CheckTree checks every subtree bottom-up and reports only the minimal failing subtrees
// (a parent whose child already failed is not reported again). It returns whether n is clean.
func c45CheckTree(c *core.Ctx, u *c45Universe, n *c45Node) bool {
	clean := true
	for _, k := range n.Kids {
		if !c45CheckTree(c, u, k) {
			clean = false
		}
	}
	if n.Legacy != nil && !c45CheckTree(c, u, n.Legacy) {
		clean = false
	}
	if !clean {
		return false
	}
	return c45CheckOne(c, u, n)
}

func c45CheckOne(c *core.Ctx, u *c45Universe, n *c45Node) bool {
	c.Eval(1)
	c.Inc("subtrees_checked")
	c45KindMonitor(c, n)
	shape := n.shape(1)
	t := n.Sema
	ok := true

	rep, exported, where, msg := c45Convert(t, nil)
	if where != "" {
		c.Violate("convert-failed:"+where+":"+shape,
			fmt.Sprintf("%s failed for a generated type: %s", where, core.Clip(msg, 300)),
			c45Witness(n, map[string]any{"failure": core.Clip(msg, 2000)}))
		return false
	}

	// (a) the three IDs are the same string
	var idT, idS, idC string
	if okID, m := c45Guard(func() {
		idT = string(rep.T.ID())
		idS = string(rep.S.ID())
		idC = rep.C.ID()
	}); !okID {
		c.Violate("id-panic:"+shape, "ID() panicked: "+core.Clip(m, 300), c45Witness(n, map[string]any{"panic": m}))
		return false
	}
	c.Inc("id_triples_compared")
	ids := map[string]any{"sema_id": idT, "static_id": idS, "exported_id": idC,
		"static_type": fmt.Sprintf("%T", rep.S), "exported_type": fmt.Sprintf("%T", rep.C)}
	if idT != idS {
		ok = false
		c.Violate("id-mismatch:sema/static:"+shape,
			fmt.Sprintf("checker type ID %q != static type ID %q", idT, idS), c45Witness(n, ids))
	}
	if idT != idC {
		ok = false
		c.Violate("id-mismatch:sema/exported:"+shape,
			fmt.Sprintf("checker type ID %q != exported type ID %q", idT, idC), c45Witness(n, ids))
	}
	if idS != idC && idT == idS {
		ok = false
		c.Violate("id-mismatch:static/exported:"+shape,
			fmt.Sprintf("static type ID %q != exported type ID %q", idS, idC), c45Witness(n, ids))
	}

	// (b) checker -> run-time -> checker yields an equal type
	var back sema.Type
	var cerr error
	if okB, m := c45Guard(func() { back, cerr = interpreter.ConvertStaticToSemaType(u.conv, rep.S) }); !okB {
		ok = false
		c.Violate("roundtrip-sema-static:"+shape, "ConvertStaticToSemaType panicked: "+core.Clip(m, 300),
			c45Witness(n, map[string]any{"panic": m, "static_id": idS}))
	} else if cerr != nil || back == nil {
		ok = false
		c.Violate("roundtrip-sema-static:"+shape, fmt.Sprintf("ConvertStaticToSemaType failed: %v", cerr),
			c45Witness(n, map[string]any{"error": fmt.Sprint(cerr), "static_id": idS}))
	} else {
		c.Inc("roundtrips_sema_static")
		var e1, e2 bool
		var backID string
		if okE, m := c45Guard(func() { e1, e2, backID = back.Equal(t), t.Equal(back), string(back.ID()) }); !okE {
			ok = false
			c.Violate("roundtrip-sema-static:"+shape, "Equal panicked on the converted-back type: "+core.Clip(m, 300),
				c45Witness(n, map[string]any{"panic": m}))
		} else if !e1 || !e2 || backID != idT {
			ok = false
			c.Violate("roundtrip-sema-static:"+shape,
				fmt.Sprintf("ConvertStaticToSemaType(ConvertSemaToStaticType(t)) is not equal to t: back.Equal(t)=%v t.Equal(back)=%v back.ID()=%q t.ID()=%q", e1, e2, backID, idT),
				c45Witness(n, map[string]any{"back_type": fmt.Sprintf("%T %s", back, back.QualifiedString()), "back_id": backID}))
		}
	}

	// (c) import(export(t)) equals s — where ImportType is defined (it is not for function and
	// attachment types, which cannot be imported as arguments; counted, not judged)
	if n.contains(func(m *c45Node) bool {
		return m.Kind == c45Fun || (m.Kind == c45Nom && m.Nom.Kind == c45KAttachment)
	}) {
		c.Inc("import_skipped_function_or_attachment")
	} else {
		var imp interpreter.StaticType
		if okI, m := c45Guard(func() { imp = runtime.ImportType(nil, rep.C) }); !okI {
			ok = false
			c.Violate("import-export:"+shape, "ImportType(ExportType(t)) panicked: "+core.Clip(m, 300),
				c45Witness(n, map[string]any{"panic": m, "exported_type": fmt.Sprintf("%T", rep.C)}))
		} else if imp == nil {
			ok = false
			c.Violate("import-export:"+shape, "ImportType(ExportType(t)) returned nil", c45Witness(n, nil))
		} else {
			c.Inc("import_export_roundtrips")
			var e1, e2 bool
			var impID string
			if okE, m := c45Guard(func() { e1, e2, impID = rep.S.Equal(imp), imp.Equal(rep.S), string(imp.ID()) }); !okE {
				ok = false
				c.Violate("import-export:"+shape, "Equal/ID panicked on the imported type: "+core.Clip(m, 300), c45Witness(n, map[string]any{"panic": m}))
			} else if !e1 || !e2 || impID != idS {
				ok = false
				c.Violate("import-export:"+shape,
					fmt.Sprintf("ImportType(ExportType(t)) is not equal to ConvertSemaToStaticType(t): s.Equal(imp)=%v imp.Equal(s)=%v imp.ID()=%q s.ID()=%q", e1, e2, impID, idS),
					c45Witness(n, map[string]any{"imported_type": fmt.Sprintf("%T %s", imp, imp), "static_type": fmt.Sprintf("%T %s", rep.S, rep.S)}))
			}
		}
	}

	// (e) nominal types: the ID decodes to what it was built from; the converted types carry it too
	if n.Kind == c45Nom {
		if !c45CheckNominal(c, n.Nom, rep) {
			ok = false
		}
	}

	// (d) member order: the same sets in other member orders
	if (n.Kind == c45Ref && len(n.AuthEnt) > 1) || (n.Kind == c45Inter && len(n.Intfs) > 1) {
		if !c45CheckPermutations(c, u, n, rep, exported, idT) {
			ok = false
		}
	}
	return ok
}

// c45AllPerms enumerates every order of 0..n-1 (n ≤ 4).
func c45AllPerms(n int) [][]int {
	var out [][]int
	var rec func(cur []int, used []bool)
	rec = func(cur []int, used []bool) {
		if len(cur) == n {
			out = append(out, append([]int(nil), cur...))
			return
		}
		for i := 0; i < n; i++ {
			if !used[i] {
				used[i] = true
				rec(append(cur, i), used)
				used[i] = false
			}
		}
	}
	rec(nil, make([]bool, n))
	return out
}

// c45CheckPermutations rebuilds the root's own set in EVERY member order (the children are shared)
// and requires the same ID in all three representations and equal types.
func c45CheckPermutations(c *core.Ctx, u *c45Universe, n *c45Node, base c45Reps, baseExported map[sema.TypeID]cadence.Type, baseID string) bool {
	ok := true
	shape := n.shape(1)
	members := len(n.AuthEnt)
	if n.Kind == c45Inter {
		members = len(n.Intfs)
	}
	for _, order := range c45AllPerms(members) {
		var t sema.Type
		switch n.Kind {
		case c45Ref:
			ents := make([]*sema.EntitlementType, members)
			for i, idx := range order {
				ents[i] = n.AuthEnt[idx].Ent
			}
			kind := sema.Conjunction
			if n.Auth == c45AuthDisj {
				kind = sema.Disjunction
			}
			t = sema.NewReferenceType(nil, sema.NewEntitlementSetAccess(ents, kind), n.Kids[0].Sema)
		case c45Inter:
			intfs := make([]*sema.InterfaceType, members)
			for i, idx := range order {
				intfs[i] = n.Intfs[idx].Intf
			}
			var legacy sema.Type
			if n.Legacy != nil {
				legacy = n.Legacy.Sema
			}
			t = sema.NewIntersectionType(nil, legacy, intfs)
		}
		c.Eval(1)
		c.Inc("permutation_checks")
		wit := func(extra map[string]any) map[string]any {
			w := c45Witness(n, extra)
			w["member_order"] = fmt.Sprint(order)
			w["permuted_sema_type"] = t.QualifiedString()
			return w
		}
		rep, _, where, msg := c45Convert(t, baseExported)
		if where != "" {
			ok = false
			c.Violate("convert-failed:"+where+":"+shape, where+" failed for a permuted member order: "+core.Clip(msg, 300), wit(map[string]any{"failure": msg}))
			continue
		}
		var idT, idS, idC string
		var eqT, eqS, eqC bool
		if okP, m := c45Guard(func() {
			idT, idS, idC = string(rep.T.ID()), string(rep.S.ID()), rep.C.ID()
			eqT = rep.T.Equal(base.T) && base.T.Equal(rep.T)
			eqS = rep.S.Equal(base.S) && base.S.Equal(rep.S)
			eqC = rep.C.Equal(base.C) && base.C.Equal(rep.C)
		}); !okP {
			ok = false
			c.Violate("member-order:panic:"+shape, "ID/Equal panicked for a permuted member order: "+core.Clip(m, 300), wit(map[string]any{"panic": m}))
			continue
		}
		ids := map[string]any{"base_id": baseID, "sema_id": idT, "static_id": idS, "exported_id": idC}
		if idT != baseID {
			ok = false
			c.Violate("member-order:sema-id:"+shape, fmt.Sprintf("checker type ID depends on member order: %q vs %q", idT, baseID), wit(ids))
		}
		if idS != baseID {
			ok = false
			c.Violate("member-order:static-id:"+shape, fmt.Sprintf("static type ID depends on member order: %q vs %q", idS, baseID), wit(ids))
		}
		if idC != baseID {
			ok = false
			c.Violate("member-order:exported-id:"+shape, fmt.Sprintf("exported type ID depends on member order: %q vs %q", idC, baseID), wit(ids))
		}
		if !eqT {
			ok = false
			c.Violate("member-order:sema-equal:"+shape, "checker types that differ only in member order are not Equal", wit(ids))
		}
		if !eqS {
			ok = false
			c.Violate("member-order:static-equal:"+shape, "static types that differ only in member order are not Equal", wit(ids))
		}
		if !eqC {
			ok = false
			c.Violate("member-order:exported-equal:"+shape, "exported types that differ only in member order are not Equal", wit(ids))
		}
	}
	return ok
}

func c45NameClassOf(n *c45Nominal) string {
	cl := "nested-qualified"
	if !strings.Contains(n.QID, ".") {
		cl = "top-level"
	}
	if n.NameClass == "name-with-dot" {
		return "name-with-dot"
	}
	return cl
}

// c45CheckDecode: DecodeTypeID(id) must give back (loc, qid).
func c45CheckDecode(c *core.Ctx, id string, loc common.Location, qid string, locKind, nameClass string, wit map[string]any) bool {
	c.Eval(1)
	var dl common.Location
	var dq string
	var derr error
	if okD, m := c45Guard(func() { dl, dq, derr = common.DecodeTypeID(nil, id) }); !okD {
		wit["panic"] = m
		c.Violate("decode-typeid:"+locKind+":"+nameClass, fmt.Sprintf("DecodeTypeID(%q) panicked: %s", id, core.Clip(m, 200)), wit)
		return false
	}
	c.Inc("decoded_" + locKind)
	wit["type_id"] = id
	wit["built_from_location"] = c45LocDesc(loc)
	wit["built_from_qualified_identifier"] = qid
	if derr != nil {
		wit["error"] = derr.Error()
		c.Violate("decode-typeid:"+locKind+":"+nameClass,
			fmt.Sprintf("DecodeTypeID(%q) failed (%v); the ID was built from %s and %q", id, derr, c45LocDesc(loc), qid), wit)
		return false
	}
	if dl != loc || dq != qid {
		wit["decoded_location"] = c45LocDesc(dl)
		wit["decoded_qualified_identifier"] = dq
		c.Violate("decode-typeid:"+locKind+":"+nameClass,
			fmt.Sprintf("DecodeTypeID(%q) = (%s, %q); the ID was built from (%s, %q)", id, c45LocDesc(dl), dq, c45LocDesc(loc), qid), wit)
		return false
	}
	return true
}

// c45CheckNominal: decode of the ID, and location / qualified identifier carried by s and c.
func c45CheckNominal(c *core.Ctx, n *c45Nominal, rep c45Reps) bool {
	ok := true
	id := string(n.semaType().ID())
	nameClass := c45NameClassOf(n)
	wit := map[string]any{"kind": n.Kind, "role": n.Role}
	if !c45CheckDecode(c, id, n.Loc, n.QID, n.LocKind, nameClass, wit) {
		ok = false
	}
	// the ID is the one the location builds for the qualified identifier
	if n.Loc != nil {
		if want := string(n.Loc.TypeID(nil, n.QID)); want != id {
			ok = false
			c.Violate("nominal-id:"+n.Kind+"@"+n.LocKind, fmt.Sprintf("type ID %q is not location.TypeID(qualified identifier) = %q", id, want), wit)
		}
	}
	// the run-time and exported forms carry the location and qualified identifier
	var sl, cl common.Location
	var sq, cq string
	have := false
	switch s := rep.S.(type) {
	case *interpreter.CompositeStaticType:
		sl, sq, have = s.Location, s.QualifiedIdentifier, true
	case *interpreter.InterfaceStaticType:
		sl, sq, have = s.Location, s.QualifiedIdentifier, true
	}
	if have && (sl != n.Loc || sq != n.QID) {
		ok = false
		c.Violate("nominal-fields:static:"+n.Kind+"@"+n.LocKind,
			fmt.Sprintf("static type carries (%s, %q), declared at (%s, %q)", c45LocDesc(sl), sq, c45LocDesc(n.Loc), n.QID), wit)
	}
	have = false
	switch ct := rep.C.(type) {
	case cadence.CompositeType:
		cl, cq, have = ct.CompositeTypeLocation(), ct.CompositeTypeQualifiedIdentifier(), true
	case cadence.InterfaceType:
		cl, cq, have = ct.InterfaceTypeLocation(), ct.InterfaceTypeQualifiedIdentifier(), true
	}
	if have && (cl != n.Loc || cq != n.QID) {
		ok = false
		c.Violate("nominal-fields:exported:"+n.Kind+"@"+n.LocKind,
			fmt.Sprintf("exported type carries (%s, %q), declared at (%s, %q)", c45LocDesc(cl), cq, c45LocDesc(n.Loc), n.QID), wit)
	}
	return ok
}

// c45CheckEntitlementNominals: entitlements and mappings are not value types (they cannot be exported),
// but their IDs are part of every authorized reference ID: decode them as well.
func c45CheckEntitlementNominals(c *core.Ctx, u *c45Universe) {
	for _, n := range u.Nominals {
		if strings.HasPrefix(n.Kind, "missing:") {
			c.Violate("nominal-id:"+strings.TrimPrefix(n.Kind, "missing:")+"@"+n.LocKind,
				fmt.Sprintf("declaration %q at %s is not registered in the elaboration under location.TypeID(qualified identifier)", n.QID, c45LocDesc(n.Loc)),
				map[string]any{"qualified_identifier": n.QID, "location": c45LocDesc(n.Loc)})
			continue
		}
		if n.Kind != c45KEnt && n.Kind != c45KMap {
			continue
		}
		c.Inc("kind_nominal_" + n.Kind)
		id := string(n.semaType().ID())
		c45CheckDecode(c, id, n.Loc, n.QID, n.LocKind, c45NameClassOf(n), map[string]any{"kind": n.Kind, "role": n.Role})
	}
}

// c45GoLeg generates count root recipes and checks them.
func c45GoLeg(c *core.Ctx, u *c45Universe, r *rand.Rand, count int) {
	g := c45NewGen(r, u, false)
	for i := 0; i < count; i++ {
		n := g.gen(1 + r.IntN(4))
		c45Build(n, nil)
		c.Inc("types_generated")
		c.Distinct(string(n.Sema.ID()))
		clean := c45CheckTree(c, u, n)
		if clean {
			c.Inc("types_clean")
		}
		// whole-tree shuffle: every set in the tree in another order at once
		if n.contains(func(m *c45Node) bool {
			return (m.Kind == c45Ref && len(m.AuthEnt) > 1) || (m.Kind == c45Inter && len(m.Intfs) > 1)
		}) && clean {
			t2 := c45Build(n, r)
			rep1, exported1, _, _ := c45Convert(n.Sema, nil)
			rep2, _, where, msg := c45Convert(t2, exported1)
			c.Eval(1)
			c.Inc("tree_shuffle_checks")
			shape := n.shape(1)
			if where != "" {
				c.Violate("convert-failed:"+where+":"+shape, where+" failed for a shuffled tree: "+core.Clip(msg, 300), c45Witness(n, nil))
			} else {
				okS, m := c45Guard(func() {
					a, b, d := string(rep2.T.ID()), string(rep2.S.ID()), rep2.C.ID()
					base := string(n.Sema.ID())
					if a != base || b != base || d != base {
						c.Violate("member-order:tree-id:"+shape,
							fmt.Sprintf("IDs of a tree with every set in another member order differ: base %q sema %q static %q exported %q", base, a, b, d),
							c45Witness(n, map[string]any{"shuffled": t2.QualifiedString()}))
					}
					if !rep2.T.Equal(rep1.T) || !rep2.S.Equal(rep1.S) || !rep2.C.Equal(rep1.C) {
						c.Violate("member-order:tree-equal:"+shape,
							fmt.Sprintf("types with every set in another member order are not equal: sema %v static %v exported %v",
								rep2.T.Equal(rep1.T), rep2.S.Equal(rep1.S), rep2.C.Equal(rep1.C)),
							c45Witness(n, map[string]any{"shuffled": t2.QualifiedString()}))
					}
				})
				if !okS {
					c.Violate("member-order:panic:"+shape, "ID/Equal panicked for a shuffled tree: "+core.Clip(m, 300), c45Witness(n, nil))
				}
			}
		}
		if i == 0 && c.WantSample() {
			c.Sample(map[string]any{"recipe": n.describe(), "id": string(n.Sema.ID())})
		}
	}
}
