package stor

import (
	"encoding/hex"
	"fmt"
	"math/big"
	"sort"
	"strings"

	"github.com/onflow/cadence/common"

	"verif/harness/host"
)

// Ledger leg of C44: worlds written by real transactions, dumped register by register, and read back by a
// reader script that logs every stored value with its path and type identifier.

const c44ContractName = "V"

const c44Contract = `access(all) contract V {
    access(all) entitlement E
    access(all) entitlement F
    access(all) entitlement mapping M { E -> F }

    access(all) struct interface SI { access(all) fun tag(): String }
    access(all) resource interface RI { access(all) fun tag(): String }

    access(all) enum Color: UInt8 {
        access(all) case red
        access(all) case green
        access(all) case blue
    }

    access(all) struct S: SI {
        access(all) var a: Int
        access(all) var b: String
        access(all) var c: [UInt8]
        access(all) var d: {String: Int}
        access(all) var e: AnyStruct?
        init(a: Int, b: String, c: [UInt8], d: {String: Int}, e: AnyStruct?) {
            self.a = a
            self.b = b
            self.c = c
            self.d = d
            self.e = e
        }
        access(all) fun tag(): String { return "S" }
    }

    access(all) struct Empty {}

    access(all) resource R: RI {
        access(all) var n: Int
        access(all) var label: String
        access(all) var kids: @[R]
        access(all) var named: @{String: R}
        access(all) var opt: @R?
        access(all) var data: AnyStruct
        init(n: Int, label: String, data: AnyStruct) {
            self.n = n
            self.label = label
            self.kids <- []
            self.named <- {}
            self.opt <- nil
            self.data = data
        }
        access(all) fun addKid(_ r: @R) { self.kids.append(<-r) }
        access(all) fun setNamed(_ k: String, _ r: @R) {
            let old <- self.named[k] <- r
            destroy old
        }
        access(all) fun setOpt(_ r: @R) {
            let old <- self.opt <- r
            destroy old
        }
        access(all) fun dropKid(): @R { return <- self.kids.removeFirst() }
        access(E) fun bump() { self.n = self.n + 1 }
        access(all) fun tag(): String { return "R" }
    }

    access(all) attachment A for R {
        access(all) let note: String
        init(note: String) { self.note = note }
    }

    access(all) fun mk(n: Int, label: String, data: AnyStruct): @R {
        return <- create R(n: n, label: label, data: data)
    }

    access(all) var counter: Int
    access(all) var notes: [String]
    access(all) fun bump(_ s: String) {
        self.counter = self.counter + 1
        self.notes.append(s)
    }

    init() {
        self.counter = 0
        self.notes = []
    }
}
`

const c44ReaderTemplate = `import V from 0x0000000000000001

access(all) fun show(_ acct: auth(Storage, Capabilities, Inbox) &Account) {
    let a = acct.address
    var paths: [StoragePath] = []
    var types: [Type] = []
    acct.storage.forEachStored(fun (path: StoragePath, type: Type): Bool {
        paths.append(path)
        types.append(type)
        return true
    })
    var i = 0
    while i < paths.length {
        let p = paths[i]
        let t = types[i]
        for c in acct.capabilities.storage.getControllers(forPath: p) {
            let line: [AnyStruct] = [a, "storage-controller", p, c.capabilityID, c.borrowType.identifier, c.tag, c.target()]
            log(line)
        }
        if t.isSubtype(of: Type<@AnyResource>()) {
            let r <- acct.storage.load<@AnyResource>(from: p)!
            let line: [AnyStruct] = [a, "stored", p, t.identifier, r.getType().identifier, &r as &AnyResource]
            log(line)
            destroy r
        } else {
            let v = acct.storage.copy<AnyStruct>(from: p)!
            let line: [AnyStruct] = [a, "stored", p, t.identifier, v.getType().identifier, v]
            log(line)
        }
        i = i + 1
    }
    acct.storage.forEachPublic(fun (path: PublicPath, type: Type): Bool {
        let line: [AnyStruct] = [a, "public", path, type.identifier]
        log(line)
        return true
    })
    for c in acct.capabilities.account.getControllers() {
        let line: [AnyStruct] = [a, "account-controller", c.capabilityID, c.borrowType.identifier, c.tag]
        log(line)
    }
}

access(all) fun main() {
    let a1 = getAuthAccount<auth(Storage, Capabilities, Inbox) &Account>(0x1)
    let a2 = getAuthAccount<auth(Storage, Capabilities, Inbox) &Account>(0x2)
    let contractLine: [AnyStruct] = ["contract", V.counter, V.notes]
    log(contractLine)
//CLAIMS
    show(a1)
    show(a2)
}
`

type c44Claim struct {
	Name      string `json:"name"`
	Provider  uint64 `json:"provider"`
	Recipient uint64 `json:"recipient"`
	Type      string `json:"type"` // Cadence reference type, e.g. &V.S
}

type c44Tx struct {
	Signer uint64 `json:"signer"`
	Src    string `json:"src"`
}

type c44LedgerEntry struct {
	ID        string            `json:"id"`
	Txs       []c44Tx           `json:"txs"`    // recipe: the transactions that produced the ledger (after deploying V to 0x1)
	Claims    []c44Claim        `json:"claims"` // inbox entries the reader claims
	Registers []string          `json:"registers"`
	Indices   map[string]uint64 `json:"indices"` // slab index counter per owner (hex)
	Logs      []string          `json:"logs"`    // sorted reader log
}

func c44ReaderScript(claims []c44Claim) string {
	var b strings.Builder
	for _, cl := range claims {
		fmt.Fprintf(&b, "    let claim_%s: [AnyStruct] = [\"claim\", %q, a%d.inbox.claim<%s>(%q, provider: 0x%x)]\n    log(claim_%s)\n",
			cl.Name, cl.Name, cl.Recipient, cl.Type, cl.Name, cl.Provider, cl.Name)
	}
	return strings.Replace(c44ReaderTemplate, "//CLAIMS\n", b.String(), 1)
}

// ---------------------------------------------------------------- Cadence value expressions

type c44Scn struct {
	g      *c44Gen
	pre    []string // statements before the saves
	caps   []string // names of capability variables in scope (Capability<&V.S>)
	nextID int
}

func (s *c44Scn) fresh(prefix string) string {
	s.nextID++
	return fmt.Sprintf("%s%d", prefix, s.nextID)
}

func c44CadenceString(str string) string {
	var b strings.Builder
	b.WriteByte('"')
	for _, r := range str {
		switch {
		case r == '"' || r == '\\':
			b.WriteByte('\\')
			b.WriteRune(r)
		case r >= 0x20 && r < 0x7f:
			b.WriteRune(r)
		default:
			fmt.Fprintf(&b, "\\u{%x}", r)
		}
	}
	b.WriteByte('"')
	return b.String()
}

func c44FixedLiteral(raw *big.Int, scale int) string {
	neg := raw.Sign() < 0
	abs := new(big.Int).Abs(raw)
	s := abs.String()
	for len(s) <= scale {
		s = "0" + s
	}
	out := s[:len(s)-scale] + "." + s[len(s)-scale:]
	if neg {
		out = "-" + out
	}
	return out
}

func (s *c44Scn) number(kind string) (typ, expr string) {
	v := s.g.number(kind)
	raw := c44Big(v.S)
	switch kind {
	case "Fix64", "UFix64":
		return kind, "(" + c44FixedLiteral(raw, 8) + " as " + kind + ")"
	case "Fix128", "UFix128":
		return kind, "(" + c44FixedLiteral(raw, 24) + " as " + kind + ")"
	}
	return kind, "(" + raw.String() + " as " + kind + ")"
}

var c44ScnTypes = []string{
	"Int", "[V.S]", "&V.R", "auth(V.E) &V.R", "auth(V.E, V.F) &{V.RI}", "auth(V.E | V.F) &V.R", "{V.SI}", "@{V.RI}",
	"Capability<&V.S>", "Capability", "{String: Int}", "[Int; 3]", "Int?", "@V.R", "V.S", "V.Color", "V", "&V.A",
	"InclusiveRange<Int>", "Account", "&Account", "auth(Storage) &Account", "auth(Storage, Capabilities) &Account",
	"Account.Storage", "AnyStruct", "@AnyResource", "Never", "Void", "Type", "Path", "StoragePath", "PublicPath",
	"Character", "String", "Address", "UFix64", "Fix128", "UFix128", "Word256", "UInt8", "Integer", "Number", "SignedInteger",
	"FixedPoint", "HashableStruct", "Block", "PublicKey", "HashAlgorithm", "SignatureAlgorithm", "DeployedContract",
	"StorageCapabilityController", "AccountCapabilityController", "&[Int]", "&{String: V.S}", "[[UInt8]]", "{Address: [String]}",
	"Int??", "[V.S?]", "auth(Mutate) &[Int]", "auth(Insert, Remove) &{String: Int}", "@{String: V.R}", "@[V.R]", "&AnyResource", "&AnyStruct",
	"{UInt64: {String: V.Color}}", "Capability<auth(V.E) &V.R>", "Capability<&{V.RI}>", "[Type]", "{Type: Int}",
}

var c44HashableKinds = []string{"Int", "UInt8", "Int64", "UInt64", "Word16", "Int256", "String", "Bool", "Address", "Character", "Fix64", "UFix64"}

// simple: a struct-kinded value of a simple (hashable) kind
func (s *c44Scn) simple(kind string) (typ, expr string) {
	g := s.g
	if c44IsNumberKind(kind) {
		return s.number(kind)
	}
	switch kind {
	case "String":
		t := g.text()
		if len(t) > 60 {
			t = t[:60]
			for len(t) > 0 && t[len(t)-1]&0xc0 == 0x80 { // do not cut inside a rune
				t = t[:len(t)-1]
			}
			if len(t) > 0 && t[len(t)-1] >= 0xc0 {
				t = t[:len(t)-1]
			}
		}
		return "String", c44CadenceString(t)
	case "Bool":
		if g.n(2) == 0 {
			return "Bool", "true"
		}
		return "Bool", "false"
	case "Address":
		var av uint64
		for _, b := range c44MustHex(g.addrHex(), 8) {
			av = av<<8 | uint64(b)
		}
		return "Address", fmt.Sprintf("(0x%x as Address)", av)
	case "Character":
		return "Character", "(" + c44CadenceString(g.pick(c44Characters)) + " as Character)"
	}
	panic("c44: bad simple kind " + kind)
}

func (s *c44Scn) distinctKeys(kind string, n int) []string {
	seen := map[string]bool{}
	var out []string
	for tries := 0; len(out) < n && tries < 4*n+8; tries++ {
		_, e := s.simple(kind)
		if kind == "String" || kind == "Character" {
			// compare NFC-insensitively: use the canonical recipe form
		}
		if seen[e] {
			continue
		}
		seen[e] = true
		out = append(out, e)
	}
	return out
}

// structVal: a storable struct-kinded value expression with its static type.
func (s *c44Scn) structVal(depth int) (typ, expr string) {
	g := s.g
	k := g.n(20)
	if depth <= 0 && k >= 9 {
		k = g.n(9)
	}
	switch k {
	case 0, 1, 2:
		return s.number(g.pick(c44NumberKinds))
	case 3:
		return s.simple("String")
	case 4:
		return s.simple(g.pick([]string{"Bool", "Address", "Character"}))
	case 5:
		d := g.pick([]string{"storage", "public"})
		t := map[string]string{"storage": "StoragePath", "public": "PublicPath"}[d]
		if g.n(3) == 0 {
			return "Path", "(/" + d + "/" + g.ident() + " as Path)"
		}
		return t, "/" + d + "/" + g.ident()
	case 6:
		return "Type", "Type<" + g.pick(c44ScnTypes) + ">()"
	case 7:
		return "V.Color", "V.Color." + g.pick([]string{"red", "green", "blue"})
	case 8:
		if len(s.caps) > 0 && g.n(2) == 0 {
			return "Capability<&V.S>", g.pick(s.caps)
		}
		return "Type", "Type<" + g.pick(c44ScnTypes) + ">()"
	case 9, 10:
		t, e := s.structVal(depth - 1)
		switch g.n(3) {
		case 0:
			return t + "?", "(nil as " + t + "?)"
		case 1:
			return t + "??", "(" + e + " as " + t + "??)"
		}
		return t + "?", "(" + e + " as " + t + "?)"
	case 11, 12:
		n := g.n(5)
		t, _ := s.structVal(depth - 1)
		es := make([]string, n)
		for i := range es {
			es[i] = s.exprOfType(t, depth-1)
		}
		if g.n(4) == 0 {
			return fmt.Sprintf("[%s; %d]", t, n), fmt.Sprintf("([%s] as [%s; %d])", strings.Join(es, ", "), t, n)
		}
		return "[" + t + "]", "([" + strings.Join(es, ", ") + "] as [" + t + "])"
	case 13, 14:
		kk := g.pick(c44HashableKinds)
		n := g.n(5)
		keys := s.distinctKeys(kk, n)
		t, _ := s.structVal(depth - 1)
		var es []string
		for _, key := range keys {
			es = append(es, key+": "+s.exprOfType(t, depth-1))
		}
		return "{" + kk + ": " + t + "}", "({" + strings.Join(es, ", ") + "} as {" + kk + ": " + t + "})"
	case 15, 16:
		return "V.S", s.structS(depth)
	case 17:
		return "V.Empty", "V.Empty()"
	default:
		_, e := s.structVal(depth - 1)
		return "AnyStruct", "(" + e + " as AnyStruct)"
	}
}

// exprOfType generates another expression of a type produced by structVal (by regenerating until the type matches
// for the cheap cases, otherwise by structure).
func (s *c44Scn) exprOfType(t string, depth int) string {
	g := s.g
	switch {
	case c44IsNumberKind(t):
		_, e := s.number(t)
		return e
	case t == "String" || t == "Bool" || t == "Address" || t == "Character":
		_, e := s.simple(t)
		return e
	case t == "StoragePath":
		return "/storage/" + g.ident()
	case t == "PublicPath":
		return "/public/" + g.ident()
	case t == "Path":
		return "(/" + g.pick([]string{"storage", "public"}) + "/" + g.ident() + " as Path)"
	case t == "Type":
		return "Type<" + g.pick(c44ScnTypes) + ">()"
	case t == "V.Color":
		return "V.Color." + g.pick([]string{"red", "green", "blue"})
	case t == "V.S":
		return s.structS(depth)
	case t == "V.Empty":
		return "V.Empty()"
	case t == "AnyStruct":
		_, e := s.structVal(depth)
		return "(" + e + " as AnyStruct)"
	case t == "Capability<&V.S>":
		return g.pick(s.caps)
	case t == "InclusiveRange<Int>":
		return fmt.Sprintf("InclusiveRange(%d, %d, step: %d)", g.n(10), 10+g.n(100), 1+g.n(5))
	case t == "InclusiveRange<UInt8>":
		return fmt.Sprintf("InclusiveRange(%d as UInt8, %d as UInt8)", g.n(10), 10+g.n(200))
	case strings.HasSuffix(t, "?"):
		inner := strings.TrimSuffix(t, "?")
		if g.n(3) == 0 {
			return "(nil as " + t + ")"
		}
		return "(" + s.exprOfType(inner, depth) + " as " + t + ")"
	case strings.HasPrefix(t, "["):
		// [T] or [T; n]
		body := t[1 : len(t)-1]
		if i := c44TopLevelIndex(body, ';'); i >= 0 {
			var n int
			fmt.Sscanf(strings.TrimSpace(body[i+1:]), "%d", &n)
			et := strings.TrimSpace(body[:i])
			es := make([]string, n)
			for j := range es {
				es[j] = s.exprOfType(et, depth-1)
			}
			return "([" + strings.Join(es, ", ") + "] as " + t + ")"
		}
		n := g.n(4)
		es := make([]string, n)
		for j := range es {
			es[j] = s.exprOfType(body, depth-1)
		}
		return "([" + strings.Join(es, ", ") + "] as " + t + ")"
	case strings.HasPrefix(t, "{"):
		body := t[1 : len(t)-1]
		i := c44TopLevelIndex(body, ':')
		kt, vt := strings.TrimSpace(body[:i]), strings.TrimSpace(body[i+1:])
		keys := s.distinctKeys(kt, g.n(4))
		var es []string
		for _, key := range keys {
			es = append(es, key+": "+s.exprOfType(vt, depth-1))
		}
		return "({" + strings.Join(es, ", ") + "} as " + t + ")"
	}
	panic("c44: exprOfType: unsupported type " + t)
}

func c44TopLevelIndex(s string, ch byte) int {
	depth := 0
	for i := 0; i < len(s); i++ {
		switch s[i] {
		case '[', '{', '<', '(':
			depth++
		case ']', '}', '>', ')':
			depth--
		default:
			if s[i] == ch && depth == 0 {
				return i
			}
		}
	}
	return -1
}

func (s *c44Scn) structS(depth int) string {
	g := s.g
	_, a := s.number("Int")
	_, b := s.simple("String")
	n := g.n(6)
	cs := make([]string, n)
	for i := range cs {
		cs[i] = fmt.Sprint(g.n(256))
	}
	keys := s.distinctKeys("String", g.n(4))
	var ds []string
	for _, k := range keys {
		_, v := s.number("Int")
		ds = append(ds, k+": "+v)
	}
	e := "nil"
	if depth > 0 && g.n(2) == 0 {
		_, x := s.structVal(depth - 1)
		e = "(" + x + " as AnyStruct)"
	}
	return fmt.Sprintf("V.S(a: %s, b: %s, c: [%s], d: {%s}, e: %s)", a, b, strings.Join(cs, ", "), strings.Join(ds, ", "), e)
}

// resource: statements that build a resource into a fresh variable; returns the variable name.
func (s *c44Scn) resource(depth int) string {
	g := s.g
	name := s.fresh("r")
	_, data := s.structVal(1)
	_, label := s.simple("String")
	s.pre = append(s.pre, fmt.Sprintf("let %s <- V.mk(n: %d, label: %s, data: %s)", name, g.n(1000)-500, label, data))
	if depth > 0 {
		for i, n := 0, g.n(3); i < n; i++ {
			kid := s.resource(depth - 1)
			s.pre = append(s.pre, fmt.Sprintf("%s.addKid(<-%s)", name, kid))
		}
		keys := s.distinctKeys("String", g.n(3))
		for _, k := range keys {
			kid := s.resource(depth - 1)
			s.pre = append(s.pre, fmt.Sprintf("%s.setNamed(%s, <-%s)", name, k, kid))
		}
		if g.n(3) == 0 {
			kid := s.resource(depth - 1)
			s.pre = append(s.pre, fmt.Sprintf("%s.setOpt(<-%s)", name, kid))
		}
	}
	if g.n(4) == 0 {
		att := s.fresh("ra")
		_, note := s.simple("String")
		s.pre = append(s.pre, fmt.Sprintf("let %s <- attach V.A(note: %s) to <-%s", att, note, name))
		return att
	}
	return name
}

// c44GenLedgerTxs generates the transactions of one ledger scenario.
func c44GenLedgerTxs(g *c44Gen) (txs []c44Tx, claims []c44Claim) {
	const auth = "auth(Storage, Capabilities, Inbox) &Account"
	// ---- transaction 1: account 0x1 stores values
	s := &c44Scn{g: g}
	var body []string
	nCaps := g.n(3)
	for i := 0; i < nCaps; i++ {
		cv := fmt.Sprintf("cap%d", i)
		s.pre = append(s.pre, fmt.Sprintf("let %s = signer.capabilities.storage.issue<&V.S>(/storage/s%d)", cv, i))
		s.caps = append(s.caps, cv)
		if g.n(2) == 0 {
			_, tag := s.simple("String")
			s.pre = append(s.pre, fmt.Sprintf("signer.capabilities.storage.getController(byCapabilityID: %s.id)!.setTag(%s)", cv, tag))
		}
	}
	var storedStructPaths, storedResPaths, singleResPaths []string
	for i := 0; i < nCaps; i++ {
		body = append(body, fmt.Sprintf("signer.storage.save(%s, to: /storage/s%d)", s.structS(2), i))
		storedStructPaths = append(storedStructPaths, fmt.Sprintf("s%d", i))
	}
	nVals := 1 + g.n(5)
	for i := 0; i < nVals; i++ {
		t, e := s.structVal(3)
		p := fmt.Sprintf("v%d", i)
		body = append(body, fmt.Sprintf("signer.storage.save(%s as %s, to: /storage/%s)", e, t, p))
		storedStructPaths = append(storedStructPaths, p)
	}
	nRes := g.n(3)
	for i := 0; i < nRes; i++ {
		p := fmt.Sprintf("r%d", i)
		switch g.n(5) {
		case 0:
			var vs []string
			for j, n := 0, g.n(4); j < n; j++ {
				vs = append(vs, "<-"+s.resource(1))
			}
			arr := s.fresh("arr")
			s.pre = append(s.pre, fmt.Sprintf("let %s: @[V.R] <- [%s]", arr, strings.Join(vs, ", ")))
			body = append(body, fmt.Sprintf("signer.storage.save(<-%s, to: /storage/%s)", arr, p))
		case 1:
			keys := s.distinctKeys("String", g.n(4))
			var vs []string
			for _, k := range keys {
				vs = append(vs, k+": <-"+s.resource(1))
			}
			d := s.fresh("dict")
			s.pre = append(s.pre, fmt.Sprintf("let %s: @{String: V.R} <- {%s}", d, strings.Join(vs, ", ")))
			body = append(body, fmt.Sprintf("signer.storage.save(<-%s, to: /storage/%s)", d, p))
		default:
			r := s.resource(2)
			body = append(body, fmt.Sprintf("signer.storage.save(<-%s, to: /storage/%s)", r, p))
			singleResPaths = append(singleResPaths, p)
		}
		storedResPaths = append(storedResPaths, p)
	}
	// big containers
	switch g.n(4) {
	case 0:
		n := 60 + g.n(200)
		body = append(body, fmt.Sprintf("var big: [UInt64] = []\n        var i: UInt64 = 0\n        while i < %d { big.append(i * 7919 + %d); i = i + 1 }\n        signer.storage.save(big, to: /storage/big)", n, g.n(1000)))
	case 1:
		n := 40 + g.n(100)
		body = append(body, fmt.Sprintf("var bigd: {String: Int} = {}\n        var j = 0\n        while j < %d { bigd[\"k\".concat(j.toString())] = j * %d; j = j + 1 }\n        signer.storage.save(bigd, to: /storage/bigd)", n, 1+g.n(100000)))
	case 2:
		n := 20 + g.n(60)
		body = append(body, fmt.Sprintf("var bigs = \"\"\n        var k = 0\n        while k < %d { bigs = bigs.concat(\"chunk-\").concat(k.toString()); k = k + 1 }\n        signer.storage.save(bigs, to: /storage/bigs)", n))
	}
	// capabilities: publish, account capability, inbox
	for i, cv := range s.caps {
		if g.n(2) == 0 {
			body = append(body, fmt.Sprintf("signer.capabilities.publish(%s, at: /public/s%d)", cv, i))
		}
		if g.n(2) == 0 {
			nm := fmt.Sprintf("p%d", i)
			body = append(body, fmt.Sprintf("signer.inbox.publish(%s, name: %q, recipient: 0x2)", cv, nm))
			claims = append(claims, c44Claim{Name: nm, Provider: 1, Recipient: 2, Type: "&V.S"})
		}
	}
	if g.n(3) == 0 {
		body = append(body, "let acap = signer.capabilities.account.issue<&Account>()")
		if g.n(2) == 0 {
			body = append(body, "signer.capabilities.account.getController(byCapabilityID: acap.id)!.setTag(\"acct\")")
		}
		if g.n(2) == 0 {
			body = append(body, "signer.storage.save(acap, to: /storage/acap)")
		}
	}
	for i, n := 0, g.n(3); i < n; i++ {
		_, note := s.simple("String")
		body = append(body, "V.bump("+note+")")
	}
	tx1 := "import V from 0x0000000000000001\ntransaction {\n    prepare(signer: " + auth + ") {\n        " +
		strings.Join(s.pre, "\n        ") + "\n        " + strings.Join(body, "\n        ") + "\n    }\n}\n"
	txs = append(txs, c44Tx{Signer: 1, Src: tx1})

	// ---- transaction 2: account 0x2 stores a few values
	if g.n(3) != 0 {
		s2 := &c44Scn{g: g}
		var b2 []string
		for i, n := 0, 1+g.n(4); i < n; i++ {
			t, e := s2.structVal(2)
			b2 = append(b2, fmt.Sprintf("signer.storage.save(%s as %s, to: /storage/w%d)", e, t, i))
		}
		if g.n(2) == 0 {
			r := s2.resource(1)
			b2 = append(b2, fmt.Sprintf("signer.storage.save(<-%s, to: /storage/wr)", r))
		}
		tx2 := "import V from 0x0000000000000001\ntransaction {\n    prepare(signer: " + auth + ") {\n        " +
			strings.Join(append(s2.pre, b2...), "\n        ") + "\n    }\n}\n"
		txs = append(txs, c44Tx{Signer: 2, Src: tx2})
	}

	// ---- transaction 3: account 0x1 mutates what it stored (history: removals, moves, in-place updates)
	if g.n(3) != 0 {
		var b3 []string
		if len(storedStructPaths) > 1 && g.n(2) == 0 {
			p := storedStructPaths[g.n(len(storedStructPaths))]
			b3 = append(b3, fmt.Sprintf("let gone = signer.storage.load<AnyStruct>(from: /storage/%s)", p))
		}
		if len(storedStructPaths) > 0 && g.n(2) == 0 {
			p := storedStructPaths[g.n(len(storedStructPaths))]
			b3 = append(b3, fmt.Sprintf("if let moved = signer.storage.load<AnyStruct>(from: /storage/%s) { signer.storage.save(moved, to: /storage/moved_%s) }", p, p))
		}
		isSingle := map[string]bool{}
		for _, p := range singleResPaths {
			isSingle[p] = true
		}
		for _, p := range storedResPaths {
			k := g.n(4)
			if k == 1 && !isSingle[p] {
				k = 0
			}
			switch k {
			case 0:
				b3 = append(b3, fmt.Sprintf("if let res <- signer.storage.load<@AnyResource>(from: /storage/%s) { signer.storage.save(<-res, to: /storage/moved_%s) }", p, p))
			case 1:
				b3 = append(b3, fmt.Sprintf("if let ref = signer.storage.borrow<auth(V.E) &V.R>(from: /storage/%s) { ref.bump(); if ref.kids.length > 0 { let k <- ref.dropKid(); destroy k }; ref.addKid(<-V.mk(n: 7, label: \"late\", data: [1, 2, 3])) }", p))
			case 2:
				b3 = append(b3, fmt.Sprintf("if let res2 <- signer.storage.load<@AnyResource>(from: /storage/%s) { destroy res2 }", p))
			}
		}
		b3 = append(b3, "if let bigr = signer.storage.borrow<auth(Mutate) &[UInt64]>(from: /storage/big) { var q = 0; while q < 40 { let x = bigr.removeFirst(); q = q + 1 }; bigr.append(1); bigr.insert(at: 3, 99) }")
		b3 = append(b3, "if let bigdr = signer.storage.borrow<auth(Mutate) &{String: Int}>(from: /storage/bigd) { var q = 0; while q < 30 { bigdr.remove(key: \"k\".concat(q.toString())); q = q + 2 }; bigdr[\"new\"] = -1 }")
		b3 = append(b3, "V.bump(\"tx3\")")
		tx3 := "import V from 0x0000000000000001\ntransaction {\n    prepare(signer: " + auth + ") {\n        " +
			strings.Join(b3, "\n        ") + "\n    }\n}\n"
		txs = append(txs, c44Tx{Signer: 1, Src: tx3})
	}
	return txs, claims
}

// ---------------------------------------------------------------- running

func c44DeployWorld(h *host.Host) error {
	out := h.Deploy(host.EngI, host.Addr(1), c44ContractName, c44Contract)
	if out.Err != nil || out.Escaped != nil {
		return fmt.Errorf("deploying the world contract failed: %s", host.ErrText(out))
	}
	return nil
}

// c44ProduceLedger runs the transactions on a fresh host and returns the ledger entry (without logs).
func c44ProduceLedger(id string, txs []c44Tx, claims []c44Claim) (*c44LedgerEntry, *host.Host, error) {
	h := host.New()
	if err := c44DeployWorld(h); err != nil {
		return nil, nil, err
	}
	for i, tx := range txs {
		out := h.RunTx(host.EngI, tx.Src, nil, []common.Address{host.Addr(tx.Signer)}, nil)
		if out.Err != nil || out.Escaped != nil {
			return nil, nil, fmt.Errorf("transaction %d failed: %s\n%s", i, host.ErrText(out), tx.Src)
		}
	}
	e := &c44LedgerEntry{ID: id, Txs: txs, Claims: claims, Registers: h.Ledger.Dump(), Indices: map[string]uint64{}}
	for owner, n := range h.Ledger.Indices {
		e.Indices[hex.EncodeToString([]byte(owner))] = n
	}
	return e, h, nil
}

// c44OpenLedger builds a host whose ledger holds exactly the recorded registers.
func c44OpenLedger(e *c44LedgerEntry) (*host.Host, error) {
	h := host.New()
	for _, line := range e.Registers {
		i := strings.IndexByte(line, '=')
		if i < 0 {
			return nil, fmt.Errorf("bad register line %q", line)
		}
		k, err := hex.DecodeString(line[:i])
		if err != nil {
			return nil, err
		}
		v, err := hex.DecodeString(line[i+1:])
		if err != nil {
			return nil, err
		}
		h.Ledger.Values[string(k)] = v
	}
	for owner, n := range e.Indices {
		o, err := hex.DecodeString(owner)
		if err != nil {
			return nil, err
		}
		h.Ledger.Indices[string(o)] = n
	}
	// contract code lives in the host's code store (not in registers)
	loc := common.AddressLocation{Address: host.Addr(1), Name: c44ContractName}
	h.Codes[string(loc.ID())] = []byte(c44Contract)
	return h, nil
}

// c44ReadLedger runs the reader script; returns the sorted log.
func c44ReadLedger(h *host.Host, eng host.Engine, claims []c44Claim) ([]string, host.Outcome) {
	h.ResetTrace()
	out := h.RunScript(eng, c44ReaderScript(claims), nil, nil)
	logs := append([]string(nil), h.Logs...)
	sort.Strings(logs)
	return logs, out
}

const c44NoopTx = `import V from 0x0000000000000001
transaction {
    prepare(a: auth(Storage) &Account) {
        var n = 0
        a.storage.forEachStored(fun (path: StoragePath, type: Type): Bool {
            if !type.isSubtype(of: Type<@AnyResource>()) {
                let v = a.storage.copy<AnyStruct>(from: path)
                if v != nil { n = n + 1 }
            } else {
                let r = a.storage.borrow<&AnyResource>(from: path)
                if r != nil { n = n + 1 }
            }
            return true
        })
        let c = V.counter
    }
}
`
