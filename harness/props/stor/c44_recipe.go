package stor

import (
	"encoding/hex"
	"fmt"
	"math/big"
	"sort"
	"strings"

	"github.com/onflow/atree"
	fix "github.com/onflow/fixed-point"
	"golang.org/x/text/unicode/norm"

	"github.com/onflow/cadence/common"
	"github.com/onflow/cadence/interpreter"
	"github.com/onflow/cadence/sema"
)

// ---------------------------------------------------------------------------------------------
// C44 recipe DSL: a tiny JSON description of a storable value / static type that this file
// (a) turns into a real interpreter.Value / interpreter.StaticType through the public constructors
// of the tree under test, and (b) turns into a canonical string WITHOUT touching the tree under
// test. A second, independent walker renders decoded values/types into the same canonical string by
// reading their public fields. The golden corpus pins recipe -> bytes.
// ---------------------------------------------------------------------------------------------

type c44Loc struct {
	K string `json:"k"`           // addr | str | id | tx | script
	A string `json:"a,omitempty"` // hex: 8-byte address or 32-byte tx/script id
	N string `json:"n,omitempty"` // name / string / identifier
}

type c44Auth struct {
	K   string   `json:"k"` // unauth | inaccessible | conj | disj | map
	IDs []string `json:"ids,omitempty"`
}

type c44Type struct {
	K    string     `json:"k"`             // prim opt varr carr dict ref isect cap range comp iface
	N    string     `json:"n,omitempty"`   // primitive name / qualified identifier
	Loc  *c44Loc    `json:"loc,omitempty"` // comp / iface (nil = no location)
	T    *c44Type   `json:"t,omitempty"`   // inner / element / value / referenced / borrow / legacy type
	Key  *c44Type   `json:"key,omitempty"` // dict key type
	Size int64      `json:"size,omitempty"`
	Auth *c44Auth   `json:"auth,omitempty"`
	Ts   []*c44Type `json:"ts,omitempty"` // intersection members (iface)
}

type c44Val struct {
	K   string    `json:"k"`             // nil void bool <NumberType> String Character Address Path Cap SCC ACC Pub Type Some Array Dict Comp
	S   string    `json:"s,omitempty"`   // decimal (numbers, raw for fixed point) / text / hex address / path identifier
	D   string    `json:"d,omitempty"`   // path domain: storage | private | public
	B   bool      `json:"b,omitempty"`   // bool
	U   uint64    `json:"u,omitempty"`   // capability id
	T   *c44Type  `json:"t,omitempty"`   // borrow type / type value / container type
	V   *c44Val   `json:"v,omitempty"`   // Some inner / Pub capability / SCC target path
	Vs  []*c44Val `json:"vs,omitempty"`  // Array elements / Dict k0,v0,k1,v1,... / Comp field values
	Fs  []string  `json:"fs,omitempty"`  // Comp field names
	Loc *c44Loc   `json:"loc,omitempty"` // Comp
	N   string    `json:"n,omitempty"`   // Comp qualified identifier
	CK  string    `json:"ck,omitempty"`  // Comp kind: struct resource contract event enum attachment
}

// ---------------------------------------------------------------- name tables (by Go identifier)

var c44PrimIndex = func() map[string]interpreter.PrimitiveStaticType {
	m := map[string]interpreter.PrimitiveStaticType{}
	for _, p := range c44PrimByName {
		m[p.Name] = p.T
	}
	return m
}()

var c44PrimRev = func() map[interpreter.PrimitiveStaticType]string {
	m := map[interpreter.PrimitiveStaticType]string{}
	for _, p := range c44PrimByName {
		m[p.T] = p.Name
	}
	return m
}()

var c44Domains = []struct {
	Name string
	D    common.PathDomain
}{
	{"storage", common.PathDomainStorage},
	{"private", common.PathDomainPrivate},
	{"public", common.PathDomainPublic},
}

var c44Kinds = []struct {
	Name string
	K    common.CompositeKind
}{
	{"struct", common.CompositeKindStructure},
	{"resource", common.CompositeKindResource},
	{"contract", common.CompositeKindContract},
	{"event", common.CompositeKindEvent},
	{"enum", common.CompositeKindEnum},
	{"attachment", common.CompositeKindAttachment},
}

func c44DomainByName(n string) common.PathDomain {
	for _, d := range c44Domains {
		if d.Name == n {
			return d.D
		}
	}
	panic("c44: bad path domain " + n)
}

func c44DomainName(d common.PathDomain) string {
	for _, x := range c44Domains {
		if x.D == d {
			return x.Name
		}
	}
	return fmt.Sprintf("domain#%d", d)
}

func c44KindByName(n string) common.CompositeKind {
	for _, k := range c44Kinds {
		if k.Name == n {
			return k.K
		}
	}
	panic("c44: bad composite kind " + n)
}

func c44KindName(k common.CompositeKind) string {
	for _, x := range c44Kinds {
		if x.K == k {
			return x.Name
		}
	}
	return fmt.Sprintf("kind#%d", k)
}

// ---------------------------------------------------------------- builders (recipe -> real objects)

func c44MustHex(s string, n int) []byte {
	b, err := hex.DecodeString(s)
	if err != nil || (n > 0 && len(b) != n) {
		panic(fmt.Sprintf("c44: bad hex %q (want %d bytes)", s, n))
	}
	return b
}

func c44BuildLoc(l *c44Loc) common.Location {
	if l == nil {
		return nil
	}
	switch l.K {
	case "addr":
		var a common.Address
		copy(a[:], c44MustHex(l.A, 8))
		return common.AddressLocation{Address: a, Name: l.N}
	case "str":
		return common.StringLocation(l.N)
	case "id":
		return common.IdentifierLocation(l.N)
	case "tx":
		var t common.TransactionLocation
		copy(t[:], c44MustHex(l.A, 32))
		return t
	case "script":
		var t common.ScriptLocation
		copy(t[:], c44MustHex(l.A, 32))
		return t
	}
	panic("c44: bad location kind " + l.K)
}

func c44BuildAuth(a *c44Auth) interpreter.Authorization {
	switch a.K {
	case "unauth":
		return interpreter.UnauthorizedAccess
	case "inaccessible":
		return interpreter.InaccessibleAccess
	case "map":
		return interpreter.NewEntitlementMapAuthorization(nil, common.TypeID(a.IDs[0]))
	case "conj", "disj":
		kind := sema.Conjunction
		if a.K == "disj" {
			kind = sema.Disjunction
		}
		ids := make([]common.TypeID, len(a.IDs))
		for i, s := range a.IDs {
			ids[i] = common.TypeID(s)
		}
		return interpreter.NewEntitlementSetAuthorization(nil, func() []common.TypeID { return ids }, len(ids), kind)
	}
	panic("c44: bad auth kind " + a.K)
}

func c44BuildType(t *c44Type) interpreter.StaticType {
	if t == nil {
		return nil
	}
	switch t.K {
	case "prim":
		p, ok := c44PrimIndex[t.N]
		if !ok {
			panic("c44: unknown primitive " + t.N)
		}
		return p
	case "opt":
		return interpreter.NewOptionalStaticType(nil, c44BuildType(t.T))
	case "varr":
		return interpreter.NewVariableSizedStaticType(nil, c44BuildType(t.T))
	case "carr":
		return interpreter.NewConstantSizedStaticType(nil, c44BuildType(t.T), t.Size)
	case "dict":
		return interpreter.NewDictionaryStaticType(nil, c44BuildType(t.Key), c44BuildType(t.T))
	case "ref":
		return interpreter.NewReferenceStaticType(nil, c44BuildAuth(t.Auth), c44BuildType(t.T))
	case "isect":
		ifs := make([]*interpreter.InterfaceStaticType, len(t.Ts))
		for i, m := range t.Ts {
			ifs[i] = c44BuildType(m).(*interpreter.InterfaceStaticType)
		}
		st := interpreter.NewIntersectionStaticType(nil, ifs)
		if t.T != nil {
			st.LegacyType = c44BuildType(t.T)
		}
		return st
	case "cap":
		return interpreter.NewCapabilityStaticType(nil, c44BuildType(t.T))
	case "range":
		return interpreter.NewInclusiveRangeStaticType(nil, c44BuildType(t.T))
	case "comp":
		return interpreter.NewCompositeStaticTypeComputeTypeID(nil, c44BuildLoc(t.Loc), t.N)
	case "iface":
		return interpreter.NewInterfaceStaticTypeComputeTypeID(nil, c44BuildLoc(t.Loc), t.N)
	}
	panic("c44: bad type kind " + t.K)
}

func c44Big(s string) *big.Int {
	b, ok := new(big.Int).SetString(s, 10)
	if !ok {
		panic("c44: bad number " + s)
	}
	return b
}

var c44Two64 = new(big.Int).Lsh(big.NewInt(1), 64)
var c44Two128 = new(big.Int).Lsh(big.NewInt(1), 128)

// c44HiLo splits a (possibly negative) 128-bit raw value into two's-complement hi/lo words.
func c44HiLo(v *big.Int) (uint64, uint64) {
	m := new(big.Int).Mod(v, c44Two128)
	hi := new(big.Int).Rsh(m, 64)
	lo := new(big.Int).Mod(m, c44Two64)
	return hi.Uint64(), lo.Uint64()
}

func c44FromHiLo(hi, lo uint64, signed bool) *big.Int {
	v := new(big.Int).SetUint64(hi)
	v.Lsh(v, 64)
	v.Add(v, new(big.Int).SetUint64(lo))
	if signed && hi>>63 == 1 {
		v.Sub(v, c44Two128)
	}
	return v
}

var c44NumberKinds = []string{
	"Int", "Int8", "Int16", "Int32", "Int64", "Int128", "Int256",
	"UInt", "UInt8", "UInt16", "UInt32", "UInt64", "UInt128", "UInt256",
	"Word8", "Word16", "Word32", "Word64", "Word128", "Word256",
	"Fix64", "Fix128", "UFix64", "UFix128",
}

func c44IsNumberKind(k string) bool {
	for _, n := range c44NumberKinds {
		if n == k {
			return true
		}
	}
	return false
}

// c44NumRange returns the inclusive raw range of a number kind (nil = unbounded).
func c44NumRange(k string) (lo, hi *big.Int) {
	pow := func(n uint) *big.Int { return new(big.Int).Lsh(big.NewInt(1), n) }
	signed := func(bits uint) (*big.Int, *big.Int) {
		return new(big.Int).Neg(pow(bits - 1)), new(big.Int).Sub(pow(bits-1), big.NewInt(1))
	}
	unsigned := func(bits uint) (*big.Int, *big.Int) {
		return big.NewInt(0), new(big.Int).Sub(pow(bits), big.NewInt(1))
	}
	switch k {
	case "Int":
		return nil, nil
	case "UInt":
		return big.NewInt(0), nil
	case "Int8":
		return signed(8)
	case "Int16":
		return signed(16)
	case "Int32":
		return signed(32)
	case "Int64", "Fix64":
		return signed(64)
	case "Int128", "Fix128":
		return signed(128)
	case "Int256":
		return signed(256)
	case "UInt8", "Word8":
		return unsigned(8)
	case "UInt16", "Word16":
		return unsigned(16)
	case "UInt32", "Word32":
		return unsigned(32)
	case "UInt64", "Word64", "UFix64":
		return unsigned(64)
	case "UInt128", "Word128", "UFix128":
		return unsigned(128)
	case "UInt256", "Word256":
		return unsigned(256)
	}
	panic("c44: not a number kind " + k)
}

func c44BuildNumber(k string, b *big.Int) interpreter.Value {
	switch k {
	case "Int":
		return interpreter.NewUnmeteredIntValueFromBigInt(b)
	case "Int8":
		return interpreter.NewUnmeteredInt8Value(int8(b.Int64()))
	case "Int16":
		return interpreter.NewUnmeteredInt16Value(int16(b.Int64()))
	case "Int32":
		return interpreter.NewUnmeteredInt32Value(int32(b.Int64()))
	case "Int64":
		return interpreter.NewUnmeteredInt64Value(b.Int64())
	case "Int128":
		return interpreter.NewUnmeteredInt128ValueFromBigInt(b)
	case "Int256":
		return interpreter.NewUnmeteredInt256ValueFromBigInt(b)
	case "UInt":
		return interpreter.NewUnmeteredUIntValueFromBigInt(b)
	case "UInt8":
		return interpreter.NewUnmeteredUInt8Value(uint8(b.Uint64()))
	case "UInt16":
		return interpreter.NewUnmeteredUInt16Value(uint16(b.Uint64()))
	case "UInt32":
		return interpreter.NewUnmeteredUInt32Value(uint32(b.Uint64()))
	case "UInt64":
		return interpreter.NewUnmeteredUInt64Value(b.Uint64())
	case "UInt128":
		return interpreter.NewUnmeteredUInt128ValueFromBigInt(b)
	case "UInt256":
		return interpreter.NewUnmeteredUInt256ValueFromBigInt(b)
	case "Word8":
		return interpreter.NewUnmeteredWord8Value(uint8(b.Uint64()))
	case "Word16":
		return interpreter.NewUnmeteredWord16Value(uint16(b.Uint64()))
	case "Word32":
		return interpreter.NewUnmeteredWord32Value(uint32(b.Uint64()))
	case "Word64":
		return interpreter.NewUnmeteredWord64Value(b.Uint64())
	case "Word128":
		return interpreter.NewUnmeteredWord128ValueFromBigInt(b)
	case "Word256":
		return interpreter.NewUnmeteredWord256ValueFromBigInt(b)
	case "Fix64":
		return interpreter.NewUnmeteredFix64Value(b.Int64())
	case "UFix64":
		return interpreter.NewUnmeteredUFix64Value(b.Uint64())
	case "Fix128":
		hi, lo := c44HiLo(b)
		return interpreter.NewUnmeteredFix128Value(fix.NewFix128(hi, lo))
	case "UFix128":
		hi, lo := c44HiLo(b)
		return interpreter.NewUnmeteredUFix128Value(fix.NewUFix128(hi, lo))
	}
	panic("c44: not a number kind " + k)
}

// c44Ctx is what is needed to build atree-backed values.
type c44Ctx struct {
	Inter *interpreter.Interpreter
	Addr  common.Address
}

func c44BuildAddr(s string) interpreter.AddressValue {
	return interpreter.NewUnmeteredAddressValueFromBytes(c44MustHex(s, 8))
}

func c44BuildVal(ctx *c44Ctx, r *c44Val) interpreter.Value {
	if c44IsNumberKind(r.K) {
		return c44BuildNumber(r.K, c44Big(r.S))
	}
	switch r.K {
	case "nil":
		return interpreter.Nil
	case "void":
		return interpreter.Void
	case "bool":
		return interpreter.BoolValue(r.B)
	case "String":
		return interpreter.NewUnmeteredStringValue(r.S)
	case "Character":
		return interpreter.NewUnmeteredCharacterValue(r.S)
	case "Address":
		return c44BuildAddr(r.S)
	case "Path":
		return interpreter.NewUnmeteredPathValue(c44DomainByName(r.D), r.S)
	case "Cap":
		return interpreter.NewUnmeteredCapabilityValue(interpreter.UInt64Value(r.U), c44BuildAddr(r.S), c44BuildType(r.T))
	case "SCC":
		p := c44BuildVal(ctx, r.V).(interpreter.PathValue)
		return interpreter.NewUnmeteredStorageCapabilityControllerValue(
			c44BuildType(r.T).(*interpreter.ReferenceStaticType), interpreter.UInt64Value(r.U), p)
	case "ACC":
		return interpreter.NewUnmeteredAccountCapabilityControllerValue(
			c44BuildType(r.T).(*interpreter.ReferenceStaticType), interpreter.UInt64Value(r.U))
	case "Pub":
		cp := c44BuildVal(ctx, r.V).(interpreter.CapabilityValue)
		return interpreter.NewPublishedValue(nil, c44BuildAddr(r.S), cp)
	case "Type":
		return interpreter.NewUnmeteredTypeValue(c44BuildType(r.T))
	case "Some":
		return interpreter.NewUnmeteredSomeValueNonCopying(c44BuildVal(ctx, r.V))
	case "Array":
		elems := make([]interpreter.Value, len(r.Vs))
		for i, e := range r.Vs {
			elems[i] = c44BuildVal(ctx, e)
		}
		return interpreter.NewArrayValue(ctx.Inter, c44BuildType(r.T).(interpreter.ArrayStaticType), ctx.Addr, elems...)
	case "Dict":
		kvs := make([]interpreter.Value, len(r.Vs))
		for i, e := range r.Vs {
			kvs[i] = c44BuildVal(ctx, e)
		}
		return interpreter.NewDictionaryValueWithAddress(ctx.Inter, c44BuildType(r.T).(*interpreter.DictionaryStaticType), ctx.Addr, kvs...)
	case "Comp":
		fields := make([]interpreter.CompositeField, len(r.Vs))
		for i, e := range r.Vs {
			// the caller of SetMember owns the transfer of the field value into the composite's account
			fv := c44BuildVal(ctx, e).Transfer(ctx.Inter, atree.Address(ctx.Addr), true, nil, nil, true)
			fields[i] = interpreter.NewUnmeteredCompositeField(r.Fs[i], fv)
		}
		return interpreter.NewCompositeValue(ctx.Inter, c44BuildLoc(r.Loc), r.N, c44KindByName(r.CK), fields, ctx.Addr)
	}
	panic("c44: bad value kind " + r.K)
}

func (r *c44Val) isContainer() bool {
	switch r.K {
	case "Array", "Dict", "Comp":
		return true
	case "Some":
		return r.V.isContainer()
	}
	return false
}

// ---------------------------------------------------------------- canonical form of a RECIPE
// (pure harness code; the expected rendering of what the recipe describes)

func c44HexS(s string) string { return hex.EncodeToString([]byte(s)) }

func c44CanonLocR(l *c44Loc) string {
	if l == nil {
		return "nil"
	}
	switch l.K {
	case "addr":
		return "A:" + strings.ToLower(l.A) + ":" + c44HexS(l.N)
	case "str":
		return "S:" + c44HexS(l.N)
	case "id":
		return "ID:" + c44HexS(l.N)
	case "tx":
		return "T:" + strings.ToLower(l.A)
	case "script":
		return "SC:" + strings.ToLower(l.A)
	}
	panic("c44: bad location kind " + l.K)
}

// c44TypeIDR is the expected type ID of a nominal type at a location (documented formats:
// A.<16 hex>.<qid>, S.<string>.<qid>, I.<identifier>.<qid>, t.<64 hex>.<qid>, s.<64 hex>.<qid>, <qid>).
func c44TypeIDR(l *c44Loc, qid string) string {
	if l == nil {
		return qid
	}
	switch l.K {
	case "addr":
		return "A." + strings.ToLower(l.A) + "." + qid
	case "str":
		return "S." + l.N + "." + qid
	case "id":
		return "I." + l.N + "." + qid
	case "tx":
		return "t." + strings.ToLower(l.A) + "." + qid
	case "script":
		return "s." + strings.ToLower(l.A) + "." + qid
	}
	panic("c44: bad location kind " + l.K)
}

func c44CanonAuthR(a *c44Auth) string {
	switch a.K {
	case "unauth", "inaccessible":
		return a.K
	case "map":
		return "map:" + c44HexS(a.IDs[0])
	case "conj", "disj":
		hs := make([]string, len(a.IDs))
		for i, s := range a.IDs {
			hs[i] = c44HexS(s)
		}
		return a.K + "[" + strings.Join(hs, ",") + "]"
	}
	panic("c44: bad auth kind " + a.K)
}

func c44CanonTypeR(t *c44Type) string {
	if t == nil {
		return "-"
	}
	switch t.K {
	case "prim":
		return "P:" + t.N
	case "opt":
		return "O(" + c44CanonTypeR(t.T) + ")"
	case "varr":
		return "VA(" + c44CanonTypeR(t.T) + ")"
	case "carr":
		return fmt.Sprintf("CA(%d,%s)", t.Size, c44CanonTypeR(t.T))
	case "dict":
		return "D(" + c44CanonTypeR(t.Key) + "," + c44CanonTypeR(t.T) + ")"
	case "ref":
		return "R(" + c44CanonAuthR(t.Auth) + "," + c44CanonTypeR(t.T) + ")"
	case "isect":
		ms := make([]string, len(t.Ts))
		for i, m := range t.Ts {
			ms[i] = c44CanonTypeR(m)
		}
		return "I(" + c44CanonTypeR(t.T) + ",[" + strings.Join(ms, ",") + "])"
	case "cap":
		return "C(" + c44CanonTypeR(t.T) + ")"
	case "range":
		return "IR(" + c44CanonTypeR(t.T) + ")"
	case "comp":
		return "CT(" + c44CanonLocR(t.Loc) + "," + c44HexS(t.N) + "," + c44HexS(c44TypeIDR(t.Loc, t.N)) + ")"
	case "iface":
		return "IT(" + c44CanonLocR(t.Loc) + "," + c44HexS(t.N) + "," + c44HexS(c44TypeIDR(t.Loc, t.N)) + ")"
	}
	panic("c44: bad type kind " + t.K)
}

func c44CanonValR(r *c44Val) string {
	if c44IsNumberKind(r.K) {
		return r.K + "(" + c44Big(r.S).String() + ")"
	}
	switch r.K {
	case "nil", "void":
		return r.K
	case "bool":
		return fmt.Sprintf("bool(%v)", r.B)
	case "String":
		return "String(" + c44HexS(norm.NFC.String(r.S)) + ")"
	case "Character":
		return "Character(" + c44HexS(norm.NFC.String(r.S)) + ")"
	case "Address":
		return "Address(" + strings.ToLower(r.S) + ")"
	case "Path":
		return "Path(" + r.D + "," + c44HexS(r.S) + ")"
	case "Cap":
		return fmt.Sprintf("Cap(%s,%d,%s)", strings.ToLower(r.S), r.U, c44CanonTypeR(r.T))
	case "SCC":
		return fmt.Sprintf("SCC(%s,%d,%s)", c44CanonTypeR(r.T), r.U, c44CanonValR(r.V))
	case "ACC":
		return fmt.Sprintf("ACC(%s,%d)", c44CanonTypeR(r.T), r.U)
	case "Pub":
		return "Pub(" + strings.ToLower(r.S) + "," + c44CanonValR(r.V) + ")"
	case "Type":
		return "Type(" + c44CanonTypeR(r.T) + ")"
	case "Some":
		return "Some(" + c44CanonValR(r.V) + ")"
	case "Array":
		es := make([]string, len(r.Vs))
		for i, e := range r.Vs {
			es[i] = c44CanonValR(e)
		}
		return "Array(" + c44CanonTypeR(r.T) + ",[" + strings.Join(es, ",") + "])"
	case "Dict":
		var es []string
		for i := 0; i+1 < len(r.Vs); i += 2 {
			es = append(es, c44CanonValR(r.Vs[i])+"="+c44CanonValR(r.Vs[i+1]))
		}
		sort.Strings(es)
		return "Dict(" + c44CanonTypeR(r.T) + ",{" + strings.Join(es, ",") + "})"
	case "Comp":
		var es []string
		for i, e := range r.Vs {
			es = append(es, c44HexS(r.Fs[i])+"="+c44CanonValR(e))
		}
		sort.Strings(es)
		return "Comp(" + c44CanonLocR(r.Loc) + "," + c44HexS(r.N) + "," + r.CK + ",{" + strings.Join(es, ",") + "})"
	}
	panic("c44: bad value kind " + r.K)
}

// ---------------------------------------------------------------- canonical form of a REAL object
// (reads public fields of decoded values / types; no ID(), no String(), no Equal of the tree under test)

func c44CanonLoc(l common.Location) string {
	switch l := l.(type) {
	case nil:
		return "nil"
	case common.AddressLocation:
		return "A:" + hex.EncodeToString(l.Address[:]) + ":" + c44HexS(l.Name)
	case common.StringLocation:
		return "S:" + c44HexS(string(l))
	case common.IdentifierLocation:
		return "ID:" + c44HexS(string(l))
	case common.TransactionLocation:
		return "T:" + hex.EncodeToString(l[:])
	case common.ScriptLocation:
		return "SC:" + hex.EncodeToString(l[:])
	}
	return fmt.Sprintf("?loc:%T", l)
}

func c44CanonAuth(a interpreter.Authorization) string {
	switch a := a.(type) {
	case interpreter.Unauthorized:
		return "unauth"
	case interpreter.Inaccessible:
		return "inaccessible"
	case interpreter.EntitlementMapAuthorization:
		return "map:" + c44HexS(string(a.TypeID))
	case interpreter.EntitlementSetAuthorization:
		var hs []string
		if a.Entitlements != nil {
			a.Entitlements.Foreach(func(id common.TypeID, _ struct{}) {
				hs = append(hs, c44HexS(string(id)))
			})
		}
		k := "?"
		switch a.SetKind {
		case sema.Conjunction:
			k = "conj"
		case sema.Disjunction:
			k = "disj"
		}
		return k + "[" + strings.Join(hs, ",") + "]"
	}
	return fmt.Sprintf("?auth:%T", a)
}

func c44CanonType(t interpreter.StaticType) string {
	switch t := t.(type) {
	case nil:
		return "-"
	case interpreter.PrimitiveStaticType:
		if n, ok := c44PrimRev[t]; ok {
			return "P:" + n
		}
		return fmt.Sprintf("P:#%d", uint(t))
	case *interpreter.OptionalStaticType:
		return "O(" + c44CanonType(t.Type) + ")"
	case *interpreter.VariableSizedStaticType:
		return "VA(" + c44CanonType(t.Type) + ")"
	case *interpreter.ConstantSizedStaticType:
		return fmt.Sprintf("CA(%d,%s)", t.Size, c44CanonType(t.Type))
	case *interpreter.DictionaryStaticType:
		return "D(" + c44CanonType(t.KeyType) + "," + c44CanonType(t.ValueType) + ")"
	case *interpreter.ReferenceStaticType:
		if t.HasLegacyIsAuthorized {
			return fmt.Sprintf("R-legacy(%v,%s)", t.LegacyIsAuthorized, c44CanonType(t.ReferencedType))
		}
		return "R(" + c44CanonAuth(t.Authorization) + "," + c44CanonType(t.ReferencedType) + ")"
	case *interpreter.IntersectionStaticType:
		ms := make([]string, len(t.Types))
		for i, m := range t.Types {
			ms[i] = c44CanonType(m)
		}
		return "I(" + c44CanonType(t.LegacyType) + ",[" + strings.Join(ms, ",") + "])"
	case *interpreter.CapabilityStaticType:
		return "C(" + c44CanonType(t.BorrowType) + ")"
	case interpreter.InclusiveRangeStaticType:
		return "IR(" + c44CanonType(t.ElementType) + ")"
	case *interpreter.CompositeStaticType:
		if t == nil {
			return "-"
		}
		return "CT(" + c44CanonLoc(t.Location) + "," + c44HexS(t.QualifiedIdentifier) + "," + c44HexS(string(t.TypeID)) + ")"
	case *interpreter.InterfaceStaticType:
		if t == nil {
			return "-"
		}
		return "IT(" + c44CanonLoc(t.Location) + "," + c44HexS(t.QualifiedIdentifier) + "," + c44HexS(string(t.TypeID)) + ")"
	}
	return fmt.Sprintf("?type:%T", t)
}

func c44CanonVal(ctx *c44Ctx, v interpreter.Value) string {
	num := func(k string, b *big.Int) string { return k + "(" + b.String() + ")" }
	i64 := func(k string, x int64) string { return num(k, big.NewInt(x)) }
	u64 := func(k string, x uint64) string { return num(k, new(big.Int).SetUint64(x)) }
	switch v := v.(type) {
	case nil:
		return "?nil-go-value"
	case interpreter.NilValue:
		return "nil"
	case interpreter.VoidValue:
		return "void"
	case interpreter.BoolValue:
		return fmt.Sprintf("bool(%v)", bool(v))
	case interpreter.IntValue:
		return num("Int", v.BigInt)
	case interpreter.Int8Value:
		return i64("Int8", int64(v))
	case interpreter.Int16Value:
		return i64("Int16", int64(v))
	case interpreter.Int32Value:
		return i64("Int32", int64(v))
	case interpreter.Int64Value:
		return i64("Int64", int64(v))
	case interpreter.Int128Value:
		return num("Int128", v.BigInt)
	case interpreter.Int256Value:
		return num("Int256", v.BigInt)
	case interpreter.UIntValue:
		return num("UInt", v.BigInt)
	case interpreter.UInt8Value:
		return u64("UInt8", uint64(v))
	case interpreter.UInt16Value:
		return u64("UInt16", uint64(v))
	case interpreter.UInt32Value:
		return u64("UInt32", uint64(v))
	case interpreter.UInt64Value:
		return u64("UInt64", uint64(v))
	case interpreter.UInt128Value:
		return num("UInt128", v.BigInt)
	case interpreter.UInt256Value:
		return num("UInt256", v.BigInt)
	case interpreter.Word8Value:
		return u64("Word8", uint64(v))
	case interpreter.Word16Value:
		return u64("Word16", uint64(v))
	case interpreter.Word32Value:
		return u64("Word32", uint64(v))
	case interpreter.Word64Value:
		return u64("Word64", uint64(v))
	case interpreter.Word128Value:
		return num("Word128", v.BigInt)
	case interpreter.Word256Value:
		return num("Word256", v.BigInt)
	case interpreter.Fix64Value:
		return i64("Fix64", int64(v))
	case interpreter.UFix64Value:
		return u64("UFix64", uint64(v.UFix64Value))
	case interpreter.Fix128Value:
		return num("Fix128", c44FromHiLo(uint64(v.Hi), uint64(v.Lo), true))
	case interpreter.UFix128Value:
		return num("UFix128", c44FromHiLo(uint64(v.Hi), uint64(v.Lo), false))
	case *interpreter.StringValue:
		return "String(" + c44HexS(v.Str) + ")"
	case interpreter.CharacterValue:
		return "Character(" + c44HexS(v.Str) + ")"
	case interpreter.AddressValue:
		return "Address(" + hex.EncodeToString(v[:]) + ")"
	case interpreter.PathValue:
		return "Path(" + c44DomainName(v.Domain) + "," + c44HexS(v.Identifier) + ")"
	case *interpreter.IDCapabilityValue:
		a := v.Address()
		return fmt.Sprintf("Cap(%s,%d,%s)", hex.EncodeToString(a[:]), uint64(v.ID), c44CanonType(v.BorrowType))
	case *interpreter.StorageCapabilityControllerValue:
		var bt interpreter.StaticType
		if v.BorrowType != nil {
			bt = v.BorrowType
		}
		return fmt.Sprintf("SCC(%s,%d,%s)", c44CanonType(bt), uint64(v.CapabilityID), c44CanonVal(ctx, v.TargetPath))
	case *interpreter.AccountCapabilityControllerValue:
		var bt interpreter.StaticType
		if v.BorrowType != nil {
			bt = v.BorrowType
		}
		return fmt.Sprintf("ACC(%s,%d)", c44CanonType(bt), uint64(v.CapabilityID))
	case *interpreter.PublishedValue:
		return "Pub(" + hex.EncodeToString(v.Recipient[:]) + "," + c44CanonVal(ctx, v.Value) + ")"
	case interpreter.TypeValue:
		return "Type(" + c44CanonType(v.Type) + ")"
	case *interpreter.SomeValue:
		return "Some(" + c44CanonVal(ctx, v.InnerValue()) + ")"
	case *interpreter.ArrayValue:
		var es []string
		v.Iterate(ctx.Inter, func(e interpreter.Value) bool {
			es = append(es, c44CanonVal(ctx, e))
			return true
		}, false)
		return "Array(" + c44CanonType(v.Type) + ",[" + strings.Join(es, ",") + "])"
	case *interpreter.DictionaryValue:
		var es []string
		v.Iterate(ctx.Inter, func(k, e interpreter.Value) bool {
			es = append(es, c44CanonVal(ctx, k)+"="+c44CanonVal(ctx, e))
			return true
		})
		sort.Strings(es)
		return "Dict(" + c44CanonType(v.Type) + ",{" + strings.Join(es, ",") + "})"
	case *interpreter.CompositeValue:
		var es []string
		v.ForEachField(ctx.Inter, func(name string, e interpreter.Value) bool {
			es = append(es, c44HexS(name)+"="+c44CanonVal(ctx, e))
			return true
		})
		sort.Strings(es)
		return "Comp(" + c44CanonLoc(v.Location) + "," + c44HexS(v.QualifiedIdentifier) + "," + c44KindName(v.Kind) + ",{" + strings.Join(es, ",") + "})"
	}
	return fmt.Sprintf("?value:%T", v)
}

// ---------------------------------------------------------------- shapes (for narrow violation keys)

func c44TypeShape(t *c44Type, depth int) string {
	if t == nil {
		return "-"
	}
	if depth <= 0 {
		return t.K
	}
	switch t.K {
	case "prim":
		return "prim"
	case "opt", "varr", "carr", "cap", "range":
		return t.K + "(" + c44TypeShape(t.T, depth-1) + ")"
	case "dict":
		return "dict(" + c44TypeShape(t.Key, depth-1) + "," + c44TypeShape(t.T, depth-1) + ")"
	case "ref":
		return "ref(" + t.Auth.K + "," + c44TypeShape(t.T, depth-1) + ")"
	case "isect":
		l := "-"
		if t.T != nil {
			l = "legacy"
		}
		return fmt.Sprintf("isect(%s,n%d)", l, c44Min(len(t.Ts), 3))
	case "comp", "iface":
		lk := "nil"
		if t.Loc != nil {
			lk = t.Loc.K
		}
		return t.K + "@" + lk
	}
	return t.K
}

func c44ValShape(r *c44Val, depth int) string {
	switch r.K {
	case "Some":
		if depth <= 0 {
			return "Some"
		}
		return "Some(" + c44ValShape(r.V, depth-1) + ")"
	case "Cap", "SCC", "ACC", "Type":
		return r.K + "<" + c44TypeShape(r.T, 0) + ">"
	case "Pub":
		return "Pub(" + c44ValShape(r.V, 0) + ")"
	case "Array", "Dict":
		return r.K + "<" + c44TypeShape(r.T, 0) + ">"
	case "Comp":
		lk := "nil"
		if r.Loc != nil {
			lk = r.Loc.K
		}
		return "Comp:" + r.CK + "@" + lk
	}
	return r.K
}

func c44Min(a, b int) int {
	if a < b {
		return a
	}
	return b
}

var _ = atree.Address{}
