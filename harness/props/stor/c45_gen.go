package stor

import (
	"fmt"
	"math/rand/v2"
	"strings"

	"github.com/onflow/cadence/common"
	"github.com/onflow/cadence/interpreter"
	"github.com/onflow/cadence/sema"
)

// C45 — type recipes. A recipe is the harness' own description of a type (kind + children + set
// members); from a recipe the harness builds the checker's type (with set members in a chosen order),
// renders Cadence type syntax, renders a run-time constructor expression and decides the documented
// validity rules (hashable key, integer range member, ...) — none of which consults the code under test.

type c45Kind int

const (
	c45Prim c45Kind = iota // built-in leaf (sema singleton)
	c45Nom                 // declared or built-in composite / interface leaf
	c45Opt
	c45VarArr
	c45ConstArr
	c45Dict
	c45Ref
	c45Inter
	c45Cap     // Capability<&T>
	c45CapBare // Capability
	c45Fun
	c45Range
)

const (
	c45AuthNone = iota
	c45AuthConj
	c45AuthDisj
	c45AuthMap
)

type c45Node struct {
	Kind c45Kind
	Prim *c45PrimInfo
	Nom  *c45Nominal
	Kids []*c45Node // Opt/Arr/Ref/Cap/Range: [elem]; Dict: [key, value]; Fun: params..., return (last)
	Size int64

	Auth    int
	AuthEnt []*c45Nominal // entitlement set members (canonical order: as generated)
	AuthMap *c45Nominal

	Intfs  []*c45Nominal // intersection members
	Legacy *c45Node      // deprecated restricted type of an intersection (Go leg only)

	View bool // function purity

	// built by c45Build
	Sema sema.Type
}

// ---------------------------------------------------------------- primitives

type c45PrimInfo struct {
	Name      string
	T         sema.Type
	Hashable  bool // valid dictionary key (documented: number, Bool, Character, String, Address, Path, Type, Never, HashableStruct, enums)
	LeafInt   bool // concrete integer type: valid InclusiveRange member
	AbsInt    bool // Integer, SignedInteger, FixedSizeUnsignedInteger
	Resource  bool
	Denotable bool // may be written as a type annotation in a program
	Storable  bool
}

var c45Prims = func() []*c45PrimInfo {
	var out []*c45PrimInfo
	add := func(t sema.Type, name string, hashable, leafInt, absInt, resource, denotable bool) {
		out = append(out, &c45PrimInfo{Name: name, T: t, Hashable: hashable, LeafInt: leafInt, AbsInt: absInt, Resource: resource, Denotable: denotable})
	}
	for _, t := range []sema.Type{
		sema.IntType, sema.Int8Type, sema.Int16Type, sema.Int32Type, sema.Int64Type, sema.Int128Type, sema.Int256Type,
		sema.UIntType, sema.UInt8Type, sema.UInt16Type, sema.UInt32Type, sema.UInt64Type, sema.UInt128Type, sema.UInt256Type,
		sema.Word8Type, sema.Word16Type, sema.Word32Type, sema.Word64Type, sema.Word128Type, sema.Word256Type,
	} {
		add(t, t.String(), true, true, false, false, true)
	}
	for _, t := range []sema.Type{sema.IntegerType, sema.SignedIntegerType, sema.FixedSizeUnsignedIntegerType} {
		add(t, t.String(), true, false, true, false, true)
	}
	for _, t := range []sema.Type{
		sema.Fix64Type, sema.Fix128Type, sema.UFix64Type, sema.UFix128Type,
		sema.NumberType, sema.SignedNumberType, sema.FixedPointType, sema.SignedFixedPointType,
	} {
		add(t, t.String(), true, false, false, false, true)
	}
	// hashable non-numbers
	for _, t := range []sema.Type{
		sema.BoolType, sema.CharacterType, sema.StringType, sema.TheAddressType, sema.MetaType, sema.NeverType, sema.HashableStructType,
		sema.PathType, sema.StoragePathType, sema.CapabilityPathType, sema.PublicPathType, sema.PrivatePathType,
	} {
		add(t, t.String(), true, false, false, false, true)
	}
	// not hashable
	for _, t := range []sema.Type{
		sema.VoidType, sema.AnyStructType, sema.AnyStructAttachmentType, sema.BlockType, sema.DeployedContractType,
		sema.StorageCapabilityControllerType, sema.AccountCapabilityControllerType, sema.StringBuilderType,
	} {
		add(t, t.String(), false, false, false, false, true)
	}
	add(sema.AnyResourceType, "AnyResource", false, false, false, true, true)
	add(sema.AnyResourceAttachmentType, "AnyResourceAttachment", false, false, false, true, true)
	// not denotable in programs, but convertible and exportable
	add(sema.AnyType, "Any", false, false, false, false, false)
	add(sema.StorableType, "Storable", false, false, false, false, false)
	return out
}()

var c45DenotablePrims = func() []*c45PrimInfo {
	var out []*c45PrimInfo
	for _, p := range c45Prims {
		// attachments supertypes cannot be referred to directly
		if p.Denotable && p.T != sema.AnyStructAttachmentType && p.T != sema.AnyResourceAttachmentType {
			out = append(out, p)
		}
	}
	return out
}()

func c45PrimByType(t sema.Type) *c45PrimInfo {
	for _, p := range c45Prims {
		if p.T == t {
			return p
		}
	}
	return nil
}

// ---------------------------------------------------------------- model predicates (documented rules)

func (n *c45Node) isHashable() bool {
	switch n.Kind {
	case c45Prim:
		return n.Prim.Hashable
	case c45Nom:
		return n.Nom.Kind == c45KEnum
	}
	return false
}

func (n *c45Node) isLeafInteger() bool { return n.Kind == c45Prim && n.Prim.LeafInt }
func (n *c45Node) isAbstractInteger() bool { return n.Kind == c45Prim && n.Prim.AbsInt }
func (n *c45Node) isRef() bool         { return n.Kind == c45Ref }

func (n *c45Node) isResource() bool {
	switch n.Kind {
	case c45Prim:
		return n.Prim.Resource
	case c45Nom:
		switch n.Nom.Kind {
		case c45KResource, c45KResIntf:
			return true
		case c45KAttachment:
			return n.Nom.ResourceBase
		}
		return false
	case c45Opt, c45VarArr, c45ConstArr:
		return n.Kids[0].isResource()
	case c45Dict:
		return n.Kids[1].isResource()
	case c45Inter:
		return len(n.Intfs) > 0 && n.Intfs[0].Kind == c45KResIntf
	}
	return false
}

// contains reports whether any node of the tree satisfies f.
func (n *c45Node) contains(f func(*c45Node) bool) bool {
	if f(n) {
		return true
	}
	for _, k := range n.Kids {
		if k.contains(f) {
			return true
		}
	}
	if n.Legacy != nil && n.Legacy.contains(f) {
		return true
	}
	return false
}

// ---------------------------------------------------------------- shape (for violation keys)

func c45LeafShape(n *c45Node) string {
	switch n.Kind {
	case c45Prim:
		return n.Prim.Name
	case c45Nom:
		return n.Nom.Kind + "@" + n.Nom.LocKind
	}
	return "?"
}

func (n *c45Node) authShape() string {
	switch n.Auth {
	case c45AuthConj:
		return "auth-conj"
	case c45AuthDisj:
		return "auth-disj"
	case c45AuthMap:
		return "auth-map"
	}
	return "unauth"
}

// shape is the kind skeleton, cut below the given depth.
func (n *c45Node) shape(depth int) string { return n.shapeWith(depth, c45LeafShape) }

// c45LeafClass collapses the numeric and path leaves into classes (script-leg keys).
func c45LeafClass(n *c45Node) string {
	if n.Kind == c45Prim {
		switch p := n.Prim; {
		case p.LeafInt:
			return "integer"
		case p.AbsInt:
			return "abstract-integer"
		case p.T == sema.Fix64Type, p.T == sema.Fix128Type, p.T == sema.UFix64Type, p.T == sema.UFix128Type:
			return "fixed-point"
		case p.T == sema.NumberType, p.T == sema.SignedNumberType, p.T == sema.FixedPointType, p.T == sema.SignedFixedPointType:
			return "abstract-number"
		case p.T == sema.PathType, p.T == sema.StoragePathType, p.T == sema.CapabilityPathType, p.T == sema.PublicPathType, p.T == sema.PrivatePathType:
			return "path"
		}
	}
	return c45LeafShape(n)
}

// scriptShape: root kind + classes of its children.
func (n *c45Node) scriptShape() string { return n.shapeWith(1, c45LeafClass) }

// argShape: class of a constructor argument.
func (n *c45Node) argShape() string { return n.shapeWith(0, c45LeafClass) }

func (n *c45Node) shapeWith(depth int, leaf func(*c45Node) string) string {
	switch n.Kind {
	case c45Prim, c45Nom:
		return leaf(n)
	}
	kid := func(i int) string {
		if depth <= 0 {
			return "_"
		}
		return n.Kids[i].shapeWith(depth-1, leaf)
	}
	switch n.Kind {
	case c45Opt:
		return "Opt(" + kid(0) + ")"
	case c45VarArr:
		return "VarArray(" + kid(0) + ")"
	case c45ConstArr:
		return "ConstArray(" + kid(0) + ")"
	case c45Dict:
		return "Dict(" + kid(0) + "," + kid(1) + ")"
	case c45Ref:
		return "Ref(" + n.authShape() + "," + kid(0) + ")"
	case c45Inter:
		k := "empty"
		if len(n.Intfs) > 0 {
			k = n.Intfs[0].Kind
		}
		s := fmt.Sprintf("Intersection(%s*%d", k, len(n.Intfs))
		if n.Legacy != nil {
			s += ",legacy"
		}
		return s + ")"
	case c45Cap:
		return "Capability(" + kid(0) + ")"
	case c45CapBare:
		return "Capability"
	case c45Range:
		return "InclusiveRange(" + kid(0) + ")"
	case c45Fun:
		p := ""
		if n.View {
			p = "view,"
		}
		return fmt.Sprintf("Fun(%sarity%d)", p, len(n.Kids)-1)
	}
	return "?"
}

// ---------------------------------------------------------------- build: recipe -> checker type

// c45Build constructs the checker's type for the recipe. If perm is non-nil, the members of every
// entitlement set and intersection are put in a random order drawn from perm (same set, other order);
// otherwise in recipe order.
func c45Build(n *c45Node, perm *rand.Rand) sema.Type {
	kids := make([]sema.Type, len(n.Kids))
	for i, k := range n.Kids {
		kids[i] = c45Build(k, perm)
	}
	var t sema.Type
	switch n.Kind {
	case c45Prim:
		t = n.Prim.T
	case c45Nom:
		t = n.Nom.semaType()
	case c45Opt:
		t = sema.NewOptionalType(nil, kids[0])
	case c45VarArr:
		t = sema.NewVariableSizedType(nil, kids[0])
	case c45ConstArr:
		t = sema.NewConstantSizedType(nil, kids[0], n.Size)
	case c45Dict:
		t = sema.NewDictionaryType(nil, kids[0], kids[1])
	case c45Ref:
		var access sema.Access = sema.UnauthorizedAccess
		switch n.Auth {
		case c45AuthConj, c45AuthDisj:
			ents := make([]*sema.EntitlementType, len(n.AuthEnt))
			for i, idx := range c45Order(len(n.AuthEnt), perm) {
				ents[i] = n.AuthEnt[idx].Ent
			}
			kind := sema.Conjunction
			if n.Auth == c45AuthDisj {
				kind = sema.Disjunction
			}
			access = sema.NewEntitlementSetAccess(ents, kind)
		case c45AuthMap:
			access = sema.NewEntitlementMapAccess(n.AuthMap.Map)
		}
		t = sema.NewReferenceType(nil, access, kids[0])
	case c45Inter:
		intfs := make([]*sema.InterfaceType, len(n.Intfs))
		for i, idx := range c45Order(len(n.Intfs), perm) {
			intfs[i] = n.Intfs[idx].Intf
		}
		var legacy sema.Type
		if n.Legacy != nil {
			legacy = c45Build(n.Legacy, perm)
		}
		t = sema.NewIntersectionType(nil, legacy, intfs)
	case c45Cap:
		t = sema.NewCapabilityType(nil, kids[0])
	case c45CapBare:
		t = sema.NewCapabilityType(nil, nil)
	case c45Range:
		t = sema.NewInclusiveRangeType(nil, kids[0])
	case c45Fun:
		np := len(kids) - 1
		var params []sema.Parameter
		for i := 0; i < np; i++ {
			p := sema.Parameter{TypeAnnotation: sema.NewTypeAnnotation(kids[i])}
			// labels and parameter names are not part of the identity
			switch i % 3 {
			case 1:
				p.Identifier = fmt.Sprintf("p%d", i)
			case 2:
				p.Label = sema.ArgumentLabelNotRequired
				p.Identifier = fmt.Sprintf("q%d", i)
			}
			params = append(params, p)
		}
		purity := sema.FunctionPurityImpure
		if n.View {
			purity = sema.FunctionPurityView
		}
		t = sema.NewSimpleFunctionType(purity, params, sema.NewTypeAnnotation(kids[np]))
	default:
		panic("c45: unknown recipe kind")
	}
	if perm == nil {
		n.Sema = t
	}
	return t
}

// c45Order is the identity order, or a random permutation of 0..n-1.
func c45Order(n int, perm *rand.Rand) []int {
	o := make([]int, n)
	for i := range o {
		o[i] = i
	}
	if perm != nil {
		perm.Shuffle(n, func(i, j int) { o[i], o[j] = o[j], o[i] })
	}
	return o
}

// ---------------------------------------------------------------- random recipes

type c45Gen struct {
	r *rand.Rand
	u *c45Universe
	// script mode: only types that can be written in a script of the script leg (valid annotations)
	script bool
	// pools for script mode (denotable nominals)
	comps, enums, attach, sIntf, rIntf, ents []*c45Nominal
	prims                                    []*c45PrimInfo
}

func c45NewGen(r *rand.Rand, u *c45Universe, script bool) *c45Gen {
	g := &c45Gen{r: r, u: u, script: script}
	if !script {
		g.comps, g.enums, g.attach, g.sIntf, g.rIntf, g.ents = u.Composites, u.Enums, u.Attach, u.StructIntf, u.ResIntf, u.Ents
		g.prims = c45Prims
		return g
	}
	den := func(in []*c45Nominal) (out []*c45Nominal) {
		for _, n := range in {
			if n.Denote != "" {
				out = append(out, n)
			}
		}
		return
	}
	g.comps, g.enums, g.attach, g.sIntf, g.rIntf, g.ents = den(u.Composites), den(u.Enums), den(u.Attach), den(u.StructIntf), den(u.ResIntf), den(u.Ents)
	g.prims = c45DenotablePrims
	return g
}

func c45Pick[T any](r *rand.Rand, xs []T) T { return xs[r.IntN(len(xs))] }

func (g *c45Gen) prim() *c45Node { return &c45Node{Kind: c45Prim, Prim: c45Pick(g.r, g.prims)} }

func (g *c45Gen) hashableLeaf() *c45Node {
	if g.r.IntN(5) == 0 && len(g.enums) > 0 {
		return &c45Node{Kind: c45Nom, Nom: c45Pick(g.r, g.enums)}
	}
	for {
		p := c45Pick(g.r, g.prims)
		if p.Hashable {
			return &c45Node{Kind: c45Prim, Prim: p}
		}
	}
}

func (g *c45Gen) leafInt() *c45Node {
	for {
		p := c45Pick(g.r, g.prims)
		if p.LeafInt {
			return &c45Node{Kind: c45Prim, Prim: p}
		}
	}
}

// nominal leaf usable as a value/annotation type
func (g *c45Gen) nominalLeaf() *c45Node {
	for {
		n := c45Pick(g.r, g.comps)
		if g.script && n.Kind == c45KAttachment {
			// attachment types can only be written below a reference
			continue
		}
		return &c45Node{Kind: c45Nom, Nom: n}
	}
}

var c45Sizes = []int64{0, 1, 2, 3, 7, 10, 255, 256, 65535, 65536, 1 << 31, 1<<32 - 1, 1 << 32, 1 << 53, 1<<63 - 1}

func (g *c45Gen) size() int64 {
	if g.script {
		return []int64{0, 1, 2, 3, 7, 10, 255, 256, 65536, 1000000}[g.r.IntN(10)]
	}
	if g.r.IntN(2) == 0 {
		return c45Pick(g.r, c45Sizes)
	}
	return g.r.Int64N(1 << 20)
}

func (g *c45Gen) entSet(n *c45Node) {
	k := 1 + g.r.IntN(4)
	seen := map[*c45Nominal]bool{}
	for len(n.AuthEnt) < k {
		e := c45Pick(g.r, g.ents)
		if !seen[e] {
			seen[e] = true
			n.AuthEnt = append(n.AuthEnt, e)
		}
	}
}

func (g *c45Gen) ref(depth int) *c45Node {
	n := &c45Node{Kind: c45Ref}
	switch g.r.IntN(8) {
	case 0, 1:
		n.Auth = c45AuthNone
	case 2, 3, 4:
		n.Auth = c45AuthConj
		g.entSet(n)
	case 5, 6:
		n.Auth = c45AuthDisj
		g.entSet(n)
		if len(n.AuthEnt) == 1 {
			// a one-member set is written (and is) a conjunction
			n.Auth = c45AuthConj
		}
	default:
		if g.script {
			// `auth(mapping M)` references cannot be written as a type argument of Type<>()
			n.Auth = c45AuthConj
			g.entSet(n)
		} else {
			n.Auth = c45AuthMap
			n.AuthMap = c45Pick(g.r, g.u.Maps)
		}
	}
	// referenced type: also attachments and interfaces-in-intersections
	if g.r.IntN(6) == 0 && len(g.attach) > 0 {
		n.Kids = []*c45Node{{Kind: c45Nom, Nom: c45Pick(g.r, g.attach)}}
	} else {
		n.Kids = []*c45Node{g.gen(depth - 1)}
	}
	if g.script {
		// the checker rejects references to optionals (`&(T?)`): reference the non-optional type
		for n.Kids[0].Kind == c45Opt {
			n.Kids[0] = n.Kids[0].Kids[0]
		}
	}
	return n
}

func (g *c45Gen) inter() *c45Node {
	n := &c45Node{Kind: c45Inter}
	pool := g.sIntf
	switch g.r.IntN(5) {
	case 0, 1:
		pool = g.rIntf
	case 2:
		if !g.script && len(g.u.ContrIntf) > 0 {
			pool = g.u.ContrIntf
		}
	}
	k := 1 + g.r.IntN(4)
	if k > len(pool) {
		k = len(pool)
	}
	seen := map[*c45Nominal]bool{}
	for len(n.Intfs) < k {
		e := c45Pick(g.r, pool)
		if !seen[e] {
			seen[e] = true
			n.Intfs = append(n.Intfs, e)
		}
	}
	if !g.script && g.r.IntN(8) == 0 {
		// deprecated restricted type T{I}: a composite or AnyStruct/AnyResource
		if g.r.IntN(2) == 0 {
			n.Legacy = g.nominalLeaf()
		} else {
			n.Legacy = &c45Node{Kind: c45Prim, Prim: c45PrimByType(sema.AnyStructType)}
		}
	}
	return n
}

// gen returns a random recipe of at most the given depth.
func (g *c45Gen) gen(depth int) *c45Node {
	if depth <= 0 {
		switch g.r.IntN(3) {
		case 0:
			return g.nominalLeaf()
		default:
			return g.prim()
		}
	}
	switch g.r.IntN(14) {
	case 0:
		return g.prim()
	case 1:
		if !g.script && g.r.IntN(2) == 0 {
			// a bare interface type
			return &c45Node{Kind: c45Nom, Nom: c45Pick(g.r, g.u.AllIntf)}
		}
		return g.nominalLeaf()
	case 2:
		return &c45Node{Kind: c45Opt, Kids: []*c45Node{g.gen(depth - 1)}}
	case 3:
		return &c45Node{Kind: c45VarArr, Kids: []*c45Node{g.gen(depth - 1)}}
	case 4:
		return &c45Node{Kind: c45ConstArr, Kids: []*c45Node{g.gen(depth - 1)}, Size: g.size()}
	case 5:
		return &c45Node{Kind: c45Dict, Kids: []*c45Node{g.hashableLeaf(), g.gen(depth - 1)}}
	case 6, 7, 8:
		return g.ref(depth)
	case 9, 10:
		return g.inter()
	case 11:
		if g.r.IntN(4) == 0 {
			return &c45Node{Kind: c45CapBare}
		}
		return &c45Node{Kind: c45Cap, Kids: []*c45Node{g.ref(depth - 1)}}
	case 12:
		n := &c45Node{Kind: c45Fun, View: g.r.IntN(2) == 0}
		arity := g.r.IntN(4)
		for i := 0; i <= arity; i++ {
			n.Kids = append(n.Kids, g.gen(depth-1))
		}
		if g.r.IntN(3) == 0 {
			n.Kids[arity] = &c45Node{Kind: c45Prim, Prim: c45PrimByType(sema.VoidType)}
		}
		return n
	default:
		return &c45Node{Kind: c45Range, Kids: []*c45Node{g.leafInt()}}
	}
}

// ---------------------------------------------------------------- conversion handler

// c45Conv resolves nominal types of the universe for ConvertStaticToSemaType, the way the
// interpreter does: by the location and type ID carried by the static type. It is strict: a static
// type that carries a wrong location or qualified identifier does not resolve.
type c45Conv struct {
	elabs map[common.Location]*sema.Elaboration
	ents  map[common.TypeID]*sema.EntitlementType
	maps  map[common.TypeID]*sema.EntitlementMapType
}

var _ interpreter.TypeConverter = &c45Conv{}

func (c *c45Conv) MeterMemory(common.MemoryUsage) error { return nil }

func (c *c45Conv) GetInterfaceType(location common.Location, qualifiedIdentifier string, typeID interpreter.TypeID) (*sema.InterfaceType, error) {
	var t *sema.InterfaceType
	if location == nil {
		t = sema.NativeInterfaceTypes[qualifiedIdentifier]
	} else if el := c.elabs[location]; el != nil {
		t = el.InterfaceType(typeID)
	}
	if t == nil {
		return nil, fmt.Errorf("c45: no interface type %q at %s", typeID, c45LocDesc(location))
	}
	if t.QualifiedIdentifier() != qualifiedIdentifier {
		return nil, fmt.Errorf("c45: interface type %q carries qualified identifier %q, declared as %q", typeID, qualifiedIdentifier, t.QualifiedIdentifier())
	}
	return t, nil
}

func (c *c45Conv) GetCompositeType(location common.Location, qualifiedIdentifier string, typeID interpreter.TypeID) (*sema.CompositeType, error) {
	var t *sema.CompositeType
	if location == nil {
		t = sema.NativeCompositeTypes[qualifiedIdentifier]
	} else if el := c.elabs[location]; el != nil {
		t = el.CompositeType(typeID)
	}
	if t == nil {
		return nil, fmt.Errorf("c45: no composite type %q at %s", typeID, c45LocDesc(location))
	}
	if t.QualifiedIdentifier() != qualifiedIdentifier {
		return nil, fmt.Errorf("c45: composite type %q carries qualified identifier %q, declared as %q", typeID, qualifiedIdentifier, t.QualifiedIdentifier())
	}
	return t, nil
}

func (c *c45Conv) GetEntitlementType(typeID interpreter.TypeID) (*sema.EntitlementType, error) {
	if t := c.ents[typeID]; t != nil {
		return t, nil
	}
	return nil, fmt.Errorf("c45: no entitlement type %q", typeID)
}

func (c *c45Conv) GetEntitlementMapType(typeID interpreter.TypeID) (*sema.EntitlementMapType, error) {
	if t := c.maps[typeID]; t != nil {
		return t, nil
	}
	return nil, fmt.Errorf("c45: no entitlement mapping type %q", typeID)
}

func (c *c45Conv) SemaTypeFromStaticType(staticType interpreter.StaticType) sema.Type {
	t, err := interpreter.ConvertStaticToSemaType(c, staticType)
	if err != nil {
		panic(err)
	}
	return t
}

func (c *c45Conv) SemaAccessFromStaticAuthorization(auth interpreter.Authorization) (sema.Access, error) {
	return interpreter.ConvertStaticAuthorizationToSemaAccess(auth, c) //nolint:staticcheck
}

// ---------------------------------------------------------------- description (witnesses)

func (n *c45Node) describe() string {
	var sb strings.Builder
	n.describeTo(&sb)
	return sb.String()
}

func (n *c45Node) describeTo(sb *strings.Builder) {
	switch n.Kind {
	case c45Prim:
		sb.WriteString(n.Prim.Name)
	case c45Nom:
		fmt.Fprintf(sb, "%s[%s %q at %s]", n.Nom.Kind, n.Nom.Role, n.Nom.QID, c45LocDesc(n.Nom.Loc))
	case c45Opt:
		sb.WriteString("Optional(")
		n.Kids[0].describeTo(sb)
		sb.WriteString(")")
	case c45VarArr:
		sb.WriteString("VariableSized(")
		n.Kids[0].describeTo(sb)
		sb.WriteString(")")
	case c45ConstArr:
		fmt.Fprintf(sb, "ConstantSized(%d, ", n.Size)
		n.Kids[0].describeTo(sb)
		sb.WriteString(")")
	case c45Dict:
		sb.WriteString("Dictionary(")
		n.Kids[0].describeTo(sb)
		sb.WriteString(", ")
		n.Kids[1].describeTo(sb)
		sb.WriteString(")")
	case c45Ref:
		sb.WriteString("Reference(" + n.authShape())
		for _, e := range n.AuthEnt {
			fmt.Fprintf(sb, " %q@%s", e.QID, c45LocDesc(e.Loc))
		}
		if n.AuthMap != nil {
			fmt.Fprintf(sb, " %q@%s", n.AuthMap.QID, c45LocDesc(n.AuthMap.Loc))
		}
		sb.WriteString(", ")
		n.Kids[0].describeTo(sb)
		sb.WriteString(")")
	case c45Inter:
		sb.WriteString("Intersection(")
		for i, e := range n.Intfs {
			if i > 0 {
				sb.WriteString(", ")
			}
			fmt.Fprintf(sb, "%q@%s", e.QID, c45LocDesc(e.Loc))
		}
		if n.Legacy != nil {
			sb.WriteString("; legacy ")
			n.Legacy.describeTo(sb)
		}
		sb.WriteString(")")
	case c45Cap:
		sb.WriteString("Capability(")
		n.Kids[0].describeTo(sb)
		sb.WriteString(")")
	case c45CapBare:
		sb.WriteString("Capability")
	case c45Range:
		sb.WriteString("InclusiveRange(")
		n.Kids[0].describeTo(sb)
		sb.WriteString(")")
	case c45Fun:
		if n.View {
			sb.WriteString("view ")
		}
		sb.WriteString("Function(")
		for i, k := range n.Kids {
			if i == len(n.Kids)-1 {
				sb.WriteString("): ")
			} else if i > 0 {
				sb.WriteString(", ")
			}
			k.describeTo(sb)
		}
	}
}
