// Package stor holds the checks of group stor (see harness/groups.txt).
package stor
