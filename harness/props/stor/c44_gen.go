package stor

import (
	"encoding/hex"
	"math/big"
	"math/rand/v2"
	"strings"
)

// Random recipe generator for C44 (fresh round-trip leg and, with a fixed internal seed, the corpus).

type c44Gen struct {
	R *rand.Rand
}

func (g *c44Gen) n(k int) int { return g.R.IntN(k) }

func (g *c44Gen) pick(xs []string) string { return xs[g.n(len(xs))] }

var c44IdentStart = "abcdefghijklmnopqrstuvwxyzABCDEFGHIJKLMNOPQRSTUVWXYZ_"
var c44IdentRest = c44IdentStart + "0123456789"

func (g *c44Gen) ident() string {
	n := 1 + g.n(8)
	if g.n(20) == 0 {
		n = 30 + g.n(60)
	}
	var b strings.Builder
	b.WriteByte(c44IdentStart[g.n(len(c44IdentStart))])
	for i := 1; i < n; i++ {
		b.WriteByte(c44IdentRest[g.n(len(c44IdentRest))])
	}
	return b.String()
}

func (g *c44Gen) qualifiedIdent() string {
	parts := 1
	switch g.n(6) {
	case 0, 1:
		parts = 2
	case 2:
		parts = 3
	}
	ps := make([]string, parts)
	for i := range ps {
		ps[i] = g.ident()
	}
	return strings.Join(ps, ".")
}

func (g *c44Gen) addrHex() string {
	var a [8]byte
	switch g.n(8) {
	case 0:
		// zero
	case 1:
		for i := range a {
			a[i] = 0xff
		}
	case 2:
		a[7] = byte(1 + g.n(4))
	case 3:
		a[0] = byte(1 + g.n(255)) // leading byte set, rest zero
	default:
		for i := range a {
			a[i] = byte(g.n(256))
		}
		if g.n(3) == 0 {
			a[0], a[1] = 0, 0
		}
	}
	return hex.EncodeToString(a[:])
}

func (g *c44Gen) hash32() string {
	var a [32]byte
	switch g.n(6) {
	case 0:
	case 1:
		for i := range a {
			a[i] = 0xff
		}
	default:
		for i := range a {
			a[i] = byte(g.n(256))
		}
	}
	return hex.EncodeToString(a[:])
}

var c44TextPieces = []string{
	"a", "Z", "0", " ", "_", ".", "/", "\\", "\"", "'", "\n", "\t", "\r\n", "\x00", "\x7f",
	"é", "é", "å", "å", "Å", "ñ", "ñ", "ß", "ǆ", "ﬁ",
	"가", "가", "ཱི", "ཱི", "̈́",
	"日本語", "中", "العربية", "עברית", "हिन्दी", "ไทย",
	"😀", "👍🏽", "👨‍👩‍👧‍👦", "🇩🇪", "🇺🇸", "🏳️‍🌈", "\u200d", "\ufe0f", "\u200b", "\ufeff",
	"\U0001F9D1‍\U0001F680", "\U00010000", "\U0010FFFF", "̀", "́̂̃",
}

func (g *c44Gen) text() string {
	switch g.n(10) {
	case 0:
		return ""
	case 1:
		return g.ident()
	case 2:
		// long
		n := 100 + g.n(2500)
		var b strings.Builder
		for b.Len() < n {
			if g.n(4) == 0 {
				b.WriteString(c44TextPieces[g.n(len(c44TextPieces))])
			} else {
				b.WriteByte(c44IdentRest[g.n(len(c44IdentRest))])
			}
		}
		return b.String()
	}
	n := 1 + g.n(12)
	var b strings.Builder
	for i := 0; i < n; i++ {
		if g.n(3) == 0 {
			b.WriteByte(byte(0x20 + g.n(0x5f)))
		} else {
			b.WriteString(c44TextPieces[g.n(len(c44TextPieces))])
		}
	}
	return b.String()
}

var c44Characters = []string{
	"a", "Z", "0", " ", "\n", "\x00", "é", "é", "å", "Å", "ß", "가", "가",
	"中", "😀", "👍🏽", "👨‍👩‍👧‍👦", "🇩🇪", "🏳️‍🌈", "\r\n", "\U0010FFFF", "ñ",
}

func (g *c44Gen) loc() *c44Loc {
	switch g.n(9) {
	case 0:
		return nil
	case 1:
		return &c44Loc{K: "str", N: g.text()}
	case 2:
		return &c44Loc{K: "id", N: g.ident()}
	case 3:
		return &c44Loc{K: "tx", A: g.hash32()}
	case 4:
		return &c44Loc{K: "script", A: g.hash32()}
	}
	return &c44Loc{K: "addr", A: g.addrHex(), N: g.ident()}
}

var c44BuiltinEntitlements = []string{"Mutate", "Insert", "Remove", "Storage", "SaveValue", "LoadValue", "BorrowValue", "Capabilities", "Keys", "Contracts", "Inbox"}

func (g *c44Gen) entitlementID() string {
	if g.n(3) == 0 {
		return g.pick(c44BuiltinEntitlements)
	}
	return c44TypeIDR(&c44Loc{K: "addr", A: g.addrHex(), N: g.ident()}, g.qualifiedIdent())
}

func (g *c44Gen) auth() *c44Auth {
	switch g.n(10) {
	case 0, 1, 2:
		return &c44Auth{K: "unauth"}
	case 3:
		return &c44Auth{K: "inaccessible"}
	case 4:
		return &c44Auth{K: "map", IDs: []string{g.entitlementID()}}
	}
	k := "conj"
	if g.n(3) == 0 {
		k = "disj"
	}
	n := 1 + g.n(4)
	seen := map[string]bool{}
	var ids []string
	for len(ids) < n {
		id := g.entitlementID()
		if !seen[id] {
			seen[id] = true
			ids = append(ids, id)
		}
	}
	return &c44Auth{K: k, IDs: ids}
}

// c44PrimNames: every named primitive static type except the deprecated `Capability` placeholder, which the
// decoder deliberately migrates to CapabilityStaticType (documented; not a round trip by design).
var c44PrimNames = func() []string {
	var out []string
	for _, p := range c44PrimByName {
		if p.Name == "Capability" {
			continue
		}
		out = append(out, p.Name)
	}
	return out
}()

var c44CommonPrims = []string{"Int", "UInt8", "UInt64", "String", "Bool", "Address", "AnyStruct", "AnyResource", "UFix64", "Character", "Path", "MetaType", "Account", "Never", "Void"}

func (g *c44Gen) prim() *c44Type {
	if g.n(2) == 0 {
		return &c44Type{K: "prim", N: g.pick(c44CommonPrims)}
	}
	return &c44Type{K: "prim", N: g.pick(c44PrimNames)}
}

func (g *c44Gen) iface() *c44Type { return &c44Type{K: "iface", Loc: g.loc(), N: g.qualifiedIdent()} }
func (g *c44Gen) comp() *c44Type  { return &c44Type{K: "comp", Loc: g.loc(), N: g.qualifiedIdent()} }

var c44Sizes = []int64{0, 1, 2, 3, 23, 24, 255, 256, 65535, 65536, 1 << 31, 1<<32 - 1, 1 << 32, 1<<63 - 1}

func (g *c44Gen) typ(depth int) *c44Type {
	if depth <= 0 {
		switch g.n(4) {
		case 0:
			return g.comp()
		case 1:
			return g.iface()
		}
		return g.prim()
	}
	switch g.n(14) {
	case 0, 1:
		return g.prim()
	case 2:
		return g.comp()
	case 3:
		return g.iface()
	case 4:
		return &c44Type{K: "opt", T: g.typ(depth - 1)}
	case 5:
		return &c44Type{K: "varr", T: g.typ(depth - 1)}
	case 6:
		return &c44Type{K: "carr", T: g.typ(depth - 1), Size: c44Sizes[g.n(len(c44Sizes))]}
	case 7:
		return &c44Type{K: "dict", Key: g.typ(depth - 1), T: g.typ(depth - 1)}
	case 8, 9:
		return g.ref(depth)
	case 10:
		n := g.n(4)
		t := &c44Type{K: "isect"}
		for i := 0; i < n; i++ {
			t.Ts = append(t.Ts, g.iface())
		}
		if g.n(4) == 0 {
			t.T = g.typ(depth - 1) // legacy restricted type
		}
		return t
	case 11:
		t := &c44Type{K: "cap"}
		if g.n(4) != 0 {
			t.T = g.typ(depth - 1)
		}
		return t
	case 12:
		return &c44Type{K: "range", T: g.typ(depth - 1)}
	}
	return g.prim()
}

func (g *c44Gen) ref(depth int) *c44Type {
	return &c44Type{K: "ref", Auth: g.auth(), T: g.typ(depth - 1)}
}

// ---------------------------------------------------------------- numbers

func (g *c44Gen) number(k string) *c44Val {
	lo, hi := c44NumRange(k)
	var v *big.Int
	one := big.NewInt(1)
	choice := g.n(10)
	switch {
	case choice == 0 && lo != nil:
		v = new(big.Int).Set(lo)
	case choice == 1 && hi != nil:
		v = new(big.Int).Set(hi)
	case choice == 2:
		v = big.NewInt(0)
	case choice == 3:
		v = big.NewInt(1)
	case choice == 4 && (lo == nil || lo.Sign() < 0):
		v = big.NewInt(-1)
	case choice == 5 && lo != nil:
		v = new(big.Int).Add(lo, one)
	case choice == 6 && hi != nil:
		v = new(big.Int).Sub(hi, one)
	default:
		// random magnitude with random bit length
		maxBits := 300
		if hi != nil {
			maxBits = hi.BitLen()
		}
		bits := 1 + g.n(maxBits)
		nb := (bits + 7) / 8
		buf := make([]byte, nb)
		for i := range buf {
			buf[i] = byte(g.n(256))
		}
		v = new(big.Int).SetBytes(buf)
		v.Rsh(v, uint(nb*8-bits))
		v.SetBit(v, bits-1, 1)
		if g.n(6) == 0 {
			// power of two +-1
			v = new(big.Int).Lsh(one, uint(bits-1))
			if g.n(2) == 0 {
				v.Sub(v, one)
			}
		}
		if (lo == nil || lo.Sign() < 0) && g.n(2) == 0 {
			v.Neg(v)
		}
	}
	if lo != nil && v.Cmp(lo) < 0 {
		v = new(big.Int).Set(lo)
	}
	if hi != nil && v.Cmp(hi) > 0 {
		v = new(big.Int).Set(hi)
	}
	return &c44Val{K: k, S: v.String()}
}

// ---------------------------------------------------------------- values

func (g *c44Gen) path() *c44Val {
	d := []string{"storage", "public", "private"}[g.n(3)]
	id := g.ident()
	if g.n(8) == 0 {
		id = g.text()
	}
	return &c44Val{K: "Path", D: d, S: id}
}

var c44IDs = []uint64{0, 1, 2, 23, 24, 255, 256, 65535, 65536, 1<<32 - 1, 1 << 32, 1<<63 - 1, 1 << 63, 1<<64 - 1}

func (g *c44Gen) id() uint64 {
	if g.n(2) == 0 {
		return c44IDs[g.n(len(c44IDs))]
	}
	return g.R.Uint64() >> uint(g.n(64))
}

func (g *c44Gen) capability() *c44Val {
	t := g.typ(2)
	if g.n(3) != 0 {
		t = g.ref(2)
	}
	return &c44Val{K: "Cap", S: g.addrHex(), U: g.id(), T: t}
}

var c44LeafKinds = append(append([]string{}, c44NumberKinds...),
	"nil", "void", "bool", "String", "String", "Character", "Address", "Path", "Path", "Cap", "Cap", "SCC", "ACC", "Pub", "Type", "Type", "Type", "Type", "Some", "Some")

func (g *c44Gen) leaf(depth int) *c44Val {
	k := g.pick(c44LeafKinds)
	if c44IsNumberKind(k) {
		return g.number(k)
	}
	switch k {
	case "nil", "void":
		return &c44Val{K: k}
	case "bool":
		return &c44Val{K: "bool", B: g.n(2) == 0}
	case "String":
		return &c44Val{K: "String", S: g.text()}
	case "Character":
		return &c44Val{K: "Character", S: g.pick(c44Characters)}
	case "Address":
		return &c44Val{K: "Address", S: g.addrHex()}
	case "Path":
		return g.path()
	case "Cap":
		return g.capability()
	case "SCC":
		return &c44Val{K: "SCC", T: g.ref(2), U: g.id(), V: g.path()}
	case "ACC":
		return &c44Val{K: "ACC", T: g.ref(2), U: g.id()}
	case "Pub":
		return &c44Val{K: "Pub", S: g.addrHex(), V: g.capability()}
	case "Type":
		if g.n(12) == 0 {
			return &c44Val{K: "Type"}
		}
		return &c44Val{K: "Type", T: g.typ(1 + g.n(3))}
	case "Some":
		if depth <= 0 {
			return &c44Val{K: "Some", V: &c44Val{K: "nil"}}
		}
		return &c44Val{K: "Some", V: g.leaf(depth - 1)}
	}
	panic("c44: unreachable leaf kind " + k)
}

var c44KeyKinds = []string{"Int", "Int8", "UInt64", "Int256", "UInt128", "Word32", "Fix64", "UFix64", "UFix128", "String", "String", "String", "Character", "bool", "Address", "Path", "Type"}

func (g *c44Gen) key(kind string) *c44Val {
	if c44IsNumberKind(kind) {
		return g.number(kind)
	}
	switch kind {
	case "String":
		return &c44Val{K: "String", S: g.text()}
	case "Character":
		return &c44Val{K: "Character", S: g.pick(c44Characters)}
	case "bool":
		return &c44Val{K: "bool", B: g.n(2) == 0}
	case "Address":
		return &c44Val{K: "Address", S: g.addrHex()}
	case "Path":
		return g.path()
	case "Type":
		// dictionary keys of type Type are identified by type ID: keep them to primitives so that distinct
		// recipes are distinct keys
		return &c44Val{K: "Type", T: g.prim()}
	}
	panic("c44: bad key kind")
}

func (g *c44Gen) count() int {
	switch g.n(12) {
	case 0:
		return 0
	case 1:
		return 1
	case 2:
		return 40 + g.n(200) // several slabs
	}
	return 2 + g.n(7)
}

// c44StaticTypeOf is the static type the tree assigns to the value a recipe describes (used to build
// precisely typed containers: insertion into a container type-checks the element against the element type).
func c44StaticTypeOf(r *c44Val) *c44Type {
	prim := func(n string) *c44Type { return &c44Type{K: "prim", N: n} }
	if c44IsNumberKind(r.K) {
		return prim(r.K)
	}
	switch r.K {
	case "nil":
		return &c44Type{K: "opt", T: prim("Never")}
	case "void":
		return prim("Void")
	case "bool":
		return prim("Bool")
	case "String", "Character", "Address":
		return prim(r.K)
	case "Path":
		return prim(map[string]string{"storage": "StoragePath", "public": "PublicPath", "private": "PrivatePath"}[r.D])
	case "Cap":
		return &c44Type{K: "cap", T: r.T}
	case "SCC":
		return prim("StorageCapabilityController")
	case "ACC":
		return prim("AccountCapabilityController")
	case "Type":
		return prim("MetaType")
	case "Some":
		return &c44Type{K: "opt", T: c44StaticTypeOf(r.V)}
	case "Array", "Dict":
		return r.T
	case "Comp":
		return &c44Type{K: "comp", Loc: r.Loc, N: r.N}
	}
	return nil
}

var c44AnyT = &c44Type{K: "prim", N: "Any"}

// element: a value that may live inside a container (no Void, no published values). Resource-kinded values
// (resource composites, possibly wrapped in optionals) only where allowRes: a struct-kinded container never
// holds a resource.
func (g *c44Gen) element(depth int, allowRes bool) *c44Val {
	for {
		var v *c44Val
		if depth <= 0 || g.n(3) != 0 {
			v = g.leaf(2)
		} else {
			v = g.container(depth, allowRes)
		}
		if c44ContainerOK(v) {
			return v
		}
	}
}

func c44ContainerOK(v *c44Val) bool {
	switch v.K {
	case "void", "Pub":
		return false
	case "Some":
		return c44ContainerOK(v.V)
	}
	return true
}

var c44PrimLeafKinds = append(append([]string{}, c44NumberKinds...), "String", "bool", "Address", "Character", "Path", "Type")

func (g *c44Gen) primLeaf() *c44Val {
	k := g.pick(c44PrimLeafKinds)
	if k == "Type" {
		return &c44Val{K: "Type", T: g.typ(1)}
	}
	return g.key(k)
}

// elements: n element recipes with the static type all of them conform to.
func (g *c44Gen) elements(n, depth int, small bool) (*c44Type, []*c44Val) {
	mode := g.n(3)
	if small {
		mode = 1 + g.n(2)
	}
	var vs []*c44Val
	switch mode {
	case 0: // heterogeneous, element type Any
		for i := 0; i < n; i++ {
			vs = append(vs, g.element(depth-1, false))
		}
		return c44AnyT, vs
	case 1: // homogeneous, exact element type
		if small || g.n(3) != 0 {
			k := g.pick(c44KeyKinds)
			for k == "Path" || k == "Type" { // static type depends on the value
				k = g.pick(c44KeyKinds)
			}
			for i := 0; i < n; i++ {
				vs = append(vs, g.key(k))
			}
			return c44StaticTypeOf(g.key(k)), vs
		}
		// copies of one template (containers / composites / capabilities of one type)
		tmpl := g.element(depth-1, false)
		for i := 0; i < n; i++ {
			vs = append(vs, tmpl)
		}
		return c44StaticTypeOf(tmpl), vs
	default: // AnyStruct over primitive leaves
		for i := 0; i < n; i++ {
			vs = append(vs, g.primLeaf())
		}
		return &c44Type{K: "prim", N: "AnyStruct"}, vs
	}
}

func (g *c44Gen) container(depth int, allowRes bool) *c44Val {
	switch g.n(7) {
	case 0, 1:
		n := g.count()
		et, vs := g.elements(n, depth, n > 20)
		r := &c44Val{K: "Array", Vs: vs}
		if g.n(4) == 0 {
			r.T = &c44Type{K: "carr", T: et, Size: int64(n)}
		} else {
			r.T = &c44Type{K: "varr", T: et}
		}
		return r
	case 2, 3:
		n := g.count()
		kk := g.pick(c44KeyKinds)
		var keys []*c44Val
		seen := map[string]bool{}
		for i := 0; i < n; i++ {
			k := g.key(kk)
			cs := c44CanonValR(k)
			if !seen[cs] {
				seen[cs] = true
				keys = append(keys, k)
			}
		}
		var kt *c44Type
		switch {
		case g.n(3) == 0:
			kt = c44AnyT
		case kk == "Path" || kk == "Type" || g.n(3) == 0:
			kt = &c44Type{K: "prim", N: "HashableStruct"}
		default:
			kt = c44StaticTypeOf(g.key(kk))
		}
		vt, vs := g.elements(len(keys), depth, n > 20)
		r := &c44Val{K: "Dict", T: &c44Type{K: "dict", Key: kt, T: vt}}
		for i, k := range keys {
			r.Vs = append(r.Vs, k, vs[i])
		}
		return r
	case 4, 5:
		n := g.n(7)
		if g.n(15) == 0 {
			n = 30 + g.n(40)
		}
		// events and composites of built-in (location-less) types are never stored; contract values are not
		// transferable (they only live in the contract domain) and constructing an attachment value needs its
		// checked base type: contracts and attachments are covered by the ledger leg instead
		kind := g.pick([]string{"struct", "enum"})
		if allowRes && g.n(2) == 0 {
			kind = "resource"
		}
		loc := g.loc()
		for loc == nil {
			loc = g.loc()
		}
		r := &c44Val{K: "Comp", Loc: loc, N: g.qualifiedIdent(), CK: kind}
		seen := map[string]bool{}
		for i := 0; i < n; i++ {
			f := g.ident()
			if seen[f] {
				continue
			}
			seen[f] = true
			r.Fs = append(r.Fs, f)
			r.Vs = append(r.Vs, g.element(depth-1, kind == "resource"))
		}
		return r
	}
	// optional container (possibly nested optionals)
	inner := g.container(depth, allowRes)
	for i := 0; i <= g.n(3); i++ {
		inner = &c44Val{K: "Some", V: inner}
	}
	return inner
}
