package stor

import (
	"bytes"
	"encoding/hex"
	"fmt"
	"math"
	"runtime/debug"
	"sort"
	"strings"

	"github.com/onflow/atree"

	"github.com/onflow/cadence/common"
	"github.com/onflow/cadence/interpreter"

	"verif/harness/core"
)

// Round-trip machinery of C44: encode / decode / canonical comparison / re-encode.

func c44Protect(f func()) (p any) {
	defer func() {
		if r := recover(); r != nil {
			p = fmt.Sprintf("%v\n%s", r, c44ShortStack(string(debug.Stack())))
		}
	}()
	f()
	return nil
}

// c44ShortStack keeps the frames of the tree under test and of this package.
func c44ShortStack(st string) string {
	lines := strings.Split(st, "\n")
	var out []string
	for i := 0; i+1 < len(lines) && len(out) < 24; i++ {
		l := lines[i]
		if strings.HasPrefix(l, "github.com/onflow/") || strings.HasPrefix(l, "verif/harness/props") {
			out = append(out, l, strings.TrimSpace(lines[i+1]))
		}
	}
	return strings.Join(out, "\n")
}

func c44NewCtx(addr common.Address) (*c44Ctx, interpreter.InMemoryStorage) {
	storage := interpreter.NewInMemoryStorage(nil, nil)
	inter, err := interpreter.NewInterpreter(nil, common.StringLocation("c44"), &interpreter.Config{Storage: storage})
	if err != nil {
		panic(err)
	}
	return &c44Ctx{Inter: inter, Addr: addr}, storage
}

func c44EncodeStorable(s atree.Storable) ([]byte, error) {
	var buf bytes.Buffer
	enc := atree.NewEncoder(&buf, interpreter.CBOREncMode)
	if err := s.Encode(enc); err != nil {
		return nil, err
	}
	if err := enc.CBOR.Flush(); err != nil {
		return nil, err
	}
	return buf.Bytes(), nil
}

// c44EncodeValue: value -> storable (everything inline) -> bytes.
func c44EncodeValue(storage atree.SlabStorage, addr common.Address, v interpreter.Value) ([]byte, error) {
	st, err := v.Storable(storage, atree.Address(addr), math.MaxUint32)
	if err != nil {
		return nil, err
	}
	return c44EncodeStorable(st)
}

// c44DecodeValue: bytes -> storable -> stored value -> interpreter value. Also reports trailing bytes.
func c44DecodeValue(storage atree.SlabStorage, b []byte) (interpreter.Value, error) {
	dec := interpreter.CBORDecMode.NewByteStreamDecoder(b)
	st, err := interpreter.DecodeStorable(dec, atree.SlabIDUndefined, nil, nil)
	if err != nil {
		return nil, err
	}
	if n := dec.NumBytesDecoded(); n != len(b) {
		return nil, fmt.Errorf("decoder consumed %d of %d bytes", n, len(b))
	}
	av, err := st.StoredValue(storage)
	if err != nil {
		return nil, err
	}
	return interpreter.ConvertStoredValue(nil, av)
}

type c44Fail struct {
	Class string // short failure class for the key
	Msg   string
	Extra map[string]any
}

// c44LeafRoundTrip runs the whole round trip on a non-container recipe; returns the encoding.
func c44LeafRoundTrip(r *c44Val) (encoded []byte, fail *c44Fail) {
	var addr common.Address
	addr[7] = 1
	var f *c44Fail
	set := func(class, msg string, extra map[string]any) {
		if f == nil {
			f = &c44Fail{class, msg, extra}
		}
	}
	p := c44Protect(func() {
		ctx, storage := c44NewCtx(addr)
		v := c44BuildVal(ctx, r)
		want := c44CanonValR(r)
		if got := c44CanonVal(ctx, v); got != want {
			set("harness-builder-mismatch", "value built from the recipe does not read back as the recipe", c44WantGot(want, got))
			return
		}
		b, err := c44EncodeValue(storage, addr, v)
		if err != nil {
			set("encode-error", err.Error(), nil)
			return
		}
		encoded = b
		d, err := c44DecodeValue(storage, b)
		if err != nil {
			set("decode-error", err.Error(), map[string]any{"bytes": hex.EncodeToString(b)})
			return
		}
		if got := c44CanonVal(ctx, d); got != want {
			set("decoded-differs", "decoded value differs from the encoded one", c44WantGot(want, got, "bytes", hex.EncodeToString(b)))
			return
		}
		if ev, ok := v.(interpreter.EquatableValue); ok && !c44HasNilType(r) {
			if !ev.Equal(ctx.Inter, d) {
				set("not-Equal", "original.Equal(decoded) is false", map[string]any{"value": want, "bytes": hex.EncodeToString(b)})
				return
			}
		}
		b2, err := c44EncodeValue(storage, addr, d)
		if err != nil {
			set("reencode-error", err.Error(), nil)
			return
		}
		if !bytes.Equal(b, b2) {
			set("reencode-differs", "re-encoding the decoded value yields different bytes", map[string]any{"first": hex.EncodeToString(b), "second": hex.EncodeToString(b2)})
		}
	})
	if p != nil {
		set("panic", fmt.Sprintf("panic: %v", p), nil)
	}
	return encoded, f
}

// c44TypeRoundTrip: StaticTypeToBytes -> StaticTypeFromBytes -> canonical equality + Equal -> identical bytes.
func c44TypeRoundTrip(t *c44Type) (encoded []byte, fail *c44Fail) {
	var f *c44Fail
	set := func(class, msg string, extra map[string]any) {
		if f == nil {
			f = &c44Fail{class, msg, extra}
		}
	}
	p := c44Protect(func() {
		st := c44BuildType(t)
		want := c44CanonTypeR(t)
		if got := c44CanonType(st); got != want {
			set("harness-builder-mismatch", "type built from the recipe does not read back as the recipe", c44WantGot(want, got))
			return
		}
		b, err := interpreter.StaticTypeToBytes(st)
		if err != nil {
			set("encode-error", err.Error(), nil)
			return
		}
		encoded = b
		d, err := interpreter.StaticTypeFromBytes(b)
		if err != nil {
			set("decode-error", err.Error(), map[string]any{"bytes": hex.EncodeToString(b)})
			return
		}
		if got := c44CanonType(d); got != want {
			set("decoded-differs", "decoded static type differs from the encoded one", c44WantGot(want, got, "bytes", hex.EncodeToString(b)))
			return
		}
		if !st.Equal(d) || !d.Equal(st) {
			set("not-Equal", "original.Equal(decoded) is false", map[string]any{"type": want})
			return
		}
		b2, err := interpreter.StaticTypeToBytes(d)
		if err != nil {
			set("reencode-error", err.Error(), nil)
			return
		}
		if !bytes.Equal(b, b2) {
			set("reencode-differs", "re-encoding the decoded type yields different bytes", map[string]any{"first": hex.EncodeToString(b), "second": hex.EncodeToString(b2)})
		}
	})
	if p != nil {
		set("panic", fmt.Sprintf("panic: %v", p), nil)
	}
	return encoded, f
}

// c44Slabs is a deterministic rendering of a slab storage: slab id (hex) -> bytes (hex), sorted by id.
type c44Slabs struct {
	IDs  []string `json:"ids"`
	Data []string `json:"data"`
}

func c44SlabIDHex(id atree.SlabID) string {
	var b [atree.SlabIDLength]byte
	_, _ = id.ToRawBytes(b[:])
	return hex.EncodeToString(b[:])
}

func c44DumpSlabs(storage interpreter.InMemoryStorage) (c44Slabs, error) {
	m, err := storage.Encode()
	if err != nil {
		return c44Slabs{}, err
	}
	type kv struct{ k, v string }
	var kvs []kv
	for id, b := range m {
		kvs = append(kvs, kv{c44SlabIDHex(id), hex.EncodeToString(b)})
	}
	sort.Slice(kvs, func(i, j int) bool { return kvs[i].k < kvs[j].k })
	var out c44Slabs
	for _, e := range kvs {
		out.IDs = append(out.IDs, e.k)
		out.Data = append(out.Data, e.v)
	}
	return out, nil
}

func (s c44Slabs) equal(o c44Slabs) (bool, string) {
	if len(s.IDs) != len(o.IDs) {
		return false, fmt.Sprintf("slab count %d vs %d", len(s.IDs), len(o.IDs))
	}
	for i := range s.IDs {
		if s.IDs[i] != o.IDs[i] {
			return false, fmt.Sprintf("slab id #%d: %s vs %s", i, s.IDs[i], o.IDs[i])
		}
		if s.Data[i] != o.Data[i] {
			return false, fmt.Sprintf("slab %s: %s vs %s", s.IDs[i], s.Data[i], o.Data[i])
		}
	}
	return true, ""
}

// c44LoadSlabs decodes every slab into a fresh storage.
func c44LoadSlabs(s c44Slabs) (interpreter.InMemoryStorage, error) {
	storage := interpreter.NewInMemoryStorage(nil, nil)
	for i, idHex := range s.IDs {
		raw, err := hex.DecodeString(idHex)
		if err != nil {
			return storage, err
		}
		id, err := atree.NewSlabIDFromRawBytes(raw)
		if err != nil {
			return storage, err
		}
		data, err := hex.DecodeString(s.Data[i])
		if err != nil {
			return storage, err
		}
		slab, err := atree.DecodeSlab(id, data, interpreter.CBORDecMode, storage.DecodeStorable, storage.DecodeTypeInfo)
		if err != nil {
			return storage, fmt.Errorf("slab %s: %w", idHex, err)
		}
		if err := storage.Store(id, slab); err != nil {
			return storage, err
		}
	}
	return storage, nil
}

// c44Built: all slabs of a storage that holds one holder array `[Any]` whose single element is the recipe's
// value (the holder plays the role of the account storage map: the value may be inlined into it or referenced
// by slab id, exactly as a stored value would be). Root is the holder's slab id (hex).
type c44Built struct {
	Slabs c44Slabs
	Root  string
}

var c44HolderType = interpreter.NewVariableSizedStaticType(nil, interpreter.PrimitiveStaticTypeAny)

// c44BuildContainer builds the value of a recipe inside a holder in a fresh in-memory slab storage.
// buildErr reports a value the harness could not construct (not a codec failure).
func c44BuildContainer(r *c44Val, addr common.Address) (ctx *c44Ctx, storage interpreter.InMemoryStorage, v interpreter.Value, built c44Built, buildErr any, err error) {
	// like a program does: the value is constructed in temporary (zero-address) slabs and then moved into the
	// account by storing it into the holder
	ctx, storage = c44NewCtx(common.ZeroAddress)
	var holder *interpreter.ArrayValue
	buildErr = c44Protect(func() {
		v = c44BuildVal(ctx, r)
		holder = interpreter.NewArrayValue(ctx.Inter, c44HolderType, addr, v)
	})
	if buildErr != nil {
		return
	}
	built.Root = c44SlabIDHex(holder.SlabID())
	v = holder.Get(ctx.Inter, 0)
	built.Slabs, err = c44DumpSlabs(storage)
	return
}

// c44ContainerFromSlabs decodes golden/previous slabs and loads the holder's element.
func c44ContainerFromSlabs(b c44Built, addr common.Address) (*c44Ctx, interpreter.InMemoryStorage, interpreter.Value, error) {
	storage, err := c44LoadSlabs(b.Slabs)
	if err != nil {
		return nil, storage, nil, err
	}
	inter, err := interpreter.NewInterpreter(nil, common.StringLocation("c44"), &interpreter.Config{Storage: storage})
	if err != nil {
		return nil, storage, nil, err
	}
	ctx := &c44Ctx{Inter: inter, Addr: addr}
	raw, err := hex.DecodeString(b.Root)
	if err != nil {
		return nil, storage, nil, err
	}
	id, err := atree.NewSlabIDFromRawBytes(raw)
	if err != nil {
		return nil, storage, nil, err
	}
	hv := interpreter.StoredValue(nil, atree.SlabIDStorable(id), storage)
	holder, ok := hv.(*interpreter.ArrayValue)
	if !ok {
		return nil, storage, nil, fmt.Errorf("holder decodes to %T", hv)
	}
	if holder.Count() != 1 {
		return nil, storage, nil, fmt.Errorf("holder has %d elements", holder.Count())
	}
	if got := c44CanonType(holder.Type); got != "VA(P:Any)" {
		return nil, storage, nil, fmt.Errorf("holder type decodes to %s", got)
	}
	return ctx, storage, holder.Get(inter, 0), nil
}

// c44HasNilType: a type value holding the unknown (nil) type is by definition not equal to itself.
func c44HasNilType(r *c44Val) bool {
	if r == nil {
		return false
	}
	if r.K == "Type" && r.T == nil {
		return true
	}
	if c44HasNilType(r.V) {
		return true
	}
	for _, e := range r.Vs {
		if c44HasNilType(e) {
			return true
		}
	}
	return false
}

// c44ContainerRoundTrip: rejected=true means the harness could not build the value (not counted as a case).
func c44ContainerRoundTrip(r *c44Val, addr common.Address) (built c44Built, fail *c44Fail, rejected string) {
	var f *c44Fail
	set := func(class, msg string, extra map[string]any) {
		if f == nil {
			f = &c44Fail{class, msg, extra}
		}
	}
	p := c44Protect(func() {
		ctx, _, v, b, buildErr, err := c44BuildContainer(r, addr)
		if buildErr != nil {
			rejected = fmt.Sprint(buildErr)
			return
		}
		if err != nil {
			set("encode-error", err.Error(), nil)
			return
		}
		built = b
		want := c44CanonValR(r)
		if got := c44CanonVal(ctx, v); got != want {
			set("harness-builder-mismatch", "container built from the recipe does not read back as the recipe", c44WantGot(want, got))
			return
		}
		ctx2, storage2, d, err := c44ContainerFromSlabs(b, addr)
		if err != nil {
			set("decode-error", err.Error(), nil)
			return
		}
		if got := c44CanonVal(ctx2, d); got != want {
			set("decoded-differs", "value decoded from the slabs differs from the encoded one", c44WantGot(want, got))
			return
		}
		// re-encode all decoded slabs
		again, err := c44DumpSlabs(storage2)
		if err != nil {
			set("reencode-error", err.Error(), nil)
			return
		}
		if ok, why := b.Slabs.equal(again); !ok {
			set("reencode-differs", "re-encoding the decoded slabs yields different bytes: "+core.Clip(why, 600), nil)
			return
		}
		// Equal of the tree under test, both values living in the same storage
		if c44HasNilType(r) {
			return
		}
		ctxB := &c44Ctx{Inter: ctx2.Inter, Addr: common.ZeroAddress}
		copyV := c44BuildVal(ctxB, r)
		if ev, ok := copyV.(interpreter.EquatableValue); ok {
			if !ev.Equal(ctx2.Inter, d) {
				set("not-Equal", "rebuilt.Equal(decoded) is false", map[string]any{"value": core.Clip(want, 2000)})
			}
		}
	})
	if p != nil {
		set("panic", fmt.Sprintf("panic: %v", p), nil)
	}
	return built, f, rejected
}

// c44WantGot renders an expected/observed pair, clipped around the first difference.
func c44WantGot(want, got string, kv ...string) map[string]any {
	i := 0
	for i < len(want) && i < len(got) && want[i] == got[i] {
		i++
	}
	lo := i - 300
	if lo < 0 {
		lo = 0
	}
	win := func(s string) string {
		hi := i + 300
		if hi > len(s) {
			hi = len(s)
		}
		if lo > len(s) {
			return ""
		}
		return s[lo:hi]
	}
	m := map[string]any{"want": core.Clip(want, 1500), "got": core.Clip(got, 1500), "first_difference_at": i,
		"want_around_difference": win(want), "got_around_difference": win(got)}
	for j := 0; j+1 < len(kv); j += 2 {
		m[kv[j]] = core.Clip(kv[j+1], 3000)
	}
	return m
}
