package syntax

import (
	"strings"
	"unicode/utf8"
)

// An independent lexical scanner of Cadence sources, written from the language's lexical rules
// (it shares no code with parser/lexer nor with formatter/trivia). It is used to
//   - find the comments of a source (C39),
//   - split sources into lexical chunks for the mutators (C37) and the minimiser.

type chunkKind uint8

const (
	ckSpace chunkKind = iota
	ckWord            // identifiers, keywords, numbers
	ckPunct
	ckString // a string literal piece (from a quote or interpolation end to the next interpolation start / end quote)
	ckLineComment
	ckBlockComment
)

type chunk struct {
	Kind  chunkKind
	Start int
	End   int // exclusive
}

func isWordByte(c byte) bool {
	return c == '_' || c >= 'a' && c <= 'z' || c >= 'A' && c <= 'Z' || c >= '0' && c <= '9'
}

// scanChunks splits src into chunks covering it completely.
// String templates: inside `\( ... )` the scanner is back in code mode (parentheses balanced, as the
// lexer does), so comments inside interpolations are found as comments.
func scanChunks(src []byte) []chunk {
	var out []chunk
	n := len(src)
	i := 0
	interp := false
	open := 0
	add := func(k chunkKind, s, e int) {
		if e > s {
			out = append(out, chunk{k, s, e})
		}
	}
	// scanString scans from i (just after an opening quote or just after the `)` closing an
	// interpolation) to the end of this string piece; returns the new index.
	scanString := func(i int) int {
		for i < n {
			c := src[i]
			switch c {
			case '"':
				return i + 1
			case '\n':
				return i
			case '\\':
				if i+1 < n && src[i+1] == '(' {
					interp = true
					return i
				}
				if i+1 >= n || src[i+1] == '\n' {
					return i + 1
				}
				// skip the escaped character (whole code point)
				_, w := utf8.DecodeRune(src[i+1:])
				i += 1 + w
				continue
			}
			i++
		}
		return i
	}
	for i < n {
		c := src[i]
		switch {
		case c == ' ' || c == '\t' || c == '\r' || c == '\n':
			j := i
			for j < n && (src[j] == ' ' || src[j] == '\t' || src[j] == '\r' || src[j] == '\n') {
				j++
			}
			add(ckSpace, i, j)
			i = j
		case isWordByte(c):
			j := i
			for j < n && isWordByte(src[j]) {
				j++
			}
			// fixed-point literal: digits '.' digits
			if c >= '0' && c <= '9' && j+1 < n && src[j] == '.' && src[j+1] >= '0' && src[j+1] <= '9' {
				j++
				for j < n && isWordByte(src[j]) {
					j++
				}
			}
			add(ckWord, i, j)
			i = j
		case c == '"':
			j := scanString(i + 1)
			add(ckString, i, j)
			i = j
		case c == '/' && i+1 < n && src[i+1] == '/':
			j := i
			for j < n && src[j] != '\n' {
				j++
			}
			add(ckLineComment, i, j)
			i = j
		case c == '/' && i+1 < n && src[i+1] == '*':
			depth := 0
			j := i
			for j < n {
				if src[j] == '/' && j+1 < n && src[j+1] == '*' {
					depth++
					j += 2
					continue
				}
				if src[j] == '*' && j+1 < n && src[j+1] == '/' {
					depth--
					j += 2
					if depth == 0 {
						break
					}
					continue
				}
				j++
			}
			add(ckBlockComment, i, j)
			i = j
		case c == '\\' && interp && i+1 < n && src[i+1] == '(':
			open++
			add(ckPunct, i, i+2)
			i += 2
		case c == '(':
			if interp {
				open++
			}
			add(ckPunct, i, i+1)
			i++
		case c == ')':
			add(ckPunct, i, i+1)
			i++
			if interp {
				open--
				if open == 0 {
					interp = false
					j := scanString(i)
					add(ckString, i, j)
					i = j
				}
			}
		default:
			// multi-character operators are kept together so that token-level mutations see them as units
			w := 1
			if c >= 0x80 {
				_, w = utf8.DecodeRune(src[i:])
			} else {
				for _, op := range []string{"<-!", "<->", "<-", "<<", "<=", ">=", "==", "!=", "&&", "||", "??", "?.", "->"} {
					if strings.HasPrefix(string(src[i:min(n, i+3)]), op) {
						w = len(op)
						break
					}
				}
			}
			add(ckPunct, i, i+w)
			i += w
		}
	}
	return out
}

// comment is one comment found in a source.
type comment struct {
	Text  string
	Start int
	Block bool
}

func scanComments(src []byte) []comment {
	var cs []comment
	for _, ch := range scanChunks(src) {
		if ch.Kind == ckLineComment || ch.Kind == ckBlockComment {
			cs = append(cs, comment{Text: string(src[ch.Start:ch.End]), Start: ch.Start, Block: ch.Kind == ckBlockComment})
		}
	}
	return cs
}

// normComment: layout-insensitive form of a comment text. Trailing whitespace of a line comment and
// the indentation / trailing whitespace of the lines of a block comment are layout, not text.
func normComment(c comment) string {
	if !c.Block {
		return strings.TrimRight(c.Text, " \t\r")
	}
	lines := strings.Split(c.Text, "\n")
	for i, l := range lines {
		lines[i] = strings.TrimSpace(l)
	}
	return strings.Join(lines, "\n")
}

// ---------------------------------------------------------------- delta minimiser

// ddmin reduces items to a 1-minimal subsequence for which test holds (budget = max test calls).
func ddmin(items []string, test func([]string) bool, budget *int) []string {
	n := 2
	for len(items) >= 2 {
		if n > len(items) {
			n = len(items)
		}
		size := (len(items) + n - 1) / n
		reduced := false
		for i := 0; i < len(items); i += size {
			j := min(i+size, len(items))
			cand := make([]string, 0, len(items)-(j-i))
			cand = append(cand, items[:i]...)
			cand = append(cand, items[j:]...)
			if *budget <= 0 {
				return items
			}
			*budget--
			if test(cand) {
				items = cand
				n = max(n-1, 2)
				reduced = true
				break
			}
		}
		if !reduced {
			if n >= len(items) {
				break
			}
			n = min(n*2, len(items))
		}
	}
	if len(items) == 1 && *budget > 0 {
		*budget--
		if test(nil) {
			return nil
		}
	}
	return items
}

func bracketPass(toks []string, pred func(string) bool, budget *int) []string {
	for changed := true; changed && *budget > 0; {
		changed = false
		// matching pairs
		type pair struct{ i, j int }
		var pairs []pair
		var stack []int
		for k, t := range toks {
			switch t {
			case "(", "[", "{":
				stack = append(stack, k)
			case ")", "]", "}":
				if len(stack) > 0 {
					pairs = append(pairs, pair{stack[len(stack)-1], k})
					stack = stack[:len(stack)-1]
				}
			}
		}
		// larger pairs first
		for a := 0; a < len(pairs); a++ {
			for b := a + 1; b < len(pairs); b++ {
				if pairs[b].j-pairs[b].i > pairs[a].j-pairs[a].i {
					pairs[a], pairs[b] = pairs[b], pairs[a]
				}
			}
		}
		for _, p := range pairs {
			if *budget <= 0 {
				break
			}
			try := func(lo, hi int) bool { // remove toks[lo:hi]
				if hi <= lo {
					return false
				}
				cand := append(append([]string{}, toks[:lo]...), toks[hi:]...)
				*budget--
				if pred(strings.Join(cand, "")) {
					toks = cand
					return true
				}
				return false
			}
			if try(p.i, p.j+1) || (p.j-p.i > 1 && try(p.i+1, p.j)) {
				changed = true
				break
			}
		}
	}
	return toks
}

// windowPass tries to delete every contiguous window of up to 14 chunks (small inputs only).
func windowPass(toks []string, pred func(string) bool, budget *int) []string {
	if len(toks) > 160 {
		return toks
	}
	for w := 14; w >= 2; w-- {
		for i := 0; i+w <= len(toks) && *budget > 0; {
			cand := append(append([]string{}, toks[:i]...), toks[i+w:]...)
			*budget--
			if pred(strings.Join(cand, "")) {
				toks = cand
			} else {
				i++
			}
		}
	}
	return toks
}

// minimize shrinks src while pred keeps holding: first over lines, then over lexical chunks
// (comments and string pieces are single chunks), repeated until no progress.
func minimize(src string, pred func(string) bool, budget int) string {
	if !pred(src) {
		return src
	}
	for round := 0; round < 3 && budget > 0; round++ {
		before := len(src)
		lines := strings.SplitAfter(src, "\n")
		lines = ddmin(lines, func(c []string) bool { return pred(strings.Join(c, "")) }, &budget)
		src = strings.Join(lines, "")
		var toks []string
		b := []byte(src)
		for _, ch := range scanChunks(b) {
			toks = append(toks, string(b[ch.Start:ch.End]))
		}
		toks = ddmin(toks, func(c []string) bool { return pred(strings.Join(c, "")) }, &budget)
		src = strings.Join(toks, "")
		// balanced-bracket pass: drop the inside of a bracket pair, or the pair with its content
		toks = bracketPass(toks, pred, &budget)
		toks = windowPass(toks, pred, &budget)
		src = strings.Join(toks, "")
		// collapse whitespace runs
		if budget > 0 {
			var sb strings.Builder
			b = []byte(src)
			for _, ch := range scanChunks(b) {
				s := string(b[ch.Start:ch.End])
				if ch.Kind == ckSpace {
					if strings.Contains(s, "\n") {
						s = "\n"
					} else {
						s = " "
					}
				}
				sb.WriteString(s)
			}
			budget--
			if c := sb.String(); len(c) < len(src) && pred(c) {
				src = c
			}
		}
		// character level (inside comments / strings / numbers), for small remainders
		if budget > 0 && len(src) <= 6000 {
			var chars []string
			for i := 0; i < len(src); {
				_, w := utf8.DecodeRuneInString(src[i:])
				chars = append(chars, src[i:i+w])
				i += w
			}
			chars = ddmin(chars, func(c []string) bool { return pred(strings.Join(c, "")) }, &budget)
			src = strings.Join(chars, "")
		}
		if len(src) >= before {
			break
		}
	}
	return src
}
