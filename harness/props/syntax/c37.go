package syntax

import (
	"encoding/base64"
	"encoding/json"
	"fmt"
	"math/rand/v2"
	"runtime"
	"strconv"
	"strings"
	"unicode/utf8"

	"github.com/onflow/cadence/ast"
	"github.com/onflow/cadence/common"
	cerrors "github.com/onflow/cadence/errors"
	"github.com/onflow/cadence/parser"
	"github.com/onflow/cadence/parser/lexer"
	"github.com/onflow/cadence/sema"
	"github.com/onflow/cadence/stdlib"

	"verif/harness/core"
)

// C37 — lexing, parsing and checking are total and report in-range positions.

func init() {
	core.Register(&core.Prop{
		ID:    "C37",
		Level: "exploration",
		Rule: "inputs = grammar-generated programs (plain / random whitespace / comments), the repository's .cdc files, 1-4 random mutations of those " +
			"(token insert/delete/duplicate/swap/replace, byte flip/insert/delete, truncation, bracket imbalance, unterminated strings/comments, huge literals, splices, invalid UTF-8, NUL), " +
			"token soup, random bytes and 48 nesting families at depth 10..10000; every input is lexed (after a clean and after a dirty pooled lexer), parsed and, when accepted, checked; distinct = input content hash",
		Assumptions: []string{
			"line = 1 + number of '\\n' before the offset; a column is accepted when it equals the code-point count or the byte count since the line start (ast.Position documents bytes, the lexer counts code points); for an end position inside a multi-byte rune the column of that rune is accepted too",
			"the token stream must cover the whole input when the parser accepts it; when the parser rejects the input the lexer may stop early (error token, unterminated comment/template) but emitted tokens must still be ordered and contiguous",
			"error classes: parser.Error / sema.CheckerError / errors.UserError are the expected returns; an errors.InternalError anywhere in the chain, an unclassified Go error or a panic is a violation",
			"checker: plain sema.NewChecker with the default script standard library in the base value activation, no import handler (imports are reported as unresolved)",
		},
		NumCases: func(tier string) int {
			if tier == "thorough" {
				return 1600
			}
			return 96
		},
		Run: runC37,
		Floors: map[string]int64{
			"inputs":                  20000,
			"gen_accept_pct":          50, // acceptance rate of un-mutated generated programs by the real parser (set in Finalize)
			"parse_accepted":          3000,
			"parse_rejected":          5000,
			"checked":                 3000,
			"check_ok":                20,
			"check_errors":            1000,
			"tokens_checked":          1000000,
			"multibyte_inputs":        500,
			"invalid_utf8_inputs":     300,
			"pool_reused":             5000,
			"fresh_lexer_compared":    100,
			"dirty_vs_clean_compared": 10000,
			"nest_inputs":             200,
			"corpus_inputs":           20,
			"error_positions":         10000,
			"ast_positions":           100000,
			"lexer_error_tokens":      500,
			"cover_partial_rejected":  50,
		},
		Finalize: func(a *core.Agg) {
			gen := a.Counters["gen_base"]
			acc := a.Counters["gen_base_accepted"]
			if gen > 0 {
				a.Counters["gen_accept_pct"] = acc * 100 / gen
			}
			finalizeC37(a)
		},
	})
}

// ---------------------------------------------------------------- independent position model

type posModel struct {
	n       int
	line    []int32 // line of each offset 0..n
	cpCol   []int32 // code points started in [lineStart, offset)
	byteCol []int32
	rstart  []int32 // start offset of the rune containing offset
}

func newPosModel(in []byte) *posModel {
	n := len(in)
	m := &posModel{n: n, line: make([]int32, n+2), cpCol: make([]int32, n+2), byteCol: make([]int32, n+2), rstart: make([]int32, n+2)}
	line, cp, lineStart := int32(1), int32(0), 0
	i := 0
	for i < n {
		_, w := utf8.DecodeRune(in[i:])
		if w <= 0 {
			w = 1
		}
		for k := 0; k < w; k++ {
			m.line[i+k] = line
			m.byteCol[i+k] = int32(i + k - lineStart)
			m.rstart[i+k] = int32(i)
			if k == 0 {
				m.cpCol[i+k] = cp
			} else {
				m.cpCol[i+k] = cp + 1
			}
		}
		cp++
		if in[i] == '\n' {
			line++
			cp = 0
			lineStart = i + 1
		}
		i += w
	}
	for k := n; k < n+2; k++ {
		m.line[k] = line
		m.cpCol[k] = cp + int32(k-n)
		m.byteCol[k] = int32(k - lineStart)
		m.rstart[k] = int32(k)
	}
	return m
}

// ok reports whether position p agrees with the recomputation under one rule:
// rule 0 = columns count code points, rule 1 = columns count bytes. For an end position (the last byte
// of a token) lying inside a multi-byte rune both readings of "column of that byte" are accepted.
func (m *posModel) ok(p ast.Position, rule int, end bool) bool {
	o := p.Offset
	if o < 0 || o > m.n || int32(p.Line) != m.line[o] {
		return false
	}
	c := int32(p.Column)
	if rule == 1 {
		return c == m.byteCol[o]
	}
	return c == m.cpCol[o] || end && c == m.cpCol[m.rstart[o]]
}

func (m *posModel) startOK(p ast.Position) bool {
	o := p.Offset
	if o < 0 || o > m.n {
		return false
	}
	if int32(p.Line) != m.line[o] {
		return false
	}
	c := int32(p.Column)
	return c == m.cpCol[o] || c == m.byteCol[o]
}

func (m *posModel) endOK(p ast.Position) bool {
	o := p.Offset
	if o < 0 || o > m.n {
		return false
	}
	if int32(p.Line) != m.line[o] {
		return false
	}
	c := int32(p.Column)
	return c == m.cpCol[o] || c == m.byteCol[o] || c == m.cpCol[m.rstart[o]]
}

// ---------------------------------------------------------------- tokens

type tokRec struct {
	Type lexer.TokenType
	ast.Range
	Err string
	NL  bool
}

func collectTokens(ts lexer.TokenStream) []tokRec {
	var out []tokRec
	for i := 0; i < (1<<19)+8; i++ {
		t := ts.Next()
		r := tokRec{Type: t.Type, Range: t.Range}
		switch v := t.SpaceOrError.(type) {
		case error:
			r.Err = v.Error()
		case lexer.Space:
			r.NL = v.ContainsNewline
		}
		out = append(out, r)
		if t.Type == lexer.TokenEOF {
			break
		}
	}
	return out
}

func sameTokens(a, b []tokRec) (int, bool) {
	if len(a) != len(b) {
		n := min(len(a), len(b))
		for i := 0; i < n; i++ {
			if a[i] != b[i] {
				return i, false
			}
		}
		return n, false
	}
	for i := range a {
		if a[i] != b[i] {
			return i, false
		}
	}
	return 0, true
}

// lexOnce lexes src; returns the tokens, Lex's error and the stream's identity (pointer) for pool monitoring.
func lexOnce(src []byte) (toks []tokRec, err error, id string, pi *panicInfo) {
	pi = guard(func() {
		var ts lexer.TokenStream
		ts, err = lexer.Lex(src, nil)
		if ts != nil {
			id = fmt.Sprintf("%p", ts)
		}
		if err == nil {
			toks = collectTokens(ts)
		}
		if ts != nil {
			ts.Reclaim()
		}
	})
	return
}

var c37Seeds = []string{
	"let A: A = //\n0Y", "0Y", "let x = 0x", "let x = 0b", "let x = 1.", "let x = \"\\(a)\\(b)\" + c", "\"\\()\\(", "fun f():auth(",
	"fun f() { switch x { \"\\()", "/*日*/ let x = 1", "let s = \"日本\\(x)\" + y", "\"\\u{", "\"\\u{110000}\"", "\"\\u{FFFFFFFFFFFFFFFFFFFF}\"",
	"#!", "import 0x", "import 0xFFFFFFFFFFFFFFFFFFFFFFFFFFFFFFFFFFFFF", "let x = 0xFFFFFFFFFFFFFFFFFFFFFFFFFFFFFFFFFFFFFFFFFFFFFFFFFFFFFFFFFFFFFFFFFFFFFFFFF", "let x: [Int; 99999999999999999999999] = []",
	"transaction(q: InclusiveRange) {}", "entitlement mapping M {}", "access(all) resource R { event ResourceDestroyed(a: Int = 1[0]) }", "let x = \"\\((((\"\\(a)\")))\"",
	"/* /* */", "let x = a as", "let x = a as?", "fun f(", "fun f(a", "fun f(a:", "struct S: ", "let x = f<", "let x = f<T", "let x = f<T>", "pub(set) var x: Int", "access(", "access(mapping",
	"\xef\xbb\xbflet x = 1", "let x = 1\x00", "let \xff = 1", "\u2028let x = 1", "let x = \"\xc3\"",
}

var dirtyInputs = [][]byte{
	[]byte("\"\\("),
	[]byte("\"a \\((((x"),
	[]byte("let s = \"\\(\"\\(1"),
	[]byte("/* /* open"),
	[]byte("\"unterminated\n\"\\(a"),
	[]byte("x \xff"),
	[]byte("1."),
}

var cleanInput = []byte("let clean = 1\n")

type c37State struct {
	quiet    bool
	c        *core.Ctx
	lastID   string
	minLeft  map[string]int
	checkCfg *sema.Config
}

func quoteInput(b []byte) string {
	return clipS(strconv.Quote(string(b)), 3000)
}

func isUserClass(err error) bool {
	switch err.(type) {
	case parser.Error, sema.CheckerError, *sema.CheckerError:
		return true
	}
	return cerrors.IsUserError(err)
}

// visitErrors calls f for err and everything reachable through Unwrap / ChildErrors.
func visitErrors(err error, f func(error), depth int) {
	if err == nil || depth > 12 {
		return
	}
	f(err)
	switch x := err.(type) {
	case interface{ Unwrap() []error }:
		for _, e := range x.Unwrap() {
			visitErrors(e, f, depth+1)
		}
		return
	case cerrors.ParentError:
		for _, e := range x.ChildErrors() {
			visitErrors(e, f, depth+1)
		}
		return
	case interface{ Unwrap() error }:
		visitErrors(x.Unwrap(), f, depth+1)
	}
}

// findInternal returns the first internal-class error in the chain and a site for its key.
func findInternal(err error) (error, string) {
	var found error
	site := ""
	visitErrors(err, func(e error) {
		if found != nil {
			return
		}
		if _, ok := e.(cerrors.InternalError); ok {
			found = e
			if ue, ok := e.(cerrors.UnexpectedError); ok && len(ue.Stack) > 0 {
				site = stackSite(string(ue.Stack))
			} else {
				site = fmt.Sprintf("%T", e)
			}
		}
	}, 0)
	return found, site
}

type c37Finding struct {
	Key    string
	Msg    string
	Detail map[string]any
}

// evalInput runs the whole oracle on one input and returns the findings (no side effects on counters
// when quiet is set: used by the minimiser).
func (s *c37State) evalInput(src []byte, quiet bool) []c37Finding {
	return s.evalPhases(src, quiet, phLex|phParse|phCheck)
}

const (
	phLex = 1 << iota
	phParse
	phCheck
)

// phasesFor returns the phases needed to reproduce a finding of the given key (for the minimiser).
func phasesFor(key string) int {
	switch {
	case strings.HasPrefix(key, "token-coverage"):
		return phLex | phParse
	case strings.HasPrefix(key, "token-") || strings.HasPrefix(key, "lex-"):
		return phLex
	case strings.HasPrefix(key, "check-") || strings.Contains(key, ":check:"):
		return phParse | phCheck
	default:
		return phParse
	}
}

func (s *c37State) evalPhases(src []byte, quiet bool, phases int) []c37Finding {
	s.quiet = quiet
	src = src[:len(src):len(src)] // no spare capacity: reads past the end fault instead of seeing stale bytes
	c := s.c
	var out []c37Finding
	add := func(key, msg string, detail map[string]any) {
		out = append(out, c37Finding{key, msg, detail})
	}
	count := func(name string, n int64) {
		if !quiet {
			c.Count(name, n)
		}
	}
	n := len(src)
	pm := newPosModel(src)

	var toksA []tokRec
	var errA error
	var piA *panicInfo
	if phases&phLex != 0 {
		// ---- lexing: after a clean input, and after a dirty input (pool reuse)
		_, _, idClean, _ := lexOnce(cleanInput)
		var idA string
		toksA, errA, idA, piA = lexOnce(src)
		if idA == idClean && idA != "" {
			count("pool_reused", 1)
		}
		dirty := dirtyInputs[(n+len(out))%len(dirtyInputs)]
		_, _, idDirty, _ := lexOnce(dirty)
		toksB, errB, idB, piB := lexOnce(src)
		if idB == idDirty && idB != "" {
			count("pool_reused", 1)
		}
		if piA != nil || piB != nil {
			pi := piA
			if pi == nil {
				pi = piB
			}
			add("lex-panic:"+pi.Site, "lexer.Lex panicked: "+pi.Value, map[string]any{"stack": pi.Stack})
		}
		if errA != nil {
			count("lex_errors", 1)
			if !isUserClass(errA) {
				add("lex-error-class:"+fmt.Sprintf("%T", errA), "lexer.Lex returned a non-user-class error: "+clipS(firstLine(errA.Error()), 300), nil)
			}
		}
		if (errA == nil) != (errB == nil) {
			add("token-pool-reuse-diff:error", fmt.Sprintf("lexing after a clean input err=%v, after a dirty input err=%v", errA, errB), nil)
		} else if errA == nil {
			count("dirty_vs_clean_compared", 1)
			if i, ok := sameTokens(toksA, toksB); !ok {
				add("token-pool-reuse-diff", fmt.Sprintf("token %d differs between lexing after a clean input and after the dirty input %q", i, dirty),
					map[string]any{"dirty_input": string(dirty), "index": i, "after_clean": fmt.Sprint(tokAt(toksA, i)), "after_dirty": fmt.Sprint(tokAt(toksB, i))})
			}
		}
	}
	if phases&(phParse|phCheck) == 0 {
		if errA == nil && piA == nil {
			s.checkTokens(src, pm, toksA, false, add, count)
		}
		return out
	}

	// ---- parsing
	prog, perr, ppi := parseProg(src)
	accepted := false
	if ppi != nil {
		add("parse-panic:"+ppi.Site, "parser.ParseProgram panicked: "+ppi.Value, map[string]any{"stack": ppi.Stack})
	} else if perr != nil {
		count("parse_rejected", 1)
		if ie, site := findInternal(perr); ie != nil {
			add("parse-internal-error:"+site, "parser.ParseProgram returned an internal error: "+clipS(firstLine(stripStack(ie.Error())), 300),
				map[string]any{"error": clipS(ie.Error(), 2500)})
		} else if !isUserClass(perr) {
			add("parse-error-class:"+fmt.Sprintf("%T", perr), "parser.ParseProgram returned an unclassified error: "+clipS(firstLine(perr.Error()), 300), nil)
		}
		s.checkErrorPositions(perr, n, "parse", add, count)
	} else {
		accepted = true
		count("parse_accepted", 1)
	}

	// ---- token stream oracle
	if phases&phLex != 0 && errA == nil && piA == nil {
		s.checkTokens(src, pm, toksA, accepted, add, count)
	}

	// ---- AST positions
	if prog != nil && ppi == nil {
		s.checkAST(prog, n, accepted, add, count)
	}

	// ---- checking
	if accepted && phases&phCheck != 0 {
		var cerr error
		cpi := guard(func() {
			var checker *sema.Checker
			checker, cerr = sema.NewChecker(prog, common.StringLocation("test"), nil, s.checkCfg)
			if cerr == nil {
				cerr = checker.Check()
			}
		})
		count("checked", 1)
		if cpi != nil {
			add("check-panic:"+cpi.Site, "sema.Checker.Check panicked: "+cpi.Value, map[string]any{"stack": cpi.Stack})
		} else if cerr != nil {
			count("check_errors", 1)
			if ie, site := findInternal(cerr); ie != nil {
				add("check-internal-error:"+site, "Checker.Check returned an internal error: "+clipS(firstLine(stripStack(ie.Error())), 300),
					map[string]any{"error": clipS(ie.Error(), 2500)})
			} else if !isUserClass(cerr) {
				add("check-error-class:"+fmt.Sprintf("%T", cerr), "Checker.Check returned an unclassified error: "+clipS(firstLine(cerr.Error()), 300), nil)
			}
			s.checkErrorPositions(cerr, n, "check", add, count)
		} else {
			count("check_ok", 1)
		}
	}
	return out
}

func stripStack(s string) string {
	if i := strings.Index(s, "\ngoroutine "); i >= 0 {
		return s[:i]
	}
	return s
}

func tokAt(t []tokRec, i int) any {
	if i < len(t) {
		return fmt.Sprintf("%s %+v err=%q", t[i].Type, t[i].Range, t[i].Err)
	}
	return "<none>"
}

func (s *c37State) checkErrorPositions(err error, n int, phase string, add func(string, string, map[string]any), count func(string, int64)) {
	visitErrors(err, func(e error) {
		hp, ok := e.(ast.HasPosition)
		if !ok {
			return
		}
		var sp, ep ast.Position
		pi := guard(func() {
			sp = hp.StartPosition()
			ep = hp.EndPosition(nil)
		})
		if pi != nil {
			add(fmt.Sprintf("error-position-panic:%T", e), "computing an error's position panicked: "+pi.Value, map[string]any{"stack": pi.Stack})
			return
		}
		count("error_positions", 2)
		if sp.Offset < 0 || sp.Offset > n || ep.Offset < 0 || ep.Offset > n {
			add(fmt.Sprintf("error-position-out-of-range:%s:%T", phase, e),
				fmt.Sprintf("%T reports range %v-%v outside the input of %d bytes: %s", e, sp, ep, n, clipS(firstLine(e.Error()), 200)), nil)
		}
	}, 0)
}

func (s *c37State) checkTokens(src []byte, pm *posModel, toks []tokRec, accepted bool, add func(string, string, map[string]any), count func(string, int64)) {
	n := len(src)
	next := 0 // expected start offset of the next covering token
	var prev *tokRec
	prevEmpty := false
	reported := map[string]bool{}
	once := func(key, msg string, d map[string]any) {
		if !reported[key] {
			reported[key] = true
			add(key, msg, d)
		}
	}
	// Line/column: the stream must agree with the recomputation either under the code-point rule for all
	// tokens or under the byte rule for all tokens. If it agrees with neither, the first token that breaks
	// the code-point rule (the lexer's evident rule) is reported; later tokens of the line are consequences.
	firstBad := [2]int{-1, -1}
	for rule := 0; rule < 2; rule++ {
		for i := range toks {
			t := &toks[i]
			if t.Type == lexer.TokenEOF {
				break
			}
			if t.StartPos.Offset < 0 || t.StartPos.Offset > n || t.EndPos.Offset < -1 || t.EndPos.Offset >= n {
				continue
			}
			bad := false
			switch {
			case t.Type == lexer.TokenError:
				bad = !pm.ok(t.StartPos, rule, true)
			case t.EndPos.Offset < t.StartPos.Offset:
				bad = !pm.ok(t.StartPos, rule, false)
			default:
				bad = !pm.ok(t.StartPos, rule, false) || !pm.ok(t.EndPos, rule, true)
			}
			if bad {
				firstBad[rule] = i
				break
			}
		}
	}
	linecolBad := -1
	if firstBad[0] >= 0 && firstBad[1] >= 0 {
		linecolBad = firstBad[0]
	}
	rangeReported := false
	count("tokens_checked", int64(len(toks)))
	for i := range toks {
		t := &toks[i]
		if t.Type == lexer.TokenEOF {
			if (t.StartPos.Offset < 0 || t.StartPos.Offset > n) && !rangeReported {
				once("token-eof-out-of-range", fmt.Sprintf("EOF token at offset %d, input has %d bytes", t.StartPos.Offset, n), nil)
			}
			break
		}
		so, eo := t.StartPos.Offset, t.EndPos.Offset
		if so < 0 || eo >= n || so > n || eo < -1 {
			rangeReported = true
			once("token-out-of-range:"+t.Type.String(), fmt.Sprintf("token %d (%s) has range %d..%d, input has %d bytes", i, t.Type, so, eo, n), nil)
			continue
		}
		if t.Type == lexer.TokenError {
			count("lexer_error_tokens", 1)
			if i == linecolBad {
				once("token-linecol:error-token", fmt.Sprintf("error token %d at offset %d reports line %d column %d; recomputed line %d, column %d (code points) / %d (bytes)",
					i, so, t.StartPos.Line, t.StartPos.Column, pm.line[so], pm.cpCol[so], pm.byteCol[so]), nil)
			}
			continue
		}
		empty := eo < so
		if empty {
			count("empty_tokens", 1)
			if eo != so-1 {
				once("token-inverted:"+t.Type.String(), fmt.Sprintf("token %d (%s) has end %d before start %d", i, t.Type, eo, so), nil)
			}
		}
		if so != next {
			kind := "gap"
			if so < next {
				kind = "overlap"
			}
			pt := "BOF"
			if prev != nil {
				pt = prev.Type.String()
			}
			once("token-"+kind+":after="+pt+":at="+t.Type.String(),
				fmt.Sprintf("token %d (%s) starts at offset %d, previous token ended at %d (%s)", i, t.Type, so, next-1, kind), nil)
		}
		// line / column against the independent recomputation
		if i == linecolBad && !pm.ok(t.StartPos, 0, false) {
			pt, cause := "BOF", "other"
			if prev != nil {
				pt = prev.Type.String()
				switch {
				case prevEmpty:
					cause = "prev-token-empty"
				case prev.EndPos.Offset >= 0 && int(pm.rstart[prev.EndPos.Offset]) != prev.EndPos.Offset:
					cause = "prev-ends-in-multibyte-rune"
				}
			}
			once(fmt.Sprintf("token-linecol:start:after=%s:%s", pt, cause),
				fmt.Sprintf("token %d (%s) at offset %d reports line %d column %d; recomputed from the offset: line %d, column %d (code points) or %d (bytes)",
					i, t.Type, so, t.StartPos.Line, t.StartPos.Column, pm.line[so], pm.cpCol[so], pm.byteCol[so]),
				map[string]any{"token_index": i})
		}
		if i == linecolBad && pm.ok(t.StartPos, 0, false) {
			w := eo - int(pm.rstart[eo]) + 1
			once(fmt.Sprintf("token-linecol:end:%s:last-rune-bytes=%d", t.Type, w),
				fmt.Sprintf("token %d (%s) ending at offset %d reports line %d column %d; recomputed: line %d, column %d/%d (code points) or %d (bytes)",
					i, t.Type, eo, t.EndPos.Line, t.EndPos.Column, pm.line[eo], pm.cpCol[pm.rstart[eo]], pm.cpCol[eo], pm.byteCol[eo]),
				map[string]any{"token_index": i})
		}
		if !empty {
			next = eo + 1
		}
		prevEmpty = empty
		prev = t
	}
	if rangeReported {
		return
	}
	if next < n {
		// the lexer stopped before the end of the input
		if accepted {
			once("token-coverage:accepted-input", fmt.Sprintf("tokens cover only [0,%d) of %d bytes although the parser accepts the input", next, n), nil)
		} else {
			count("cover_partial_rejected", 1)
		}
	} else if next > n {
		once("token-coverage:beyond-input", fmt.Sprintf("tokens extend to offset %d, input has %d bytes", next, n), nil)
	} else {
		count("cover_full", 1)
	}
}

// checkAST: every element's start/end inside the input and start <= end (accepted programs);
// for a sample also every position-valued key of the JSON form (covers fields that are not elements).
func (s *c37State) checkAST(prog *ast.Program, n int, accepted bool, add func(string, string, map[string]any), count func(string, int64)) {
	reported := map[string]bool{}
	depth, maxDepth := 0, 0
	pi := guard(func() {
		ast.Inspect(prog, func(e ast.Element) bool {
			if e == nil {
				depth--
				return false
			}
			depth++
			if depth > maxDepth {
				maxDepth = depth
			}
			if e.ElementType() == ast.ElementTypeProgram {
				return true
			}
			sp := e.StartPosition()
			ep := e.EndPosition(nil)
			count("ast_positions", 2)
			k := e.ElementType().String()
			if sp.Offset < 0 || sp.Offset > n || ep.Offset < 0 || ep.Offset > n {
				if !reported["r"+k] {
					reported["r"+k] = true
					add("ast-position-out-of-range:"+k, fmt.Sprintf("%s node has range %v-%v outside the input of %d bytes", k, sp, ep, n), nil)
				}
			} else if accepted && ep.Offset < sp.Offset {
				if !reported["i"+k] {
					reported["i"+k] = true
					add("ast-range-inverted:"+k, fmt.Sprintf("%s node of an accepted program starts at %v and ends before it at %v", k, sp, ep), nil)
				}
			}
			return true
		})
	})
	if pi != nil {
		if accepted {
			add("ast-walk-panic:"+pi.Site, "walking the AST of an accepted program panicked: "+pi.Value, map[string]any{"stack": pi.Stack})
		} else {
			count("partial_ast_walk_panics", 1)
		}
		return
	}
	// the JSON form costs O(size x depth) (nested MarshalJSON): only for a sample of small inputs
	if !accepted || n > 8000 || maxDepth > 150 || (!s.quiet && s.c.Rng.IntN(6) != 0) {
		return
	}
	b, err := json.Marshal(prog)
	if err != nil {
		return
	}
	var v any
	if json.Unmarshal(b, &v) != nil {
		return
	}
	var walk func(v any, kind string, key string)
	walk = func(v any, kind, key string) {
		switch x := v.(type) {
		case map[string]any:
			if k := nodeKind(x); k != "" {
				kind = k
			}
			if off, ok := x["Offset"].(float64); ok && len(x) == 3 {
				count("ast_positions", 1)
				if int(off) < 0 || int(off) > n {
					rk := "j" + kind + key
					if !reported[rk] {
						reported[rk] = true
						add("ast-position-out-of-range:"+kind+"."+key, fmt.Sprintf("%s.%s has offset %d outside the input of %d bytes", kind, key, int(off), n), nil)
					}
				}
				return
			}
			for k, e := range x {
				walk(e, kind, k)
			}
		case []any:
			for _, e := range x {
				walk(e, kind, key)
			}
		}
	}
	walk(v, "Program", "")
}

// ---------------------------------------------------------------- case driver

func newC37State(c *core.Ctx) *c37State {
	base := sema.NewVariableActivation(sema.BaseValueActivation)
	for _, v := range stdlib.InterpreterDefaultScriptStandardLibraryValues(nil) {
		base.DeclareValue(v)
	}
	cfg := &sema.Config{
		AccessCheckMode:            sema.AccessCheckModeNotSpecifiedUnrestricted,
		ExtendedElaborationEnabled: true,
		SuggestionsEnabled:         true,
		PositionInfoEnabled:        c.Case%2 == 0,
		BaseValueActivationHandler: func(common.Location) *sema.VariableActivation { return base },
	}
	if c.Case%3 == 0 {
		cfg.AccessCheckMode = sema.AccessCheckModeStrict
	}
	return &c37State{c: c, minLeft: map[string]int{}, checkCfg: cfg}
}

// submit evaluates an input, and reports each finding after minimising the input for its key.
func (s *c37State) submit(src []byte, origin map[string]any) {
	c := s.c
	c.Eval(1)
	c.Inc("inputs")
	c.Distinct(string(src))
	if !utf8.Valid(src) {
		c.Inc("invalid_utf8_inputs")
	} else if len(src) != utf8.RuneCount(src) {
		c.Inc("multibyte_inputs")
	}
	fs := s.evalInput(src, false)
	for _, f := range fs {
		// the input is minimised once per key by the parent (Finalize); the key does not depend on it
		w := map[string]any{"input": quoteInput(src), "input_bytes": len(src), "origin": origin}
		if len(src) <= 20000 {
			w["raw_b64"] = base64.StdEncoding.EncodeToString(src)
		}
		for k, v := range f.Detail {
			w[k] = v
		}
		c.Violate(f.Key, f.Msg, w)
	}
}

// finalizeC37 minimises the witness input of the first violation of every key (delta minimiser over
// lines and lexical chunks, re-running the phases of the oracle that produced the key).
func finalizeC37(a *core.Agg) {
	done := map[string]bool{}
	for i := range a.Violations {
		v := &a.Violations[i]
		w, ok := v.Witness.(map[string]any)
		if !ok {
			continue
		}
		raw, _ := w["raw_b64"].(string)
		delete(w, "raw_b64")
		if done[v.Key] || raw == "" || len(done) >= 40 {
			continue
		}
		done[v.Key] = true
		src, err := base64.StdEncoding.DecodeString(raw)
		if err != nil || len(src) < 8 {
			continue
		}
		cs := max(v.Case, 0)
		s := newC37State(&core.Ctx{Prop: "C37", Tier: a.Tier, Seed: a.Seed, Case: cs, Rng: core.CaseRng(a.Seed, "C37", a.Tier, cs)})
		key := v.Key
		ph := phasesFor(key)
		holds := func(cand string) *c37Finding {
			for _, g := range s.evalPhases([]byte(cand), true, ph) {
				if g.Key == key {
					return &g
				}
			}
			return nil
		}
		m := minimize(string(src), func(cand string) bool { return holds(cand) != nil }, min(15000, 1+20_000_000/len(src)))
		if g := holds(m); g != nil && len(m) < len(src) {
			w["original_input"] = w["input"]
			w["input"] = quoteInput([]byte(m))
			w["input_bytes"] = len(m)
			v.Msg = g.Msg
			for k, d := range g.Detail {
				w[k] = d
			}
		}
	}
}

func runC37(c *core.Ctx) {
	s := newC37State(c)
	r := c.Rng
	kind := (c.Case + c.Case/16) % 16 // rotate so that one shard does not get all cases of a kind
	perCase := c.Pick(620, 1900)
	switch {
	case kind == 0:
		// deep nesting families
		c.Inc("nest_cases")
		depths := []int{10, 15, 16, 17, 18, 33, 64, 100, 257, 1000, 4000, 10000}
		grp := (c.Case / 16) % 6
		for i, k := range nestKinds {
			if i%6 != grp {
				continue
			}
			for _, d := range depths {
				d = capDepth(k, d)
				in := nestBomb(k, d)
				c.Inc("nest_inputs")
				s.submit([]byte(in), map[string]any{"kind": "nest", "family": k, "depth": d})
			}
			// random depth
			d := capDepth(k, 10+r.IntN(9990))
			c.Inc("nest_inputs")
			s.submit([]byte(nestBomb(k, d)), map[string]any{"kind": "nest", "family": k, "depth": d})
		}
		s.freshCompare(r, perCase/8)
	case kind == 1:
		// repository .cdc files and their mutants
		files := repoCorpus()
		if len(files) == 0 {
			c.Inc("corpus_missing")
			return
		}
		nf := c.Pick(6, 10)
		budget := perCase / 2
		for j := 0; j < nf; j++ {
			f := files[(c.Case/16*nf+j)%len(files)]
			c.Inc("corpus_inputs")
			s.submit(f.Src, map[string]any{"kind": "corpus", "file": f.Path})
			for m := 0; m < budget/nf; m++ {
				mut, kinds := mutate(r, f.Src, 1+r.IntN(3))
				s.submit(mut, map[string]any{"kind": "corpus-mutant", "file": f.Path, "mutations": kinds})
			}
		}
	case kind == 2:
		// fixed hostile seeds (earlier observations and hand-written edge cases), then token soup and random bytes
		for _, seed := range c37Seeds {
			s.submit([]byte(seed), map[string]any{"kind": "seed"})
		}
		for i := 0; i < perCase; i++ {
			var b []byte
			if i%3 == 0 {
				n := 1 + r.IntN(64)
				b = make([]byte, n)
				for k := range b {
					b[k] = byte(r.IntN(256))
				}
				c.Inc("random_bytes_inputs")
			} else {
				var sb strings.Builder
				n := 1 + r.IntN(40)
				for k := 0; k < n; k++ {
					sb.WriteString(mutVocab[r.IntN(len(mutVocab))])
					if r.IntN(3) > 0 {
						sb.WriteByte(' ')
					}
				}
				b = []byte(sb.String())
				c.Inc("token_soup_inputs")
			}
			s.submit(b, map[string]any{"kind": "soup"})
		}
	default:
		// generated programs and their mutants
		done := 0
		for done < perCase {
			g := genProgram(r, 1+r.IntN(3))
			var src string
			mode := r.IntN(4)
			switch mode {
			case 0, 1:
				src = renderPlain(g.toks)
			case 2:
				src = renderVaried(g.toks, r)
			default:
				src, _ = renderTrivia(g.toks, r, triviaOpts{Density: []int{0, 5, 30}[r.IntN(3)], BlankLines: 15, Semis: 15})
			}
			for k, v := range g.feat {
				c.Count("feat:"+k, int64(v))
			}
			c.Inc("gen_base")
			if mode <= 2 {
				if _, err, _ := parseProg([]byte(src)); err == nil {
					c.Inc("gen_base_accepted")
				}
			} else {
				c.Count("gen_base", -1)
			}
			s.submit([]byte(src), map[string]any{"kind": "generated", "render": mode})
			done++
			nm := 6 + r.IntN(10)
			for m := 0; m < nm && done < perCase; m++ {
				mut, kinds := mutate(r, []byte(src), 1+r.IntN(4))
				s.submit(mut, map[string]any{"kind": "generated-mutant", "mutations": kinds})
				done++
			}
		}
		if kind == 3 {
			s.freshCompare(r, 12)
		}
	}
	if c.WantSample() && c.Case < 16 {
		g := genProgram(rand.New(rand.NewPCG(uint64(c.Case), 1)), 1)
		c.Sample(map[string]any{"case": c.Case, "example_generated_input": clipS(renderPlain(g.toks), 600)})
	}
}

// capDepth bounds the width of two families whose *checking* time grows super-quadratically with the
// number of elements on the unchanged tree (10 000 switch cases: > 6 min, 10 000 nested composites: 43 s);
// the checker terminates on them, which is all the property asks, so they are kept small enough for the time budget.
func capDepth(family string, d int) int {
	switch family {
	case "switch-cases":
		return min(d, 600)
	case "nested-composites":
		return min(d, 1500)
	}
	return d
}

// freshCompare: lex inputs with a lexer that certainly comes fresh from the pool's New (two GCs empty
// a sync.Pool) and compare with the tokens obtained from a re-used, previously dirtied lexer.
func (s *c37State) freshCompare(r *rand.Rand, k int) {
	c := s.c
	for i := 0; i < k; i++ {
		g := genProgram(r, 1)
		src := []byte(renderVaried(g.toks, r))
		if i%2 == 1 {
			src, _ = mutate(r, src, 1+r.IntN(3))
		}
		runtime.GC()
		runtime.GC()
		fresh, errF, idF, _ := lexOnce(src)
		_, _, _, _ = lexOnce(dirtyInputs[i%len(dirtyInputs)])
		again, errR, idR, _ := lexOnce(src)
		_ = idF
		_ = idR
		if errF != nil || errR != nil {
			continue
		}
		c.Inc("fresh_lexer_compared")
		if j, ok := sameTokens(fresh, again); !ok {
			c.Violate("token-pool-reuse-diff:fresh-vs-reused",
				fmt.Sprintf("token %d differs between a fresh lexer and a pooled lexer re-used after %q", j, dirtyInputs[i%len(dirtyInputs)]),
				map[string]any{"input": quoteInput(src), "fresh": fmt.Sprint(tokAt(fresh, j)), "reused": fmt.Sprint(tokAt(again, j))})
		}
	}
}
